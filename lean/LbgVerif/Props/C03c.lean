/-
  C03 (part c) — memoised properties of `Polyline2D`, `Polyline3D`, `Face3D`, `Polyface3D`
  are never stale.  Hand-written literal cache machines `Model/PolylineCache.lean`,
  `Model/FaceCache.lean`, `Model/PolyfaceCache.lean` (state = defining data + every memo
  slot as an `Option` with its value), tied to the code by `corr/polycache.py`.

  For each machine: `…Inv` = "every filled slot holds what a freshly built object with the same
  defining data computes"; `…_fresh`; one theorem per getter (value = fresh value, receiver
  stays valid); `…_step` (every operation preserves the invariant); `…_history` (induction
  over arbitrary operation lists); `…read…_after_history` (the C03 statement).

  What is PROVED outright (cache logic): which slots every method carries, drops, recomputes
  or multiplies — for all histories.  Geometric facts about fresh values used on the way:
    * proved here / in Lemmas: length and perimeter under distance-keeping maps, reversal and
      scalings (`|k|`), polygon area under mirrored reversal and affine maps, polyline
      self-intersection under affine maps (`selfInt2_map`), plane coordinates under
      `move / rotate / rotate_xy / reflect / flip` of a valid plane (via Props/C02), correctness
      of the carried edge table under loop reversal, `_is_solid` = fresh `_is_solid`;
    * assumed as explicit, state-dependent side conditions (`Valid2`, `ValidF`, `ValidPf`), each
      needed only when the slot in question is actually cached:
        - Polyline2D.reverse: `is_self_intersecting` of the reversed vertex list is unchanged;
        - Face3D.reflect / flip: `is_convex` / `is_self_intersecting` of the mirrored, reversed
          plane polygon are unchanged;
        - Face3D.scale (plane recomputed from the vertices): fresh area × k², flags unchanged
          (false for k = 0: example below — degenerate face, outside the property's domain);
        - Polyface3D transforms: the mapped cached faces are indistinguishable from the faces a
          fresh polyface builds (equivariance of the constructor + `get_outward_faces`, the
          subject of C07), and — for `_volume` — invariance of the divergence sum (true for
          closed solids, false for open shells: `open_shell_volume_not_invariant`).

  History of the code these theorems are about (defects found while modelling, all fixed in
  /repo; the former behaviour made the step theorem FALSE):
    * Face3D.scale(k<0) multiplied `_perimeter` by `k` (a1750ed: `abs(k)`);
    * Polyface3D.scale(k<0) multiplied `_volume` by `k³` and kept inward-pointing `_faces`
      (310b0a2: `abs(k)³`, loops reversed, faces dropped);
    * Polyline2D/3D.remove_colinear_vertices carried `_length` over (83959c4: only `_interpolated`);
    * Face3D.from_regular_polygon seeded `_center` with the plane origin (d955cf5: removed).
-/
import LbgVerif.Model.PolylineCache
import LbgVerif.Lemmas.PolylineCache
import LbgVerif.Model.FaceCache
import LbgVerif.Lemmas.FaceCache
import LbgVerif.Props.C02
import LbgVerif.Model.PolyfaceCache
import LbgVerif.Lemmas.EdgeInfo
import LbgVerif.Lemmas.PolyfaceCache
import Mathlib.Tactic.Ring
import Mathlib.Tactic.Linarith
import Mathlib.Tactic.LinearCombination
import Mathlib.Tactic.NormNum
import Mathlib.Algebra.Order.Field.Rat

set_option linter.unusedSectionVars false
set_option linter.unusedVariables false
set_option linter.unusedSimpArgs false

namespace Lbg.Props.C03c
open Lbg Lbg.Gen Lbg.Lemmas Lbg.Model Lbg.Model.MeshCache Lbg.Model.PolylineCache Lbg.Model.FaceCache

variable {α : Type} [Field α] [LinearOrder α] [IsStrictOrderedRing α]

/-! ## 1. Polyline2D -/

/-- Fresh value of `Base2DIn2D.center`. -/
def centerOf2 (vs : List (V2 α)) : V2 α :=
  ⟨((calcMinMax vs).1.x + (calcMinMax vs).2.x) / 2, ((calcMinMax vs).1.y + (calcMinMax vs).2.y) / 2⟩

/-- "No cached value is stale" for `Polyline2D`: every filled memo slot holds what a freshly
built `Polyline2D(vertices, interpolated)` computes. -/
structure PInv2 (M : MathOps α) (s : PL2 α) : Prop where
  min : ∀ m, s.min = some m → m = (calcMinMax s.vertices).1
  max : ∀ m, s.max = some m → m = (calcMinMax s.vertices).2
  center : ∀ c, s.center = some c → c = centerOf2 s.vertices
  segments : ∀ l, s.segments = some l → l = segs2 s.vertices
  length : ∀ a, s.length = some a → a = length2 M s.vertices
  selfint : ∀ b, s.is_self_intersecting = some b → b = selfInt2 s.vertices

/-- A fresh `Polyline2D` caches nothing. -/
theorem pinv2_fresh (M : MathOps α) (vs : List (V2 α)) (i : Bool) : PInv2 M (fresh2 vs i) := by
  constructor <;> intro x hx <;> simp [fresh2] at hx

/-- `segments` under a valid cache: the fresh value; the cache stays valid. -/
theorem readSegments2_spec (M : MathOps α) (s : PL2 α) (h : PInv2 M s) :
    (readSegments2 s).1 = segs2 s.vertices ∧ (readSegments2 s).2.vertices = s.vertices ∧
    (readSegments2 s).2.interpolated = s.interpolated ∧ PInv2 M (readSegments2 s).2 := by
  obtain ⟨h1, h2, h3, h4, h5, h6⟩ := h
  unfold readSegments2
  cases hs : s.segments with
  | some l => exact ⟨h4 l hs, rfl, rfl, ⟨h1, h2, h3, h4, h5, h6⟩⟩
  | none =>
    refine ⟨rfl, rfl, rfl, ⟨h1, h2, h3, ?_, h5, h6⟩⟩
    intro l hl
    simp only [Option.some.injEq] at hl
    exact hl.symm

/-- `length` under a valid cache: the fresh value; the cache stays valid. -/
theorem readLength2_spec (M : MathOps α) (s : PL2 α) (h : PInv2 M s) :
    (readLength2 M s).1 = length2 M s.vertices ∧ (readLength2 M s).2.vertices = s.vertices ∧
    (readLength2 M s).2.interpolated = s.interpolated ∧ PInv2 M (readLength2 M s).2 := by
  unfold readLength2
  cases hl : s.length with
  | some a => exact ⟨h.length a hl, rfl, rfl, h⟩
  | none =>
    obtain ⟨e1, e2, e3, h'⟩ := readSegments2_spec M s h
    obtain ⟨h1, h2, h3, h4, h5, h6⟩ := h'
    simp only []
    refine ⟨by rw [e1]; rfl, e2, e3, ⟨h1, h2, h3, h4, ?_, h6⟩⟩
    intro a ha
    simp only [Option.some.injEq] at ha
    rw [← ha, e1, e2]; rfl

/-- `is_self_intersecting` under a valid cache. -/
theorem readSelfInt2_spec (M : MathOps α) (s : PL2 α) (h : PInv2 M s) :
    (readSelfInt2 s).1 = selfInt2 s.vertices ∧ (readSelfInt2 s).2.vertices = s.vertices ∧
    (readSelfInt2 s).2.interpolated = s.interpolated ∧ PInv2 M (readSelfInt2 s).2 := by
  unfold readSelfInt2
  cases hl : s.is_self_intersecting with
  | some a => exact ⟨h.selfint a hl, rfl, rfl, h⟩
  | none =>
    obtain ⟨e1, e2, e3, h'⟩ := readSegments2_spec M s h
    obtain ⟨h1, h2, h3, h4, h5, h6⟩ := h'
    simp only []
    refine ⟨by rw [e1]; rfl, e2, e3, ⟨h1, h2, h3, h4, h5, ?_⟩⟩
    intro a ha
    simp only [Option.some.injEq] at ha
    rw [← ha, e1, e2]; rfl

/-- `min` under a valid cache. -/
theorem readMin2_spec (M : MathOps α) (s : PL2 α) (h : PInv2 M s) :
    (readMin2 s).1 = (calcMinMax s.vertices).1 ∧ (readMin2 s).2.vertices = s.vertices ∧
    (readMin2 s).2.interpolated = s.interpolated ∧ PInv2 M (readMin2 s).2 := by
  obtain ⟨h1, h2, h3, h4, h5, h6⟩ := h
  unfold readMin2
  cases hs : s.min with
  | some l => exact ⟨h1 l hs, rfl, rfl, ⟨h1, h2, h3, h4, h5, h6⟩⟩
  | none =>
    refine ⟨rfl, rfl, rfl, ⟨?_, ?_, h3, h4, h5, h6⟩⟩ <;>
    · intro l hl
      simp only [Option.some.injEq] at hl
      exact hl.symm

/-- `max` under a valid cache. -/
theorem readMax2_spec (M : MathOps α) (s : PL2 α) (h : PInv2 M s) :
    (readMax2 s).1 = (calcMinMax s.vertices).2 ∧ (readMax2 s).2.vertices = s.vertices ∧
    (readMax2 s).2.interpolated = s.interpolated ∧ PInv2 M (readMax2 s).2 := by
  obtain ⟨h1, h2, h3, h4, h5, h6⟩ := h
  unfold readMax2
  cases hs : s.max with
  | some l => exact ⟨h2 l hs, rfl, rfl, ⟨h1, h2, h3, h4, h5, h6⟩⟩
  | none =>
    refine ⟨rfl, rfl, rfl, ⟨?_, ?_, h3, h4, h5, h6⟩⟩ <;>
    · intro l hl
      simp only [Option.some.injEq] at hl
      exact hl.symm

/-- `center` under a valid cache. -/
theorem readCenter2_spec (M : MathOps α) (s : PL2 α) (h : PInv2 M s) :
    (readCenter2 s).1 = centerOf2 s.vertices ∧ (readCenter2 s).2.vertices = s.vertices ∧
    (readCenter2 s).2.interpolated = s.interpolated ∧ PInv2 M (readCenter2 s).2 := by
  unfold readCenter2
  cases hc : s.center with
  | some c => exact ⟨h.center c hc, rfl, rfl, h⟩
  | none =>
    obtain ⟨a1, a2, a3, ha⟩ := readMin2_spec M s h
    obtain ⟨b1, b2, b3, hb⟩ := readMax2_spec M (readMin2 s).2 ha
    obtain ⟨h1, h2, h3, h4, h5, h6⟩ := hb
    simp only []
    have hv : (readMax2 (readMin2 s).2).1 = (calcMinMax s.vertices).2 := by rw [b1, a2]
    refine ⟨by rw [a1, hv]; rfl, by rw [b2, a2], by rw [b3, a3], ⟨h1, h2, ?_, h4, h5, h6⟩⟩
    intro c hc'
    simp only [Option.some.injEq] at hc'
    rw [← hc', a1, hv]
    show _ = centerOf2 (readMax2 (readMin2 s).2).2.vertices
    rw [b2, a2]; rfl

/-! ### Methods returning a new polyline -/

/-- `_transfer_properties` onto new vertices with the same fresh length and self-intersection
flag keeps the cache valid. -/
theorem pinv2_transfer (M : MathOps α) (s : PL2 α) (h : PInv2 M s) (vs' : List (V2 α))
    (hl : s.length ≠ none → length2 M vs' = length2 M s.vertices)
    (hi : s.is_self_intersecting ≠ none → selfInt2 vs' = selfInt2 s.vertices) :
    PInv2 M (transfer2 s vs') := by
  refine ⟨?_, ?_, ?_, ?_, ?_, ?_⟩
  · intro x hx; simp [transfer2, fresh2] at hx
  · intro x hx; simp [transfer2, fresh2] at hx
  · intro x hx; simp [transfer2, fresh2] at hx
  · intro x hx; simp [transfer2, fresh2] at hx
  · intro a ha
    have ha' : s.length = some a := ha
    show a = length2 M vs'
    rw [hl (by rw [ha']; simp)]
    exact h.length a ha'
  · intro b hb
    have hb' : s.is_self_intersecting = some b := hb
    show b = selfInt2 vs'
    rw [hi (by rw [hb']; simp)]
    exact h.selfint b hb'

/-- Side conditions of the operations, on the state they are applied to.
`rigid g` (move / rotate / reflect): `g` keeps distances, and the self-intersection test of the
mapped vertices answers as before (true for every affine `g` with non-zero determinant:
`valid2_move`, `valid2_rotate`, `valid2_reflect`).  `reverse`: the self-intersection test of the
reversed vertex list answers as before (it tests the same pairs of segments; not proved here,
needed only when the flag is cached). -/
def Valid2 (s : PL2 α) : Op2 α → Prop
  | .rigid g => (∀ p q, V2.normSq (V2.sub (g p) (g q)) = V2.normSq (V2.sub p q)) ∧
      (s.is_self_intersecting ≠ none → selfInt2 (s.vertices.map g) = selfInt2 s.vertices)
  | .reverse => s.is_self_intersecting ≠ none → selfInt2 s.vertices.reverse = selfInt2 s.vertices
  | _ => True

/-- `move` is admissible. -/
theorem valid2_move (s : PL2 α) (v : V2 α) : Valid2 s (.rigid (fun p => p2_move p v)) :=
  ⟨fun p q => by simp only [V2.normSq, V2.sub, p2_move]; ring,
   fun _ => selfInt2_map _ 1 0 0 1 v.x v.y (affine2_move v) (by norm_num) _⟩

/-- `rotate` is admissible (`cos² + sin² = 1`). -/
theorem valid2_rotate (M : MathOps α) (s : PL2 α) (θ : α) (o : V2 α)
    (hcs : M.cos θ * M.cos θ + M.sin θ * M.sin θ = 1) :
    Valid2 s (.rigid (fun p => p2_rotate M p θ o)) := by
  refine ⟨fun p q => ?_, fun _ => selfInt2_map _ _ _ _ _ _ _ (affine2_rotate M θ o) ?_ _⟩
  · simp only [V2.normSq, V2.sub, p2_rotate]
    linear_combination ((p.x - q.x) * (p.x - q.x) + (p.y - q.y) * (p.y - q.y)) * hcs
  · have : M.cos θ * M.cos θ - -(M.sin θ) * M.sin θ = 1 := by linear_combination hcs
    rw [this]; exact one_ne_zero

/-- `reflect` is admissible (unit normal). -/
theorem valid2_reflect (s : PL2 α) (n o : V2 α) (hn : n.x * n.x + n.y * n.y = 1) :
    Valid2 s (.rigid (fun p => p2_reflect p n o)) := by
  refine ⟨fun p q => ?_, fun _ => selfInt2_map _ _ _ _ _ _ _ (affine2_reflect n o) ?_ _⟩
  · simp only [V2.normSq, V2.sub, p2_reflect]
    linear_combination (4 * ((p.x - q.x) * n.x + (p.y - q.y) * n.y) ^ 2) * hn
  · have : (1 - 2 * n.x * n.x) * (1 - 2 * n.y * n.y) - -(2 * n.x * n.y) * -(2 * n.x * n.y) = -1 := by
      linear_combination (-2 : α) * hn
    rw [this]; norm_num

/-- **Every operation of the `Polyline2D` cache machine preserves the invariant.** -/
theorem pinv2_step (M : MathOps α) (s : PL2 α) (op : Op2 α) (hv : Valid2 s op) (h : PInv2 M s) :
    PInv2 M (step2 M s op) := by
  cases op with
  | readSegments => exact (readSegments2_spec M s h).2.2.2
  | readLength => exact (readLength2_spec M s h).2.2.2
  | readSelfInt => exact (readSelfInt2_spec M s h).2.2.2
  | readMin => exact (readMin2_spec M s h).2.2.2
  | readMax => exact (readMax2_spec M s h).2.2.2
  | readCenter => exact (readCenter2_spec M s h).2.2.2
  | duplicate => exact pinv2_fresh M _ _
  | reverse =>
    exact pinv2_transfer M s h _ (fun _ => length2_reverse M s.vertices) hv
  | rigid g =>
    exact pinv2_transfer M s h _ (fun _ => length2_map M g hv.1 s.vertices) hv.2
  | scale k o => exact pinv2_fresh M _ _
  | scaleWorld k => exact pinv2_fresh M _ _
  | removeColinear tol =>
    show PInv2 M (removeColinear2 s tol)
    unfold removeColinear2
    split
    · exact h
    · exact pinv2_fresh M _ _

/-- Admissibility of a whole history (each operation on the state it meets). -/
def ValidHist2 (M : MathOps α) : PL2 α → List (Op2 α) → Prop
  | _, [] => True
  | s, op :: ops => Valid2 s op ∧ ValidHist2 M (step2 M s op) ops

/-- The invariant after EVERY history (induction over the operation list). -/
theorem pinv2_history (M : MathOps α) (s0 : PL2 α) (h0 : PInv2 M s0) (ops : List (Op2 α))
    (hv : ValidHist2 M s0 ops) : PInv2 M (ops.foldl (step2 M) s0) := by
  induction ops generalizing s0 with
  | nil => exact h0
  | cons op ops ih =>
    simp only [List.foldl_cons]
    exact ih _ (pinv2_step M s0 op hv.1 h0) hv.2

/-- **C03 for Polyline2D.**  After any admissible history starting from a valid state (in
particular from a fresh polyline), every memoising getter answers exactly what a freshly
built `Polyline2D` with the same vertices computes. -/
theorem pread2_after_history (M : MathOps α) (s0 : PL2 α) (h0 : PInv2 M s0) (ops : List (Op2 α))
    (hv : ValidHist2 M s0 ops) :
    let s := ops.foldl (step2 M) s0
    let f := fresh2 s.vertices s.interpolated
    (readSegments2 s).1 = (readSegments2 f).1 ∧ (readLength2 M s).1 = (readLength2 M f).1 ∧
    (readSelfInt2 s).1 = (readSelfInt2 f).1 ∧ (readMin2 s).1 = (readMin2 f).1 ∧
    (readMax2 s).1 = (readMax2 f).1 ∧ (readCenter2 s).1 = (readCenter2 f).1 := by
  intro s f
  have hi : PInv2 M s := pinv2_history M s0 h0 ops hv
  have hf : PInv2 M f := pinv2_fresh M _ _
  exact ⟨(readSegments2_spec M s hi).1.trans (readSegments2_spec M f hf).1.symm,
    (readLength2_spec M s hi).1.trans (readLength2_spec M f hf).1.symm,
    (readSelfInt2_spec M s hi).1.trans (readSelfInt2_spec M f hf).1.symm,
    (readMin2_spec M s hi).1.trans (readMin2_spec M f hf).1.symm,
    (readMax2_spec M s hi).1.trans (readMax2_spec M f hf).1.symm,
    (readCenter2_spec M s hi).1.trans (readCenter2_spec M f hf).1.symm⟩

/-- **The scale case**: `length` read, then `scale(k, origin)` (any `k`, also negative or
zero), then `length` read again gives `|k| ·` the first answer — the cached `_length` is not
carried over unscaled. -/
theorem length2_read_scale_read (M : MathOps α)
    (hsqrt : ∀ x, 0 ≤ x → M.sqrt x * M.sqrt x = x ∧ 0 ≤ M.sqrt x)
    (s : PL2 α) (h : PInv2 M s) (k : α) (o : V2 α) :
    (readLength2 M (scale2 (readLength2 M s).2 k o)).1 = |k| * (readLength2 M s).1 := by
  obtain ⟨e1, e2, _, _⟩ := readLength2_spec M s h
  have hf : PInv2 M (scale2 (readLength2 M s).2 k o) := pinv2_fresh M _ _
  rw [(readLength2_spec M _ hf).1, e1]
  show length2 M ((readLength2 M s).2.vertices.map _) = _
  rw [e2]
  exact length2_scale M hsqrt k _ (fun p q => by
    simp only [V2.normSq, V2.sub, p2_scale]; ring) s.vertices

/-- The same for `scale(k)` about the world origin. -/
theorem length2_read_scaleWorld_read (M : MathOps α)
    (hsqrt : ∀ x, 0 ≤ x → M.sqrt x * M.sqrt x = x ∧ 0 ≤ M.sqrt x)
    (s : PL2 α) (h : PInv2 M s) (k : α) :
    (readLength2 M (scaleWorld2 (readLength2 M s).2 k)).1 = |k| * (readLength2 M s).1 := by
  obtain ⟨e1, e2, _, _⟩ := readLength2_spec M s h
  have hf : PInv2 M (scaleWorld2 (readLength2 M s).2 k) := pinv2_fresh M _ _
  rw [(readLength2_spec M _ hf).1, e1]
  show length2 M ((readLength2 M s).2.vertices.map _) = _
  rw [e2]
  exact length2_scale M hsqrt k _ (fun p q => by
    simp only [V2.normSq, V2.sub, p2_scale_world]; ring) s.vertices

/-! ## 2. Polyline3D -/

/-- Fresh value of `Base2DIn3D.center` over a vertex list. -/
def centerOf3 (vs : List (V3 α)) : V3 α :=
  ⟨((calcMinMax3 vs).1.x + (calcMinMax3 vs).2.x) / 2, ((calcMinMax3 vs).1.y + (calcMinMax3 vs).2.y) / 2,
   ((calcMinMax3 vs).1.z + (calcMinMax3 vs).2.z) / 2⟩

/-- "No cached value is stale" for `Polyline3D`. -/
structure PInv3 (M : MathOps α) (s : PL3 α) : Prop where
  min : ∀ m, s.min = some m → m = (calcMinMax3 s.vertices).1
  max : ∀ m, s.max = some m → m = (calcMinMax3 s.vertices).2
  center : ∀ c, s.center = some c → c = centerOf3 s.vertices
  segments : ∀ l, s.segments = some l → l = segs3 s.vertices
  length : ∀ a, s.length = some a → a = length3 M s.vertices

/-- A fresh `Polyline3D` caches nothing. -/
theorem pinv3_fresh (M : MathOps α) (vs : List (V3 α)) (i : Bool) : PInv3 M (fresh3 vs i) := by
  constructor <;> intro x hx <;> simp [fresh3] at hx

/-- `segments` under a valid cache. -/
theorem readSegments3_spec (M : MathOps α) (s : PL3 α) (h : PInv3 M s) :
    (readSegments3 s).1 = segs3 s.vertices ∧ (readSegments3 s).2.vertices = s.vertices ∧
    (readSegments3 s).2.interpolated = s.interpolated ∧ PInv3 M (readSegments3 s).2 := by
  obtain ⟨h1, h2, h3, h4, h5⟩ := h
  unfold readSegments3
  cases hs : s.segments with
  | some l => exact ⟨h4 l hs, rfl, rfl, ⟨h1, h2, h3, h4, h5⟩⟩
  | none =>
    refine ⟨rfl, rfl, rfl, ⟨h1, h2, h3, ?_, h5⟩⟩
    intro l hl
    simp only [Option.some.injEq] at hl
    exact hl.symm

/-- `length` under a valid cache. -/
theorem readLength3_spec (M : MathOps α) (s : PL3 α) (h : PInv3 M s) :
    (readLength3 M s).1 = length3 M s.vertices ∧ (readLength3 M s).2.vertices = s.vertices ∧
    (readLength3 M s).2.interpolated = s.interpolated ∧ PInv3 M (readLength3 M s).2 := by
  unfold readLength3
  cases hl : s.length with
  | some a => exact ⟨h.length a hl, rfl, rfl, h⟩
  | none =>
    obtain ⟨e1, e2, e3, h'⟩ := readSegments3_spec M s h
    obtain ⟨h1, h2, h3, h4, h5⟩ := h'
    simp only []
    refine ⟨by rw [e1]; rfl, e2, e3, ⟨h1, h2, h3, h4, ?_⟩⟩
    intro a ha
    simp only [Option.some.injEq] at ha
    rw [← ha, e1, e2]; rfl

/-- `min` under a valid cache. -/
theorem readMin3_spec (M : MathOps α) (s : PL3 α) (h : PInv3 M s) :
    (readMin3 s).1 = (calcMinMax3 s.vertices).1 ∧ (readMin3 s).2.vertices = s.vertices ∧
    (readMin3 s).2.interpolated = s.interpolated ∧ PInv3 M (readMin3 s).2 := by
  obtain ⟨h1, h2, h3, h4, h5⟩ := h
  unfold readMin3
  cases hs : s.min with
  | some l => exact ⟨h1 l hs, rfl, rfl, ⟨h1, h2, h3, h4, h5⟩⟩
  | none =>
    refine ⟨rfl, rfl, rfl, ⟨?_, ?_, h3, h4, h5⟩⟩ <;>
    · intro l hl
      simp only [Option.some.injEq] at hl
      exact hl.symm

/-- `max` under a valid cache. -/
theorem readMax3_spec (M : MathOps α) (s : PL3 α) (h : PInv3 M s) :
    (readMax3 s).1 = (calcMinMax3 s.vertices).2 ∧ (readMax3 s).2.vertices = s.vertices ∧
    (readMax3 s).2.interpolated = s.interpolated ∧ PInv3 M (readMax3 s).2 := by
  obtain ⟨h1, h2, h3, h4, h5⟩ := h
  unfold readMax3
  cases hs : s.max with
  | some l => exact ⟨h2 l hs, rfl, rfl, ⟨h1, h2, h3, h4, h5⟩⟩
  | none =>
    refine ⟨rfl, rfl, rfl, ⟨?_, ?_, h3, h4, h5⟩⟩ <;>
    · intro l hl
      simp only [Option.some.injEq] at hl
      exact hl.symm

/-- `center` under a valid cache. -/
theorem readCenter3_spec (M : MathOps α) (s : PL3 α) (h : PInv3 M s) :
    (readCenter3 s).1 = centerOf3 s.vertices ∧ (readCenter3 s).2.vertices = s.vertices ∧
    (readCenter3 s).2.interpolated = s.interpolated ∧ PInv3 M (readCenter3 s).2 := by
  unfold readCenter3
  cases hc : s.center with
  | some c => exact ⟨h.center c hc, rfl, rfl, h⟩
  | none =>
    obtain ⟨a1, a2, a3, ha⟩ := readMin3_spec M s h
    obtain ⟨b1, b2, b3, hb⟩ := readMax3_spec M (readMin3 s).2 ha
    obtain ⟨h1, h2, h3, h4, h5⟩ := hb
    simp only []
    have hv : (readMax3 (readMin3 s).2).1 = (calcMinMax3 s.vertices).2 := by rw [b1, a2]
    refine ⟨by rw [a1, hv]; rfl, by rw [b2, a2], by rw [b3, a3], ⟨h1, h2, ?_, h4, h5⟩⟩
    intro c hc'
    simp only [Option.some.injEq] at hc'
    rw [← hc', a1, hv]
    show _ = centerOf3 (readMax3 (readMin3 s).2).2.vertices
    rw [b2, a2]; rfl

/-- `_transfer_properties` onto new vertices with the same fresh length. -/
theorem pinv3_transfer (M : MathOps α) (s : PL3 α) (h : PInv3 M s) (vs' : List (V3 α))
    (hl : length3 M vs' = length3 M s.vertices) : PInv3 M (transfer3 s vs') := by
  refine ⟨?_, ?_, ?_, ?_, ?_⟩
  · intro x hx; simp [transfer3, fresh3] at hx
  · intro x hx; simp [transfer3, fresh3] at hx
  · intro x hx; simp [transfer3, fresh3] at hx
  · intro x hx; simp [transfer3, fresh3] at hx
  · intro a ha
    have ha' : s.length = some a := ha
    show a = length3 M vs'
    rw [hl]
    exact h.length a ha'

/-- Side condition: `rigid g` (move / rotate / rotate_xy / reflect) keeps distances. -/
def Valid3 : Op3 α → Prop
  | .rigid g => ∀ p q, V3.normSq (V3.sub (g p) (g q)) = V3.normSq (V3.sub p q)
  | _ => True

/-- **Every operation of the `Polyline3D` cache machine preserves the invariant.** -/
theorem pinv3_step (M : MathOps α) (s : PL3 α) (op : Op3 α) (hv : Valid3 op) (h : PInv3 M s) :
    PInv3 M (step3 M s op) := by
  cases op with
  | readSegments => exact (readSegments3_spec M s h).2.2.2
  | readLength => exact (readLength3_spec M s h).2.2.2
  | readMin => exact (readMin3_spec M s h).2.2.2
  | readMax => exact (readMax3_spec M s h).2.2.2
  | readCenter => exact (readCenter3_spec M s h).2.2.2
  | duplicate => exact pinv3_fresh M _ _
  | reverse => exact pinv3_transfer M s h _ (length3_reverse M s.vertices)
  | rigid g => exact pinv3_transfer M s h _ (length3_map M g hv s.vertices)
  | scale k o => exact pinv3_fresh M _ _
  | scaleWorld k => exact pinv3_fresh M _ _
  | removeColinear tol =>
    show PInv3 M (removeColinear3 s tol)
    unfold removeColinear3
    split
    · exact h
    · exact pinv3_fresh M _ _

/-- The invariant after EVERY history (induction over the operation list). -/
theorem pinv3_history (M : MathOps α) (s0 : PL3 α) (h0 : PInv3 M s0) (ops : List (Op3 α))
    (hv : ∀ op ∈ ops, Valid3 op) : PInv3 M (ops.foldl (step3 M) s0) := by
  induction ops generalizing s0 with
  | nil => exact h0
  | cons op ops ih =>
    simp only [List.foldl_cons]
    exact ih _ (pinv3_step M s0 op (hv op List.mem_cons_self) h0)
      (fun o ho => hv o (List.mem_cons_of_mem _ ho))

/-- **C03 for Polyline3D.**  After any history of reads, duplicate, reverse, distance-keeping
maps, scalings (any factor) and remove_colinear_vertices, every memoising getter answers
exactly what a freshly built `Polyline3D` with the same vertices computes. -/
theorem pread3_after_history (M : MathOps α) (s0 : PL3 α) (h0 : PInv3 M s0) (ops : List (Op3 α))
    (hv : ∀ op ∈ ops, Valid3 op) :
    let s := ops.foldl (step3 M) s0
    let f := fresh3 s.vertices s.interpolated
    (readSegments3 s).1 = (readSegments3 f).1 ∧ (readLength3 M s).1 = (readLength3 M f).1 ∧
    (readMin3 s).1 = (readMin3 f).1 ∧ (readMax3 s).1 = (readMax3 f).1 ∧
    (readCenter3 s).1 = (readCenter3 f).1 := by
  intro s f
  have hi : PInv3 M s := pinv3_history M s0 h0 ops hv
  have hf : PInv3 M f := pinv3_fresh M _ _
  exact ⟨(readSegments3_spec M s hi).1.trans (readSegments3_spec M f hf).1.symm,
    (readLength3_spec M s hi).1.trans (readLength3_spec M f hf).1.symm,
    (readMin3_spec M s hi).1.trans (readMin3_spec M f hf).1.symm,
    (readMax3_spec M s hi).1.trans (readMax3_spec M f hf).1.symm,
    (readCenter3_spec M s hi).1.trans (readCenter3_spec M f hf).1.symm⟩

/-- `length` read → `scale(k, origin)` → `length` read gives `|k| ·` the first answer. -/
theorem length3_read_scale_read (M : MathOps α)
    (hsqrt : ∀ x, 0 ≤ x → M.sqrt x * M.sqrt x = x ∧ 0 ≤ M.sqrt x)
    (s : PL3 α) (h : PInv3 M s) (k : α) (o : V3 α) :
    (readLength3 M (scale3 (readLength3 M s).2 k o)).1 = |k| * (readLength3 M s).1 := by
  obtain ⟨e1, e2, _, _⟩ := readLength3_spec M s h
  have hf : PInv3 M (scale3 (readLength3 M s).2 k o) := pinv3_fresh M _ _
  rw [(readLength3_spec M _ hf).1, e1]
  show length3 M ((readLength3 M s).2.vertices.map _) = _
  rw [e2]
  exact length3_scale M hsqrt k _ (fun p q => by
    simp only [V3.normSq, V3.sub, p3_scale]; ring) s.vertices

/-- The conversions build fresh objects: `to_polyline2d` / `from_polyline2d` results satisfy
the invariant whatever the source had cached. -/
theorem pinv_conversions (M : MathOps α) (s3 : PL3 α) (s2 : PL2 α) (pl : PlaneS α) :
    PInv2 M (toPolyline2d s3) ∧ PInv3 M (fromPolyline2d pl s2) :=
  ⟨pinv2_fresh M _ _, pinv3_fresh M _ _⟩

/-! ## 3. Face3D -/

/-- Fresh value of `Face3D.center` (midpoint of the bounding box of the boundary). -/
def centerOfF (s : FaceC α) : V3 α :=
  ⟨((minMaxOf s).1.x + (minMaxOf s).2.x) / 2, ((minMaxOf s).1.y + (minMaxOf s).2.y) / 2,
   ((minMaxOf s).1.z + (minMaxOf s).2.z) / 2⟩

/-- "No cached value is stale" for `Face3D`: every filled memo slot holds what a freshly built
face with the same `_boundary`, `_holes`, `_vertices`, `_plane` computes (for `_mesh2d`: it
triangulates the current boundary / hole polygons); `wf` is the constructor's
`_vertices = _boundary` for faces without holes. -/
structure FInv (K : FaceCache.Kern α) (M : MathOps α) (s : FaceC α) : Prop where
  wf : s.holes = none → s.boundary = s.vertices
  polygon2d : ∀ p, s.polygon2d = some p → p = poly2dOf s
  mesh2d : ∀ m, s.mesh2d = some m → m = mesh2dOf s
  bpoly : ∀ p, s.boundary_polygon2d = some p → p = bpoly2dOf s
  hpoly : ∀ h, s.hole_polygon2d = some h → hpoly2dOf s = some h
  bsegs : ∀ l, s.boundary_segments = some l → l = bsegsOf s
  hsegs : ∀ h, s.hole_segments = some h → hsegsOf s = some h
  perimeter : ∀ a, s.perimeter = some a → a = perimOf M s
  area : ∀ a, s.area = some a → a = areaOf s
  centroid : ∀ c, s.centroid = some c → c = centroidOf K s
  convex : ∀ b, s.is_convex = some b → b = convexOf s
  selfint : ∀ b, s.is_self_intersecting = some b → b = selfIntOf s
  min : ∀ m, s.min = some m → m = (minMaxOf s).1
  max : ∀ m, s.max = some m → m = (minMaxOf s).2
  center : ∀ c, s.center = some c → c = centerOfF s

/-- `t` has the defining data of `s`, and every memo slot of `t` is the slot of `s` or holds
the fresh value (what a memoising getter does to its receiver). -/
structure Ext (K : FaceCache.Kern α) (M : MathOps α) (s t : FaceC α) : Prop where
  boundary : t.boundary = s.boundary
  holes : t.holes = s.holes
  vertices : t.vertices = s.vertices
  plane : t.plane = s.plane
  polygon2d : t.polygon2d = s.polygon2d ∨ t.polygon2d = some (poly2dOf s)
  mesh2d : t.mesh2d = s.mesh2d ∨ t.mesh2d = some (mesh2dOf s)
  bpoly : t.boundary_polygon2d = s.boundary_polygon2d ∨ t.boundary_polygon2d = some (bpoly2dOf s)
  hpoly : t.hole_polygon2d = s.hole_polygon2d ∨ t.hole_polygon2d = hpoly2dOf s
  bsegs : t.boundary_segments = s.boundary_segments ∨ t.boundary_segments = some (bsegsOf s)
  hsegs : t.hole_segments = s.hole_segments ∨ t.hole_segments = hsegsOf s
  perimeter : t.perimeter = s.perimeter ∨ t.perimeter = some (perimOf M s)
  area : t.area = s.area ∨ t.area = some (areaOf s)
  centroid : t.centroid = s.centroid ∨ t.centroid = some (centroidOf K s)
  convex : t.is_convex = s.is_convex ∨ t.is_convex = some (convexOf s)
  selfint : t.is_self_intersecting = s.is_self_intersecting ∨
    t.is_self_intersecting = some (selfIntOf s)
  min : t.min = s.min ∨ t.min = some (minMaxOf s).1
  max : t.max = s.max ∨ t.max = some (minMaxOf s).2
  center : t.center = s.center ∨ t.center = some (centerOfF s)

/-- All fresh values are functions of the defining data. -/
theorem fresh_congr (K : FaceCache.Kern α) (M : MathOps α) (s t : FaceC α) (hb : t.boundary = s.boundary)
    (hh : t.holes = s.holes) (hv : t.vertices = s.vertices) (hp : t.plane = s.plane) :
    poly2dOf t = poly2dOf s ∧ bpoly2dOf t = bpoly2dOf s ∧ hpoly2dOf t = hpoly2dOf s ∧
    bsegsOf t = bsegsOf s ∧ hsegsOf t = hsegsOf s ∧ perimOf M t = perimOf M s ∧
    areaOf t = areaOf s ∧ convexOf t = convexOf s ∧ selfIntOf t = selfIntOf s ∧
    mesh2dOf t = mesh2dOf s ∧ centroidOf K t = centroidOf K s ∧ minMaxOf t = minMaxOf s ∧
    centerOfF t = centerOfF s := by
  simp only [poly2dOf, bpoly2dOf, hpoly2dOf, bsegsOf, hsegsOf, perimOf, areaOf, convexOf,
    selfIntOf, mesh2dOf, centroidOf, minMaxOf, centerOfF, hb, hh, hv, hp, and_self]

/-- A state extends itself. -/
theorem ext_refl (K : FaceCache.Kern α) (M : MathOps α) (s : FaceC α) : Ext K M s s :=
  ⟨rfl, rfl, rfl, rfl, .inl rfl, .inl rfl, .inl rfl, .inl rfl, .inl rfl, .inl rfl, .inl rfl,
   .inl rfl, .inl rfl, .inl rfl, .inl rfl, .inl rfl, .inl rfl, .inl rfl⟩

/-- Extensions compose (a getter that calls other getters). -/
theorem ext_trans (K : FaceCache.Kern α) (M : MathOps α) {s t u : FaceC α} (h1 : Ext K M s t)
    (h2 : Ext K M t u) : Ext K M s u := by
  obtain ⟨c1, c2, c3, c4, c5, c6, c7, c8, c9, c10, c11, c12, c13⟩ :=
    fresh_congr K M s t h1.boundary h1.holes h1.vertices h1.plane
  refine ⟨h2.boundary.trans h1.boundary, h2.holes.trans h1.holes, h2.vertices.trans h1.vertices,
    h2.plane.trans h1.plane, ?_, ?_, ?_, ?_, ?_, ?_, ?_, ?_, ?_, ?_, ?_, ?_, ?_, ?_⟩
  · rcases h2.polygon2d with e | e <;> rcases h1.polygon2d with e' | e' <;> simp_all
  · rcases h2.mesh2d with e | e <;> rcases h1.mesh2d with e' | e' <;> simp_all
  · rcases h2.bpoly with e | e <;> rcases h1.bpoly with e' | e' <;> simp_all
  · rcases h2.hpoly with e | e <;> rcases h1.hpoly with e' | e' <;> simp_all
  · rcases h2.bsegs with e | e <;> rcases h1.bsegs with e' | e' <;> simp_all
  · rcases h2.hsegs with e | e <;> rcases h1.hsegs with e' | e' <;> simp_all
  · rcases h2.perimeter with e | e <;> rcases h1.perimeter with e' | e' <;> simp_all
  · rcases h2.area with e | e <;> rcases h1.area with e' | e' <;> simp_all
  · rcases h2.centroid with e | e <;> rcases h1.centroid with e' | e' <;> simp_all
  · rcases h2.convex with e | e <;> rcases h1.convex with e' | e' <;> simp_all
  · rcases h2.selfint with e | e <;> rcases h1.selfint with e' | e' <;> simp_all
  · rcases h2.min with e | e <;> rcases h1.min with e' | e' <;> simp_all
  · rcases h2.max with e | e <;> rcases h1.max with e' | e' <;> simp_all
  · rcases h2.center with e | e <;> rcases h1.center with e' | e' <;> simp_all

/-- Filling slots with fresh values keeps the cache valid. -/
theorem finv_ext (K : FaceCache.Kern α) (M : MathOps α) {s t : FaceC α} (h : FInv K M s)
    (e : Ext K M s t) : FInv K M t := by
  obtain ⟨c1, c2, c3, c4, c5, c6, c7, c8, c9, c10, c11, c12, c13⟩ :=
    fresh_congr K M s t e.boundary e.holes e.vertices e.plane
  refine ⟨?_, ?_, ?_, ?_, ?_, ?_, ?_, ?_, ?_, ?_, ?_, ?_, ?_, ?_, ?_⟩
  · intro hh; rw [e.boundary, e.vertices]; exact h.wf (by rw [← e.holes]; exact hh)
  · intro x hx; rw [c1]
    rcases e.polygon2d with e' | e' <;> rw [e'] at hx
    · exact h.polygon2d x hx
    · exact (Option.some.inj hx).symm
  · intro x hx; rw [c10]
    rcases e.mesh2d with e' | e' <;> rw [e'] at hx
    · exact h.mesh2d x hx
    · exact (Option.some.inj hx).symm
  · intro x hx; rw [c2]
    rcases e.bpoly with e' | e' <;> rw [e'] at hx
    · exact h.bpoly x hx
    · exact (Option.some.inj hx).symm
  · intro x hx; rw [c3]
    rcases e.hpoly with e' | e' <;> rw [e'] at hx
    · exact h.hpoly x hx
    · exact hx
  · intro x hx; rw [c4]
    rcases e.bsegs with e' | e' <;> rw [e'] at hx
    · exact h.bsegs x hx
    · exact (Option.some.inj hx).symm
  · intro x hx; rw [c5]
    rcases e.hsegs with e' | e' <;> rw [e'] at hx
    · exact h.hsegs x hx
    · exact hx
  · intro x hx; rw [c6]
    rcases e.perimeter with e' | e' <;> rw [e'] at hx
    · exact h.perimeter x hx
    · exact (Option.some.inj hx).symm
  · intro x hx; rw [c7]
    rcases e.area with e' | e' <;> rw [e'] at hx
    · exact h.area x hx
    · exact (Option.some.inj hx).symm
  · intro x hx; rw [c11]
    rcases e.centroid with e' | e' <;> rw [e'] at hx
    · exact h.centroid x hx
    · exact (Option.some.inj hx).symm
  · intro x hx; rw [c8]
    rcases e.convex with e' | e' <;> rw [e'] at hx
    · exact h.convex x hx
    · exact (Option.some.inj hx).symm
  · intro x hx; rw [c9]
    rcases e.selfint with e' | e' <;> rw [e'] at hx
    · exact h.selfint x hx
    · exact (Option.some.inj hx).symm
  · intro x hx; rw [c12]
    rcases e.min with e' | e' <;> rw [e'] at hx
    · exact h.min x hx
    · exact (Option.some.inj hx).symm
  · intro x hx; rw [c12]
    rcases e.max with e' | e' <;> rw [e'] at hx
    · exact h.max x hx
    · exact (Option.some.inj hx).symm
  · intro x hx; rw [c13]
    rcases e.center with e' | e' <;> rw [e'] at hx
    · exact h.center x hx
    · exact (Option.some.inj hx).symm

/-- Closes the slot-by-slot goals of `Ext s t` when every slot of `t` is literally the slot of
`s` or the fresh value. -/
macro "ext_auto" : tactic =>
  `(tactic| (constructor <;> first | rfl | exact Or.inl rfl | exact Or.inr rfl))

section setters
variable (K : FaceCache.Kern α) (M : MathOps α) {s t : FaceC α}

/-- Writing the fresh perimeter into `_perimeter` is an extension. -/
theorem ext_set_perimeter (e : Ext K M s t) :
    Ext K M s { t with perimeter := some (perimOf M s) } :=
  ⟨e.boundary, e.holes, e.vertices, e.plane, e.polygon2d, e.mesh2d, e.bpoly, e.hpoly, e.bsegs,
   e.hsegs, .inr rfl, e.area, e.centroid, e.convex, e.selfint, e.min, e.max, e.center⟩

/-- Writing the fresh area into `_area` is an extension. -/
theorem ext_set_area (e : Ext K M s t) : Ext K M s { t with area := some (areaOf s) } :=
  ⟨e.boundary, e.holes, e.vertices, e.plane, e.polygon2d, e.mesh2d, e.bpoly, e.hpoly, e.bsegs,
   e.hsegs, e.perimeter, .inr rfl, e.centroid, e.convex, e.selfint, e.min, e.max, e.center⟩

/-- Writing the fresh flag into `_is_convex` is an extension. -/
theorem ext_set_convex (e : Ext K M s t) : Ext K M s { t with is_convex := some (convexOf s) } :=
  ⟨e.boundary, e.holes, e.vertices, e.plane, e.polygon2d, e.mesh2d, e.bpoly, e.hpoly, e.bsegs,
   e.hsegs, e.perimeter, e.area, e.centroid, .inr rfl, e.selfint, e.min, e.max, e.center⟩

/-- Writing the fresh flag into `_is_self_intersecting` is an extension. -/
theorem ext_set_selfint (e : Ext K M s t) :
    Ext K M s { t with is_self_intersecting := some (selfIntOf s) } :=
  ⟨e.boundary, e.holes, e.vertices, e.plane, e.polygon2d, e.mesh2d, e.bpoly, e.hpoly, e.bsegs,
   e.hsegs, e.perimeter, e.area, e.centroid, e.convex, .inr rfl, e.min, e.max, e.center⟩

/-- Writing the triangulation of the current polygons into `_mesh2d` is an extension. -/
theorem ext_set_mesh2d (e : Ext K M s t) : Ext K M s { t with mesh2d := some (mesh2dOf s) } :=
  ⟨e.boundary, e.holes, e.vertices, e.plane, e.polygon2d, .inr rfl, e.bpoly, e.hpoly, e.bsegs,
   e.hsegs, e.perimeter, e.area, e.centroid, e.convex, e.selfint, e.min, e.max, e.center⟩

/-- `_mesh3d` carries no modelled value: any write is an extension. -/
theorem ext_set_mesh3d (e : Ext K M s t) (x : Option Opq) : Ext K M s { t with mesh3d := x } :=
  ⟨e.boundary, e.holes, e.vertices, e.plane, e.polygon2d, e.mesh2d, e.bpoly, e.hpoly, e.bsegs,
   e.hsegs, e.perimeter, e.area, e.centroid, e.convex, e.selfint, e.min, e.max, e.center⟩

/-- Writing the fresh centroid into `_centroid` is an extension. -/
theorem ext_set_centroid (e : Ext K M s t) :
    Ext K M s { t with centroid := some (centroidOf K s) } :=
  ⟨e.boundary, e.holes, e.vertices, e.plane, e.polygon2d, e.mesh2d, e.bpoly, e.hpoly, e.bsegs,
   e.hsegs, e.perimeter, e.area, .inr rfl, e.convex, e.selfint, e.min, e.max, e.center⟩

/-- Writing the fresh bounding-box centre into `_center` is an extension. -/
theorem ext_set_center (e : Ext K M s t) : Ext K M s { t with center := some (centerOfF s) } :=
  ⟨e.boundary, e.holes, e.vertices, e.plane, e.polygon2d, e.mesh2d, e.bpoly, e.hpoly, e.bsegs,
   e.hsegs, e.perimeter, e.area, e.centroid, e.convex, e.selfint, e.min, e.max, .inr rfl⟩

end setters

/-! ### Getters under a valid cache: the fresh value, and the receiver only gains fresh
values (`Ext`), hence stays valid (`finv_ext`) -/

theorem readPolygon2d_spec (K : FaceCache.Kern α) (M : MathOps α) (s : FaceC α) (h : FInv K M s) :
    (readPolygon2d s).1 = poly2dOf s ∧ Ext K M s (readPolygon2d s).2 := by
  unfold readPolygon2d
  cases hs : s.polygon2d with
  | some p => exact ⟨h.polygon2d p hs, ext_refl K M s⟩
  | none => exact ⟨rfl, by ext_auto⟩

/-- `boundary_polygon2d` under a valid cache: fresh value, receiver only extended. -/
theorem readBoundaryPolygon2d_spec (K : FaceCache.Kern α) (M : MathOps α) (s : FaceC α)
    (h : FInv K M s) :
    (readBoundaryPolygon2d s).1 = bpoly2dOf s ∧ Ext K M s (readBoundaryPolygon2d s).2 := by
  unfold readBoundaryPolygon2d
  cases hs : s.boundary_polygon2d with
  | some p => exact ⟨h.bpoly p hs, ext_refl K M s⟩
  | none => exact ⟨rfl, by ext_auto⟩

/-- `hole_polygon2d` under a valid cache (also `None` for a face without holes). -/
theorem readHolePolygon2d_spec (K : FaceCache.Kern α) (M : MathOps α) (s : FaceC α)
    (h : FInv K M s) :
    (readHolePolygon2d s).1 = hpoly2dOf s ∧ Ext K M s (readHolePolygon2d s).2 := by
  unfold readHolePolygon2d
  cases hh : s.holes <;> cases hp : s.hole_polygon2d
  · exact ⟨by simp [hpoly2dOf, hh], ext_refl K M s⟩
  · exact ⟨(h.hpoly _ hp).symm, ext_refl K M s⟩
  · exact ⟨rfl, by
      constructor <;> first | rfl | exact hh.symm | exact Or.inl rfl | exact Or.inr rfl⟩
  · exact ⟨(h.hpoly _ hp).symm, ext_refl K M s⟩

/-- `boundary_segments` under a valid cache. -/
theorem readBoundarySegments_spec (K : FaceCache.Kern α) (M : MathOps α) (s : FaceC α)
    (h : FInv K M s) :
    (readBoundarySegments s).1 = bsegsOf s ∧ Ext K M s (readBoundarySegments s).2 := by
  unfold readBoundarySegments
  cases hs : s.boundary_segments with
  | some p => exact ⟨h.bsegs p hs, ext_refl K M s⟩
  | none => exact ⟨rfl, by ext_auto⟩

/-- `hole_segments` under a valid cache. -/
theorem readHoleSegments_spec (K : FaceCache.Kern α) (M : MathOps α) (s : FaceC α)
    (h : FInv K M s) :
    (readHoleSegments s).1 = hsegsOf s ∧ Ext K M s (readHoleSegments s).2 := by
  unfold readHoleSegments
  cases hh : s.holes <;> cases hp : s.hole_segments
  · exact ⟨by simp [hsegsOf, hh], ext_refl K M s⟩
  · exact ⟨(h.hsegs _ hp).symm, ext_refl K M s⟩
  · exact ⟨rfl, by
      constructor <;> first | rfl | exact hh.symm | exact Or.inl rfl | exact Or.inr rfl⟩
  · exact ⟨(h.hsegs _ hp).symm, ext_refl K M s⟩

/-- `min` under a valid cache (`_calculate_min_max` over the boundary fills `_min` and `_max`). -/
theorem readMin_spec (K : FaceCache.Kern α) (M : MathOps α) (s : FaceC α) (h : FInv K M s) :
    (FaceCache.readMin s).1 = (minMaxOf s).1 ∧ Ext K M s (FaceCache.readMin s).2 := by
  unfold FaceCache.readMin
  cases hs : s.min with
  | some p => exact ⟨h.min p hs, ext_refl K M s⟩
  | none => exact ⟨rfl, by ext_auto⟩

/-- `max` under a valid cache. -/
theorem readMax_spec (K : FaceCache.Kern α) (M : MathOps α) (s : FaceC α) (h : FInv K M s) :
    (FaceCache.readMax s).1 = (minMaxOf s).2 ∧ Ext K M s (FaceCache.readMax s).2 := by
  unfold FaceCache.readMax
  cases hs : s.max with
  | some p => exact ⟨h.max p hs, ext_refl K M s⟩
  | none => exact ⟨rfl, by ext_auto⟩

/-- `center` under a valid cache (through the `min` / `max` getters). -/
theorem readCenter_spec (K : FaceCache.Kern α) (M : MathOps α) (s : FaceC α) (h : FInv K M s) :
    (FaceCache.readCenter s).1 = centerOfF s ∧ Ext K M s (FaceCache.readCenter s).2 := by
  unfold FaceCache.readCenter
  cases hc : s.center with
  | some c => exact ⟨h.center c hc, ext_refl K M s⟩
  | none =>
    obtain ⟨a1, ea⟩ := readMin_spec K M s h
    obtain ⟨b1, eb⟩ := readMax_spec K M _ (finv_ext K M h ea)
    have eab := ext_trans K M ea eb
    have hmm : minMaxOf (FaceCache.readMin s).2 = minMaxOf s :=
      (fresh_congr K M s _ ea.boundary ea.holes ea.vertices ea.plane).2.2.2.2.2.2.2.2.2.2.2.1
    simp only []
    rw [a1, b1, hmm]
    exact ⟨rfl, ext_set_center K M eab⟩

/-- `area` under a valid cache (through the `polygon2d` getter). -/
theorem readArea_spec (K : FaceCache.Kern α) (M : MathOps α) (s : FaceC α) (h : FInv K M s) :
    (FaceCache.readArea s).1 = areaOf s ∧ Ext K M s (FaceCache.readArea s).2 := by
  unfold FaceCache.readArea
  cases hc : s.area with
  | some c => exact ⟨h.area c hc, ext_refl K M s⟩
  | none =>
    obtain ⟨a1, ea⟩ := readPolygon2d_spec K M s h
    simp only []
    rw [a1]
    exact ⟨rfl, ext_set_area K M ea⟩

/-- `is_convex` under a valid cache (through the `polygon2d` getter). -/
theorem readIsConvex_spec (K : FaceCache.Kern α) (M : MathOps α) (s : FaceC α) (h : FInv K M s) :
    (readIsConvex s).1 = convexOf s ∧ Ext K M s (readIsConvex s).2 := by
  unfold readIsConvex
  cases hc : s.is_convex with
  | some c => exact ⟨h.convex c hc, ext_refl K M s⟩
  | none =>
    obtain ⟨a1, ea⟩ := readPolygon2d_spec K M s h
    simp only []
    rw [a1]
    exact ⟨rfl, ext_set_convex K M ea⟩

/-- `perimeter` under a valid cache (through the segment getters). -/
theorem readPerimeter_spec (K : FaceCache.Kern α) (M : MathOps α) (s : FaceC α) (h : FInv K M s) :
    (readPerimeter M s).1 = perimOf M s ∧ Ext K M s (readPerimeter M s).2 := by
  unfold readPerimeter
  cases hc : s.perimeter with
  | some c => exact ⟨h.perimeter c hc, ext_refl K M s⟩
  | none =>
    obtain ⟨a1, ea⟩ := readBoundarySegments_spec K M s h
    obtain ⟨b1, eb⟩ := readHoleSegments_spec K M _ (finv_ext K M h ea)
    have hh : hsegsOf (readBoundarySegments s).2 = hsegsOf s :=
      (fresh_congr K M s _ ea.boundary ea.holes ea.vertices ea.plane).2.2.2.2.1
    simp only []
    split
    · rename_i hn
      have : hsegsOf s = none := by
        rw [← hh]; simp [hsegsOf, hn]
      rw [a1]
      exact ⟨by rw [perimOf, this], by
        have e := ext_set_perimeter K M ea
        rw [perimOf, this] at e
        exact e⟩
    · rw [a1, b1, hh]
      exact ⟨rfl, ext_set_perimeter K M (ext_trans K M ea eb)⟩

/-- `is_self_intersecting` under a valid cache (through the boundary / hole polygon getters). -/
theorem readSelfInt_spec (K : FaceCache.Kern α) (M : MathOps α) (s : FaceC α) (h : FInv K M s) :
    (readSelfInt s).1 = selfIntOf s ∧ Ext K M s (readSelfInt s).2 := by
  unfold readSelfInt
  cases hc : s.is_self_intersecting with
  | some c => exact ⟨h.selfint c hc, ext_refl K M s⟩
  | none =>
    obtain ⟨a1, ea⟩ := readBoundaryPolygon2d_spec K M s h
    obtain ⟨b1, eb⟩ := readHolePolygon2d_spec K M _ (finv_ext K M h ea)
    have hh : hpoly2dOf (readBoundaryPolygon2d s).2 = hpoly2dOf s :=
      (fresh_congr K M s _ ea.boundary ea.holes ea.vertices ea.plane).2.2.1
    simp only []
    split
    · rename_i hn
      have : hpoly2dOf s = none := by
        rw [← hh]; simp [hpoly2dOf, hn]
      rw [a1]
      exact ⟨by rw [selfIntOf, this], by
        have e := ext_set_selfint K M ea
        rw [selfIntOf, this] at e
        exact e⟩
    · rw [a1, b1, hh]
      exact ⟨rfl, ext_set_selfint K M (ext_trans K M ea eb)⟩

/-- `triangulated_mesh2d` under a valid cache: it triangulates the current boundary / hole polygons. -/
theorem readMesh2d_spec (K : FaceCache.Kern α) (M : MathOps α) (s : FaceC α) (h : FInv K M s) :
    (readMesh2d s).1 = mesh2dOf s ∧ Ext K M s (readMesh2d s).2 := by
  unfold readMesh2d
  cases hc : s.mesh2d with
  | some c => exact ⟨h.mesh2d c hc, ext_refl K M s⟩
  | none =>
    obtain ⟨a1, ea⟩ := readBoundaryPolygon2d_spec K M s h
    obtain ⟨b1, eb⟩ := readHolePolygon2d_spec K M _ (finv_ext K M h ea)
    have hh : hpoly2dOf (readBoundaryPolygon2d s).2 = hpoly2dOf s :=
      (fresh_congr K M s _ ea.boundary ea.holes ea.vertices ea.plane).2.2.1
    simp only []
    rw [a1, b1, hh]
    exact ⟨rfl, ext_set_mesh2d K M (ext_trans K M ea eb)⟩

/-- `triangulated_mesh3d` under a valid cache: the receiver is only extended. -/
theorem readMesh3d_spec (K : FaceCache.Kern α) (M : MathOps α) (s : FaceC α) (h : FInv K M s) :
    Ext K M s (readMesh3d s) := by
  unfold readMesh3d
  cases hc : s.mesh3d with
  | some c => exact ext_refl K M s
  | none => exact ext_set_mesh3d K M (readMesh2d_spec K M s h).2 _

/-- `centroid` under a valid cache (through `triangulated_mesh2d`). -/
theorem readCentroid_spec (K : FaceCache.Kern α) (M : MathOps α) (s : FaceC α) (h : FInv K M s) :
    (FaceCache.readCentroid K s).1 = centroidOf K s ∧
      Ext K M s (FaceCache.readCentroid K s).2 := by
  unfold FaceCache.readCentroid
  cases hc : s.centroid with
  | some c => exact ⟨h.centroid c hc, ext_refl K M s⟩
  | none =>
    obtain ⟨a1, ea⟩ := readMesh2d_spec K M s h
    simp only []
    rw [a1]
    exact ⟨rfl, ext_set_centroid K M ea⟩

/-! ### Methods returning a new face -/

/-- A face whose only filled memo slots are those `_transfer_properties` / `_face_transform`
carry is valid as soon as these hold fresh values. -/
theorem finv_build (K : FaceCache.Kern α) (M : MathOps α) (t : FaceC α)
    (hwf : t.holes = none → t.boundary = t.vertices)
    (hp : ∀ p, t.polygon2d = some p → p = poly2dOf t)
    (hm : ∀ m, t.mesh2d = some m → m = mesh2dOf t)
    (hper : ∀ a, t.perimeter = some a → a = perimOf M t)
    (har : ∀ a, t.area = some a → a = areaOf t)
    (hcv : ∀ b, t.is_convex = some b → b = convexOf t)
    (hsi : ∀ b, t.is_self_intersecting = some b → b = selfIntOf t)
    (h0 : t.boundary_polygon2d = none) (h1 : t.hole_polygon2d = none)
    (h2 : t.boundary_segments = none) (h3 : t.hole_segments = none) (h4 : t.centroid = none)
    (h5 : t.min = none) (h6 : t.max = none) (h7 : t.center = none) : FInv K M t := by
  refine ⟨hwf, hp, hm, ?_, ?_, ?_, ?_, hper, har, ?_, hcv, hsi, ?_, ?_, ?_⟩ <;>
    · intro x hx; simp_all

/-- The shape of every transform result `t` of `s`: loops mapped by `fb` / `fh` / `fv`, plane
`pl`, the carried slots, and every other memo slot empty. -/
structure Built (s t : FaceC α) (fb fh fv : List (V3 α) → List (V3 α)) (pl : PlaneS α)
    (p2 : Option (List (V2 α))) (m2 : Option (List (V2 α) × Option (List (List (V2 α)))))
    (per ar : Option α) : Prop where
  boundary : t.boundary = fb s.boundary
  holes : t.holes = s.holes.map (·.map fh)
  vertices : t.vertices = fv s.vertices
  plane : t.plane = pl
  polygon2d : t.polygon2d = p2
  mesh2d : t.mesh2d = m2
  perimeter : t.perimeter = per
  area : t.area = ar
  convex : t.is_convex = s.is_convex
  selfint : t.is_self_intersecting = s.is_self_intersecting
  z0 : t.boundary_polygon2d = none
  z1 : t.hole_polygon2d = none
  z2 : t.boundary_segments = none
  z3 : t.hole_segments = none
  z4 : t.centroid = none
  z5 : t.min = none
  z6 : t.max = none
  z7 : t.center = none

/-- Shape of the result of move / rotate / rotate_xy. -/
theorem built_rigid (s : FaceC α) (hwf : s.holes = none → s.boundary = s.vertices)
    (g : V3 α → V3 α) (pg : PlaneS α → PlaneS α) :
    Built s (FaceCache.rigid s g pg) (·.map g) (·.map g) (·.map g) (pg s.plane) s.polygon2d
      s.mesh2d s.perimeter s.area := by
  unfold FaceCache.rigid setLoops transferProps mkFace
  cases hh : s.holes with
  | none => constructor <;> simp [hwf hh, hh]
  | some hs => constructor <;> simp [hh]

/-- Shape of the result of `reflect`. -/
theorem built_reflect (s : FaceC α) (hwf : s.holes = none → s.boundary = s.vertices)
    (g : V3 α → V3 α) (pg : PlaneS α → PlaneS α) :
    Built s (FaceCache.reflect s g pg) (·.reverse.map g) (·.reverse.map g) (·.reverse.map g)
      (pg s.plane) none none s.perimeter s.area := by
  unfold FaceCache.reflect setLoops transferProps mkFace
  cases hh : s.holes with
  | none => constructor <;> simp [hwf hh, hh]
  | some hs => constructor <;> simp [hh]

/-- Shape of the result of `flip`. -/
theorem built_flip (M : MathOps α) (s : FaceC α) (hwf : s.holes = none → s.boundary = s.vertices) :
    Built s (FaceCache.flip M s) (·.reverse) id (·.reverse) (plane_flip M s.plane) none none
      s.perimeter s.area := by
  unfold FaceCache.flip setLoops transferProps mkFace
  cases hh : s.holes with
  | none => constructor <;> simp [hwf hh, hh]
  | some hs => constructor <;> simp [hh]

/-- Shape of the result of `scale`. -/
theorem built_scaleWith (M : MathOps α) (s : FaceC α)
    (hwf : s.holes = none → s.boundary = s.vertices) (k : α) (g : V3 α → V3 α) :
    Built s (scaleWith M s k g) (·.map g) (·.map g) (·.map g)
      (planeFromVerts M (s.vertices.map g)) none none (s.perimeter.map (· * |k|))
      (s.area.map (· * k ^ 2)) := by
  unfold scaleWith setLoops transferPropsScale mkFace
  cases hh : s.holes with
  | none => constructor <;> simp [hwf hh, hh]
  | some hs => constructor <;> simp [hh]

/-- A transform result is valid as soon as its carried slots hold fresh values. -/
theorem finv_of_built (K : FaceCache.Kern α) (M : MathOps α) {s t : FaceC α}
    {fb fh fv : List (V3 α) → List (V3 α)} {pl : PlaneS α} {p2 : Option (List (V2 α))}
    {m2 : Option (List (V2 α) × Option (List (List (V2 α))))} {per ar : Option α}
    (b : Built s t fb fh fv pl p2 m2 per ar)
    (hwf : s.holes = none → fb s.boundary = fv s.vertices)
    (hp : ∀ p, p2 = some p → p = poly2dOf t) (hm : ∀ m, m2 = some m → m = mesh2dOf t)
    (hper : ∀ a, per = some a → a = perimOf M t) (har : ∀ a, ar = some a → a = areaOf t)
    (hcv : ∀ c, s.is_convex = some c → c = convexOf t)
    (hsi : ∀ c, s.is_self_intersecting = some c → c = selfIntOf t) : FInv K M t := by
  apply finv_build K M t
  · intro hn
    rw [b.boundary, b.vertices]
    apply hwf
    rw [b.holes] at hn
    cases hs : s.holes with
    | none => rfl
    | some x => rw [hs] at hn; simp at hn
  · intro p hp'; exact hp p (b.polygon2d ▸ hp')
  · intro m hm'; exact hm m (b.mesh2d ▸ hm')
  · intro a ha; exact hper a (b.perimeter ▸ ha)
  · intro a ha; exact har a (b.area ▸ ha)
  · intro c hc; exact hcv c (b.convex ▸ hc)
  · intro c hc; exact hsi c (b.selfint ▸ hc)
  · exact b.z0
  · exact b.z1
  · exact b.z2
  · exact b.z3
  · exact b.z4
  · exact b.z5
  · exact b.z6
  · exact b.z7

/-- Perimeter of a face whose loops are the images of the loops of `s` under maps that
multiply loop lengths by `c`. -/
theorem perimOf_loops (M : MathOps α) (s t : FaceC α) (fb fh : List (V3 α) → List (V3 α)) (c : α)
    (hb : t.boundary = fb s.boundary) (hh : t.holes = s.holes.map (·.map fh))
    (hfb : loopLen M (fb s.boundary) = c * loopLen M s.boundary)
    (hfh : ∀ l, loopLen M (fh l) = c * loopLen M l) : perimOf M t = c * perimOf M s := by
  rw [perimOf_eq, perimOf_eq, hb, hh, hfb]
  have : (((s.holes.map (·.map fh)).getD []).map (loopLen M)).sum =
      c * ((s.holes.getD []).map (loopLen M)).sum := by
    cases s.holes with
    | none => simp
    | some hs =>
      simp only [Option.map_some, Option.getD_some, List.map_map]
      rw [← List.sum_map_mul_left]
      congr 1
      apply List.map_congr_left
      intro l _
      exact hfh l
  rw [this]; ring

/-- Plane coordinates of the hole loops after mapping loops by `fh` and the coordinates by
`h2` . -/
theorem hpoly_loops (s t : FaceC α) (fh : List (V3 α) → List (V3 α))
    (h2 : List (V2 α) → List (V2 α)) (hh : t.holes = s.holes.map (·.map fh))
    (hc : ∀ l, to2d t.plane (fh l) = h2 (to2d s.plane l)) :
    hpoly2dOf t = (hpoly2dOf s).map (·.map h2) := by
  unfold hpoly2dOf
  rw [hh]
  cases s.holes with
  | none => rfl
  | some hs =>
    simp only [Option.map_some, List.map_map]
    congr 1
    apply List.map_congr_left
    intro l _
    exact hc l

/-- `__copy__` keeps the cache valid. -/
theorem finv_duplicate (K : FaceCache.Kern α) (M : MathOps α) (s : FaceC α) (h : FInv K M s) :
    FInv K M (FaceCache.duplicate s) :=
  finv_build K M _ h.wf h.polygon2d h.mesh2d h.perimeter h.area h.convex h.selfint
    rfl rfl rfl rfl rfl rfl rfl rfl

/-- Distance-keeping point maps. -/
def Isom3 (g : V3 α → V3 α) : Prop :=
  ∀ p q, V3.normSq (V3.sub (g p) (g q)) = V3.normSq (V3.sub p q)

/-- move / rotate / rotate_xy (`_face_transform`): with a distance-keeping `g` and a plane map
that keeps every vertex's plane coordinates, all carried slots (`_perimeter _area _is_convex
_is_self_intersecting _polygon2d _mesh2d`) stay fresh. -/
theorem finv_rigid (K : FaceCache.Kern α) (M : MathOps α) (s : FaceC α) (h : FInv K M s)
    (g : V3 α → V3 α) (pg : PlaneS α → PlaneS α) (hg : Isom3 g)
    (hc : ∀ p, plane_xyz_to_xy (pg s.plane) (g p) = plane_xyz_to_xy s.plane p) :
    FInv K M (FaceCache.rigid s g pg) := by
  have b := built_rigid s h.wf g pg
  have c1 : poly2dOf (FaceCache.rigid s g pg) = poly2dOf s := by
    unfold poly2dOf; rw [b.plane, b.vertices]; exact to2d_map_id _ _ g hc _
  have c2 : bpoly2dOf (FaceCache.rigid s g pg) = bpoly2dOf s := by
    unfold bpoly2dOf; rw [b.plane, b.boundary]; exact to2d_map_id _ _ g hc _
  have c3 : hpoly2dOf (FaceCache.rigid s g pg) = hpoly2dOf s := by
    rw [hpoly_loops s _ (·.map g) id b.holes
      (fun l => by rw [b.plane]; exact to2d_map_id _ _ g hc l)]
    cases hpoly2dOf s <;> simp
  have c4 : perimOf M (FaceCache.rigid s g pg) = perimOf M s := by
    rw [perimOf_loops M s _ (·.map g) (·.map g) 1 b.boundary b.holes
      (by rw [loopLen_map M g hg, one_mul]) (fun l => by rw [loopLen_map M g hg, one_mul]),
      one_mul]
  apply finv_of_built K M b
  · intro hn; show s.boundary.map g = s.vertices.map g; rw [h.wf hn]
  · intro p hp; rw [c1]; exact h.polygon2d p hp
  · intro m hm
    show m = (bpoly2dOf _, hpoly2dOf _)
    rw [c2, c3]; exact h.mesh2d m hm
  · intro a ha; rw [c4]; exact h.perimeter a ha
  · intro a ha
    show a = polygon2d_area (poly2dOf _)
    rw [c1]; exact h.area a ha
  · intro c hc'
    show c = isConvex2 (poly2dOf _)
    rw [c1]; exact h.convex c hc'
  · intro c hc'
    show c = selfIntOfPolys (bpoly2dOf _) (hpoly2dOf _)
    rw [c2, c3]; exact h.selfint c hc'

/-- Plane coordinates in another plane whose chart differs by the 2D map `h2`. -/
theorem to2d_congr (pl pl' : PlaneS α) (h2 : V2 α → V2 α)
    (hc : ∀ p, plane_xyz_to_xy pl' p = h2 (plane_xyz_to_xy pl p)) (l : List (V3 α)) :
    to2d pl' l = (to2d pl l).map h2 := by
  have := to2d_map pl pl' id h2 hc l
  rwa [List.map_id] at this

/-- A face built by the constructor alone (`Face3D(verts, plane, enforce_right_hand=False)`)
caches nothing. -/
theorem finv_mkFace (K : FaceCache.Kern α) (M : MathOps α) (vs : List (V3 α)) (pl : PlaneS α) :
    FInv K M (mkFace vs pl) := by
  apply finv_build K M <;> first | rfl | (intro _; rfl) | (intro x hx; simp [mkFace] at hx)

/-- A fresh face with holes (`freshFace`) caches nothing. -/
theorem finv_fresh (K : FaceCache.Kern α) (M : MathOps α) (b : List (V3 α))
    (hs : Option (List (List (V3 α)))) (vs : List (V3 α)) (pl : PlaneS α)
    (hwf : hs = none → b = vs) : FInv K M (freshFace b hs vs pl) := by
  apply finv_build K M <;> first | rfl | exact hwf | (intro x hx; simp [freshFace, mkFace] at hx)

/-- `reflect` (`_face_transform_reflect`): `g` keeps distances and the reflected plane shows
every vertex at the mirrored coordinates (`y ↦ −y`: the new y axis is `n' × x'`).  Then the
carried `_perimeter` and `_area` stay fresh; the carried flags stay fresh provided the
convexity / self-intersection tests answer the same on the mirrored, reversed loops
(`hcv`, `hsi`: needed only when the flag is cached). -/
theorem finv_reflect (K : FaceCache.Kern α) (M : MathOps α) (s : FaceC α) (h : FInv K M s)
    (g : V3 α → V3 α) (pg : PlaneS α → PlaneS α) (hg : Isom3 g)
    (hc : ∀ p, plane_xyz_to_xy (pg s.plane) (g p) = mirrorY (plane_xyz_to_xy s.plane p))
    (hcv : s.is_convex ≠ none →
      isConvex2 ((poly2dOf s).reverse.map mirrorY) = isConvex2 (poly2dOf s))
    (hsi : s.is_self_intersecting ≠ none →
      selfIntOfPolys ((bpoly2dOf s).reverse.map mirrorY)
        ((hpoly2dOf s).map (·.map (fun l => l.reverse.map mirrorY))) = selfIntOf s) :
    FInv K M (FaceCache.reflect s g pg) := by
  have b := built_reflect s h.wf g pg
  have cl : ∀ l, to2d (pg s.plane) (l.reverse.map g) = (to2d s.plane l).reverse.map mirrorY := by
    intro l; rw [to2d_map s.plane (pg s.plane) g mirrorY hc, to2d_reverse]
  have c1 : poly2dOf (FaceCache.reflect s g pg) = (poly2dOf s).reverse.map mirrorY := by
    unfold poly2dOf; rw [b.plane, b.vertices]; exact cl _
  have c2 : bpoly2dOf (FaceCache.reflect s g pg) = (bpoly2dOf s).reverse.map mirrorY := by
    unfold bpoly2dOf; rw [b.plane, b.boundary]; exact cl _
  have c3 : hpoly2dOf (FaceCache.reflect s g pg) =
      (hpoly2dOf s).map (·.map (fun l => l.reverse.map mirrorY)) :=
    hpoly_loops s _ (·.reverse.map g) (fun l => l.reverse.map mirrorY) b.holes
      (fun l => by rw [b.plane]; exact cl l)
  have hl : ∀ l, loopLen M (l.reverse.map g) = 1 * loopLen M l := by
    intro l; rw [loopLen_map M g hg, loopLen_reverse, one_mul]
  have c4 : perimOf M (FaceCache.reflect s g pg) = perimOf M s := by
    rw [perimOf_loops M s _ (·.reverse.map g) (·.reverse.map g) 1 b.boundary b.holes (hl _) hl,
      one_mul]
  apply finv_of_built K M b
  · intro hn; show s.boundary.reverse.map g = s.vertices.reverse.map g; rw [h.wf hn]
  · intro p hp; simp at hp
  · intro m hm; simp at hm
  · intro a ha; rw [c4]; exact h.perimeter a ha
  · intro a ha
    show a = polygon2d_area (poly2dOf _)
    rw [c1, area_reverse_mirror]; exact h.area a ha
  · intro c hc'
    show c = isConvex2 (poly2dOf _)
    rw [c1, hcv (by rw [hc']; simp)]; exact h.convex c hc'
  · intro c hc'
    show c = selfIntOfPolys (bpoly2dOf _) (hpoly2dOf _)
    rw [c2, c3, hsi (by rw [hc']; simp)]; exact h.selfint c hc'

/-- `flip`: the flipped plane shows every point at the mirrored coordinates; vertices and
boundary are reversed, holes kept as they are. -/
theorem finv_flip (K : FaceCache.Kern α) (M : MathOps α) (s : FaceC α) (h : FInv K M s)
    (hc : ∀ p, plane_xyz_to_xy (plane_flip M s.plane) p = mirrorY (plane_xyz_to_xy s.plane p))
    (hcv : s.is_convex ≠ none →
      isConvex2 ((poly2dOf s).reverse.map mirrorY) = isConvex2 (poly2dOf s))
    (hsi : s.is_self_intersecting ≠ none →
      selfIntOfPolys ((bpoly2dOf s).reverse.map mirrorY)
        ((hpoly2dOf s).map (·.map (·.map mirrorY))) = selfIntOf s) :
    FInv K M (FaceCache.flip M s) := by
  have b := built_flip M s h.wf
  have cl : ∀ l, to2d (plane_flip M s.plane) l = (to2d s.plane l).map mirrorY :=
    to2d_congr _ _ mirrorY hc
  have c1 : poly2dOf (FaceCache.flip M s) = (poly2dOf s).reverse.map mirrorY := by
    unfold poly2dOf; rw [b.plane, b.vertices, cl, to2d_reverse]
  have c2 : bpoly2dOf (FaceCache.flip M s) = (bpoly2dOf s).reverse.map mirrorY := by
    unfold bpoly2dOf; rw [b.plane, b.boundary, cl, to2d_reverse]
  have c3 : hpoly2dOf (FaceCache.flip M s) = (hpoly2dOf s).map (·.map (·.map mirrorY)) :=
    hpoly_loops s _ id (·.map mirrorY) b.holes (fun l => by rw [b.plane]; exact cl l)
  have c4 : perimOf M (FaceCache.flip M s) = perimOf M s := by
    rw [perimOf_loops M s _ (·.reverse) id 1 b.boundary b.holes
      (by rw [loopLen_reverse, one_mul]) (fun l => by simp), one_mul]
  apply finv_of_built K M b
  · intro hn; show s.boundary.reverse = s.vertices.reverse; rw [h.wf hn]
  · intro p hp; simp at hp
  · intro m hm; simp at hm
  · intro a ha; rw [c4]; exact h.perimeter a ha
  · intro a ha
    show a = polygon2d_area (poly2dOf _)
    rw [c1, area_reverse_mirror]; exact h.area a ha
  · intro c hc'
    show c = isConvex2 (poly2dOf _)
    rw [c1, hcv (by rw [hc']; simp)]; exact h.convex c hc'
  · intro c hc'
    show c = selfIntOfPolys (bpoly2dOf _) (hpoly2dOf _)
    rw [c2, c3, hsi (by rw [hc']; simp)]; exact h.selfint c hc'

/-- `scale` (`_face_transform_scale`; the plane is recomputed from the scaled vertices): with a
point map multiplying squared distances by `k²`, the carried `_perimeter * abs(k)` is fresh; the
carried `_area * k ** 2` and the copied flags are fresh provided the fresh area of the result is
`k²` times the old one and the two tests answer as before (`har`, `hcv`, `hsi`, each needed only
when that slot is cached; they hold when the new plane coordinates are a similarity image of
the old ones — see `area_affine`, `polySelfInt2_map` — which fails e.g. for `k = 0`). -/
theorem finv_scaleWith (K : FaceCache.Kern α) (M : MathOps α)
    (hsqrt : ∀ x, 0 ≤ x → M.sqrt x * M.sqrt x = x ∧ 0 ≤ M.sqrt x)
    (s : FaceC α) (h : FInv K M s) (k : α) (g : V3 α → V3 α)
    (hg : ∀ p q, V3.normSq (V3.sub (g p) (g q)) = k * k * V3.normSq (V3.sub p q))
    (har : s.area ≠ none → areaOf (scaleWith M s k g) = areaOf s * k ^ 2)
    (hcv : s.is_convex ≠ none → convexOf (scaleWith M s k g) = convexOf s)
    (hsi : s.is_self_intersecting ≠ none → selfIntOf (scaleWith M s k g) = selfIntOf s) :
    FInv K M (scaleWith M s k g) := by
  have b := built_scaleWith M s h.wf k g
  have c4 : perimOf M (scaleWith M s k g) = |k| * perimOf M s :=
    perimOf_loops M s _ (·.map g) (·.map g) |k| b.boundary b.holes
      (loopLen_scale M hsqrt k g hg _) (loopLen_scale M hsqrt k g hg)
  apply finv_of_built K M b
  · intro hn; show s.boundary.map g = s.vertices.map g; rw [h.wf hn]
  · intro p hp; simp at hp
  · intro m hm; simp at hm
  · intro a ha
    cases hp : s.perimeter with
    | none => rw [hp] at ha; simp at ha
    | some a0 =>
      rw [hp] at ha
      simp only [Option.map_some, Option.some.injEq] at ha
      rw [c4, ← ha, h.perimeter a0 hp]; ring
  · intro a ha
    cases hp : s.area with
    | none => rw [hp] at ha; simp at ha
    | some a0 =>
      rw [hp] at ha
      simp only [Option.map_some, Option.some.injEq] at ha
      rw [har (by rw [hp]; simp), ← ha, h.area a0 hp]
  · intro c hc'; rw [hcv (by rw [hc']; simp)]; exact h.convex c hc'
  · intro c hc'; rw [hsi (by rw [hc']; simp)]; exact h.selfint c hc'

/-- `remove_colinear_vertices` (faces without holes): the receiver (its `polygon2d` getter has
run) and the result (built by the constructor) are both valid. -/
theorem finv_removeColinear (K : FaceCache.Kern α) (M : MathOps α) (s : FaceC α)
    (h : FInv K M s) (tol : α) :
    FInv K M (FaceCache.removeColinear s tol).1 ∧
      ∀ t, (FaceCache.removeColinear s tol).2 = some t → FInv K M t := by
  refine ⟨finv_ext K M h (readPolygon2d_spec K M s h).2, ?_⟩
  intro t ht
  unfold FaceCache.removeColinear at ht
  simp only [Option.map_eq_some_iff] at ht
  obtain ⟨idx, _, rfl⟩ := ht
  exact finv_mkFace K M _ _

/-- Side conditions of the `Face3D` operations, on the state they are applied to (see
`finv_rigid`, `finv_reflect`, `finv_flip`, `finv_scaleWith` for what each one is for). -/
def ValidF (M : MathOps α) (s : FaceC α) : FaceCache.Op α → Prop
  | .rigid g pg => Isom3 g ∧
      ∀ p, plane_xyz_to_xy (pg s.plane) (g p) = plane_xyz_to_xy s.plane p
  | .reflect g pg => Isom3 g ∧
      (∀ p, plane_xyz_to_xy (pg s.plane) (g p) = mirrorY (plane_xyz_to_xy s.plane p)) ∧
      (s.is_convex ≠ none →
        isConvex2 ((poly2dOf s).reverse.map mirrorY) = isConvex2 (poly2dOf s)) ∧
      (s.is_self_intersecting ≠ none →
        selfIntOfPolys ((bpoly2dOf s).reverse.map mirrorY)
          ((hpoly2dOf s).map (·.map (fun l => l.reverse.map mirrorY))) = selfIntOf s)
  | .flip =>
      (∀ p, plane_xyz_to_xy (plane_flip M s.plane) p = mirrorY (plane_xyz_to_xy s.plane p)) ∧
      (s.is_convex ≠ none →
        isConvex2 ((poly2dOf s).reverse.map mirrorY) = isConvex2 (poly2dOf s)) ∧
      (s.is_self_intersecting ≠ none →
        selfIntOfPolys ((bpoly2dOf s).reverse.map mirrorY)
          ((hpoly2dOf s).map (·.map (·.map mirrorY))) = selfIntOf s)
  | .scale k o =>
      (s.area ≠ none → areaOf (FaceCache.scale M s k o) = areaOf s * k ^ 2) ∧
      (s.is_convex ≠ none → convexOf (FaceCache.scale M s k o) = convexOf s) ∧
      (s.is_self_intersecting ≠ none → selfIntOf (FaceCache.scale M s k o) = selfIntOf s)
  | .scaleWorld k =>
      (s.area ≠ none → areaOf (FaceCache.scaleWorld M s k) = areaOf s * k ^ 2) ∧
      (s.is_convex ≠ none → convexOf (FaceCache.scaleWorld M s k) = convexOf s) ∧
      (s.is_self_intersecting ≠ none → selfIntOf (FaceCache.scaleWorld M s k) = selfIntOf s)
  | _ => True

/-- **Every operation of the `Face3D` cache machine preserves the invariant.** -/
theorem finv_step (K : FaceCache.Kern α) (M : MathOps α)
    (hsqrt : ∀ x, 0 ≤ x → M.sqrt x * M.sqrt x = x ∧ 0 ≤ M.sqrt x)
    (s : FaceC α) (op : FaceCache.Op α) (hv : ValidF M s op) (h : FInv K M s) :
    FInv K M (FaceCache.step K M s op) := by
  cases op with
  | readPolygon2d => exact finv_ext K M h (readPolygon2d_spec K M s h).2
  | readBoundaryPolygon2d => exact finv_ext K M h (readBoundaryPolygon2d_spec K M s h).2
  | readHolePolygon2d => exact finv_ext K M h (readHolePolygon2d_spec K M s h).2
  | readBoundarySegments => exact finv_ext K M h (readBoundarySegments_spec K M s h).2
  | readHoleSegments => exact finv_ext K M h (readHoleSegments_spec K M s h).2
  | readPerimeter => exact finv_ext K M h (readPerimeter_spec K M s h).2
  | readArea => exact finv_ext K M h (readArea_spec K M s h).2
  | readIsConvex => exact finv_ext K M h (readIsConvex_spec K M s h).2
  | readSelfInt => exact finv_ext K M h (readSelfInt_spec K M s h).2
  | readMesh2d => exact finv_ext K M h (readMesh2d_spec K M s h).2
  | readMesh3d => exact finv_ext K M h (readMesh3d_spec K M s h)
  | readCentroid => exact finv_ext K M h (readCentroid_spec K M s h).2
  | readMin => exact finv_ext K M h (readMin_spec K M s h).2
  | readMax => exact finv_ext K M h (readMax_spec K M s h).2
  | readCenter => exact finv_ext K M h (readCenter_spec K M s h).2
  | duplicate => exact finv_duplicate K M s h
  | flip => exact finv_flip K M s h hv.1 hv.2.1 hv.2.2
  | rigid g pg => exact finv_rigid K M s h g pg hv.1 hv.2
  | reflect g pg => exact finv_reflect K M s h g pg hv.1 hv.2.1 hv.2.2.1 hv.2.2.2
  | scale k o =>
    exact finv_scaleWith K M hsqrt s h k _
      (fun p q => by simp only [V3.normSq, V3.sub, p3_scale]; ring) hv.1 hv.2.1 hv.2.2
  | scaleWorld k =>
    exact finv_scaleWith K M hsqrt s h k _
      (fun p q => by simp only [V3.normSq, V3.sub, p3_scale_world]; ring) hv.1 hv.2.1 hv.2.2
  | removeColinear tol =>
    show FInv K M (match (FaceCache.removeColinear s tol).2 with
      | some t => t
      | none => (FaceCache.removeColinear s tol).1)
    obtain ⟨h1, h2⟩ := finv_removeColinear K M s h tol
    cases ht : (FaceCache.removeColinear s tol).2 with
    | none => exact h1
    | some t => exact h2 t ht

/-- Admissibility of a whole `Face3D` history. -/
def ValidHistF (K : FaceCache.Kern α) (M : MathOps α) : FaceC α → List (FaceCache.Op α) → Prop
  | _, [] => True
  | s, op :: ops => ValidF M s op ∧ ValidHistF K M (FaceCache.step K M s op) ops

/-- The invariant after EVERY history (induction over the operation list). -/
theorem finv_history (K : FaceCache.Kern α) (M : MathOps α)
    (hsqrt : ∀ x, 0 ≤ x → M.sqrt x * M.sqrt x = x ∧ 0 ≤ M.sqrt x)
    (s0 : FaceC α) (h0 : FInv K M s0) (ops : List (FaceCache.Op α))
    (hv : ValidHistF K M s0 ops) : FInv K M (ops.foldl (FaceCache.step K M) s0) := by
  induction ops generalizing s0 with
  | nil => exact h0
  | cons op ops ih =>
    simp only [List.foldl_cons]
    exact ih _ (finv_step K M hsqrt s0 op hv.1 h0) hv.2

/-- **C03 for Face3D.**  After any admissible history from a valid state, every memoising
getter answers exactly what a freshly built face with the same `_boundary`, `_holes`,
`_vertices`, `_plane` computes. -/
theorem fread_after_history (K : FaceCache.Kern α) (M : MathOps α)
    (hsqrt : ∀ x, 0 ≤ x → M.sqrt x * M.sqrt x = x ∧ 0 ≤ M.sqrt x)
    (s0 : FaceC α) (h0 : FInv K M s0) (ops : List (FaceCache.Op α))
    (hv : ValidHistF K M s0 ops) :
    let s := ops.foldl (FaceCache.step K M) s0
    let f := freshFace s.boundary s.holes s.vertices s.plane
    (readPerimeter M s).1 = (readPerimeter M f).1 ∧
    (FaceCache.readArea s).1 = (FaceCache.readArea f).1 ∧
    (FaceCache.readCentroid K s).1 = (FaceCache.readCentroid K f).1 ∧
    (readIsConvex s).1 = (readIsConvex f).1 ∧ (readSelfInt s).1 = (readSelfInt f).1 ∧
    (FaceCache.readMin s).1 = (FaceCache.readMin f).1 ∧
    (FaceCache.readMax s).1 = (FaceCache.readMax f).1 ∧
    (FaceCache.readCenter s).1 = (FaceCache.readCenter f).1 ∧
    (readPolygon2d s).1 = (readPolygon2d f).1 ∧ (readMesh2d s).1 = (readMesh2d f).1 ∧
    (readBoundarySegments s).1 = (readBoundarySegments f).1 ∧
    (readHoleSegments s).1 = (readHoleSegments f).1 ∧
    (readBoundaryPolygon2d s).1 = (readBoundaryPolygon2d f).1 ∧
    (readHolePolygon2d s).1 = (readHolePolygon2d f).1 := by
  intro s f
  have hi : FInv K M s := finv_history K M hsqrt s0 h0 ops hv
  have hf : FInv K M f := finv_fresh K M _ _ _ _ hi.wf
  obtain ⟨c1, c2, c3, c4, c5, c6, c7, c8, c9, c10, c11, c12, c13⟩ :=
    fresh_congr K M s f rfl rfl rfl rfl
  refine ⟨?_, ?_, ?_, ?_, ?_, ?_, ?_, ?_, ?_, ?_, ?_, ?_, ?_, ?_⟩
  · rw [(readPerimeter_spec K M s hi).1, (readPerimeter_spec K M f hf).1, c6]
  · rw [(readArea_spec K M s hi).1, (readArea_spec K M f hf).1, c7]
  · rw [(readCentroid_spec K M s hi).1, (readCentroid_spec K M f hf).1, c11]
  · rw [(readIsConvex_spec K M s hi).1, (readIsConvex_spec K M f hf).1, c8]
  · rw [(readSelfInt_spec K M s hi).1, (readSelfInt_spec K M f hf).1, c9]
  · rw [(readMin_spec K M s hi).1, (readMin_spec K M f hf).1, c12]
  · rw [(readMax_spec K M s hi).1, (readMax_spec K M f hf).1, c12]
  · rw [(readCenter_spec K M s hi).1, (readCenter_spec K M f hf).1, c13]
  · rw [(readPolygon2d_spec K M s hi).1, (readPolygon2d_spec K M f hf).1, c1]
  · rw [(readMesh2d_spec K M s hi).1, (readMesh2d_spec K M f hf).1, c10]
  · rw [(readBoundarySegments_spec K M s hi).1, (readBoundarySegments_spec K M f hf).1, c4]
  · rw [(readHoleSegments_spec K M s hi).1, (readHoleSegments_spec K M f hf).1, c5]
  · rw [(readBoundaryPolygon2d_spec K M s hi).1, (readBoundaryPolygon2d_spec K M f hf).1, c2]
  · rw [(readHolePolygon2d_spec K M s hi).1, (readHolePolygon2d_spec K M f hf).1, c3]

/-! ### The library's own transforms are admissible

For a face whose plane is a valid frame (`C02.PlaneValid`: unit normal, unit x axis
perpendicular to it, `y = n × x`) the point / plane maps that `Face3D.move`, `rotate`,
`rotate_xy`, `reflect`, `flip` use satisfy the geometric side conditions of `ValidF`
(through the isometry theorems of Props/C02). -/

theorem xyz_to_xy_eq_dot (pl : PlaneS α) (q : V3 α) :
    plane_xyz_to_xy pl q = ⟨V3.dot pl.x (V3.sub q pl.o), V3.dot pl.y (V3.sub q pl.o)⟩ := by
  simp only [plane_xyz_to_xy, V3.dot, V3.sub]

/-- `Face3D.move`. -/
theorem validF_move (M : MathOps α) (h1 : M.sqrt 1 = 1) (s : FaceC α)
    (hp : C02.PlaneValid s.plane) (v : V3 α) :
    ValidF M s (.rigid (fun p => p3_move p v) (fun pl => plane_move M pl v)) := by
  obtain ⟨ho, _, hx, hy, _, _⟩ := C02.plane_move_valid M h1 s.plane v hp
  refine ⟨fun p q => by simp only [V3.normSq, V3.sub, p3_move]; ring, fun p => ?_⟩
  show plane_xyz_to_xy (plane_move M s.plane v) (p3_move p v) = _
  rw [xyz_to_xy_eq_dot, xyz_to_xy_eq_dot, ho, hx, hy]
  congr 1 <;> (simp only [V3.dot, V3.sub, p3_move]; ring)

/-- `Face3D.rotate_xy` (`cos² + sin² = 1`). -/
theorem validF_rotate_xy (M : MathOps α) (h1 : M.sqrt 1 = 1) (s : FaceC α)
    (hp : C02.PlaneValid s.plane) (θ : α) (o : V3 α)
    (hcs : M.cos θ * M.cos θ + M.sin θ * M.sin θ = 1) :
    ValidF M s (.rigid (fun p => p3_rotate_xy M p θ o) (fun pl => plane_rotate_xy M pl θ o)) := by
  obtain ⟨ho, _, hx, hy, _, _⟩ := C02.plane_rotate_xy_valid M h1 s.plane θ o hcs hp
  refine ⟨fun p q => C02.p3_rotate_xy_distSq M p q o θ hcs, fun p => ?_⟩
  show plane_xyz_to_xy (plane_rotate_xy M s.plane θ o) (p3_rotate_xy M p θ o) = _
  rw [xyz_to_xy_eq_dot, xyz_to_xy_eq_dot, ho, hx, hy, C02.p3_rotate_xy_eq, C02.p3_rotate_xy_eq,
    v3_add_sub_add_left, C02.v3_rotate_xy_sub, C02.v3_rotate_xy_dot M _ _ θ hcs,
    C02.v3_rotate_xy_dot M _ _ θ hcs, v3_sub_sub_sub]

/-- `Face3D.rotate` (non-zero axis, `cos² + sin² = 1`, `sqrt` exact on `|axis|²`). -/
theorem validF_rotate (M : MathOps α) (h1 : M.sqrt 1 = 1) (s : FaceC α)
    (hp : C02.PlaneValid s.plane) (axis : V3 α) (θ : α) (o : V3 α)
    (hcs : M.cos θ * M.cos θ + M.sin θ * M.sin θ = 1)
    (hr : M.sqrt (V3.normSq axis) * M.sqrt (V3.normSq axis) = V3.normSq axis)
    (h0 : V3.normSq axis ≠ 0) :
    ValidF M s (.rigid (fun p => p3_rotate M p axis θ o)
      (fun pl => plane_rotate M pl axis θ o)) := by
  obtain ⟨ho, _, hx, hy, _, _⟩ := C02.plane_rotate_valid M h1 s.plane axis θ o hcs hr h0 hp
  refine ⟨fun p q => C02.p3_rotate_distSq M p q axis o θ hcs hr h0, fun p => ?_⟩
  show plane_xyz_to_xy (plane_rotate M s.plane axis θ o) (p3_rotate M p axis θ o) = _
  rw [xyz_to_xy_eq_dot, xyz_to_xy_eq_dot, ho, hx, hy, C02.p3_rotate_eq, C02.p3_rotate_eq,
    v3_add_sub_add_left, C02.v3_rotate_sub, C02.v3_rotate_dot M _ _ axis θ hcs hr h0,
    C02.v3_rotate_dot M _ _ axis θ hcs hr h0, v3_sub_sub_sub]

/-- The geometric part of `ValidF` for `Face3D.reflect` (unit normal): distances are kept
and the reflected plane shows every vertex at the mirrored coordinates. -/
theorem reflect_coords (M : MathOps α) (h1 : M.sqrt 1 = 1) (pl : PlaneS α)
    (hp : C02.PlaneValid pl) (n o : V3 α) (hn : V3.normSq n = 1) :
    Isom3 (fun p => p3_reflect p n o) ∧
    ∀ p, plane_xyz_to_xy (plane_reflect M pl n o) (p3_reflect p n o) =
      mirrorY (plane_xyz_to_xy pl p) := by
  obtain ⟨ho, _, hx, hy, _, _⟩ := C02.plane_reflect_valid M h1 pl n o hn hp
  refine ⟨fun p q => C02.p3_reflect_distSq p q n o hn, fun p => ?_⟩
  rw [xyz_to_xy_eq_dot, xyz_to_xy_eq_dot, ho, hx, hy, C02.p3_reflect_eq p, C02.p3_reflect_eq pl.o,
    v3_add_sub_add_left, C02.v3_reflect_sub, v3_sub_sub_sub]
  have e1 := C02.v3_reflect_dot pl.x (V3.sub p pl.o) n hn
  have e2 := C02.v3_reflect_dot pl.y (V3.sub p pl.o) n hn
  unfold mirrorY
  congr 1
  · simp only [V3.dot, V3.neg] at e2 ⊢
    linear_combination -e2

/-- The geometric part of `ValidF` for `Face3D.flip`. -/
theorem flip_coords (M : MathOps α) (h1 : M.sqrt 1 = 1) (pl : PlaneS α) (hp : C02.PlaneValid pl) :
    ∀ p, plane_xyz_to_xy (plane_flip M pl) p = mirrorY (plane_xyz_to_xy pl p) := by
  obtain ⟨ho, _, hx, hy, _, _⟩ := C02.plane_flip_valid M h1 pl hp
  intro p
  rw [xyz_to_xy_eq_dot, xyz_to_xy_eq_dot, ho, hx, hy]
  unfold mirrorY
  congr 1
  simp only [V3.dot, V3.neg]; ring

/-! ## 4. Polyface3D -/

section polyface
open Lbg.Model.PolyfaceCache Lbg.Model.EdgeInfo Lbg.Lemmas.EdgeInfo Lbg.Spec.EdgeCount

/-- Stands for the part of `Polyface3D.faces` the machine does not transcribe: the faces a
freshly built `Polyface3D(vertices, face_indices, edge_information)` constructs (one
`Face3D(boundary[, holes])` per index loop, re-oriented by `get_outward_faces` when solid). -/
structure PfKern (α : Type) where
  faces : List (V3 α) → List (List (List Nat)) → Bool → List (FaceC α)

/-- Two faces that `Polyface3D.area` / `volume` cannot tell apart: same vertex loop, same
normal, same (fresh) area.  (A cached face that went through `rotate` has another in-plane x
axis than the face the constructor would build; this is all that may differ.) -/
def FaceEq (f f' : FaceC α) : Prop :=
  f.vertices = f'.vertices ∧ f.plane.n = f'.plane.n ∧ areaOf f = areaOf f'

/-- `sum(face.area for face in faces)` on fresh face areas. -/
def areaOfFaces (fs : List (FaceC α)) : α := pySum (fs.map areaOf)

/-- One summand of `Polyface3D.volume`: `face[0].dot(face.normal) * face.area`. -/
def volTermF (f : FaceC α) : α := v3_dot (f.vertices.headD ⟨0, 0, 0⟩) f.plane.n * areaOf f

/-- `Polyface3D.volume` on fresh face areas. -/
def volOfFaces (fs : List (FaceC α)) : α := (fs.foldl (fun acc f => acc + volTermF f) 0) / 3

/-- Indistinguishable face lists have the same area sum and the same divergence volume. -/
theorem faceEq_sums {fs fs' : List (FaceC α)} (h : List.Forall₂ FaceEq fs fs') :
    areaOfFaces fs = areaOfFaces fs' ∧ volOfFaces fs = volOfFaces fs' := by
  have h1 : fs.map areaOf = fs'.map areaOf := by
    induction h with
    | nil => rfl
    | cons hab _ ih => simp only [List.map_cons, ih, hab.2.2]
  have h2 : fs.map volTermF = fs'.map volTermF := by
    clear h1
    induction h with
    | nil => rfl
    | cons hab _ ih =>
      simp only [List.map_cons, ih, volTermF, hab.1, hab.2.1, hab.2.2]
  refine ⟨by unfold areaOfFaces; rw [h1], ?_⟩
  unfold volOfFaces
  rw [foldl_add_eq_sum, foldl_add_eq_sum, h2]

/-- Fresh faces of the current data. -/
def freshFaces (Kf : PfKern α) (s : PfC α) : List (FaceC α) :=
  Kf.faces s.vertices s.face_indices s.is_solid

/-- A face list that may sit in `_faces`: every face has a valid cache of its own, and the
list is indistinguishable (`FaceEq`) from the fresh faces. -/
def FacesOK (Kf : PfKern α) (K : FaceCache.Kern α) (M : MathOps α) (s : PfC α)
    (fs : List (FaceC α)) : Prop :=
  (∀ f ∈ fs, FInv K M f) ∧ List.Forall₂ FaceEq fs (freshFaces Kf s)

/-- "No cached value is stale" for `Polyface3D`: the edge table is a correct incidence table
of the index loops and `_is_solid` is computed from it; cached `_faces` are valid faces
indistinguishable from the fresh ones; `_area`, `_volume` are the sums over the fresh faces;
the edge-segment slots are read off the stored table; bounding-box slots as usual. -/
structure PfInv (Kf : PfKern α) (K : FaceCache.Kern α) (M : MathOps α) (s : PfC α) : Prop where
  edgeok : EdgeOK s.edge_indices s.edge_types s.face_indices
  solid : s.is_solid = isSolidOf s.edge_types
  faces : ∀ fs, s.faces = some fs → FacesOK Kf K M s fs
  area : ∀ a, s.area = some a → a = areaOfFaces (freshFaces Kf s)
  volume : ∀ v, s.volume = some v → v = volOfFaces (freshFaces Kf s)
  edges : ∀ l, s.edges = some l → l = edgesOf s
  naked : ∀ l, s.naked_edges = some l → l = edgesOfType (edgesOf s) s.edge_types (· == 0)
  internal : ∀ l, s.internal_edges = some l → l = edgesOfType (edgesOf s) s.edge_types (· == 1)
  nonmanifold : ∀ l, s.non_manifold_edges = some l →
    l = edgesOfType (edgesOf s) s.edge_types (fun t => decide (1 < t))
  min : ∀ m, s.min = some m → m = (calcMinMax3 s.vertices).1
  max : ∀ m, s.max = some m → m = (calcMinMax3 s.vertices).2
  center : ∀ c, s.center = some c → c = centerOf3 s.vertices

/-- `t` has the defining data and edge table of `s`, and every memo slot of `t` is the slot of
`s` or holds a fresh value. -/
structure PfExt (Kf : PfKern α) (K : FaceCache.Kern α) (M : MathOps α) (s t : PfC α) : Prop where
  vertices : t.vertices = s.vertices
  face_indices : t.face_indices = s.face_indices
  edge_indices : t.edge_indices = s.edge_indices
  edge_types : t.edge_types = s.edge_types
  is_solid : t.is_solid = s.is_solid
  faces : t.faces = s.faces ∨ ∃ fs, t.faces = some fs ∧ FacesOK Kf K M s fs
  area : t.area = s.area ∨ t.area = some (areaOfFaces (freshFaces Kf s))
  volume : t.volume = s.volume ∨ t.volume = some (volOfFaces (freshFaces Kf s))
  edges : t.edges = s.edges ∨ t.edges = some (edgesOf s)
  naked : t.naked_edges = s.naked_edges ∨
    t.naked_edges = some (edgesOfType (edgesOf s) s.edge_types (· == 0))
  internal : t.internal_edges = s.internal_edges ∨
    t.internal_edges = some (edgesOfType (edgesOf s) s.edge_types (· == 1))
  nonmanifold : t.non_manifold_edges = s.non_manifold_edges ∨
    t.non_manifold_edges = some (edgesOfType (edgesOf s) s.edge_types (fun t => decide (1 < t)))
  min : t.min = s.min ∨ t.min = some (calcMinMax3 s.vertices).1
  max : t.max = s.max ∨ t.max = some (calcMinMax3 s.vertices).2
  center : t.center = s.center ∨ t.center = some (centerOf3 s.vertices)

/-- Fresh faces and edge segments only depend on the defining data and the edge table. -/
theorem pf_congr (Kf : PfKern α) (K : FaceCache.Kern α) (M : MathOps α) {s t : PfC α}
    (e : PfExt Kf K M s t) :
    freshFaces Kf t = freshFaces Kf s ∧ edgesOf t = edgesOf s ∧
    (∀ fs, FacesOK Kf K M t fs ↔ FacesOK Kf K M s fs) := by
  have h1 : freshFaces Kf t = freshFaces Kf s := by
    simp only [freshFaces, e.vertices, e.face_indices, e.is_solid]
  refine ⟨h1, by simp only [edgesOf, e.vertices, e.edge_indices], fun fs => ?_⟩
  simp only [FacesOK, h1]

/-- A polyface state extends itself. -/
theorem pfext_refl (Kf : PfKern α) (K : FaceCache.Kern α) (M : MathOps α) (s : PfC α) :
    PfExt Kf K M s s :=
  ⟨rfl, rfl, rfl, rfl, rfl, .inl rfl, .inl rfl, .inl rfl, .inl rfl, .inl rfl, .inl rfl, .inl rfl,
   .inl rfl, .inl rfl, .inl rfl⟩

/-- Polyface extensions compose. -/
theorem pfext_trans (Kf : PfKern α) (K : FaceCache.Kern α) (M : MathOps α) {s t u : PfC α}
    (h1 : PfExt Kf K M s t) (h2 : PfExt Kf K M t u) : PfExt Kf K M s u := by
  obtain ⟨c1, c2, c3⟩ := pf_congr Kf K M h1
  refine ⟨h2.vertices.trans h1.vertices, h2.face_indices.trans h1.face_indices,
    h2.edge_indices.trans h1.edge_indices, h2.edge_types.trans h1.edge_types,
    h2.is_solid.trans h1.is_solid, ?_, ?_, ?_, ?_, ?_, ?_, ?_, ?_, ?_, ?_⟩
  · rcases h2.faces with e | ⟨fs, e, ok⟩
    · rcases h1.faces with e' | e'
      · exact .inl (e.trans e')
      · exact .inr (e ▸ e')
    · exact .inr ⟨fs, e, (c3 fs).mp ok⟩
  · rcases h2.area with e | e <;> rcases h1.area with e' | e' <;> simp_all
  · rcases h2.volume with e | e <;> rcases h1.volume with e' | e' <;> simp_all
  · rcases h2.edges with e | e <;> rcases h1.edges with e' | e' <;> simp_all
  · have := h1.edge_types
    rcases h2.naked with e | e <;> rcases h1.naked with e' | e' <;> simp_all
  · have := h1.edge_types
    rcases h2.internal with e | e <;> rcases h1.internal with e' | e' <;> simp_all
  · have := h1.edge_types
    rcases h2.nonmanifold with e | e <;> rcases h1.nonmanifold with e' | e' <;> simp_all
  · have := h1.vertices
    rcases h2.min with e | e <;> rcases h1.min with e' | e' <;> simp_all
  · have := h1.vertices
    rcases h2.max with e | e <;> rcases h1.max with e' | e' <;> simp_all
  · have := h1.vertices
    rcases h2.center with e | e <;> rcases h1.center with e' | e' <;> simp_all

/-- Filling slots with fresh values keeps the polyface cache valid. -/
theorem pfinv_ext (Kf : PfKern α) (K : FaceCache.Kern α) (M : MathOps α) {s t : PfC α}
    (h : PfInv Kf K M s) (e : PfExt Kf K M s t) : PfInv Kf K M t := by
  obtain ⟨c1, c2, c3⟩ := pf_congr Kf K M e
  refine ⟨?_, ?_, ?_, ?_, ?_, ?_, ?_, ?_, ?_, ?_, ?_, ?_⟩
  · rw [e.edge_indices, e.edge_types, e.face_indices]; exact h.edgeok
  · rw [e.is_solid, e.edge_types]; exact h.solid
  · intro fs hfs
    rw [c3]
    rcases e.faces with e' | ⟨fs', e', ok⟩
    · exact h.faces fs (e' ▸ hfs)
    · rw [e'] at hfs; cases hfs; exact ok
  · intro x hx; rw [c1]
    rcases e.area with e' | e' <;> rw [e'] at hx
    · exact h.area x hx
    · exact (Option.some.inj hx).symm
  · intro x hx; rw [c1]
    rcases e.volume with e' | e' <;> rw [e'] at hx
    · exact h.volume x hx
    · exact (Option.some.inj hx).symm
  · intro x hx; rw [c2]
    rcases e.edges with e' | e' <;> rw [e'] at hx
    · exact h.edges x hx
    · exact (Option.some.inj hx).symm
  · intro x hx; rw [c2, e.edge_types]
    rcases e.naked with e' | e' <;> rw [e'] at hx
    · exact h.naked x hx
    · exact (Option.some.inj hx).symm
  · intro x hx; rw [c2, e.edge_types]
    rcases e.internal with e' | e' <;> rw [e'] at hx
    · exact h.internal x hx
    · exact (Option.some.inj hx).symm
  · intro x hx; rw [c2, e.edge_types]
    rcases e.nonmanifold with e' | e' <;> rw [e'] at hx
    · exact h.nonmanifold x hx
    · exact (Option.some.inj hx).symm
  · intro x hx; rw [e.vertices]
    rcases e.min with e' | e' <;> rw [e'] at hx
    · exact h.min x hx
    · exact (Option.some.inj hx).symm
  · intro x hx; rw [e.vertices]
    rcases e.max with e' | e' <;> rw [e'] at hx
    · exact h.max x hx
    · exact (Option.some.inj hx).symm
  · intro x hx; rw [e.vertices]
    rcases e.center with e' | e' <;> rw [e'] at hx
    · exact h.center x hx
    · exact (Option.some.inj hx).symm

/-! ### Getters -/

/-- A face whose cache was only extended with fresh values is still indistinguishable from the
same fresh face. -/
theorem faceEq_of_ext (K : FaceCache.Kern α) (M : MathOps α) {f f2 f' : FaceC α}
    (e : Ext K M f f2) (h : FaceEq f f') : FaceEq f2 f' := by
  obtain ⟨_, _, _, _, _, _, c7, _⟩ := fresh_congr K M f f2 e.boundary e.holes e.vertices e.plane
  exact ⟨e.vertices.trans h.1, by rw [e.plane]; exact h.2.1, c7.trans h.2.2⟩

/-- Reading `area` on each face keeps the face list indistinguishable from the fresh faces. -/
theorem forall₂_readArea (K : FaceCache.Kern α) (M : MathOps α) {fs fs' : List (FaceC α)}
    (h1 : ∀ f ∈ fs, FInv K M f) (h2 : List.Forall₂ FaceEq fs fs') :
    List.Forall₂ FaceEq (fs.map (fun f => (FaceCache.readArea f).2)) fs' := by
  rw [List.forall₂_map_left_iff]
  induction h2 with
  | nil => exact List.Forall₂.nil
  | cons hab _ ih =>
    refine List.Forall₂.cons ?_ (ih (fun f hf => h1 f (List.mem_cons_of_mem _ hf)))
    exact faceEq_of_ext K M (readArea_spec K M _ (h1 _ List.mem_cons_self)).2 hab

/-- Reading `area` on every cached face: the answers are the fresh areas and the faces stay an
admissible content of `_faces`. -/
theorem facesOK_readArea (Kf : PfKern α) (K : FaceCache.Kern α) (M : MathOps α) (s : PfC α)
    (fs : List (FaceC α)) (hok : FacesOK Kf K M s fs) :
    FacesOK Kf K M s (fs.map (fun f => (FaceCache.readArea f).2)) ∧
    fs.map (fun f => (FaceCache.readArea f).1) = fs.map areaOf := by
  refine ⟨⟨?_, ?_⟩, ?_⟩
  · intro f2 hf2
    obtain ⟨f, hf, rfl⟩ := List.mem_map.mp hf2
    exact finv_ext K M (hok.1 f hf) (readArea_spec K M f (hok.1 f hf)).2
  · exact forall₂_readArea K M hok.1 hok.2
  · apply List.map_congr_left
    intro f hf
    exact (readArea_spec K M f (hok.1 f hf)).1

/-- `faces` under a valid cache (`fr` admissible when the slot is empty). -/
theorem pf_readFaces_spec (Kf : PfKern α) (K : FaceCache.Kern α) (M : MathOps α) (s : PfC α)
    (h : PfInv Kf K M s) (fr : List (FaceC α)) (hfr : s.faces = none → FacesOK Kf K M s fr) :
    FacesOK Kf K M s (PolyfaceCache.readFaces fr s).1 ∧
      PfExt Kf K M s (PolyfaceCache.readFaces fr s).2 := by
  unfold PolyfaceCache.readFaces
  cases hf : s.faces with
  | some fs => exact ⟨h.faces fs hf, pfext_refl Kf K M s⟩
  | none =>
    refine ⟨hfr hf, ?_⟩
    refine ⟨rfl, rfl, rfl, rfl, rfl, .inr ⟨fr, rfl, hfr hf⟩, .inl rfl, .inl rfl, .inl rfl,
      .inl rfl, .inl rfl, .inl rfl, .inl rfl, .inl rfl, .inl rfl⟩

/-- `area` under a valid cache: the sum of the fresh face areas. -/
theorem pf_readArea_spec (Kf : PfKern α) (K : FaceCache.Kern α) (M : MathOps α) (s : PfC α)
    (h : PfInv Kf K M s) (fr : List (FaceC α)) (hfr : s.faces = none → FacesOK Kf K M s fr) :
    (PolyfaceCache.readArea fr s).1 = areaOfFaces (freshFaces Kf s) ∧
      PfExt Kf K M s (PolyfaceCache.readArea fr s).2 := by
  unfold PolyfaceCache.readArea
  cases ha : s.area with
  | some a => exact ⟨h.area a ha, pfext_refl Kf K M s⟩
  | none =>
    obtain ⟨ok, e⟩ := pf_readFaces_spec Kf K M s h fr hfr
    obtain ⟨ok2, hv⟩ := facesOK_readArea Kf K M s _ ok
    have hval : pySum (((PolyfaceCache.readFaces fr s).1.map FaceCache.readArea).map (·.1)) =
        areaOfFaces (freshFaces Kf s) := by
      rw [List.map_map]
      show pySum ((PolyfaceCache.readFaces fr s).1.map (fun f => (FaceCache.readArea f).1)) = _
      rw [hv]
      exact (faceEq_sums ok.2).1
    simp only []
    rw [hval]
    refine ⟨rfl, ?_⟩
    refine ⟨e.vertices, e.face_indices, e.edge_indices, e.edge_types, e.is_solid,
      .inr ⟨_, rfl, ?_⟩, .inr rfl, e.volume, e.edges, e.naked, e.internal, e.nonmanifold, e.min,
      e.max, e.center⟩
    rw [List.map_map]
    exact ok2

/-- `volume` under a valid cache: the divergence sum over the fresh faces. -/
theorem pf_readVolume_spec (Kf : PfKern α) (K : FaceCache.Kern α) (M : MathOps α) (s : PfC α)
    (h : PfInv Kf K M s) (fr : List (FaceC α)) (hfr : s.faces = none → FacesOK Kf K M s fr) :
    (PolyfaceCache.readVolume fr s).1 = volOfFaces (freshFaces Kf s) ∧
      PfExt Kf K M s (PolyfaceCache.readVolume fr s).2 := by
  unfold PolyfaceCache.readVolume
  cases ha : s.volume with
  | some a => exact ⟨h.volume a ha, pfext_refl Kf K M s⟩
  | none =>
    obtain ⟨ok, e⟩ := pf_readFaces_spec Kf K M s h fr hfr
    obtain ⟨ok2, hv⟩ := facesOK_readArea Kf K M s _ ok
    have hval : volLoop (PolyfaceCache.readFaces fr s).1 / 3 = volOfFaces (freshFaces Kf s) := by
      rw [← (faceEq_sums ok.2).2]
      unfold volLoop volOfFaces
      congr 1
      rw [foldl_add_eq_sum (fun f => v3_dot (f.vertices.headD ⟨0, 0, 0⟩) f.plane.n *
        (FaceCache.readArea f).1), foldl_add_eq_sum volTermF]
      congr 2
      apply List.map_congr_left
      intro f hf
      show _ * (FaceCache.readArea f).1 = _ * areaOf f
      rw [(readArea_spec K M f (ok.1 f hf)).1]
    simp only []
    rw [hval]
    refine ⟨rfl, ?_⟩
    exact ⟨e.vertices, e.face_indices, e.edge_indices, e.edge_types, e.is_solid,
      .inr ⟨_, rfl, ok2⟩, e.area, .inr rfl, e.edges, e.naked, e.internal, e.nonmanifold, e.min,
      e.max, e.center⟩

/-- `edges` under a valid cache: segments of the stored edge table. -/
theorem pf_readEdges_spec (Kf : PfKern α) (K : FaceCache.Kern α) (M : MathOps α) (s : PfC α)
    (h : PfInv Kf K M s) :
    (PolyfaceCache.readEdges s).1 = edgesOf s ∧ PfExt Kf K M s (PolyfaceCache.readEdges s).2 := by
  unfold PolyfaceCache.readEdges
  cases hs : s.edges with
  | some l => exact ⟨h.edges l hs, pfext_refl Kf K M s⟩
  | none => exact ⟨rfl, by constructor <;> first | rfl | exact Or.inl rfl | exact Or.inr rfl⟩

/-- `naked_edges` under a valid cache (through the `edges` getter). -/
theorem pf_readNakedEdges_spec (Kf : PfKern α) (K : FaceCache.Kern α) (M : MathOps α) (s : PfC α)
    (h : PfInv Kf K M s) : PfExt Kf K M s (PolyfaceCache.readNakedEdges s).2 := by
  unfold PolyfaceCache.readNakedEdges
  cases hs : s.naked_edges with
  | some l => exact pfext_refl Kf K M s
  | none =>
    obtain ⟨v, e⟩ := pf_readEdges_spec Kf K M s h
    simp only []
    rw [v]
    exact ⟨e.vertices, e.face_indices, e.edge_indices, e.edge_types, e.is_solid, e.faces, e.area,
      e.volume, e.edges, .inr rfl, e.internal, e.nonmanifold, e.min, e.max, e.center⟩

/-- `internal_edges` under a valid cache. -/
theorem pf_readInternalEdges_spec (Kf : PfKern α) (K : FaceCache.Kern α) (M : MathOps α)
    (s : PfC α) (h : PfInv Kf K M s) : PfExt Kf K M s (PolyfaceCache.readInternalEdges s).2 := by
  unfold PolyfaceCache.readInternalEdges
  cases hs : s.internal_edges with
  | some l => exact pfext_refl Kf K M s
  | none =>
    obtain ⟨v, e⟩ := pf_readEdges_spec Kf K M s h
    simp only []
    rw [v]
    exact ⟨e.vertices, e.face_indices, e.edge_indices, e.edge_types, e.is_solid, e.faces, e.area,
      e.volume, e.edges, e.naked, .inr rfl, e.nonmanifold, e.min, e.max, e.center⟩

/-- `non_manifold_edges` under a valid cache. -/
theorem pf_readNonManifoldEdges_spec (Kf : PfKern α) (K : FaceCache.Kern α) (M : MathOps α)
    (s : PfC α) (h : PfInv Kf K M s) :
    PfExt Kf K M s (PolyfaceCache.readNonManifoldEdges s).2 := by
  unfold PolyfaceCache.readNonManifoldEdges
  cases hs : s.non_manifold_edges with
  | some l => exact pfext_refl Kf K M s
  | none =>
    obtain ⟨v, e⟩ := pf_readEdges_spec Kf K M s h
    simp only []
    rw [v]
    exact ⟨e.vertices, e.face_indices, e.edge_indices, e.edge_types, e.is_solid, e.faces, e.area,
      e.volume, e.edges, e.naked, e.internal, .inr rfl, e.min, e.max, e.center⟩

/-- `Polyface3D.min` under a valid cache. -/
theorem pf_readMin_spec (Kf : PfKern α) (K : FaceCache.Kern α) (M : MathOps α) (s : PfC α)
    (h : PfInv Kf K M s) :
    (PolyfaceCache.readMin s).1 = (calcMinMax3 s.vertices).1 ∧
      PfExt Kf K M s (PolyfaceCache.readMin s).2 := by
  unfold PolyfaceCache.readMin
  cases hs : s.min with
  | some l => exact ⟨h.min l hs, pfext_refl Kf K M s⟩
  | none => exact ⟨rfl, by constructor <;> first | rfl | exact Or.inl rfl | exact Or.inr rfl⟩

/-- `Polyface3D.max` under a valid cache. -/
theorem pf_readMax_spec (Kf : PfKern α) (K : FaceCache.Kern α) (M : MathOps α) (s : PfC α)
    (h : PfInv Kf K M s) :
    (PolyfaceCache.readMax s).1 = (calcMinMax3 s.vertices).2 ∧
      PfExt Kf K M s (PolyfaceCache.readMax s).2 := by
  unfold PolyfaceCache.readMax
  cases hs : s.max with
  | some l => exact ⟨h.max l hs, pfext_refl Kf K M s⟩
  | none => exact ⟨rfl, by constructor <;> first | rfl | exact Or.inl rfl | exact Or.inr rfl⟩

/-- `Polyface3D.center` under a valid cache. -/
theorem pf_readCenter_spec (Kf : PfKern α) (K : FaceCache.Kern α) (M : MathOps α) (s : PfC α)
    (h : PfInv Kf K M s) :
    (PolyfaceCache.readCenter s).1 = centerOf3 s.vertices ∧
      PfExt Kf K M s (PolyfaceCache.readCenter s).2 := by
  unfold PolyfaceCache.readCenter
  cases hc : s.center with
  | some c => exact ⟨h.center c hc, pfext_refl Kf K M s⟩
  | none =>
    obtain ⟨a1, ea⟩ := pf_readMin_spec Kf K M s h
    obtain ⟨b1, eb⟩ := pf_readMax_spec Kf K M _ (pfinv_ext Kf K M h ea)
    have e := pfext_trans Kf K M ea eb
    simp only []
    rw [a1, b1, ea.vertices]
    exact ⟨rfl, ⟨e.vertices, e.face_indices, e.edge_indices, e.edge_types, e.is_solid, e.faces,
      e.area, e.volume, e.edges, e.naked, e.internal, e.nonmanifold, e.min, e.max, .inr rfl⟩⟩

/-! ### Methods returning a new polyface -/

/-- What carrying `_faces` (mapped by the face method `ff`) and `_volume` (times `c`) over to
the transformed polyface `t` needs: each cached face allows the face operation (`vf`), the
mapped faces are indistinguishable from the faces a fresh polyface with `t`'s data builds
(equivariance of the face construction incl. `get_outward_faces` under the transform), and —
only when `_volume` is cached — the fresh volume of `t` is `c ×` that of `s` (true for closed
solids; FALSE for open shells under translations, see `open_shell_volume_not_invariant`). -/
def TransOK (Kf : PfKern α) (s t : PfC α) (ff : FaceC α → FaceC α) (vf : FaceC α → Prop)
    (c : α) : Prop :=
  (∀ fs, s.faces = some fs → t.faces = some (fs.map ff) →
    (∀ f ∈ fs, vf f) ∧ List.Forall₂ FaceEq (fs.map ff) (freshFaces Kf t)) ∧
  (s.volume ≠ none → volOfFaces (freshFaces Kf t) = volOfFaces (freshFaces Kf s) * c)

/-- Generic transform step. -/
theorem pfinv_transform (Kf : PfKern α) (K : FaceCache.Kern α) (M : MathOps α) (s t : PfC α)
    (h : PfInv Kf K M s) (ff : FaceC α → FaceC α) (vf : FaceC α → Prop) (c : α)
    (hei : t.edge_indices = s.edge_indices) (het : t.edge_types = s.edge_types)
    (hfi : t.face_indices = s.face_indices ∨ t.face_indices = revLoops s.face_indices)
    (hsol : t.is_solid = isSolidOf t.edge_types)
    (hfaces : t.faces = s.faces.map (·.map ff) ∨ t.faces = none)
    (hvol : t.volume = s.volume.map (· * c))
    (hff : ∀ f, FInv K M f → vf f → FInv K M (ff f))
    (hz : t.area = none ∧ t.edges = none ∧ t.naked_edges = none ∧ t.internal_edges = none ∧
      t.non_manifold_edges = none ∧ t.min = none ∧ t.max = none ∧ t.center = none)
    (hok : TransOK Kf s t ff vf c) : PfInv Kf K M t := by
  obtain ⟨z1, z2, z3, z4, z5, z6, z7, z8⟩ := hz
  refine ⟨?_, hsol, ?_, ?_, ?_, ?_, ?_, ?_, ?_, ?_, ?_, ?_⟩
  · rw [hei, het]
    rcases hfi with e | e <;> rw [e]
    · exact h.edgeok
    · exact edgeOK_revLoops h.edgeok
  · intro fs' hfs'
    rcases hfaces with e | e
    · rw [e] at hfs'
      obtain ⟨fs, hs, rfl⟩ := Option.map_eq_some_iff.mp hfs'
      obtain ⟨hv, hq⟩ := hok.1 fs hs (by rw [e, hs]; rfl)
      refine ⟨?_, hq⟩
      intro f' hf'
      obtain ⟨f, hf, rfl⟩ := List.mem_map.mp hf'
      exact hff f ((h.faces fs hs).1 f hf) (hv f hf)
    · rw [e] at hfs'; simp at hfs'
  · intro a ha; rw [z1] at ha; simp at ha
  · intro v hv
    rw [hvol] at hv
    obtain ⟨v0, hv0, rfl⟩ := Option.map_eq_some_iff.mp hv
    rw [hok.2 (by rw [hv0]; simp), h.volume v0 hv0]
  · intro l hl; rw [z2] at hl; simp at hl
  · intro l hl; rw [z3] at hl; simp at hl
  · intro l hl; rw [z4] at hl; simp at hl
  · intro l hl; rw [z5] at hl; simp at hl
  · intro l hl; rw [z6] at hl; simp at hl
  · intro l hl; rw [z7] at hl; simp at hl
  · intro l hl; rw [z8] at hl; simp at hl

/-- `__copy__`: `_faces` shared, everything else recomputed on demand. -/
theorem pfinv_duplicate (Kf : PfKern α) (K : FaceCache.Kern α) (M : MathOps α) (s : PfC α)
    (h : PfInv Kf K M s) : PfInv Kf K M (PolyfaceCache.duplicate s) := by
  refine ⟨h.edgeok, rfl, ?_, ?_, ?_, ?_, ?_, ?_, ?_, ?_, ?_, ?_⟩
  · intro fs hfs
    have hs : s.faces = some fs := hfs
    have := h.faces fs hs
    refine ⟨this.1, ?_⟩
    have e : freshFaces Kf (PolyfaceCache.duplicate s) = freshFaces Kf s := by
      show Kf.faces s.vertices s.face_indices (isSolidOf s.edge_types) = _
      rw [← h.solid]; rfl
    rw [e]; exact this.2
  all_goals (intro x hx; simp [PolyfaceCache.duplicate, mkPf] at hx)

/-- Side conditions of the `Polyface3D` operations, on the state they are applied to. -/
def ValidPf (Kf : PfKern α) (K : FaceCache.Kern α) (M : MathOps α) (s : PfC α) :
    PolyfaceCache.Op α → Prop
  | .readFaces fr => s.faces = none → FacesOK Kf K M s fr
  | .readArea fr => s.faces = none → FacesOK Kf K M s fr
  | .readVolume fr => s.faces = none → FacesOK Kf K M s fr
  | .rigid g pg => TransOK Kf s (PolyfaceCache.rigid s g pg) (fun f => FaceCache.rigid f g pg)
      (fun f => ValidF M f (.rigid g pg)) 1
  | .reflect g pg => TransOK Kf s (PolyfaceCache.reflect s g pg)
      (fun f => FaceCache.reflect f g pg) (fun f => ValidF M f (.reflect g pg)) 1
  | .scale k o => TransOK Kf s (PolyfaceCache.scale M s k o) (fun f => FaceCache.scale M f k o)
      (fun f => ValidF M f (.scale k o)) (|k| ^ 3)
  | .scaleWorld k => TransOK Kf s (PolyfaceCache.scaleWorld M s k)
      (fun f => FaceCache.scaleWorld M f k) (fun f => ValidF M f (.scaleWorld k)) (|k| ^ 3)
  | _ => True

/-- **Every operation of the `Polyface3D` cache machine preserves the invariant.** -/
theorem pfinv_step (Kf : PfKern α) (K : FaceCache.Kern α) (M : MathOps α)
    (hsqrt : ∀ x, 0 ≤ x → M.sqrt x * M.sqrt x = x ∧ 0 ≤ M.sqrt x)
    (s : PfC α) (op : PolyfaceCache.Op α) (hv : ValidPf Kf K M s op) (h : PfInv Kf K M s) :
    PfInv Kf K M (PolyfaceCache.step M s op) := by
  cases op with
  | readFaces fr => exact pfinv_ext Kf K M h (pf_readFaces_spec Kf K M s h fr hv).2
  | readArea fr => exact pfinv_ext Kf K M h (pf_readArea_spec Kf K M s h fr hv).2
  | readVolume fr => exact pfinv_ext Kf K M h (pf_readVolume_spec Kf K M s h fr hv).2
  | readEdges => exact pfinv_ext Kf K M h (pf_readEdges_spec Kf K M s h).2
  | readNakedEdges => exact pfinv_ext Kf K M h (pf_readNakedEdges_spec Kf K M s h)
  | readInternalEdges => exact pfinv_ext Kf K M h (pf_readInternalEdges_spec Kf K M s h)
  | readNonManifoldEdges => exact pfinv_ext Kf K M h (pf_readNonManifoldEdges_spec Kf K M s h)
  | readMin => exact pfinv_ext Kf K M h (pf_readMin_spec Kf K M s h).2
  | readMax => exact pfinv_ext Kf K M h (pf_readMax_spec Kf K M s h).2
  | readCenter => exact pfinv_ext Kf K M h (pf_readCenter_spec Kf K M s h).2
  | duplicate => exact pfinv_duplicate Kf K M s h
  | rigid g pg =>
    refine pfinv_transform Kf K M s _ h _ _ 1 rfl rfl (.inl rfl) rfl (.inl rfl) ?_ ?_
      ⟨rfl, rfl, rfl, rfl, rfl, rfl, rfl, rfl⟩ hv
    · show s.volume = _; cases s.volume <;> simp
    · intro f hf hvf; exact finv_rigid K M f hf g pg hvf.1 hvf.2
  | reflect g pg =>
    refine pfinv_transform Kf K M s _ h _ _ 1 rfl rfl (.inr rfl) rfl (.inl rfl) ?_ ?_
      ⟨rfl, rfl, rfl, rfl, rfl, rfl, rfl, rfl⟩ hv
    · show s.volume = _; cases s.volume <;> simp
    · intro f hf hvf
      exact finv_reflect K M f hf g pg hvf.1 hvf.2.1 hvf.2.2.1 hvf.2.2.2
  | scale k o =>
    refine pfinv_transform Kf K M s _ h _ _ (|k| ^ 3) rfl rfl ?_ rfl ?_ rfl ?_
      ⟨rfl, rfl, rfl, rfl, rfl, rfl, rfl, rfl⟩ hv
    · by_cases hk : k < 0
      · exact .inr (by
          simp [PolyfaceCache.step, PolyfaceCache.scale, PolyfaceCache.scaleWorld,
            PolyfaceCache.scaleWith, mkPf, hk])
      · exact .inl (by
          simp [PolyfaceCache.step, PolyfaceCache.scale, PolyfaceCache.scaleWorld,
            PolyfaceCache.scaleWith, mkPf, hk])
    · by_cases hk : k < 0
      · exact .inr (by
          simp [PolyfaceCache.step, PolyfaceCache.scale, PolyfaceCache.scaleWorld,
            PolyfaceCache.scaleWith, mkPf, hk])
      · exact .inl (by
          simp [PolyfaceCache.step, PolyfaceCache.scale, PolyfaceCache.scaleWorld,
            PolyfaceCache.scaleWith, mkPf, hk])
    · intro f hf hvf; exact finv_step K M hsqrt f (.scale k o) hvf hf
  | scaleWorld k =>
    refine pfinv_transform Kf K M s _ h _ _ (|k| ^ 3) rfl rfl ?_ rfl ?_ rfl ?_
      ⟨rfl, rfl, rfl, rfl, rfl, rfl, rfl, rfl⟩ hv
    · by_cases hk : k < 0
      · exact .inr (by
          simp [PolyfaceCache.step, PolyfaceCache.scale, PolyfaceCache.scaleWorld,
            PolyfaceCache.scaleWith, mkPf, hk])
      · exact .inl (by
          simp [PolyfaceCache.step, PolyfaceCache.scale, PolyfaceCache.scaleWorld,
            PolyfaceCache.scaleWith, mkPf, hk])
    · by_cases hk : k < 0
      · exact .inr (by
          simp [PolyfaceCache.step, PolyfaceCache.scale, PolyfaceCache.scaleWorld,
            PolyfaceCache.scaleWith, mkPf, hk])
      · exact .inl (by
          simp [PolyfaceCache.step, PolyfaceCache.scale, PolyfaceCache.scaleWorld,
            PolyfaceCache.scaleWith, mkPf, hk])
    · intro f hf hvf; exact finv_step K M hsqrt f (.scaleWorld k) hvf hf

/-- Admissibility of a whole `Polyface3D` history. -/
def ValidHistPf (Kf : PfKern α) (K : FaceCache.Kern α) (M : MathOps α) :
    PfC α → List (PolyfaceCache.Op α) → Prop
  | _, [] => True
  | s, op :: ops => ValidPf Kf K M s op ∧ ValidHistPf Kf K M (PolyfaceCache.step M s op) ops

/-- The invariant after EVERY history (induction over the operation list). -/
theorem pfinv_history (Kf : PfKern α) (K : FaceCache.Kern α) (M : MathOps α)
    (hsqrt : ∀ x, 0 ≤ x → M.sqrt x * M.sqrt x = x ∧ 0 ≤ M.sqrt x)
    (s0 : PfC α) (h0 : PfInv Kf K M s0) (ops : List (PolyfaceCache.Op α))
    (hv : ValidHistPf Kf K M s0 ops) : PfInv Kf K M (ops.foldl (PolyfaceCache.step M) s0) := by
  induction ops generalizing s0 with
  | nil => exact h0
  | cons op ops ih =>
    simp only [List.foldl_cons]
    exact ih _ (pfinv_step Kf K M hsqrt s0 op hv.1 h0) hv.2

/-- A freshly constructed `Polyface3D(vertices, face_indices)` (own edge loop) is valid. -/
theorem pfinv_fresh (Kf : PfKern α) (K : FaceCache.Kern α) (M : MathOps α) (vs : List (V3 α))
    (fi : List (List (List Nat))) : PfInv Kf K M (freshPf vs fi) := by
  refine ⟨edgeOK_fresh fi, rfl, ?_, ?_, ?_, ?_, ?_, ?_, ?_, ?_, ?_, ?_⟩
  all_goals (intro x hx; simp [freshPf, mkPf] at hx)

/-- **C03 for Polyface3D.**  After any admissible history from a valid state: `is_solid` is
what a fresh `Polyface3D(vertices, face_indices)` computes with its own edge loop, and `area`,
`volume`, the bounding box and the edge-segment lists answer what the fresh faces / the stored
(correct) edge table give. -/
theorem pfread_after_history (Kf : PfKern α) (K : FaceCache.Kern α) (M : MathOps α)
    (hsqrt : ∀ x, 0 ≤ x → M.sqrt x * M.sqrt x = x ∧ 0 ≤ M.sqrt x)
    (s0 : PfC α) (h0 : PfInv Kf K M s0) (ops : List (PolyfaceCache.Op α))
    (hv : ValidHistPf Kf K M s0 ops) (fr : List (FaceC α)) :
    let s := ops.foldl (PolyfaceCache.step M) s0
    let fresh := Kf.faces s.vertices s.face_indices (isSolid s.face_indices)
    (s.faces = none → FacesOK Kf K M s fr) →
    s.is_solid = isSolid s.face_indices ∧
    (PolyfaceCache.readArea fr s).1 = areaOfFaces fresh ∧
    (PolyfaceCache.readVolume fr s).1 = volOfFaces fresh ∧
    (PolyfaceCache.readMin s).1 = (calcMinMax3 s.vertices).1 ∧
    (PolyfaceCache.readMax s).1 = (calcMinMax3 s.vertices).2 ∧
    (PolyfaceCache.readCenter s).1 = centerOf3 s.vertices ∧
    (PolyfaceCache.readEdges s).1 = edgesOf s := by
  intro s fresh hfr
  have hi : PfInv Kf K M s := pfinv_history Kf K M hsqrt s0 h0 ops hv
  have hsol : s.is_solid = isSolid s.face_indices := by
    rw [hi.solid]; exact isSolidOf_eq_fresh hi.edgeok
  have hfresh : freshFaces Kf s = fresh := by
    show Kf.faces s.vertices s.face_indices s.is_solid = _
    rw [hsol]
  refine ⟨hsol, ?_, ?_, (pf_readMin_spec Kf K M s hi).1, (pf_readMax_spec Kf K M s hi).1,
    (pf_readCenter_spec Kf K M s hi).1, (pf_readEdges_spec Kf K M s hi).1⟩
  · rw [(pf_readArea_spec Kf K M s hi fr hfr).1, hfresh]
  · rw [(pf_readVolume_spec Kf K M s hi fr hfr).1, hfresh]

end polyface

/-! ## 5. Non-vacuity, and witnesses that the guards are needed (all at ℚ) -/

section examples
open Lbg.Model.PolyfaceCache Lbg.Model.EdgeInfo

/-- A polyline whose fourth segment crosses the first one. -/
def exPl : List (V2 ℚ) := [⟨0, 0⟩, ⟨3, 0⟩, ⟨3, 2⟩, ⟨1, 2⟩, ⟨1, -1⟩, ⟨5, -1⟩]

/-- The self-intersection loops see the crossing (and see none in an open "U"). -/
example : selfInt2 exPl = true ∧ selfInt2 ([⟨0, 0⟩, ⟨0, 2⟩, ⟨2, 2⟩, ⟨2, 0⟩] : List (V2 ℚ)) = false := by
  decide +kernel

/-- The invariant is satisfiable with FILLED slots (a warm polyline). -/
example (M : MathOps ℚ) :
    PInv2 M { fresh2 exPl true with length := some (length2 M exPl),
                                    is_self_intersecting := some true } := by
  refine ⟨?_, ?_, ?_, ?_, ?_, ?_⟩
  · intro x hx; simp [fresh2] at hx
  · intro x hx; simp [fresh2] at hx
  · intro x hx; simp [fresh2] at hx
  · intro x hx; simp [fresh2] at hx
  · intro x hx; simp [fresh2] at hx; exact hx.symm
  · intro x hx
    simp [fresh2] at hx
    subst hx
    exact (by decide +kernel : true = selfInt2 exPl)

/-- An admissible history with reads before transforms, a move, a reflection across a unit
normal, a negative scale and a re-read. -/
example (M : MathOps ℚ) :
    ValidHist2 M (fresh2 exPl false)
      [.readLength, .rigid (fun p => p2_move p ⟨1, 2⟩), .readSelfInt,
       .rigid (fun p => p2_reflect p ⟨3 / 5, 4 / 5⟩ ⟨0, 1⟩), .readCenter, .scale (-2) ⟨1, 1⟩,
       .readLength] :=
  ⟨trivial, valid2_move _ _, trivial, valid2_reflect _ _ _ (by norm_num), trivial, trivial,
   trivial, trivial⟩

/-- The `reverse` side condition (flag cached) holds on the example. -/
example : selfInt2 exPl.reverse = selfInt2 exPl := by decide +kernel

/-- A `math` whose `sqrt` is right on the two values the examples below meet (1 and 64). -/
def exOps : MathOps ℚ :=
  ⟨fun x => if x = 64 then 8 else x, id, id, id, id, id, fun _ _ => 0, 3, id⟩

/-- The horizontal plane through `o` with the world axes as frame. -/
def xyPlane (o : V3 ℚ) : PlaneS ℚ := ⟨⟨0, 0, 1⟩, o, o.z, ⟨1, 0, 0⟩, ⟨0, 1, 0⟩⟩

/-- Unit square and an L-shape in `z = 0` / a unit square in `z = 1`. -/
def exSquare : FaceC ℚ := mkFace [⟨0, 0, 0⟩, ⟨1, 0, 0⟩, ⟨1, 1, 0⟩, ⟨0, 1, 0⟩] (xyPlane ⟨0, 0, 0⟩)
/-- An L-shaped hexagon (area 12, not convex) in `z = 0`. -/
def exL : FaceC ℚ :=
  mkFace [⟨0, 0, 0⟩, ⟨4, 0, 0⟩, ⟨4, 2, 0⟩, ⟨2, 2, 0⟩, ⟨2, 4, 0⟩, ⟨0, 4, 0⟩] (xyPlane ⟨0, 0, 0⟩)
/-- The unit square in `z = 1`. -/
def exSquare1 : FaceC ℚ := mkFace [⟨0, 0, 1⟩, ⟨1, 0, 1⟩, ⟨1, 1, 1⟩, ⟨0, 1, 1⟩] (xyPlane ⟨0, 0, 1⟩)

/-- Fresh values on the examples: areas 1 and 12, the L is not convex, neither is
self-intersecting. -/
example : areaOf exSquare = 1 ∧ areaOf exL = 12 ∧ convexOf exSquare = true ∧
    convexOf exL = false ∧ selfIntOf exL = false := by decide +kernel

/-- The `Face3D` invariant is satisfiable with filled slots. -/
example (K : FaceCache.Kern ℚ) (M : MathOps ℚ) :
    FInv K M { exL with area := some 12, is_convex := some false,
                        perimeter := some (perimOf M exL) } := by
  apply finv_build K M
  · intro _; rfl
  · intro x hx; simp [exL, mkFace] at hx
  · intro x hx; simp [exL, mkFace] at hx
  · intro x hx
    have : x = perimOf M exL := by simpa using hx.symm
    rw [this]; rfl
  · intro x hx
    have : x = 12 := by simpa using hx.symm
    rw [this]
    exact (by decide +kernel : (12 : ℚ) = areaOf exL)
  · intro x hx
    have : x = false := by simpa using hx.symm
    rw [this]
    exact (by decide +kernel : false = convexOf exL)
  · intro x hx; simp [exL, mkFace] at hx
  all_goals rfl

/-- The flag conditions of `reflect` / `flip` hold on the L-shape (mirrored, reversed loop:
same convexity answer, same self-intersection answer). -/
example : isConvex2 ((poly2dOf exL).reverse.map mirrorY) = isConvex2 (poly2dOf exL) ∧
    selfIntOfPolys ((bpoly2dOf exL).reverse.map mirrorY)
      ((hpoly2dOf exL).map (·.map (fun l => l.reverse.map mirrorY))) = selfIntOf exL := by
  decide +kernel

/-- The `scale` conditions hold for `k = 2` on the unit square (plane recomputed from the
scaled vertices): area × 4, flags unchanged. -/
example : areaOf (FaceCache.scaleWorld exOps exSquare 2) = areaOf exSquare * 2 ^ 2 ∧
    convexOf (FaceCache.scaleWorld exOps exSquare 2) = convexOf exSquare ∧
    selfIntOf (FaceCache.scaleWorld exOps exSquare 2) = selfIntOf exSquare := by
  decide +kernel

/-- **Why `scale` needs its flag conditions (they fail for `k = 0`)**: `Face3D.scale(0)` copies
`_is_convex = False` of the L-shape, but the collapsed face is "convex" for a fresh object
(`f.scale(0).is_convex == False`, `Face3D(g.boundary, g.plane).is_convex == True`).  A
degenerate face is outside the property's domain; the guard stays in `ValidF`. -/
example : convexOf exL = false ∧ convexOf (FaceCache.scaleWorld exOps exL 0) = true := by
  decide +kernel

/-- **Why carrying `_volume` needs its condition (`TransOK`, second part)**: for an OPEN shell
the divergence sum is not translation invariant — one face `z = 1` gives 1/3, the same face
moved to `z = 6` gives 2, while `Polyface3D.move` copies `_volume` (library docstring: the
volume of a non-solid "will not be valid").  For closed solids the sum of the area vectors
vanishes and the sum is invariant (`C01.vol_translate_closed`). -/
theorem open_shell_volume_not_invariant :
    volOfFaces [exSquare1] = 1 / 3 ∧
    volOfFaces [FaceCache.rigid exSquare1 (fun p => p3_move p ⟨0, 0, 5⟩)
      (fun pl => { pl with o := p3_move pl.o ⟨0, 0, 5⟩ })] = 2 := by
  decide +kernel

/-- A tetrahedron: the constructor's edge table is correct, the polyface is solid, and the
fresh state satisfies the invariant (for every face oracle). -/
def exTetra : List (List (List Nat)) := [[[0, 2, 1]], [[0, 1, 3]], [[1, 2, 3]], [[2, 0, 3]]]

example : isSolid exTetra = true ∧ isSolid (revLoops exTetra) = true ∧
    isSolid (exTetra.take 3) = false := by decide +kernel

example (Kf : PfKern ℚ) (K : FaceCache.Kern ℚ) (M : MathOps ℚ) :
    PfInv Kf K M (freshPf [⟨0, 0, 0⟩, ⟨1, 0, 0⟩, ⟨0, 1, 0⟩, ⟨0, 0, 1⟩] exTetra) :=
  pfinv_fresh Kf K M _ _

/-- `TransOK` is satisfiable with BOTH `_faces` and `_volume` cached: a one-face "polyface"
whose face oracle lays the vertex loop into the horizontal plane through its first vertex,
moved along x. -/
example :
    let Kf : PfKern ℚ := ⟨fun vs _ _ => [mkFace vs (xyPlane (vs.headD ⟨0, 0, 0⟩))]⟩
    let s : PfC ℚ := { freshPf exSquare1.vertices [[[0, 1, 2, 3]]] with
      faces := some [exSquare1], volume := some (1 / 3) }
    let g : V3 ℚ → V3 ℚ := fun p => p3_move p ⟨2, 0, 0⟩
    let pg : PlaneS ℚ → PlaneS ℚ := fun pl => { pl with o := p3_move pl.o ⟨2, 0, 0⟩ }
    TransOK Kf s (PolyfaceCache.rigid s g pg) (fun f => FaceCache.rigid f g pg)
      (fun f => ValidF exOps f (.rigid g pg)) 1 := by
  intro Kf s g pg
  refine ⟨?_, fun _ => by decide +kernel⟩
  intro fs hfs _
  have : fs = [exSquare1] := by
    have h : s.faces = some [exSquare1] := rfl
    rw [h] at hfs; exact (Option.some.inj hfs).symm
  subst this
  refine ⟨?_, ?_⟩
  · intro f hf
    simp only [List.mem_singleton] at hf
    subst hf
    refine ⟨fun p q => by simp only [V3.normSq, V3.sub, p3_move, g]; ring, fun p => ?_⟩
    simp only [plane_xyz_to_xy, p3_move, g, pg, exSquare1, mkFace, xyPlane]
    congr 1 <;> ring
  · refine List.Forall₂.cons ⟨by decide +kernel, by decide +kernel, by decide +kernel⟩
      List.Forall₂.nil

end examples

end Lbg.Props.C03c
