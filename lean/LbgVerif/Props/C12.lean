/-
  C12 — "closest_point returns a point on the object that is no farther from the query than
  any other point of the object; distances are non-negative, zero for queries on the object,
  and 1-Lipschitz."

  Property theorems only (helper lemmas live in `Lemmas/Closest.lean`, `Lemmas/Arc.lean`).  All statements are
  about the definitions regenerated from the repository by py2lean (`Lbg.Gen.*`).
  Suffixes: `_s` = segment (parameter range `[0,1]`), `_r` = ray (`[0,∞)`), `_infinite_*` =
  carrier line (any parameter).

  Remarks on what the code actually does (read from the generated definitions):
  * a zero-length direction (`v·v = 0`) returns `l.p`; all theorems below hold in that case too
    (the object then degenerates to the single point `l.p`), so no `v ≠ 0` guard is needed;
  * the ray variants clamp with `max(min(u,1),0)` but only when `u < 0`, where this equals `0`,
    so a ray's parameter is clamped to `[0,∞)` correctly (not to `[0,1]`);
  * squared distances are used for the order statements (no square root needed); the
    `*_distance_to_point` kernels (`math.sqrt` of that squared distance) are treated at the end
    under the explicit square-root laws.
-/
import LbgVerif.Gen.Isect2
import LbgVerif.Gen.Isect3
import LbgVerif.Gen.Plane
import LbgVerif.Gen.Line
import LbgVerif.Gen.Arc
import LbgVerif.Lemmas.Closest
import LbgVerif.Lemmas.Arc
import Mathlib.Tactic.Ring
import Mathlib.Tactic.Linarith
import Mathlib.Tactic.LinearCombination
import Mathlib.Tactic.NormNum
import Mathlib.Algebra.Order.Field.Rat

set_option linter.unusedSectionVars false

namespace Lbg.Props.C12
open Lbg Lbg.Gen
variable {α : Type} [Field α] [LinearOrder α] [IsStrictOrderedRing α]

/-! ## Predicates used in the statements -/

/-- Squared Euclidean distance in 2D. -/
def distSq2 (a b : V2 α) : α := (a.x - b.x) * (a.x - b.x) + (a.y - b.y) * (a.y - b.y)

/-- Squared Euclidean distance in 3D. -/
def distSq3 (a b : V3 α) : α :=
  (a.x - b.x) * (a.x - b.x) + (a.y - b.y) * (a.y - b.y) + (a.z - b.z) * (a.z - b.z)

/-- `q = l.p + t·l.v` (componentwise). -/
def At2 (l : LR2 α) (t : α) (q : V2 α) : Prop :=
  q.x = l.p.x + t * l.v.x ∧ q.y = l.p.y + t * l.v.y
/-- `q` lies on the segment (parameter in `[0,1]`). -/
def OnSeg2 (l : LR2 α) (q : V2 α) : Prop := ∃ t, 0 ≤ t ∧ t ≤ 1 ∧ At2 l t q
/-- `q` lies on the ray (parameter in `[0,∞)`). -/
def OnRay2 (l : LR2 α) (q : V2 α) : Prop := ∃ t, 0 ≤ t ∧ At2 l t q
/-- `q` lies on the infinite carrier line. -/
def OnLine2 (l : LR2 α) (q : V2 α) : Prop := ∃ t, At2 l t q

/-- `q = l.p + t·l.v` (componentwise, 3D). -/
def At3 (l : LR3 α) (t : α) (q : V3 α) : Prop :=
  q.x = l.p.x + t * l.v.x ∧ q.y = l.p.y + t * l.v.y ∧ q.z = l.p.z + t * l.v.z
/-- `q` lies on the 3D segment. -/
def OnSeg3 (l : LR3 α) (q : V3 α) : Prop := ∃ t, 0 ≤ t ∧ t ≤ 1 ∧ At3 l t q
/-- `q` lies on the 3D ray. -/
def OnRay3 (l : LR3 α) (q : V3 α) : Prop := ∃ t, 0 ≤ t ∧ At3 l t q
/-- `q` lies on the infinite 3D carrier line. -/
def OnLine3 (l : LR3 α) (q : V3 α) : Prop := ∃ t, At3 l t q

/-- `q` satisfies the plane equation `n·q = k`. -/
def OnPlane (pl : PlaneS α) (q : V3 α) : Prop :=
  pl.n.x * q.x + pl.n.y * q.y + pl.n.z * q.z = pl.k

/-! ## Closest point on a 2D segment / ray / line -/

/-! ### `closest_point2d_on_line2d_s` (segment) -/

/-- On-object: the result lies on the segment, i.e. it is `l.p + t·l.v` with `t` in the
object's parameter range (unconditionally; for a zero direction the witness is `l.p`). -/
theorem closest_point2d_on_line2d_s_on_object (q : V2 α) (l : LR2 α) : OnSeg2 l (closest_point2d_on_line2d_s q l) := by
  rw [Lemmas.closest_point2d_on_line2d_s_eq]; exact Lemmas.closest2_on .seg q l

/-- Zero-length direction: the result is `l.p`. -/
theorem closest_point2d_on_line2d_s_zero_dir (q : V2 α) (l : LR2 α) (h : l.v.x * l.v.x + l.v.y * l.v.y = 0) :
    closest_point2d_on_line2d_s q l = l.p := by
  rw [Lemmas.closest_point2d_on_line2d_s_eq]; unfold Lemmas.closest2; rw [if_pos h]

/-- Minimality: no point of the segment is closer to the query than the result
(squared Euclidean distance). -/
theorem closest_point2d_on_line2d_s_minimal (q : V2 α) (l : LR2 α) (x : V2 α) (hx : OnSeg2 l x) :
    distSq2 q (closest_point2d_on_line2d_s q l) ≤ distSq2 q x := by
  rw [Lemmas.closest_point2d_on_line2d_s_eq]
  obtain ⟨t, ht, rfl⟩ := (Lemmas.Rng.On_iff_at2 .seg l x).mp hx
  exact Lemmas.closest2_min .seg q l t ht

/-- Zero distance exactly for queries on the object: the squared distance from the query to the
result is `0` iff the query lies on the segment. -/
theorem closest_point2d_on_line2d_s_zero_iff (q : V2 α) (l : LR2 α) :
    distSq2 q (closest_point2d_on_line2d_s q l) = 0 ↔ OnSeg2 l q := by
  rw [Lemmas.closest_point2d_on_line2d_s_eq]; exact Lemmas.closest2_zero_iff .seg q l

/-- A query on the segment is returned unchanged. -/
theorem closest_point2d_on_line2d_s_of_on (q : V2 α) (l : LR2 α) (h : OnSeg2 l q) : closest_point2d_on_line2d_s q l = q :=
  ((Lemmas.dsq2_eq_zero_iff _ _).mp ((closest_point2d_on_line2d_s_zero_iff q l).mpr h)).symm

/-- Non-expansiveness (1-Lipschitz, squared form): the map `q ↦ closest point` does not
increase distances (projection onto a convex set). -/
theorem closest_point2d_on_line2d_s_nonexpansive (q1 q2 : V2 α) (l : LR2 α) :
    distSq2 (closest_point2d_on_line2d_s q1 l) (closest_point2d_on_line2d_s q2 l) ≤ distSq2 q1 q2 := by
  rw [Lemmas.closest_point2d_on_line2d_s_eq, Lemmas.closest_point2d_on_line2d_s_eq]; exact Lemmas.closest2_nonexpansive .seg q1 q2 l

/-! ### `closest_point2d_on_line2d_r` (ray) -/

/-- On-object: the result lies on the ray, i.e. it is `l.p + t·l.v` with `t` in the
object's parameter range (unconditionally; for a zero direction the witness is `l.p`). -/
theorem closest_point2d_on_line2d_r_on_object (q : V2 α) (l : LR2 α) : OnRay2 l (closest_point2d_on_line2d_r q l) := by
  rw [Lemmas.closest_point2d_on_line2d_r_eq]; exact Lemmas.closest2_on .ray q l

/-- Zero-length direction: the result is `l.p`. -/
theorem closest_point2d_on_line2d_r_zero_dir (q : V2 α) (l : LR2 α) (h : l.v.x * l.v.x + l.v.y * l.v.y = 0) :
    closest_point2d_on_line2d_r q l = l.p := by
  rw [Lemmas.closest_point2d_on_line2d_r_eq]; unfold Lemmas.closest2; rw [if_pos h]

/-- Minimality: no point of the ray is closer to the query than the result
(squared Euclidean distance). -/
theorem closest_point2d_on_line2d_r_minimal (q : V2 α) (l : LR2 α) (x : V2 α) (hx : OnRay2 l x) :
    distSq2 q (closest_point2d_on_line2d_r q l) ≤ distSq2 q x := by
  rw [Lemmas.closest_point2d_on_line2d_r_eq]
  obtain ⟨t, ht, rfl⟩ := (Lemmas.Rng.On_iff_at2 .ray l x).mp hx
  exact Lemmas.closest2_min .ray q l t ht

/-- Zero distance exactly for queries on the object: the squared distance from the query to the
result is `0` iff the query lies on the ray. -/
theorem closest_point2d_on_line2d_r_zero_iff (q : V2 α) (l : LR2 α) :
    distSq2 q (closest_point2d_on_line2d_r q l) = 0 ↔ OnRay2 l q := by
  rw [Lemmas.closest_point2d_on_line2d_r_eq]; exact Lemmas.closest2_zero_iff .ray q l

/-- A query on the ray is returned unchanged. -/
theorem closest_point2d_on_line2d_r_of_on (q : V2 α) (l : LR2 α) (h : OnRay2 l q) : closest_point2d_on_line2d_r q l = q :=
  ((Lemmas.dsq2_eq_zero_iff _ _).mp ((closest_point2d_on_line2d_r_zero_iff q l).mpr h)).symm

/-- Non-expansiveness (1-Lipschitz, squared form): the map `q ↦ closest point` does not
increase distances (projection onto a convex set). -/
theorem closest_point2d_on_line2d_r_nonexpansive (q1 q2 : V2 α) (l : LR2 α) :
    distSq2 (closest_point2d_on_line2d_r q1 l) (closest_point2d_on_line2d_r q2 l) ≤ distSq2 q1 q2 := by
  rw [Lemmas.closest_point2d_on_line2d_r_eq, Lemmas.closest_point2d_on_line2d_r_eq]; exact Lemmas.closest2_nonexpansive .ray q1 q2 l

/-! ### `closest_point2d_on_line2d_infinite_s` (carrier line (segment operand)) -/

/-- On-object: the result lies on the carrier line (segment operand), i.e. it is `l.p + t·l.v` with `t` in the
object's parameter range (unconditionally; for a zero direction the witness is `l.p`). -/
theorem closest_point2d_on_line2d_infinite_s_on_object (q : V2 α) (l : LR2 α) : OnLine2 l (closest_point2d_on_line2d_infinite_s q l) := by
  rw [Lemmas.closest_point2d_on_line2d_infinite_s_eq]; exact Lemmas.closest2_on .line q l

/-- Zero-length direction: the result is `l.p`. -/
theorem closest_point2d_on_line2d_infinite_s_zero_dir (q : V2 α) (l : LR2 α) (h : l.v.x * l.v.x + l.v.y * l.v.y = 0) :
    closest_point2d_on_line2d_infinite_s q l = l.p := by
  rw [Lemmas.closest_point2d_on_line2d_infinite_s_eq]; unfold Lemmas.closest2; rw [if_pos h]

/-- Minimality: no point of the carrier line (segment operand) is closer to the query than the result
(squared Euclidean distance). -/
theorem closest_point2d_on_line2d_infinite_s_minimal (q : V2 α) (l : LR2 α) (x : V2 α) (hx : OnLine2 l x) :
    distSq2 q (closest_point2d_on_line2d_infinite_s q l) ≤ distSq2 q x := by
  rw [Lemmas.closest_point2d_on_line2d_infinite_s_eq]
  obtain ⟨t, ht, rfl⟩ := (Lemmas.Rng.On_iff_at2 .line l x).mp hx
  exact Lemmas.closest2_min .line q l t ht

/-- Zero distance exactly for queries on the object: the squared distance from the query to the
result is `0` iff the query lies on the carrier line (segment operand). -/
theorem closest_point2d_on_line2d_infinite_s_zero_iff (q : V2 α) (l : LR2 α) :
    distSq2 q (closest_point2d_on_line2d_infinite_s q l) = 0 ↔ OnLine2 l q := by
  rw [Lemmas.closest_point2d_on_line2d_infinite_s_eq]; exact Lemmas.closest2_zero_iff .line q l

/-- A query on the carrier line (segment operand) is returned unchanged. -/
theorem closest_point2d_on_line2d_infinite_s_of_on (q : V2 α) (l : LR2 α) (h : OnLine2 l q) : closest_point2d_on_line2d_infinite_s q l = q :=
  ((Lemmas.dsq2_eq_zero_iff _ _).mp ((closest_point2d_on_line2d_infinite_s_zero_iff q l).mpr h)).symm

/-- Non-expansiveness (1-Lipschitz, squared form): the map `q ↦ closest point` does not
increase distances (projection onto a convex set). -/
theorem closest_point2d_on_line2d_infinite_s_nonexpansive (q1 q2 : V2 α) (l : LR2 α) :
    distSq2 (closest_point2d_on_line2d_infinite_s q1 l) (closest_point2d_on_line2d_infinite_s q2 l) ≤ distSq2 q1 q2 := by
  rw [Lemmas.closest_point2d_on_line2d_infinite_s_eq, Lemmas.closest_point2d_on_line2d_infinite_s_eq]; exact Lemmas.closest2_nonexpansive .line q1 q2 l

/-! ### `closest_point2d_on_line2d_infinite_r` (carrier line (ray operand)) -/

/-- On-object: the result lies on the carrier line (ray operand), i.e. it is `l.p + t·l.v` with `t` in the
object's parameter range (unconditionally; for a zero direction the witness is `l.p`). -/
theorem closest_point2d_on_line2d_infinite_r_on_object (q : V2 α) (l : LR2 α) : OnLine2 l (closest_point2d_on_line2d_infinite_r q l) := by
  rw [Lemmas.closest_point2d_on_line2d_infinite_r_eq]; exact Lemmas.closest2_on .line q l

/-- Zero-length direction: the result is `l.p`. -/
theorem closest_point2d_on_line2d_infinite_r_zero_dir (q : V2 α) (l : LR2 α) (h : l.v.x * l.v.x + l.v.y * l.v.y = 0) :
    closest_point2d_on_line2d_infinite_r q l = l.p := by
  rw [Lemmas.closest_point2d_on_line2d_infinite_r_eq]; unfold Lemmas.closest2; rw [if_pos h]

/-- Minimality: no point of the carrier line (ray operand) is closer to the query than the result
(squared Euclidean distance). -/
theorem closest_point2d_on_line2d_infinite_r_minimal (q : V2 α) (l : LR2 α) (x : V2 α) (hx : OnLine2 l x) :
    distSq2 q (closest_point2d_on_line2d_infinite_r q l) ≤ distSq2 q x := by
  rw [Lemmas.closest_point2d_on_line2d_infinite_r_eq]
  obtain ⟨t, ht, rfl⟩ := (Lemmas.Rng.On_iff_at2 .line l x).mp hx
  exact Lemmas.closest2_min .line q l t ht

/-- Zero distance exactly for queries on the object: the squared distance from the query to the
result is `0` iff the query lies on the carrier line (ray operand). -/
theorem closest_point2d_on_line2d_infinite_r_zero_iff (q : V2 α) (l : LR2 α) :
    distSq2 q (closest_point2d_on_line2d_infinite_r q l) = 0 ↔ OnLine2 l q := by
  rw [Lemmas.closest_point2d_on_line2d_infinite_r_eq]; exact Lemmas.closest2_zero_iff .line q l

/-- A query on the carrier line (ray operand) is returned unchanged. -/
theorem closest_point2d_on_line2d_infinite_r_of_on (q : V2 α) (l : LR2 α) (h : OnLine2 l q) : closest_point2d_on_line2d_infinite_r q l = q :=
  ((Lemmas.dsq2_eq_zero_iff _ _).mp ((closest_point2d_on_line2d_infinite_r_zero_iff q l).mpr h)).symm

/-- Non-expansiveness (1-Lipschitz, squared form): the map `q ↦ closest point` does not
increase distances (projection onto a convex set). -/
theorem closest_point2d_on_line2d_infinite_r_nonexpansive (q1 q2 : V2 α) (l : LR2 α) :
    distSq2 (closest_point2d_on_line2d_infinite_r q1 l) (closest_point2d_on_line2d_infinite_r q2 l) ≤ distSq2 q1 q2 := by
  rw [Lemmas.closest_point2d_on_line2d_infinite_r_eq, Lemmas.closest_point2d_on_line2d_infinite_r_eq]; exact Lemmas.closest2_nonexpansive .line q1 q2 l

/-! ## Closest point on a 3D segment / ray / line -/

/-! ### `closest_point3d_on_line3d_s` (segment) -/

/-- On-object: the result lies on the segment, i.e. it is `l.p + t·l.v` with `t` in the
object's parameter range (unconditionally; for a zero direction the witness is `l.p`). -/
theorem closest_point3d_on_line3d_s_on_object (q : V3 α) (l : LR3 α) : OnSeg3 l (closest_point3d_on_line3d_s q l) := by
  rw [Lemmas.closest_point3d_on_line3d_s_eq]; exact Lemmas.closest3_on .seg q l

/-- Zero-length direction: the result is `l.p`. -/
theorem closest_point3d_on_line3d_s_zero_dir (q : V3 α) (l : LR3 α) (h : l.v.x * l.v.x + l.v.y * l.v.y + l.v.z * l.v.z = 0) :
    closest_point3d_on_line3d_s q l = l.p := by
  rw [Lemmas.closest_point3d_on_line3d_s_eq]; unfold Lemmas.closest3; rw [if_pos h]

/-- Minimality: no point of the segment is closer to the query than the result
(squared Euclidean distance). -/
theorem closest_point3d_on_line3d_s_minimal (q : V3 α) (l : LR3 α) (x : V3 α) (hx : OnSeg3 l x) :
    distSq3 q (closest_point3d_on_line3d_s q l) ≤ distSq3 q x := by
  rw [Lemmas.closest_point3d_on_line3d_s_eq]
  obtain ⟨t, ht, rfl⟩ := (Lemmas.Rng.On3_iff .seg l x).mp hx
  exact Lemmas.closest3_min .seg q l t ht

/-- Zero distance exactly for queries on the object: the squared distance from the query to the
result is `0` iff the query lies on the segment. -/
theorem closest_point3d_on_line3d_s_zero_iff (q : V3 α) (l : LR3 α) :
    distSq3 q (closest_point3d_on_line3d_s q l) = 0 ↔ OnSeg3 l q := by
  rw [Lemmas.closest_point3d_on_line3d_s_eq]; exact Lemmas.closest3_zero_iff .seg q l

/-- A query on the segment is returned unchanged. -/
theorem closest_point3d_on_line3d_s_of_on (q : V3 α) (l : LR3 α) (h : OnSeg3 l q) : closest_point3d_on_line3d_s q l = q :=
  ((Lemmas.dsq3_eq_zero_iff _ _).mp ((closest_point3d_on_line3d_s_zero_iff q l).mpr h)).symm

/-- Non-expansiveness (1-Lipschitz, squared form): the map `q ↦ closest point` does not
increase distances (projection onto a convex set). -/
theorem closest_point3d_on_line3d_s_nonexpansive (q1 q2 : V3 α) (l : LR3 α) :
    distSq3 (closest_point3d_on_line3d_s q1 l) (closest_point3d_on_line3d_s q2 l) ≤ distSq3 q1 q2 := by
  rw [Lemmas.closest_point3d_on_line3d_s_eq, Lemmas.closest_point3d_on_line3d_s_eq]; exact Lemmas.closest3_nonexpansive .seg q1 q2 l

/-! ### `closest_point3d_on_line3d_r` (ray) -/

/-- On-object: the result lies on the ray, i.e. it is `l.p + t·l.v` with `t` in the
object's parameter range (unconditionally; for a zero direction the witness is `l.p`). -/
theorem closest_point3d_on_line3d_r_on_object (q : V3 α) (l : LR3 α) : OnRay3 l (closest_point3d_on_line3d_r q l) := by
  rw [Lemmas.closest_point3d_on_line3d_r_eq]; exact Lemmas.closest3_on .ray q l

/-- Zero-length direction: the result is `l.p`. -/
theorem closest_point3d_on_line3d_r_zero_dir (q : V3 α) (l : LR3 α) (h : l.v.x * l.v.x + l.v.y * l.v.y + l.v.z * l.v.z = 0) :
    closest_point3d_on_line3d_r q l = l.p := by
  rw [Lemmas.closest_point3d_on_line3d_r_eq]; unfold Lemmas.closest3; rw [if_pos h]

/-- Minimality: no point of the ray is closer to the query than the result
(squared Euclidean distance). -/
theorem closest_point3d_on_line3d_r_minimal (q : V3 α) (l : LR3 α) (x : V3 α) (hx : OnRay3 l x) :
    distSq3 q (closest_point3d_on_line3d_r q l) ≤ distSq3 q x := by
  rw [Lemmas.closest_point3d_on_line3d_r_eq]
  obtain ⟨t, ht, rfl⟩ := (Lemmas.Rng.On3_iff .ray l x).mp hx
  exact Lemmas.closest3_min .ray q l t ht

/-- Zero distance exactly for queries on the object: the squared distance from the query to the
result is `0` iff the query lies on the ray. -/
theorem closest_point3d_on_line3d_r_zero_iff (q : V3 α) (l : LR3 α) :
    distSq3 q (closest_point3d_on_line3d_r q l) = 0 ↔ OnRay3 l q := by
  rw [Lemmas.closest_point3d_on_line3d_r_eq]; exact Lemmas.closest3_zero_iff .ray q l

/-- A query on the ray is returned unchanged. -/
theorem closest_point3d_on_line3d_r_of_on (q : V3 α) (l : LR3 α) (h : OnRay3 l q) : closest_point3d_on_line3d_r q l = q :=
  ((Lemmas.dsq3_eq_zero_iff _ _).mp ((closest_point3d_on_line3d_r_zero_iff q l).mpr h)).symm

/-- Non-expansiveness (1-Lipschitz, squared form): the map `q ↦ closest point` does not
increase distances (projection onto a convex set). -/
theorem closest_point3d_on_line3d_r_nonexpansive (q1 q2 : V3 α) (l : LR3 α) :
    distSq3 (closest_point3d_on_line3d_r q1 l) (closest_point3d_on_line3d_r q2 l) ≤ distSq3 q1 q2 := by
  rw [Lemmas.closest_point3d_on_line3d_r_eq, Lemmas.closest_point3d_on_line3d_r_eq]; exact Lemmas.closest3_nonexpansive .ray q1 q2 l

/-! ### `closest_point3d_on_line3d_infinite_s` (carrier line (segment operand)) -/

/-- On-object: the result lies on the carrier line (segment operand), i.e. it is `l.p + t·l.v` with `t` in the
object's parameter range (unconditionally; for a zero direction the witness is `l.p`). -/
theorem closest_point3d_on_line3d_infinite_s_on_object (q : V3 α) (l : LR3 α) : OnLine3 l (closest_point3d_on_line3d_infinite_s q l) := by
  rw [Lemmas.closest_point3d_on_line3d_infinite_s_eq]; exact Lemmas.closest3_on .line q l

/-- Zero-length direction: the result is `l.p`. -/
theorem closest_point3d_on_line3d_infinite_s_zero_dir (q : V3 α) (l : LR3 α) (h : l.v.x * l.v.x + l.v.y * l.v.y + l.v.z * l.v.z = 0) :
    closest_point3d_on_line3d_infinite_s q l = l.p := by
  rw [Lemmas.closest_point3d_on_line3d_infinite_s_eq]; unfold Lemmas.closest3; rw [if_pos h]

/-- Minimality: no point of the carrier line (segment operand) is closer to the query than the result
(squared Euclidean distance). -/
theorem closest_point3d_on_line3d_infinite_s_minimal (q : V3 α) (l : LR3 α) (x : V3 α) (hx : OnLine3 l x) :
    distSq3 q (closest_point3d_on_line3d_infinite_s q l) ≤ distSq3 q x := by
  rw [Lemmas.closest_point3d_on_line3d_infinite_s_eq]
  obtain ⟨t, ht, rfl⟩ := (Lemmas.Rng.On3_iff .line l x).mp hx
  exact Lemmas.closest3_min .line q l t ht

/-- Zero distance exactly for queries on the object: the squared distance from the query to the
result is `0` iff the query lies on the carrier line (segment operand). -/
theorem closest_point3d_on_line3d_infinite_s_zero_iff (q : V3 α) (l : LR3 α) :
    distSq3 q (closest_point3d_on_line3d_infinite_s q l) = 0 ↔ OnLine3 l q := by
  rw [Lemmas.closest_point3d_on_line3d_infinite_s_eq]; exact Lemmas.closest3_zero_iff .line q l

/-- A query on the carrier line (segment operand) is returned unchanged. -/
theorem closest_point3d_on_line3d_infinite_s_of_on (q : V3 α) (l : LR3 α) (h : OnLine3 l q) : closest_point3d_on_line3d_infinite_s q l = q :=
  ((Lemmas.dsq3_eq_zero_iff _ _).mp ((closest_point3d_on_line3d_infinite_s_zero_iff q l).mpr h)).symm

/-- Non-expansiveness (1-Lipschitz, squared form): the map `q ↦ closest point` does not
increase distances (projection onto a convex set). -/
theorem closest_point3d_on_line3d_infinite_s_nonexpansive (q1 q2 : V3 α) (l : LR3 α) :
    distSq3 (closest_point3d_on_line3d_infinite_s q1 l) (closest_point3d_on_line3d_infinite_s q2 l) ≤ distSq3 q1 q2 := by
  rw [Lemmas.closest_point3d_on_line3d_infinite_s_eq, Lemmas.closest_point3d_on_line3d_infinite_s_eq]; exact Lemmas.closest3_nonexpansive .line q1 q2 l

/-! ### `closest_point3d_on_line3d_infinite_r` (carrier line (ray operand)) -/

/-- On-object: the result lies on the carrier line (ray operand), i.e. it is `l.p + t·l.v` with `t` in the
object's parameter range (unconditionally; for a zero direction the witness is `l.p`). -/
theorem closest_point3d_on_line3d_infinite_r_on_object (q : V3 α) (l : LR3 α) : OnLine3 l (closest_point3d_on_line3d_infinite_r q l) := by
  rw [Lemmas.closest_point3d_on_line3d_infinite_r_eq]; exact Lemmas.closest3_on .line q l

/-- Zero-length direction: the result is `l.p`. -/
theorem closest_point3d_on_line3d_infinite_r_zero_dir (q : V3 α) (l : LR3 α) (h : l.v.x * l.v.x + l.v.y * l.v.y + l.v.z * l.v.z = 0) :
    closest_point3d_on_line3d_infinite_r q l = l.p := by
  rw [Lemmas.closest_point3d_on_line3d_infinite_r_eq]; unfold Lemmas.closest3; rw [if_pos h]

/-- Minimality: no point of the carrier line (ray operand) is closer to the query than the result
(squared Euclidean distance). -/
theorem closest_point3d_on_line3d_infinite_r_minimal (q : V3 α) (l : LR3 α) (x : V3 α) (hx : OnLine3 l x) :
    distSq3 q (closest_point3d_on_line3d_infinite_r q l) ≤ distSq3 q x := by
  rw [Lemmas.closest_point3d_on_line3d_infinite_r_eq]
  obtain ⟨t, ht, rfl⟩ := (Lemmas.Rng.On3_iff .line l x).mp hx
  exact Lemmas.closest3_min .line q l t ht

/-- Zero distance exactly for queries on the object: the squared distance from the query to the
result is `0` iff the query lies on the carrier line (ray operand). -/
theorem closest_point3d_on_line3d_infinite_r_zero_iff (q : V3 α) (l : LR3 α) :
    distSq3 q (closest_point3d_on_line3d_infinite_r q l) = 0 ↔ OnLine3 l q := by
  rw [Lemmas.closest_point3d_on_line3d_infinite_r_eq]; exact Lemmas.closest3_zero_iff .line q l

/-- A query on the carrier line (ray operand) is returned unchanged. -/
theorem closest_point3d_on_line3d_infinite_r_of_on (q : V3 α) (l : LR3 α) (h : OnLine3 l q) : closest_point3d_on_line3d_infinite_r q l = q :=
  ((Lemmas.dsq3_eq_zero_iff _ _).mp ((closest_point3d_on_line3d_infinite_r_zero_iff q l).mpr h)).symm

/-- Non-expansiveness (1-Lipschitz, squared form): the map `q ↦ closest point` does not
increase distances (projection onto a convex set). -/
theorem closest_point3d_on_line3d_infinite_r_nonexpansive (q1 q2 : V3 α) (l : LR3 α) :
    distSq3 (closest_point3d_on_line3d_infinite_r q1 l) (closest_point3d_on_line3d_infinite_r q2 l) ≤ distSq3 q1 q2 := by
  rw [Lemmas.closest_point3d_on_line3d_infinite_r_eq, Lemmas.closest_point3d_on_line3d_infinite_r_eq]; exact Lemmas.closest3_nonexpansive .line q1 q2 l

/-! ## Closest point on a plane

  `closest_point3d_on_plane q pl` (intersection3d.py) and `Plane.closest_point`
  (`plane_closest_point pl q`) compute `q − (n·q − k)·n`.  This is the orthogonal projection
  when the stored normal is a unit vector (`n·n = 1`, an invariant of `Plane`), which is the
  hypothesis `hn` below. -/

/-- The two implementations agree. -/
theorem plane_closest_point_eq_closest_point3d_on_plane (pl : PlaneS α) (q : V3 α) :
    plane_closest_point pl q = closest_point3d_on_plane q pl := by
  rw [Lemmas.plane_closest_point_eq, Lemmas.closest_point3d_on_plane_eq]

/-- On-object: the result satisfies the plane equation `n·res = k` (given `n·n = 1`). -/
theorem closest_point3d_on_plane_on_plane (q : V3 α) (pl : PlaneS α)
    (hn : V3.normSq pl.n = 1) : OnPlane pl (closest_point3d_on_plane q pl) := by
  rw [Lemmas.closest_point3d_on_plane_eq]
  exact sub_eq_zero.mp (Lemmas.poff_cpp q pl hn)

/-- Minimality (Pythagoras): no point of the plane is closer to the query than the result. -/
theorem closest_point3d_on_plane_minimal (q : V3 α) (pl : PlaneS α)
    (hn : V3.normSq pl.n = 1) (x : V3 α) (hx : OnPlane pl x) :
    distSq3 q (closest_point3d_on_plane q pl) ≤ distSq3 q x := by
  rw [Lemmas.closest_point3d_on_plane_eq]
  exact Lemmas.cpp_min q x pl hn (sub_eq_zero.mpr hx)

/-- The squared distance from the query to the result is `(n·q − k)²`. -/
theorem closest_point3d_on_plane_distSq (q : V3 α) (pl : PlaneS α)
    (hn : V3.normSq pl.n = 1) :
    distSq3 q (closest_point3d_on_plane q pl) =
      (pl.n.x * q.x + pl.n.y * q.y + pl.n.z * q.z - pl.k)
        * (pl.n.x * q.x + pl.n.y * q.y + pl.n.z * q.z - pl.k) := by
  rw [Lemmas.closest_point3d_on_plane_eq]
  exact Lemmas.dsq3_cpp q pl hn

/-- Zero distance exactly for queries on the plane. -/
theorem closest_point3d_on_plane_zero_iff (q : V3 α) (pl : PlaneS α)
    (hn : V3.normSq pl.n = 1) :
    distSq3 q (closest_point3d_on_plane q pl) = 0 ↔ OnPlane pl q := by
  rw [Lemmas.closest_point3d_on_plane_eq]
  exact (Lemmas.cpp_zero_iff q pl hn).trans sub_eq_zero

/-- Non-expansiveness: orthogonal projection onto the plane does not increase distances. -/
theorem closest_point3d_on_plane_nonexpansive (q1 q2 : V3 α) (pl : PlaneS α)
    (hn : V3.normSq pl.n = 1) :
    distSq3 (closest_point3d_on_plane q1 pl) (closest_point3d_on_plane q2 pl)
      ≤ distSq3 q1 q2 := by
  rw [Lemmas.closest_point3d_on_plane_eq, Lemmas.closest_point3d_on_plane_eq]
  exact Lemmas.cpp_nonexpansive q1 q2 pl hn

/-- `Plane.closest_point`: the result satisfies the plane equation (given `n·n = 1`). -/
theorem plane_closest_point_on_plane (pl : PlaneS α) (q : V3 α)
    (hn : V3.normSq pl.n = 1) : OnPlane pl (plane_closest_point pl q) := by
  rw [plane_closest_point_eq_closest_point3d_on_plane]
  exact closest_point3d_on_plane_on_plane q pl hn

/-- `Plane.closest_point`: minimality. -/
theorem plane_closest_point_minimal (pl : PlaneS α) (q : V3 α)
    (hn : V3.normSq pl.n = 1) (x : V3 α) (hx : OnPlane pl x) :
    distSq3 q (plane_closest_point pl q) ≤ distSq3 q x := by
  rw [plane_closest_point_eq_closest_point3d_on_plane]
  exact closest_point3d_on_plane_minimal q pl hn x hx

/-- `Plane.closest_point`: zero distance exactly for queries on the plane. -/
theorem plane_closest_point_zero_iff (pl : PlaneS α) (q : V3 α)
    (hn : V3.normSq pl.n = 1) :
    distSq3 q (plane_closest_point pl q) = 0 ↔ OnPlane pl q := by
  rw [plane_closest_point_eq_closest_point3d_on_plane]
  exact closest_point3d_on_plane_zero_iff q pl hn

/-- `Plane.closest_point`: non-expansiveness. -/
theorem plane_closest_point_nonexpansive (pl : PlaneS α) (q1 q2 : V3 α)
    (hn : V3.normSq pl.n = 1) :
    distSq3 (plane_closest_point pl q1) (plane_closest_point pl q2) ≤ distSq3 q1 q2 := by
  rw [plane_closest_point_eq_closest_point3d_on_plane,
    plane_closest_point_eq_closest_point3d_on_plane]
  exact closest_point3d_on_plane_nonexpansive q1 q2 pl hn

/-- Non-vacuity: projecting `(1,2,3)` on the plane `z = 0` gives `(1,2,0)`. -/
example : closest_point3d_on_plane (⟨1, 2, 3⟩ : V3 ℚ)
    ⟨⟨0, 0, 1⟩, ⟨0, 0, 0⟩, 0, ⟨1, 0, 0⟩, ⟨0, 1, 0⟩⟩ = ⟨1, 2, 0⟩ := by decide +kernel

/-! ## Closest points between a segment / ray and a plane

  `closest_point3d_between_line3d_plane_*` returns `none` when the operand crosses the plane
  (exactly when `intersect_line3d_plane_*` returns a point) and otherwise the pair
  `(a, b)`: `a` on the operand, `b` the foot of `a` on the plane. -/

/-- `none` is returned exactly when the segment/plane intersection routine finds a point. -/
theorem closest_point3d_between_line3d_plane_s_none_iff (l : LR3 α) (pl : PlaneS α) :
    closest_point3d_between_line3d_plane_s l pl = none ↔
      (intersect_line3d_plane_s l pl).isSome = true := by
  rw [Lemmas.closest_point3d_between_line3d_plane_s_eq, Lemmas.intersect_line3d_plane_s_eq]
  exact Lemmas.closestLP_none_iff .seg l pl

/-- Segment × plane: a returned pair `(a, b)` has `a` on the segment (parameter in `[0,1]`) and
`b = closest_point3d_on_plane a pl`; hence (unit normal) `b` is on the plane. -/
theorem closest_point3d_between_line3d_plane_s_on_objects (l : LR3 α) (pl : PlaneS α)
    (a b : V3 α) (h : closest_point3d_between_line3d_plane_s l pl = some (a, b)) :
    OnSeg3 l a ∧ b = closest_point3d_on_plane a pl ∧ (V3.normSq pl.n = 1 → OnPlane pl b) := by
  rw [Lemmas.closest_point3d_between_line3d_plane_s_eq] at h
  obtain ⟨h1, h2, _⟩ := Lemmas.closestLP_some .seg l pl a b h
  refine ⟨h1, by rw [Lemmas.closest_point3d_on_plane_eq]; exact h2, fun hn => ?_⟩
  rw [h2]; exact sub_eq_zero.mp (Lemmas.poff_cpp a pl hn)

/-- Segment × plane, minimality: the returned pair realises the minimum distance between the
segment and the plane — for every point `x` of the segment and every point `y` of the plane,
`|a − b|² ≤ |x − y|²` (unit normal). -/
theorem closest_point3d_between_line3d_plane_s_minimal (l : LR3 α) (pl : PlaneS α)
    (a b : V3 α) (hn : V3.normSq pl.n = 1)
    (h : closest_point3d_between_line3d_plane_s l pl = some (a, b))
    (x y : V3 α) (hx : OnSeg3 l x) (hy : OnPlane pl y) : distSq3 a b ≤ distSq3 x y := by
  rw [Lemmas.closest_point3d_between_line3d_plane_s_eq] at h
  obtain ⟨_, h2, h3⟩ := Lemmas.closestLP_some .seg l pl a b h
  obtain ⟨t, ht, rfl⟩ := (Lemmas.Rng.On3_iff .seg l x).mp hx
  have e1 : distSq3 a b = Lemmas.poff pl a * Lemmas.poff pl a := by
    rw [h2]; exact Lemmas.dsq3_cpp a pl hn
  have e2 := Lemmas.poff_sq_le_dsq3 (Lemmas.at3 l t) y pl hn
  have hy0 : Lemmas.poff pl y = 0 := sub_eq_zero.mpr hy
  rw [hy0, sub_zero] at e2
  rw [e1]
  exact le_trans (h3 t ht) e2

/-- `none` is returned exactly when the ray/plane intersection routine finds a point. -/
theorem closest_point3d_between_line3d_plane_r_none_iff (l : LR3 α) (pl : PlaneS α) :
    closest_point3d_between_line3d_plane_r l pl = none ↔
      (intersect_line3d_plane_r l pl).isSome = true := by
  rw [Lemmas.closest_point3d_between_line3d_plane_r_eq, Lemmas.intersect_line3d_plane_r_eq]
  exact Lemmas.closestLP_none_iff .ray l pl

/-- Ray × plane: a returned pair `(a, b)` has `a` on the ray (parameter `≥ 0`) and
`b = closest_point3d_on_plane a pl`; hence (unit normal) `b` is on the plane. -/
theorem closest_point3d_between_line3d_plane_r_on_objects (l : LR3 α) (pl : PlaneS α)
    (a b : V3 α) (h : closest_point3d_between_line3d_plane_r l pl = some (a, b)) :
    OnRay3 l a ∧ b = closest_point3d_on_plane a pl ∧ (V3.normSq pl.n = 1 → OnPlane pl b) := by
  rw [Lemmas.closest_point3d_between_line3d_plane_r_eq] at h
  obtain ⟨h1, h2, _⟩ := Lemmas.closestLP_some .ray l pl a b h
  refine ⟨h1, by rw [Lemmas.closest_point3d_on_plane_eq]; exact h2, fun hn => ?_⟩
  rw [h2]; exact sub_eq_zero.mp (Lemmas.poff_cpp a pl hn)

/-- Ray × plane, minimality: `|a − b|² ≤ |x − y|²` for every `x` on the ray and `y` on the
plane (unit normal). -/
theorem closest_point3d_between_line3d_plane_r_minimal (l : LR3 α) (pl : PlaneS α)
    (a b : V3 α) (hn : V3.normSq pl.n = 1)
    (h : closest_point3d_between_line3d_plane_r l pl = some (a, b))
    (x y : V3 α) (hx : OnRay3 l x) (hy : OnPlane pl y) : distSq3 a b ≤ distSq3 x y := by
  rw [Lemmas.closest_point3d_between_line3d_plane_r_eq] at h
  obtain ⟨_, h2, h3⟩ := Lemmas.closestLP_some .ray l pl a b h
  obtain ⟨t, ht, rfl⟩ := (Lemmas.Rng.On3_iff .ray l x).mp hx
  have e1 : distSq3 a b = Lemmas.poff pl a * Lemmas.poff pl a := by
    rw [h2]; exact Lemmas.dsq3_cpp a pl hn
  have e2 := Lemmas.poff_sq_le_dsq3 (Lemmas.at3 l t) y pl hn
  have hy0 : Lemmas.poff pl y = 0 := sub_eq_zero.mpr hy
  rw [hy0, sub_zero] at e2
  rw [e1]
  exact le_trans (h3 t ht) e2

/-- Non-vacuity: the segment `(0,0,1)→(1,0,2)` stays above `z = 0`; nearest pair is
`((0,0,1), (0,0,0))`. -/
example : closest_point3d_between_line3d_plane_s (⟨⟨0, 0, 1⟩, ⟨1, 0, 1⟩⟩ : LR3 ℚ)
    ⟨⟨0, 0, 1⟩, ⟨0, 0, 0⟩, 0, ⟨1, 0, 0⟩, ⟨0, 1, 0⟩⟩ = some (⟨0, 0, 1⟩, ⟨0, 0, 0⟩) := by
  decide +kernel

/-! ## Distances (`math.sqrt` of the squared distance to the closest point)

  `LineSegment2D.distance_to_point`, `LineSegment3D.distance_to_point`,
  `Plane.distance_to_point`.  The square-root laws are explicit hypotheses:
  `hsqrt : ∀ x ≥ 0, √x·√x = x ∧ 0 ≤ √x`. -/

/-- The segment distance is the square root of the squared distance to the closest point. -/
theorem seg2_distance_to_point_eq (M : MathOps α) (l : LR2 α) (q : V2 α) :
    seg2_distance_to_point M l q = M.sqrt (distSq2 q (closest_point2d_on_line2d_s q l)) := by
  rw [Lemmas.seg2_distance_to_point_eq, Lemmas.closest_point2d_on_line2d_s_eq]; rfl

/-- Distances are non-negative (2D segment). -/
theorem seg2_distance_to_point_nonneg (M : MathOps α)
    (hsqrt : ∀ x, 0 ≤ x → M.sqrt x * M.sqrt x = x ∧ 0 ≤ M.sqrt x) (l : LR2 α) (q : V2 α) :
    0 ≤ seg2_distance_to_point M l q := by
  rw [Lemmas.seg2_distance_to_point_eq]
  exact (hsqrt _ (Lemmas.dsq2_nonneg _ _)).2

/-- The distance is zero exactly for queries on the segment (2D). -/
theorem seg2_distance_to_point_zero_iff (M : MathOps α)
    (hsqrt : ∀ x, 0 ≤ x → M.sqrt x * M.sqrt x = x ∧ 0 ≤ M.sqrt x) (l : LR2 α) (q : V2 α) :
    seg2_distance_to_point M l q = 0 ↔ OnSeg2 l q := by
  rw [Lemmas.seg2_distance_to_point_eq,
    Lemmas.sqrt_eq_zero_iff M hsqrt _ (Lemmas.dsq2_nonneg _ _)]
  exact Lemmas.closest2_zero_iff .seg q l

/-- The distance is a lower bound for the distance to every point of the segment (2D). -/
theorem seg2_distance_to_point_le (M : MathOps α)
    (hsqrt : ∀ x, 0 ≤ x → M.sqrt x * M.sqrt x = x ∧ 0 ≤ M.sqrt x) (l : LR2 α) (q x : V2 α)
    (hx : OnSeg2 l x) : seg2_distance_to_point M l q ≤ M.sqrt (distSq2 q x) := by
  rw [Lemmas.seg2_distance_to_point_eq]
  obtain ⟨t, ht, rfl⟩ := (Lemmas.Rng.On_iff_at2 .seg l x).mp hx
  exact Lemmas.sqrt_le_sqrt M hsqrt _ _ (Lemmas.dsq2_nonneg _ _) (Lemmas.closest2_min .seg q l t ht)

/-- The distance to a segment is 1-Lipschitz in the query point (2D):
`|d(q₁) − d(q₂)| ≤ |q₁ − q₂|`. -/
theorem seg2_distance_to_point_lipschitz (M : MathOps α)
    (hsqrt : ∀ x, 0 ≤ x → M.sqrt x * M.sqrt x = x ∧ 0 ≤ M.sqrt x) (l : LR2 α) (q1 q2 : V2 α) :
    |seg2_distance_to_point M l q1 - seg2_distance_to_point M l q2|
      ≤ M.sqrt (distSq2 q1 q2) := by
  rw [Lemmas.seg2_distance_to_point_eq, Lemmas.seg2_distance_to_point_eq]
  exact Lemmas.dist_lipschitz2 M hsqrt (Lemmas.Rng.On .seg l)
    (fun q => Lemmas.closest2 .seg q l) (fun q => Lemmas.closest2_on .seg q l)
    (fun q x hx => by
      obtain ⟨t, ht, rfl⟩ := (Lemmas.Rng.On_iff_at2 .seg l x).mp hx
      exact Lemmas.closest2_min .seg q l t ht) q1 q2

/-- The 3D segment distance is the square root of the squared distance to the closest point. -/
theorem seg3_distance_to_point_eq (M : MathOps α) (l : LR3 α) (q : V3 α) :
    seg3_distance_to_point M l q = M.sqrt (distSq3 q (closest_point3d_on_line3d_s q l)) := by
  rw [Lemmas.seg3_distance_to_point_eq, Lemmas.closest_point3d_on_line3d_s_eq]; rfl

/-- Distances are non-negative (3D segment). -/
theorem seg3_distance_to_point_nonneg (M : MathOps α)
    (hsqrt : ∀ x, 0 ≤ x → M.sqrt x * M.sqrt x = x ∧ 0 ≤ M.sqrt x) (l : LR3 α) (q : V3 α) :
    0 ≤ seg3_distance_to_point M l q := by
  rw [Lemmas.seg3_distance_to_point_eq]
  exact (hsqrt _ (Lemmas.dsq3_nonneg _ _)).2

/-- The distance is zero exactly for queries on the segment (3D). -/
theorem seg3_distance_to_point_zero_iff (M : MathOps α)
    (hsqrt : ∀ x, 0 ≤ x → M.sqrt x * M.sqrt x = x ∧ 0 ≤ M.sqrt x) (l : LR3 α) (q : V3 α) :
    seg3_distance_to_point M l q = 0 ↔ OnSeg3 l q := by
  rw [Lemmas.seg3_distance_to_point_eq,
    Lemmas.sqrt_eq_zero_iff M hsqrt _ (Lemmas.dsq3_nonneg _ _)]
  exact Lemmas.closest3_zero_iff .seg q l

/-- The distance is a lower bound for the distance to every point of the segment (3D). -/
theorem seg3_distance_to_point_le (M : MathOps α)
    (hsqrt : ∀ x, 0 ≤ x → M.sqrt x * M.sqrt x = x ∧ 0 ≤ M.sqrt x) (l : LR3 α) (q x : V3 α)
    (hx : OnSeg3 l x) : seg3_distance_to_point M l q ≤ M.sqrt (distSq3 q x) := by
  rw [Lemmas.seg3_distance_to_point_eq]
  obtain ⟨t, ht, rfl⟩ := (Lemmas.Rng.On3_iff .seg l x).mp hx
  exact Lemmas.sqrt_le_sqrt M hsqrt _ _ (Lemmas.dsq3_nonneg _ _) (Lemmas.closest3_min .seg q l t ht)

/-- The distance to a segment is 1-Lipschitz in the query point (3D). -/
theorem seg3_distance_to_point_lipschitz (M : MathOps α)
    (hsqrt : ∀ x, 0 ≤ x → M.sqrt x * M.sqrt x = x ∧ 0 ≤ M.sqrt x) (l : LR3 α) (q1 q2 : V3 α) :
    |seg3_distance_to_point M l q1 - seg3_distance_to_point M l q2|
      ≤ M.sqrt (distSq3 q1 q2) := by
  rw [Lemmas.seg3_distance_to_point_eq, Lemmas.seg3_distance_to_point_eq]
  exact Lemmas.dist_lipschitz3 M hsqrt (Lemmas.Rng.On3 .seg l)
    (fun q => Lemmas.closest3 .seg q l) (fun q => Lemmas.closest3_on .seg q l)
    (fun q x hx => by
      obtain ⟨t, ht, rfl⟩ := (Lemmas.Rng.On3_iff .seg l x).mp hx
      exact Lemmas.closest3_min .seg q l t ht) q1 q2

/-- `Plane.distance_to_point` equals `|n·q − k|` (unit normal, square-root laws). -/
theorem plane_distance_to_point_eq_abs (M : MathOps α)
    (hsqrt : ∀ x, 0 ≤ x → M.sqrt x * M.sqrt x = x ∧ 0 ≤ M.sqrt x) (pl : PlaneS α) (q : V3 α)
    (hn : V3.normSq pl.n = 1) :
    plane_distance_to_point M pl q = |pl.n.x * q.x + pl.n.y * q.y + pl.n.z * q.z - pl.k| := by
  rw [Lemmas.plane_distance_to_point_eq, Lemmas.dsq3_cpp q pl hn]
  exact Lemmas.sqrt_mul_self_eq_abs M hsqrt _

/-- Distances are non-negative (plane; needs only the square-root laws). -/
theorem plane_distance_to_point_nonneg (M : MathOps α)
    (hsqrt : ∀ x, 0 ≤ x → M.sqrt x * M.sqrt x = x ∧ 0 ≤ M.sqrt x) (pl : PlaneS α) (q : V3 α) :
    0 ≤ plane_distance_to_point M pl q := by
  rw [Lemmas.plane_distance_to_point_eq]
  exact (hsqrt _ (Lemmas.dsq3_nonneg _ _)).2

/-- The distance is zero exactly for queries on the plane. -/
theorem plane_distance_to_point_zero_iff (M : MathOps α)
    (hsqrt : ∀ x, 0 ≤ x → M.sqrt x * M.sqrt x = x ∧ 0 ≤ M.sqrt x) (pl : PlaneS α) (q : V3 α)
    (hn : V3.normSq pl.n = 1) :
    plane_distance_to_point M pl q = 0 ↔ OnPlane pl q := by
  rw [plane_distance_to_point_eq_abs M hsqrt pl q hn, abs_eq_zero]
  exact sub_eq_zero

/-- The distance is a lower bound for the distance to every point of the plane. -/
theorem plane_distance_to_point_le (M : MathOps α)
    (hsqrt : ∀ x, 0 ≤ x → M.sqrt x * M.sqrt x = x ∧ 0 ≤ M.sqrt x) (pl : PlaneS α) (q x : V3 α)
    (hn : V3.normSq pl.n = 1) (hx : OnPlane pl x) :
    plane_distance_to_point M pl q ≤ M.sqrt (distSq3 q x) := by
  rw [Lemmas.plane_distance_to_point_eq]
  exact Lemmas.sqrt_le_sqrt M hsqrt _ _ (Lemmas.dsq3_nonneg _ _)
    (Lemmas.cpp_min q x pl hn (sub_eq_zero.mpr hx))

/-- The distance to a plane is 1-Lipschitz in the query point. -/
theorem plane_distance_to_point_lipschitz (M : MathOps α)
    (hsqrt : ∀ x, 0 ≤ x → M.sqrt x * M.sqrt x = x ∧ 0 ≤ M.sqrt x) (pl : PlaneS α)
    (q1 q2 : V3 α) (hn : V3.normSq pl.n = 1) :
    |plane_distance_to_point M pl q1 - plane_distance_to_point M pl q2|
      ≤ M.sqrt (distSq3 q1 q2) := by
  rw [Lemmas.plane_distance_to_point_eq, Lemmas.plane_distance_to_point_eq]
  exact Lemmas.dist_lipschitz3 M hsqrt (fun x => Lemmas.poff pl x = 0)
    (fun q => Lemmas.cpp q pl) (fun q => Lemmas.poff_cpp q pl hn)
    (fun q x hx => Lemmas.cpp_min q x pl hn hx) q1 q2

/-! ## Non-vacuity (ℚ) -/

/-- Query beyond the end of a segment is clamped to the end point; beyond the start of a ray to
its origin; far along a ray it is NOT clamped to `[0,1]`. -/
example : closest_point2d_on_line2d_s (⟨5, 1⟩ : V2 ℚ) ⟨⟨0, 0⟩, ⟨2, 0⟩⟩ = ⟨2, 0⟩ := by
  decide +kernel
example : closest_point2d_on_line2d_r (⟨5, 1⟩ : V2 ℚ) ⟨⟨0, 0⟩, ⟨2, 0⟩⟩ = ⟨5, 0⟩ := by
  decide +kernel
example : closest_point2d_on_line2d_r (⟨-5, 1⟩ : V2 ℚ) ⟨⟨0, 0⟩, ⟨2, 0⟩⟩ = ⟨0, 0⟩ := by
  decide +kernel
example : closest_point2d_on_line2d_infinite_s (⟨-5, 1⟩ : V2 ℚ) ⟨⟨0, 0⟩, ⟨2, 0⟩⟩ = ⟨-5, 0⟩ := by
  decide +kernel
example : closest_point3d_on_line3d_s (⟨1, 1, 7⟩ : V3 ℚ) ⟨⟨0, 0, 0⟩, ⟨2, 0, 0⟩⟩ = ⟨1, 0, 0⟩ := by
  decide +kernel
/-- Degenerate (zero-length) segment: the result is `l.p`. -/
example : closest_point2d_on_line2d_s (⟨5, 1⟩ : V2 ℚ) ⟨⟨3, 4⟩, ⟨0, 0⟩⟩ = ⟨3, 4⟩ := by
  decide +kernel
/-- The unit-normal hypothesis is satisfiable. -/
example : V3.normSq (⟨0, 0, 1⟩ : V3 ℚ) = 1 := by decide +kernel

/-! ## Closest point on an arc (`Arc2D.closest_point` / `closest_point2d_on_arc2d`)

  The code projects the query radially onto the carrier circle (`c + normalize(q − c)·r`); if the
  arc is a full circle, or the radial point passes the arc's angular filter `_pt_in`, that point
  is returned; otherwise the nearer end point (`p1` on ties, compared through `math.sqrt`).
  Trigonometry stays abstract, so what can be proved without an angle/chord monotonicity law is:
  which candidate is returned, that the result lies on the carrier circle, that the chosen end
  point is the nearer one, and — for a full circle — minimality (reverse triangle inequality).
  NOT PROVED (`_partial`): minimality over a proper arc, which needs the relation between
  `acos`-angles and chord lengths that the abstract `MathOps` does not provide. -/

/-- `q` lies on the carrier circle of the arc: `|q − c|² = r²`. -/
def OnCircle2 (a : Arc2S α) (q : V2 α) : Prop := distSq2 q a.c = a.r * a.r

/-- The radial projection `c + (q − c)/|q − c| · r` of the query onto the carrier circle. -/
def arcRadial (M : MathOps α) (a : Arc2S α) (q : V2 α) : V2 α :=
  ⟨a.c.x + (q.x - a.c.x) / M.sqrt (distSq2 q a.c) * a.r,
   a.c.y + (q.y - a.c.y) / M.sqrt (distSq2 q a.c) * a.r⟩

/-- If the radial projection passes the arc's angular filter (always, for a full circle), it is
the result (`q ≠ c`, square-root law). -/
theorem arc2_closest_point_radial (M : MathOps α) (a : Arc2S α) (q : V2 α)
    (hsqrt : ∀ x, 0 ≤ x → M.sqrt x * M.sqrt x = x ∧ 0 ≤ M.sqrt x)
    (hq : distSq2 q a.c ≠ 0) (hin : arc2_pt_in M a (arcRadial M a q) = true) :
    arc2_closest_point M a q = arcRadial M a q := by
  have hd := (hsqrt _ (Lemmas.dsq2_nonneg q a.c)).1
  have hd0 : Lemmas.acD M a q ≠ 0 := fun h0 => hq (by
    have : Lemmas.acD M a q * Lemmas.acD M a q = distSq2 q a.c := hd
    rw [← this, h0, mul_zero])
  rw [Lemmas.arc2_closest_point_eq]
  have e : Lemmas.acRad M a q = arcRadial M a q := Lemmas.acRad_eq M a q hd0
  rw [← e] at hin ⊢
  exact Lemmas.arcClosest_of_in M a q hin

/-- If the radial projection fails the filter, the result is an end point of the arc — the nearer
one in squared Euclidean distance, `p1` on ties. -/
theorem arc2_closest_point_end (M : MathOps α) (a : Arc2S α) (q : V2 α)
    (hsqrt : ∀ x, 0 ≤ x → M.sqrt x * M.sqrt x = x ∧ 0 ≤ M.sqrt x)
    (hq : distSq2 q a.c ≠ 0) (hout : ¬ arc2_pt_in M a (arcRadial M a q) = true) :
    (arc2_closest_point M a q = arc2_p1 a ∨ arc2_closest_point M a q = arc2_p2 a) ∧
      distSq2 (arc2_closest_point M a q) q ≤ distSq2 (arc2_p1 a) q ∧
      distSq2 (arc2_closest_point M a q) q ≤ distSq2 (arc2_p2 a) q ∧
      (distSq2 (arc2_p1 a) q ≤ distSq2 (arc2_p2 a) q → arc2_closest_point M a q = arc2_p1 a) := by
  have hd := (hsqrt _ (Lemmas.dsq2_nonneg q a.c)).1
  have hd0 : Lemmas.acD M a q ≠ 0 := fun h0 => hq (by
    have : Lemmas.acD M a q * Lemmas.acD M a q = distSq2 q a.c := hd
    rw [← this, h0, mul_zero])
  have e : Lemmas.acRad M a q = arcRadial M a q := Lemmas.acRad_eq M a q hd0
  rw [← e] at hout
  rw [Lemmas.arc2_closest_point_eq, Lemmas.arcClosest_of_not_in M a q hout]
  exact Lemmas.acEnd_nearer M hsqrt a q

/-- On-object (carrier circle): for `q ≠ c`, with the square-root law and consistent cached
end-point cosines/sines (`cos² + sin² = 1`, an invariant of `Arc2D`), the result lies on the
carrier circle `|res − c|² = r²`. -/
theorem arc2_closest_point_on_circle (M : MathOps α) (a : Arc2S α) (q : V2 α)
    (hsqrt : ∀ x, 0 ≤ x → M.sqrt x * M.sqrt x = x ∧ 0 ≤ M.sqrt x)
    (hq : distSq2 q a.c ≠ 0)
    (h1 : a.cos_a1 * a.cos_a1 + a.sin_a1 * a.sin_a1 = 1)
    (h2 : a.cos_a2 * a.cos_a2 + a.sin_a2 * a.sin_a2 = 1) :
    OnCircle2 a (arc2_closest_point M a q) := by
  have hd := (hsqrt _ (Lemmas.dsq2_nonneg q a.c)).1
  have hd0 : Lemmas.acD M a q ≠ 0 := fun h0 => hq (by
    have : Lemmas.acD M a q * Lemmas.acD M a q = distSq2 q a.c := hd
    rw [← this, h0, mul_zero])
  rw [Lemmas.arc2_closest_point_eq]
  by_cases hin : arc2_pt_in M a (Lemmas.acRad M a q) = true
  · rw [Lemmas.arcClosest_of_in M a q hin]
    exact Lemmas.acRad_onCirc M a q hd hd0
  · rw [Lemmas.arcClosest_of_not_in M a q hin]
    exact Lemmas.acEnd_onCirc M a q h1 h2

/-- Minimality for a full circle (reverse triangle inequality): with `r ≥ 0` and the square-root
laws, no point of the circle is closer to the query than the result.  (Holds for `q = c` too,
where the code returns `c` itself.)
FULL statement for proper arcs (not proved, `_partial`): `distSq2 q res ≤ distSq2 q x` for every
`x` on the circle with `arc2_pt_in M a x = true` or `x ∈ {p1, p2}`; this needs an angle/chord
monotonicity law for `M.acos`. -/
theorem arc2_closest_point_minimal_partial (M : MathOps α) (a : Arc2S α) (q : V2 α)
    (hsqrt : ∀ x, 0 ≤ x → M.sqrt x * M.sqrt x = x ∧ 0 ≤ M.sqrt x)
    (hc : arc2_is_circle M a = true) (hr : 0 ≤ a.r) (x : V2 α) (hx : OnCircle2 a x) :
    distSq2 q (arc2_closest_point M a q) ≤ distSq2 q x := by
  obtain ⟨hd, hdn⟩ := hsqrt _ (Lemmas.dsq2_nonneg q a.c)
  have hc' : Lemmas.isCirc M a := by
    unfold arc2_is_circle at hc; exact of_decide_eq_true hc
  rw [Lemmas.arc2_closest_point_eq, Lemmas.arcClosest_of_circle M a q hc']
  exact Lemmas.acRad_min M a q x hd hdn hr hx

/-- Non-vacuity (ℚ, full circle of radius `1` about the origin, `√25 = 5` exact): the query
`(3,4)` projects to `(3/5, 4/5)`. -/
example :
    arc2_closest_point
        (⟨fun x => if x = 25 then 5 else 0, id, id, id, id, id, fun _ _ => 0, 3, id⟩ : MathOps ℚ)
        ⟨⟨0, 0⟩, 1, 0, 6, 1, 0, 1, 0⟩ ⟨3, 4⟩ = ⟨3 / 5, 4 / 5⟩ := by
  decide +kernel

end Lbg.Props.C12
