/-
  Property C18, second half — `Polygon2D.joined_intersected_boundary` and
  `Face3D.join_coplanar_faces`: the outline pipeline, stage by stage.

  The theorems are about the literal model `LbgVerif/Model/JoinOutline.lean` (checked against the
  real code stage by stage by the correspondence module `corr/joinoutline.py`), for EVERY input
  list, every order of the update lists, every start vertex and orientation of every polygon, and
  every distance function `dist` (the code's `distance_to_point`).

  (a) `_insert_updates_in_order`: the result is the original vertex list with, after vertex `i`,
      the points inserted on segment `i`, ordered by distance from vertex `i`; vertex multiset =
      old + inserted; the polygon's shoelace sum is unchanged when the inserted points lie on the
      lines of their segments.
  (b) `intersect_segments` / `intersect_polygon_segments`: the rule of the update lists as coded;
      every polygon keeps its original vertices in order and its shoelace sum (the inserted
      closest points are always on the segment's line).
  (c) the naked-edge selection AS CODED (vertex indices after de-duplication, then index pairs):
      an edge is kept iff it is non-degenerate and its UNDIRECTED multiplicity is 1; in the exact
      case the naked SEGMENTS are the point edges of multiplicity one (= odd multiplicity when no
      edge occurs more than twice); `join_segments` uses every naked segment exactly once.
  (d) area: shared edges cancel in the shoelace sum; without pinch vertices `join_segments` keeps
      the orientation of every naked segment, so Σ shoelace(tiles) = Σ shoelace(returned loops).
  (e) grouping: `merge_faces_to_holes` / `group_boundaries_and_holes` compute the same groups as
      the loop of `_from_bool_poly` (`Model.BoolGroup`), hence `C09.group_evenodd` applies.
  (f) `join_coplanar_faces` feeds boundary and holes of every face as separate loops; a hole edge
      is naked unless another loop has the same undirected edge.

  NOT proved: idempotence of `intersect_polygon_segments` on its own output (measured by the
  correspondence module: 0 exceptions on lattice and jittered tilings; false in general for
  three polygons with tolerance-sized offsets because polygon pairs are visited once); that the
  outlines of an edge-to-edge tiling are all closed (taken as a hypothesis in (d));
  `polygon_relationship` / `is_polygon_inside` (the containment test is a parameter in (e)).
-/
import LbgVerif.Model.JoinOutline
import LbgVerif.Lemmas.JoinOutlineInsert
import LbgVerif.Lemmas.JoinOutlineArea
import LbgVerif.Lemmas.JoinOutlineIsect
import LbgVerif.Lemmas.JoinOutlineNaked
import LbgVerif.Lemmas.JoinOutlineExact
import LbgVerif.Lemmas.JoinOutlineDirected
import LbgVerif.Lemmas.JoinOutlineGroup
import LbgVerif.Lemmas.JoinOutlineFaces
import LbgVerif.Props.C18
import LbgVerif.Props.C09
import Mathlib.Algebra.Order.Field.Rat

set_option linter.unusedSectionVars false
set_option linter.unusedVariables false

namespace Lbg.Props.C18b
open Lbg Lbg.Gen Lbg.Lemmas Lbg.Lemmas.JoinOutline Lbg.Lemmas.JoinSegments
open Lbg.Model Lbg.Model.JoinOutline Lbg.Model.JoinSegments
open Lbg.Props.C02 (PlaneValid)

variable {α : Type} [Field α] [LinearOrder α] [IsStrictOrderedRing α]

/-! ## Predicates used in the statements (unfolded as checked equations) -/

/-- `expand B vs off`: the list `vs` with block `B (off + i)` inserted after its `i`-th
element. -/
theorem expand_nil {β : Type} (B : Nat → List β) (off : Nat) : expand B [] off = [] := rfl
theorem expand_cons {β : Type} (B : Nat → List β) (v : β) (t : List β) (off : Nat) :
    expand B (v :: t) off = v :: (B off ++ expand B t (off + 1)) := rfl

/-- `OnLine a b p`: `p = a + t (b - a)` for some `t`. -/
theorem onLine_iff (a b p : V2 α) :
    OnLine a b p ↔ ∃ t : α, p = ⟨a.x + t * (b.x - a.x), a.y + t * (b.y - a.y)⟩ := Iff.rfl

/-- `nextV vs i`: the cyclic successor of vertex `i`. -/
theorem nextV_eq (vs : List (V2 α)) (i : Nat) :
    nextV vs i = vs.getD ((i + 1) % vs.length) ⟨0, 0⟩ := rfl

/-- `Refines a b`: `b` has the vertices of `a` in the same order (plus inserted ones) and the
same shoelace sum. -/
theorem refines_iff (a b : List (V2 α)) :
    Refines a b ↔ (a.Sublist b ∧ shoelace b = shoelace a) := Iff.rfl

/-- `umult A e`: how many edges of `A` have the same undirected edge as `e`. -/
theorem umult_eq {K : Type} [DecidableEq K] (A : List (K × K)) (e : K × K) :
    umult A e = A.countP (fun a => decide (a = e ∨ a = (e.2, e.1))) := by
  rw [umult_eq_countP]
  congr 1; funext a; congr 1; exact propext (und_eq_iff a e)

/-- `isNaked A e`: `e` is non-degenerate and its undirected multiplicity in `A` is one. -/
theorem isNaked_eq {K : Type} [DecidableEq K] (A : List (K × K)) (e : K × K) :
    isNaked A e = (decide (e.1 ≠ e.2) && umult A e == 1) := rfl

/-- `Deg D`: every point is the start of at most one and the end of at most one segment of `D`
(no pinch vertex). -/
theorem deg_iff {P : Type} (D : List (Seg P)) :
    Deg D ↔ ((D.map Prod.fst).Nodup ∧ (D.map Prod.snd).Nodup) := Iff.rfl

/-! ## (a) `_insert_updates_in_order` -/

/-- **C18b(a) structure and sortedness.**  For EVERY update list with valid segment indices —
in any order — and every vertex list (any start vertex), the result is the original vertex list
with a block `B i` inserted after vertex `i`, where `B i` consists exactly of the points of the
updates with index `i` (as a multiset) and is sorted by non-decreasing distance from vertex `i`:
each inserted point lands on its own segment, in increasing distance from the segment start.
(With `insert(new_i, …)` instead of `insert(new_i + i, …)` the blocks are not sorted and this
fails.) -/
theorem insert_structure (dist : V2 α → V2 α → α) (vs : List (V2 α)) (ups : List (Nat × V2 α))
    (hlt : ∀ u ∈ ups, u.1 < vs.length) :
    ∃ B : Nat → List (V2 α), insertUpdates dist vs ups = expand B vs 0 ∧
      ∀ i, (B i).Perm ((ups.filter (fun u => u.1 == i)).map (·.2)) ∧
        (B i).Pairwise (fun a b => dist (vs.getD i ⟨0, 0⟩) a ≤ dist (vs.getD i ⟨0, 0⟩) b) := by
  refine ⟨_, insertUpdates_eq_expand dist vs ups hlt, fun i => ⟨?_, blockOf_sorted _ i _⟩⟩
  refine (blockOf_perm _ i _).trans ?_
  exact (((List.reverse_perm _).trans (sortByIdx_perm ups)).filter _).map _

/-- **C18b(a) vertex multiset** = old vertices + inserted points (every update list). -/
theorem insert_vertex_multiset (dist : V2 α → V2 α → α) (vs : List (V2 α))
    (ups : List (Nat × V2 α)) : (insertUpdates dist vs ups).Perm (vs ++ ups.map (·.2)) :=
  insertUpdates_perm dist vs ups

/-- **C18b(a) the original vertices stay in their order** (every update list). -/
theorem insert_keeps_order (dist : V2 α → V2 α → α) (vs : List (V2 α))
    (ups : List (Nat × V2 α)) : vs.Sublist (insertUpdates dist vs ups) :=
  insertUpdates_sublist dist vs ups

/-- **C18b(a) the region is unchanged**: when every inserted point lies on the line of its
segment (vertex `i` → its cyclic successor), the shoelace sum of the polygon is the same. -/
theorem insert_region_unchanged (dist : V2 α → V2 α → α) (vs : List (V2 α))
    (ups : List (Nat × V2 α)) (hlt : ∀ u ∈ ups, u.1 < vs.length)
    (hon : ∀ u ∈ ups, OnLine (vs.getD u.1 ⟨0, 0⟩) (nextV vs u.1) u.2) :
    shoelace (insertUpdates dist vs ups) = shoelace vs :=
  insertUpdates_shoelace dist vs ups hlt hon

/-- The general collinear-insertion lemma behind it: blocks on the lines of their edges do not
change the shoelace sum. -/
theorem shoelace_collinear_blocks (B : Nat → List (V2 α)) (vs : List (V2 α))
    (h : ∀ i, i < vs.length → ∀ p ∈ B i, OnLine (vs.getD i ⟨0, 0⟩) (nextV vs i) p) :
    shoelace (expand B vs 0) = shoelace vs := shoelace_expand B vs h

/-! ## (b) `intersect_segments`, `intersect_polygon_segments` -/

/-- **C18b(b) the rule, as coded** (`polygon1_updates`): `(i, x)` is recorded iff `x` is the
closest point of segment `i` of `poly1` to some vertex `q` of `poly2` (`q = seg2.p1`), `x` is
within `tol` of `q` and farther than `tol` from EVERY vertex of `poly1`. -/
theorem isect_rule_onto (dist : V2 α → V2 α → α) (tol : α) (p1 p2 : List (V2 α)) (i : Nat)
    (x : V2 α) :
    (i, x) ∈ updatesOnto dist tol p1 p2 ↔
      ∃ s1 s2, (PointInside.segments p1)[i]? = some s1 ∧ s2 ∈ PointInside.segments p2 ∧
        x = closest_point2d_on_line2d_s s2.p s1 ∧ ¬ tol < dist x s2.p ∧
        (∀ p ∈ p1, tol < dist p x) := by
  rw [mem_updatesOnto]
  simp [farFromAll]

/-- The same for `polygon2_updates`. -/
theorem isect_rule_onto' (dist : V2 α → V2 α → α) (tol : α) (p1 p2 : List (V2 α)) (i : Nat)
    (y : V2 α) :
    (i, y) ∈ updatesOnto' dist tol p1 p2 ↔
      ∃ s1 s2, s1 ∈ PointInside.segments p1 ∧ (PointInside.segments p2)[i]? = some s2 ∧
        y = closest_point2d_on_line2d_s s1.p s2 ∧ ¬ tol < dist y s1.p ∧
        (∀ p ∈ p2, tol < dist p y) := by
  rw [mem_updatesOnto']
  simp [farFromAll]

/-- Segment `i` of a polygon is `from_end_points(vertex i, successor)`. -/
theorem segment_by_index (vs : List (V2 α)) (i : Nat) (hi : i < vs.length) :
    (PointInside.segments vs)[i]? =
      some (seg2_from_end_points (vs.getD i ⟨0, 0⟩) (nextV vs i)) :=
  segments_getElem? vs i hi

/-- The closest point on a segment lies on the segment's line (exact arithmetic). -/
theorem closest_point_on_line (q a b : V2 α) :
    OnLine a b (closest_point2d_on_line2d_s q (seg2_from_end_points a b)) := closest_onLine q a b

/-- **C18b(b) `intersect_segments` gains exactly the recorded points**: when the bounding
rectangles overlap, the vertex multiset of the first result is `poly1` plus the points of
`polygon1_updates` (likewise for the second). -/
theorem intersect_segments_gain (dist : V2 α → V2 α → α) (tol : α) (p1 p2 : List (V2 α))
    (hb : polygon2d_overlapping_bounding_rect p1 p2 tol = true) :
    (intersectSegments dist tol p1 p2).1.Perm (p1 ++ (updatesOnto dist tol p1 p2).map (·.2)) ∧
    (intersectSegments dist tol p1 p2).2.Perm (p2 ++ (updatesOnto' dist tol p1 p2).map (·.2)) := by
  unfold intersectSegments
  rw [if_pos hb]
  exact ⟨insertUpdates_perm _ _ _, insertUpdates_perm _ _ _⟩

/-- **C18b(b) `intersect_segments` refines both polygons**: original vertices in order, same
shoelace sum — for every pair of polygons and every tolerance. -/
theorem intersect_segments_refines (dist : V2 α → V2 α → α) (tol : α) (p1 p2 : List (V2 α)) :
    Refines p1 (intersectSegments dist tol p1 p2).1 ∧
      Refines p2 (intersectSegments dist tol p1 p2).2 :=
  intersectSegments_refines dist tol p1 p2

/-- **C18b(b) `intersect_polygon_segments`**: the list keeps its length and order; every polygon
keeps its original vertices in their order (vertices are only inserted) and its shoelace sum. -/
theorem intersect_polygon_segments_refines (dist : V2 α → V2 α → α) (tol : α)
    (polys : List (List (V2 α))) :
    List.Forall₂ Refines polys (intersectPolygonSegments dist tol polys) :=
  intersectPolygonSegments_refines dist tol polys

/-- Total shoelace sum of the tiles is unchanged by the intersection pre-pass. -/
theorem intersect_total_area (dist : V2 α → V2 α → α) (tol : α) (polys : List (List (V2 α))) :
    ((intersectPolygonSegments dist tol polys).map shoelace).sum = (polys.map shoelace).sum :=
  sum_shoelace_refines _ _ (intersectPolygonSegments_refines dist tol polys)

/-! ## (c) Naked edges -/

/-- **C18b(c) a segment is kept iff its undirected multiplicity is one** (as coded: on vertex
indices).  For every list of index loops the edges whose counter stays 0 are exactly the
directed edges `(loop[i-1], loop[i])` that are non-degenerate and whose undirected edge occurs
exactly once among all edges of all loops (either orientation counts), in order of appearance
and with the orientation of their own loop. -/
theorem naked_iff_multiplicity_one {K : Type} [DecidableEq K] (loops : List (List K)) :
    nakedEdges loops = (allEdges loops).filter (isNaked (allEdges loops)) :=
  nakedEdges_eq_filter loops

/-- Membership form. -/
theorem mem_naked_iff {K : Type} [DecidableEq K] (loops : List (List K)) (e : K × K) :
    e ∈ nakedEdges loops ↔
      e ∈ allEdges loops ∧ e.1 ≠ e.2 ∧ umult (allEdges loops) e = 1 := by
  rw [nakedEdges_eq_filter, List.mem_filter, isNaked_eq]
  simp

/-- **C18b(c) exact case**: when `is_equivalent` accepts only equal points (tolerance 0, or
lattice inputs whose coincident vertices are bitwise equal) the segments handed to
`join_segments` are exactly the polygon edges `(poly[i-1], poly[i])` of undirected multiplicity
one. -/
theorem naked_segments_exact (eqv : V2 α → V2 α → Bool) (hex : ∀ a b, eqv a b = true ↔ a = b)
    (polys : List (List (V2 α))) :
    nakedSegments eqv polys = (allEdges polys).filter (isNaked (allEdges polys)) :=
  nakedSegments_exact eqv hex polys

/-- **C18b(c) symmetric difference**: when no undirected edge occurs more than twice, "multiplicity
one" is "odd multiplicity": the kept edges are the mod-2 sum of the tiles' edge sets. -/
theorem naked_is_symmetric_difference {K : Type} [DecidableEq K] (A : List (K × K))
    (h2 : ∀ e ∈ A, umult A e ≤ 2) :
    A.filter (isNaked A) = A.filter (fun e => decide (e.1 ≠ e.2) && umult A e % 2 == 1) := by
  apply List.filter_congr
  intro e he
  have hpos : 0 < umult A e := umult_pos_of_mem A e e he rfl
  have := h2 e he
  rw [isNaked_eq]
  congr 1
  have hcases : umult A e = 1 ∨ umult A e = 2 := by omega
  rcases hcases with h | h <;> simp [h]

/-- **C18b(c) the outlines use every naked segment exactly once** (`C18.join_conserves` applied
to the naked segments; tolerance form, every `is_equivalent`). -/
theorem outlines_use_naked_once (eqv : V2 α → V2 α → Bool) (polys : List (List (V2 α))) :
    Multiset.Rel (SegRel eqv)
      (↑((joinSegments eqv (nakedSegments eqv polys)).flatMap edges)) (↑(nakedSegments eqv polys)) :=
  C18.join_conserves eqv _

/-- The returned polygons are the closed chains without their repeated last vertex, each with at
least three vertices (when no exception is raised). -/
theorem returned_polygons (dist : V2 α → V2 α → α) (eqv : V2 α → V2 α → Bool) (tol : α)
    (polys ps : List (List (V2 α)))
    (h : joinedIntersectedBoundaryWith dist eqv tol polys = some ps) :
    ps = ((joinSegments eqv (nakedSegments eqv
        (intersectPolygonSegments dist tol polys))).filter (isClosedChain eqv)).map List.dropLast ∧
      ∀ p ∈ ps, 3 ≤ p.length :=
  closedPolys_eq eqv _ ps h

/-! ## (d) Area of the outline -/

/-- **C18b(d) shared edges cancel.**  If no directed edge occurs twice among the tiles (so an
edge shared by two tiles is traversed in opposite directions), the total shoelace sum of the
tiles is the sum of `det` over the naked edges, each in the orientation of its tile. -/
theorem tiles_area_eq_naked_sum (T : List (List (V2 α))) (hnd : (allEdges T).Nodup) :
    (T.map shoelace).sum =
      (((allEdges T).filter (isNaked (allEdges T))).map (fun e => V2.det e.1 e.2)).sum := by
  rw [sum_shoelace_eq_sum_edges]
  exact sum_edges_eq_sum_naked two_ne_zero (allEdges T) hnd V2.det det_antisymm

/-- **C18b(d) no pinch ⇒ orientations are kept.**  Exact `is_equivalent`, every point the start
of at most one and the end of at most one segment: the directed edges of the chains returned by
`join_segments` are a permutation of the segments. -/
theorem join_keeps_orientation {P : Type} (eqv : P → P → Bool)
    (hex : ∀ a b, eqv a b = true → a = b) (D : List (Seg P)) (hdeg : Deg D) :
    ((joinSegments eqv D).flatMap edges).Perm D :=
  joinSegments_directed eqv hex D hdeg

/-- **C18b(d) area conservation of the outline.**  Tiles `T` exactly edge-to-edge (no directed
edge twice; exact `is_equivalent`), no pinch vertex among the naked edges: the total shoelace sum
of the tiles equals the total of the open-chain sums of the chains returned by `join_segments`. -/
theorem outline_area_conserved (eqv : V2 α → V2 α → Bool) (hex : ∀ a b, eqv a b = true ↔ a = b)
    (T : List (List (V2 α))) (hnd : (allEdges T).Nodup) (hdeg : Deg (nakedSegments eqv T)) :
    (T.map shoelace).sum = ((joinSegments eqv (nakedSegments eqv T)).map chainSum).sum := by
  rw [tiles_area_eq_naked_sum T hnd, sum_chainSum_eq_sum_edges, ← nakedSegments_exact eqv hex T]
  exact (((joinSegments_directed eqv (fun a b h => (hex a b).1 h) _ hdeg).map _).sum_eq).symm

/-- A closed chain and its polygon (chain without the repeated vertex) have the same sum. -/
theorem closed_chain_area (c : List (V2 α)) (h2 : 2 ≤ c.length) (hc : c.head? = c.getLast?) :
    shoelace c.dropLast = chainSum c := shoelace_dropLast_of_closed c h2 hc

/-- **C18b(d) the whole pipeline.**  Under the hypotheses of `outline_area_conserved` for the
intersected tiles, and if every chain found is closed, the polygons returned by
`joined_intersected_boundary` have the total shoelace sum of the INPUT polygons. -/
theorem boundary_area_conserved (dist : V2 α → V2 α → α) (eqv : V2 α → V2 α → Bool)
    (hex : ∀ a b, eqv a b = true ↔ a = b) (tol : α) (polys ps : List (List (V2 α)))
    (h : joinedIntersectedBoundaryWith dist eqv tol polys = some ps)
    (hnd : (allEdges (intersectPolygonSegments dist tol polys)).Nodup)
    (hdeg : Deg (nakedSegments eqv (intersectPolygonSegments dist tol polys)))
    (hclosed : ∀ c ∈ joinSegments eqv (nakedSegments eqv (intersectPolygonSegments dist tol polys)),
      isClosedChain eqv c = true) :
    (ps.map shoelace).sum = (polys.map shoelace).sum := by
  obtain ⟨hps, _⟩ := returned_polygons dist eqv tol polys ps h
  rw [← intersect_total_area dist tol polys,
    outline_area_conserved eqv hex _ hnd hdeg, hps]
  rw [List.filter_eq_self.2 hclosed, List.map_map]
  congr 1
  apply List.map_congr_left
  intro c hc
  have hcl := hclosed c hc
  have hw := (C18.join_chains_wellformed eqv _ c hc).1
  unfold isClosedChain at hcl
  simp only [Bool.and_eq_true, decide_eq_true_eq] at hcl
  simp only [Function.comp]
  apply shoelace_dropLast_of_closed c hw
  cases hh : c.head? with
  | none => rw [hh] at hcl; simp at hcl
  | some a =>
    cases hl : c.getLast? with
    | none => rw [hh, hl] at hcl; simp at hcl
    | some b =>
      rw [hh, hl] at hcl
      rw [(hex a b).1 hcl.2]

/-! ## (e) Grouping into boundaries and holes -/

/-- **C18b(e) `merge_faces_to_holes` is the grouping of `_from_bool_poly`.**  On two or more
faces the restart-`while` loops return exactly `Model.groupLoops` (the `for … for … else` loop,
`Props/C09`) of the faces sorted by area, largest first. -/
theorem merge_faces_eq_group_loops {L : Type} (area : L → α) (inside : L → L → Bool)
    (faces : List L) (h2 : 2 ≤ faces.length) :
    mergeFacesToHoles area inside faces =
      some (groupLoops inside (sortByAreaDesc area faces)) := by
  unfold mergeFacesToHoles groupLoops
  have hl := sortByAreaDesc_length area faces
  match hs : sortByAreaDesc area faces, hl with
  | [], hl => simp at hl; omega
  | [_], hl => simp at hl; omega
  | b :: s :: rest, _ =>
    rw [faceTest_eq_isHoleOf]
    exact mergeSorted_eq_groupWith _ (mono_faceTest inside) b s rest

/-- The literal behaviour on ONE face: nothing is returned (the callers guard this case). -/
theorem merge_faces_single {L : Type} (area : L → α) (inside : L → L → Bool) (f : L) :
    mergeFacesToHoles area inside [f] = some [] := rfl

/-- **C18b(e) `group_boundaries_and_holes`** is the same grouping with the test that does not
look at the holes already found (`Model.groupLoopsNoTol`), for every non-empty list. -/
theorem group_boundaries_eq {L : Type} (area : L → α) (inside : L → L → Bool) (polys : List L)
    (hne : polys ≠ []) :
    groupBoundariesAndHoles area inside polys =
      some (groupLoopsNoTol inside (sortByAreaDesc area polys)) := by
  unfold groupBoundariesAndHoles groupLoopsNoTol
  match polys, hne with
  | [p], _ => rfl
  | p :: q :: rest, _ =>
    simp only []
    have hl := sortByAreaDesc_length area (p :: q :: rest)
    match hs : sortByAreaDesc area (p :: q :: rest), hl with
    | [], hl => simp at hl
    | [_], hl => simp at hl
    | b :: s :: rest', _ =>
      rw [polyTest_eq_isHoleOfNoTol]
      exact mergeSorted_eq_groupWith _ (mono_polyTest inside) b s rest'

/-- The sort is a stable permutation into non-increasing area. -/
theorem sort_by_area {L : Type} (area : L → α) (xs : List L) :
    (sortByAreaDesc area xs).Perm xs ∧
      (sortByAreaDesc area xs).Pairwise (fun a b => area b ≤ area a) :=
  ⟨sortByAreaDesc_perm area xs, sortByAreaDesc_sorted area xs⟩

/-- **C18b(e) even-odd region of the returned faces** (`C09.group_evenodd` transferred).  Fix a
point and let `mem l` say whether loop `l` contains it.  If containment of loops implies
containment of points and, in the area-sorted list, of two loops containing the point the
earlier contains the later (laminar family, containers first), then the point lies in one of the
faces (outer loop minus its holes) returned by `merge_faces_to_holes` iff an odd number of loops
contain it. -/
theorem merge_faces_evenodd {L : Type} (area : L → α) (inside : L → L → Bool) (mem : L → Bool)
    (faces : List L) (h2 : 2 ≤ faces.length) (gs : List (L × List L))
    (hg : mergeFacesToHoles area inside faces = some gs)
    (hnest : ∀ a b, inside a b = true → mem b = true → mem a = true)
    (hsorted : (sortByAreaDesc area faces).Pairwise
      (fun a b => mem a = true → mem b = true → inside a b = true)) :
    gs.any (C09.inFace mem) = C09.evenOdd mem (sortByAreaDesc area faces) := by
  rw [merge_faces_eq_group_loops area inside faces h2] at hg
  cases hg
  exact C09.group_evenodd inside mem _ hnest hsorted

/-! ## (f) `join_coplanar_faces` -/

/-- **C18b(f) boundary and holes are separate loops.**  `join_coplanar_faces` (plane
coordinates) is the 2D pipeline on the list `boundary₁, holes₁…, boundary₂, holes₂…` with
colinear vertices removed, followed by `merge_faces_to_holes` when more than one outline is
found.  (With the merged vertex loop of a face with holes in place of its boundary this equation
is false.) -/
theorem join_coplanar_unfold (dist : V2 α → V2 α → α) (tol : α)
    (faces : List (FaceLoops (V2 α))) :
    let loops := cleanLoops tol (faces.flatMap (fun f => f.1 :: f.2))
    (joinedIntersectedBoundary dist tol loops = none → joinCoplanarFaces2 dist tol faces = none) ∧
    (∀ b, joinedIntersectedBoundary dist tol loops = some [b] →
      joinCoplanarFaces2 dist tol faces = some [(rightHand b, [])]) ∧
    (∀ bounds, joinedIntersectedBoundary dist tol loops = some bounds → bounds.length ≠ 1 →
      joinCoplanarFaces2 dist tol faces =
        mergeFacesToHoles polygon2d_area polygon2d_is_polygon_inside (bounds.map rightHand)) := by
  intro loops
  refine ⟨?_, ?_, ?_⟩
  · intro h
    unfold joinCoplanarFaces2 faceLoops
    rw [h]
  · intro b h
    unfold joinCoplanarFaces2 faceLoops
    rw [h]
  · intro bounds h hl
    unfold joinCoplanarFaces2 faceLoops
    rw [h]
    match bounds, hl with
    | [], _ => rfl
    | [b], hl => simp at hl
    | _ :: _ :: _, _ => rfl

/-- **C18b(f) a hole edge is naked unless another loop has it.**  Exact `is_equivalent`: an edge
`e` of a hole loop `h` of one of the faces is handed to `join_segments` iff it is non-degenerate
and no other edge of any boundary or hole (of any face, in either orientation) is the same
undirected edge.  In particular the hole of a ring tile survives unless another tile fills it;
if the merged loop of the face were fed as well, every hole edge would occur twice and vanish. -/
theorem hole_edge_naked_iff (eqv : V2 α → V2 α → Bool) (hex : ∀ a b, eqv a b = true ↔ a = b)
    (faces : List (FaceLoops (V2 α))) (f : FaceLoops (V2 α)) (hf : f ∈ faces)
    (h : List (V2 α)) (hh : h ∈ f.2) (e : V2 α × V2 α) (he : e ∈ cyclicPairs h) :
    e ∈ nakedSegments eqv (faceLoops faces) ↔
      (e.1 ≠ e.2 ∧ umult (allEdges (faceLoops faces)) e = 1) := by
  have hmem : e ∈ allEdges (faceLoops faces) := by
    unfold allEdges faceLoops
    refine List.mem_flatMap.2 ⟨h, ?_, he⟩
    exact List.mem_flatMap.2 ⟨f, hf, List.mem_cons_of_mem _ hh⟩
  rw [nakedSegments_exact eqv hex, List.mem_filter, isNaked_eq]
  simp [hmem]

/-- **C18b(f) the 3D entry point** is the plane-coordinate function between `xyz_to_xy` and
`xy_to_xyz` of `faces[0].plane`; for faces given by lifting plane loops into a valid plane the
projection is undone exactly. -/
theorem join_coplanar_lifted (dist : V2 α → V2 α → α) (tol : α) {pl : PlaneS α}
    (hv : PlaneValid pl) (faces2 : List (FaceLoops (V2 α))) :
    joinCoplanarFaces dist tol pl
        (faces2.map (fun f => (f.1.map (plane_xy_to_xyz pl), f.2.map (·.map (plane_xy_to_xyz pl))))) =
      (joinCoplanarFaces2 dist tol faces2).map
        (·.map (fun f => (f.1.map (plane_xy_to_xyz pl), f.2.map (·.map (plane_xy_to_xyz pl))))) := by
  unfold joinCoplanarFaces
  congr 2
  rw [List.map_map]
  conv_rhs => rw [← List.map_id faces2]
  apply List.map_congr_left
  intro f _
  have hrt : ∀ l : List (V2 α), (l.map (plane_xy_to_xyz pl)).map (plane_xyz_to_xy pl) = l := by
    intro l
    rw [List.map_map]
    conv_rhs => rw [← List.map_id l]
    apply List.map_congr_left
    intro q _
    exact C06.plane_xy_roundtrip hv q
  simp only [Function.comp, id]
  ext1
  · exact hrt f.1
  · simp only [List.map_map]
    conv_rhs => rw [← List.map_id f.2]
    apply List.map_congr_left
    intro l _
    exact hrt l

/-! ## Non-vacuity: kernel-checked runs of the model at ℚ

`dist` is the squared distance here (the theorems hold for every `dist`; at ℚ the square root is
not available); tolerance 1/100. -/

/-- Squared distance. -/
def dsq (a b : V2 ℚ) : ℚ := (a.x - b.x) * (a.x - b.x) + (a.y - b.y) * (a.y - b.y)

/-- Every order of three updates on one edge, plus one on another edge, gives the same sorted
insertion; also from another start vertex. -/
example :
    insertUpdates dsq [⟨0, 0⟩, ⟨4, 0⟩, ⟨4, 4⟩, ⟨0, 4⟩]
      [(0, ⟨3, 0⟩), (2, ⟨2, 4⟩), (0, ⟨1, 0⟩), (0, ⟨2, 0⟩)] =
      [⟨0, 0⟩, ⟨1, 0⟩, ⟨2, 0⟩, ⟨3, 0⟩, ⟨4, 0⟩, ⟨4, 4⟩, ⟨2, 4⟩, ⟨0, 4⟩] ∧
    insertUpdates dsq [⟨0, 0⟩, ⟨4, 0⟩, ⟨4, 4⟩, ⟨0, 4⟩]
      [(0, ⟨2, 0⟩), (0, ⟨1, 0⟩), (2, ⟨2, 4⟩), (0, ⟨3, 0⟩)] =
      [⟨0, 0⟩, ⟨1, 0⟩, ⟨2, 0⟩, ⟨3, 0⟩, ⟨4, 0⟩, ⟨4, 4⟩, ⟨2, 4⟩, ⟨0, 4⟩] ∧
    insertUpdates dsq [⟨4, 4⟩, ⟨0, 4⟩, ⟨0, 0⟩, ⟨4, 0⟩]
      [(2, ⟨1, 0⟩), (2, ⟨3, 0⟩), (2, ⟨2, 0⟩)] =
      [⟨4, 4⟩, ⟨0, 4⟩, ⟨0, 0⟩, ⟨1, 0⟩, ⟨2, 0⟩, ⟨3, 0⟩, ⟨4, 0⟩] := by decide +kernel

/-- Two unit squares sharing an edge: one outline of six vertices. -/
example :
    joinedIntersectedBoundary dsq (1 / 100)
      [[⟨0, 0⟩, ⟨1, 0⟩, ⟨1, 1⟩, ⟨0, 1⟩], [⟨1, 0⟩, ⟨2, 0⟩, ⟨2, 1⟩, ⟨1, 1⟩]] =
      some [[⟨1, 1⟩, ⟨0, 1⟩, ⟨0, 0⟩, ⟨1, 0⟩, ⟨2, 0⟩, ⟨2, 1⟩]] := by decide +kernel

/-- Three tiles with a T-junction: the wall below receives the vertex `(1, 1)` of the two squares
standing on it (inserted by the pre-pass); one outline, total doubled area 8. -/
example :
    intersectPolygonSegments dsq (1 / 100)
      [[⟨0, 0⟩, ⟨2, 0⟩, ⟨2, 1⟩, ⟨0, 1⟩], [⟨0, 1⟩, ⟨1, 1⟩, ⟨1, 2⟩, ⟨0, 2⟩],
       [⟨1, 1⟩, ⟨2, 1⟩, ⟨2, 2⟩, ⟨1, 2⟩]] =
      [[⟨0, 0⟩, ⟨2, 0⟩, ⟨2, 1⟩, ⟨1, 1⟩, ⟨0, 1⟩], [⟨0, 1⟩, ⟨1, 1⟩, ⟨1, 2⟩, ⟨0, 2⟩],
       [⟨1, 1⟩, ⟨2, 1⟩, ⟨2, 2⟩, ⟨1, 2⟩]] ∧
    (joinedIntersectedBoundary dsq (1 / 100)
      [[⟨0, 0⟩, ⟨2, 0⟩, ⟨2, 1⟩, ⟨0, 1⟩], [⟨0, 1⟩, ⟨1, 1⟩, ⟨1, 2⟩, ⟨0, 2⟩],
       [⟨1, 1⟩, ⟨2, 1⟩, ⟨2, 2⟩, ⟨1, 2⟩]]).map (·.map shoelace) = some [8] := by decide +kernel

/-- The three tiles after the pre-pass. -/
def tilingT : List (List (V2 ℚ)) :=
  [[⟨0, 0⟩, ⟨2, 0⟩, ⟨2, 1⟩, ⟨1, 1⟩, ⟨0, 1⟩], [⟨0, 1⟩, ⟨1, 1⟩, ⟨1, 2⟩, ⟨0, 2⟩],
   [⟨1, 1⟩, ⟨2, 1⟩, ⟨2, 2⟩, ⟨1, 2⟩]]

/-- The hypotheses of `boundary_area_conserved` hold for this tiling: no directed edge twice, no
pinch among the naked edges, every chain closed. -/
example :
    (allEdges tilingT).Nodup ∧ Deg (nakedSegments (fun a b => decide (a = b)) tilingT) ∧
      ∀ c ∈ joinSegments (fun a b => decide (a = b))
          (nakedSegments (fun a b => decide (a = b)) tilingT),
        isClosedChain (fun a b => decide (a = b)) c = true := by
  unfold Deg
  decide +kernel

/-- A ring tile (3 × 3 square with the middle cell missing) alone, through the face entry point:
one face, boundary counter-clockwise, the hole kept (its edges are naked). -/
example :
    joinCoplanarFaces2 dsq (1 / 100)
      [([⟨0, 0⟩, ⟨3, 0⟩, ⟨3, 3⟩, ⟨0, 3⟩], [[⟨1, 1⟩, ⟨1, 2⟩, ⟨2, 2⟩, ⟨2, 1⟩]])] =
      some [([⟨3, 3⟩, ⟨0, 3⟩, ⟨0, 0⟩, ⟨3, 0⟩], [[⟨1, 2⟩, ⟨1, 1⟩, ⟨2, 1⟩, ⟨2, 2⟩]])] := by
  decide +kernel

/-- The same ring with a tile filling the hole: the hole edges occur twice and vanish. -/
example :
    joinCoplanarFaces2 dsq (1 / 100)
      [([⟨0, 0⟩, ⟨3, 0⟩, ⟨3, 3⟩, ⟨0, 3⟩], [[⟨1, 1⟩, ⟨1, 2⟩, ⟨2, 2⟩, ⟨2, 1⟩]]),
       ([⟨1, 1⟩, ⟨2, 1⟩, ⟨2, 2⟩, ⟨1, 2⟩], [])] =
      some [([⟨3, 3⟩, ⟨0, 3⟩, ⟨0, 0⟩, ⟨3, 0⟩], [])] := by decide +kernel

/-- What (f) excludes: if the MERGED vertex loop of the ring (boundary, bridge, hole, bridge back)
were fed together with the hole, no edge of the hole would be naked. -/
example :
    (nakedSegments (fun a b : V2 ℚ => decide (a = b))
      [[⟨0, 0⟩, ⟨3, 0⟩, ⟨3, 3⟩, ⟨0, 3⟩, ⟨0, 0⟩, ⟨1, 1⟩, ⟨1, 2⟩, ⟨2, 2⟩, ⟨2, 1⟩, ⟨1, 1⟩],
       [⟨1, 1⟩, ⟨1, 2⟩, ⟨2, 2⟩, ⟨2, 1⟩]]) =
      [(⟨0, 0⟩, ⟨3, 0⟩), (⟨3, 0⟩, ⟨3, 3⟩), (⟨3, 3⟩, ⟨0, 3⟩), (⟨0, 3⟩, ⟨0, 0⟩)] := by decide +kernel

/-- Three polygons with tolerance-sized offsets on which the pre-pass is NOT idempotent: the
vertex `(1, 19/200)` of the triangle puts `(1, 0)` on the lower edge of the square `B`; the pair
`(A, B)` was visited before that, so the upper edge of `A` (at distance 1/100 from `B`) receives
its copy of the new vertex only in a second run. -/
def nonIdem : List (List (V2 ℚ)) :=
  [[⟨0, -1⟩, ⟨2, -1⟩, ⟨2, -1 / 100⟩, ⟨0, -1 / 100⟩], [⟨0, 0⟩, ⟨2, 0⟩, ⟨2, 1⟩, ⟨0, 1⟩],
   [⟨1, 19 / 200⟩, ⟨3 / 2, 1 / 2⟩, ⟨1 / 2, 1 / 2⟩]]

/-- `intersect_polygon_segments` is not idempotent in general (what holds for every input is
`intersect_polygon_segments_refines`; on lattice tilings and tilings jittered below tol/4 the
correspondence module found the real pre-pass idempotent in every case). -/
example :
    intersectPolygonSegments dsq (1 / 100) nonIdem =
      [[⟨0, -1⟩, ⟨2, -1⟩, ⟨2, -1 / 100⟩, ⟨0, -1 / 100⟩], [⟨0, 0⟩, ⟨1, 0⟩, ⟨2, 0⟩, ⟨2, 1⟩, ⟨0, 1⟩],
       [⟨1, 19 / 200⟩, ⟨3 / 2, 1 / 2⟩, ⟨1 / 2, 1 / 2⟩]] ∧
    intersectPolygonSegments dsq (1 / 100) (intersectPolygonSegments dsq (1 / 100) nonIdem) =
      [[⟨0, -1⟩, ⟨2, -1⟩, ⟨2, -1 / 100⟩, ⟨1, -1 / 100⟩, ⟨0, -1 / 100⟩],
       [⟨0, 0⟩, ⟨1, 0⟩, ⟨2, 0⟩, ⟨2, 1⟩, ⟨0, 1⟩],
       [⟨1, 19 / 200⟩, ⟨3 / 2, 1 / 2⟩, ⟨1 / 2, 1 / 2⟩]] := by decide +kernel

/-- Grouping: loops `0 ⊃ 1 ⊃ 2` (areas 9, 4, 1) and a separate loop `3` (area 2): `2` is an
island inside the hole `1`, not a hole of `0`. -/
example :
    mergeFacesToHoles (fun i : Nat => ([9, 4, 1, 2] : List ℚ).getD i 0)
      (fun a b => decide ((a, b) ∈ [(0, 1), (0, 2), (1, 2)])) [2, 0, 3, 1] =
      some [(0, [1]), (3, []), (2, [])] := by decide +kernel

end Lbg.Props.C18b
