/-
  C20 — "Grid meshes and OBJ/STL interchange are faithful to the geometry."   (PARTIAL)

  Subjects: the literal loop models `Model/Grid.lean` (`_domain_dimensions`, `_grid_vertices`,
  `_grid_faces`, `_grid_centroids` of geometry2d/mesh.py) and `Model/MeshRemove.lean`
  (`_remove_vertices`, `_transfer_face_centroids_areas`, `_remove_faces_only`,
  `STL.from_mesh3d`'s quad split), checked against the real methods by the driver ops
  `model.grid_*`, `model.domain_dimensions`, `model.remove_*`, `model.stl_split`
  (exact agreement), plus the generated kernels `mesh2d_get_area_quad`,
  `mesh2d_face_center_quad`.

  What is proved:
  A. grids — `(num_x+1)(num_y+1)` vertices, vertex `(i,j)` = `base + (i·x_dim, j·y_dim)` at
     index `i·(num_y+1)+j`; `num_x·num_y` faces, face `(i,j)` at index `i·num_y+j` is
     `(idx i j, idx (i+1) j, idx (i+1) (j+1), idx i (j+1))`, all indices in range; its four
     corners are the lattice rectangle, so every cell has doubled signed area
     `2·x_dim·y_dim` (counter-clockwise for positive dims), reported area `|x_dim·y_dim|`,
     and the pre-seeded centroid (same index `i·num_y+j`) is the cell centre = the centroid
     recomputed from the vertices; `_domain_dimensions`: `num ≥ 1`, `num·dim' = dom`,
     `num = max 1 ⌊dom/dim⌋`, `dim' ≥ dim` when `dom ≥ dim` — so the cells tile the
     bounding box exactly and the per-face area that must be cached is `dim'_x·dim'_y`
     (it equals the requested `x_dim·y_dim` only when the sizes divide the extent).
  B. removal — `_vdict[k]` = number of kept vertices before `k` (order-preserving,
     injective, in range) for kept `k`, `KeyError` otherwise; a face survives iff all its
     vertices are kept; survivors are re-indexed through `_vdict` and reference the SAME
     points; colours / centroids / areas are filtered by the same pattern and stay aligned
     with the faces (`zip`-`filter` alignment, equal lengths); `_remove_faces_only` idem;
     `_vertex_pattern_from_remove_faces`: a vertex is kept iff a kept face uses it.
  C. STL — a quad `(a,b,c,d)` is written as the triangles `(a,b,c)`, `(c,d,a)`, whose signed
     areas (2D) and Newell vectors (3D) add up to the quad's; triangles pass unchanged.

  NOT proved here: the inside filter of `from_polygon_grid` (`is_point_inside` of the
  slightly scaled polygon; harness), `Face3D.mesh_grid`'s normals, the text level of the
  OBJ/STL writers and readers (number formatting / parsing round trip; harness through real
  temporary files), `triangulated`, float rounding of the running sums `_x += x_dim` and of `int(_dom / _dim)`.
-/
import LbgVerif.Gen.Mesh
import LbgVerif.Model.Grid
import LbgVerif.Model.MeshRemove
import LbgVerif.Lemmas.Grid
import LbgVerif.Lemmas.MeshRemove
import LbgVerif.Lemmas.Shoelace
import LbgVerif.Lemmas.Newell
import Mathlib.Tactic.Ring
import Mathlib.Tactic.FieldSimp
import Mathlib.Tactic.Linarith
import Mathlib.Tactic.Positivity
import Mathlib.Tactic.LinearCombination
import Mathlib.Tactic.SplitIfs
import Mathlib.Tactic.NormNum
import Mathlib.Algebra.Order.Field.Rat
import Mathlib.Data.Rat.Floor

set_option linter.unusedSectionVars false
set_option linter.unusedVariables false
set_option linter.unusedSimpArgs false

namespace Lbg.Props.C20
open Lbg Lbg.Gen Lbg.Lemmas Lbg.Model
variable {α : Type} [Field α] [LinearOrder α] [IsStrictOrderedRing α]

/-! ## Predicates / abbreviations used in the statements -/

/-- Index of lattice vertex `(i, j)` in `_grid_vertices` (column-major, `num_y + 1` per column). -/
def idx (ny i j : ℕ) : ℕ := i * (ny + 1) + j

/-- Lattice point `base + (i·x_dim, j·y_dim)`. -/
def latticePt (base : V2 α) (xd yd : α) (i j : ℕ) : V2 α :=
  ⟨base.x + (i : α) * xd, base.y + (j : α) * yd⟩

/-- All vertices of face `f` are kept. -/
def faceKept (pattern : List Bool) (f : List ℕ) : Bool :=
  (f.take (if f.length = 3 then 3 else 4)).all (kept pattern)

/-- The re-indexed face (`None` = removed). -/
def reindexFace (pattern : List Bool) (f : List ℕ) : Option (List ℕ) :=
  if faceKept pattern f = true then
    some ((f.take (if f.length = 3 then 3 else 4)).map (newIdx pattern)) else none

/-! ## A. Grid generation -/

/-- `_grid_vertices` returns `(num_x+1)(num_y+1)` vertices. -/
theorem grid_vertices_length (base : V2 α) (nx ny : ℕ) (xd yd : α) :
    (gridVertices base nx ny xd yd).length = (nx + 1) * (ny + 1) := by
  rw [gridVertices_eq, table_length]

/-- Vertex `(i, j)` is `base + (i·x_dim, j·y_dim)` and sits at index `i·(num_y+1) + j`. -/
theorem grid_vertices_index (base : V2 α) (nx ny : ℕ) (xd yd : α) (i j : ℕ)
    (hi : i ≤ nx) (hj : j ≤ ny) :
    (gridVertices base nx ny xd yd)[idx ny i j]? = some (latticePt base xd yd i j) := by
  rw [gridVertices_eq, idx,
    table_getElem? (nx + 1) (ny + 1)
      (fun (i j : ℕ) => (⟨base.x + (i : α) * xd, base.y + (j : α) * yd⟩ : V2 α)) i j
      (by omega) (by omega)]
  rfl

/-- `_grid_faces` returns `num_x · num_y` faces. -/
theorem grid_faces_length (nx ny : ℕ) : (gridFaces nx ny).length = nx * ny := by
  rw [gridFaces_eq, table_length]

/-- **`grid_faces_index`**: face `(i, j)` (at index `i·num_y + j`) is
`(idx i j, idx (i+1) j, idx (i+1) (j+1), idx i (j+1))` — counter-clockwise around the cell when
both dimensions are positive. -/
theorem grid_faces_index (nx ny i j : ℕ) (hi : i < nx) (hj : j < ny) :
    (gridFaces nx ny)[i * ny + j]? =
      some [idx ny i j, idx ny (i + 1) j, idx ny (i + 1) (j + 1), idx ny i (j + 1)] := by
  rw [gridFaces_eq, table_getElem? nx ny (fun i j => gridQuad ny (i * (ny + 1) + j)) i j hi hj]
  simp only [gridQuad, idx, Option.some.injEq, List.cons.injEq, and_true, true_and]
  refine ⟨by ring, by ring, by ring⟩

/-- Every face is one of the cells `(i, j)`, `i < num_x`, `j < num_y`. -/
theorem grid_faces_mem (nx ny : ℕ) (f : List ℕ) (hf : f ∈ gridFaces nx ny) :
    ∃ i j, i < nx ∧ j < ny ∧
      f = [idx ny i j, idx ny (i + 1) j, idx ny (i + 1) (j + 1), idx ny i (j + 1)] := by
  rw [gridFaces_eq, mem_table] at hf
  obtain ⟨i, j, hi, hj, rfl⟩ := hf
  refine ⟨i, j, hi, hj, ?_⟩
  simp only [gridQuad, idx, List.cons.injEq, and_true, true_and]
  refine ⟨by ring, by ring, by ring⟩

/-- All face indices refer to existing vertices. -/
theorem grid_faces_in_range (nx ny : ℕ) (f : List ℕ) (hf : f ∈ gridFaces nx ny) :
    ∀ v ∈ f, v < (nx + 1) * (ny + 1) := by
  obtain ⟨i, j, hi, hj, rfl⟩ := grid_faces_mem nx ny f hf
  have key : ∀ a b, a ≤ nx → b ≤ ny → idx ny a b < (nx + 1) * (ny + 1) := by
    intro a b ha hb
    unfold idx
    calc a * (ny + 1) + b < a * (ny + 1) + (ny + 1) := by omega
      _ = (a + 1) * (ny + 1) := by ring
      _ ≤ (nx + 1) * (ny + 1) := Nat.mul_le_mul_right _ (by omega)
  intro v hv
  simp only [List.mem_cons, List.not_mem_nil, or_false] at hv
  rcases hv with rfl | rfl | rfl | rfl
  · exact key i j (by omega) (by omega)
  · exact key (i + 1) j (by omega) (by omega)
  · exact key (i + 1) (j + 1) (by omega) (by omega)
  · exact key i (j + 1) (by omega) (by omega)

/-- The corners of face `(i, j)` looked up in `_grid_vertices` are the lattice rectangle
`base + ((i|i+1)·x_dim, (j|j+1)·y_dim)`. -/
theorem grid_face_corners (base : V2 α) (nx ny : ℕ) (xd yd : α) (i j : ℕ)
    (hi : i < nx) (hj : j < ny) :
    [idx ny i j, idx ny (i + 1) j, idx ny (i + 1) (j + 1), idx ny i (j + 1)].map
        (fun v => (gridVertices base nx ny xd yd)[v]?) =
      [some (latticePt base xd yd i j), some (latticePt base xd yd (i + 1) j),
       some (latticePt base xd yd (i + 1) (j + 1)), some (latticePt base xd yd i (j + 1))] := by
  simp only [List.map_cons, List.map_nil]
  rw [grid_vertices_index base nx ny xd yd i j (by omega) (by omega),
    grid_vertices_index base nx ny xd yd (i + 1) j (by omega) (by omega),
    grid_vertices_index base nx ny xd yd (i + 1) (j + 1) (by omega) (by omega),
    grid_vertices_index base nx ny xd yd i (j + 1) (by omega) (by omega)]

/-- **Congruent cells**: every cell is the translate of the rectangle
`(0,0),(x_dim,0),(x_dim,y_dim),(0,y_dim)` by the lattice point `(i, j)`. -/
theorem grid_cell_congruent (base : V2 α) (xd yd : α) (i j : ℕ) :
    [latticePt base xd yd i j, latticePt base xd yd (i + 1) j,
      latticePt base xd yd (i + 1) (j + 1), latticePt base xd yd i (j + 1)] =
    ([⟨0, 0⟩, ⟨xd, 0⟩, ⟨xd, yd⟩, ⟨0, yd⟩] : List (V2 α)).map
      (fun p => V2.add p (latticePt base xd yd i j)) := by
  simp only [List.map_cons, List.map_nil, latticePt, V2.add, Nat.cast_add, Nat.cast_one,
    List.cons.injEq, and_true]
  refine ⟨?_, ?_, ?_, ?_⟩ <;> ext <;> simp only [] <;> ring

/-- Every cell has doubled signed area `2·x_dim·y_dim` (so signed area `x_dim·y_dim`,
counter-clockwise for positive dimensions). -/
theorem grid_cell_shoelace (base : V2 α) (xd yd : α) (i j : ℕ) :
    shoelace [latticePt base xd yd i j, latticePt base xd yd (i + 1) j,
      latticePt base xd yd (i + 1) (j + 1), latticePt base xd yd i (j + 1)] = 2 * (xd * yd) := by
  rw [shoelace_quad]
  simp only [latticePt, V2.det, V2.sub, Nat.cast_add, Nat.cast_one]
  ring

/-- The area `Mesh2D._face_area` recomputes from the four corners of any cell is
`|x_dim · y_dim|` — the value the grid constructors must cache as `_face_areas`. -/
theorem grid_cell_area (base : V2 α) (xd yd : α) (i j : ℕ) :
    mesh2d_get_area_quad (latticePt base xd yd i j, latticePt base xd yd (i + 1) j,
      latticePt base xd yd (i + 1) (j + 1), latticePt base xd yd i (j + 1)) = |xd * yd| := by
  simp only [mesh2d_get_area_quad, latticePt, Nat.cast_add, Nat.cast_one]
  congr 1
  ring

/-- `_grid_centroids` returns `num_x · num_y` points. -/
theorem grid_centroids_length (base : V2 α) (nx ny : ℕ) (xd yd : α) :
    (gridCentroids base nx ny xd yd).length = nx * ny := by
  rw [gridCentroids_eq, table_length]

/-- The pre-seeded centroid of cell `(i, j)` sits at the SAME index `i·num_y + j` as the face
and is the cell centre `base + ((i+½)·x_dim, (j+½)·y_dim)`. -/
theorem grid_centroids_index (base : V2 α) (nx ny : ℕ) (xd yd : α) (i j : ℕ)
    (hi : i < nx) (hj : j < ny) :
    (gridCentroids base nx ny xd yd)[i * ny + j]? =
      some ⟨base.x + (i : α) * xd + xd / 2, base.y + (j : α) * yd + yd / 2⟩ := by
  rw [gridCentroids_eq,
    table_getElem? nx ny (fun (i j : ℕ) =>
      (⟨base.x + (i : α) * xd + xd / 2, base.y + (j : α) * yd + yd / 2⟩ : V2 α)) i j hi hj]

/-- The pre-seeded centroid equals the centre `Mesh2D._face_center` recomputes from the four
corners of the cell (mean of the corners). -/
theorem grid_centroid_is_face_center (base : V2 α) (xd yd : α) (i j : ℕ) :
    mesh2d_face_center_quad (latticePt base xd yd i j, latticePt base xd yd (i + 1) j,
      latticePt base xd yd (i + 1) (j + 1), latticePt base xd yd i (j + 1)) =
    ⟨base.x + (i : α) * xd + xd / 2, base.y + (j : α) * yd + yd / 2⟩ := by
  simp only [mesh2d_face_center_quad, latticePt, Nat.cast_add, Nat.cast_one]
  ext <;> simp only [] <;> field_simp <;> ring

section domain
variable [FloorRing α]

/-- `_domain_dimensions` never returns zero cells, and `num · dim' = dom`: the cells of the
adjusted size tile the extent exactly (no guard on the sign of the inputs needed; the Python
code raises `ZeroDivisionError` for `_dim == 0`). -/
theorem domain_dimensions_exact (dom dim : α) :
    (domainDimensions dom dim).2 ≠ 0 ∧
    ((domainDimensions dom dim).2 : α) * (domainDimensions dom dim).1 = dom := by
  have hne : (domainDimensions dom dim).2 ≠ 0 := by
    simp only [domainDimensions]
    split_ifs with h
    · exact one_ne_zero
    · exact h
  refine ⟨hne, ?_⟩
  have hc : ((domainDimensions dom dim).2 : α) ≠ 0 := Int.cast_ne_zero.mpr hne
  have : (domainDimensions dom dim).1 = dom / ((domainDimensions dom dim).2 : α) := rfl
  rw [this]
  field_simp

/-- For a non-negative extent and a positive requested size: `num = max 1 ⌊dom/dim⌋ ≥ 1`. -/
theorem domain_dimensions_num (dom dim : α) (hdom : 0 ≤ dom) (hdim : 0 < dim) :
    (domainDimensions dom dim).2 = max 1 ⌊dom / dim⌋ ∧ 1 ≤ (domainDimensions dom dim).2 := by
  have hq : 0 ≤ dom / dim := div_nonneg hdom hdim.le
  have hfl : 0 ≤ ⌊dom / dim⌋ := Int.floor_nonneg.mpr hq
  have e : (domainDimensions dom dim).2 = max 1 ⌊dom / dim⌋ := by
    simp only [domainDimensions, pyInt, if_pos hq]
    split_ifs with h
    · rw [h]; rfl
    · have : 1 ≤ ⌊dom / dim⌋ := by omega
      exact (max_eq_right this).symm
  exact ⟨e, by rw [e]; exact le_max_left _ _⟩

/-- The cells are enlarged, never shrunk: if the extent is at least the requested size then
`dim ≤ dim'`; if it is smaller there is exactly one cell of size `dom`. -/
theorem domain_dimensions_size (dom dim : α) (hdom : 0 ≤ dom) (hdim : 0 < dim) :
    (dim ≤ dom → dim ≤ (domainDimensions dom dim).1) ∧
    (dom < dim → (domainDimensions dom dim).2 = 1 ∧ (domainDimensions dom dim).1 = dom) := by
  obtain ⟨e, h1⟩ := domain_dimensions_num dom dim hdom hdim
  have hd : (domainDimensions dom dim).1 = dom / ((domainDimensions dom dim).2 : α) := rfl
  constructor
  · intro hle
    have hq1 : 1 ≤ dom / dim := by rw [le_div_iff₀ hdim]; linarith
    have hfl : 1 ≤ ⌊dom / dim⌋ := Int.le_floor.mpr (by simpa using hq1)
    have en : (domainDimensions dom dim).2 = ⌊dom / dim⌋ := by rw [e]; exact max_eq_right hfl
    have hpos : (0 : α) < ((domainDimensions dom dim).2 : α) := by
      have : (0 : ℤ) < (domainDimensions dom dim).2 := by omega
      exact_mod_cast this
    rw [hd, le_div_iff₀ hpos, en]
    have : ((⌊dom / dim⌋ : ℤ) : α) ≤ dom / dim := Int.floor_le _
    calc dim * ((⌊dom / dim⌋ : ℤ) : α) ≤ dim * (dom / dim) :=
          mul_le_mul_of_nonneg_left this hdim.le
      _ = dom := by field_simp
  · intro hlt
    have hq1 : dom / dim < 1 := by rw [div_lt_iff₀ hdim]; linarith
    have hfl : ⌊dom / dim⌋ < 1 := Int.floor_lt.mpr (by simpa using hq1)
    have en : (domainDimensions dom dim).2 = 1 := by rw [e]; exact max_eq_left (by omega)
    refine ⟨en, ?_⟩
    rw [hd, en]; simp

/-- The last grid line lands exactly on the far side of the bounding box:
`base + num·dim' = base + dom` (with `num_x = num`, `x_dim = dim'`). -/
theorem grid_covers_domain (b dom dim : α) :
    b + ((domainDimensions dom dim).2 : α) * (domainDimensions dom dim).1 = b + dom := by
  rw [(domain_dimensions_exact dom dim).2]

/-- The adjusted size equals the requested one exactly when the requested size divides the
extent `num` times — otherwise the cached cell area must use `dim'`, not `dim` (the repaired
defect of `from_polygon_grid`). -/
theorem domain_dimensions_eq_iff (dom dim : α) :
    (domainDimensions dom dim).1 = dim ↔ ((domainDimensions dom dim).2 : α) * dim = dom := by
  obtain ⟨hne, h⟩ := domain_dimensions_exact dom dim
  have hc : ((domainDimensions dom dim).2 : α) ≠ 0 := Int.cast_ne_zero.mpr hne
  constructor
  · intro e
    have h' := h
    rw [e] at h'
    exact h'
  · intro e
    have : ((domainDimensions dom dim).2 : α) * (domainDimensions dom dim).1 =
        ((domainDimensions dom dim).2 : α) * dim := by rw [h, e]
    exact mul_left_cancel₀ hc this

end domain

/-! ## B. Removal keeps faces, colours and per-face data aligned -/

variable {β γ δ : Type}

/-- `tuple(data[i] for i, _p in enumerate(pattern) if _p)` is `zip`-`filter`-`map`. -/
theorem keepBy_eq_filter (data : List γ) (pattern : List Bool) :
    keepBy data pattern = ((data.zip pattern).filter (fun x => x.2)).map Prod.fst := by
  rw [keepBy_eq, keepSpec_eq_filter]

/-- **Filter alignment**: filtering the faces and a parallel data list by the SAME pattern is
filtering the list of pairs: `unzip (keep (zip faces data)) = (keep faces, keep data)`. -/
theorem keepBy_zip_unzip (faces : List δ) (data : List γ) (pattern : List Bool)
    (h1 : faces.length = pattern.length) (h2 : data.length = pattern.length) :
    (keepBy (faces.zip data) pattern).unzip = (keepBy faces pattern, keepBy data pattern) := by
  simp only [keepBy_eq, keepSpec_zip]
  apply List.unzip_zip
  rw [keepSpec_length faces pattern h1, keepSpec_length data pattern h2]

/-- Kept lists have as many entries as the pattern has `True`s — in particular kept faces and
kept per-face data have EQUAL lengths. -/
theorem keepBy_length (data : List γ) (pattern : List Bool) (h : data.length = pattern.length) :
    (keepBy data pattern).length = pattern.count true := by
  rw [keepBy_eq, keepSpec_length data pattern h]

/-- `_vdict[k]` after the vertex loop: the number of kept vertices before `k` if `k` is kept,
`KeyError` otherwise. -/
theorem vdict_spec (verts : List β) (pattern : List Bool) (k : ℕ) :
    (vertexLoop verts pattern).vdict.lookup k =
      if kept pattern k = true then some (newIdx pattern k) else none :=
  vdict_lookup verts pattern k

/-- The new vertex list is the old one filtered by the pattern; `_vcount` is its length. -/
theorem new_verts_spec (verts : List β) (pattern : List Bool) :
    (vertexLoop verts pattern).newVerts = keepBy verts pattern ∧
    (vertexLoop verts pattern).vcount = pattern.count true := by
  rw [vertexLoop_eq, keepBy_eq]; exact ⟨rfl, rfl⟩

/-- The re-indexing is order preserving (hence injective) on kept vertices and lands in range. -/
theorem reindex_order_preserving (pattern : List Bool) {u v : ℕ} (huv : u < v)
    (hu : kept pattern u = true) (hv : kept pattern v = true) :
    newIdx pattern u < newIdx pattern v ∧ newIdx pattern v < pattern.count true :=
  ⟨newIdx_strictMono pattern huv hu, newIdx_lt_count pattern hv⟩

/-- **Same points**: the new vertex at the new index of a kept vertex `k` is the old vertex
`k`: `newVerts[newIdx k] = oldVerts[k]`. -/
theorem reindex_same_point (verts : List β) (pattern : List Bool) (k : ℕ)
    (hk : kept pattern k = true) :
    (vertexLoop verts pattern).newVerts[newIdx pattern k]? = verts[k]? := by
  rw [vertexLoop_eq]; exact keepSpec_getElem? verts pattern k hk

/-- One face through `_vdict`: kept (and re-indexed) iff all its vertices are kept. -/
theorem remap_face_spec (verts : List β) (pattern : List Bool) (f : List ℕ) :
    remapFace (vertexLoop verts pattern).vdict f = reindexFace pattern f := by
  unfold remapFace reindexFace faceKept
  exact mapM_guard _ (kept pattern) (newIdx pattern) (vdict_spec verts pattern) _

/-- **`remove_vertices_spec`**: the whole of `_remove_vertices(pattern)`:
new vertices = old filtered by `pattern`; `face_pattern[i]` = "all vertices of face `i` kept";
new faces = surviving faces re-indexed, in the old order; per-face data (colours by face,
centroids, areas) filtered by `face_pattern`; per-vertex data filtered by `pattern`. -/
theorem remove_vertices_spec (verts : List β) (faces : List (List ℕ)) (faceData vertData : List γ)
    (pattern : List Bool) :
    removeVertices verts faces faceData vertData pattern =
      (keepBy verts pattern,
       faces.filterMap (reindexFace pattern),
       keepBy faceData (faces.map (faceKept pattern)),
       keepBy vertData pattern,
       faces.map (faceKept pattern)) := by
  have hr : remapFace (vertexLoop verts pattern).vdict = reindexFace pattern :=
    funext (remap_face_spec verts pattern)
  have hk : (fun f => (reindexFace pattern f).isSome) = faceKept pattern := by
    funext f
    unfold reindexFace
    split_ifs with h <;> simp [h]
  simp only [removeVertices, faceLoop_eq, hr, hk, (new_verts_spec verts pattern).1]

/-- **Alignment** of the surviving faces with the surviving per-face data: the `j`-th new face
is the re-indexing of the very old face whose datum is the `j`-th new datum. -/
theorem remove_vertices_aligned (verts : List β) (faces : List (List ℕ))
    (faceData vertData : List γ) (pattern : List Bool) (h : faceData.length = faces.length) :
    let r := removeVertices verts faces faceData vertData pattern
    r.2.1.zip r.2.2.1 =
      (faces.zip faceData).filterMap
        (fun fd => (reindexFace pattern fd.1).map (fun nf => (nf, fd.2))) ∧
    r.2.1.length = r.2.2.1.length ∧ r.2.1.length = r.2.2.2.2.count true := by
  have hk : (fun f => (reindexFace pattern f).isSome) = faceKept pattern := by
    funext f
    unfold reindexFace
    split_ifs with h <;> simp [h]
  have key := faces_data_aligned (reindexFace pattern) faces faceData h
  rw [hk] at key
  simp only [remove_vertices_spec, keepBy_eq]
  have hlen : (faces.filterMap (reindexFace pattern)).length =
      (faces.map (faceKept pattern)).count true := by
    clear key h
    induction faces with
    | nil => rfl
    | cons f t ih =>
      by_cases hf : faceKept pattern f = true
      · simp [reindexFace, hf, List.filterMap_cons, ih]
      · simp [reindexFace, hf, List.filterMap_cons, ih]
  refine ⟨key, ?_, hlen⟩
  rw [hlen, keepSpec_length faceData _ (by simpa using h)]

/-- Every surviving face references the same points as before: for a face `f` whose vertices
are all kept, looking its new indices up in the new vertex list gives what its old indices
give in the old vertex list; and the new indices are in range. -/
theorem remove_vertices_same_points (verts : List β) (pattern : List Bool) (f nf : List ℕ)
    (hlen : verts.length = pattern.length) (hf : reindexFace pattern f = some nf) :
    nf.map (fun v => (vertexLoop verts pattern).newVerts[v]?) =
      (f.take (if f.length = 3 then 3 else 4)).map (fun v => verts[v]?) ∧
    ∀ v ∈ nf, v < (vertexLoop verts pattern).newVerts.length := by
  unfold reindexFace faceKept at hf
  generalize (if f.length = 3 then 3 else 4) = k at hf ⊢
  by_cases hk : (f.take k).all (kept pattern) = true
  swap
  · simp [hk] at hf
  simp only [hk, if_true, Option.some.injEq] at hf
  subst hf
  rw [List.all_eq_true] at hk
  constructor
  · rw [List.map_map]
    apply List.map_congr_left
    intro v hv
    exact reindex_same_point verts pattern v (hk v hv)
  · intro v hv
    obtain ⟨u, hu, rfl⟩ := List.mem_map.mp hv
    rw [(new_verts_spec verts pattern).1, keepBy_length verts pattern hlen]
    exact newIdx_lt_count pattern (hk u hu)

/-- A valid face (3 or 4 indices) is taken whole: `f.take k = f`. -/
theorem face_take_valid (f : List ℕ) (h : f.length = 3 ∨ f.length = 4) :
    f.take (if f.length = 3 then 3 else 4) = f := by
  rcases h with h | h <;> simp [h, List.take_of_length_le]

/-- `_remove_faces_only(pattern)`: faces and per-face data are filtered by the same pattern
and stay aligned. -/
theorem remove_faces_only_aligned (faces : List (List ℕ)) (faceData : List γ)
    (pattern : List Bool) (h1 : faces.length = pattern.length)
    (h2 : faceData.length = pattern.length) :
    removeFacesOnly faces faceData pattern = (keepBy (faces.zip faceData) pattern).unzip ∧
    (removeFacesOnly faces faceData pattern).1.length =
      (removeFacesOnly faces faceData pattern).2.length := by
  refine ⟨(keepBy_zip_unzip faces faceData pattern h1 h2).symm, ?_⟩
  simp only [removeFacesOnly, keepBy_length faces pattern h1, keepBy_length faceData pattern h2]

/-- `_vertex_pattern_from_remove_faces(pattern)` (used by `remove_faces`): vertex `k` is kept
iff it exists and some kept face uses it. -/
theorem vertex_pattern_from_faces_spec (nVerts : ℕ) (faces : List (List ℕ))
    (pattern : List Bool) (k : ℕ) :
    (vertexPatternFromFaces nVerts faces pattern).getD k false = true ↔
      k < nVerts ∧ ∃ i, pattern[i]? = some true ∧ k ∈ faces.getD i [] := by
  unfold vertexPatternFromFaces
  rw [vertexPattern_from faces pattern 0 (List.replicate nVerts false) k]
  have h0 : ¬ ((List.replicate nVerts false).getD k false = true) := by
    simp only [List.getD_eq_getElem?_getD, List.getElem?_replicate]
    split_ifs <;> simp
  simp only [List.length_replicate, Nat.zero_add]
  tauto

/-! ## C. STL: quads are written as two triangles -/

/-- `STL.from_mesh3d` passes triangles through and splits a quad `(a, b, c, d)` into
`(a, b, c)` and `(c, d, a)` (local indices `(0,1,2)`, `(2,3,0)`). -/
theorem stl_split_spec (a b c d : δ) :
    stlSplit [a, b, c] = [[a, b, c]] ∧ stlSplit [a, b, c, d] = [[a, b, c], [c, d, a]] :=
  ⟨rfl, rfl⟩

/-- The two triangles of the split have the quad's signed area (2D shoelace): no area is lost
or doubled whatever the shape of the quad (convex or not). -/
theorem stl_split_area (a b c d : V2 α) :
    shoelace [a, b, c] + shoelace [c, d, a] = shoelace [a, b, c, d] := by
  rw [shoelace_triangle, shoelace_triangle, shoelace_quad]
  simp only [V2.det, V2.sub]; ring

/-- 3D: the Newell vectors (normal × doubled area) of the two triangles add up to the quad's —
for planar quads the triangle areas add up to the quad area and both triangles keep the
quad's normal direction when the quad is convex. -/
theorem stl_split_newell (a b c d : V3 α) :
    V3.add (newell [a, b, c]) (newell [c, d, a]) = newell [a, b, c, d] := by
  have h := newell_split [] [b] [d] a c
  have hr : newell [c, d, a] = newell [a, c, d] := by
    have := newell_rotate [c, d, a] 2
    simpa using this.symm
  simp only [List.nil_append, List.cons_append] at h
  rw [h, hr]

/-! ## Non-vacuity / sanity at ℚ -/

/-- A 2 × 1 grid at `(1, 1)` with cells `1/2 × 2`. -/
example :
    gridVertices (⟨1, 1⟩ : V2 ℚ) 2 1 (1/2) 2 =
      [⟨1, 1⟩, ⟨1, 3⟩, ⟨3/2, 1⟩, ⟨3/2, 3⟩, ⟨2, 1⟩, ⟨2, 3⟩] ∧
    gridFaces 2 1 = [[0, 2, 3, 1], [2, 4, 5, 3]] ∧
    gridCentroids (⟨1, 1⟩ : V2 ℚ) 2 1 (1/2) 2 = [⟨5/4, 2⟩, ⟨7/4, 2⟩] := by
  decide +kernel

/-- Extent 7/2, requested size 1: 3 cells of size 7/6 (not 1): the cell area to cache is the
adjusted one. -/
example : domainDimensions (7/2 : ℚ) 1 = (7/6, 3) ∧ domainDimensions (1/2 : ℚ) 1 = (1/2, 1) := by
  decide +kernel

/-- Removing vertex 3 of a 5-vertex mesh with a triangle and a quad: the quad goes, the
triangle is re-indexed, its colour stays with it. -/
example :
    removeVertices ["a", "b", "c", "d", "e"] [[1, 2, 3, 4], [0, 2, 4]] ["quad", "tri"]
        ([] : List String) [true, false, true, true, true] =
      (["a", "c", "d", "e"], [[0, 1, 3]], ["tri"], [], [false, true]) := by
  decide +kernel

end Lbg.Props.C20
