/-
  C19b — non-vacuity of the standing hypotheses over ℝ.

  `Props/C19b.lean` assumes `Env M pl` (a valid plane, the `sqrt` law, the `floor` laws) and, for
  `offset_edge_parallel`, the trigonometric laws at the two half angles together with the
  rotation hypothesis `q − p = k · rot(rot(a − p, −ang), −ang)`.  The `sqrt` law cannot hold over
  ℚ; here everything is shown to hold simultaneously for the real functions (`C02.Mr`): `Env` for
  the vertical plane `y = 0`, and all hypotheses of `offset_edge_parallel` at a right-angle
  corner (`a = (0,1)`, `p = (0,0)`, `q = (1,0)`, half angle `π/4`, `k = 1`).  Only `example`s.
-/
import LbgVerif.Props.C19b
import LbgVerif.Props.C02Real

namespace Lbg.Props.C19b
open Lbg Lbg.Gen Lbg.Model Lbg.Props.C02

/-- `Env` is satisfiable: the real functions and the wall plane `y = 0` with normal `−y`. -/
example : Env Mr (⟨⟨0, -1, 0⟩, ⟨0, 0, 0⟩, 0, ⟨1, 0, 0⟩, ⟨0, 0, 1⟩⟩ : PlaneS ℝ) :=
  { valid := ⟨by simp [V3.normSq], by simp [V3.normSq], by simp [V3.dot],
      by simp [V3.cross], by simp [V3.dot]⟩
    sqrt := fun x hx => ⟨Real.mul_self_sqrt hx, Real.sqrt_nonneg x⟩
    floor_le := fun x => ⟨Int.floor_le x, Int.lt_floor_add_one x⟩
    floor_int := fun x => ⟨⌊x⌋, rfl⟩ }

/-- The hypotheses of `offset_edge_parallel` at the right-angle corner `(0,1), (0,0), (1,0)`
of a counter-clockwise loop: half angles `π/4`, `k = 1`. -/
example :
    let a : V2 ℝ := ⟨0, 1⟩
    let p : V2 ℝ := ⟨0, 0⟩
    let q : V2 ℝ := ⟨1, 0⟩
    let ang : ℝ := Real.pi / 4
    (v2Sub a p).x * (v2Sub a p).x + (v2Sub a p).y * (v2Sub a p).y ≠ 0 ∧
    (v2Sub p q).x * (v2Sub p q).x + (v2Sub p q).y * (v2Sub p q).y ≠ 0 ∧
    Mr.cos ang * Mr.cos ang + Mr.sin ang * Mr.sin ang = 1 ∧
    Mr.cos (-ang) = Mr.cos ang ∧ Mr.sin (-ang) = - Mr.sin ang ∧ Mr.sin ang ≠ 0 ∧
    v2Sub q p = V2.smul 1 (v2_rotate Mr (v2_rotate Mr (v2Sub a p) (-ang)) (-ang)) := by
  intro a p q ang
  have hc : Real.cos (Real.pi / 4) = Real.sqrt 2 / 2 := Real.cos_pi_div_four
  have hs : Real.sin (Real.pi / 4) = Real.sqrt 2 / 2 := Real.sin_pi_div_four
  have h2 : Real.sqrt 2 * Real.sqrt 2 = 2 := Real.mul_self_sqrt (by norm_num)
  have hpos : 0 < Real.sqrt 2 := Real.sqrt_pos.mpr (by norm_num)
  refine ⟨by simp [a, p, v2Sub], by simp [p, q, v2Sub], ?_, Real.cos_neg _, Real.sin_neg _, ?_, ?_⟩
  · simp only [Mr]; nlinarith [Real.sin_sq_add_cos_sq (Real.pi / 4)]
  · simp only [Mr, ang, hs]; positivity
  · simp only [Mr, ang, v2_rotate, V2.smul, v2Sub, a, p, q, Real.cos_neg, Real.sin_neg, hc, hs]
    ext <;> simp only [] <;> nlinarith
end Lbg.Props.C19b
