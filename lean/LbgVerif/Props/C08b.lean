/-
  C08b — `Face3D.is_point_on_face(point, tolerance)` (property C08, clause "likewise …
  Face3D.is_point_on_face for points in the face plane").  Subject: the LITERAL hand model
  `Model/PointOnFace.lean` on top of the generated kernels `Gen.plane_distance_to_point`,
  `Gen.plane_xyz_to_xy` and the hand model `Model/PointInside.lean`
  (`Polygon2D.is_point_inside`, plain parity test, default test vector `(1, 0.00001)`).
  `corr/weld.py` (group `point_on_face`) runs model and real code side by side.

  Proved (`sqrt (x·x) = |x|` as hypothesis — `sqrt_sq_of_law` derives it from the usual law; the plane is what `Plane.__init__` builds: unit normal,
  `k = n·o` — `C02.PlaneValid`):
    1. `plane_distance_eq`: `Plane.distance_to_point` is `|n·(p − o)|`;
       `is_point_on_face_iff`: the answer is `True` ⇔ `|n·(p − o)| ≤ tol` ∧ the parity test on the
       plane coordinates of the point; `far_points_rejected`: farther than `tol` ⇒ `False`
       (in particular every point for a negative tolerance);
       `in_plane_is_parity`: for a point exactly in the plane and `tol ≥ 0` the answer IS the
       2D parity test.
    2. Presentation: `is_point_on_face_rotate` (start vertex of the boundary, plane kept; ALL
       points) and `is_point_on_face_reverse` (orientation of `polygon2d`, e.g. the
       `enforce_right_hand` reversal of a face with holes).
    3. `is_point_on_face_flip`: for the flipped face (`Face3D.flip`: vertices reversed, plane
       flipped by the generated `Plane.flip`) the answer is the answer of the original face
       with the parity ray tilted the other way, `(1, −0.00001)` — the plane coordinates are
       mirrored but the default test vector is not.  So flipping is an invariance exactly for
       points on which the two tilted rays agree (`is_point_on_face_flip_general_position`:
       both equal the even-odd specification in general position).
    4. `is_point_on_face_eq_spec` (ℚ): tie to `Props/C08.lean` — for a point within `tol` of the
       plane whose plane coordinates are in general position with respect to the tilted ray,
       the answer equals `Spec.Contain.insideParity` of the polygon (in the sheared coordinates
       that make the test ray horizontal).

  Not proved: that crossing parity is containment (as in `Props/C08.lean`); floats;
  `Face3D.is_sub_face` / `is_centered_adjacent` are not modelled.
-/
import LbgVerif.Model.PointOnFace
import LbgVerif.Lemmas.Outward
import LbgVerif.Props.C02
import LbgVerif.Props.C08
import Mathlib.Tactic.Ring
import Mathlib.Tactic.Linarith
import Mathlib.Tactic.LinearCombination
import Mathlib.Data.List.Rotate
import Mathlib.Algebra.Order.Field.Rat

set_option linter.unusedSectionVars false
set_option linter.unusedVariables false

namespace Lbg.Props.C08b
open Lbg Lbg.Gen Lbg.Lemmas Lbg.Model.PointOnFace Lbg.Model.PointInside
  Lbg.Lemmas.PointInside
open Lbg.Model.Outward (testVector2 tenMicro)
open Lbg.Props.C02 (PlaneValid)

variable {α : Type} [Field α] [LinearOrder α] [IsStrictOrderedRing α]

/-! ## 1. Distance test and parity test -/

/-- Signed distance of `p` from the plane: `n·(p − o)`. -/
def signedDist (pl : PlaneS α) (p : V3 α) : α := V3.dot pl.n (V3.sub p pl.o)

/-- The hypothesis used below, `M.sqrt (x * x) = |x|` (the square root of a perfect square is
exact), follows from the usual `sqrt` law; it is stated in this weaker form because it is
satisfiable over ℚ as well (see the examples). -/
theorem sqrt_sq_of_law (M : MathOps α)
    (hsqrt : ∀ x, 0 ≤ x → M.sqrt x * M.sqrt x = x ∧ 0 ≤ M.sqrt x) (x : α) :
    M.sqrt (x * x) = |x| := by
  obtain ⟨h1, h2⟩ := hsqrt (x * x) (mul_self_nonneg x)
  rcases mul_self_eq_mul_self_iff.mp h1 with h | h
  · rw [h] at h2 ⊢; exact (abs_of_nonneg h2).symm
  · rw [h] at h2 ⊢; exact (abs_of_nonpos (by linarith)).symm

/-- **`Plane.distance_to_point` is `|n·(p − o)|`** for a plane with unit normal and `k = n·o`,
when square roots of perfect squares are exact. -/
theorem plane_distance_eq (M : MathOps α)
    (hsq : ∀ x : α, M.sqrt (x * x) = |x|)
    (pl : PlaneS α) (hv : PlaneValid pl) (p : V3 α) :
    plane_distance_to_point M pl p = |signedDist pl p| := by
  obtain ⟨⟨nx, ny, nz⟩, ⟨ox, oy, oz⟩, k, x, y⟩ := pl
  have hn := hv.n_unit
  have hk := hv.k_eq
  simp only [V3.normSq, V3.dot] at hn hk
  subst hk
  unfold plane_distance_to_point signedDist
  simp only [V3.dot, V3.sub]
  set sd := nx * (p.x - ox) + ny * (p.y - oy) + nz * (p.z - oz) with hsd
  have harg : ∀ a b c : α, a = nx * sd → b = ny * sd → c = nz * sd →
      a * a + b * b + c * c = sd * sd := by
    intro a b c ha hb hc
    rw [ha, hb, hc]
    linear_combination (sd * sd) * hn
  rw [harg _ _ _ (by rw [hsd]; ring) (by rw [hsd]; ring) (by rw [hsd]; ring)]
  exact hsq sd

/-- **`is_point_on_face` ⇔ distance test ∧ parity test.** -/
theorem is_point_on_face_iff (M : MathOps α)
    (hsq : ∀ x : α, M.sqrt (x * x) = |x|)
    (pl : PlaneS α) (hv : PlaneValid pl) (poly : List (V2 α)) (p : V3 α) (tol : α) :
    isPointOnFacePoly M pl poly p tol = true ↔
      |signedDist pl p| ≤ tol ∧
      isPointInside poly (plane_xyz_to_xy pl p) testVector2 = true := by
  unfold isPointOnFacePoly isPointOnFaceTV
  rw [plane_distance_eq M hsq pl hv p]
  by_cases h : tol < |signedDist pl p|
  · simp [h, not_le.mpr h]
  · simp [h, not_lt.mp h]

/-- **Points farther than `tol` from the plane are rejected** — whatever the polygon. -/
theorem far_points_rejected (M : MathOps α)
    (hsq : ∀ x : α, M.sqrt (x * x) = |x|)
    (pl : PlaneS α) (hv : PlaneValid pl) (poly : List (V2 α)) (p : V3 α) (tol : α)
    (hfar : tol < |signedDist pl p|) : isPointOnFacePoly M pl poly p tol = false := by
  cases hb : isPointOnFacePoly M pl poly p tol with
  | false => rfl
  | true =>
    have := ((is_point_on_face_iff M hsq pl hv poly p tol).mp hb).1
    exact absurd hfar (not_lt.mpr this)

/-- With a negative tolerance nothing is on the face. -/
theorem negative_tolerance_rejects (M : MathOps α)
    (hsq : ∀ x : α, M.sqrt (x * x) = |x|)
    (pl : PlaneS α) (hv : PlaneValid pl) (poly : List (V2 α)) (p : V3 α) (tol : α)
    (hneg : tol < 0) : isPointOnFacePoly M pl poly p tol = false :=
  far_points_rejected M hsq pl hv poly p tol (lt_of_lt_of_le hneg (abs_nonneg _))

/-- **Points within the tolerance**: the answer is the 2D parity test on the plane coordinates
(in particular for points exactly in the plane, `signedDist = 0`, and `tol ≥ 0`). -/
theorem in_plane_is_parity (M : MathOps α)
    (hsq : ∀ x : α, M.sqrt (x * x) = |x|)
    (pl : PlaneS α) (hv : PlaneValid pl) (poly : List (V2 α)) (p : V3 α) (tol : α)
    (hnear : |signedDist pl p| ≤ tol) :
    isPointOnFacePoly M pl poly p tol =
      isPointInside poly (plane_xyz_to_xy pl p) testVector2 := by
  rw [Bool.eq_iff_iff, is_point_on_face_iff M hsq pl hv]
  exact ⟨fun h => h.2, fun h => ⟨hnear, h⟩⟩

/-! ## 2. Presentation of the face -/

/-- **Start vertex** — for a face without holes, the answer does not depend on the vertex the
boundary starts with (plane kept), for EVERY point and tolerance.  No hypothesis. -/
theorem is_point_on_face_rotate (M : MathOps α) (pl : PlaneS α) (verts : List (V3 α)) (n : ℕ)
    (p : V3 α) (tol : α) :
    isPointOnFacePoly M pl (polygon2dNoHoles pl (verts.rotate n)) p tol =
      isPointOnFacePoly M pl (polygon2dNoHoles pl verts) p tol := by
  unfold isPointOnFacePoly isPointOnFaceTV polygon2dNoHoles
  rw [List.map_rotate, C08.is_point_inside_rotate]

/-- **Orientation of `polygon2d`** — reversing the polygon (what `enforce_right_hand` does to
the stored `polygon2d` of a clockwise face) does not change the answer.  No hypothesis. -/
theorem is_point_on_face_reverse (M : MathOps α) (pl : PlaneS α) (poly : List (V2 α))
    (p : V3 α) (tol : α) (tv : V2 α) :
    isPointOnFaceTV M pl poly.reverse p tol tv = isPointOnFaceTV M pl poly p tol tv := by
  unfold isPointOnFaceTV
  rw [C08.is_point_inside_reverse]

/-! ## 3. Flipping the face -/

/-- The default test vector tilted the other way: `(1, −0.00001)`. -/
def testVector2Neg : V2 α := ⟨1, -tenMicro⟩

/-- The mirror `(X, Y) ↦ (X, −Y)` as a linear map. -/
private theorem mirror_eq (v : V2 α) : (⟨v.x, -v.y⟩ : V2 α) = lin 1 0 0 (-1) v := by
  simp [lin]

/-- **`Face3D.flip`** — `Face3D(reversed(vertices), plane.flip(), enforce_right_hand=False)`.
For a plane built by `Plane.__init__` (`M.sqrt 1 = 1`), the answer of the flipped face is the
answer of the original face with the parity ray tilted the other way: the plane coordinates
are mirrored (`Y ↦ −Y`), the fixed test vector `(1, 0.00001)` is not. -/
theorem is_point_on_face_flip (M : MathOps α)
    (hsq : ∀ x : α, M.sqrt (x * x) = |x|)
    (pl : PlaneS α) (hv : PlaneValid pl) (verts : List (V3 α)) (p : V3 α) (tol : α) :
    isPointOnFacePoly M (plane_flip M pl) (polygon2dNoHoles (plane_flip M pl) verts.reverse) p tol =
      isPointOnFaceTV M pl (polygon2dNoHoles pl verts) p tol testVector2Neg := by
  have hs1 : M.sqrt 1 = 1 := by
    have := hsq 1
    simpa using this
  have hvf : PlaneValid (plane_flip M pl) :=
    (Lbg.Props.C02.plane_flip_valid M hs1 pl hv).2.2.2.2.1
  have hd : |signedDist (plane_flip M pl) p| = |signedDist pl p| := by
    rw [Lbg.Lemmas.Outward.plane_flip_eq M hs1 pl hv]
    unfold signedDist
    simp only [V3.dot, V3.sub, V3.neg]
    rw [← abs_neg]
    congr 1
    ring
  unfold isPointOnFacePoly isPointOnFaceTV
  rw [plane_distance_eq M hsq _ hvf, plane_distance_eq M hsq _ hv, hd]
  by_cases h : tol < |signedDist pl p|
  · simp [h]
  · simp only [h, if_false]
    rw [Lbg.Lemmas.Outward.plane_flip_eq M hs1 pl hv]
    unfold polygon2dNoHoles
    rw [List.map_reverse, C08.is_point_inside_reverse, Lbg.Lemmas.Outward.xyz_to_xy_flip]
    have hmap : verts.map (plane_xyz_to_xy ⟨V3.neg pl.n, pl.o, -pl.k, pl.x, V3.neg pl.y⟩) =
        (verts.map (plane_xyz_to_xy pl)).map (lin 1 0 0 (-1)) := by
      rw [List.map_map]
      apply List.map_congr_left
      intro v _
      rw [Lbg.Lemmas.Outward.xyz_to_xy_flip, Function.comp, mirror_eq]
    have htv : (testVector2 : V2 α) = lin 1 0 0 (-1) testVector2Neg := by
      simp [lin, testVector2, testVector2Neg]
    rw [hmap, mirror_eq, htv]
    exact C08.is_point_inside_linear 1 0 0 (-1) (by norm_num) _ _ _


/-! ## 4. Tie to the even-odd specification (`Props/C08.lean`), over ℚ -/

section spec
open Lbg.Spec.Contain

/-- The shear that makes the default test ray `(1, 0.00001)` horizontal. -/
def shear (v : Pt) : Pt := lin 1 0 (-tenMicro) 1 v

/-- The shear that makes the other tilted ray `(1, −0.00001)` horizontal. -/
def shearNeg (v : Pt) : Pt := lin 1 0 tenMicro 1 v

/-- **Even-odd specification** — for a point within `tol` of the face plane whose plane
coordinates `q` are in general position with respect to the tilted test ray (in the sheared
coordinates: no polygon vertex level with `q`, and `q` on no side), `is_point_on_face` equals the
crossing-number parity `Spec.Contain.insideParity` of the face's `polygon2d`.  (The shear is an
invertible linear map; that containment is invariant under it is geometry and, as in
`Props/C08.lean`, not proved.) -/
theorem is_point_on_face_eq_spec (M : MathOps ℚ) (hsq : ∀ x : ℚ, M.sqrt (x * x) = |x|)
    (pl : PlaneS ℚ) (hv : PlaneValid pl) (poly : List Pt) (p : V3 ℚ) (tol : ℚ)
    (hnear : |signedDist pl p| ≤ tol)
    (hlevel : ∀ v ∈ poly, (shear v).y ≠ (shear (plane_xyz_to_xy pl p)).y)
    (hb : onBoundary [poly.map shear] (shear (plane_xyz_to_xy pl p)) = false) :
    isPointOnFacePoly M pl poly p tol =
      insideParity [poly.map shear] (shear (plane_xyz_to_xy pl p)) := by
  rw [in_plane_is_parity M hsq pl hv poly p tol hnear]
  exact C08.is_point_inside_any_direction_eq_spec 1 0 (-tenMicro) 1 (by norm_num) poly _
    testVector2 1 one_pos (by simp [lin, testVector2]) hlevel hb

/-- **Flipped face in general position** — the flipped face (`Face3D.flip`) answers with the
crossing parity for the OTHER tilted ray; so for a point in general position for both rays the
face and its flip both report the even-odd parity of the polygon (in the respective sheared
coordinates). -/
theorem is_point_on_face_flip_general_position (M : MathOps ℚ)
    (hsq : ∀ x : ℚ, M.sqrt (x * x) = |x|)
    (pl : PlaneS ℚ) (hv : PlaneValid pl) (verts : List (V3 ℚ)) (p : V3 ℚ) (tol : ℚ)
    (hnear : |signedDist pl p| ≤ tol)
    (hlevel : ∀ v ∈ polygon2dNoHoles pl verts,
      (shearNeg v).y ≠ (shearNeg (plane_xyz_to_xy pl p)).y)
    (hb : onBoundary [(polygon2dNoHoles pl verts).map shearNeg]
      (shearNeg (plane_xyz_to_xy pl p)) = false) :
    isPointOnFacePoly M (plane_flip M pl) (polygon2dNoHoles (plane_flip M pl) verts.reverse) p tol =
      insideParity [(polygon2dNoHoles pl verts).map shearNeg]
        (shearNeg (plane_xyz_to_xy pl p)) := by
  rw [is_point_on_face_flip M hsq pl hv verts p tol]
  unfold isPointOnFaceTV
  rw [plane_distance_eq M hsq pl hv, if_neg (not_lt.mpr hnear)]
  exact C08.is_point_inside_any_direction_eq_spec 1 0 tenMicro 1 (by norm_num) _ _
    testVector2Neg 1 one_pos (by simp [lin, testVector2Neg]) hlevel hb

end spec

/-! ### Non-vacuity -/

section examples

open Classical in
/-- A `math` module over ℚ whose `sqrt` is exact on perfect squares (and arbitrary elsewhere). -/
noncomputable def sqOps : MathOps ℚ where
  sqrt := fun x => if h : ∃ y : ℚ, 0 ≤ y ∧ y * y = x then Classical.choose h else 0
  sin := id
  cos := id
  tan := id
  acos := id
  asin := id
  atan2 := fun a _ => a
  pi := 3
  floor := id

open Classical in
theorem sqOps_sq (x : ℚ) : sqOps.sqrt (x * x) = |x| := by
  have h : ∃ y : ℚ, 0 ≤ y ∧ y * y = x * x := ⟨|x|, abs_nonneg x, abs_mul_abs_self x⟩
  show (if h : ∃ y : ℚ, 0 ≤ y ∧ y * y = x * x then Classical.choose h else 0) = |x|
  rw [dif_pos h]
  obtain ⟨h1, h2⟩ := Classical.choose_spec h
  rcases mul_self_eq_mul_self_iff.mp h2 with e | e
  · rw [e] at h1 ⊢; exact (abs_of_nonneg h1).symm
  · rw [e] at h1 ⊢; exact (abs_of_nonpos (by linarith)).symm

/-- The plane `z = 2` with the world axes. -/
def plZ2 : PlaneS ℚ := ⟨⟨0, 0, 1⟩, ⟨0, 0, 2⟩, 2, ⟨1, 0, 0⟩, ⟨0, 1, 0⟩⟩

/-- A 4 × 4 square in that plane. -/
def sqVerts : List (V3 ℚ) := [⟨0, 0, 2⟩, ⟨4, 0, 2⟩, ⟨4, 4, 2⟩, ⟨0, 4, 2⟩]

example : PlaneValid plZ2 := by
  constructor <;> simp [plZ2, V3.normSq, V3.dot, V3.cross]

/-- The hypotheses of `is_point_on_face_eq_spec` and of
`is_point_on_face_flip_general_position` hold for the centre of the square lifted by `1/200`
(`tol = 1/100`); the specification says "inside" in both sheared frames; a point outside the
square gives "outside"; a point `1/50` above the plane is farther than `tol`. -/
example :
    let poly := polygon2dNoHoles plZ2 sqVerts
    let p : V3 ℚ := ⟨2, 2, 2 + 1 / 200⟩
    let q := plane_xyz_to_xy plZ2 p
    |signedDist plZ2 p| ≤ 1 / 100 ∧
    (∀ v ∈ poly, (shear v).y ≠ (shear q).y) ∧
    Spec.Contain.onBoundary [poly.map shear] (shear q) = false ∧
    (∀ v ∈ poly, (shearNeg v).y ≠ (shearNeg q).y) ∧
    Spec.Contain.onBoundary [poly.map shearNeg] (shearNeg q) = false ∧
    Spec.Contain.insideParity [poly.map shear] (shear q) = true ∧
    Spec.Contain.insideParity [poly.map shearNeg] (shearNeg q) = true ∧
    Spec.Contain.insideParity [poly.map shear]
      (shear (plane_xyz_to_xy plZ2 ⟨5, 2, 2⟩)) = false ∧
    (1 : ℚ) / 100 < |signedDist plZ2 ⟨2, 2, 2 + 1 / 50⟩| := by
  decide +kernel

/-- Hence, by the theorems: on, not on, rejected. -/
example :
    isPointOnFacePoly sqOps plZ2 (polygon2dNoHoles plZ2 sqVerts) ⟨2, 2, 2 + 1 / 200⟩ (1 / 100)
      = true ∧
    isPointOnFacePoly sqOps plZ2 (polygon2dNoHoles plZ2 sqVerts) ⟨2, 2, 2 + 1 / 50⟩ (1 / 100)
      = false := by
  have hv : PlaneValid plZ2 := by
    constructor <;> simp [plZ2, V3.normSq, V3.dot, V3.cross]
  constructor
  · rw [is_point_on_face_eq_spec sqOps sqOps_sq plZ2 hv _ _ _ (by decide +kernel)
      (by decide +kernel) (by decide +kernel)]
    decide +kernel
  · exact far_points_rejected sqOps sqOps_sq plZ2 hv _ _ _ (by decide +kernel)

end examples

end Lbg.Props.C08b
