/-
  C13g — serialisation round trips, copies and equality of the vertex-list classes: the GENERATED
  definitions of `Polygon2D` / `Polyline2D` / `Polyline3D` / `Base2DIn2D` / `Base2DIn3D`
  `__init__`, `to_array`, `from_array`, `to_dict ∘ from_dict`, `__copy__`, `duplicate`, `__eq__`,
  `__ne__` (`Gen/PolyMore.lean`, `Gen/Polyline.lean`, `Gen/Base2D.lean`, `Gen/Cache.lean`) and the
  `__ne__` kernels of `Gen/Auto2.lean`, tied to the literal hand model `Model/SerialComposite.lean`
  (about which `Props/C13b` proves the round-trip and equality laws).

  The generated kernels work on the vertex list, lists of number tuples and `Option` (`none` =
  the constructor's `AssertionError`); the hand model on a JSON-like value type `DV` and Python
  results `R`.  `tup2DV`, `tup3DV`, `optR` (`Lemmas/GenTiesC07`) are the encodings.

  Ties (generated kernel — hand function):
    * `polygon2d_init`, `base2d2_init` — `polygonInit`; `polyline2_init` — `polyline2Init`;
      `polyline3_init`, `base2d3_init` — `polyline3Init`;
    * `polygon2d_to_array` — `polygonToArray`; `polyline2_to_array` — `polyline2ToArray`;
      `polyline3_to_array` — `polyline3ToArray`;
    * `polygon2d_from_array` — `polygonFromArray`; `polyline2_from_array` — `polyline2FromArray`;
      `polyline3_from_array` — `polyline3FromArray`;
    * `polygon2d_dict_roundtrip` — `polygonFromDict ∘ polygonToDict`; `polygon2d_array_roundtrip`
      — `polygonFromArray ∘ polygonToArray`; likewise `polyline2_dict_roundtrip`,
      `polyline3_dict_roundtrip`, `polyline2_array_roundtrip`;
    * `base2d2_copy/duplicate`, `polygon2d_copy` — `polygonCopy`; `polyline2_copy` —
      `polyline2Copy`; `polyline3_copy`, `base2d3_copy/duplicate` — `polyline3Copy`;
    * `polygon2d_eq`, `base2d2_eq/ne` — `compEq` on polygons; `base2d3_eq/ne` — `compEq` on
      `Polyline3D` with equal flags; `plane_eq/ne` — `planeKeyItem`;
    * `polyline3_to_polyline2d` — `PolylineCache.toPolyline2d`.
  Facts about generated kernels without a hand counterpart: `polyline2_from_polygon` /
  `polyline2_to_polygon` / `polyline2_is_closed` round trip, `polygon2d_is_equivalent` is reflexive
  and implied by `==`, `*_ne = ! *_eq`.
-/
import LbgVerif.Gen.PolyMore
import LbgVerif.Gen.Polyline
import LbgVerif.Gen.Base2D
import LbgVerif.Gen.Cache
import LbgVerif.Gen.Auto2
import LbgVerif.Gen.Serial
import LbgVerif.Model.SerialComposite
import LbgVerif.Model.PolylineCache
import LbgVerif.Lemmas.SerialComposite
import LbgVerif.Lemmas.Serial
import LbgVerif.Lemmas.GenTiesC07
import LbgVerif.Props.C13b
import Mathlib.Tactic.SplitIfs
import Mathlib.Tactic.Linarith
import Mathlib.Algebra.Order.Field.Rat

set_option linter.unusedSectionVars false

namespace Lbg.Props.C13g
open Lbg Lbg.Gen Lbg.Lemmas Lbg.Lemmas.SerialComposite Lbg.Lemmas.GenTiesC07
open Lbg.Model Lbg.Model.SerialComposite
variable {α : Type} [Field α] [LinearOrder α] [IsStrictOrderedRing α]

/-! ### Constructors: the length guard -/

/-- TIE: generated `Polygon2D.__init__` (vertices of the constructed object) = hand model
`polygonInit`; `none` is the `AssertionError` of `_check_vertices_input`. -/
theorem polygon2d_init_eq_model (vs : List (V2 α)) :
    polygonInit vs = optR ((polygon2d_init vs).map (fun c => (⟨c.vertices⟩ : Polygon2DS α))) := by
  unfold polygonInit polygon2d_init optR
  split_ifs with h1 h2 h2
  · rfl
  · exact absurd h1 (by omega)
  · exact absurd h2 (by omega)
  · rfl

/-- TIE: generated `Base2DIn2D.__init__` = hand model `polygonInit` (the base-class constructor
`Polygon2D` runs). -/
theorem base2d2_init_eq_model (vs : List (V2 α)) :
    polygonInit vs = optR ((base2d2_init vs).map Polygon2DS.mk) := by
  unfold polygonInit base2d2_init optR
  split_ifs with h1 h2 h2
  · rfl
  · exact absurd h1 (by omega)
  · exact absurd h2 (by omega)
  · rfl

/-- TIE: generated `Polyline2D.__init__` = hand model `polyline2Init` (flag stored as passed). -/
theorem polyline2_init_eq_model (vs : List (V2 α)) (interp : Bool) :
    polyline2Init vs (some interp) =
      optR ((polyline2_init vs interp).map (fun l => (⟨l, some interp⟩ : Polyline2DS α))) := by
  unfold polyline2Init polyline2_init optR
  split_ifs with h1 h2 h2
  · rfl
  · exact absurd h1 (by omega)
  · exact absurd h2 (by omega)
  · rfl

/-- TIE: generated `Polyline3D.__init__` = hand model `polyline3Init`. -/
theorem polyline3_init_eq_model (vs : List (V3 α)) (interp : Bool) :
    polyline3Init vs (some interp) =
      optR ((polyline3_init vs interp).map (fun l => (⟨l, some interp⟩ : Polyline3DS α))) := by
  unfold polyline3Init polyline3_init optR
  split_ifs with h1 h2 h2
  · rfl
  · exact absurd h1 (by omega)
  · exact absurd h2 (by omega)
  · rfl

/-- TIE: generated `Base2DIn3D.__init__` = the guard of the hand model `polyline3Init` (and of
`polyfaceInit`: the same `_check_vertices_input`). -/
theorem base2d3_init_eq_model (vs : List (V3 α)) (interp : Option Bool) :
    polyline3Init vs interp =
      optR ((base2d3_init vs).map (fun l => (⟨l, interp⟩ : Polyline3DS α))) := by
  unfold polyline3Init base2d3_init optR
  split_ifs with h1 h2 h2
  · rfl
  · exact absurd h1 (by omega)
  · exact absurd h2 (by omega)
  · rfl

/-! ### `to_array` / `from_array` -/

/-- TIE: generated `Polygon2D.to_array` = hand model `polygonToArray` (tuples encoded as `DV`). -/
theorem polygon2d_to_array_eq_model (vs : List (V2 α)) :
    polygonToArray (⟨vs⟩ : Polygon2DS α) = .list ((polygon2d_to_array vs).map tup2DV) := by
  unfold polygonToArray polygon2d_to_array
  simp only [List.map_map]
  rfl

/-- TIE: generated `Polyline2D.to_array` = hand model `polyline2ToArray`. -/
theorem polyline2_to_array_eq_model (vs : List (V2 α)) (interp : Bool) (fl : Option Bool) :
    polyline2ToArray (⟨vs, fl⟩ : Polyline2DS α) =
      .list ((polyline2_to_array vs interp).map tup2DV) := by
  unfold polyline2ToArray polyline2_to_array
  simp only [List.map_map]
  rfl

/-- TIE: generated `Polyline3D.to_array` = hand model `polyline3ToArray`. -/
theorem polyline3_to_array_eq_model (vs : List (V3 α)) (interp : Bool) (fl : Option Bool) :
    polyline3ToArray (⟨vs, fl⟩ : Polyline3DS α) =
      .list ((polyline3_to_array vs interp).map tup3DV) := by
  unfold polyline3ToArray polyline3_to_array
  simp only [List.map_map]
  rfl

/-- TIE: generated `Polygon2D.from_array` = hand model `polygonFromArray` on an encoded array of
number pairs. -/
theorem polygon2d_from_array_eq_model (arr : List (α × α)) :
    polygonFromArray (.list (arr.map tup2DV)) =
      optR ((polygon2d_from_array arr).map Polygon2DS.mk) := by
  simp only [polygonFromArray, DV.asList, mapR_pt2OfStar_tup, bind, Except.bind]
  unfold polygonInit polygon2d_from_array optR
  simp only []
  split_ifs with h1 h2 h2
  · rfl
  · exact absurd h1 (by omega)
  · exact absurd h2 (by omega)
  · rfl

/-- TIE: generated `Polyline2D.from_array` = hand model `polyline2FromArray` (the array carries no
flag: `interpolated = False`). -/
theorem polyline2_from_array_eq_model (arr : List (α × α)) :
    polyline2FromArray (.list (arr.map tup2DV)) =
      optR ((polyline2_from_array arr).map (fun l => (⟨l, some false⟩ : Polyline2DS α))) := by
  simp only [polyline2FromArray, DV.asList, mapR_pt2OfStar_tup, bind, Except.bind]
  unfold polyline2Init polyline2_from_array optR
  simp only []
  split_ifs with h1 h2 h2
  · rfl
  · exact absurd h1 (by omega)
  · exact absurd h2 (by omega)
  · rfl

/-- TIE: generated `Polyline3D.from_array` = hand model `polyline3FromArray`. -/
theorem polyline3_from_array_eq_model (arr : List (α × α × α)) :
    polyline3FromArray (.list (arr.map tup3DV)) =
      optR ((polyline3_from_array arr).map (fun l => (⟨l, some false⟩ : Polyline3DS α))) := by
  simp only [polyline3FromArray, DV.asList, mapR_pt3OfStar_tup, bind, Except.bind]
  unfold polyline3Init polyline3_from_array optR
  simp only []
  split_ifs with h1 h2 h2
  · rfl
  · exact absurd h1 (by omega)
  · exact absurd h2 (by omega)
  · rfl

/-! ### Round trips -/

/-- The generated `from_dict(to_dict())` of a polygon returns the vertex list unchanged. -/
theorem polygon2d_dict_roundtrip_id (vs : List (V2 α)) : polygon2d_dict_roundtrip vs = vs := by
  unfold polygon2d_dict_roundtrip
  exact map_pair_roundtrip vs

/-- The generated `from_array(to_array())` of a polygon returns the vertex list unchanged. -/
theorem polygon2d_array_roundtrip_id (vs : List (V2 α)) : polygon2d_array_roundtrip vs = vs := by
  unfold polygon2d_array_roundtrip
  exact map_pair_roundtrip vs

/-- The generated `from_dict(to_dict())` of a 2D polyline returns vertices and flag unchanged. -/
theorem polyline2_dict_roundtrip_id (vs : List (V2 α)) (interp : Bool) :
    polyline2_dict_roundtrip vs interp = (vs, interp) := by
  unfold polyline2_dict_roundtrip
  cases interp <;> simp only [map_pair_roundtrip] <;> rfl

/-- The generated `from_dict(to_dict())` of a 3D polyline returns vertices and flag unchanged. -/
theorem polyline3_dict_roundtrip_id (vs : List (V3 α)) (interp : Bool) :
    polyline3_dict_roundtrip vs interp = (vs, interp) := by
  unfold polyline3_dict_roundtrip
  cases interp <;> simp only [map_triple_roundtrip] <;> rfl

/-- The generated `from_array(to_array())` of a 2D polyline returns the vertices unchanged. -/
theorem polyline2_array_roundtrip_id (vs : List (V2 α)) (interp : Bool) :
    polyline2_array_roundtrip vs interp = vs := by
  unfold polyline2_array_roundtrip
  exact map_pair_roundtrip vs

/-- TIE: generated `Polygon2D.from_dict(x.to_dict())` = the hand model's
`polygonFromDict (polygonToDict x)` (registered assumption: at least 3 vertices). -/
theorem polygon2d_dict_roundtrip_eq_model (vs : List (V2 α)) (h : 3 ≤ vs.length) :
    polygonFromDict (polygonToDict ⟨vs⟩) = .ok ⟨polygon2d_dict_roundtrip vs⟩ := by
  rw [polygon2d_dict_roundtrip_id]
  exact C13b.polygon_dict_roundtrip ⟨vs⟩ h

/-- TIE: generated `Polygon2D.from_array(x.to_array())` = the hand model's
`polygonFromArray (polygonToArray x)`. -/
theorem polygon2d_array_roundtrip_eq_model (vs : List (V2 α)) (h : 3 ≤ vs.length) :
    polygonFromArray (polygonToArray ⟨vs⟩) = .ok ⟨polygon2d_array_roundtrip vs⟩ := by
  rw [polygon2d_array_roundtrip_id]
  exact C13b.polygon_array_roundtrip ⟨vs⟩ h

/-- TIE: generated `Polyline2D.from_dict(x.to_dict())` = the hand model's
`polyline2FromDict (polyline2ToDict x)` for a Boolean flag. -/
theorem polyline2_dict_roundtrip_eq_model (vs : List (V2 α)) (interp : Bool) (h : 3 ≤ vs.length) :
    polyline2FromDict (polyline2ToDict ⟨vs, some interp⟩) =
      .ok ⟨(polyline2_dict_roundtrip vs interp).1, some (polyline2_dict_roundtrip vs interp).2⟩ := by
  rw [polyline2_dict_roundtrip_id]
  exact C13b.polyline2_dict_roundtrip ⟨vs, some interp⟩ h (by simp)

/-- TIE: generated `Polyline3D.from_dict(x.to_dict())` = the hand model's
`polyline3FromDict (polyline3ToDict x)` for a Boolean flag. -/
theorem polyline3_dict_roundtrip_eq_model (vs : List (V3 α)) (interp : Bool) (h : 3 ≤ vs.length) :
    polyline3FromDict (polyline3ToDict ⟨vs, some interp⟩) =
      .ok ⟨(polyline3_dict_roundtrip vs interp).1, some (polyline3_dict_roundtrip vs interp).2⟩ := by
  rw [polyline3_dict_roundtrip_id]
  exact C13b.polyline3_dict_roundtrip ⟨vs, some interp⟩ h (by simp)

/-- TIE: generated `Polyline2D.from_array(x.to_array())` = the hand model's
`polyline2FromArray (polyline2ToArray x)`: same vertices, flag reset to `False`. -/
theorem polyline2_array_roundtrip_eq_model (vs : List (V2 α)) (interp : Bool) (fl : Option Bool)
    (h : 3 ≤ vs.length) :
    polyline2FromArray (polyline2ToArray ⟨vs, fl⟩) =
      .ok ⟨polyline2_array_roundtrip vs interp, some false⟩ := by
  rw [polyline2_array_roundtrip_id]
  exact C13b.polyline2_array_roundtrip ⟨vs, fl⟩ h

/-- The generated round trip factors through the generated `to_array` / `from_array`
(`from_array (to_array vs) = some vs` under the registered assumption). -/
theorem polygon2d_from_array_to_array (vs : List (V2 α)) (h : 3 ≤ vs.length) :
    polygon2d_from_array (polygon2d_to_array vs) = some (polygon2d_array_roundtrip vs) := by
  unfold polygon2d_from_array polygon2d_to_array polygon2d_array_roundtrip
  simp only []
  rw [if_neg]
  simp only [List.length_map]
  omega

/-! ### Copies -/

/-- TIE: generated `Base2DIn2D.__copy__` / `.duplicate` = hand model `polygonCopy`
(registered assumption: at least 3 vertices). -/
theorem base2d2_copy_eq_model (vs : List (V2 α)) (h : 3 ≤ vs.length) :
    polygonCopy ⟨vs⟩ = .ok ⟨base2d2_copy vs⟩ ∧ polygonCopy ⟨vs⟩ = .ok ⟨base2d2_duplicate vs⟩ :=
  ⟨(C13b.polygon_copy ⟨vs⟩ h).1, (C13b.polygon_copy ⟨vs⟩ h).1⟩

/-- TIE: generated `Polygon2D.__copy__` (memo-slot machine of `Gen/Cache.lean`) keeps the
vertices, as the hand model `polygonCopy`. -/
theorem polygon2d_copy_eq_model (s : Poly2C α) (h : 3 ≤ s.vertices.length) :
    polygonCopy ⟨s.vertices⟩ = .ok ⟨(polygon2d_copy s).vertices⟩ :=
  (C13b.polygon_copy ⟨s.vertices⟩ h).1

/-- TIE: generated `Polyline2D.__copy__` = hand model `polyline2Copy`. -/
theorem polyline2_copy_eq_model (vs : List (V2 α)) (interp : Bool) (h : 3 ≤ vs.length) :
    polyline2Copy ⟨vs, some interp⟩ = .ok ⟨polyline2_copy vs interp, some interp⟩ :=
  (C13b.polyline2_copy ⟨vs, some interp⟩ h).1

/-- TIE: generated `Polyline3D.__copy__`, `Base2DIn3D.__copy__` / `.duplicate` = hand model
`polyline3Copy`. -/
theorem polyline3_copy_eq_model (vs : List (V3 α)) (interp : Bool) (h : 3 ≤ vs.length) :
    polyline3Copy ⟨vs, some interp⟩ = .ok ⟨polyline3_copy vs interp, some interp⟩ ∧
    polyline3Copy ⟨vs, some interp⟩ = .ok ⟨base2d3_copy vs, some interp⟩ ∧
    polyline3Copy ⟨vs, some interp⟩ = .ok ⟨base2d3_duplicate vs, some interp⟩ :=
  ⟨(C13b.polyline3_copy ⟨vs, some interp⟩ h).1, (C13b.polyline3_copy ⟨vs, some interp⟩ h).1,
    (C13b.polyline3_copy ⟨vs, some interp⟩ h).1⟩

/-! ### Equality -/

/-- TIE: generated `Polygon2D.__eq__` = hand model `compEq` on two polygons (key comparison). -/
theorem polygon2d_eq_eq_model (vs ws : List (V2 α)) :
    polygon2d_eq vs ws = compEq (.polygon2d ⟨vs⟩) (.polygon2d ⟨ws⟩) := by
  rw [Bool.eq_iff_iff, C13b.polygon_eq_iff]
  unfold polygon2d_eq
  simp only [decide_eq_true_eq]

/-- TIE: generated `Base2DIn2D.__eq__` = hand model `compEq` on two polygons. -/
theorem base2d2_eq_eq_model (vs ws : List (V2 α)) :
    base2d2_eq vs ws = compEq (.polygon2d ⟨vs⟩) (.polygon2d ⟨ws⟩) := by
  rw [← polygon2d_eq_eq_model]; rfl

/-- TIE: generated `Base2DIn2D.__ne__` = negation of the hand model's `compEq`. -/
theorem base2d2_ne_eq_model (vs ws : List (V2 α)) :
    base2d2_ne vs ws = !compEq (.polygon2d ⟨vs⟩) (.polygon2d ⟨ws⟩) := by
  rw [← base2d2_eq_eq_model]
  unfold base2d2_ne base2d2_eq
  by_cases h : vs = ws <;> simp [h]

/-- TIE: generated `Base2DIn3D.__eq__` = hand model `compEq` on two `Polyline3D` with the same
`interpolated` flag (the subclass key appends the flag to the vertex tuple). -/
theorem base2d3_eq_eq_model (vs ws : List (V3 α)) (fl : Option Bool) :
    base2d3_eq vs ws = compEq (.polyline3d ⟨vs, fl⟩) (.polyline3d ⟨ws, fl⟩) := by
  rw [Bool.eq_iff_iff, C13b.polyline3_eq_iff]
  unfold base2d3_eq
  simp only [decide_eq_true_eq, and_true]

/-- TIE: generated `Base2DIn3D.__ne__` = negation of the hand model's `compEq`. -/
theorem base2d3_ne_eq_model (vs ws : List (V3 α)) (fl : Option Bool) :
    base2d3_ne vs ws = !compEq (.polyline3d ⟨vs, fl⟩) (.polyline3d ⟨ws, fl⟩) := by
  rw [← base2d3_eq_eq_model]
  unfold base2d3_ne base2d3_eq
  by_cases h : vs = ws <;> simp [h]

/-- TIE: generated `Plane.__eq__` = equality of the hand model's key item `planeKeyItem`
(`Plane.__key` = `(n, o, x)`), and generated `Plane.__ne__` is its negation. -/
theorem plane_eq_eq_model (x y : PlaneS α) :
    plane_eq x y = decide (planeKeyItem x = planeKeyItem y) ∧ plane_ne x y = !plane_eq x y := by
  constructor
  · rw [Bool.eq_iff_iff]
    unfold plane_eq planeKeyItem
    simp only [decide_eq_true_eq, KItem.plane.injEq, Serial.v3_ext_iff]
    tauto
  · unfold plane_ne plane_eq
    simp only [decide_not]

/-- Generated `Vector2D.__ne__`, `Vector3D.__ne__`, `Sphere.__ne__`, `Cone.__ne__`,
`Cylinder.__ne__` (`Gen/Auto2.lean`) are the negations of the generated `__eq__`
(`Gen/Serial.lean`), as `__ne__` is written `not self.__eq__(other)`. -/
theorem ne_eq_not_eq (a b : V2 α) (a3 b3 : V3 α) (s t : SphereS α) (c d : ConeS α)
    (e f : CylS α) :
    v2_ne a b = !v2_eq a b ∧ v3_ne a3 b3 = !v3_eq a3 b3 ∧ sphere_ne s t = !sphere_eq s t ∧
    cone_ne c d = !cone_eq c d ∧ cyl_ne e f = !cyl_eq e f := by
  refine ⟨?_, ?_, ?_, ?_, ?_⟩
  · unfold v2_ne v2_eq; simp only [decide_not]
  · unfold v3_ne v3_eq; simp only [decide_not]
  · unfold sphere_ne sphere_eq; simp only [decide_not]
  · unfold cone_ne cone_eq; simp only [decide_not]
  · unfold cyl_ne cyl_eq; simp only [decide_not]

/-! ### Conversions between the classes -/

/-- TIE: generated `Polyline3D.to_polyline2d` = the vertices of the hand model
`PolylineCache.toPolyline2d` of a fresh polyline (drop `z`). -/
theorem polyline3_to_polyline2d_eq_model (vs : List (V3 α)) (interp : Bool) :
    polyline3_to_polyline2d vs interp =
      (PolylineCache.toPolyline2d (PolylineCache.fresh3 vs interp)).vertices := rfl

/-- Generated `Polyline2D.from_polygon` closes the loop: the result is closed for every
non-negative tolerance (generated `is_closed`). -/
theorem polyline2_from_polygon_is_closed (vs : List (V2 α)) (h : vs ≠ []) (interp : Bool)
    (tol : α) (ht : 0 ≤ tol) :
    polyline2_is_closed (polyline2_from_polygon vs) interp tol = true := by
  obtain ⟨v0, rest, rfl⟩ := List.exists_cons_of_ne_nil h
  unfold polyline2_is_closed polyline2_from_polygon
  simp only [List.headD_cons, List.cons_append, List.getLastD_cons, List.getLastD_concat,
    decide_eq_true_eq]
  rcases rest with _ | ⟨r, rs⟩ <;>
    simp [not_lt, ht]

/-- Round trip `Polygon2D → Polyline2D → Polygon2D` on the generated kernels:
`to_polygon(from_polygon(polygon), tol)` returns the polygon's vertices (registered assumption:
at least 3 vertices; `tol ≥ 0`). -/
theorem polyline2_to_polygon_from_polygon (vs : List (V2 α)) (h : 3 ≤ vs.length) (interp : Bool)
    (tol : α) (ht : 0 ≤ tol) :
    polyline2_to_polygon (polyline2_from_polygon vs) interp tol = some vs := by
  have hne : vs ≠ [] := by intro e; rw [e] at h; simp at h
  have hc := polyline2_from_polygon_is_closed vs hne interp tol ht
  unfold polyline2_is_closed at hc
  simp only [decide_eq_true_eq] at hc
  unfold polyline2_to_polygon
  simp only []
  rw [if_neg hc.1, if_neg hc.2]
  unfold polyline2_from_polygon
  simp only [List.dropLast_concat]
  rw [if_neg (by omega)]

/-- Generated `Polyline2D.to_polygon` on a polyline that is NOT closed (generated `is_closed`)
keeps every vertex. -/
theorem polyline2_to_polygon_open (vs : List (V2 α)) (h : 3 ≤ vs.length) (interp : Bool) (tol : α)
    (ho : polyline2_is_closed vs interp tol = false) :
    polyline2_to_polygon vs interp tol = some vs := by
  unfold polyline2_is_closed at ho
  simp only [decide_eq_false_iff_not, not_and_or, not_not] at ho
  unfold polyline2_to_polygon
  simp only []
  split_ifs with h1 h2 h3 h4 h5
  · exact absurd h2 (by omega)
  · rfl
  · exact absurd h4 (by omega)
  · rfl
  · rcases ho with ho | ho
    · exact absurd ho h1
    · exact absurd ho h3
  · rcases ho with ho | ho
    · exact absurd ho h1
    · exact absurd ho h3

/-! ### `is_equivalent` -/

/-- Generated `Polygon2D.is_equivalent`: polygons with different vertex counts are never
equivalent. -/
theorem polygon2d_is_equivalent_length (vs ws : List (V2 α)) (tol : α)
    (h : vs.length ≠ ws.length) : polygon2d_is_equivalent vs ws tol = false := by
  unfold polygon2d_is_equivalent
  rw [if_neg (by omega)]

/-- Generated `Polygon2D.is_equivalent` is reflexive for every non-negative tolerance. -/
theorem polygon2d_is_equivalent_refl (vs : List (V2 α)) (tol : α) (ht : 0 ≤ tol) :
    polygon2d_is_equivalent vs vs tol = true := by
  unfold polygon2d_is_equivalent
  simp only [if_true, sub_self, abs_zero, not_lt.mpr ht, if_false]
  apply foldl_and_true (fun q : V2 α × V2 α =>
    ¬ tol < |q.1.x - q.2.x| ∧ ¬ tol < |q.1.y - q.2.y|)
  intro q hq
  have e := mem_zip_self _ q hq
  rw [e]
  simp only [sub_self, abs_zero, not_lt.mpr ht, not_false_eq_true, and_self]

/-- `==` of the hand model implies the generated `is_equivalent` for every non-negative
tolerance (`__eq__` is the exact, `is_equivalent` the tolerant comparison). -/
theorem compEq_imp_is_equivalent (vs ws : List (V2 α)) (tol : α) (ht : 0 ≤ tol)
    (h : compEq (.polygon2d ⟨vs⟩) (.polygon2d ⟨ws⟩) = true) :
    polygon2d_is_equivalent vs ws tol = true := by
  rw [C13b.polygon_eq_iff] at h
  simp only at h
  rw [h]
  exact polygon2d_is_equivalent_refl ws tol ht

/-! ### Corollaries: theorems of `Props/C13b` transported to the generated definitions -/

/-- The generated `Polygon2D.__eq__` is an equivalence relation and holds exactly for identical
vertex lists (from `C13b.compEq_refl/symm/trans`, `C13b.polygon_eq_iff`). -/
theorem polygon2d_eq_equivalence (us vs ws : List (V2 α)) :
    polygon2d_eq vs vs = true ∧ polygon2d_eq vs ws = polygon2d_eq ws vs ∧
    (polygon2d_eq us vs = true → polygon2d_eq vs ws = true → polygon2d_eq us ws = true) ∧
    (polygon2d_eq vs ws = true ↔ vs = ws) := by
  simp only [polygon2d_eq_eq_model]
  exact ⟨C13b.compEq_refl _, C13b.compEq_symm _ _, C13b.compEq_trans _ _ _,
    C13b.polygon_eq_iff ⟨vs⟩ ⟨ws⟩⟩

/-- A polygon read back from its dictionary compares equal (generated `__eq__`) to the original
— the hand model's round trip delivers the generated round-trip vertices. -/
theorem polygon2d_dict_roundtrip_eq (vs : List (V2 α)) (h : 3 ≤ vs.length) :
    ∃ y : Polygon2DS α, polygonFromDict (polygonToDict ⟨vs⟩) = .ok y ∧
      polygon2d_eq y.vertices vs = true := by
  refine ⟨⟨polygon2d_dict_roundtrip vs⟩, polygon2d_dict_roundtrip_eq_model vs h, ?_⟩
  rw [polygon2d_dict_roundtrip_id]
  exact (polygon2d_eq_equivalence vs vs vs).1

/-- With fewer than 3 vertices the generated constructor returns `none` and the hand model's
dictionary round trip raises `AssertionError` (from `C13b.polygon_dict_roundtrip_guard`): the
guards coincide. -/
theorem polygon2d_init_guard (vs : List (V2 α)) (h : vs.length < 3) :
    polygon2d_init vs = none ∧ base2d2_init vs = none ∧
    polygonFromDict (polygonToDict ⟨vs⟩) = .error .AssertionError := by
  refine ⟨?_, ?_, C13b.polygon_dict_roundtrip_guard ⟨vs⟩ h⟩
  · unfold polygon2d_init; rw [if_pos (by omega)]
  · unfold base2d2_init; rw [if_pos (by omega)]

/-- The dispatcher `geometry_dict_to_object` on the dictionary of a polygon returns the polygon
with the generated round-trip vertices (from `C13b.polygon_dispatch`). -/
theorem polygon2d_dispatch_generated (F : FaceOps α) (M : MathOps α) (vs : List (V2 α))
    (h : 3 ≤ vs.length) (r : Bool) :
    dictToObject F M (polygonToDict ⟨vs⟩) r =
      .ok (some (.comp (.polygon2d ⟨polygon2d_dict_roundtrip vs⟩))) := by
  rw [polygon2d_dict_roundtrip_id]
  exact C13b.polygon_dispatch F M ⟨vs⟩ h r

/-! ### Non-vacuity (ℚ) -/

example : polygon2d_from_array ([(0, 0), (2, 0), (2, 2)] : List (ℚ × ℚ))
    = some [⟨0, 0⟩, ⟨2, 0⟩, ⟨2, 2⟩] := by decide +kernel

example : polygon2d_from_array ([(0, 0), (2, 0)] : List (ℚ × ℚ)) = none := by decide +kernel

example : polyline2_to_polygon (polyline2_from_polygon ([⟨0, 0⟩, ⟨2, 0⟩, ⟨2, 2⟩] : List (V2 ℚ)))
    false (1 / 100) = some [⟨0, 0⟩, ⟨2, 0⟩, ⟨2, 2⟩] := by decide +kernel

example : polygon2d_is_equivalent ([⟨0, 0⟩, ⟨2, 0⟩, ⟨2, 2⟩] : List (V2 ℚ))
    [⟨2, 0⟩, ⟨2, 2⟩, ⟨0, 1 / 1000⟩] (1 / 100) = true := by decide +kernel

example : base2d2_ne ([⟨0, 0⟩, ⟨2, 0⟩, ⟨2, 2⟩] : List (V2 ℚ)) [⟨2, 0⟩, ⟨2, 2⟩, ⟨0, 0⟩] = true := by
  decide +kernel

end Lbg.Props.C13g
