/-
  C04b — `_segmentChainer(segments, tol)` (model `Model/Chainer.lean`, tied to the code by the
  correspondence module `corr/polybool.py`, group `chainer`).

  The statements are about `run eqv col z segs` — the literal loop, parametrised by the two
  tolerance predicates — and are instantiated at the end for `chainer segs tol`, which plugs in
  the GENERATED `bool_is_equivalent` / `bool_collinear`.

  * §1 (no hypothesis)  every chain the code keeps between iterations has at least two points,
        so none of `chain[0]`, `chain[1]`, `chain[-1]`, `chain[-2]` can raise `IndexError`;
  * §2  under the hypothesis `ExactOn` ("`is_equivalent` restricted to the end points of the
        input segments is equality", i.e. distinct end points are at least `tol` apart in x or
        y) CONSERVATION: there are "full" point sequences, one per returned region and one per
        chain left open, such that
          – every returned region is its full loop with finitely many points dropped, each
            dropped point having passed the code's `collinear` test with its two neighbours at
            that moment (`LoopReduces`), every open chain likewise (`Reduces`);
          – the undirected edges of the full loops (closing edge included) and of the full open
            chains are, AS A MULTISET, exactly the input segments longer than the tolerance:
            every such segment is used exactly once, nothing else is used;
          – full loops have ≥ 2 points, all of them end points of input segments;
        hence every returned region is a closed walk along input segments;
  * §3  ODD DEGREE: a chain is left open iff some vertex has odd degree in the multigraph of the
        input segments; more precisely the vertices of odd degree are exactly the ends of the
        open chains (which are pairwise different points);
  * §4  ORDER: permuting the input changes at most the presentation — the edge multiset of the
        full loops and chains is the same;
  * §5  instantiation for `chainer` and non-vacuity.

  Not covered: inputs on which `is_equivalent` is not an equivalence (points closer than the
  tolerance without being equal): there the code can join two chains at a shared end point and
  silently lose the segment — see the `example` at the end.
-/
import LbgVerif.Model.Chainer
import LbgVerif.Lemmas.ChainerLen
import LbgVerif.Props.C04
import Mathlib.Algebra.Order.Field.Rat

namespace Lbg.Props.C04b
open Lbg Lbg.Gen Lbg.Model.Chainer Lbg.Lemmas.Chainer

variable {α : Type}

/-! ## Predicates used in the statements -/

/-- `p` is an end point of one of the input segments. -/
def Endpoint (segs : List (V2 α × V2 α)) (p : V2 α) : Prop :=
  ∃ seg ∈ segs, p = seg.1 ∨ p = seg.2

/-- `is_equivalent` decides equality on the end points of the input. -/
def ExactOn (eqv : V2 α → V2 α → Bool) (segs : List (V2 α × V2 α)) : Prop :=
  ∀ p q, Endpoint segs p → Endpoint segs q → (eqv p q = true ↔ p = q)

/-- The input as a multigraph: one undirected edge per segment that the code does not skip
(`pt1.is_equivalent(pt2, tol)` ⇒ `continue`). -/
abbrev inputEdges (eqv : V2 α → V2 α → Bool) (segs : List (V2 α × V2 α)) :
    Multiset (Sym2 (V2 α)) := segEdges eqv segs

/-- The edges of a list of closed loops plus a list of open paths. -/
def outputEdges (loops paths : List (List (V2 α))) : Multiset (Sym2 (V2 α)) :=
  (loops.map loopEdges).sum + (paths.map pathEdges).sum

/-- `fullLoops`, `fullPaths` certify the output of a run: region by region / chain by chain the
output is the full sequence minus dropped collinear points, and the full sequences are made of
end points of input segments. -/
structure Certifies (col : V2 α → V2 α → V2 α → Bool) (segs : List (V2 α × V2 α))
    (fullLoops fullPaths : List (List (V2 α))) (st : State α) : Prop where
  regions : List.Forall₂ (LoopReduces col) fullLoops st.regions
  chains : List.Forall₂ (Reduces col) fullPaths st.chains
  loops_len : ∀ F ∈ fullLoops, 2 ≤ F.length
  loops_pts : ∀ F ∈ fullLoops, ∀ p ∈ F, Endpoint segs p
  paths_pts : ∀ F ∈ fullPaths, ∀ p ∈ F, Endpoint segs p

section Generic
variable (eqv : V2 α → V2 α → Bool) (col : V2 α → V2 α → V2 α → Bool) (z : V2 α)

/-! ## §1  Stored chains have at least two points -/

/-- Whatever the tolerance predicates do, every chain in `chains` after any number of
iterations has at least two points: the accesses `chain[0]`, `chain[1]`, `chain[-1]`,
`chain[-2]` of `_segmentChainer` never raise `IndexError` (and the defaults of the model's
`nth` / `nthBack` are never used). -/
theorem chains_length_ge_two (segs : List (V2 α × V2 α)) :
    ∀ c ∈ (run eqv col z segs).chains, 2 ≤ c.length :=
  run_len2 segs

/-! ## §2  Conservation -/

/-- The invariant of the ghost chainer (`Lemmas/ChainerRun`: the same program carrying, next to
every chain, the full point sequence with nothing dropped) holds after the whole run; all the
statements of §2–§4 are read off from it. -/
theorem ghost_invariant {segs : List (V2 α × V2 α)} (hex : ExactOn eqv segs) :
    GInv col z (Endpoint segs) (grun eqv col z segs) (inputEdges eqv segs) :=
  grun_inv hex segs (fun seg hs => ⟨⟨seg, hs, Or.inl rfl⟩, ⟨seg, hs, Or.inr rfl⟩⟩)

/-- CONSERVATION.  If `is_equivalent` is exact on the end points, the output of
`_segmentChainer` (returned regions and chains left open) is certified by full loops / paths
whose edges are, as a multiset, exactly the input segments: each input segment (longer than the
tolerance) is used exactly once — up to its orientation (`Sym2`) and up to the dropped
collinear points (`LoopReduces` / `Reduces` inside `Certifies`). -/
theorem conservation {segs : List (V2 α × V2 α)} (hex : ExactOn eqv segs) :
    ∃ fullLoops fullPaths, Certifies col segs fullLoops fullPaths (run eqv col z segs) ∧
      outputEdges fullLoops fullPaths = inputEdges eqv segs := by
  obtain ⟨C, hl, hE, hR⟩ := ghost_invariant eqv col z hex
  have her := grun_erase eqv col z segs
  refine ⟨(grun eqv col z segs).regions.map Prod.snd,
    (grun eqv col z segs).chains.map Prod.snd, ⟨?_, ?_, ?_, ?_, ?_⟩, ?_⟩
  · rw [← her]; exact (forall₂_map_snd_fst _ _).mpr (fun x hx => (hR x hx).1)
  · rw [← her]; exact (forall₂_map_snd_fst _ _).mpr (fun x hx => (hl.ok x hx).1)
  · intro F hF
    obtain ⟨x, hx, rfl⟩ := List.mem_map.mp hF
    exact (hR x hx).2.1
  · intro F hF
    obtain ⟨x, hx, rfl⟩ := List.mem_map.mp hF
    exact (hR x hx).2.2
  · intro F hF
    obtain ⟨x, hx, rfl⟩ := List.mem_map.mp hF
    exact (hl.ok x hx).2.2
  · unfold outputEdges
    rw [← hE, ← hl.edges, add_comm]
    unfold regionEdges chainEdges
    simp [List.map_map, Function.comp_def, Multiset.map_coe, Multiset.sum_coe]

/-- Every returned region is a CLOSED LOOP BUILT FROM INPUT SEGMENTS: it comes from a full loop
(≥ 2 points) all of whose edges — consecutive points, and last → first — are input segments,
by dropping collinear points. -/
theorem region_is_closed_walk {segs : List (V2 α × V2 α)} (hex : ExactOn eqv segs)
    (R : List (V2 α)) (hR : R ∈ (run eqv col z segs).regions) :
    ∃ F, LoopReduces col F R ∧ 2 ≤ F.length ∧
      ∀ e ∈ loopEdges F, e ∈ inputEdges eqv segs := by
  obtain ⟨fullLoops, fullPaths, cert, hE⟩ := conservation eqv col z hex
  obtain ⟨F, hF, hred⟩ : ∃ F ∈ fullLoops, LoopReduces col F R :=
    forall₂_exists_left cert.regions R hR
  refine ⟨F, hred, cert.loops_len F hF, ?_⟩
  intro e he
  rw [← hE]
  unfold outputEdges
  apply Multiset.mem_add.mpr; left
  exact Multiset.mem_of_le (List.single_le_sum (fun x _ => Multiset.zero_le x) _
    (List.mem_map.mpr ⟨F, hF, rfl⟩)) he

/-- A returned region only contains end points of input segments, and no more points than
its full loop. -/
theorem region_points {segs : List (V2 α × V2 α)} (hex : ExactOn eqv segs)
    (R : List (V2 α)) (hR : R ∈ (run eqv col z segs).regions) :
    ∀ p ∈ R, Endpoint segs p := by
  obtain ⟨C, hl, hE, hRg⟩ := ghost_invariant eqv col z hex
  rw [← grun_erase eqv col z segs] at hR
  obtain ⟨x, hx, rfl⟩ := List.mem_map.mp hR
  intro p hp
  exact (hRg x hx).2.2 p ((hRg x hx).1.mem hp)

/-! ## §3  Open chains ⇔ odd-degree vertices -/

section Degree
variable [DecidableEq α]

/-- The vertices of odd degree in the input multigraph are exactly the end points of the chains
left open (first or last point of some remaining chain). -/
theorem odd_degree_iff_open_end {segs : List (V2 α × V2 α)} (hex : ExactOn eqv segs)
    (v : V2 α) :
    degree v (inputEdges eqv segs) % 2 = 1 ↔
      ∃ c ∈ (run eqv col z segs).chains, c.head? = some v ∨ c.getLast? = some v := by
  obtain ⟨C, hl, hE, hR⟩ := ghost_invariant eqv col z hex
  have hdeg : degree v (inputEdges eqv segs) % 2 =
      ((↑(grun eqv col z segs).chains : Multiset (GChain α)).bind (ends z)).count v % 2 := by
    have hE' : C + regionEdges (grun eqv col z segs).regions = segEdges eqv segs := hE
    show degree v (segEdges eqv segs) % 2 = _
    rw [← hE', degree_add, ← hl.edges]
    have h1 := degree_chainEdges_mod_two (col := col) (z := z) (P := Endpoint segs) v
      (↑(grun eqv col z segs).chains) (fun cf hcf => hl.ok cf (by simpa using hcf))
    have h2 := degree_regionEdges_even v (grun eqv col z segs).regions
    omega
  have hcnt : ((↑(grun eqv col z segs).chains : Multiset (GChain α)).bind (ends z)).count v ≤ 1 :=
    Multiset.nodup_iff_count_le_one.mp hl.nodup v
  rw [hdeg, ← grun_erase eqv col z segs]
  constructor
  · intro h
    have hpos : 0 < ((↑(grun eqv col z segs).chains : Multiset (GChain α)).bind (ends z)).count v := by
      omega
    obtain ⟨cf, hcf, hv⟩ := Multiset.mem_bind.mp (Multiset.count_pos.mp hpos)
    have hcf' : cf ∈ (grun eqv col z segs).chains := by simpa using hcf
    have ok := hl.ok cf hcf'
    refine ⟨cf.1, List.mem_map.mpr ⟨cf, hcf', rfl⟩, ?_⟩
    unfold ends at hv
    simp only [Multiset.mem_cons, Multiset.mem_singleton] at hv
    rcases hv with rfl | rfl
    · left; rw [ok.1.head?]; exact ok.head?_eq
    · right; rw [ok.1.getLast?]; exact ok.getLast?_eq
  · rintro ⟨c, hc, hv⟩
    obtain ⟨cf, hcf, rfl⟩ := List.mem_map.mp hc
    have ok := hl.ok cf hcf
    have hmem : v ∈ (↑(grun eqv col z segs).chains : Multiset (GChain α)).bind (ends z) := by
      apply Multiset.mem_bind.mpr
      refine ⟨cf, by simpa using hcf, ?_⟩
      unfold ends
      simp only [Multiset.mem_cons, Multiset.mem_singleton]
      rcases hv with hv | hv
      · left
        rw [ok.1.head?, ok.head?_eq (z := z)] at hv
        exact (Option.some.inj hv).symm
      · right
        rw [ok.1.getLast?, ok.getLast?_eq (z := z)] at hv
        exact (Option.some.inj hv).symm
    have := Multiset.count_pos.mpr hmem
    omega

/-- OPEN CHAINS ⇔ ODD DEGREE.  `_segmentChainer` ends with no chain left open (all segments
went into returned regions) iff every vertex of the input multigraph has even degree. -/
theorem no_open_chain_iff_all_even {segs : List (V2 α × V2 α)} (hex : ExactOn eqv segs) :
    (run eqv col z segs).chains = [] ↔
      ∀ v, degree v (inputEdges eqv segs) % 2 = 0 := by
  constructor
  · intro h v
    by_contra hodd
    have h1 : degree v (inputEdges eqv segs) % 2 = 1 := by omega
    obtain ⟨c, hc, _⟩ := (odd_degree_iff_open_end eqv col z hex v).mp h1
    rw [h] at hc; simp at hc
  · intro h
    by_contra hne
    obtain ⟨c, hc⟩ := List.exists_mem_of_ne_nil _ hne
    have hlen := chains_length_ge_two eqv col z segs c hc
    obtain ⟨a, b, r, rfl⟩ := exists_cons_cons c hlen
    have := (odd_degree_iff_open_end eqv col z hex a).mpr ⟨_, hc, Or.inl rfl⟩
    have := h a
    omega

omit [DecidableEq α] in
/-- The ends of the chains left open are pairwise different points: the chains pair up the
odd-degree vertices. -/
theorem open_ends_nodup {segs : List (V2 α × V2 α)} (hex : ExactOn eqv segs) :
    ((run eqv col z segs).chains.flatMap
      (fun c => [c.head?.getD z, c.getLast?.getD z])).Nodup := by
  obtain ⟨C, hl, hE, hR⟩ := ghost_invariant eqv col z hex
  rw [← grun_erase eqv col z segs]
  have hnd := hl.nodup
  have : (↑((grun eqv col z segs).erase.chains.flatMap
      (fun c => [c.head?.getD z, c.getLast?.getD z])) : Multiset (V2 α)) =
      (↑(grun eqv col z segs).chains : Multiset (GChain α)).bind (ends z) := by
    unfold GState.erase
    simp only
    have hok := hl.ok
    generalize (grun eqv col z segs).chains = l at hok
    induction l with
    | nil => simp
    | cons cf l ih =>
      have okc := hok cf (by simp)
      simp only [List.map_cons, List.flatMap_cons]
      rw [← Multiset.coe_add, ih (fun c hc => hok c (by simp [hc])), ← Multiset.cons_coe cf l,
        Multiset.cons_bind]
      congr 1
      unfold ends
      rw [okc.head_eq, okc.last_eq]
      rfl
  rw [← Multiset.coe_nodup, this]
  exact hnd

end Degree

/-! ## §4  The order of the input -/

/-- ORDER INDEPENDENCE OF THE EDGE MULTISET.  Feeding the same segments in another order (the
hypothesis `ExactOn` does not depend on the order) may change which loops come out, their start
points and orientations, but the certified edge multiset is the same. -/
theorem edges_independent_of_order {segs segs' : List (V2 α × V2 α)} (hp : segs.Perm segs')
    (hex : ExactOn eqv segs) :
    ∃ fullLoops fullPaths fullLoops' fullPaths',
      Certifies col segs fullLoops fullPaths (run eqv col z segs) ∧
      Certifies col segs' fullLoops' fullPaths' (run eqv col z segs') ∧
      outputEdges fullLoops fullPaths = outputEdges fullLoops' fullPaths' := by
  have hex' : ExactOn eqv segs' := by
    intro p q ⟨s1, h1, e1⟩ ⟨s2, h2, e2⟩
    exact hex p q ⟨s1, hp.mem_iff.mpr h1, e1⟩ ⟨s2, hp.mem_iff.mpr h2, e2⟩
  obtain ⟨L, Pth, c1, e1⟩ := conservation eqv col z hex
  obtain ⟨L', Pth', c2, e2⟩ := conservation eqv col z hex'
  exact ⟨L, Pth, L', Pth', c1, c2, by rw [e1, e2]; exact segEdges_perm hp⟩

/-- In particular the parity structure (which vertices end open chains) does not depend on the
order, and neither does "everything was closed". -/
theorem no_open_chain_independent_of_order [DecidableEq α] {segs segs' : List (V2 α × V2 α)}
    (hp : segs.Perm segs') (hex : ExactOn eqv segs) :
    (run eqv col z segs).chains = [] ↔ (run eqv col z segs').chains = [] := by
  have hex' : ExactOn eqv segs' := by
    intro p q ⟨s1, h1, e1⟩ ⟨s2, h2, e2⟩
    exact hex p q ⟨s1, hp.mem_iff.mpr h1, e1⟩ ⟨s2, hp.mem_iff.mpr h2, e2⟩
  rw [no_open_chain_iff_all_even eqv col z hex, no_open_chain_iff_all_even eqv col z hex']
  have : inputEdges eqv segs = inputEdges eqv segs' := segEdges_perm hp
  rw [this]

end Generic

/-! ## §5  `_segmentChainer` with the generated tolerance predicates -/

section Concrete
variable [Field α] [LinearOrder α] [IsStrictOrderedRing α]

/-- Distinct end points of the input differ by at least `tol` in x or in y (what
`BooleanPoint.is_equivalent` needs in order to be equality), and `tol > 0`. -/
def Separated (segs : List (V2 α × V2 α)) (tol : α) : Prop :=
  0 < tol ∧ ∀ p q, Endpoint segs p → Endpoint segs q → p ≠ q →
    tol ≤ |p.x - q.x| ∨ tol ≤ |p.y - q.y|

/-- For separated input the generated `is_equivalent` is exact on the end points. -/
theorem exactOn_of_separated {segs : List (V2 α × V2 α)} {tol : α} (h : Separated segs tol) :
    ExactOn (fun a b => bool_is_equivalent a b tol) segs := by
  intro p q hp hq
  simp only [C04.bool_is_equivalent_iff]
  constructor
  · intro ⟨hx, hy⟩
    by_contra hne
    rcases h.2 p q hp hq hne with h1 | h1
    · exact absurd hx (not_lt.mpr h1)
    · exact absurd hy (not_lt.mpr h1)
  · rintro rfl
    simp [h.1]

/-- `_segmentChainer(segments, tol)` on separated input: conservation for the returned regions
(`chainer`) and the chains left open (`chainerOpen`). -/
theorem chainer_conservation {segs : List (V2 α × V2 α)} {tol : α} (h : Separated segs tol) :
    ∃ fullLoops fullPaths,
      List.Forall₂ (LoopReduces fun a b c => bool_collinear a b c tol) fullLoops
        (chainer segs tol) ∧
      List.Forall₂ (Reduces fun a b c => bool_collinear a b c tol) fullPaths
        (chainerOpen segs tol) ∧
      (∀ F ∈ fullLoops, 2 ≤ F.length) ∧
      outputEdges fullLoops fullPaths =
        inputEdges (fun a b => bool_is_equivalent a b tol) segs := by
  obtain ⟨L, Pth, cert, hE⟩ := conservation (fun a b => bool_is_equivalent a b tol)
    (fun a b c => bool_collinear a b c tol) ⟨0, 0⟩ (exactOn_of_separated h)
  exact ⟨L, Pth, cert.regions, cert.chains, cert.loops_len, hE⟩

/-- `_segmentChainer` returns everything (no chain is silently dropped) iff all vertex degrees
are even — on separated input. -/
theorem chainer_complete_iff_even {segs : List (V2 α × V2 α)} {tol : α}
    (h : Separated segs tol) :
    chainerOpen segs tol = [] ↔
      ∀ v, degree v (inputEdges (fun a b => bool_is_equivalent a b tol) segs) % 2 = 0 :=
  no_open_chain_iff_all_even _ _ _ (exactOn_of_separated h)

end Concrete

/-! ## Non-vacuity and a counterexample outside the hypothesis -/

/-- The unit square given as four segments in scrambled order and orientation is separated for
`tol = 1/1000`, the chainer returns one region with the four corners, and no chain stays
open. -/
example :
    let soup : List (V2 ℚ × V2 ℚ) :=
      [(⟨0, 0⟩, ⟨1, 0⟩), (⟨1, 1⟩, ⟨0, 1⟩), (⟨1, 1⟩, ⟨1, 0⟩), (⟨0, 1⟩, ⟨0, 0⟩)]
    chainer soup (1 / 1000) = [[⟨0, 0⟩, ⟨1, 0⟩, ⟨1, 1⟩, ⟨0, 1⟩]] ∧
      chainerOpen soup (1 / 1000) = [] := by
  decide +kernel

/-- A collinear mid point is dropped: the edge `(0,0)–(2,0)` given as two halves. -/
example :
    chainer ([(⟨0, 0⟩, ⟨1, 0⟩), (⟨1, 0⟩, ⟨2, 0⟩), (⟨2, 0⟩, ⟨2, 2⟩), (⟨2, 2⟩, ⟨0, 0⟩)] :
      List (V2 ℚ × V2 ℚ)) (1 / 1000) = [[⟨0, 0⟩, ⟨2, 0⟩, ⟨2, 2⟩]] := by
  decide +kernel

/-- An odd-degree vertex: the pendant segment `(1,1)–(2,2)` stays in an open chain and is not
part of the returned triangle. -/
example :
    let soup : List (V2 ℚ × V2 ℚ) :=
      [(⟨0, 0⟩, ⟨1, 0⟩), (⟨1, 0⟩, ⟨1, 1⟩), (⟨1, 1⟩, ⟨0, 0⟩), (⟨1, 1⟩, ⟨2, 2⟩)]
    chainer soup (1 / 1000) = [[⟨0, 0⟩, ⟨1, 0⟩, ⟨1, 1⟩]] ∧
      chainerOpen soup (1 / 1000) = [[⟨1, 1⟩, ⟨2, 2⟩]] := by
  decide +kernel

/-- OUTSIDE the hypothesis (tolerance 3/10 on a lattice of pitch 1/4: `(1,0)` and `(5/4,0)` are
"equivalent" but different): three segments, all vertices of "degree" ≥ 1, and the chainer
closes a region although the input has no closed walk — conservation fails without `ExactOn`. -/
example :
    chainer ([(⟨0, 0⟩, ⟨1, 0⟩), (⟨5 / 4, 0⟩, ⟨5 / 4, 1⟩), (⟨1, 1⟩, ⟨0, 0⟩)] :
      List (V2 ℚ × V2 ℚ)) (3 / 10) ≠ [] := by
  decide +kernel

end Lbg.Props.C04b
