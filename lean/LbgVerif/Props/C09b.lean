/-
  C09b — the graph-based splitting behind `Face3D.split_with_line / split_with_lines /
  split_with_polyline` (`ladybug_geometry/network.py: DirectedGraphNetwork`), on the literal
  model `Model/Network.lean` (tied to the code by `tools/harness/corr/network.py`).

  (a) STRUCTURE, for every input, ordered field, key function and `math` operations:
      * every cycle returned by `all_min_cycles` is a closed walk along edges of the graph
        (the cycle of the final fallback is a walk, not necessarily closed);
      * the search never visits a node twice; the bookkeeping of `all_min_cycles` is per NODE:
        a node is used by at most out-degree many cycles, at most once in each
        (`node_cycle_counts` = out-degree − number of recorded cycles through the node ≥ 0);
        nothing in the code makes a directed EDGE be used at most once
        (`directed_edge_used_twice`, on the code before 0a32af8);
      * every edge of the graph of `from_shape_to_split` joins the keys of two consecutive
        vertices of the split boundary / hole loops or of the two ends of a cut piece; the loop
        vertices and the cut pieces are pieces of `_intersect_segments`, and each such piece
        starts and ends on the segment it was cut from (a sub-segment);
      * splitting a segment conserves it: one split point at parameter t gives the pieces
        t·v and (1−t)·v; in general the vectors of the pieces plus the tolerance-short gaps
        that are skipped add up to v;
      * AREA: if the cycles use every directed edge exactly once, interior edges come in
        opposite pairs and the exterior edges are those of the boundary / hole loops
        (`cleanSplit`, decidable), the signed areas of the cycles add up to
        area(boundary) − Σ area(holes).
      * an edge whose reverse is missing is a boundary / hole edge (cut pieces are always
        present in both directions).
  (b) CURRENT CODE (`fixed = true`, after the repairs 0a32af8 / 2c5e096; the names without `G`):
      `repairs_on_recorded_inputs` — the recorded inputs of `dangling-cut-end`, `wrong-region`,
      `cut-along-edge` are now split correctly and pass the certificate `cleanSplit`, so their
      area identities follow from `clean_split_conserves_area`; what the two filters guarantee
      for EVERY input about the graph handed to the cycle search (`kept_pieces_inside_face`,
      `kept_pieces_connected`, `repaired_filter_spec`, `repaired_dangling_fixpoint`) and which
      clauses of `cleanSplit` follow (`split_area_partial`).
      STILL OPEN, reproduced by the model of the current code: `hole_dropped_bridge`
      (`hole-dropped`), `not_split_key_rounding` (`not-split`, `piece-lost` in rotated planes).
  (c) HISTORY (`fixed = false`, the code before 0a32af8): kernel-checked witnesses of the
      repaired defects on their recorded inputs, each with the step that went wrong.
-/
import LbgVerif.Model.Network
import LbgVerif.Lemmas.Network
import Mathlib.Algebra.Order.Field.Rat

set_option linter.unusedSectionVars false
set_option linter.unusedVariables false

namespace Lbg.Props.C09b
open Lbg Lbg.Gen Lbg.Model.Net Lbg.Lemmas Lbg.Lemmas.Net

variable {α : Type} [Field α] [LinearOrder α] [IsStrictOrderedRing α]
variable {κ : Type} [DecidableEq κ]

/-! ## (a) Structure of the result, for every input -/

/-- Every cycle returned by `all_min_cycles` is a closed walk along directed edges of the
graph; the only exception is the cycle appended by the final fallback ("see if they are all in
the same loop"), which is a walk along edges but need not close. -/
theorem cycles_are_closed_walks (M : MathOps α) (g : Graph α κ) (c : List κ)
    (h : c ∈ allMinCycles M g) :
    IsClosedWalk g c ∨
      (IsWalk g c ∧ lastCycle g (amcLoop M g g.nodes.length (amcInit g)).remaining = some c) :=
  allMinCycles_walks M g c h

/-- Every piece handed to `merge_faces_to_holes` is the point loop of one of those cycles
(oriented counter-clockwise, collinear vertices removed). -/
theorem pieces_come_from_cycles (M : MathOps α) (g : Graph α κ) (tol : α) (p : List (V2 α))
    (h : p ∈ piecesOfGraph M g tol) : ∃ c ∈ allMinCycles M g, cycleLoop M g tol c = some p := by
  unfold piecesOfGraph at h
  rw [List.mem_filterMap] at h
  exact h

/-- `min_cycle(base, goal, ccw_only=True)` returns a walk from `base` to `goal` that visits no
node twice (apart from `goal = base` at both ends). -/
theorem min_cycle_is_simple_walk (M : MathOps α) (g : Graph α κ) (b gk : κ) (c : List κ)
    (h : minCycle M g b gk = some c) :
    IsWalk g c ∧ c.head? = some b ∧ c.getLast? = some gk ∧ c.dropLast.Nodup ∧
      (b ≠ gk → c.Nodup) :=
  ⟨(minCycle_spec M g b gk c h).1, (minCycle_spec M g b gk c h).2.1,
    (minCycle_spec M g b gk c h).2.2, (minCycle_nodup M g b gk c h).1,
    (minCycle_nodup M g b gk c h).2⟩

/-- NODE bookkeeping of `all_min_cycles` on the graph of `from_shape_to_split`: after the main
loop, `node_cycle_counts[k]` = out-degree of `k` − number of recorded cycles through `k`, it is
never negative, and no recorded cycle repeats a node.  So a node is used by at most out-degree
many cycles.  (This is all the "visited" bookkeeping there is — see `directed_edge_used_twice`.) -/
theorem node_bookkeeping (fixed : Bool) (M : MathOps α) (hash : V2 α → κ) (boundary : List (V2 α))
    (holes : List (List (V2 α))) (cuts : List (LR2 α)) (tol : α) (g : Graph α κ)
    (hg : fromShapeToSplitG fixed M hash boundary holes cuts tol = some g) (fuel : Nat) (k : κ)
    (hk : k ∈ g.nodes.map (·.key)) :
    countOf (amcLoop M g fuel (amcInit g)).counts k =
        ((g.adjOf k).length : Int) - ((amcLoop M g fuel (amcInit g)).cycles.flatten.count k : Int) ∧
    0 ≤ countOf (amcLoop M g fuel (amcInit g)).counts k ∧
    ∀ c ∈ (amcLoop M g fuel (amcInit g)).cycles, c.Nodup := by
  have hns := fromShapeToSplitG_noSelfLoop fixed M hash boundary holes cuts tol g hg
  have hkeys : (amcInit g).counts.map Prod.fst = g.nodes.map (·.key) := by
    simp [amcInit, List.map_map, Function.comp_def]
  have h2 := amcLoop_nonneg M g hns fuel (amcInit g)
    (by intro k' hk'; rw [countOf_amcInit]; exact Int.natCast_nonneg _) (by simp [amcInit])
  exact ⟨amcLoop_counts M g fuel k hk, h2.1 k (hkeys ▸ hk), h2.2⟩

/-- EDGE PROVENANCE.  Every edge of the graph of `from_shape_to_split` (as it is or repaired)
joins different keys and is
  * `hash p → hash q` for two cyclically consecutive vertices `p, q` of the split boundary
    (counter-clockwise) or of a split hole (clockwise), or
  * `hash` of one end → `hash` of the other end of a cut piece;
every split-loop vertex is the start of a piece of `_intersect_segments(boundary or hole
segments, cuts)` and every cut piece is a piece of `_intersect_segments(cuts, all segments)`:
each starts and ends ON the segment it was cut from, i.e. is a sub-segment of a boundary /
hole edge resp. of a cutting segment. -/
theorem graph_edges_provenance (fixed : Bool) (M : MathOps α) (hash : V2 α → κ)
    (boundary : List (V2 α)) (holes : List (List (V2 α))) (cuts : List (LR2 α)) (tol : α)
    (g : Graph α κ) (hg : fromShapeToSplitG fixed M hash boundary holes cuts tol = some g) :
    ∃ (b : List (V2 α)) (hs : List (List (V2 α))) (pieces : List (LR2 α)),
      polygon2d_remove_colinear_vertices M boundary tol = some b ∧
      allSome (holes.map (fun h => polygon2d_remove_colinear_vertices M h tol)) = some hs ∧
      (∀ s ∈ pieces, ∃ c ∈ cuts, OnSeg c s.p ∧ OnSeg c (seg2_p2 s)) ∧
      (∀ s ∈ intersectSegments M (polygon2d_segments b) cuts tol,
        ∃ e ∈ polygon2d_segments b, OnSeg e s.p ∧ OnSeg e (seg2_p2 s)) ∧
      (∀ h ∈ hs, ∀ s ∈ intersectSegments M (polygon2d_segments h) cuts tol,
        ∃ e ∈ polygon2d_segments h, OnSeg e s.p ∧ OnSeg e (seg2_p2 s)) ∧
      EdgesSat g (fun x y =>
        LoopEdge hash (orientedLoops
          ((intersectSegments M (polygon2d_segments b) cuts tol).map (·.p))
          (hs.map (fun h => (intersectSegments M (polygon2d_segments h) cuts tol).map (·.p))))
          x y ∨ PieceEdge hash pieces x y) := by
  obtain ⟨b, hs, pieces, h1, h2, h3, h4, _⟩ :=
    fromShapeToSplitG_edges fixed M hash boundary holes cuts tol g hg
  refine ⟨b, hs, pieces, h1, h2, ?_, ?_, ?_, h4⟩
  · intro s hs'
    exact intersectSegments_sub M cuts _ tol s (h3 s hs')
  · intro s hs'
    exact intersectSegments_sub M _ cuts tol s hs'
  · intro h _ s hs'
    exact intersectSegments_sub M _ cuts tol s hs'

/-- ONE-WAY EDGES.  Every cut piece is in the graph in BOTH directions, so an edge whose reverse
is missing joins the keys of two consecutive vertices of the split boundary or of a split hole:
the "exterior" edges the certificate `cleanSplit` looks at are boundary / hole edges. -/
theorem one_way_edges_are_loop_edges (fixed : Bool) (M : MathOps α) (hash : V2 α → κ)
    (boundary : List (V2 α)) (holes : List (List (V2 α))) (cuts : List (LR2 α)) (tol : α)
    (g : Graph α κ) (hg : fromShapeToSplitG fixed M hash boundary holes cuts tol = some g)
    (a b : κ) (hab : b ∈ g.adjOf a) (hba : a ∉ g.adjOf b) :
    ∃ (b' : List (V2 α)) (hs : List (List (V2 α))),
      polygon2d_remove_colinear_vertices M boundary tol = some b' ∧
      allSome (holes.map (fun h => polygon2d_remove_colinear_vertices M h tol)) = some hs ∧
      LoopEdge hash (orientedLoops
        ((intersectSegments M (polygon2d_segments b') cuts tol).map (·.p))
        (hs.map (fun h => (intersectSegments M (polygon2d_segments h) cuts tol).map (·.p)))) a b :=
  fromShapeToSplitG_one_way fixed M hash boundary holes cuts tol g hg a b hab hba

/-- CONSERVATION, one split point: inserting a point `q = p + t·v` of a segment splits it into
the two pieces `t·v` and `(1−t)·v` joined at `q` — for `0 ≤ t ≤ 1` both are non-negative
multiples of `v`, so the covered length is conserved. -/
theorem split_point_conserves_segment (M : MathOps α) (tol : α) (seg : LR2 α) (q : V2 α) (t : α)
    (hx : q.x = seg.p.x + t * seg.v.x) (hy : q.y = seg.p.y + t * seg.v.y) :
    ∃ a b, splitSeg M tol seg [q] = [a, b] ∧ a.p = seg.p ∧ seg2_p2 a = q ∧ b.p = q ∧
      seg2_p2 b = seg2_p2 seg ∧
      a.v = ⟨t * seg.v.x, t * seg.v.y⟩ ∧ b.v = ⟨(1 - t) * seg.v.x, (1 - t) * seg.v.y⟩ :=
  splitSeg_single M tol seg q t hx hy

/-- CONSERVATION, several split points: the chain of pieces through the (sorted) points
telescopes — the vectors of the pieces, plus the gaps the loop skips because their ends are
equivalent within the tolerance, add up to the vector of the segment. -/
theorem split_chain_conserves_vector (tol : α) (chain : List (V2 α)) (p1 : V2 α) :
    let r := chain.foldl (fun (st : V2 α × List (LR2 α)) s =>
      (s, if a_p2d_is_equivalent st.1 s tol then st.2
          else st.2 ++ [seg2_from_end_points st.1 s])) (p1, [])
    let skipped := chain.foldl (fun (st : V2 α × V2 α) s =>
      (s, if a_p2d_is_equivalent st.1 s tol then ⟨st.2.x + (s.x - st.1.x), st.2.y + (s.y - st.1.y)⟩
          else st.2)) (p1, (⟨0, 0⟩ : V2 α))
    (vecSum r.2).x + skipped.2.x = ((chain.getLast?).getD p1).x - p1.x ∧
    (vecSum r.2).y + skipped.2.y = ((chain.getLast?).getD p1).y - p1.y := by
  have h := chain_vec_sum tol chain p1 []
  simp only [] at h ⊢
  obtain ⟨h1, h2, h3⟩ := h
  rw [← h1]
  constructor
  · rw [h2]; simp [vecSum]
  · rw [h3]; simp [vecSum]

/-! ### Area conservation of a clean split -/

/-- All directed edges of the graph. -/
def edgesOf (g : Graph α κ) : List (κ × κ) :=
  g.nodes.flatMap (fun n => n.adj.map (fun b => (n.key, b)))

/-- The point of a node (origin for a missing key). -/
def ptOf (g : Graph α κ) (k : κ) : V2 α :=
  match g.find? k with
  | some n => n.pt
  | none => ⟨0, 0⟩

/-- Decidable certificate of a clean split: (1) the cycles use every directed edge of the
graph exactly once, (2) the two-way (interior) edges come in opposite pairs, (3) the one-way
(exterior) edges are exactly the edges of the given boundary / hole loops. -/
def cleanSplit (g : Graph α κ) (cycles loops : List (List κ)) : Bool :=
  let E := edgesOf g
  let Eint := E.filter (fun e => decide ((e.2, e.1) ∈ E))
  let Eext := E.filter (fun e => !(decide ((e.2, e.1) ∈ E)))
  (cycles.flatMap cyclicPairs).isPerm E && Eint.isPerm (Eint.map Prod.swap) &&
    Eext.isPerm (loops.flatMap cyclicPairs)

/-- AREA CONSERVATION OF A CLEAN SPLIT: under the certificate, the doubled signed areas of the
point loops of the cycles add up to those of the boundary / hole loops — with the boundary
counter-clockwise and the holes clockwise that is `2·(area(boundary) − Σ area(holes))`. -/
theorem clean_split_conserves_area (g : Graph α κ) (cycles loops : List (List κ))
    (h : cleanSplit g cycles loops = true) :
    (cycles.map (fun c => shoelace (c.map (ptOf g)))).sum =
      (loops.map (fun l => shoelace (l.map (ptOf g)))).sum := by
  unfold cleanSplit at h
  simp only [Bool.and_eq_true, List.isPerm_iff] at h
  obtain ⟨⟨h1, h2⟩, h3⟩ := h
  apply area_of_clean_split (ptOf g) cycles loops _ _ _ h2 h3
  refine h1.trans ?_
  have := List.filter_append_perm (fun e => decide ((e.2, e.1) ∈ edgesOf g)) (edgesOf g)
  refine this.symm.trans ?_
  refine List.perm_append_comm.trans ?_
  apply List.Perm.append_right
  apply List.Perm.of_eq
  apply List.filter_congr
  intro e _
  simp

/-! ## Concrete inputs (plane coordinates of the face, tolerance 0.01, lattice `math`) -/

/-- Tolerance of the property. -/
def tol : ℚ := 1 / 100
abbrev K := coordKey tol
abbrev L := latticeOps

/-- Areas of the returned faces: (boundary, holes). -/
def areas (r : Option (List (FaceL ℚ))) : Option (List (ℚ × List ℚ)) :=
  r.map (List.map (fun f => (polygon2d_area f.1, f.2.map polygon2d_area)))

/-- The graph of `from_shape_to_split`, its cycles and the keys of the oriented split loops. -/
def graphOf (fixed : Bool) (b : List (V2 ℚ)) (hs : List (List (V2 ℚ))) (cs : List (V2 ℚ × V2 ℚ)) :
    Option (Graph ℚ (Int × Int)) :=
  fromShapeToSplitG fixed L K b hs (cs.map segOf) tol

/-- Keys of the oriented split loops (same expressions as `fromShapeToSplitG`). -/
def loopKeys (b : List (V2 ℚ)) (hs : List (List (V2 ℚ))) (cs : List (V2 ℚ × V2 ℚ)) :
    Option (List (List (Int × Int))) :=
  match polygon2d_remove_colinear_vertices L b tol,
      allSome (hs.map (fun h => polygon2d_remove_colinear_vertices L h tol)) with
  | some b', some hs' =>
    some ((orientedLoops ((intersectSegments L (polygon2d_segments b') (cs.map segOf) tol).map (·.p))
      (hs'.map (fun h => (intersectSegments L (polygon2d_segments h) (cs.map segOf) tol).map
        (·.p)))).map (List.map K))
  | _, _ => none

/-- `cleanSplit` of the whole pipeline on an input. -/
def cleanSplitOn (fixed : Bool) (b : List (V2 ℚ)) (hs : List (List (V2 ℚ)))
    (cs : List (V2 ℚ × V2 ℚ)) : Bool :=
  match graphOf fixed b hs cs, loopKeys b hs cs with
  | some g, some loops => cleanSplit g (allMinCycles L g) loops
  | _, _ => false

/-- The 4×4 square (clockwise as recorded, hence `y ↦ −y` in the plane of the face). -/
def sq4 : List (V2 ℚ) := [⟨0, 0⟩, ⟨0, -4⟩, ⟨4, -4⟩, ⟨4, 0⟩]

/-- Non-vacuity of `clean_split_conserves_area`, and "a single clean full cut of a hole-free
polygon gives two pieces" on two inputs: the square cut through the middle and an L-shape. -/
example : cleanSplitOn true sq4 [] [(⟨-1, -2⟩, ⟨5, -2⟩)] = true ∧
    areas (splitWithLine L K sq4 [] (⟨-1, -2⟩, ⟨5, -2⟩) tol) = some [(8, []), (8, [])] := by
  decide +kernel

example : cleanSplitOn true [⟨0, 0⟩, ⟨10, 0⟩, ⟨10, 8⟩, ⟨2, 8⟩, ⟨2, 2⟩, ⟨0, 2⟩] []
      [(⟨5, 10⟩, ⟨5, -2⟩)] = true ∧
    areas (splitWithLine L K [⟨0, 0⟩, ⟨10, 0⟩, ⟨10, 8⟩, ⟨2, 8⟩, ⟨2, 2⟩, ⟨0, 2⟩] []
      (⟨5, 10⟩, ⟨5, -2⟩) tol) = some [(40, []), (28, [])] := by
  decide +kernel

/-! ## Recorded inputs of the findings (plane coordinates) -/

/-- The U-shaped face of `wrong-region` (plane coordinates). -/
def uFace : List (V2 ℚ) :=
  [⟨0, 0⟩, ⟨2, 0⟩, ⟨2, -8⟩, ⟨6, -8⟩, ⟨6, 6⟩, ⟨-8, 6⟩, ⟨-8, -8⟩, ⟨0, -8⟩]
def uCuts : List (V2 ℚ × V2 ℚ) :=
  [(⟨-9, -6⟩, ⟨7, -6⟩), (⟨-9, -2⟩, ⟨7, -2⟩), (⟨-9, 5⟩, ⟨7, 5⟩)]

/-- The T-shaped face of `cut-along-edge` (plane coordinates). -/
def tFace : List (V2 ℚ) :=
  [⟨0, 0⟩, ⟨0, -2⟩, ⟨4, -2⟩, ⟨4, 4⟩, ⟨0, 4⟩, ⟨0, 2⟩, ⟨-2, 2⟩, ⟨-2, 0⟩]
def tCuts : List (V2 ℚ × V2 ℚ) :=
  [(⟨5, -2⟩, ⟨-3, -2⟩), (⟨6, 2⟩, ⟨-4, 2⟩), (⟨5, -1⟩, ⟨-3, -1⟩)]

/-- The C-shaped face of the recorded `cut-along-edge` input (plane coordinates). -/
def cFace : List (V2 ℚ) :=
  [⟨0, 0⟩, ⟨0, -1⟩, ⟨-3, -1⟩, ⟨-3, -3⟩, ⟨1, -3⟩, ⟨1, 2⟩, ⟨-3, 2⟩, ⟨-3, 0⟩]

/-! ## (b) The current code (`fixed = true`) -/

/-- FILTER 1 (`_remove_segments_outside_boundary`, since 0a32af8): what the filter guarantees — the
middle of every kept piece is strictly inside the boundary and strictly outside every hole
(besides both ends being on or inside the boundary).  Pieces along an edge (middle ON the
boundary), across a concavity (middle outside) or through a hole are dropped. -/
theorem repaired_filter_spec (M : MathOps α) (segs : List (LR2 α)) (boundary : List (V2 α))
    (holes : List (List (V2 α))) (tol : α) (s : LR2 α)
    (h : s ∈ removeOutsideFixed M segs boundary holes tol) :
    s ∈ segs ∧ 0 ≤ polygon2d_point_relationship M boundary (seg2_p2 s) tol ∧
    0 ≤ polygon2d_point_relationship M boundary s.p tol ∧
    polygon2d_point_relationship M boundary (seg2_midpoint s) tol = 1 ∧
    ∀ hl ∈ holes, polygon2d_point_relationship M hl (seg2_midpoint s) tol = -1 := by
  unfold removeOutsideFixed at h
  rw [List.mem_filter] at h
  obtain ⟨h1, h2⟩ := h
  simp only [Bool.and_eq_true, decide_eq_true_eq, List.all_eq_true] at h2
  exact ⟨h1, h2.1.1.1, h2.1.1.2, h2.1.2, h2.2⟩

/-- FILTER 2 (`_remove_dangling_segments`, since 0a32af8): with the fuel the model gives it the loop reaches
a fixed point — in the result every piece is connected at both ends (to a node of the boundary
/ hole graph or to another piece), or nothing is left. -/
theorem repaired_dangling_fixpoint (hash : V2 α → κ) (g : Graph α κ) (fuel : Nat)
    (segs : List (LR2 α)) (hf : segs.length < fuel) :
    (danglingPass hash g (removeDangling hash g fuel segs)).length =
      (removeDangling hash g fuel segs).length := by
  induction fuel generalizing segs with
  | zero => exact absurd hf (Nat.not_lt_zero _)
  | succ n ih =>
    unfold removeDangling
    simp only []
    split_ifs with h1 h2
    · -- empty list
      have : segs = [] := by simpa using h1
      subst this
      simp [danglingPass]
    · exact h2
    · apply ih
      have hle : (danglingPass hash g segs).length ≤ segs.length := by
        unfold danglingPass
        simp only []
        exact (List.length_filterMap_le _ _).trans (by simp)
      omega

/-- Both ends of a piece are connected: each end key is a node of the boundary / hole graph
`g` or the end of another piece (it occurs at least twice among all end keys). -/
def Connected (hash : V2 α → κ) (g : Graph α κ) (segs : List (LR2 α)) (s : LR2 α) : Prop :=
  (g.has (hash s.p) = true ∨
    1 < (segs.flatMap (fun t => [hash t.p, hash (seg2_p2 t)])).count (hash s.p)) ∧
  (g.has (hash (seg2_p2 s)) = true ∨
    1 < (segs.flatMap (fun t => [hash t.p, hash (seg2_p2 t)])).count (hash (seg2_p2 s)))

/-- A pass of `_remove_dangling_segments` that removes nothing: every piece is connected. -/
theorem danglingPass_fixpoint_connected (hash : V2 α → κ) (g : Graph α κ) (segs : List (LR2 α))
    (h : (danglingPass hash g segs).length = segs.length) :
    ∀ s ∈ segs, Connected hash g segs s := by
  unfold danglingPass at h
  simp only [] at h
  have hz : segs.zip (segs.map (fun s => (hash s.p, hash (seg2_p2 s)))) =
      segs.map (fun s => (s, (hash s.p, hash (seg2_p2 s)))) := zip_map_self _ segs
  have hends : (segs.map (fun s => (hash s.p, hash (seg2_p2 s)))).flatMap (fun k => [k.1, k.2]) =
      segs.flatMap (fun t => [hash t.p, hash (seg2_p2 t)]) := by
    rw [List.flatMap_map]
  rw [hz, hends, List.filterMap_map] at h
  have hlen : (segs.map (fun s => (s, (hash s.p, hash (seg2_p2 s))))).length = segs.length := by simp
  have := all_of_filterMap_length
    (fun (s : LR2 α) =>
      (g.has (hash s.p) || decide (1 < (segs.flatMap (fun t => [hash t.p, hash (seg2_p2 t)])).count
        (hash s.p))) &&
      (g.has (hash (seg2_p2 s)) || decide (1 < (segs.flatMap (fun t => [hash t.p,
        hash (seg2_p2 t)])).count (hash (seg2_p2 s))))) (fun s => s) segs (by
      rw [← h]
      congr 1)
  intro s hs
  have h2 := this s hs
  simp only [Bool.and_eq_true, Bool.or_eq_true, decide_eq_true_eq] at h2
  exact h2

/-- CURRENT CODE, filter 1: every cut piece that is added to the graph has both ends on or inside
the boundary and its MIDDLE strictly inside the boundary and strictly outside every hole — no
piece runs along an edge, across a concavity or through a hole (the triggers of
`cut-along-edge` and `wrong-region`). -/
theorem kept_pieces_inside_face (M : MathOps α) (hash : V2 α → κ) (dg : Graph α κ)
    (b : List (V2 α)) (holes : List (List (V2 α))) (cuts : List (LR2 α)) (tol : α) (s : LR2 α)
    (h : s ∈ cutPiecesG true M hash dg b holes cuts tol) :
    0 ≤ polygon2d_point_relationship M b (seg2_p2 s) tol ∧
    0 ≤ polygon2d_point_relationship M b s.p tol ∧
    polygon2d_point_relationship M b (seg2_midpoint s) tol = 1 ∧
    ∀ hl ∈ holes, polygon2d_point_relationship M hl (seg2_midpoint s) tol = -1 := by
  unfold cutPiecesG at h
  simp only [if_true] at h
  exact (repaired_filter_spec M _ b holes tol s (removeDangling_subset hash dg _ _ s h)).2

/-- CURRENT CODE, filter 2: every cut piece that is added to the graph is connected at both ends
— to a node of the boundary / hole graph or to another kept piece; no piece dangles (the
trigger of `dangling-cut-end`). -/
theorem kept_pieces_connected (M : MathOps α) (hash : V2 α → κ) (dg : Graph α κ)
    (b : List (V2 α)) (holes : List (List (V2 α))) (cuts : List (LR2 α)) (tol : α) :
    ∀ s ∈ cutPiecesG true M hash dg b holes cuts tol,
      Connected hash dg (cutPiecesG true M hash dg b holes cuts tol) s := by
  unfold cutPiecesG
  simp only [if_true]
  apply danglingPass_fixpoint_connected
  apply repaired_dangling_fixpoint
  omega

/-- PARTIAL CORRECTNESS of a split (`_partial`), CURRENT code.  Full statement wanted: for a
face (boundary, holes) and cutting segments the pieces returned by `split_with_lines` tile the
face.

Proved for every input: the graph handed to the cycle search has no self-loops; every edge is a
sub-segment of a boundary / hole edge or of a cut (`graph_edges_provenance`); every cut piece
in it lies with its middle strictly inside the face (`kept_pieces_inside_face`) and is connected
at both ends (`kept_pieces_connected`); every one-way edge is a boundary / hole edge
(`one_way_edges_are_loop_edges`) — that is one inclusion of clause (3) of the certificate
`cleanSplit`; every cycle is a closed walk (or the fallback walk) along graph edges.  And
whenever graph and cycles pass the decidable certificate (every directed edge used exactly
once, two-way edges in opposite pairs, one-way edges = the oriented split boundary and holes),
the signed areas of the cycles add up to `area(boundary) − Σ area(holes)`.

Missing: clause (1), that the smallest-clockwise-angle search uses every directed edge exactly
once (correctness of the face tracing on a planar graph), and the other inclusion of (3) (no
boundary edge doubled by a piece with the same end KEYS — geometrically excluded by filter 1,
but keys are rounded).  Inputs on which the certificate still fails: a cut that bridges a hole
and the boundary (`hole_dropped_bridge`), key rounding (`not_split_key_rounding`). -/
theorem split_area_partial (fixed : Bool) (M : MathOps α) (hash : V2 α → κ)
    (boundary : List (V2 α)) (holes : List (List (V2 α))) (cuts : List (LR2 α)) (tol : α)
    (g : Graph α κ) (hg : fromShapeToSplitG fixed M hash boundary holes cuts tol = some g)
    (loops : List (List κ)) (hc : cleanSplit g (allMinCycles M g) loops = true) :
    ((allMinCycles M g).map (fun c => shoelace (c.map (ptOf g)))).sum =
        (loops.map (fun l => shoelace (l.map (ptOf g)))).sum ∧
    (∀ c ∈ allMinCycles M g, IsClosedWalk g c ∨ IsWalk g c) ∧
    NoSelfLoop g :=
  ⟨clean_split_conserves_area g _ loops hc,
   fun c hcm => (allMinCycles_walks M g c hcm).elim Or.inl (fun h => Or.inr h.1),
   fromShapeToSplitG_noSelfLoop fixed M hash boundary holes cuts tol g hg⟩

/-- CURRENT CODE on the recorded inputs of the repaired findings: the dangling cut no longer blocks the full cut
(8 + 8), the concave face is tiled (94 + 32 + 16 + 16 + 14 + 8 = 180), the T-shaped face is tiled
(16 + 8 + 4 = 28), the C-shaped face is reported as not split (one piece, its own boundary) —
and the certificate of a clean split holds on the first three, so their area identities follow
from `clean_split_conserves_area`, not from evaluation.  (The correspondence module compares this model with the library on every check.) -/
theorem repairs_on_recorded_inputs :
    areas (splitWithLines L K sq4 [] [(⟨3, -1⟩, ⟨3, 0⟩), (⟨-1, -2⟩, ⟨5, -2⟩)] tol) =
      some [(8, []), (8, [])] ∧
    cleanSplitOn true sq4 [] [(⟨3, -1⟩, ⟨3, 0⟩), (⟨-1, -2⟩, ⟨5, -2⟩)] = true ∧
    areas (splitWithLines L K uFace [] uCuts tol) =
      some [(94, []), (32, []), (16, []), (16, []), (14, []), (8, [])] ∧
    cleanSplitOn true uFace [] uCuts = true ∧
    areas (splitWithLines L K tFace [] tCuts tol) = some [(16, []), (8, []), (4, [])] ∧
    cleanSplitOn true tFace [] tCuts = true ∧
    splitPieces L K cFace [] [segOf (⟨-3, 3⟩, ⟨-3, -4⟩)] tol =
      some [[⟨-3, 0⟩, ⟨0, 0⟩, ⟨0, -1⟩, ⟨-3, -1⟩, ⟨-3, -3⟩, ⟨1, -3⟩, ⟨1, 2⟩, ⟨-3, 2⟩]] := by
  decide +kernel

/-! ### Still open with the current code -/

/-- The face with a hole of `hole-dropped` (plane coordinates, world XY frame). -/
def hFace : List (V2 ℚ) := [⟨0, 0⟩, ⟨0, -4⟩, ⟨2, -4⟩, ⟨2, -6⟩, ⟨6, -6⟩, ⟨6, 0⟩]
def hHole : List (V2 ℚ) := [⟨2, -1⟩, ⟨5, -1⟩, ⟨5, -2⟩, ⟨2, -2⟩]

/-- OPEN, finding `hole-dropped` (CURRENT code).  Face `[(0,0),(0,4),(2,4),(2,6),(6,6),(6,0)]` with the hole
`[(2,1),(5,1),(5,2),(2,2)]` (area 32 − 3 = 29) and the cut `(5,1)→(6,1)` from a corner of the
hole to the boundary, which does not separate the face.  In the world XY frame the model
returns TWO faces without holes, of areas 32 (the boundary with the hole filled) and 2 (a
triangle over part of the hole); in the recorded rotated frame the real code merges the two
into one face whose hole has area 2 instead of 3 (since 2c5e096 that single
face is answered with `None`, the right answer there; the bridge defect itself is unchanged).

What goes wrong: the cut is a BRIDGE between the hole and the boundary.  The search from the
outer root follows the boundary and stops as soon as the root is a neighbour, so the bridge
and the hole are never entered: the first cycle is the outer boundary alone.  The hole nodes
keep positive counts; from the hole root `min_cycle` fails; the fallback chains the three
remaining nodes `(2,2),(2,1),(5,1),(6,1)` — a walk that does not close — into a "cycle", and two
pieces are enough for a result. -/
theorem hole_dropped_bridge :
    areas (splitWithLine L K hFace [hHole] (⟨5, -1⟩, ⟨6, -1⟩) tol) = some [(32, []), (2, [])] ∧
    polygon2d_area hFace - polygon2d_area hHole = 29 := by
  decide +kernel

/-- …the two cycles, and the second one is not a closed walk: its last node `(6,1)` has no
edge to its first node `(2,2)`. -/
example :
    let g? := graphOf true hFace [hHole] [(⟨5, -1⟩, ⟨6, -1⟩)]
    g?.map (allMinCycles L) =
      some [[(0, 0), (0, -200), (100, -200), (100, -300), (300, -300), (300, -50), (300, 0)],
       [(100, -100), (100, -50), (250, -50), (300, -50)]] ∧
    g?.map (fun g => decide ((100, -100) ∈ g.adjOf (300, -50))) = some false := by
  decide +kernel

/-- An L-shaped face with a vertex at `x = 1.25` (`1.25 / 2 · 100 = 62.5`, half-way between two
keys). -/
def kFace : List (V2 ℚ) := [⟨0, 0⟩, ⟨5 / 4, 0⟩, ⟨5 / 4, -1⟩, ⟨5 / 2, -1⟩, ⟨5 / 2, 2⟩, ⟨0, 2⟩]

/-- OPEN, findings `not-split` and `piece-lost` in rotated planes (CURRENT code; rounding
dependent, scale 1/4).
`coordinates_hash` ROUNDS the coordinates to a grid (unit 0.02 for tolerance 0.01), so two
points one ulp apart on the two sides of a rounding boundary get different keys, although the
docstring promises the same key for points "co-located within the tolerance".  The split point
of a boundary edge and the end of the clipped cutting segment are the same point computed in
two ways; in floating point they differ in the last bits, and when the coordinate is an odd
multiple of 0.01 (all odd multiples of 1/4 are) they become two nodes: the cut is not
connected to the boundary.

In the model (exact arithmetic) the two computations agree, so the witness perturbs the input
instead: a cut whose lower end is `2⁻⁵²` beside the boundary vertex `(1.25, 0)` it should end
on does not split the face, the same cut at `1.25` does (3.75 + 2.5). -/
theorem not_split_key_rounding :
    K ⟨5 / 4, 0⟩ ≠ K ⟨5 / 4 + 1 / 2 ^ 52, 0⟩ ∧
    splitWithLine L K kFace [] (⟨5 / 4 + 1 / 2 ^ 52, 3⟩, ⟨5 / 4 + 1 / 2 ^ 52, 0⟩) tol = none ∧
    areas (splitWithLine L K kFace [] (⟨5 / 4, 3⟩, ⟨5 / 4, 0⟩) tol) =
      some [(15 / 4, []), (5 / 2, [])] := by
  decide +kernel

/-- The two open defects fail the certificate with the current code. -/
example : cleanSplitOn true hFace [hHole] [(⟨5, -1⟩, ⟨6, -1⟩)] = false := by
  decide +kernel

/-! ## (c) History: the repaired defects on the code before 0a32af8 (`fixed = false`) -/

/-- HISTORY, finding `dangling-cut-end` (repaired by 0a32af8: dangling pieces are removed).  4×4 square, cuts `(3,1)→(3,0)` (ends inside the face) and
`(−1,2)→(5,2)` (full): the model of the OLD code returns `None`, although the second cut alone gives 8 + 8.

What goes wrong: the node `(3,0)` where the dangling piece meets the boundary has been
re-flagged `exterior=False` by `add_node(..., exterior=False)`, so `next_exterior_node` of the
first root `(4,0)` finds nothing and the search starts at `(3,0)`.  There the smallest clockwise
angle leads INTO the dangling piece, whose end `(3,1)` has out-degree 1: the walk can only come
back to `(3,0)`, which is explored — `min_cycle` returns `None`.  The root stays unexplored, so
`reorder` keeps it first and all `max_iter` iterations repeat the same failed search.  The
fallback then chains all 7 boundary nodes into ONE loop, and one loop means "not split". -/
theorem dangling_cut_end_not_split :
    splitWithLinesG false L K sq4 [] [(⟨3, -1⟩, ⟨3, 0⟩), (⟨-1, -2⟩, ⟨5, -2⟩)] tol = none ∧
    areas (splitWithLinesG false L K sq4 [] [(⟨-1, -2⟩, ⟨5, -2⟩)] tol) = some [(8, []), (8, [])] := by
  decide +kernel

/-- …the steps named in the diagnosis: out-degree 1 of the dangling end, the `exterior=False`
flag of `(3,0)`, the failed search from `(3,0)` to the root `(4,0)`, the single fallback loop. -/
example :
    let g? := graphOf false sq4 [] [(⟨3, -1⟩, ⟨3, 0⟩), (⟨-1, -2⟩, ⟨5, -2⟩)]
    g?.map (fun g => g.adjOf (150, -50)) = some [(150, 0)] ∧
    g?.map (fun g => (g.find? (150, 0)).map (·.ext)) = some (some (some false)) ∧
    g?.map (fun g => minCycle L g (150, 0) (200, 0)) = some none ∧
    g?.map (allMinCycles L) =
      some [[(200, 0), (150, 0), (0, 0), (0, -100), (0, -200), (200, -200), (200, -100)]] := by
  decide +kernel

/-- HISTORY, finding `wrong-region` (repaired by 0a32af8: the middle of a piece is tested).  The concave face `[(8,8),(10,8),(10,0),(14,0),(14,14),(0,14),(0,0),
(8,0)]` (area 180) cut by `y = 2`, `y = 6`, `y = 13`: the model of the OLD code returns 4 faces of areas
20 + 16 + 8 + 4 = 48.

What goes wrong: `_remove_segments_outside_boundary` looks at the END POINTS of a cut piece
only.  The pieces of `y = 2` and `y = 6` that cross the notch have both ends on the boundary
but run OUTSIDE the face (their middle point has `point_relationship = −1`); they are added as
two-way "interior" edges, one returned piece is the part of the notch between them (outside
the face), and the node counts no longer add up, so most of the face is never traced. -/
theorem wrong_region_pieces :
    areas (splitWithLinesG false L K uFace [] uCuts tol) = some [(20, []), (16, []), (8, []), (4, [])] ∧
    polygon2d_area uFace = 180 := by
  decide +kernel

/-- …the two pieces across the notch survive the filter although their middle is outside, and
the certificate of a clean split fails. -/
example :
    (cutPiecesG false L K Graph.empty uFace [] (uCuts.map segOf) tol).filterMap (fun s =>
      if polygon2d_point_relationship L uFace (seg2_midpoint s) tol = -1
      then some (s.p, seg2_p2 s) else none) =
      [(⟨0, -6⟩, ⟨2, -6⟩), (⟨0, -2⟩, ⟨2, -2⟩)] ∧
    cleanSplitOn false uFace [] uCuts = false := by
  decide +kernel

/-- HISTORY, finding `cut-along-edge` (repaired by 0a32af8: the middle of a piece on an edge
is not strictly inside).  Face `[(2,2),(2,0),(6,0),(6,6),(2,6),(2,4),(0,4),(0,2)]` (area 28)
cut by `y = 0` (along the bottom edge), `y = 4` (along the edge `(2,4)–(0,4)` and through the
interior) and `y = 1`: the model of the OLD code returns two faces of areas 16 + 4 = 20.

What goes wrong: a cut piece that coincides with a boundary edge passes the filter (its ends
are on the boundary) and is added as a two-way edge ON TOP of the one-way boundary edge; its
end nodes are re-flagged `exterior=False`.  From the root `(2,0)` the search
`min_cycle((6,0), (2,0))` finds the goal among the neighbours at once (the reverse edge just
added) and returns the 2-node path, which is rejected; the root stays first, the iterations
are used up, the part `2 ≤ y ≤ 4 … 6` is never traced. -/
theorem cut_along_edge_loses_pieces :
    areas (splitWithLinesG false L K tFace [] tCuts tol) = some [(16, []), (4, [])] ∧
    polygon2d_area tFace = 28 := by
  decide +kernel

/-- …the pieces lying ON the boundary (middle point `point_relationship = 0`) that are added as
interior edges, the reverse edge `(2,0) → (6,0)` (keys `(0,−100) → (200,−100)`) of a boundary edge
they create, the `exterior=False` flag, and the 2-node "cycle". -/
example :
    (cutPiecesG false L K Graph.empty tFace [] (tCuts.map segOf) tol).filterMap (fun s =>
      if polygon2d_point_relationship L tFace (seg2_midpoint s) tol = 0
      then some (s.p, seg2_p2 s) else none) =
      [(⟨4, -2⟩, ⟨0, -2⟩), (⟨0, 2⟩, ⟨-2, 2⟩)] := by
  decide +kernel

example :
    let g? := graphOf false tFace [] tCuts
    g?.map (fun g => g.adjOf (0, -100)) = some [(200, -100)] ∧
    g?.map (fun g => g.adjOf (200, -100)) = some [(200, -50), (0, -100)] ∧
    g?.map (fun g => (g.find? (0, -100)).map (·.ext)) = some (some (some false)) ∧
    g?.map (fun g => minCycle L g (200, -100) (0, -100)) =
      some (some [(200, -100), (0, -100)]) := by
  decide +kernel

/-- HISTORY, finding `cut-along-edge`, recorded input: `C = [(3,2),(3,3),(0,3),(0,5),(4,5),(4,0),(0,0),
(0,2)]` cut by the line `x = 0`, which lies on the two left edges and crosses the notch.  The
only piece the model of the OLD code finds is the NOTCH `[(3,2),(0,2),(0,3),(3,3)]` (area 3), whose centre is
outside the face; the boundary of the face itself is never traced.  (The method now answers
`None` for a single piece; before that repair it returned the notch.)  Both causes above act:
the pieces along the left edges double boundary edges, the piece across the notch is outside. -/
theorem cut_along_edge_returns_notch :
    splitPiecesG false L K cFace [] [segOf (⟨-3, 3⟩, ⟨-3, -4⟩)] tol =
      some [[⟨0, 0⟩, ⟨-3, 0⟩, ⟨-3, -1⟩, ⟨0, -1⟩]] ∧
    polygon2d_point_relationship L cFace ⟨-3 / 2, -1 / 2⟩ tol = -1 ∧
    splitWithLineG false L K cFace [] (⟨-3, 3⟩, ⟨-3, -4⟩) tol = none := by
  decide +kernel

/-- HISTORY, side observation (not a recorded finding; repaired by 2c5e096).  For a face WITH
holes a cut that does not split it can come back as a one-element list instead of the
documented `None`: when no cut piece survives, the cycles are the boundary and the holes, that
is at least two "pieces", and `merge_faces_to_holes` rebuilds the unchanged face.  9×3
rectangle with a unit hole, cut `(2,−1)→(2,0)` that only touches the boundary: one face, 27 − 1.
The current code answers `None` when the merged result is a single face. -/
theorem unsplit_holed_face_single_face :
    areas (splitWithLineG false L K [⟨0, 0⟩, ⟨9, 0⟩, ⟨9, 3⟩, ⟨0, 3⟩]
      [[⟨5, 1⟩, ⟨6, 1⟩, ⟨6, 2⟩, ⟨5, 2⟩]] (⟨2, -1⟩, ⟨2, 0⟩) tol) = some [(27, [1])] ∧
    splitWithLine L K [⟨0, 0⟩, ⟨9, 0⟩, ⟨9, 3⟩, ⟨0, 3⟩] [[⟨5, 1⟩, ⟨6, 1⟩, ⟨6, 2⟩, ⟨5, 2⟩]]
      (⟨2, -1⟩, ⟨2, 0⟩) tol = none ∧
    areas (splitWithLine L K [⟨0, 0⟩, ⟨9, 0⟩, ⟨9, 3⟩, ⟨0, 3⟩]
      [[⟨5, 1⟩, ⟨6, 1⟩, ⟨6, 2⟩, ⟨5, 2⟩]] (⟨2, -1⟩, ⟨2, 4⟩) tol) = some [(21, [1]), (6, [])] := by
  decide +kernel

/-- The bookkeeping is per node: nothing prevents two recorded cycles from using the same
DIRECTED edge (HISTORY input: with the code before 0a32af8; the cut along the edge is now dropped).  Rectangle `[(4,3),(4,0),(0,0),(0,3)]` cut by `(4,2)→(4,0)` (along its right edge)
and `y = 1`; in plane coordinates the boundary edge `(0,2) → (0,3)` (keys `(0,100) → (0,150)`) is
used by the second cycle and again by the fallback cycle. -/
theorem directed_edge_used_twice :
    let g? := graphOf false [⟨0, 0⟩, ⟨0, 3⟩, ⟨-4, 3⟩, ⟨-4, 0⟩] []
        [(⟨0, 1⟩, ⟨0, 3⟩), (⟨-5, 2⟩, ⟨1, 2⟩)]
    g?.map (fun g => decide ((0, 150) ∈ g.adjOf (0, 100))) = some true ∧
    g?.map (fun g => ((allMinCycles L g).flatMap cyclicPairs).count ((0, 100), (0, 150))) =
      some 2 := by
  decide +kernel

end Lbg.Props.C09b
