/-
  C03g — "cached value = fresh value", tied to the REGENERATED getters.

  The C03 theorems (`Props/C03b.lean`, `Props/C03c.lean`) are about hand-written cache machines
  whose "fresh value" functions (`segs2`, `length2`, `selfInt2`, `calcMinMax`, `loopSegs3`,
  `perimOf`, `isConvex2`, `polySelfInt2`, …) transcribe the Python getters by hand.  Here every
  such function is proved EQUAL to the definition that py2lean regenerates from the Python
  source of the getter, so the C03 theorems speak about the code as it is, and a change of a
  getter in the source breaks one of these proofs.

  Ties (generated kernel = hand function):
    Polyline2D  `polyline2_segments/length/is_self_intersecting/min/max/center`
    Polyline3D  `polyline3_segments/length/min/max/center`
    Polygon2D   `polygon2d_segments/perimeter/is_convex/is_self_intersecting/area/is_clockwise/
                 min/max/center`
    Face3D      `face3d_polygon2d/boundary_polygon2d/boundary_segments/perimeter/area/is_clockwise/
                 is_convex/is_self_intersecting/calculate_min_max/min/max/center/normal`
    Mesh2D/3D, Base2DIn2D/3D  `…_calculate_min_max/min/max/center`
    Mesh2D quads `mesh2d_concave_quad_to_triangles/quad_to_triangles/quad_centroid`
                 = `MeshCache.stdKern tv0` / `quadCentroid` / `triangulateFace`
  and corollaries transporting `C03c.pread2_after_history`, `C03c.fread_after_history`,
  `C03b.mread_after_history` to the generated definitions.

  Already literal (nothing to prove): `Model/MeshCache3.faceNA` CALLS the generated
  `mesh3d_normal_area_tri/quad`; `Model/FaceCache` calls the generated `polygon2d_area`,
  `polygon2d_is_clockwise`, `plane_xyz_to_xy`, `seg3_from_end_points`, `seg3_length`;
  `C03b.kernels_are_generated` ties `mesh2d_get_area_*`, `mesh2d_face_center_*`,
  `mesh2d_tri_centroid`.
-/
import LbgVerif.Gen.Polyline
import LbgVerif.Gen.PolyMore
import LbgVerif.Gen.Poly
import LbgVerif.Gen.FaceMore
import LbgVerif.Gen.MeshMore
import LbgVerif.Gen.Base2D
import LbgVerif.Lemmas.GenTiesC03
import LbgVerif.Props.C03
import LbgVerif.Props.C03b
import LbgVerif.Props.C03c
import Mathlib.Algebra.Order.Field.Rat

set_option linter.unusedSectionVars false

namespace Lbg.Props.C03g
open Lbg Lbg.Gen Lbg.Lemmas Lbg.Lemmas.GenTiesC03 Lbg.Model
open Lbg.Model.MeshCache Lbg.Model.PolylineCache Lbg.Model.FaceCache
variable {α : Type} [Field α] [LinearOrder α] [IsStrictOrderedRing α]

/-! ## Polyline2D -/

omit [IsStrictOrderedRing α] in
/-- Generated `polyline2_segments` (`Polyline2D.segments`) = hand `PolylineCache.segs2`, for
every vertex list. -/
theorem polyline2_segments_eq (vs : List (V2 α)) (i : Bool) :
    polyline2_segments vs i = segs2 vs := by
  unfold polyline2_segments segs2
  simp only []
  rw [zip_dropLast_drop_one]
  rfl

omit [IsStrictOrderedRing α] in
/-- Generated `polyline2_length` (`Polyline2D.length`) = hand `PolylineCache.length2`. -/
theorem polyline2_length_eq (M : MathOps α) (vs : List (V2 α)) (i : Bool) :
    polyline2_length M vs i = length2 M vs := by
  unfold length2 lengthOf2
  rw [← polyline2_segments_eq vs i]
  rfl

/-- Generated `polyline2_is_self_intersecting` (`Polyline2D.is_self_intersecting`) = hand
`PolylineCache.selfInt2`.  The Python loop calls `LineSegment2D.intersect_line_ray`, which for
a segment argument is `intersect_line_segment2d` (with an `_isclose` test); the hand model uses
`intersect_line2d`; they agree in exact arithmetic. -/
theorem polyline2_is_self_intersecting_eq (vs : List (V2 α)) (i : Bool) :
    polyline2_is_self_intersecting vs i = selfInt2 vs := by
  unfold selfInt2
  rw [← polyline2_segments_eq vs i]
  unfold polyline2_is_self_intersecting
  refine selfInt_of_steps (polyline2_segments vs i) (fun st si => ?_)
  show (if st.1 = true then st else _) = _
  by_cases hb : st.1 = true
  · rw [if_pos hb, if_pos hb]
  · rw [if_neg hb, if_neg hb]
    exact selfInt_outer_step (polyline2_segments vs i) si st.2 (fun e => rfl)
      (fun st o => hit_tree _ _ _ _ _ _ _ _ st)

omit [IsStrictOrderedRing α] in
/-- Generated `polyline2_min` / `polyline2_max` (`Base2DIn2D.min/.max` on a `Polyline2D`) = the
two components of the hand `calcMinMax` (what `readMin2` / `readMax2` store). -/
theorem polyline2_min_max_eq (vs : List (V2 α)) (i : Bool) :
    polyline2_min vs i = (calcMinMax vs).1 ∧ polyline2_max vs i = (calcMinMax vs).2 := by
  rw [← mm2Fold_eq vs]
  exact ⟨rfl, rfl⟩

omit [IsStrictOrderedRing α] in
/-- Generated `polyline2_center` (`Base2DIn2D.center`) = hand `C03c.centerOf2`. -/
theorem polyline2_center_eq (vs : List (V2 α)) (i : Bool) :
    polyline2_center vs i = C03c.centerOf2 vs := by
  unfold C03c.centerOf2
  rw [← mm2Fold_eq vs]
  rfl

/-! ## Polyline3D -/

omit [IsStrictOrderedRing α] in
/-- Generated `polyline3_segments` (`Polyline3D.segments`) = hand `PolylineCache.segs3`. -/
theorem polyline3_segments_eq (vs : List (V3 α)) (i : Bool) :
    polyline3_segments vs i = segs3 vs := by
  unfold polyline3_segments segs3
  simp only []
  rw [zip_dropLast_drop_one]
  rfl

omit [IsStrictOrderedRing α] in
/-- Generated `polyline3_length` (`Polyline3D.length`) = hand `PolylineCache.length3`. -/
theorem polyline3_length_eq (M : MathOps α) (vs : List (V3 α)) (i : Bool) :
    polyline3_length M vs i = length3 M vs := by
  unfold length3 lengthOf3
  rw [← polyline3_segments_eq vs i]
  rfl

omit [IsStrictOrderedRing α] in
/-- Generated `polyline3_min` / `polyline3_max` (`Base2DIn3D.min/.max`) = the components of the
hand `calcMinMax3`. -/
theorem polyline3_min_max_eq (vs : List (V3 α)) (i : Bool) :
    polyline3_min vs i = (calcMinMax3 vs).1 ∧ polyline3_max vs i = (calcMinMax3 vs).2 := by
  rw [← mm3Fold_eq vs]
  exact ⟨rfl, rfl⟩

omit [IsStrictOrderedRing α] in
/-- Generated `polyline3_center` (`Base2DIn3D.center`) = hand `C03c.centerOf3`. -/
theorem polyline3_center_eq (vs : List (V3 α)) (i : Bool) :
    polyline3_center vs i = C03c.centerOf3 vs := by
  unfold C03c.centerOf3
  rw [← mm3Fold_eq vs]
  rfl

/-! ## Polygon2D -/

omit [IsStrictOrderedRing α] in
/-- Generated `polygon2d_segments` (`Polygon2D.segments` → `_segments_from_vertices`) = hand
`FaceCache.loopSegs2`, for a non-empty vertex list (the constructor guarantees `len ≥ 3`; on
the empty list Python raises `IndexError` at `_segs.pop(0)`). -/
theorem polygon2d_segments_eq (vs : List (V2 α)) (h : vs ≠ []) :
    polygon2d_segments vs = loopSegs2 vs := by
  unfold polygon2d_segments
  exact loop2_eq vs h _ (fun st pq => rfl)

omit [IsStrictOrderedRing α] in
/-- Generated `polygon2d_perimeter` (`Polygon2D.perimeter`) = `sum` of the generated segment
lengths over the hand segment loop: `PolylineCache.lengthOf2 M (loopSegs2 vs)`. -/
theorem polygon2d_perimeter_eq (M : MathOps α) (vs : List (V2 α)) (h : vs ≠ []) :
    polygon2d_perimeter M vs = lengthOf2 M (loopSegs2 vs) := by
  rw [← polygon2d_segments_eq vs h]
  rfl

omit [IsStrictOrderedRing α] in
/-- Generated `polygon2d_area` (`Polygon2D.area`) = `|signed area|` with the hand
`C03.signedArea` (= hand `MeshCache.getArea`, the `_get_area` of `Mesh2D`). -/
theorem polygon2d_area_eq (vs : List (V2 α)) :
    polygon2d_area vs = |C03.signedArea vs| ∧ polygon2d_area vs = getArea vs := ⟨rfl, rfl⟩

omit [IsStrictOrderedRing α] in
/-- Generated `polygon2d_is_clockwise` (`Polygon2D.is_clockwise`) = sign test of the hand
`C03.signedArea`. -/
theorem polygon2d_is_clockwise_eq (vs : List (V2 α)) :
    polygon2d_is_clockwise vs = decide (C03.signedArea vs < 0) := rfl

omit [IsStrictOrderedRing α] in
/-- Generated `polygon2d_is_convex` (`Polygon2D.is_convex`) = hand `FaceCache.isConvex2`
(non-empty vertex list). -/
theorem polygon2d_is_convex_eq (vs : List (V2 α)) (h : vs ≠ []) :
    polygon2d_is_convex vs = isConvex2 vs := by
  unfold isConvex2
  simp only []
  rw [← polygon2d_segments_eq vs h]
  unfold polygon2d_is_convex
  by_cases h3 : vs.length = 3
  · have h3' : ((vs.length : Int) = 3) := by omega
    rw [if_pos h3', if_pos h3]
  · have h3' : ¬ ((vs.length : Int) = 3) := by omega
    rw [if_neg h3', if_neg h3]
    show (if polygon2d_is_clockwise vs = true
        then (List.foldl _ (false, true) (cyclicPairs (polygon2d_segments vs))).2
        else (List.foldl _ (false, true) (cyclicPairs (polygon2d_segments vs))).2) = _
    simp only [V2.det]
    rw [foldl_break_hit (fun ab : LR2 α × LR2 α => 0 < ab.1.v.x * ab.2.v.y - ab.1.v.y * ab.2.v.x)
          false (fun st pp => rfl),
        foldl_break_hit (fun ab : LR2 α × LR2 α => ab.1.v.x * ab.2.v.y - ab.1.v.y * ab.2.v.x < 0)
          false (fun st pp => rfl)]
    have e : ∀ b : Bool,
        (if b = true then ((true, false) : Bool × Bool) else (false, true)).2 = !b := by
      intro b; cases b <;> rfl
    rw [e, e]
    rfl

/-- Generated `polygon2d_is_self_intersecting` (`Polygon2D.is_self_intersecting`) = hand
`FaceCache.polySelfInt2` (non-empty vertex list; `intersect_line_segment2d` vs
`intersect_line2d` as for polylines). -/
theorem polygon2d_is_self_intersecting_eq (vs : List (V2 α)) (h : vs ≠ []) :
    polygon2d_is_self_intersecting vs = polySelfInt2 vs := by
  unfold polySelfInt2
  rw [← polygon2d_segments_eq vs h]
  unfold polygon2d_is_self_intersecting
  refine selfInt_of_steps (polygon2d_segments vs) (fun st si => ?_)
  show (if st.1 = true then st else _) = _
  by_cases hb : st.1 = true
  · rw [if_pos hb, if_pos hb]
  · rw [if_neg hb, if_neg hb]
    exact selfInt_outer_step (polygon2d_segments vs) si st.2 (fun e => rfl)
      (fun st o => hit_tree _ _ _ _ _ _ _ _ st)

omit [IsStrictOrderedRing α] in
/-- Generated `polygon2d_min` / `polygon2d_max` (`Base2DIn2D.min/.max` on a `Polygon2D`) = the
components of the hand `calcMinMax`. -/
theorem polygon2d_min_max_eq (vs : List (V2 α)) :
    polygon2d_min vs = (calcMinMax vs).1 ∧ polygon2d_max vs = (calcMinMax vs).2 := by
  rw [← mm2Fold_eq vs]
  exact ⟨rfl, rfl⟩

omit [IsStrictOrderedRing α] in
/-- Generated `polygon2d_center` = hand `MeshCache.trueCenter` (= `C03c.centerOf2`). -/
theorem polygon2d_center_eq (vs : List (V2 α)) :
    polygon2d_center vs = trueCenter vs := by
  unfold trueCenter
  rw [← mm2Fold_eq vs]
  rfl

/-! ## Face3D (faces without holes: `_vertices = _boundary = vs`) -/

omit [IsStrictOrderedRing α] in
/-- Generated `face3d_polygon2d` / `face3d_boundary_polygon2d` (`Face3D.polygon2d`,
`.boundary_polygon2d`) = hand `FaceCache.to2d` = `poly2dOf` / `bpoly2dOf` of the fresh face. -/
theorem face3d_polygon2d_eq (vs : List (V3 α)) (pl : PlaneS α) :
    face3d_polygon2d vs pl = poly2dOf (mkFace vs pl) ∧
    face3d_boundary_polygon2d vs pl = bpoly2dOf (mkFace vs pl) ∧
    face3d_polygon2d vs pl = to2d pl vs := ⟨rfl, rfl, rfl⟩

omit [IsStrictOrderedRing α] in
/-- Generated `face3d_boundary_segments` (`Face3D.boundary_segments`) = hand
`FaceCache.loopSegs3` = `bsegsOf` of the fresh face (non-empty vertex list). -/
theorem face3d_boundary_segments_eq (vs : List (V3 α)) (pl : PlaneS α) (h : vs ≠ []) :
    face3d_boundary_segments vs pl = bsegsOf (mkFace vs pl) := by
  unfold face3d_boundary_segments
  exact loop3_eq vs h _ (fun st pq => rfl)

omit [IsStrictOrderedRing α] in
/-- Generated `face3d_perimeter` (`Face3D.perimeter`, no holes) = hand `FaceCache.perimOf` of
the fresh face. -/
theorem face3d_perimeter_eq (M : MathOps α) (vs : List (V3 α)) (pl : PlaneS α) (h : vs ≠ []) :
    face3d_perimeter M vs pl = perimOf M (mkFace vs pl) := by
  unfold perimOf
  rw [← face3d_boundary_segments_eq vs pl h]
  rfl

omit [IsStrictOrderedRing α] in
/-- Generated `face3d_area` (`Face3D.area`) = hand `FaceCache.areaOf` of the fresh face;
generated `face3d_is_clockwise` = generated `polygon2d_is_clockwise` of the plane polygon. -/
theorem face3d_area_eq (vs : List (V3 α)) (pl : PlaneS α) :
    face3d_area vs pl = areaOf (mkFace vs pl) ∧
    face3d_is_clockwise vs pl = polygon2d_is_clockwise (to2d pl vs) := ⟨rfl, rfl⟩

omit [IsStrictOrderedRing α] in
/-- Generated `face3d_is_convex` (`Face3D.is_convex`) = hand `FaceCache.convexOf` of the fresh
face. -/
theorem face3d_is_convex_eq (vs : List (V3 α)) (pl : PlaneS α) (h : vs ≠ []) :
    face3d_is_convex vs pl = convexOf (mkFace vs pl) := by
  have hne : to2d pl vs ≠ [] := by simpa [to2d] using h
  show face3d_is_convex vs pl = isConvex2 (to2d pl vs)
  rw [← polygon2d_is_convex_eq _ hne]
  rfl

/-- Generated `face3d_is_self_intersecting` (`Face3D.is_self_intersecting`, no holes) = hand
`FaceCache.selfIntOf` of the fresh face. -/
theorem face3d_is_self_intersecting_eq (vs : List (V3 α)) (pl : PlaneS α) (h : vs ≠ []) :
    face3d_is_self_intersecting vs pl = selfIntOf (mkFace vs pl) := by
  have hne : to2d pl vs ≠ [] := by simpa [to2d] using h
  show face3d_is_self_intersecting vs pl = (polySelfInt2 (to2d pl vs) || false)
  rw [Bool.or_false, ← polygon2d_is_self_intersecting_eq _ hne]
  show (if polygon2d_is_self_intersecting (to2d pl vs) = true then true else false) = _
  cases polygon2d_is_self_intersecting (to2d pl vs) <;> rfl

omit [IsStrictOrderedRing α] in
/-- Generated `face3d_calculate_min_max`, `face3d_min`, `face3d_max` (`Face3D._calculate_min_max`,
`.min`, `.max`) = hand `FaceCache.minMaxOf` of the fresh face (`calcMinMax3` of the boundary). -/
theorem face3d_min_max_eq (vs : List (V3 α)) (pl : PlaneS α) :
    face3d_calculate_min_max vs pl = minMaxOf (mkFace vs pl) ∧
    face3d_min vs pl = (minMaxOf (mkFace vs pl)).1 ∧
    face3d_max vs pl = (minMaxOf (mkFace vs pl)).2 := by
  show _ = calcMinMax3 vs ∧ _ = (calcMinMax3 vs).1 ∧ _ = (calcMinMax3 vs).2
  rw [← mm3Fold_eq vs]
  exact ⟨rfl, rfl, rfl⟩

omit [IsStrictOrderedRing α] in
/-- Generated `face3d_center` (`Face3D.center`) = hand `C03c.centerOfF` of the fresh face. -/
theorem face3d_center_eq (vs : List (V3 α)) (pl : PlaneS α) :
    face3d_center vs pl = C03c.centerOfF (mkFace vs pl) := by
  show _ = (⟨((calcMinMax3 vs).1.x + (calcMinMax3 vs).2.x) / 2,
    ((calcMinMax3 vs).1.y + (calcMinMax3 vs).2.y) / 2,
    ((calcMinMax3 vs).1.z + (calcMinMax3 vs).2.z) / 2⟩ : V3 α)
  rw [← mm3Fold_eq vs]
  rfl

omit [IsStrictOrderedRing α] in
/-- Generated `face3d_normal` (`Face3D.normal`) = the normal of the plane slot of the hand
state. -/
theorem face3d_normal_eq (vs : List (V3 α)) (pl : PlaneS α) :
    face3d_normal vs pl = (mkFace vs pl).plane.n := rfl

/-! ## Mesh2D / Mesh3D / Base2DIn2D / Base2DIn3D bounding boxes -/

omit [IsStrictOrderedRing α] in
/-- Generated `mesh2d_calculate_min_max/min/max/center` (`Mesh2D._calculate_min_max`, `.min`,
`.max`, `.center`) = hand `MeshCache.calcMinMax` / `trueCenter`. -/
theorem mesh2d_min_max_eq (vs : List (V2 α)) :
    mesh2d_calculate_min_max vs = calcMinMax vs ∧ mesh2d_min vs = (calcMinMax vs).1 ∧
    mesh2d_max vs = (calcMinMax vs).2 ∧ mesh2d_center vs = trueCenter vs := by
  unfold trueCenter
  rw [← mm2Fold_eq vs]
  exact ⟨rfl, rfl, rfl, rfl⟩

omit [IsStrictOrderedRing α] in
/-- Generated `mesh3d_calculate_min_max/min/max/center` (`Mesh3D._calculate_min_max`, …) = hand
`PolylineCache.calcMinMax3` / `C03c.centerOf3` (the hand `Mesh3C` machine has no bounding-box
slots; the formula is the one of `Base2DIn3D`). -/
theorem mesh3d_min_max_eq (vs : List (V3 α)) :
    mesh3d_calculate_min_max vs = calcMinMax3 vs ∧ mesh3d_min vs = (calcMinMax3 vs).1 ∧
    mesh3d_max vs = (calcMinMax3 vs).2 ∧ mesh3d_center vs = C03c.centerOf3 vs := by
  unfold C03c.centerOf3
  rw [← mm3Fold_eq vs]
  exact ⟨rfl, rfl, rfl, rfl⟩

omit [IsStrictOrderedRing α] in
/-- Generated `base2d2_calculate_min_max/min/max/center` (`Base2DIn2D`) = hand `calcMinMax` /
`C03c.centerOf2`. -/
theorem base2d2_min_max_eq (vs : List (V2 α)) :
    base2d2_calculate_min_max vs = calcMinMax vs ∧ base2d2_min vs = (calcMinMax vs).1 ∧
    base2d2_max vs = (calcMinMax vs).2 ∧ base2d2_center vs = C03c.centerOf2 vs := by
  unfold C03c.centerOf2
  rw [← mm2Fold_eq vs]
  exact ⟨rfl, rfl, rfl, rfl⟩

omit [IsStrictOrderedRing α] in
/-- Generated `base2d3_calculate_min_max/min/max/center` (`Base2DIn3D`) = hand `calcMinMax3` /
`C03c.centerOf3`. -/
theorem base2d3_min_max_eq (vs : List (V3 α)) :
    base2d3_calculate_min_max vs = calcMinMax3 vs ∧ base2d3_min vs = (calcMinMax3 vs).1 ∧
    base2d3_max vs = (calcMinMax3 vs).2 ∧ base2d3_center vs = C03c.centerOf3 vs := by
  unfold C03c.centerOf3
  rw [← mm3Fold_eq vs]
  exact ⟨rfl, rfl, rfl, rfl⟩

/-! ## Mesh2D quadrilateral faces: the geometric decision of the cache machine

The hand `Mesh2C` machine is generic in `Kern.diag02` (which diagonal `_quad_to_triangles`
picks); `MeshCache.stdKern tv` is its literal transcription.  With the library's test vector
`Vector2D(1, 0.00001)` (exact double) it IS the generated decision, and the hand
`quadCentroid` / `faceAreaCentroid` / `triangulateFace` are the generated kernels. -/

/-- The library's default test vector `Vector2D(1, 0.00001)` as an exact rational. -/
def tv0 : V2 α := ⟨1, (5902958103587057 : α) / 590295810358705651712⟩

omit [IsStrictOrderedRing α] in
/-- Generated `mesh2d_concave_quad_to_triangles` (`Mesh2D._concave_quad_to_triangles`) = the
hand `MeshCache.isPointInside` test of the midpoint of the diagonal `0–2`. -/
theorem mesh2d_concave_quad_to_triangles_eq (a b c d : V2 α) :
    mesh2d_concave_quad_to_triangles (a, b, c, d) =
      if MeshCache.isPointInside [a, b, c, d]
          ⟨a.x + (c.x - a.x) * (1 / 2), a.y + (c.y - a.y) * (1 / 2)⟩ tv0 = true
      then [(0, 1, 2), (2, 3, 0)] else [(1, 2, 3), (3, 0, 1)] := by
  rw [isPointInside_quad]
  unfold mesh2d_concave_quad_to_triangles edgeHit does_intersection_exist_line2d_sr tv0
  simp only [decide_eq_true_eq, ite_not]

omit [IsStrictOrderedRing α] in
/-- Generated `mesh2d_quad_to_triangles` (`Mesh2D._quad_to_triangles`) = the decision
`(MeshCache.stdKern tv0).diag02` of the hand cache machine. -/
theorem mesh2d_quad_to_triangles_eq (a b c d : V2 α) :
    mesh2d_quad_to_triangles (a, b, c, d) =
      if (MeshCache.stdKern (tv0 : V2 α)).diag02 a b c d = true
      then [(0, 1, 2), (2, 3, 0)] else [(1, 2, 3), (3, 0, 1)] := by
  refine (quad_tree _ _ _ _ _ (mesh2d_concave_quad_to_triangles (a, b, c, d))).trans ?_
  rw [mesh2d_concave_quad_to_triangles_eq]
  unfold MeshCache.stdKern
  simp only []
  generalize MeshCache.isPointInside [a, b, c, d] _ _ = ipi
  show (if ((turnPos c d a == turnPos b c d) && (turnPos d a b == turnPos b c d)
      && (turnPos a b c == turnPos b c d)) = true then _ else _) = _
  cases ((turnPos c d a == turnPos b c d) && (turnPos d a b == turnPos b c d)
      && (turnPos a b c == turnPos b c d)) <;> cases ipi <;> rfl

omit [IsStrictOrderedRing α] in
/-- Generated `mesh2d_quad_centroid` (`Mesh2D._quad_centroid`) = hand `MeshCache.quadCentroid`
with the literal decision `stdKern tv0`. -/
theorem mesh2d_quad_centroid_eq (a b c d : V2 α) :
    mesh2d_quad_centroid (a, b, c, d) = quadCentroid (MeshCache.stdKern (tv0 : V2 α)) a b c d := by
  rw [quadCentroid_ite]
  unfold MeshCache.stdKern
  simp only []
  rw [isPointInside_quad]
  exact (quad_tree_sel _ _ _ _ _ _ _ _ (centOf2Tris a b c c d a)
    (centOf2Tris b c d d a b)).trans rfl

/-- One entry of `face_area_centroids`: hand `MeshCache.faceAreaCentroid (stdKern tv0)` = the
generated `mesh2d_tri_centroid` on triangles and `mesh2d_quad_centroid` on quadrilaterals. -/
theorem faceAreaCentroid_is_generated (a b c d : V2 α) :
    faceAreaCentroid (MeshCache.stdKern (tv0 : V2 α)) [a, b, c] = mesh2d_tri_centroid (a, b, c) ∧
    faceAreaCentroid (MeshCache.stdKern (tv0 : V2 α)) [a, b, c, d]
      = mesh2d_quad_centroid (a, b, c, d) :=
  ⟨(C03b.kernels_are_generated a b c d).2.2.2.2, (mesh2d_quad_centroid_eq a b c d).symm⟩

omit [IsStrictOrderedRing α] in
/-- One face of `Mesh2D.triangulated`: hand `MeshCache.triangulateFace (stdKern tv0)` on a quad
face `[i, j, k, l]` = the generated `_quad_to_triangles` of its vertices, re-indexed
(`tuple(face[i] for i in tri)`). -/
theorem triangulateFace_is_generated (vs : List (V2 α)) (i j k l : Nat) :
    triangulateFace (MeshCache.stdKern (tv0 : V2 α)) vs [i, j, k, l] =
      (mesh2d_quad_to_triangles
        (vs.getD i ⟨0, 0⟩, vs.getD j ⟨0, 0⟩, vs.getD k ⟨0, 0⟩, vs.getD l ⟨0, 0⟩)).map
        (fun t => [[i, j, k, l].getD t.1 0, [i, j, k, l].getD t.2.1 0,
                   [i, j, k, l].getD t.2.2 0]) := by
  rw [mesh2d_quad_to_triangles_eq]
  simp only [triangulateFace]
  cases (MeshCache.stdKern (tv0 : V2 α)).diag02 (vs.getD i ⟨0, 0⟩) (vs.getD j ⟨0, 0⟩)
    (vs.getD k ⟨0, 0⟩) (vs.getD l ⟨0, 0⟩) <;> rfl

/-! ## Corollaries: the C03 theorems about the regenerated getters -/

/-- **C03 for Polyline2D, about the regenerated getters** (transport of
`C03c.pread2_after_history`).  After any admissible history of reads, copies, transforms,
scalings, reversals, colinear-vertex removals, starting from a valid state (e.g. a fresh
polyline), every memoising getter of the hand machine answers exactly what the GENERATED
`Polyline2D.segments / length / is_self_intersecting / min / max / center` compute from the
current vertices. -/
theorem polyline2_reads_are_generated (M : MathOps α) (s0 : PL2 α) (h0 : C03c.PInv2 M s0)
    (ops : List (Op2 α)) (hv : C03c.ValidHist2 M s0 ops) :
    let s := ops.foldl (step2 M) s0
    (readSegments2 s).1 = polyline2_segments s.vertices s.interpolated ∧
    (readLength2 M s).1 = polyline2_length M s.vertices s.interpolated ∧
    (readSelfInt2 s).1 = polyline2_is_self_intersecting s.vertices s.interpolated ∧
    (readMin2 s).1 = polyline2_min s.vertices s.interpolated ∧
    (readMax2 s).1 = polyline2_max s.vertices s.interpolated ∧
    (readCenter2 s).1 = polyline2_center s.vertices s.interpolated := by
  intro s
  have hi : C03c.PInv2 M s := C03c.pinv2_history M s0 h0 ops hv
  refine ⟨?_, ?_, ?_, ?_, ?_, ?_⟩
  · rw [polyline2_segments_eq]; exact (C03c.readSegments2_spec M s hi).1
  · rw [polyline2_length_eq]; exact (C03c.readLength2_spec M s hi).1
  · rw [polyline2_is_self_intersecting_eq]; exact (C03c.readSelfInt2_spec M s hi).1
  · rw [(polyline2_min_max_eq _ _).1]; exact (C03c.readMin2_spec M s hi).1
  · rw [(polyline2_min_max_eq _ _).2]; exact (C03c.readMax2_spec M s hi).1
  · rw [polyline2_center_eq]; exact (C03c.readCenter2_spec M s hi).1

/-- After `length` has been read on ANY reachable state, the `_length` slot holds the generated
`polyline2_length` of the current vertices (the cached value is the regenerated fresh value). -/
theorem polyline2_cached_length_is_generated (M : MathOps α) (s0 : PL2 α) (h0 : C03c.PInv2 M s0)
    (ops : List (Op2 α)) (hv : C03c.ValidHist2 M s0 ops) :
    let s := ops.foldl (step2 M) s0
    (readLength2 M s).2.length = some (polyline2_length M s.vertices s.interpolated) ∧
    (readLength2 M s).2.vertices = s.vertices := by
  intro s
  have hi : C03c.PInv2 M s := C03c.pinv2_history M s0 h0 ops hv
  obtain ⟨e1, e2, -, -⟩ := C03c.readLength2_spec M s hi
  refine ⟨?_, e2⟩
  rw [polyline2_length_eq, ← e1]
  unfold readLength2
  cases hl : s.length with
  | some a => simp only [hl]
  | none => simp only []

/-- **C03 for Polyline3D, about the regenerated getters** (transport of
`C03c.pinv3_history` + the getter specifications). -/
theorem polyline3_reads_are_generated (M : MathOps α) (s0 : PL3 α) (h0 : C03c.PInv3 M s0)
    (ops : List (Op3 α)) (hv : ∀ op ∈ ops, C03c.Valid3 op) :
    let s := ops.foldl (step3 M) s0
    (readSegments3 s).1 = polyline3_segments s.vertices s.interpolated ∧
    (readLength3 M s).1 = polyline3_length M s.vertices s.interpolated ∧
    (readMin3 s).1 = polyline3_min s.vertices s.interpolated ∧
    (readMax3 s).1 = polyline3_max s.vertices s.interpolated ∧
    (readCenter3 s).1 = polyline3_center s.vertices s.interpolated := by
  intro s
  have hi : C03c.PInv3 M s := C03c.pinv3_history M s0 h0 ops hv
  refine ⟨?_, ?_, ?_, ?_, ?_⟩
  · rw [polyline3_segments_eq]; exact (C03c.readSegments3_spec M s hi).1
  · rw [polyline3_length_eq]; exact (C03c.readLength3_spec M s hi).1
  · rw [(polyline3_min_max_eq _ _).1]; exact (C03c.readMin3_spec M s hi).1
  · rw [(polyline3_min_max_eq _ _).2]; exact (C03c.readMax3_spec M s hi).1
  · rw [polyline3_center_eq]; exact (C03c.readCenter3_spec M s hi).1

/-- **C03 for Face3D (faces without holes), about the regenerated getters** (transport of
`C03c.finv_history` + the getter specifications).  After any admissible history from a valid
state, if the reached face has no holes and at least one vertex, every memoising getter
answers what the GENERATED `Face3D.perimeter / area / is_convex / is_self_intersecting / min /
max / center / polygon2d / boundary_polygon2d / boundary_segments` compute from the current
`_vertices` and `_plane`. -/
theorem face3d_reads_are_generated (K : FaceCache.Kern α) (M : MathOps α)
    (hsqrt : ∀ x, 0 ≤ x → M.sqrt x * M.sqrt x = x ∧ 0 ≤ M.sqrt x)
    (s0 : FaceC α) (h0 : C03c.FInv K M s0) (ops : List (FaceCache.Op α))
    (hv : C03c.ValidHistF K M s0 ops)
    (hh : (ops.foldl (FaceCache.step K M) s0).holes = none)
    (hne : (ops.foldl (FaceCache.step K M) s0).vertices ≠ []) :
    let s := ops.foldl (FaceCache.step K M) s0
    (readPerimeter M s).1 = face3d_perimeter M s.vertices s.plane ∧
    (FaceCache.readArea s).1 = face3d_area s.vertices s.plane ∧
    (readIsConvex s).1 = face3d_is_convex s.vertices s.plane ∧
    (readSelfInt s).1 = face3d_is_self_intersecting s.vertices s.plane ∧
    (FaceCache.readMin s).1 = face3d_min s.vertices s.plane ∧
    (FaceCache.readMax s).1 = face3d_max s.vertices s.plane ∧
    (FaceCache.readCenter s).1 = face3d_center s.vertices s.plane ∧
    (readPolygon2d s).1 = face3d_polygon2d s.vertices s.plane ∧
    (readBoundaryPolygon2d s).1 = face3d_boundary_polygon2d s.vertices s.plane ∧
    (readBoundarySegments s).1 = face3d_boundary_segments s.vertices s.plane := by
  intro s
  have hi : C03c.FInv K M s := C03c.finv_history K M hsqrt s0 h0 ops hv
  have hb : (mkFace s.vertices s.plane).boundary = s.boundary := (hi.wf hh).symm
  obtain ⟨c1, c2, -, c4, -, c6, c7, c8, c9, -, -, c12, c13⟩ :=
    C03c.fresh_congr K M s (mkFace s.vertices s.plane) hb hh.symm rfl rfl
  refine ⟨?_, ?_, ?_, ?_, ?_, ?_, ?_, ?_, ?_, ?_⟩
  · rw [face3d_perimeter_eq M _ _ hne, c6]; exact (C03c.readPerimeter_spec K M s hi).1
  · rw [(face3d_area_eq _ _).1, c7]; exact (C03c.readArea_spec K M s hi).1
  · rw [face3d_is_convex_eq _ _ hne, c8]; exact (C03c.readIsConvex_spec K M s hi).1
  · rw [face3d_is_self_intersecting_eq _ _ hne, c9]; exact (C03c.readSelfInt_spec K M s hi).1
  · rw [(face3d_min_max_eq _ _).2.1, c12]; exact (C03c.readMin_spec K M s hi).1
  · rw [(face3d_min_max_eq _ _).2.2, c12]; exact (C03c.readMax_spec K M s hi).1
  · rw [face3d_center_eq, c13]; exact (C03c.readCenter_spec K M s hi).1
  · rw [(face3d_polygon2d_eq _ _).1, c1]; exact (C03c.readPolygon2d_spec K M s hi).1
  · rw [(face3d_polygon2d_eq _ _).2.1, c2]; exact (C03c.readBoundaryPolygon2d_spec K M s hi).1
  · rw [face3d_boundary_segments_eq _ _ hne, c4]
    exact (C03c.readBoundarySegments_spec K M s hi).1

/-- **C03 for Mesh2D bounding boxes, about the regenerated getters** (transport of
`C03b.minv_history`): after any admissible history the `min / max / center` getters answer
what the GENERATED `Mesh2D.min / max / center` compute from the current vertices. -/
theorem mesh2d_reads_are_generated (K : MeshCache.Kern α) (s0 : Mesh2C α) (h0 : C03b.MInv K s0)
    (ops : List (MeshCache.Op α)) (hv : ∀ op ∈ ops, C03b.Valid K op) :
    let s := ops.foldl (MeshCache.step K) s0
    (MeshCache.readMin s).1 = mesh2d_min s.vertices ∧
    (MeshCache.readMax s).1 = mesh2d_max s.vertices ∧
    (MeshCache.readCenter s).1 = mesh2d_center s.vertices := by
  intro s
  have hi : C03b.MInv K s := C03b.minv_history K s0 h0 ops hv
  obtain ⟨-, e2, e3, e4⟩ := mesh2d_min_max_eq s.vertices
  exact ⟨e2 ▸ (C03b.readMin_spec K s hi).1, e3 ▸ (C03b.readMax_spec K s hi).1,
    e4 ▸ (C03b.readCenter_spec K s hi).1⟩

/-! ## Non-vacuity (ℚ): both sides of the ties on concrete data -/

/-- A polyline whose third segment crosses its first one. -/
def exZ : List (V2 ℚ) := [⟨0, 0⟩, ⟨2, 0⟩, ⟨2, 2⟩, ⟨1, -1⟩, ⟨3, -1⟩]
/-- An L-shaped (concave, simple) vertex list. -/
def exL : List (V2 ℚ) := [⟨0, 0⟩, ⟨3, 0⟩, ⟨3, 1⟩, ⟨1, 1⟩, ⟨1, 3⟩, ⟨0, 3⟩]

example : polyline2_is_self_intersecting exZ false = true ∧ selfInt2 exZ = true := by
  decide +kernel
example : polyline2_is_self_intersecting exL false = false ∧ selfInt2 exL = false := by
  decide +kernel
example : polyline2_segments exZ false
      = [⟨⟨0, 0⟩, ⟨2, 0⟩⟩, ⟨⟨2, 0⟩, ⟨0, 2⟩⟩, ⟨⟨2, 2⟩, ⟨-1, -3⟩⟩, ⟨⟨1, -1⟩, ⟨2, 0⟩⟩]
    ∧ segs2 exZ = [⟨⟨0, 0⟩, ⟨2, 0⟩⟩, ⟨⟨2, 0⟩, ⟨0, 2⟩⟩, ⟨⟨2, 2⟩, ⟨-1, -3⟩⟩, ⟨⟨1, -1⟩, ⟨2, 0⟩⟩] := by
  decide +kernel
example : polygon2d_is_convex exL = false ∧ isConvex2 exL = false ∧
    polygon2d_is_convex [⟨0, 0⟩, ⟨1, 0⟩, ⟨1, 1⟩, (⟨0, 1⟩ : V2 ℚ)] = true := by decide +kernel
example : polygon2d_is_self_intersecting exZ = true ∧ polySelfInt2 exZ = true ∧
    polygon2d_is_self_intersecting exL = false := by decide +kernel
example : polygon2d_min exL = ⟨0, 0⟩ ∧ polygon2d_max exL = ⟨3, 3⟩ ∧
    calcMinMax exL = (⟨0, 0⟩, ⟨3, 3⟩) ∧ polygon2d_center exL = ⟨3 / 2, 3 / 2⟩ := by
  decide +kernel
example : face3d_boundary_segments [⟨0, 0, 0⟩, ⟨1, 0, 0⟩, (⟨0, 1, 0⟩ : V3 ℚ)]
      ⟨⟨0, 0, 1⟩, ⟨0, 0, 0⟩, 0, ⟨1, 0, 0⟩, ⟨0, 1, 0⟩⟩
    = [⟨⟨0, 0, 0⟩, ⟨1, 0, 0⟩⟩, ⟨⟨1, 0, 0⟩, ⟨-1, 1, 0⟩⟩, ⟨⟨0, 1, 0⟩, ⟨0, -1, 0⟩⟩] := by
  decide +kernel
example : mesh2d_quad_to_triangles ((⟨0, 0⟩, ⟨2, 0⟩, ⟨1, 1⟩, ⟨2, 3⟩) : V2 ℚ × V2 ℚ × V2 ℚ × V2 ℚ)
      = [(0, 1, 2), (2, 3, 0)] ∧
    mesh2d_quad_to_triangles ((⟨2, 0⟩, ⟨1, 1⟩, ⟨2, 3⟩, ⟨0, 0⟩) : V2 ℚ × V2 ℚ × V2 ℚ × V2 ℚ)
      = [(1, 2, 3), (3, 0, 1)] ∧
    (MeshCache.stdKern (tv0 : V2 ℚ)).diag02 ⟨2, 0⟩ ⟨1, 1⟩ ⟨2, 3⟩ ⟨0, 0⟩ = false := by
  decide +kernel
/-- The hypothesis `vs ≠ []` of the segment ties is needed: on the empty list the generated
loop (Python: `IndexError`) and the hand recursion differ. -/
example : polygon2d_segments ([] : List (V2 ℚ)) ≠ loopSegs2 [] := by decide +kernel

end Lbg.Props.C03g
