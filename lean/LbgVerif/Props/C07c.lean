/-
  C07c — vertex welding of `Polyface3D.from_faces(faces, tolerance)` (property C07, mechanism
  "vertex welding by tolerance").  Subject: the LITERAL hand model `Model/Weld.lean`
  (`weld eqv faces = (vertices, face_indices)`, generic in the point type and in the test
  `eqv v vert = v.is_equivalent(vert, tol)`; `weld3` uses the generated `Point3D.is_equivalent`
  kernel), composed with `Model/EdgeInfo.lean` (`Polyface3D.__init__`).  The correspondence
  module `corr/weld.py` runs model and real code side by side.

  For EVERY face list and EVERY test `eqv` (no assumption):
    1. `weld_shape`, `weld_index_in_range`, `weld_readback`: the index structure has the shape
       of the input, every index is in range and the vertex it points at is the input point
       itself or a vertex the input point is equivalent to;
       `vertices_are_input_points`: the vertex list is a subsequence of the input points in
       reading order (welded vertices are literally input points, first occurrence first);
       `vertices_later_not_equivalent_to_earlier`.
  With `eqv` reflexive on the input points (`Point3D.is_equivalent` with `tol ≥ 0`):
    2. `weld_readback_refl`, `weld_closed_form`: every index is the position of the FIRST vertex
       of the final list that its point is equivalent to.
  With `eqv` symmetric: `vertices_no_two_equivalent`.  With `eqv` transitive:
    3. `vertex_is_first_of_class`: the vertex stored for a point is the first INPUT point (in
       reading order) the point is equivalent to.
    `chain_counterexample` (ℚ, three points in a row, each within `tol` of the next): without
    transitivity the number of welded vertices depends on the start vertex of the loop.
  With `eqv` an equivalence relation on the input points:
    4. `weld_presentation`: faces permuted, loops restarted / reversed ⇒ an injective
       renumbering `σ` of the vertices (a bijection between the two vertex lists, matched
       vertices equivalent) carries one index structure to a re-presentation of the other;
       `weld_presentation_edge_info`: same `is_solid`, same numbers of naked / internal /
       non-manifold edges.
  With exact `eqv` (equality):
    5. `weld_exact_readback` (literal read-back), `weld_exact_index_injective`,
       `weld_exact_shared_edge`: two faces share an undirected edge of the index structure iff
       they share its two end points.
  6. `weld3_*`: the hypotheses hold for the generated `Point3D.is_equivalent` kernel as far as
     they do (reflexive for `tol ≥ 0`, symmetric always, NOT transitive).

  Not proved here: anything about floating-point `abs(a - b) <= tol` (the correspondence module
  keeps inputs away from the threshold) and the re-orientation by `get_outward_faces`
  (`Props/C07b.lean`); `from_offset_face` / `merge_overlapping_edges` are not modelled.
-/
import LbgVerif.Model.Weld
import LbgVerif.Lemmas.Weld
import LbgVerif.Lemmas.WeldRelabel
import LbgVerif.Props.C07
import Mathlib.Data.Finset.Card
import Mathlib.Data.List.Rotate
import Mathlib.Algebra.Order.Field.Rat

set_option linter.unusedSectionVars false
set_option linter.unusedVariables false

namespace Lbg.Props.C07c
open Lbg Lbg.Gen Lbg.Model.Weld Lbg.Model.EdgeInfo Lbg.Spec.EdgeCount Lbg.Lemmas.Weld
  Lbg.Lemmas.WeldRelabel Lbg.Lemmas.EdgeInfo

variable {P : Type}

/-- All input points in the order `from_faces` reads them. -/
def points (faces : List (List (List P))) : List P := faces.flatten.flatten

theorem mem_points {faces : List (List (List P))} {p : P} :
    p ∈ points faces ↔ ∃ f ∈ faces, ∃ l ∈ f, p ∈ l := by
  unfold points
  simp only [List.mem_flatten]
  constructor
  · rintro ⟨l, ⟨f, hf, hl⟩, hp⟩; exact ⟨f, hf, l, hl, hp⟩
  · rintro ⟨f, hf, l, hl, hp⟩; exact ⟨l, ⟨f, hf, hl⟩, hp⟩

/-- Three-level `Forall₂`: faces / loops / points against faces / loops / indices. -/
abbrev Forall₃ {A B : Type} (R : A → B → Prop) :
    List (List (List A)) → List (List (List B)) → Prop :=
  List.Forall₂ (List.Forall₂ (List.Forall₂ R))

/-! ## 1. No assumption on `eqv` -/

/-- Index `i` reads back, through the vertex list `vs`, the point `p` itself or a vertex `p`
is equivalent to. -/
def Reads (eqv : P → P → Bool) (vs : List P) (p : P) (i : Nat) : Prop :=
  ∃ w, vs[i]? = some w ∧ (eqv p w = true ∨ w = p)

/-- **Read-back** — for every face list and every test: `face_indices` has one index per input
point, in the same nesting, and the vertex at that index is the input point itself (when it
was appended) or a vertex the input point tested equivalent to. -/
theorem weld_readback (eqv : P → P → Bool) (faces : List (List (List P))) :
    Forall₃ (Reads eqv (weld eqv faces).1) faces (weld eqv faces).2 := by
  have h := weld_inv eqv (fun _ => True) (Reads eqv)
    (fun s t a b hst ⟨w, hw, hr⟩ => ⟨w, getElem?_of_prefix hst hw, hr⟩)
    (fun s a _ => by
      unfold weldPoint Reads
      cases hf : findFirst eqv a s with
      | some i =>
        obtain ⟨w, hw, hv, _⟩ := findFirst_some eqv hf
        exact ⟨w, hw, Or.inl hv⟩
      | none => exact ⟨a, by simp, Or.inr rfl⟩)
    faces (fun _ _ _ _ _ _ => trivial)
  exact List.Forall₂.imp (fun _ _ h2 => List.Forall₂.imp (fun _ _ h3 =>
    List.Forall₂.imp (fun _ _ h4 => h4.2) h3) h2) h

/-- **Every index is in range.** -/
theorem weld_index_in_range (eqv : P → P → Bool) (faces : List (List (List P))) :
    ∀ f ∈ (weld eqv faces).2, ∀ l ∈ f, ∀ i ∈ l, i < (weld eqv faces).1.length := by
  intro f hf l hl i hi
  obtain ⟨_, _, h2⟩ := forall₂_right_mem (weld_readback eqv faces) hf
  obtain ⟨_, _, h3⟩ := forall₂_right_mem h2 hl
  obtain ⟨_, _, w, hw, _⟩ := forall₂_right_mem h3 hi
  exact (List.getElem?_eq_some_iff.mp hw).1

/-- `face_indices` has the shape of the input: as many faces, per face as many loops, per loop
as many indices as points. -/
theorem weld_shape (eqv : P → P → Bool) (faces : List (List (List P))) :
    (weld eqv faces).2.map (List.map List.length) = faces.map (List.map List.length) :=
  forall₃_shape (weld_readback eqv faces)

/-- **Welded vertices are literally input points**: the vertex list is a subsequence of the
input points in reading order (each class is represented by the first of its points that the
loop meets — see `vertex_is_first_of_class`). -/
theorem vertices_are_input_points (eqv : P → P → Bool) (faces : List (List (List P))) :
    ((weld eqv faces).1).Sublist (points faces) := by
  rw [weld_fst]
  exact vertsFrom_sublist eqv _

/-- A vertex is appended only when it matched none of the vertices stored before it. -/
theorem vertices_later_not_equivalent_to_earlier (eqv : P → P → Bool)
    (faces : List (List (List P))) :
    ((weld eqv faces).1).Pairwise (fun earlier later => eqv later earlier = false) := by
  rw [weld_fst]
  exact vertsFrom_pairwise eqv List.Pairwise.nil _

/-! ## 2. Reflexive test -/

/-- With a test that is reflexive on the input points the read-back is point-wise equivalent
to the input. -/
theorem weld_readback_refl (eqv : P → P → Bool) (faces : List (List (List P)))
    (hrefl : ∀ p ∈ points faces, eqv p p = true) :
    Forall₃ (fun p i => ∃ w, (weld eqv faces).1[i]? = some w ∧ eqv p w = true)
      faces (weld eqv faces).2 := by
  have h := weld_inv eqv (fun p => eqv p p = true) (Reads eqv)
    (fun s t a b hst ⟨w, hw, hr⟩ => ⟨w, getElem?_of_prefix hst hw, hr⟩)
    (fun s a _ => by
      unfold weldPoint Reads
      cases hf : findFirst eqv a s with
      | some i =>
        obtain ⟨w, hw, hv, _⟩ := findFirst_some eqv hf
        exact ⟨w, hw, Or.inl hv⟩
      | none => exact ⟨a, by simp, Or.inr rfl⟩)
    faces (fun f hf l hl p hp => hrefl p (mem_points.mpr ⟨f, hf, l, hl, hp⟩))
  refine List.Forall₂.imp (fun _ _ h2 => List.Forall₂.imp (fun _ _ h3 =>
    List.Forall₂.imp (fun p i h4 => ?_) h3) h2) h
  obtain ⟨hp, w, hw, hr⟩ := h4
  refine ⟨w, hw, ?_⟩
  rcases hr with hr | rfl
  · exact hr
  · exact hp

/-- With a reflexive test every stored index is the first match of its point in the FINAL
vertex list (indeed in every extension of the vertex list at the time it was stored). -/
theorem weld_first_match (eqv : P → P → Bool) (faces : List (List (List P)))
    (hrefl : ∀ p ∈ points faces, eqv p p = true) :
    Forall₃ (fun p i => findFirst eqv p (weld eqv faces).1 = some i) faces (weld eqv faces).2 := by
  have h := weld_inv eqv (fun p => eqv p p = true)
    (fun s p i => ∀ t, s <+: t → findFirst eqv p t = some i)
    (fun s t a b hst hr u htu => hr u (List.IsPrefix.trans hst htu))
    (fun s a ha u hu => by
      obtain ⟨m, rfl⟩ := hu
      unfold weldPoint
      cases hf : findFirst eqv a s with
      | some i => exact findFirst_append_some eqv hf m
      | none =>
        simp only [List.append_assoc]
        rw [findFirst_append_none eqv hf, List.singleton_append, findFirst_cons, if_pos ha]
        simp)
    faces (fun f hf l hl p hp => hrefl p (mem_points.mpr ⟨f, hf, l, hl, hp⟩))
  exact List.Forall₂.imp (fun _ _ h2 => List.Forall₂.imp (fun _ _ h3 =>
    List.Forall₂.imp (fun p i h4 => h4.2 _ (List.prefix_refl _)) h3) h2) h

/-- **Closed form** — with a reflexive test, `face_indices` is the input with every point
replaced by the position of the first vertex OF THE FINAL LIST it is equivalent to. -/
theorem weld_closed_form (eqv : P → P → Bool) (faces : List (List (List P)))
    (hrefl : ∀ p ∈ points faces, eqv p p = true) :
    (weld eqv faces).2 =
      faces.map (List.map (List.map (idxOf eqv (weld eqv faces).1))) := by
  have h := weld_first_match eqv faces hrefl
  apply forall₂_eq_map
  refine List.Forall₂.imp (fun f g h2 => ?_) h
  apply forall₂_eq_map
  refine List.Forall₂.imp (fun l m h3 => ?_) h2
  apply forall₂_eq_map
  refine List.Forall₂.imp (fun p i h4 => ?_) h3
  unfold idxOf
  rw [h4]
  rfl

/-! ## 3. Symmetric / transitive test -/

/-- **No two equivalent vertices** — if the test is symmetric on the input points, two
DIFFERENT positions of the welded vertex list never hold equivalent points.  (Only symmetry
is needed for this clause; transitivity is what the class structure and the presentation
independence below need.) -/
theorem vertices_no_two_equivalent (eqv : P → P → Bool) (faces : List (List (List P)))
    (hsymm : ∀ a ∈ points faces, ∀ b ∈ points faces, eqv a b = true → eqv b a = true)
    {i j : Nat} {a b : P} (hi : (weld eqv faces).1[i]? = some a)
    (hj : (weld eqv faces).1[j]? = some b) (hab : eqv a b = true) : i = j := by
  have hsub := (vertices_are_input_points eqv faces).subset
  have hba := hsymm a (hsub (List.mem_of_getElem? hi)) b (hsub (List.mem_of_getElem? hj)) hab
  have hp := List.pairwise_iff_getElem.mp (vertices_later_not_equivalent_to_earlier eqv faces)
  obtain ⟨hil, hia⟩ := List.getElem?_eq_some_iff.mp hi
  obtain ⟨hjl, hjb⟩ := List.getElem?_eq_some_iff.mp hj
  rcases Nat.lt_trichotomy i j with hlt | heq | hgt
  · have := hp i j hil hjl hlt
    rw [hia, hjb, hba] at this
    cases this
  · exact heq
  · have := hp j i hjl hil hgt
    rw [hia, hjb, hab] at this
    cases this

/-- **The vertex of a class is its first input point** — if the test is transitive on the
input points, then for every input point `p` the first welded vertex `p` is equivalent to
(the vertex `from_faces` assigns to `p`, by `weld_closed_form`) is the first point of the whole
input, in reading order, that `p` is equivalent to. -/
theorem vertex_is_first_of_class (eqv : P → P → Bool) (faces : List (List (List P)))
    (htr : ∀ a ∈ points faces, ∀ b ∈ points faces, ∀ c ∈ points faces,
      eqv a b = true → eqv b c = true → eqv a c = true) :
    ∀ p ∈ points faces,
      (weld eqv faces).1.find? (fun w => eqv p w) = (points faces).find? (fun w => eqv p w) := by
  intro p hp
  rw [weld_fst]
  exact vertsFrom_find? eqv (fun q => q ∈ points faces)
    (fun a b c ha hb hc => htr a ha b hb c hc) (points faces) (fun q hq => hq) p hp

/-- The same, index by index: with a reflexive and transitive test the vertex stored at the
index of a point is the first input point the point is equivalent to. -/
theorem index_points_at_first_of_class (eqv : P → P → Bool) (faces : List (List (List P)))
    (hrefl : ∀ p ∈ points faces, eqv p p = true)
    (htr : ∀ a ∈ points faces, ∀ b ∈ points faces, ∀ c ∈ points faces,
      eqv a b = true → eqv b c = true → eqv a c = true) :
    Forall₃ (fun p i => p ∈ points faces →
        (weld eqv faces).1[i]? = (points faces).find? (fun w => eqv p w))
      faces (weld eqv faces).2 := by
  refine List.Forall₂.imp (fun _ _ h2 => List.Forall₂.imp (fun _ _ h3 =>
    List.Forall₂.imp (fun p i h4 hp => ?_) h3) h2) (weld_first_match eqv faces hrefl)
  rw [← vertex_is_first_of_class eqv faces htr p hp, ← findFirst_find?, h4]
  rfl

section chain
/-- Three points in a row, each within `tol = 1` of the next. -/
def c0 : V3 ℚ := ⟨0, 0, 0⟩
def c1 : V3 ℚ := ⟨1, 0, 0⟩
def c2 : V3 ℚ := ⟨2, 0, 0⟩

/-- **Transitivity is needed** (ℚ counterexample with the generated `Point3D.is_equivalent`,
`tol = 1`): `c0 ~ c1 ~ c2` but `c0 ≁ c2`.  The triangle `c0 c1 c2` welds to the two vertices
`[c0, c2]` (and `c1`, equivalent to both, is numbered with the first); the same loop started at
`c1` welds to the single vertex `[c1]`.  So without transitivity the number of welded vertices
— hence the index structure — depends on the start vertex. -/
theorem chain_counterexample :
    eqv3 1 c0 c1 = true ∧ eqv3 1 c1 c2 = true ∧ eqv3 1 c0 c2 = false ∧
    weld3 1 [[[c0, c1, c2]]] = ([c0, c2], [[[0, 0, 1]]]) ∧
    [c0, c1, c2].rotate 1 = [c1, c2, c0] ∧
    weld3 1 [[[c1, c2, c0]]] = ([c1], [[[0, 0, 0]]]) := by
  decide +kernel
end chain

/-! ## 4. Equivalence relation: presentation independence -/

/-- The same loop written from another start vertex, possibly in the opposite direction
(any element type; `C07.LoopEquiv` is the instance for vertex numbers). -/
inductive LoopEquivG {β : Type} : List β → List β → Prop
  | rot (l : List β) (n : Nat) : LoopEquivG l (l.rotate n)
  | rev (l : List β) (n : Nat) : LoopEquivG l (l.rotate n).reverse

/-- The same face: loop by loop the same loop (any start, any orientation). -/
def FaceEquivG {β : Type} (f g : List (List β)) : Prop := List.Forall₂ LoopEquivG f g

/-- The same shell given differently: faces shuffled, then each loop of each face restarted
and/or reversed. -/
def SamePresentationG {β : Type} (fs gs : List (List (List β))) : Prop :=
  ∃ hs, fs.Perm hs ∧ List.Forall₂ FaceEquivG hs gs

theorem LoopEquivG.map {β γ : Type} (g : β → γ) {l m : List β} (h : LoopEquivG l m) :
    LoopEquivG (l.map g) (m.map g) := by
  cases h with
  | rot n => rw [List.map_rotate]; exact LoopEquivG.rot _ n
  | rev n => rw [List.map_reverse, List.map_rotate]; exact LoopEquivG.rev _ n

theorem SamePresentationG.map {β γ : Type} (g : β → γ) {fs gs : List (List (List β))}
    (h : SamePresentationG fs gs) :
    SamePresentationG (fs.map (List.map (List.map g))) (gs.map (List.map (List.map g))) := by
  obtain ⟨hs, h1, h2⟩ := h
  refine ⟨hs.map (List.map (List.map g)), h1.map _, ?_⟩
  rw [List.forall₂_map_left_iff, List.forall₂_map_right_iff]
  refine List.Forall₂.imp (fun f f' hff => ?_) h2
  unfold FaceEquivG
  rw [List.forall₂_map_left_iff, List.forall₂_map_right_iff]
  exact List.Forall₂.imp (fun l m hlm => hlm.map g) hff

/-- For vertex numbers the generic notion is the one of `Props/C07.lean`. -/
theorem SamePresentationG.toC07 {fs gs : List (List (List Nat))} (h : SamePresentationG fs gs) :
    C07.SamePresentation fs gs := by
  obtain ⟨hs, h1, h2⟩ := h
  refine ⟨hs, h1, List.Forall₂.imp (fun f g hfg => ?_) h2⟩
  refine List.Forall₂.imp (fun l m hlm => ?_) hfg
  cases hlm with
  | rot n => exact C07.LoopEquiv.rot _ n
  | rev n => exact C07.LoopEquiv.rev _ n

/-- A re-presentation has the same input points (as a multiset). -/
theorem SamePresentationG.points_perm {fs gs : List (List (List P))}
    (h : SamePresentationG fs gs) : (points fs).Perm (points gs) := by
  obtain ⟨hs, h1, h2⟩ := h
  unfold points
  refine (h1.flatten.flatten).trans ?_
  apply flatten2_perm
  refine List.Forall₂.imp (fun f g hfg => ?_) h2
  apply flatten_perm_of_forall₂
  refine List.Forall₂.imp (fun l m hlm => ?_) hfg
  cases hlm with
  | rot n => exact (List.rotate_perm l n).symm
  | rev n => exact ((List.reverse_perm _).trans (List.rotate_perm l n)).symm

/-- **Presentation independence of the welding** — let `eqv` be an equivalence relation on the
input points, and let `B` be the shell `A` with its faces permuted and every loop restarted
and/or reversed.  Then there is an injective renumbering `σ` of the vertices which maps the
positions of `A`'s vertex list onto the positions of `B`'s (the two lists have the same
length; `σ` is the identity beyond them), sends every vertex to an equivalent vertex, and
carries `A`'s `face_indices` to a re-presentation (same permutation / restarts / reversals) of
`B`'s `face_indices`.  The vertex NUMBERING depends on the presentation; the indexed structure
up to renumbering does not. -/
theorem weld_presentation (eqv : P → P → Bool) {A B : List (List (List P))}
    (hE : EqvOn eqv (fun p => p ∈ points A)) (hAB : SamePresentationG A B) :
    ∃ σ : Nat → Nat, Function.Injective σ ∧
      (weld eqv A).1.length = (weld eqv B).1.length ∧
      (∀ i, σ i < (weld eqv B).1.length ↔ i < (weld eqv A).1.length) ∧
      (∀ i a, (weld eqv A).1[i]? = some a →
        ∃ b, (weld eqv B).1[σ i]? = some b ∧ eqv a b = true) ∧
      SamePresentationG (relabel σ (weld eqv A).2) (weld eqv B).2 := by
  have hperm := hAB.points_perm
  have hreflA : ∀ p ∈ points A, eqv p p = true := fun p hp => hE.refl p hp
  have hreflB : ∀ p ∈ points B, eqv p p = true := fun p hp => hE.refl p (hperm.mem_iff.mpr hp)
  have hA : Reps eqv (fun p => p ∈ points A) (weld eqv A).1 := by
    rw [weld_fst]; exact reps_vertsFrom eqv (points A) hreflA
  have hB : Reps eqv (fun p => p ∈ points A) (weld eqv B).1 := by
    rw [weld_fst]
    exact reps_congr (reps_vertsFrom eqv (points B) hreflB) (fun p => hperm.mem_iff.symm)
  have hlen : (weld eqv A).1.length = (weld eqv B).1.length := by
    apply Nat.le_antisymm
    · have := Finset.card_le_card_of_injOn (s := Finset.range (weld eqv A).1.length)
        (t := Finset.range (weld eqv B).1.length) (transfer eqv (weld eqv A).1 (weld eqv B).1)
        (fun i hi => by
          simp only [Finset.coe_range, Set.mem_Iio] at hi ⊢
          exact transfer_lt hE hA hB hi)
        (fun i hi j hj h => by
          simp only [Finset.coe_range, Set.mem_Iio] at hi hj
          exact transfer_injOn hE hA hB hi hj h)
      simpa using this
    · have := Finset.card_le_card_of_injOn (s := Finset.range (weld eqv B).1.length)
        (t := Finset.range (weld eqv A).1.length) (transfer eqv (weld eqv B).1 (weld eqv A).1)
        (fun i hi => by
          simp only [Finset.coe_range, Set.mem_Iio] at hi ⊢
          exact transfer_lt hE hB hA hi)
        (fun i hi j hj h => by
          simp only [Finset.coe_range, Set.mem_Iio] at hi hj
          exact transfer_injOn hE hB hA hi hj h)
      simpa using this
  have hbeyond : ∀ i, (weld eqv A).1.length ≤ i →
      transfer eqv (weld eqv A).1 (weld eqv B).1 i = i := by
    intro i hi
    unfold transfer
    rw [List.getElem?_eq_none hi]
  refine ⟨transfer eqv (weld eqv A).1 (weld eqv B).1, ?_, hlen, ?_, ?_, ?_⟩
  · intro i j h
    by_cases hi : i < (weld eqv A).1.length <;> by_cases hj : j < (weld eqv A).1.length
    · exact transfer_injOn hE hA hB hi hj h
    · have h1 := transfer_lt hE hA hB hi
      rw [h, hbeyond j (Nat.le_of_not_lt hj)] at h1
      omega
    · have h1 := transfer_lt hE hA hB hj
      rw [← h, hbeyond i (Nat.le_of_not_lt hi)] at h1
      omega
    · rw [hbeyond i (Nat.le_of_not_lt hi), hbeyond j (Nat.le_of_not_lt hj)] at h
      exact h
  · intro i
    constructor
    · intro h
      by_contra hi
      rw [hbeyond i (Nat.le_of_not_lt hi)] at h
      omega
    · exact transfer_lt hE hA hB
  · intro i a hi
    exact transfer_spec hE hA hB hi
  · rw [weld_closed_form eqv A hreflA, weld_closed_form eqv B hreflB]
    unfold relabel
    have h1 : (A.map (List.map (List.map (idxOf eqv (weld eqv A).1)))).map
        (List.map (List.map (transfer eqv (weld eqv A).1 (weld eqv B).1))) =
        A.map (List.map (List.map (fun p =>
          transfer eqv (weld eqv A).1 (weld eqv B).1 (idxOf eqv (weld eqv A).1 p)))) := by
      simp only [List.map_map, Function.comp_def]
    have h2 : B.map (List.map (List.map (idxOf eqv (weld eqv B).1))) =
        B.map (List.map (List.map (fun p =>
          transfer eqv (weld eqv A).1 (weld eqv B).1 (idxOf eqv (weld eqv A).1 p)))) := by
      apply map₃_congr
      intro f hf l hl p hp
      have hpA : p ∈ points A := hperm.mem_iff.mpr (mem_points.mpr ⟨f, hf, l, hl, hp⟩)
      exact transfer_idxOf hE hA hB hpA
    rw [h1, h2]
    exact hAB.map _

/-! ### Consequences for `Polyface3D.__init__` -/

/-- How many naked / internal / non-manifold edges the constructor reports. -/
def classCounts (fs : List (List (List Nat))) : Nat × Nat × Nat :=
  ((nakedEdges (edgeInfo fs)).length, (internalEdges (edgeInfo fs)).length,
    (nonManifoldEdges (edgeInfo fs)).length)

/-- The class counts of the constructor are the sizes of the specification's three classes. -/
theorem classCounts_spec (fs : List (List (List Nat))) :
    classCounts fs = ((naked fs).length, (internal fs).length, (nonManifold fs).length) := by
  unfold classCounts
  rw [← (C07.naked_perm_spec fs).length_eq, ← (C07.internal_perm_spec fs).length_eq,
    ← (C07.nonManifold_perm_spec fs).length_eq]
  simp only [List.length_map]

/-- Two structures whose (edge, count) tables agree up to a renaming of the edges have the same
class counts. -/
theorem classes_of_perm {h : Edge → Edge} {fs gs : List (List (List Nat))}
    (hp : (edgeCounts gs).Perm ((edgeCounts fs).map (fun c => (h c.1, c.2)))) :
    classCounts gs = classCounts fs := by
  rw [classCounts_spec, classCounts_spec]
  unfold naked internal nonManifold nakedOf internalOf nonManifoldOf
  rw [class_len_of_perm hp (fun n => n == 1), class_len_of_perm hp (fun n => n == 2),
    class_len_of_perm hp (fun n => decide (3 ≤ n))]

/-- Renumbering the vertices injectively changes neither solidity nor the class counts. -/
theorem relabel_edge_info {σ : Nat → Nat} (hσ : Function.Injective σ)
    (fs : List (List (List Nat))) :
    isSolid (relabel σ fs) = isSolid fs ∧ classCounts (relabel σ fs) = classCounts fs := by
  refine ⟨?_, classes_of_perm (edgeCounts_relabel hσ fs)⟩
  rw [Bool.eq_iff_iff, C07.is_solid_iff_uses, C07.is_solid_iff_uses]
  constructor
  · intro h e
    by_cases he : e ∈ allEdges fs
    · rw [← uses_relabel hσ fs (mem_allEdges_le he)]
      exact h _
    · left
      exact List.count_eq_zero_of_not_mem he
  · intro h e'
    by_cases he : ∃ e ∈ allEdges fs, normE σ e = e'
    · obtain ⟨e, hm, rfl⟩ := he
      rw [uses_relabel hσ fs (mem_allEdges_le hm)]
      exact h e
    · left
      apply uses_relabel_eq_zero hσ
      intro e hm heq
      exact he ⟨e, hm, heq⟩

/-- A re-presentation of an index structure has the same class counts (companion of
`C07.is_solid_presentation`). -/
theorem classCounts_presentation {fs gs : List (List (List Nat))}
    (h : C07.SamePresentation fs gs) : classCounts gs = classCounts fs := by
  apply classes_of_perm (h := id)
  have h1 := C07.modelCounts_perm_spec fs
  have h2 := C07.modelCounts_perm_spec gs
  have h3 := C07.edge_count_presentation h
  simpa using (h2.symm.trans (h3.symm.trans h1))

/-- **`is_solid` and the edge classes do not depend on the presentation of the faces** — for an
equivalence `eqv` on the input points, `from_faces` of a re-presented shell reports the same
`is_solid` and the same numbers of naked, internal and non-manifold edges. -/
theorem weld_presentation_edge_info (eqv : P → P → Bool) {A B : List (List (List P))}
    (hE : EqvOn eqv (fun p => p ∈ points A)) (hAB : SamePresentationG A B) :
    isSolid (weld eqv B).2 = isSolid (weld eqv A).2 ∧
    classCounts (weld eqv B).2 = classCounts (weld eqv A).2 := by
  obtain ⟨σ, hσ, _, _, _, hp⟩ := weld_presentation eqv hE hAB
  obtain ⟨h1, h2⟩ := relabel_edge_info hσ (weld eqv A).2
  exact ⟨(C07.is_solid_presentation hp.toC07).symm.trans h1,
    (classCounts_presentation hp.toC07).trans h2⟩

/-! ## 5. Exact test (`eqv` is equality) -/

section exact
variable [DecidableEq P]

/-- The exact test: `v == vert`. -/
def eqx (a b : P) : Bool := decide (a = b)

theorem eqx_equiv (T : P → Prop) : EqvOn (eqx (P := P)) T where
  refl := fun a _ => by simp [eqx]
  symm := fun a b _ _ h => by simp only [eqx, decide_eq_true_eq] at h ⊢; exact h.symm
  trans := fun a b c _ _ _ h1 h2 => by
    simp only [eqx, decide_eq_true_eq] at h1 h2 ⊢; exact h1.trans h2

/-- **Literal read-back** — with the exact test, reading `face_indices` back through the vertex
list returns the input, point for point. -/
theorem weld_exact_readback (faces : List (List (List P))) :
    (weld eqx faces).2.map (List.map (List.map (fun i => (weld eqx faces).1[i]?))) =
      faces.map (List.map (List.map some)) := by
  have h := weld_readback_refl eqx faces (fun p _ => by simp [eqx])
  have h' : Forall₃ (fun (p : P) (i : Nat) => (weld eqx faces).1[i]? = some p) faces
      (weld eqx faces).2 := by
    refine List.Forall₂.imp (fun _ _ h2 => List.Forall₂.imp (fun _ _ h3 =>
      List.Forall₂.imp (fun p i h4 => ?_) h3) h2) h
    obtain ⟨w, hw, hpw⟩ := h4
    simp only [eqx, decide_eq_true_eq] at hpw
    rw [hw, hpw]
  exact forall₃_some h'

/-- With the exact test two input points get the same index iff they are the same point. -/
theorem weld_exact_index_injective (faces : List (List (List P))) {p q : P}
    (hp : p ∈ points faces) (hq : q ∈ points faces) :
    idxOf eqx (weld eqx faces).1 p = idxOf eqx (weld eqx faces).1 q ↔ p = q := by
  have hR : Reps eqx (fun p => p ∈ points faces) (weld eqx faces).1 := by
    rw [weld_fst]; exact reps_vertsFrom eqx (points faces) (fun p _ => by simp [eqx])
  constructor
  · intro h
    obtain ⟨_, a, ha, hpa⟩ := idxOf_spec hR hp
    obtain ⟨_, b, hb, hqb⟩ := idxOf_spec hR hq
    rw [h, hb] at ha
    cases ha
    simp only [eqx, decide_eq_true_eq] at hpa hqb
    rw [hpa, hqb]
  · rintro rfl; rfl

/-- The sides of a face as pairs of points `(loop[i-1], loop[i])`. -/
def pointSides (f : List (List P)) : List (P × P) := f.flatMap cyclicPairs

/-- **Shared edges are shared end points** — with the exact test, an undirected edge of the
index structure lies on two input faces `f` and `g` (i.e. in the index loops stored for them)
iff there are two DIFFERENT points `a`, `b` that are consecutive (in either order) in a loop of
`f` and in a loop of `g`. -/
theorem weld_exact_shared_edge (faces : List (List (List P))) {f g : List (List P)}
    (hf : f ∈ faces) (hg : g ∈ faces) :
    let ix := idxOf eqx (weld eqx faces).1
    (∃ e, e ∈ faceEdges (f.map (List.map ix)) ∧ e ∈ faceEdges (g.map (List.map ix))) ↔
    ∃ a b, a ≠ b ∧ ((a, b) ∈ pointSides f ∨ (b, a) ∈ pointSides f) ∧
      ((a, b) ∈ pointSides g ∨ (b, a) ∈ pointSides g) := by
  intro ix
  have hmem : ∀ h ∈ faces, ∀ a b, (a, b) ∈ pointSides h →
      a ∈ points faces ∧ b ∈ points faces := by
    intro h hh a b hs
    obtain ⟨l, hl, hq⟩ := List.mem_flatMap.mp hs
    obtain ⟨ha, hb⟩ := mem_of_mem_cyclicPairs hq
    exact ⟨mem_points.mpr ⟨h, hh, l, hl, ha⟩, mem_points.mpr ⟨h, hh, l, hl, hb⟩⟩
  -- an index edge of a face comes from a side of that face with different end points
  have key : ∀ h ∈ faces, ∀ e, e ∈ faceEdges (h.map (List.map ix)) ↔
      ∃ a b, a ≠ b ∧ (a, b) ∈ pointSides h ∧ e = norm (ix a) (ix b) := by
    intro h hh e
    constructor
    · intro he
      unfold faceEdges at he
      obtain ⟨l', hl', he⟩ := List.mem_flatMap.mp he
      obtain ⟨l, hl, rfl⟩ := List.mem_map.mp hl'
      unfold loopEdges at he
      rw [Lbg.Lemmas.cyclicPairs_map] at he
      obtain ⟨d, hd, rfl⟩ := List.mem_map.mp he
      obtain ⟨hd1, hd2⟩ := List.mem_filter.mp hd
      obtain ⟨q, hq, rfl⟩ := List.mem_map.mp hd1
      refine ⟨q.1, q.2, ?_, List.mem_flatMap.mpr ⟨l, hl, hq⟩, rfl⟩
      intro heq
      simp [heq] at hd2
    · rintro ⟨a, b, hab, hs, rfl⟩
      obtain ⟨ha, hb⟩ := hmem h hh a b hs
      obtain ⟨l, hl, hq⟩ := List.mem_flatMap.mp hs
      unfold faceEdges
      refine List.mem_flatMap.mpr ⟨l.map ix, List.mem_map.mpr ⟨l, hl, rfl⟩, ?_⟩
      unfold loopEdges
      rw [Lbg.Lemmas.cyclicPairs_map]
      refine List.mem_map.mpr ⟨(ix a, ix b),
        List.mem_filter.mpr ⟨List.mem_map.mpr ⟨(a, b), hq, rfl⟩, ?_⟩, rfl⟩
      simp only [bne_iff_ne, ne_eq]
      intro heq
      exact hab ((weld_exact_index_injective faces ha hb).mp heq)
  constructor
  · rintro ⟨e, hef, heg⟩
    obtain ⟨a, b, hab, hsf, rfl⟩ := (key f hf e).mp hef
    obtain ⟨c, d, hcd, hsg, heq⟩ := (key g hg _).mp heg
    obtain ⟨ha, hb⟩ := hmem f hf a b hsf
    obtain ⟨hc, hd⟩ := hmem g hg c d hsg
    refine ⟨a, b, hab, Or.inl hsf, ?_⟩
    have h' : normP (ix a, ix b) = normP (ix c, ix d) := heq
    rcases (normP_eq_iff _ _ _).mp h' with h1 | h1
    · simp only [Prod.mk.injEq] at h1
      rw [(weld_exact_index_injective faces ha hc).mp h1.1,
        (weld_exact_index_injective faces hb hd).mp h1.2]
      exact Or.inl hsg
    · simp only [Prod.mk.injEq] at h1
      rw [(weld_exact_index_injective faces ha hd).mp h1.1,
        (weld_exact_index_injective faces hb hc).mp h1.2]
      exact Or.inr hsg
  · rintro ⟨a, b, hab, hsf, hsg⟩
    refine ⟨norm (ix a) (ix b), ?_, ?_⟩
    · rcases hsf with h1 | h1
      · exact (key f hf _).mpr ⟨a, b, hab, h1, rfl⟩
      · exact (key f hf _).mpr ⟨b, a, hab.symm, h1, norm_comm _ _⟩
    · rcases hsg with h1 | h1
      · exact (key g hg _).mpr ⟨a, b, hab, h1, rfl⟩
      · exact (key g hg _).mpr ⟨b, a, hab.symm, h1, norm_comm _ _⟩

end exact

/-! ## 6. `Point3D.is_equivalent` and the composition with the constructor -/

section point3d
variable {α : Type} [Field α] [LinearOrder α] [IsStrictOrderedRing α]

/-- The generated kernel says: every coordinate differs by at most `tol`. -/
theorem eqv3_iff (tol : α) (a b : V3 α) :
    eqv3 tol a b = true ↔ |a.x - b.x| ≤ tol ∧ |a.y - b.y| ≤ tol ∧ |a.z - b.z| ≤ tol := by
  unfold eqv3 a_p3d_is_equivalent
  simp only [decide_eq_true_eq, not_lt, and_assoc]

/-- `is_equivalent` is reflexive exactly for a non-negative tolerance. -/
theorem eqv3_refl {tol : α} (h : 0 ≤ tol) (a : V3 α) : eqv3 tol a a = true := by
  rw [eqv3_iff]; simp [h]

/-- `is_equivalent` is symmetric. -/
theorem eqv3_symm (tol : α) (a b : V3 α) (h : eqv3 tol a b = true) : eqv3 tol b a = true := by
  rw [eqv3_iff] at h ⊢
  rw [abs_sub_comm b.x, abs_sub_comm b.y, abs_sub_comm b.z]
  exact h

/-- **A checkable condition under which the tolerance test IS an equivalence**: on a set of
points where "within `tol`" already implies "within `tol / 2`" (copies of a vertex differ by
at most `tol / 2`, different vertices by more than `tol` in some coordinate — the regime of the
property's welding stream), `is_equivalent` is reflexive, symmetric and transitive. -/
theorem eqv3_equiv_of_gap {tol : α} (h0 : 0 ≤ tol) (T : V3 α → Prop)
    (hgap : ∀ a b, T a → T b → eqv3 tol a b = true → eqv3 (tol / 2) a b = true) :
    EqvOn (eqv3 tol) T where
  refl := fun a _ => eqv3_refl h0 a
  symm := fun a b _ _ h => eqv3_symm tol a b h
  trans := fun a b c ha hb hc h1 h2 => by
    have g1 := (eqv3_iff _ _ _).mp (hgap a b ha hb h1)
    have g2 := (eqv3_iff _ _ _).mp (hgap b c hb hc h2)
    rw [eqv3_iff]
    have tri : ∀ x y z : α, |x - y| ≤ tol / 2 → |y - z| ≤ tol / 2 → |x - z| ≤ tol := by
      intro x y z hxy hyz
      have := abs_sub_le x y z
      linarith
    exact ⟨tri _ _ _ g1.1 g2.1, tri _ _ _ g1.2.1 g2.2.1, tri _ _ _ g1.2.2 g2.2.2⟩

end point3d

theorem fromFacesEdgeInfo_eq (eqv : P → P → Bool) (faces : List (List (List P))) :
    fromFacesEdgeInfo eqv faces =
      if (weld eqv faces).1.length < 3 then none
      else some ((weld eqv faces).1, (weld eqv faces).2, edgeInfo (weld eqv faces).2,
        isSolid (weld eqv faces).2) := rfl

/-- **`Polyface3D.from_faces` up to the presentation of the faces** (welding + constructor):
for an equivalence `eqv` on the input points and a re-presented shell, the constructor
assertion (`len(vertices) >= 3`) fails for both or for neither, and if it passes both
polyfaces report the same `is_solid` and the same numbers of naked / internal / non-manifold
edges. -/
theorem from_faces_presentation (eqv : P → P → Bool) {A B : List (List (List P))}
    (hE : EqvOn eqv (fun p => p ∈ points A)) (hAB : SamePresentationG A B) :
    ((fromFacesEdgeInfo eqv A).isSome = (fromFacesEdgeInfo eqv B).isSome) ∧
    ∀ rA rB, fromFacesEdgeInfo eqv A = some rA → fromFacesEdgeInfo eqv B = some rB →
      rB.2.2.2 = rA.2.2.2 ∧ isSolidOf rB.2.2.1.edge_t = isSolidOf rA.2.2.1.edge_t ∧
      classCounts rB.2.1 = classCounts rA.2.1 := by
  obtain ⟨σ, _, hlen, _⟩ := weld_presentation eqv hE hAB
  obtain ⟨h1, h2⟩ := weld_presentation_edge_info eqv hE hAB
  rw [fromFacesEdgeInfo_eq, fromFacesEdgeInfo_eq, hlen]
  refine ⟨by split_ifs <;> rfl, ?_⟩
  intro rA rB hA hB
  split_ifs at hA hB
  cases hA
  cases hB
  exact ⟨h1, h1, h2⟩

/-! ### Non-vacuity -/

section examples

private def t0 : V3 ℚ := ⟨0, 0, 0⟩
private def t1 : V3 ℚ := ⟨1, 0, 0⟩
private def t2 : V3 ℚ := ⟨0, 1, 0⟩
private def t3 : V3 ℚ := ⟨0, 0, 1⟩
private def mv (k : ℚ) (p : V3 ℚ) : V3 ℚ := ⟨p.x + k / 4096, p.y - k / 4096, p.z + k / 8192⟩

/-- A tetrahedron whose four faces each carry their own copy of the corners, moved by up to
`3/4096` (tolerance `1/64`). -/
def tetraA : List (List (List (V3 ℚ))) :=
  [[[t0, t2, t1]], [[mv 1 t0, mv 1 t1, mv 1 t3]], [[mv 2 t1, mv 2 t2, mv 2 t3]],
   [[mv 3 t2, mv 3 t0, mv 3 t3]]]

/-- The same shell: faces in another order, loops restarted, one reversed. -/
def tetraB : List (List (List (V3 ℚ))) :=
  [[[mv 2 t2, mv 2 t3, mv 2 t1]], [[t1, t2, t0]], [[mv 3 t3, mv 3 t2, mv 3 t0]],
   [[mv 1 t1, mv 1 t3, mv 1 t0]]]

/-- The jittered tetrahedron: welded to 4 vertices (the first copies met), solid, 6 internal
edges — in both presentations, with different vertex numbering. -/
example :
    weld3 (1 / 64) tetraA =
      ([t0, t2, t1, mv 1 t3], [[[0, 1, 2]], [[0, 2, 3]], [[2, 1, 3]], [[1, 0, 3]]]) ∧
    weld3 (1 / 64) tetraB =
      ([mv 2 t2, mv 2 t3, mv 2 t1, t0], [[[0, 1, 2]], [[2, 0, 3]], [[1, 0, 3]], [[2, 1, 3]]]) ∧
    isSolid (weld3 (1 / 64) tetraA).2 = true ∧ isSolid (weld3 (1 / 64) tetraB).2 = true ∧
    classCounts (weld3 (1 / 64) tetraA).2 = (0, 6, 0) ∧
    classCounts (weld3 (1 / 64) tetraB).2 = (0, 6, 0) := by
  decide +kernel

/-- The gap hypothesis of `eqv3_equiv_of_gap` holds on the points of that tetrahedron. -/
example : ∀ a ∈ points tetraA, ∀ b ∈ points tetraA,
    eqv3 (1 / 64) a b = true → eqv3 (1 / 64 / 2) a b = true := by
  decide +kernel

/-- … and `tetraB` is a re-presentation of `tetraA` in the sense of `SamePresentationG`. -/
example : SamePresentationG tetraA tetraB := by
  refine ⟨[[[mv 2 t1, mv 2 t2, mv 2 t3]], [[t0, t2, t1]], [[mv 3 t2, mv 3 t0, mv 3 t3]],
    [[mv 1 t0, mv 1 t1, mv 1 t3]]], ?_, ?_⟩
  · unfold tetraA; decide +kernel
  · unfold tetraB
    refine List.Forall₂.cons (List.Forall₂.cons ?_ List.Forall₂.nil)
      (List.Forall₂.cons (List.Forall₂.cons ?_ List.Forall₂.nil)
      (List.Forall₂.cons (List.Forall₂.cons ?_ List.Forall₂.nil)
      (List.Forall₂.cons (List.Forall₂.cons ?_ List.Forall₂.nil) List.Forall₂.nil)))
    · exact LoopEquivG.rot _ 1
    · exact LoopEquivG.rev _ 0
    · exact LoopEquivG.rot _ 2
    · exact LoopEquivG.rot _ 1

/-- Exact test: two triangles sharing the side `t1 t2` (walked in opposite directions) share
exactly that index edge. -/
example : weld eqx [[[t0, t1, t2]], [[t2, t1, t3]]] =
    ([t0, t1, t2, t3], [[[0, 1, 2]], [[2, 1, 3]]]) := by
  decide +kernel

end examples

end Lbg.Props.C07c
