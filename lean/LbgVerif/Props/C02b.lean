/-
  C02b — move / rotate / rotate_xy / reflect / scale act as the stated map on the COMPOSITE
  geometry types (literal hand models `Model/MeshCache`, `MeshCache3`, `PolylineCache`,
  `FaceCache`, `PolyfaceCache`).

  For every rigid parameter ((cos, sin) on the unit circle, non-zero rotation axis, unit mirror
  normal) and every scale factor `k`:
  0. the point maps the hand models apply are the GENERATED point kernels (`p2_move`, `p3_rotate`, …);
  1. the new defining vertex list is `List.map` of that kernel over the old one (faces / index
     loops unchanged, or reversed where the code reverses them);
  2. fresh measures of the image: `length × |k|`, `area × k²`, `perimeter × |k|`,
     `volume × |k|³` (1 for rigid maps) — as fresh values and as what the memoising getters
     answer after the transform (through the "no stale cache" invariants of C03b / C03c);
  3. `Face3D`: the transformed plane is a valid frame, its normal is the image normal (rotated;
     mirrored for `reflect`; recomputed by the right-hand rule for `scale`), and the boundary is
     still counter-clockwise about it;
  4. `Polyface3D`: a face that points away from a point `c` is mapped to a face that points away
     from the image of `c` — by rigid maps, by `reflect` (which reverses every loop), by positive
     scale, and by negative scale together with the loop reversal the code performs;
  5. the inverse map (move by `−v`, rotate by `−θ`, reflect again, scale by `1/k`) restores
     the defining vertex lists (and index loops).
-/
import LbgVerif.Lemmas.Siblings2
import LbgVerif.Lemmas.MeshCache
import LbgVerif.Lemmas.MeshCache3
import LbgVerif.Lemmas.FaceCache
import LbgVerif.Props.C02
import LbgVerif.Props.C03b
import LbgVerif.Props.C03c
import LbgVerif.Props.C06
import Mathlib.Tactic.Ring
import Mathlib.Tactic.FieldSimp
import Mathlib.Tactic.Linarith
import Mathlib.Tactic.LinearCombination
import Mathlib.Tactic.Positivity
import Mathlib.Tactic.NormNum
import Mathlib.Algebra.Order.Field.Rat

set_option linter.unusedSectionVars false
set_option linter.unusedVariables false
set_option linter.unusedTactic false
set_option linter.unreachableTactic false
set_option linter.unnecessarySeqFocus false
set_option linter.unusedSimpArgs false

namespace Lbg.Props.C02b
open Lbg Lbg.Gen Lbg.Lemmas Lbg.Model Lbg.Model.MeshCache Lbg.Model.MeshCache3
open Lbg.Props.C02 (PlaneValid OnPlane distSq2 distSq3)
open Lbg.Props.C03c (Isom3)
variable {α : Type} [Field α] [LinearOrder α] [IsStrictOrderedRing α]

/-! ## 0. The point maps of the hand models are the generated kernels -/

/-- The 2D point maps written out in `Model/MeshCache` are the generated `Point2D` kernels
(`ptRotate` takes `(cos θ, sin θ)`). -/
theorem pt2_maps_are_generated (M : MathOps α) (v o n : V2 α) (θ k : α) (p : V2 α) :
    ptMove v p = p2_move p v ∧ ptRotate (M.cos θ) (M.sin θ) o p = p2_rotate M p θ o ∧
    ptReflect n o p = p2_reflect p n o ∧ ptScale k o p = p2_scale p k o ∧
    ptScaleWorld k p = p2_scale_world p k := by
  refine ⟨rfl, rfl, rfl, ?_, rfl⟩
  apply V2.ext' <;> simp only [ptScale, p2_scale] <;> ring

/-- The 3D point maps written out in `Model/MeshCache3` are the generated `Point3D` kernels. -/
theorem pt3_maps_are_generated (M : MathOps α) (v o n : V3 α) (θ k : α) (p : V3 α) :
    ptMove3 v p = p3_move p v ∧ ptRotateXY3 (M.cos θ) (M.sin θ) o p = p3_rotate_xy M p θ o ∧
    ptReflect3 n o p = p3_reflect p n o ∧ ptScale3 k o p = p3_scale p k o ∧
    ptScaleWorld3 k p = p3_scale_world p k := by
  refine ⟨rfl, rfl, rfl, ?_, rfl⟩
  apply V3.ext' <;> simp only [ptScale3, p3_scale] <;> ring

/-- Distance-keeping 2D point maps. -/
def Isom2 (g : V2 α → V2 α) : Prop :=
  ∀ p q, V2.normSq (V2.sub (g p) (g q)) = V2.normSq (V2.sub p q)

/-- The generated rigid `Point2D` kernels keep distances: `move`; `rotate` for every angle with
`cos² + sin² = 1`; `reflect` for every unit normal. -/
theorem isom2_kernels (M : MathOps α) :
    (∀ v : V2 α, Isom2 (fun p => p2_move p v)) ∧
    (∀ (θ : α) (o : V2 α), M.cos θ * M.cos θ + M.sin θ * M.sin θ = 1 →
      Isom2 (fun p => p2_rotate M p θ o)) ∧
    (∀ n o : V2 α, V2.normSq n = 1 → Isom2 (fun p => p2_reflect p n o)) :=
  ⟨fun v p q => C02.p2_move_distSq p q v, fun θ o h p q => C02.p2_rotate_distSq M p q o θ h,
   fun n o h p q => C02.p2_reflect_distSq p q n o h⟩

/-- The generated rigid `Point3D` kernels keep distances: `move`; `rotate` about every
non-zero axis (`sqrt` exact on `|axis|²`); `rotate_xy`; `reflect` for every unit normal. -/
theorem isom3_kernels (M : MathOps α) :
    (∀ v : V3 α, Isom3 (fun p => p3_move p v)) ∧
    (∀ (axis : V3 α) (θ : α) (o : V3 α), M.cos θ * M.cos θ + M.sin θ * M.sin θ = 1 →
      M.sqrt (V3.normSq axis) * M.sqrt (V3.normSq axis) = V3.normSq axis → V3.normSq axis ≠ 0 →
      Isom3 (fun p => p3_rotate M p axis θ o)) ∧
    (∀ (θ : α) (o : V3 α), M.cos θ * M.cos θ + M.sin θ * M.sin θ = 1 →
      Isom3 (fun p => p3_rotate_xy M p θ o)) ∧
    (∀ n o : V3 α, V3.normSq n = 1 → Isom3 (fun p => p3_reflect p n o)) :=
  ⟨fun v p q => C02.p3_move_distSq p q v,
   fun axis θ o h hr h0 p q => C02.p3_rotate_distSq M p q axis o θ h hr h0,
   fun θ o h p q => C02.p3_rotate_xy_distSq M p q o θ h,
   fun n o h p q => C02.p3_reflect_distSq p q n o h⟩

/-- The generated scale kernels multiply squared distances by `k²` (2D and 3D, with origin and
about the world origin). -/
theorem scale_kernels_distSq (k : α) :
    (∀ (o p q : V2 α), V2.normSq (V2.sub (p2_scale p k o) (p2_scale q k o)) =
      k * k * V2.normSq (V2.sub p q)) ∧
    (∀ (p q : V2 α), V2.normSq (V2.sub (p2_scale_world p k) (p2_scale_world q k)) =
      k * k * V2.normSq (V2.sub p q)) ∧
    (∀ (o p q : V3 α), V3.normSq (V3.sub (p3_scale p k o) (p3_scale q k o)) =
      k * k * V3.normSq (V3.sub p q)) ∧
    (∀ (p q : V3 α), V3.normSq (V3.sub (p3_scale_world p k) (p3_scale_world q k)) =
      k * k * V3.normSq (V3.sub p q)) := by
  refine ⟨fun o p q => ?_, fun p q => ?_, fun o p q => ?_, fun p q => ?_⟩
  · simp only [V2.normSq, V2.sub, p2_scale]; ring
  · simp only [V2.normSq, V2.sub, p2_scale_world]; ring
  · simp only [V3.normSq, V3.sub, p3_scale]; ring
  · simp only [V3.normSq, V3.sub, p3_scale_world]; ring

/-! ## 1. Mesh2D -/

/-- **Mesh2D, defining data**: every transform keeps the face index lists and maps the vertex
list by the generated point kernel. -/
theorem mesh2_vertices (M : MathOps α) (s : Mesh2C α) (v o n : V2 α) (θ k : α) :
    (MeshCache.move s v).vertices = s.vertices.map (fun p => p2_move p v) ∧
    (MeshCache.rotate s (M.cos θ) (M.sin θ) o).vertices =
      s.vertices.map (fun p => p2_rotate M p θ o) ∧
    (MeshCache.reflect s n o).vertices = s.vertices.map (fun p => p2_reflect p n o) ∧
    (MeshCache.scale s k o).vertices = s.vertices.map (fun p => p2_scale p k o) ∧
    (MeshCache.scaleWorld s k).vertices = s.vertices.map (fun p => p2_scale_world p k) ∧
    (MeshCache.move s v).faces = s.faces ∧
    (MeshCache.rotate s (M.cos θ) (M.sin θ) o).faces = s.faces ∧
    (MeshCache.reflect s n o).faces = s.faces ∧ (MeshCache.scale s k o).faces = s.faces ∧
    (MeshCache.scaleWorld s k).faces = s.faces := by
  refine ⟨rfl, rfl, rfl, ?_, rfl, rfl, rfl, rfl, rfl, rfl⟩
  show s.vertices.map (ptScale k o) = _
  apply List.map_congr_left
  intro p _
  exact (pt2_maps_are_generated M v o n θ k p).2.2.2.1

/-- **Mesh2D, measures**: after a transform the `area` getter answers the old answer for
`move`, `rotate` (unit circle), `reflect` (unit normal), and `k²` times it for `scale` — for every
`k` (zero and negative included) and every state with a non-stale cache (`C03b.MInv`). -/
theorem mesh2_area_laws (K : MeshCache.Kern α) (s : Mesh2C α) (h : C03b.MInv K s) :
    (∀ v, (MeshCache.readArea (MeshCache.move s v)).1 = (MeshCache.readArea s).1) ∧
    (∀ c sn o, c * c + sn * sn = 1 →
      (MeshCache.readArea (MeshCache.rotate s c sn o)).1 = (MeshCache.readArea s).1) ∧
    (∀ n o, n.x * n.x + n.y * n.y = 1 →
      (MeshCache.readArea (MeshCache.reflect s n o)).1 = (MeshCache.readArea s).1) ∧
    (∀ k o, (MeshCache.readArea (MeshCache.scale s k o)).1 = (MeshCache.readArea s).1 * k ^ 2) ∧
    (∀ k, (MeshCache.readArea (MeshCache.scaleWorld s k)).1 = (MeshCache.readArea s).1 * k ^ 2) := by
  have h0 := (C03b.readArea_spec K s h).1
  refine ⟨fun v => ?_, fun c sn o hcs => ?_, fun n o hn => ?_, fun k o => ?_, fun k => ?_⟩
  · rw [(C03b.readArea_spec K _ (C03b.minv_move K s h v)).1, h0]
    show trueArea (s.vertices.map (ptMove v)) s.faces = _
    rw [trueArea_map _ 1 (fun l => by rw [getArea_move, mul_one]) _ _ h.wf, mul_one]
  · rw [(C03b.readArea_spec K _ (C03b.minv_rotate K s h c sn o hcs)).1, h0]
    show trueArea (s.vertices.map (ptRotate c sn o)) s.faces = _
    rw [trueArea_map _ 1 (fun l => by rw [getArea_rotate c sn hcs, mul_one]) _ _ h.wf, mul_one]
  · rw [(C03b.readArea_spec K _ (C03b.minv_reflect K s h n o hn)).1, h0]
    show trueArea (s.vertices.map (ptReflect n o)) s.faces = _
    rw [trueArea_map _ 1 (fun l => by rw [getArea_reflect n o hn, mul_one]) _ _ h.wf, mul_one]
  · rw [(C03b.readArea_spec K _ (C03b.minv_scale K s h k o)).1, h0]
    show trueArea (s.vertices.map (ptScale k o)) s.faces = _
    rw [trueArea_map _ (k ^ 2) (fun l => getArea_scale k o l) _ _ h.wf]
  · rw [(C03b.readArea_spec K _ (C03b.minv_scaleWorld K s h k)).1, h0]
    show trueArea (s.vertices.map (ptScaleWorld k)) s.faces = _
    rw [trueArea_map _ (k ^ 2) (fun l => getArea_scaleWorld k l) _ _ h.wf]

/-- **Mesh2D, per-face areas** after `scale`: each face area is `k²` times the old one. -/
theorem mesh2_face_areas_scale (K : MeshCache.Kern α) (s : Mesh2C α) (h : C03b.MInv K s)
    (k : α) (o : V2 α) :
    (MeshCache.readFaceAreas (MeshCache.scale s k o)).1 =
      (MeshCache.readFaceAreas s).1.map (fun a => a * k ^ 2) := by
  rw [(C03b.readFaceAreas_spec K _ (C03b.minv_scale K s h k o)).1,
    (C03b.readFaceAreas_spec K s h).1]
  show trueFaceAreas (s.vertices.map (ptScale k o)) s.faces = _
  exact trueFaceAreas_map _ (k ^ 2) (fun l => getArea_scale k o l) _ _ h.wf

/-! ## 2. Mesh3D -/

/-- **Mesh3D, defining data**: `move`, `rotate`, `rotate_xy`, `reflect` (all through
`_mesh_transform` with the point map `g`) and `scale` keep the faces and map the vertices by the
generated point kernel. -/
theorem mesh3_vertices (s : Mesh3C α) (g : V3 α → V3 α) (v o : V3 α) (k : α) :
    (MeshCache3.move3 s v).vertices = s.vertices.map (fun p => p3_move p v) ∧
    (MeshCache3.transform3 s g).vertices = s.vertices.map g ∧
    (MeshCache3.scale3 s k o).vertices = s.vertices.map (fun p => p3_scale p k o) ∧
    (MeshCache3.scaleWorld3 s k).vertices = s.vertices.map (fun p => p3_scale_world p k) ∧
    (MeshCache3.move3 s v).faces = s.faces ∧ (MeshCache3.transform3 s g).faces = s.faces ∧
    (MeshCache3.scale3 s k o).faces = s.faces ∧ (MeshCache3.scaleWorld3 s k).faces = s.faces := by
  refine ⟨rfl, rfl, ?_, rfl, rfl, rfl, rfl, rfl⟩
  show s.vertices.map (ptScale3 k o) = _
  apply List.map_congr_left
  intro p _
  apply V3.ext' <;> simp only [ptScale3, p3_scale] <;> ring

/-- `Point3D.rotate` about any non-zero axis keeps every `Mesh3D` face area (`|Ru × Rw| =
|u × w|`), so it is an admissible `rigid` map of the `Mesh3D` cache machine. -/
theorem mesh3_valid_rotate (M : MathOps α) (axis : V3 α) (θ : α) (o : V3 α)
    (hcs : M.cos θ * M.cos θ + M.sin θ * M.sin θ = 1)
    (hr : M.sqrt (V3.normSq axis) * M.sqrt (V3.normSq axis) = V3.normSq axis)
    (h0 : V3.normSq axis ≠ 0) :
    C03b.Valid3 M (MeshCache3.Op3.rigid (fun p => p3_rotate M p axis θ o)) := by
  intro pts
  apply faceNA_area_of_edges M _ (fun u => v3_rotate M u axis θ)
  · intro p q; exact C02.p3_rotate_sub M p q axis o θ
  · intro u w
    rw [C02.v3_rotate_cross M u w axis θ hcs hr h0, C02.v3_rotate_normSq M _ axis θ hcs hr h0]

/-- **Mesh3D, measures**: after a transform the `area` getter answers the old answer for every
area-keeping point map (`move`, `rotate`, `rotate_xy`, `reflect` with their guards:
`C03b.valid3_rotateXY`, `C03b.valid3_reflect`, `mesh3_valid_rotate`) and `k²` times it for
`scale`, `k ≠ 0` (negative factors included); `sqrt` law for `scale`. -/
theorem mesh3_area_laws (M : MathOps α) (s : Mesh3C α) (h : C03b.MInv3 M s) :
    (∀ v, (readArea3 M (MeshCache3.move3 s v)).1 = (readArea3 M s).1) ∧
    (∀ g, (∀ pts, (faceNA M (pts.map g)).2 = (faceNA M pts).2) →
      (readArea3 M (MeshCache3.transform3 s g)).1 = (readArea3 M s).1) ∧
    ((∀ x, 0 ≤ x → M.sqrt x * M.sqrt x = x ∧ 0 ≤ M.sqrt x) → ∀ k o, k ≠ 0 →
      (readArea3 M (MeshCache3.scale3 s k o)).1 = (readArea3 M s).1.map (fun a => a * k ^ 2)) ∧
    ((∀ x, 0 ≤ x → M.sqrt x * M.sqrt x = x ∧ 0 ≤ M.sqrt x) → ∀ k, k ≠ 0 →
      (readArea3 M (MeshCache3.scaleWorld3 s k)).1 = (readArea3 M s).1.map (fun a => a * k ^ 2)) := by
  have h0 := (C03b.readArea3_spec M s h).1
  have rig : ∀ g, (∀ pts, (faceNA M (pts.map g)).2 = (faceNA M pts).2) →
      trueArea3 M (s.vertices.map g) s.faces = trueArea3 M s.vertices s.faces := by
    intro g hg
    unfold trueArea3 trueFaceAreas3
    congr 1
    apply List.map_congr_left
    intro f hf
    rw [faceVerts3_map _ _ _ (h.wf f hf), hg]
  have sc : (∀ x, 0 ≤ x → M.sqrt x * M.sqrt x = x ∧ 0 ≤ M.sqrt x) → ∀ (g : V3 α → V3 α) (k : α),
      k ≠ 0 → (∀ p q, V3.sub (g p) (g q) = V3.smul k (V3.sub p q)) →
      trueArea3 M (s.vertices.map g) s.faces = trueArea3 M s.vertices s.faces * k ^ 2 := by
    intro hsqrt g k hk hsub
    unfold trueArea3 trueFaceAreas3
    rw [← pySum_map_mul_right, List.map_map]
    congr 1
    apply List.map_congr_left
    intro f hf
    rw [faceVerts3_map _ _ _ (h.wf f hf), faceNA_of_edges_scaled M hsqrt k hk g hsub]
    rfl
  refine ⟨fun v => ?_, fun g hg => ?_, fun hsqrt k o hk => ?_, fun hsqrt k hk => ?_⟩
  · rw [(C03b.readArea3_spec M _ (C03b.minv3_move M s h v)).1, h0]
    show some (trueArea3 M (s.vertices.map (ptMove3 v)) s.faces) = _
    rw [rig _ (fun pts => by rw [faceNA_move])]
  · show (readArea3 M (meshTransform3 s (s.vertices.map g))).1 = _
    rw [(C03b.readArea3_spec M _ (C03b.minv3_meshTransform M s h g hg)).1, h0]
    show some (trueArea3 M (s.vertices.map g) s.faces) = _
    rw [rig g hg]
  · rw [(C03b.readArea3_spec M _ (C03b.minv3_scale M hsqrt s h k hk o)).1, h0]
    show some (trueArea3 M (s.vertices.map (ptScale3 k o)) s.faces) = _
    rw [sc hsqrt _ k hk (ptScale3_sub k o)]; rfl
  · rw [(C03b.readArea3_spec M _ (C03b.minv3_scaleWorld M hsqrt s h k hk)).1, h0]
    show some (trueArea3 M (s.vertices.map (ptScaleWorld3 k)) s.faces) = _
    rw [sc hsqrt _ k hk (ptScaleWorld3_sub k)]; rfl

/-! ## 3. Polyline2D / Polyline3D -/

/-- **Polylines, defining data**: `move / rotate / rotate_xy / reflect` (`rigid` with the
generated point kernel `g`) and `scale` give the `List.map` of the kernel over the vertices;
`interpolated` is kept. -/
theorem polyline_vertices (s2 : PolylineCache.PL2 α) (s3 : PolylineCache.PL3 α)
    (g2 : V2 α → V2 α) (g3 : V3 α → V3 α) (k : α) (o2 : V2 α) (o3 : V3 α) :
    (PolylineCache.rigid2 s2 g2).vertices = s2.vertices.map g2 ∧
    (PolylineCache.scale2 s2 k o2).vertices = s2.vertices.map (fun p => p2_scale p k o2) ∧
    (PolylineCache.scaleWorld2 s2 k).vertices = s2.vertices.map (fun p => p2_scale_world p k) ∧
    (PolylineCache.rigid3 s3 g3).vertices = s3.vertices.map g3 ∧
    (PolylineCache.scale3 s3 k o3).vertices = s3.vertices.map (fun p => p3_scale p k o3) ∧
    (PolylineCache.scaleWorld3 s3 k).vertices = s3.vertices.map (fun p => p3_scale_world p k) ∧
    (PolylineCache.rigid2 s2 g2).interpolated = s2.interpolated ∧
    (PolylineCache.scale2 s2 k o2).interpolated = s2.interpolated ∧
    (PolylineCache.rigid3 s3 g3).interpolated = s3.interpolated ∧
    (PolylineCache.scale3 s3 k o3).interpolated = s3.interpolated :=
  ⟨rfl, rfl, rfl, rfl, rfl, rfl, rfl, rfl, rfl, rfl⟩

/-- **Polyline2D, length**: the `length` getter after a distance-keeping transform answers the
old length, after `scale` it answers `|k|` times the old length (`sqrt` law; every `k`), for
every state with a non-stale cache (`C03c.PInv2`). -/
theorem polyline2_length_laws (M : MathOps α) (s : PolylineCache.PL2 α) (h : C03c.PInv2 M s) :
    (∀ g, Isom2 g → (PolylineCache.readLength2 M (PolylineCache.rigid2 s g)).1 =
      (PolylineCache.readLength2 M s).1) ∧
    ((∀ x, 0 ≤ x → M.sqrt x * M.sqrt x = x ∧ 0 ≤ M.sqrt x) → ∀ k o,
      (PolylineCache.readLength2 M (PolylineCache.scale2 s k o)).1 =
        |k| * (PolylineCache.readLength2 M s).1) ∧
    ((∀ x, 0 ≤ x → M.sqrt x * M.sqrt x = x ∧ 0 ≤ M.sqrt x) → ∀ k,
      (PolylineCache.readLength2 M (PolylineCache.scaleWorld2 s k)).1 =
        |k| * (PolylineCache.readLength2 M s).1) := by
  have h0 := (C03c.readLength2_spec M s h).1
  refine ⟨fun g hg => ?_, fun hsqrt k o => ?_, fun hsqrt k => ?_⟩
  · cases hl : s.length with
    | some a =>
      have e1 : (PolylineCache.readLength2 M (PolylineCache.rigid2 s g)).1 = a := by
        simp [PolylineCache.readLength2, PolylineCache.rigid2, PolylineCache.transfer2,
          PolylineCache.fresh2, hl]
      have e2 : (PolylineCache.readLength2 M s).1 = a := by
        simp [PolylineCache.readLength2, hl]
      rw [e1, e2]
    | none =>
      have e1 : (PolylineCache.readLength2 M (PolylineCache.rigid2 s g)).1 =
          PolylineCache.length2 M (s.vertices.map g) := by
        simp [PolylineCache.readLength2, PolylineCache.rigid2, PolylineCache.transfer2,
          PolylineCache.fresh2, hl, PolylineCache.readSegments2, PolylineCache.length2]
      rw [e1, h0, length2_map M g hg]
  · rw [h0]
    show PolylineCache.length2 M (s.vertices.map (fun p => p2_scale p k o)) = _
    exact length2_scale M hsqrt k _ (fun p q => (scale_kernels_distSq k).1 o p q) _
  · rw [h0]
    show PolylineCache.length2 M (s.vertices.map (fun p => p2_scale_world p k)) = _
    exact length2_scale M hsqrt k _ (fun p q => (scale_kernels_distSq k).2.1 p q) _

/-- **Polyline3D, length**: the same for `Polyline3D` (`C03c.PInv3`). -/
theorem polyline3_length_laws (M : MathOps α) (s : PolylineCache.PL3 α) (h : C03c.PInv3 M s) :
    (∀ g, Isom3 g → (PolylineCache.readLength3 M (PolylineCache.rigid3 s g)).1 =
      (PolylineCache.readLength3 M s).1) ∧
    ((∀ x, 0 ≤ x → M.sqrt x * M.sqrt x = x ∧ 0 ≤ M.sqrt x) → ∀ k o,
      (PolylineCache.readLength3 M (PolylineCache.scale3 s k o)).1 =
        |k| * (PolylineCache.readLength3 M s).1) ∧
    ((∀ x, 0 ≤ x → M.sqrt x * M.sqrt x = x ∧ 0 ≤ M.sqrt x) → ∀ k,
      (PolylineCache.readLength3 M (PolylineCache.scaleWorld3 s k)).1 =
        |k| * (PolylineCache.readLength3 M s).1) := by
  have h0 := (C03c.readLength3_spec M s h).1
  refine ⟨fun g hg => ?_, fun hsqrt k o => ?_, fun hsqrt k => ?_⟩
  · cases hl : s.length with
    | some a =>
      have e1 : (PolylineCache.readLength3 M (PolylineCache.rigid3 s g)).1 = a := by
        simp [PolylineCache.readLength3, PolylineCache.rigid3, PolylineCache.transfer3,
          PolylineCache.fresh3, hl]
      have e2 : (PolylineCache.readLength3 M s).1 = a := by
        simp [PolylineCache.readLength3, hl]
      rw [e1, e2]
    | none =>
      have e1 : (PolylineCache.readLength3 M (PolylineCache.rigid3 s g)).1 =
          PolylineCache.length3 M (s.vertices.map g) := by
        simp [PolylineCache.readLength3, PolylineCache.rigid3, PolylineCache.transfer3,
          PolylineCache.fresh3, hl, PolylineCache.readSegments3, PolylineCache.length3]
      rw [e1, h0, length3_map M g hg]
  · rw [h0]
    show PolylineCache.length3 M (s.vertices.map (fun p => p3_scale p k o)) = _
    exact length3_scale M hsqrt k _ (fun p q => (scale_kernels_distSq k).2.2.1 o p q) _
  · rw [h0]
    show PolylineCache.length3 M (s.vertices.map (fun p => p3_scale_world p k)) = _
    exact length3_scale M hsqrt k _ (fun p q => (scale_kernels_distSq k).2.2.2 p q) _

/-! ## 4. Face3D -/

section face
open Lbg.Model.FaceCache

/-- The stored boundary is counter-clockwise about the stored normal: positive signed area in
the plane's own right-handed coordinates (`x`, `y = n × x`).  By `C06.normal_is_rhr` this is
"the right-hand-rule normal of the vertex loop is `+n`". -/
def CCW (s : FaceC α) : Prop := 0 < shoelace (poly2dOf s)

/-- **Face3D, defining data**: `move / rotate / rotate_xy` (`rigid`), `reflect`, `scale` map
`vertices`, `boundary` and every hole loop by the point kernel `g` (`reflect` also reverses every
loop) and take the plane `pg plane` (`scale`: the plane recomputed from the new vertices). -/
theorem face_vertices (M : MathOps α) (s : FaceC α)
    (hwf : s.holes = none → s.boundary = s.vertices) (g : V3 α → V3 α)
    (pg : PlaneS α → PlaneS α) (k : α) :
    ((FaceCache.rigid s g pg).vertices = s.vertices.map g ∧
      (FaceCache.rigid s g pg).boundary = s.boundary.map g ∧
      (FaceCache.rigid s g pg).holes = s.holes.map (·.map (·.map g)) ∧
      (FaceCache.rigid s g pg).plane = pg s.plane) ∧
    ((FaceCache.reflect s g pg).vertices = s.vertices.reverse.map g ∧
      (FaceCache.reflect s g pg).boundary = s.boundary.reverse.map g ∧
      (FaceCache.reflect s g pg).holes = s.holes.map (·.map (·.reverse.map g)) ∧
      (FaceCache.reflect s g pg).plane = pg s.plane) ∧
    ((FaceCache.scaleWith M s k g).vertices = s.vertices.map g ∧
      (FaceCache.scaleWith M s k g).boundary = s.boundary.map g ∧
      (FaceCache.scaleWith M s k g).holes = s.holes.map (·.map (·.map g)) ∧
      (FaceCache.scaleWith M s k g).plane = planeFromVerts M (s.vertices.map g)) := by
  have b1 := C03c.built_rigid s hwf g pg
  have b2 := C03c.built_reflect s hwf g pg
  have b3 := C03c.built_scaleWith M s hwf k g
  exact ⟨⟨b1.vertices, b1.boundary, b1.holes, b1.plane⟩,
    ⟨b2.vertices, b2.boundary, b2.holes, b2.plane⟩,
    ⟨b3.vertices, b3.boundary, b3.holes, b3.plane⟩⟩

/-- **Face3D under a rigid map** (`_face_transform`): if `g` keeps distances and the new plane
shows every image point at the old plane coordinates, then the polygon in plane coordinates is
unchanged — hence area, convexity, orientation about the normal are unchanged — and the
perimeter is unchanged. -/
theorem face_rigid_laws (M : MathOps α) (s : FaceC α)
    (hwf : s.holes = none → s.boundary = s.vertices) (g : V3 α → V3 α)
    (pg : PlaneS α → PlaneS α) (hg : Isom3 g)
    (hc : ∀ p, plane_xyz_to_xy (pg s.plane) (g p) = plane_xyz_to_xy s.plane p) :
    poly2dOf (FaceCache.rigid s g pg) = poly2dOf s ∧
    areaOf (FaceCache.rigid s g pg) = areaOf s ∧
    convexOf (FaceCache.rigid s g pg) = convexOf s ∧
    (CCW (FaceCache.rigid s g pg) ↔ CCW s) ∧
    perimOf M (FaceCache.rigid s g pg) = perimOf M s := by
  have b := C03c.built_rigid s hwf g pg
  have c1 : poly2dOf (FaceCache.rigid s g pg) = poly2dOf s := by
    unfold poly2dOf; rw [b.plane, b.vertices]; exact to2d_map_id _ _ g hc _
  refine ⟨c1, ?_, ?_, ?_, ?_⟩
  · unfold areaOf; rw [c1]
  · unfold convexOf; rw [c1]
  · unfold CCW; rw [c1]
  · rw [C03c.perimOf_loops M s _ (·.map g) (·.map g) 1 b.boundary b.holes
      (by rw [loopLen_map M g hg, one_mul]) (fun l => by rw [loopLen_map M g hg, one_mul]),
      one_mul]

/-- **`Face3D.move`**: valid plane, same normal, and all of `face_rigid_laws`. -/
theorem face_move_laws (M : MathOps α) (h1 : M.sqrt 1 = 1) (s : FaceC α)
    (hwf : s.holes = none → s.boundary = s.vertices) (hp : PlaneValid s.plane) (v : V3 α) :
    let t := FaceCache.rigid s (fun p => p3_move p v) (fun pl => plane_move M pl v)
    PlaneValid t.plane ∧ t.plane.n = s.plane.n ∧ t.vertices = s.vertices.map (fun p => p3_move p v) ∧
    areaOf t = areaOf s ∧ perimOf M t = perimOf M s ∧ convexOf t = convexOf s ∧ (CCW t ↔ CCW s) := by
  intro t
  obtain ⟨_, hn, _, _, hval, _⟩ := C02.plane_move_valid M h1 s.plane v hp
  obtain ⟨hg, hc⟩ := C03c.validF_move M h1 s hp v
  obtain ⟨_, a1, a2, a3, a4⟩ := face_rigid_laws M s hwf (fun p => p3_move p v)
    (fun pl => plane_move M pl v) hg hc
  have b := C03c.built_rigid s hwf (fun p => p3_move p v) (fun pl => plane_move M pl v)
  refine ⟨?_, ?_, b.vertices, a1, a4, a2, a3⟩
  · show PlaneValid (FaceCache.rigid s _ _).plane; rw [b.plane]; exact hval
  · show (FaceCache.rigid s _ _).plane.n = _; rw [b.plane]; exact hn

/-- **`Face3D.rotate_xy`** (`cos² + sin² = 1`): valid plane, the normal is the rotated normal,
and all of `face_rigid_laws`. -/
theorem face_rotate_xy_laws (M : MathOps α) (h1 : M.sqrt 1 = 1) (s : FaceC α)
    (hwf : s.holes = none → s.boundary = s.vertices) (hp : PlaneValid s.plane) (θ : α) (o : V3 α)
    (hcs : M.cos θ * M.cos θ + M.sin θ * M.sin θ = 1) :
    let t := FaceCache.rigid s (fun p => p3_rotate_xy M p θ o) (fun pl => plane_rotate_xy M pl θ o)
    PlaneValid t.plane ∧ t.plane.n = v3_rotate_xy M s.plane.n θ ∧
    t.vertices = s.vertices.map (fun p => p3_rotate_xy M p θ o) ∧
    areaOf t = areaOf s ∧ perimOf M t = perimOf M s ∧ convexOf t = convexOf s ∧ (CCW t ↔ CCW s) := by
  intro t
  obtain ⟨_, hn, _, _, hval, _⟩ := C02.plane_rotate_xy_valid M h1 s.plane θ o hcs hp
  obtain ⟨hg, hc⟩ := C03c.validF_rotate_xy M h1 s hp θ o hcs
  obtain ⟨_, a1, a2, a3, a4⟩ := face_rigid_laws M s hwf (fun p => p3_rotate_xy M p θ o)
    (fun pl => plane_rotate_xy M pl θ o) hg hc
  have b := C03c.built_rigid s hwf (fun p => p3_rotate_xy M p θ o)
    (fun pl => plane_rotate_xy M pl θ o)
  refine ⟨?_, ?_, b.vertices, a1, a4, a2, a3⟩
  · show PlaneValid (FaceCache.rigid s _ _).plane; rw [b.plane]; exact hval
  · show (FaceCache.rigid s _ _).plane.n = _; rw [b.plane]; exact hn

/-- **`Face3D.rotate`** (non-zero axis, `cos² + sin² = 1`, `sqrt` exact on `|axis|²`): valid
plane, the normal is the rotated normal, and all of `face_rigid_laws`. -/
theorem face_rotate_laws (M : MathOps α) (h1 : M.sqrt 1 = 1) (s : FaceC α)
    (hwf : s.holes = none → s.boundary = s.vertices) (hp : PlaneValid s.plane) (axis : V3 α)
    (θ : α) (o : V3 α) (hcs : M.cos θ * M.cos θ + M.sin θ * M.sin θ = 1)
    (hr : M.sqrt (V3.normSq axis) * M.sqrt (V3.normSq axis) = V3.normSq axis)
    (h0 : V3.normSq axis ≠ 0) :
    let t := FaceCache.rigid s (fun p => p3_rotate M p axis θ o)
      (fun pl => plane_rotate M pl axis θ o)
    PlaneValid t.plane ∧ t.plane.n = v3_rotate M s.plane.n axis θ ∧
    t.vertices = s.vertices.map (fun p => p3_rotate M p axis θ o) ∧
    areaOf t = areaOf s ∧ perimOf M t = perimOf M s ∧ convexOf t = convexOf s ∧ (CCW t ↔ CCW s) := by
  intro t
  obtain ⟨_, hn, _, _, hval, _⟩ := C02.plane_rotate_valid M h1 s.plane axis θ o hcs hr h0 hp
  obtain ⟨hg, hc⟩ := C03c.validF_rotate M h1 s hp axis θ o hcs hr h0
  obtain ⟨_, a1, a2, a3, a4⟩ := face_rigid_laws M s hwf (fun p => p3_rotate M p axis θ o)
    (fun pl => plane_rotate M pl axis θ o) hg hc
  have b := C03c.built_rigid s hwf (fun p => p3_rotate M p axis θ o)
    (fun pl => plane_rotate M pl axis θ o)
  refine ⟨?_, ?_, b.vertices, a1, a4, a2, a3⟩
  · show PlaneValid (FaceCache.rigid s _ _).plane; rw [b.plane]; exact hval
  · show (FaceCache.rigid s _ _).plane.n = _; rw [b.plane]; exact hn

/-- **`Face3D.reflect`** (unit mirror normal): the new plane is valid, its normal is the
MIRRORED normal, every loop is mapped and REVERSED; in the new plane's coordinates the polygon
is the old one mirrored (`y ↦ −y`) and reversed, so its signed area is the old one — the
boundary is still counter-clockwise about the (mirrored) normal — and area and perimeter are
unchanged. -/
theorem face_reflect_laws (M : MathOps α) (h1 : M.sqrt 1 = 1) (s : FaceC α)
    (hwf : s.holes = none → s.boundary = s.vertices) (hp : PlaneValid s.plane) (n o : V3 α)
    (hn : V3.normSq n = 1) :
    let t := FaceCache.reflect s (fun p => p3_reflect p n o) (fun pl => plane_reflect M pl n o)
    PlaneValid t.plane ∧ t.plane.n = v3_reflect s.plane.n n ∧
    t.vertices = s.vertices.reverse.map (fun p => p3_reflect p n o) ∧
    poly2dOf t = (poly2dOf s).reverse.map mirrorY ∧
    shoelace (poly2dOf t) = shoelace (poly2dOf s) ∧ (CCW t ↔ CCW s) ∧
    areaOf t = areaOf s ∧ perimOf M t = perimOf M s := by
  intro t
  obtain ⟨_, hnn, _, _, hval, _⟩ := C02.plane_reflect_valid M h1 s.plane n o hn hp
  obtain ⟨hg, hc⟩ := C03c.reflect_coords M h1 s.plane hp n o hn
  have b := C03c.built_reflect s hwf (fun p => p3_reflect p n o) (fun pl => plane_reflect M pl n o)
  have c1 : poly2dOf t = (poly2dOf s).reverse.map mirrorY := by
    show poly2dOf (FaceCache.reflect s _ _) = _
    unfold poly2dOf
    rw [b.plane, b.vertices, to2d_map s.plane _ _ mirrorY hc, to2d_reverse]
  have c2 : shoelace (poly2dOf t) = shoelace (poly2dOf s) := by
    rw [c1, shoelace_reverse_mirror]
  refine ⟨?_, ?_, b.vertices, c1, c2, ?_, ?_, ?_⟩
  · show PlaneValid (FaceCache.reflect s _ _).plane; rw [b.plane]; exact hval
  · show (FaceCache.reflect s _ _).plane.n = _; rw [b.plane]; exact hnn
  · unfold CCW; rw [c2]
  · unfold areaOf; rw [c1, area_reverse_mirror]
  · have hl : ∀ l : List (V3 α), loopLen M (l.reverse.map (fun p => p3_reflect p n o)) =
        1 * loopLen M l := by
      intro l; rw [loopLen_map M _ hg, loopLen_reverse, one_mul]
    show perimOf M (FaceCache.reflect s _ _) = _
    rw [C03c.perimOf_loops M s _ (·.reverse.map (fun p => p3_reflect p n o))
      (·.reverse.map (fun p => p3_reflect p n o)) 1 b.boundary b.holes (hl _) hl, one_mul]

/-- `Face3D._plane_from_vertices` as modelled in `Model/FaceCache` is the function analysed in
`Props/C06` (`x ** 2` against `x * x`, accumulation by components against `V3.add`). -/
theorem planeFromVerts_eq (M : MathOps α) (vs : List (V3 α)) :
    planeFromVerts M vs = C06.planeFromVertices M vs := by
  cases vs with
  | nil => simp [planeFromVerts, C06.planeFromVertices, C06.fanNormal, pow_two]
  | cons p0 rest =>
    simp only [planeFromVerts, C06.planeFromVertices, C06.fanNormal, List.headD_cons,
      List.tail_cons, pow_two]
    rfl

/-- The frame of `pl` carried to a new origin `o'` (same `n`, `x`, `y`). -/
def carried (pl : PlaneS α) (o' : V3 α) : PlaneS α :=
  ⟨pl.n, o', V3.dot pl.n o', pl.x, pl.y⟩

/-- A carried valid frame is valid. -/
theorem carried_valid (pl : PlaneS α) (hp : PlaneValid pl) (o' : V3 α) :
    PlaneValid (carried pl o') :=
  ⟨hp.n_unit, hp.x_unit, hp.n_perp_x, hp.y_eq, rfl⟩

/-- Vertices on a valid plane, mapped by a point map with `g p − g q = k (p − q)`, are the chart
images (frame carried to the image of the origin) of the plane coordinates scaled by `k`. -/
theorem scaled_vertices_chart (pl : PlaneS α) (hp : PlaneValid pl) (vs : List (V3 α))
    (hon : ∀ p ∈ vs, OnPlane pl p) (k : α) (g : V3 α → V3 α)
    (hsub : ∀ p q, V3.sub (g p) (g q) = V3.smul k (V3.sub p q)) :
    vs.map g = ((to2d pl vs).map (fun p => V2.smul k p)).map
      (plane_xy_to_xyz (carried pl (g pl.o))) := by
  unfold to2d
  rw [List.map_map, List.map_map]
  apply List.map_congr_left
  intro p hpm
  have r := C06.plane_xyz_roundtrip hp p (hon p hpm)
  have e := hsub p pl.o
  have rx := congrArg V3.x r
  have ry := congrArg V3.y r
  have rz := congrArg V3.z r
  have ex := congrArg V3.x e
  have ey := congrArg V3.y e
  have ez := congrArg V3.z e
  simp only [plane_xy_to_xyz, V3.sub, V3.smul] at rx ry rz ex ey ez
  simp only [Function.comp, plane_xy_to_xyz, V2.smul, carried]
  apply V3.ext' <;> simp only []
  · linear_combination ex - k * rx
  · linear_combination ey - k * ry
  · linear_combination ez - k * rz

/-- **`Face3D.scale`** (`k ≠ 0`, point map `g` with `g p − g q = k (p − q)`: `scale(k, origin)`
or `scale(k)`), for a face whose vertices lie on its valid plane and whose polygon has non-zero
signed area, under the `sqrt` law.  The plane is RECOMPUTED from the scaled vertices; the result:
* is a valid frame through the scaled vertices;
* its normal is the right-hand-rule normal of the vertex order: the old normal if the old
  boundary was counter-clockwise about it, the reversed one otherwise — for NEGATIVE `k` too
  (a point reflection keeps the rotational sense of a planar loop seen along a fixed normal);
* the boundary is counter-clockwise about the new normal;
* fresh `area` is `k²` times, fresh `perimeter` `|k|` times the old value. -/
theorem face_scale_laws (M : MathOps α)
    (hsqrt : ∀ x, 0 ≤ x → M.sqrt x * M.sqrt x = x ∧ 0 ≤ M.sqrt x) (s : FaceC α)
    (hwf : s.holes = none → s.boundary = s.vertices) (hp : PlaneValid s.plane)
    (hon : ∀ p ∈ s.vertices, OnPlane s.plane p) (h0 : shoelace (poly2dOf s) ≠ 0)
    (k : α) (hk : k ≠ 0) (g : V3 α → V3 α)
    (hsub : ∀ p q, V3.sub (g p) (g q) = V3.smul k (V3.sub p q)) :
    let t := FaceCache.scaleWith M s k g
    PlaneValid t.plane ∧
    t.plane.n = (if 0 < shoelace (poly2dOf s) then s.plane.n else V3.neg s.plane.n) ∧
    t.vertices = s.vertices.map g ∧ (∀ p ∈ t.vertices, OnPlane t.plane p) ∧ CCW t ∧
    areaOf t = areaOf s * k ^ 2 ∧ perimOf M t = |k| * perimOf M s := by
  intro t
  have b := C03c.built_scaleWith M s hwf k g
  -- the old frame carried to the image of the old origin
  set pl' : PlaneS α := carried s.plane (g s.plane.o) with hpl'
  have hv' : PlaneValid pl' := carried_valid s.plane hp _
  have hkk : 0 < k * k := mul_self_pos.mpr hk
  set cs0 : List (V2 α) := (poly2dOf s).map (fun p => V2.smul k p) with hcs0
  have hsh : shoelace cs0 = k * k * shoelace (poly2dOf s) := shoelace_scale k _
  have h0' : shoelace cs0 ≠ 0 := by rw [hsh]; exact mul_ne_zero hkk.ne' h0
  have hpos : (0 < shoelace cs0) ↔ (0 < shoelace (poly2dOf s)) := by
    rw [hsh]; exact ⟨fun h => (mul_pos_iff_of_pos_left hkk).1 h, fun h => mul_pos hkk h⟩
  -- the scaled vertices are the chart images of the scaled coordinates
  have hvs : s.vertices.map g = cs0.map (plane_xy_to_xyz pl') :=
    scaled_vertices_chart s.plane hp s.vertices hon k g hsub
  have hown := C06.ctor_own_plane M hsqrt hv' cs0 h0'
  simp only [] at hown
  rw [← hvs, ← planeFromVerts_eq] at hown
  obtain ⟨o1, o2, o3, o4, _⟩ := hown
  have hpl : t.plane = planeFromVerts M (s.vertices.map g) := b.plane
  have hvt : t.vertices = s.vertices.map g := b.vertices
  have hn' : t.plane.n = (if 0 < shoelace (poly2dOf s) then s.plane.n else V3.neg s.plane.n) := by
    rw [hpl, o2]
    by_cases hh : 0 < shoelace (poly2dOf s)
    · rw [if_pos hh, if_pos (hpos.2 hh)]; rfl
    · rw [if_neg hh, if_neg (fun h => hh (hpos.1 h))]; rfl
  have hccw : 0 < shoelace (poly2dOf t) := by
    show 0 < shoelace (to2d t.plane t.vertices)
    rw [hpl, hvt]; exact o4
  -- area: compare the two expressions of the fan sum of the scaled loop
  have hfan1 : C06.fanNormal (s.vertices.map g) = V3.smul (shoelace cs0) s.plane.n := by
    rw [hvs]; exact C06.fan_planar hv' cs0
  have hfan2 : C06.fanNormal (s.vertices.map g) =
      V3.smul (shoelace (poly2dOf t)) t.plane.n := by
    have := C06.fan_on_plane o1 (s.vertices.map g) o3
    rw [← hpl] at this
    show _ = V3.smul (shoelace (to2d t.plane t.vertices)) t.plane.n
    rw [hvt]; exact this
  have habs : |shoelace (poly2dOf t)| = k * k * |shoelace (poly2dOf s)| := by
    have hnu := hp.n_unit
    have e : V3.dot (V3.smul (shoelace (poly2dOf t)) t.plane.n) s.plane.n =
        V3.dot (V3.smul (shoelace cs0) s.plane.n) s.plane.n := by rw [← hfan2, hfan1]
    rw [hn', hsh] at e
    by_cases hh : 0 < shoelace (poly2dOf s)
    · rw [if_pos hh] at e
      simp only [V3.dot, V3.smul, V3.normSq] at e hnu
      have e' : shoelace (poly2dOf t) = k * k * shoelace (poly2dOf s) := by
        linear_combination e + (k * k * shoelace (poly2dOf s) - shoelace (poly2dOf t)) * hnu
      rw [e', abs_mul, abs_of_pos hkk]
    · rw [if_neg hh] at e
      simp only [V3.dot, V3.smul, V3.normSq, V3.neg] at e hnu
      have e' : shoelace (poly2dOf t) = -(k * k * shoelace (poly2dOf s)) := by
        linear_combination -e + (-(k * k * shoelace (poly2dOf s)) - shoelace (poly2dOf t)) * hnu
      rw [e', abs_neg, abs_mul, abs_of_pos hkk]
  refine ⟨?_, hn', hvt, ?_, hccw, ?_, ?_⟩
  · rw [hpl]; exact o1
  · rw [hpl, hvt]; exact o3
  · unfold areaOf
    rw [polygon2d_area_eq_shoelace, polygon2d_area_eq_shoelace, abs_div, abs_div, habs]
    ring
  · have hg2 : ∀ p q, V3.normSq (V3.sub (g p) (g q)) = k * k * V3.normSq (V3.sub p q) := by
      intro p q; rw [hsub, v3_smul_normSq]
    exact C03c.perimOf_loops M s _ (·.map g) (·.map g) |k| b.boundary b.holes
      (loopLen_scale M hsqrt k g hg2 _) (loopLen_scale M hsqrt k g hg2)

/-- The two generated scale kernels satisfy the hypothesis of `face_scale_laws`. -/
theorem scale_kernels_sub (k : α) (o : V3 α) :
    (∀ p q, V3.sub (p3_scale p k o) (p3_scale q k o) = V3.smul k (V3.sub p q)) ∧
    (∀ p q, V3.sub (p3_scale_world p k) (p3_scale_world q k) = V3.smul k (V3.sub p q)) := by
  constructor
  · intro p q; exact C02.p3_scale_sub p q o k
  · intro p q
    apply V3.ext' <;> simp only [V3.sub, V3.smul, p3_scale_world] <;> ring

/-- **Face3D, what the getters answer after a rigid transform**: from a state with a non-stale
cache (`C03c.FInv`) the result has a non-stale cache, and `area`, `perimeter`, `is_convex` answer
what they answered before (instances of `g`, `pg`: `C03c.validF_move / _rotate_xy / _rotate`). -/
theorem face_rigid_reads (K : FaceCache.Kern α) (M : MathOps α) (s : FaceC α)
    (h : C03c.FInv K M s) (g : V3 α → V3 α) (pg : PlaneS α → PlaneS α) (hg : Isom3 g)
    (hc : ∀ p, plane_xyz_to_xy (pg s.plane) (g p) = plane_xyz_to_xy s.plane p) :
    C03c.FInv K M (FaceCache.rigid s g pg) ∧
    (FaceCache.readArea (FaceCache.rigid s g pg)).1 = (FaceCache.readArea s).1 ∧
    (readPerimeter M (FaceCache.rigid s g pg)).1 = (readPerimeter M s).1 ∧
    (readIsConvex (FaceCache.rigid s g pg)).1 = (readIsConvex s).1 := by
  have ht := C03c.finv_rigid K M s h g pg hg hc
  obtain ⟨_, a1, a2, _, a4⟩ := face_rigid_laws M s h.wf g pg hg hc
  refine ⟨ht, ?_, ?_, ?_⟩
  · rw [(C03c.readArea_spec K M _ ht).1, (C03c.readArea_spec K M s h).1, a1]
  · rw [(C03c.readPerimeter_spec K M _ ht).1, (C03c.readPerimeter_spec K M s h).1, a4]
  · rw [(C03c.readIsConvex_spec K M _ ht).1, (C03c.readIsConvex_spec K M s h).1, a2]

/-- **Face3D, what the getters answer after `reflect`** (unit mirror normal, valid plane): the
result has a non-stale cache and `area`, `perimeter` answer what they answered before.  The
flag conditions `hcv`, `hsi` (needed only when `_is_convex` / `_is_self_intersecting` are cached,
which `reflect` copies) are those of `C03c.finv_reflect`. -/
theorem face_reflect_reads (K : FaceCache.Kern α) (M : MathOps α) (h1 : M.sqrt 1 = 1)
    (s : FaceC α) (h : C03c.FInv K M s) (hp : PlaneValid s.plane) (n o : V3 α)
    (hn : V3.normSq n = 1)
    (hcv : s.is_convex ≠ none →
      isConvex2 ((poly2dOf s).reverse.map mirrorY) = isConvex2 (poly2dOf s))
    (hsi : s.is_self_intersecting ≠ none →
      selfIntOfPolys ((bpoly2dOf s).reverse.map mirrorY)
        ((hpoly2dOf s).map (·.map (fun l => l.reverse.map mirrorY))) = selfIntOf s) :
    let t := FaceCache.reflect s (fun p => p3_reflect p n o) (fun pl => plane_reflect M pl n o)
    C03c.FInv K M t ∧ (FaceCache.readArea t).1 = (FaceCache.readArea s).1 ∧
    (readPerimeter M t).1 = (readPerimeter M s).1 := by
  intro t
  obtain ⟨hg, hc⟩ := C03c.reflect_coords M h1 s.plane hp n o hn
  have ht : C03c.FInv K M t := C03c.finv_reflect K M s h _ _ hg hc hcv hsi
  obtain ⟨_, _, _, _, _, _, a1, a2⟩ := face_reflect_laws M h1 s h.wf hp n o hn
  refine ⟨ht, ?_, ?_⟩
  · rw [(C03c.readArea_spec K M _ ht).1, (C03c.readArea_spec K M s h).1]; exact a1
  · rw [(C03c.readPerimeter_spec K M _ ht).1, (C03c.readPerimeter_spec K M s h).1]; exact a2

/-- **Face3D, what the getters answer after `scale`** (`k ≠ 0`; face with vertices on its valid
plane and non-zero area; `sqrt` law): the result has a non-stale cache, `area` answers `k²`
times and `perimeter` `|k|` times the old answer — the area condition of `C03c.finv_scaleWith`
is DISCHARGED here; the flag conditions `hcv`, `hsi` (only for cached flags) remain. -/
theorem face_scale_reads (K : FaceCache.Kern α) (M : MathOps α)
    (hsqrt : ∀ x, 0 ≤ x → M.sqrt x * M.sqrt x = x ∧ 0 ≤ M.sqrt x) (s : FaceC α)
    (h : C03c.FInv K M s) (hp : PlaneValid s.plane) (hon : ∀ p ∈ s.vertices, OnPlane s.plane p)
    (h0 : shoelace (poly2dOf s) ≠ 0) (k : α) (hk : k ≠ 0) (g : V3 α → V3 α)
    (hsub : ∀ p q, V3.sub (g p) (g q) = V3.smul k (V3.sub p q))
    (hcv : s.is_convex ≠ none → convexOf (scaleWith M s k g) = convexOf s)
    (hsi : s.is_self_intersecting ≠ none → selfIntOf (scaleWith M s k g) = selfIntOf s) :
    C03c.FInv K M (scaleWith M s k g) ∧
    (FaceCache.readArea (scaleWith M s k g)).1 = (FaceCache.readArea s).1 * k ^ 2 ∧
    (readPerimeter M (scaleWith M s k g)).1 = |k| * (readPerimeter M s).1 := by
  obtain ⟨_, _, _, _, _, a1, a2⟩ := face_scale_laws M hsqrt s h.wf hp hon h0 k hk g hsub
  have hg2 : ∀ p q, V3.normSq (V3.sub (g p) (g q)) = k * k * V3.normSq (V3.sub p q) := by
    intro p q; rw [hsub, v3_smul_normSq]
  have ht := C03c.finv_scaleWith K M hsqrt s h k g hg2 (fun _ => a1) hcv hsi
  refine ⟨ht, ?_, ?_⟩
  · rw [(C03c.readArea_spec K M _ ht).1, (C03c.readArea_spec K M s h).1]; exact a1
  · rw [(C03c.readPerimeter_spec K M _ ht).1, (C03c.readPerimeter_spec K M s h).1]; exact a2

end face

/-! ## 5. Polyface3D -/

section polyface
open Lbg.Model.FaceCache Lbg.Model.PolyfaceCache
open Lbg.Props.C03c (volTermF volOfFaces)

/-- **Polyface3D, defining data**: vertices mapped by the point kernel; the index loops are
kept by `move / rotate / rotate_xy` and by `scale` with `k ≥ 0`, and every loop is REVERSED by
`reflect` and by `scale` with `k < 0`; the edge table is carried; cached faces are mapped by the
same `Face3D` method (dropped for `k < 0`); the cached volume is carried (`× |k|³` by `scale`). -/
theorem polyface_vertices (s : PfC α) (g : V3 α → V3 α) (pg : PlaneS α → PlaneS α) (k : α)
    (fsc : FaceC α → FaceC α) :
    ((PolyfaceCache.rigid s g pg).vertices = s.vertices.map g ∧
      (PolyfaceCache.rigid s g pg).face_indices = s.face_indices ∧
      (PolyfaceCache.rigid s g pg).faces = s.faces.map (·.map (fun f => FaceCache.rigid f g pg)) ∧
      (PolyfaceCache.rigid s g pg).volume = s.volume) ∧
    ((PolyfaceCache.reflect s g pg).vertices = s.vertices.map g ∧
      (PolyfaceCache.reflect s g pg).face_indices = revLoops s.face_indices ∧
      (PolyfaceCache.reflect s g pg).faces =
        s.faces.map (·.map (fun f => FaceCache.reflect f g pg)) ∧
      (PolyfaceCache.reflect s g pg).volume = s.volume) ∧
    ((PolyfaceCache.scaleWith s k g fsc).vertices = s.vertices.map g ∧
      (PolyfaceCache.scaleWith s k g fsc).face_indices =
        (if k < 0 then revLoops s.face_indices else s.face_indices) ∧
      (PolyfaceCache.scaleWith s k g fsc).faces =
        (if k < 0 then none else s.faces.map (·.map fsc)) ∧
      (PolyfaceCache.scaleWith s k g fsc).volume = s.volume.map (· * |k| ^ 3)) ∧
    (PolyfaceCache.rigid s g pg).edge_indices = s.edge_indices ∧
    (PolyfaceCache.reflect s g pg).edge_indices = s.edge_indices ∧
    (PolyfaceCache.scaleWith s k g fsc).edge_indices = s.edge_indices ∧
    (PolyfaceCache.rigid s g pg).edge_types = s.edge_types ∧
    (PolyfaceCache.reflect s g pg).edge_types = s.edge_types ∧
    (PolyfaceCache.scaleWith s k g fsc).edge_types = s.edge_types :=
  ⟨⟨rfl, rfl, rfl, rfl⟩, ⟨rfl, rfl, rfl, rfl⟩, ⟨rfl, rfl, rfl, rfl⟩, rfl, rfl, rfl, rfl, rfl, rfl⟩

/-- The face points away from the point `c`: `c` is strictly on the inner side of the face's
plane with respect to the stored normal (`(face[0] − c) · n > 0`). -/
def PointsAway (c : V3 α) (f : FaceC α) : Prop :=
  0 < V3.dot (V3.sub (f.vertices.headD ⟨0, 0, 0⟩) c) f.plane.n

/-- **Outward stays outward, `move`**: a face pointing away from `c` is mapped to a face
pointing away from the moved `c`. -/
theorem points_away_move (M : MathOps α) (h1 : M.sqrt 1 = 1) (f : FaceC α)
    (hwf : f.holes = none → f.boundary = f.vertices) (hp : PlaneValid f.plane)
    (hne : f.vertices ≠ []) (v c : V3 α) :
    PointsAway (p3_move c v)
      (FaceCache.rigid f (fun p => p3_move p v) (fun pl => plane_move M pl v)) ↔ PointsAway c f := by
  obtain ⟨_, hn, _⟩ := C02.plane_move_valid M h1 f.plane v hp
  have b := C03c.built_rigid f hwf (fun p => p3_move p v) (fun pl => plane_move M pl v)
  unfold PointsAway
  rw [b.vertices, b.plane, hn, headD_map (fun p => p3_move p v) ⟨0, 0, 0⟩ ⟨0, 0, 0⟩ _ hne,
    C02.p3_move_sub]

/-- **Outward stays outward, `rotate_xy`.** -/
theorem points_away_rotate_xy (M : MathOps α) (h1 : M.sqrt 1 = 1) (f : FaceC α)
    (hwf : f.holes = none → f.boundary = f.vertices) (hp : PlaneValid f.plane)
    (hne : f.vertices ≠ []) (θ : α) (o c : V3 α)
    (hcs : M.cos θ * M.cos θ + M.sin θ * M.sin θ = 1) :
    PointsAway (p3_rotate_xy M c θ o)
      (FaceCache.rigid f (fun p => p3_rotate_xy M p θ o) (fun pl => plane_rotate_xy M pl θ o)) ↔
      PointsAway c f := by
  obtain ⟨_, hn, _⟩ := C02.plane_rotate_xy_valid M h1 f.plane θ o hcs hp
  have b := C03c.built_rigid f hwf (fun p => p3_rotate_xy M p θ o)
    (fun pl => plane_rotate_xy M pl θ o)
  unfold PointsAway
  rw [b.vertices, b.plane, hn,
    headD_map (fun p => p3_rotate_xy M p θ o) ⟨0, 0, 0⟩ ⟨0, 0, 0⟩ _ hne, C02.p3_rotate_xy_sub,
    C02.v3_rotate_xy_dot M _ _ θ hcs]

/-- **Outward stays outward, `rotate`** (non-zero axis). -/
theorem points_away_rotate (M : MathOps α) (h1 : M.sqrt 1 = 1) (f : FaceC α)
    (hwf : f.holes = none → f.boundary = f.vertices) (hp : PlaneValid f.plane)
    (hne : f.vertices ≠ []) (axis : V3 α) (θ : α) (o c : V3 α)
    (hcs : M.cos θ * M.cos θ + M.sin θ * M.sin θ = 1)
    (hr : M.sqrt (V3.normSq axis) * M.sqrt (V3.normSq axis) = V3.normSq axis)
    (h0 : V3.normSq axis ≠ 0) :
    PointsAway (p3_rotate M c axis θ o)
      (FaceCache.rigid f (fun p => p3_rotate M p axis θ o)
        (fun pl => plane_rotate M pl axis θ o)) ↔ PointsAway c f := by
  obtain ⟨_, hn, _⟩ := C02.plane_rotate_valid M h1 f.plane axis θ o hcs hr h0 hp
  have b := C03c.built_rigid f hwf (fun p => p3_rotate M p axis θ o)
    (fun pl => plane_rotate M pl axis θ o)
  unfold PointsAway
  rw [b.vertices, b.plane, hn,
    headD_map (fun p => p3_rotate M p axis θ o) ⟨0, 0, 0⟩ ⟨0, 0, 0⟩ _ hne, C02.p3_rotate_sub,
    C02.v3_rotate_dot M _ _ axis θ hcs hr h0]

/-- On a plane, `(p − c)·n` does not depend on which point `p` of the plane is taken. -/
theorem dot_sub_on_plane (pl : PlaneS α) (p q c : V3 α) (hp : OnPlane pl p) (hq : OnPlane pl q) :
    V3.dot (V3.sub p c) pl.n = V3.dot (V3.sub q c) pl.n := by
  simp only [OnPlane, V3.dot, V3.sub] at *
  linear_combination hp - hq

/-- **Outward stays outward, `reflect`** (unit mirror normal; the face's vertices lie on its
plane): the mirror image of a face — normal mirrored AND vertex order reversed, as
`Face3D.reflect` and `Polyface3D.reflect` do — points away from the mirror image of `c` exactly
when the face pointed away from `c`.  (Without the reversal the right-hand-rule normal of the
mirrored loop would be the NEGATIVE of the mirrored normal.) -/
theorem points_away_reflect (M : MathOps α) (h1 : M.sqrt 1 = 1) (f : FaceC α)
    (hwf : f.holes = none → f.boundary = f.vertices) (hp : PlaneValid f.plane)
    (hon : ∀ p ∈ f.vertices, OnPlane f.plane p) (hne : f.vertices ≠ []) (n o c : V3 α)
    (hn : V3.normSq n = 1) :
    PointsAway (p3_reflect c n o)
      (FaceCache.reflect f (fun p => p3_reflect p n o) (fun pl => plane_reflect M pl n o)) ↔
      PointsAway c f := by
  obtain ⟨_, hnn, _⟩ := C02.plane_reflect_valid M h1 f.plane n o hn hp
  have b := C03c.built_reflect f hwf (fun p => p3_reflect p n o) (fun pl => plane_reflect M pl n o)
  unfold PointsAway
  rw [b.vertices, b.plane, hnn,
    headD_reverse_map (fun p => p3_reflect p n o) ⟨0, 0, 0⟩ ⟨0, 0, 0⟩ _ hne, C02.p3_reflect_sub,
    C02.v3_reflect_dot _ _ n hn,
    dot_sub_on_plane f.plane _ (f.vertices.headD ⟨0, 0, 0⟩) c
      (hon _ (getLast_mem_of_ne _ _ hne)) (hon _ (headD_mem_of_ne _ _ hne))]

/-- **Outward stays outward, `scale` with `k > 0`** (face counter-clockwise about its normal,
vertices on its plane, `sqrt` law): the recomputed normal is the old normal and
`g p − g c = k (p − c)`. -/
theorem points_away_scale_pos (M : MathOps α)
    (hsqrt : ∀ x, 0 ≤ x → M.sqrt x * M.sqrt x = x ∧ 0 ≤ M.sqrt x) (f : FaceC α)
    (hwf : f.holes = none → f.boundary = f.vertices) (hp : PlaneValid f.plane)
    (hon : ∀ p ∈ f.vertices, OnPlane f.plane p) (hccw : CCW f) (hne : f.vertices ≠ [])
    (k : α) (hk : 0 < k) (g : V3 α → V3 α)
    (hsub : ∀ p q, V3.sub (g p) (g q) = V3.smul k (V3.sub p q)) (c : V3 α) :
    PointsAway (g c) (FaceCache.scaleWith M f k g) ↔ PointsAway c f := by
  obtain ⟨_, hn, hv, _⟩ := face_scale_laws M hsqrt f hwf hp hon hccw.ne' k hk.ne' g hsub
  unfold PointsAway
  rw [hn, hv, if_pos (show (0 : α) < shoelace (poly2dOf f) from hccw), headD_map g ⟨0, 0, 0⟩ ⟨0, 0, 0⟩ _ hne, hsub]
  have e : V3.dot (V3.smul k (V3.sub (f.vertices.headD ⟨0, 0, 0⟩) c)) f.plane.n =
      k * V3.dot (V3.sub (f.vertices.headD ⟨0, 0, 0⟩) c) f.plane.n := by
    simp only [V3.dot, V3.smul]; ring
  rw [e]
  exact ⟨fun h => (mul_pos_iff_of_pos_left hk).1 h, fun h => mul_pos hk h⟩

/-- The face `Face3D(reversed scaled loop)` that the `faces` getter builds after
`Polyface3D.scale` with a NEGATIVE factor (the index loops are reversed, `_faces` is dropped):
vertices `(vertices.map g).reverse`, plane from `_plane_from_vertices`. -/
def reversedScaledFace (M : MathOps α) (f : FaceC α) (g : V3 α → V3 α) : FaceC α :=
  mkFace (f.vertices.map g).reverse (planeFromVerts M (f.vertices.map g).reverse)

/-- `Face3D._plane_from_vertices` on a planar loop of non-zero area given by coordinates `cs0` in
some valid frame `pl0` (`C06.ctor_own_plane`), plus the area clause: the computed plane is
valid, its normal is the right-hand-rule normal, the vertices lie on it, and the signed area of
the loop in the computed plane's coordinates is `|shoelace cs0|` (positive). -/
theorem own_plane_laws (M : MathOps α)
    (hsqrt : ∀ x, 0 ≤ x → M.sqrt x * M.sqrt x = x ∧ 0 ≤ M.sqrt x) {pl0 : PlaneS α}
    (hv0 : PlaneValid pl0) (cs0 : List (V2 α)) (h0 : shoelace cs0 ≠ 0) :
    PlaneValid (planeFromVerts M (cs0.map (plane_xy_to_xyz pl0))) ∧
    (planeFromVerts M (cs0.map (plane_xy_to_xyz pl0))).n =
      (if 0 < shoelace cs0 then pl0.n else V3.neg pl0.n) ∧
    (∀ p ∈ cs0.map (plane_xy_to_xyz pl0),
      OnPlane (planeFromVerts M (cs0.map (plane_xy_to_xyz pl0))) p) ∧
    shoelace (to2d (planeFromVerts M (cs0.map (plane_xy_to_xyz pl0)))
      (cs0.map (plane_xy_to_xyz pl0))) = |shoelace cs0| := by
  have hown := C06.ctor_own_plane M hsqrt hv0 cs0 h0
  simp only [] at hown
  rw [← planeFromVerts_eq] at hown
  obtain ⟨o1, o2, o3, o4, _⟩ := hown
  refine ⟨o1, o2, o3, ?_⟩
  set P := planeFromVerts M (cs0.map (plane_xy_to_xyz pl0)) with hP
  have hfan1 := C06.fan_planar hv0 cs0
  have hfan2 := C06.fan_on_plane o1 (cs0.map (plane_xy_to_xyz pl0)) o3
  have hnu := hv0.n_unit
  have e : V3.dot (V3.smul (shoelace ((cs0.map (plane_xy_to_xyz pl0)).map (plane_xyz_to_xy P))) P.n)
      pl0.n = V3.dot (V3.smul (shoelace cs0) pl0.n) pl0.n := by rw [← hfan2, hfan1]
  show shoelace ((cs0.map (plane_xy_to_xyz pl0)).map (plane_xyz_to_xy P)) = _
  rw [o2] at e
  by_cases hh : 0 < shoelace cs0
  · rw [if_pos hh] at e
    simp only [V3.dot, V3.smul, V3.normSq] at e hnu
    rw [abs_of_pos hh]
    linear_combination e + (shoelace cs0 -
      shoelace ((cs0.map (plane_xy_to_xyz pl0)).map (plane_xyz_to_xy P))) * hnu
  · rw [if_neg hh] at e
    simp only [V3.dot, V3.smul, V3.normSq, V3.neg] at e hnu
    rw [abs_of_neg (lt_of_le_of_ne (not_lt.1 hh) h0)]
    linear_combination -e + (-(shoelace cs0) -
      shoelace ((cs0.map (plane_xy_to_xyz pl0)).map (plane_xyz_to_xy P))) * hnu

/-- For a face counter-clockwise about its normal (vertices on its valid plane), the face on
the reversed scaled loop has a valid plane through its vertices whose normal is the REVERSED
old normal, it is counter-clockwise about it, and its area is `k²` times the old one
(`k ≠ 0`). -/
theorem reversedScaledFace_laws (M : MathOps α)
    (hsqrt : ∀ x, 0 ≤ x → M.sqrt x * M.sqrt x = x ∧ 0 ≤ M.sqrt x) (f : FaceC α)
    (hp : PlaneValid f.plane) (hon : ∀ p ∈ f.vertices, OnPlane f.plane p) (hccw : CCW f)
    (k : α) (hk : k ≠ 0) (g : V3 α → V3 α)
    (hsub : ∀ p q, V3.sub (g p) (g q) = V3.smul k (V3.sub p q)) :
    PlaneValid (reversedScaledFace M f g).plane ∧
    (reversedScaledFace M f g).plane.n = V3.neg f.plane.n ∧
    (∀ p ∈ (reversedScaledFace M f g).vertices, OnPlane (reversedScaledFace M f g).plane p) ∧
    CCW (reversedScaledFace M f g) ∧
    areaOf (reversedScaledFace M f g) = areaOf f * k ^ 2 := by
  have hkk : 0 < k * k := mul_self_pos.mpr hk
  have hv' := carried_valid f.plane hp (g f.plane.o)
  have hvs := scaled_vertices_chart f.plane hp f.vertices hon k g hsub
  set cs0 : List (V2 α) := ((to2d f.plane f.vertices).map (fun p => V2.smul k p)).reverse with hcs0
  have hsh : shoelace cs0 = -(k * k * shoelace (poly2dOf f)) := by
    rw [hcs0, shoelace_reverse, shoelace_scale]; rfl
  have hpos : 0 < k * k * shoelace (poly2dOf f) := mul_pos hkk hccw
  have hneg : shoelace cs0 < 0 := by rw [hsh]; linarith
  have hvs' : (f.vertices.map g).reverse = cs0.map (plane_xy_to_xyz (carried f.plane (g f.plane.o))) := by
    rw [hcs0, List.map_reverse, ← hvs]
  obtain ⟨o1, o2, o3, o4⟩ := own_plane_laws M hsqrt hv' cs0 hneg.ne
  rw [← hvs'] at o1 o2 o3 o4
  rw [if_neg (not_lt.2 hneg.le)] at o2
  have hsl : shoelace (poly2dOf (reversedScaledFace M f g)) = k * k * shoelace (poly2dOf f) := by
    show shoelace (to2d (planeFromVerts M (f.vertices.map g).reverse) (f.vertices.map g).reverse) = _
    rw [o4, hsh, abs_neg, abs_of_pos hpos]
  refine ⟨o1, o2, o3, ?_, ?_⟩
  · show 0 < shoelace (poly2dOf (reversedScaledFace M f g))
    rw [hsl]; exact hpos
  · unfold areaOf
    rw [polygon2d_area_eq_shoelace, polygon2d_area_eq_shoelace, hsl, abs_div, abs_div, abs_mul,
      abs_of_pos hkk]
    ring

/-- **Outward stays outward, `scale` with `k < 0`**: the point reflection alone would turn an
outward face inward (`points_away_scale_neg_unreversed`); with the loop reversal the code
performs, the rebuilt face points away from the image of `c` exactly when the old face pointed
away from `c`. -/
theorem points_away_scale_neg (M : MathOps α)
    (hsqrt : ∀ x, 0 ≤ x → M.sqrt x * M.sqrt x = x ∧ 0 ≤ M.sqrt x) (f : FaceC α)
    (hp : PlaneValid f.plane) (hon : ∀ p ∈ f.vertices, OnPlane f.plane p) (hccw : CCW f)
    (hne : f.vertices ≠ []) (k : α) (hk : k < 0) (g : V3 α → V3 α)
    (hsub : ∀ p q, V3.sub (g p) (g q) = V3.smul k (V3.sub p q)) (c : V3 α) :
    PointsAway (g c) (reversedScaledFace M f g) ↔ PointsAway c f := by
  obtain ⟨_, hn, _, _, _⟩ := reversedScaledFace_laws M hsqrt f hp hon hccw k hk.ne g hsub
  unfold PointsAway
  rw [hn]
  show 0 < V3.dot (V3.sub ((f.vertices.map g).reverse.headD ⟨0, 0, 0⟩) (g c)) (V3.neg f.plane.n) ↔ _
  rw [← List.map_reverse, headD_reverse_map g ⟨0, 0, 0⟩ ⟨0, 0, 0⟩ _ hne, hsub]
  have e : V3.dot (V3.smul k (V3.sub (f.vertices.getLast?.getD ⟨0, 0, 0⟩) c)) (V3.neg f.plane.n) =
      (-k) * V3.dot (V3.sub (f.vertices.getLast?.getD ⟨0, 0, 0⟩) c) f.plane.n := by
    simp only [V3.dot, V3.smul, V3.neg]; ring
  rw [e, dot_sub_on_plane f.plane _ (f.vertices.headD ⟨0, 0, 0⟩) c
    (hon _ (getLast_mem_of_ne _ _ hne)) (hon _ (headD_mem_of_ne _ _ hne))]
  have hk' : 0 < -k := by linarith
  exact ⟨fun h => (mul_pos_iff_of_pos_left hk').1 h, fun h => mul_pos hk' h⟩

/-- Why the reversal is needed: `Face3D.scale` itself with `k < 0` (no reversal) keeps the
normal, so the scaled face points TOWARDS the image of `c` when the old one pointed away. -/
theorem points_away_scale_neg_unreversed (M : MathOps α)
    (hsqrt : ∀ x, 0 ≤ x → M.sqrt x * M.sqrt x = x ∧ 0 ≤ M.sqrt x) (f : FaceC α)
    (hwf : f.holes = none → f.boundary = f.vertices) (hp : PlaneValid f.plane)
    (hon : ∀ p ∈ f.vertices, OnPlane f.plane p) (hccw : CCW f) (hne : f.vertices ≠ [])
    (k : α) (hk : k < 0) (g : V3 α → V3 α)
    (hsub : ∀ p q, V3.sub (g p) (g q) = V3.smul k (V3.sub p q)) (c : V3 α)
    (hout : PointsAway c f) : ¬ PointsAway (g c) (FaceCache.scaleWith M f k g) := by
  obtain ⟨_, hn, hv, _⟩ := face_scale_laws M hsqrt f hwf hp hon hccw.ne' k hk.ne g hsub
  unfold PointsAway at hout ⊢
  rw [hn, hv, if_pos (show (0 : α) < shoelace (poly2dOf f) from hccw), headD_map g ⟨0, 0, 0⟩ ⟨0, 0, 0⟩ _ hne, hsub]
  have e : V3.dot (V3.smul k (V3.sub (f.vertices.headD ⟨0, 0, 0⟩) c)) f.plane.n =
      k * V3.dot (V3.sub (f.vertices.headD ⟨0, 0, 0⟩) c) f.plane.n := by
    simp only [V3.dot, V3.smul]; ring
  rw [e, not_lt]
  exact (mul_neg_of_neg_of_pos hk hout).le

/-- One summand of `Polyface3D.volume` after `Face3D.scale(k, origin)` (`k ≠ 0`, face
counter-clockwise about its normal, vertices on its plane, `sqrt` law):
`k³ ×` the old summand plus a term that is linear in `origin · n · area`. -/
theorem volTerm_scale (M : MathOps α)
    (hsqrt : ∀ x, 0 ≤ x → M.sqrt x * M.sqrt x = x ∧ 0 ≤ M.sqrt x) (f : FaceC α)
    (hwf : f.holes = none → f.boundary = f.vertices) (hp : PlaneValid f.plane)
    (hon : ∀ p ∈ f.vertices, OnPlane f.plane p) (hccw : CCW f) (hne : f.vertices ≠ [])
    (k : α) (hk : k ≠ 0) (o : V3 α) :
    volTermF (FaceCache.scale M f k o) =
      k ^ 3 * volTermF f + (1 - k) * k ^ 2 * (v3_dot o f.plane.n * areaOf f) := by
  obtain ⟨_, hn, hv, _, _, ha, _⟩ := face_scale_laws M hsqrt f hwf hp hon hccw.ne' k hk
    (fun p => p3_scale p k o) (scale_kernels_sub k o).1
  unfold volTermF FaceCache.scale
  rw [hn, hv, ha, if_pos (show (0 : α) < shoelace (poly2dOf f) from hccw), headD_map (fun p => p3_scale p k o) ⟨0, 0, 0⟩ ⟨0, 0, 0⟩ _ hne]
  simp only [v3_dot, p3_scale]
  ring

/-- **Polyface3D, volume `× k³`** (`k > 0`): for a list of faces as above, the divergence volume
of the scaled faces is `k³` times the old one, provided the term `origin · Σ Aᵢ nᵢ` vanishes —
which holds for every CLOSED surface (`Σ Aᵢ nᵢ = 0`) and for `origin = 0`.  (The cached
`_volume` is multiplied by `|k|³`: `polyface_vertices`.) -/
theorem polyface_volume_scale (M : MathOps α)
    (hsqrt : ∀ x, 0 ≤ x → M.sqrt x * M.sqrt x = x ∧ 0 ≤ M.sqrt x) (fs : List (FaceC α))
    (hgood : ∀ f ∈ fs, (f.holes = none → f.boundary = f.vertices) ∧ PlaneValid f.plane ∧
      (∀ p ∈ f.vertices, OnPlane f.plane p) ∧ CCW f ∧ f.vertices ≠ [])
    (k : α) (hk : k ≠ 0) (o : V3 α)
    (hclosed : (fs.map (fun f => v3_dot o f.plane.n * areaOf f)).sum = 0) :
    volOfFaces (fs.map (fun f => FaceCache.scale M f k o)) = k ^ 3 * volOfFaces fs := by
  unfold volOfFaces
  rw [foldl_add_eq_sum, foldl_add_eq_sum, List.map_map]
  have e : (fs.map (volTermF ∘ fun f => FaceCache.scale M f k o)).sum =
      k ^ 3 * (fs.map volTermF).sum +
        (1 - k) * k ^ 2 * (fs.map (fun f => v3_dot o f.plane.n * areaOf f)).sum := by
    clear hclosed
    induction fs with
    | nil => simp
    | cons f t ih =>
      obtain ⟨g1, g2, g3, g4, g5⟩ := hgood f (by simp)
      simp only [List.map_cons, List.sum_cons, Function.comp]
      rw [volTerm_scale M hsqrt f g1 g2 g3 g4 g5 k hk o]
      have := ih (fun f' hf' => hgood f' (List.mem_cons_of_mem _ hf'))
      rw [this]; ring
  rw [e, hclosed]; ring

/-- One summand of `Polyface3D.volume` for the face rebuilt on the REVERSED scaled loop
(`scale(k, origin)` with the reversal the code performs for `k < 0`): `−k³ ×` the old summand
minus the `origin` term. -/
theorem volTerm_scale_reversed (M : MathOps α)
    (hsqrt : ∀ x, 0 ≤ x → M.sqrt x * M.sqrt x = x ∧ 0 ≤ M.sqrt x) (f : FaceC α)
    (hp : PlaneValid f.plane) (hon : ∀ p ∈ f.vertices, OnPlane f.plane p) (hccw : CCW f)
    (hne : f.vertices ≠ []) (k : α) (hk : k ≠ 0) (o : V3 α) :
    volTermF (reversedScaledFace M f (fun p => p3_scale p k o)) =
      -(k ^ 3) * volTermF f - (1 - k) * k ^ 2 * (v3_dot o f.plane.n * areaOf f) := by
  obtain ⟨_, hn, _, _, ha⟩ := reversedScaledFace_laws M hsqrt f hp hon hccw k hk
    (fun p => p3_scale p k o) (scale_kernels_sub k o).1
  have hl := hon _ (getLast_mem_of_ne ⟨0, 0, 0⟩ f.vertices hne)
  have hh := hon _ (headD_mem_of_ne ⟨0, 0, 0⟩ f.vertices hne)
  unfold volTermF
  rw [hn, ha]
  show v3_dot ((f.vertices.map (fun p => p3_scale p k o)).reverse.headD ⟨0, 0, 0⟩)
    (V3.neg f.plane.n) * (areaOf f * k ^ 2) = _
  rw [← List.map_reverse, headD_reverse_map (fun p => p3_scale p k o) ⟨0, 0, 0⟩ ⟨0, 0, 0⟩ _ hne]
  simp only [OnPlane, V3.dot] at hl hh
  simp only [v3_dot, p3_scale, V3.neg]
  linear_combination (-(k ^ 3) * areaOf f) * (hl - hh)

/-- **Polyface3D, volume `× |k|³` for `k < 0`**: with the loop reversal the code performs, the
divergence volume of the rebuilt faces is `−k³ = |k|³` times the old one (closed surface or
`origin = 0`) — positive for an outward-oriented solid, as the cached `_volume × |k|³` says. -/
theorem polyface_volume_scale_neg (M : MathOps α)
    (hsqrt : ∀ x, 0 ≤ x → M.sqrt x * M.sqrt x = x ∧ 0 ≤ M.sqrt x) (fs : List (FaceC α))
    (hgood : ∀ f ∈ fs, PlaneValid f.plane ∧ (∀ p ∈ f.vertices, OnPlane f.plane p) ∧ CCW f ∧
      f.vertices ≠ [])
    (k : α) (hk : k < 0) (o : V3 α)
    (hclosed : (fs.map (fun f => v3_dot o f.plane.n * areaOf f)).sum = 0) :
    volOfFaces (fs.map (fun f => reversedScaledFace M f (fun p => p3_scale p k o))) =
      |k| ^ 3 * volOfFaces fs := by
  unfold volOfFaces
  rw [foldl_add_eq_sum, foldl_add_eq_sum, List.map_map]
  have e : (fs.map (volTermF ∘ fun f => reversedScaledFace M f (fun p => p3_scale p k o))).sum =
      -(k ^ 3) * (fs.map volTermF).sum -
        (1 - k) * k ^ 2 * (fs.map (fun f => v3_dot o f.plane.n * areaOf f)).sum := by
    clear hclosed
    induction fs with
    | nil => simp
    | cons f t ih =>
      obtain ⟨g2, g3, g4, g5⟩ := hgood f (by simp)
      simp only [List.map_cons, List.sum_cons, Function.comp]
      rw [volTerm_scale_reversed M hsqrt f g2 g3 g4 g5 k hk.ne o]
      have := ih (fun f' hf' => hgood f' (List.mem_cons_of_mem _ hf'))
      rw [this]; ring
  rw [e, hclosed, abs_of_neg hk]; ring

end polyface

/-! ## 6. The inverse maps restore the defining data -/

section inverse

/-- **The point-level inverse laws** of the generated kernels (from `Props/C02`), in the form
the list lemmas below consume: move by the reversed vector; rotate by an angle `φ` with
`cos φ = cos θ`, `sin φ = −sin θ` (i.e. `−θ`); reflect again; scale by `1/k` (`k ≠ 0`). -/
theorem point_inverses (M : MathOps α) (θ φ : α)
    (hcs : M.cos θ * M.cos θ + M.sin θ * M.sin θ = 1)
    (hc : M.cos φ = M.cos θ) (hs : M.sin φ = -M.sin θ) :
    (∀ (v p : V2 α), p2_move (p2_move p v) (v2_reverse v) = p) ∧
    (∀ (o p : V2 α), p2_rotate M (p2_rotate M p θ o) φ o = p) ∧
    (∀ (n o p : V2 α), V2.normSq n = 1 → p2_reflect (p2_reflect p n o) n o = p) ∧
    (∀ (k : α) (o p : V2 α), k ≠ 0 → p2_scale (p2_scale p k o) (1 / k) o = p) ∧
    (∀ (k : α) (p : V2 α), k ≠ 0 → p2_scale_world (p2_scale_world p k) (1 / k) = p) ∧
    (∀ (v p : V3 α), p3_move (p3_move p v) (v3_reverse v) = p) ∧
    (∀ (axis o p : V3 α), M.sqrt (V3.normSq axis) * M.sqrt (V3.normSq axis) = V3.normSq axis →
      V3.normSq axis ≠ 0 → p3_rotate M (p3_rotate M p axis θ o) axis φ o = p) ∧
    (∀ (o p : V3 α), p3_rotate_xy M (p3_rotate_xy M p θ o) φ o = p) ∧
    (∀ (n o p : V3 α), V3.normSq n = 1 → p3_reflect (p3_reflect p n o) n o = p) ∧
    (∀ (k : α) (o p : V3 α), k ≠ 0 → p3_scale (p3_scale p k o) (1 / k) o = p) ∧
    (∀ (k : α) (p : V3 α), k ≠ 0 → p3_scale_world (p3_scale_world p k) (1 / k) = p) := by
  refine ⟨fun v p => C02.p2_move_inverse p v, fun o p => C02.p2_rotate_inverse M p o θ φ hcs hc hs,
    fun n o p hn => C02.p2_reflect_involutive p n o hn, fun k o p hk => C02.p2_scale_inverse p o k hk,
    fun k p hk => ?_, fun v p => C02.p3_move_inverse p v,
    fun axis o p hr h0 => C02.p3_rotate_inverse M p axis o θ φ hcs hr h0 hc hs,
    fun o p => C02.p3_rotate_xy_inverse M p o θ φ hcs hc hs,
    fun n o p hn => C02.p3_reflect_involutive p n o hn, fun k o p hk => C02.p3_scale_inverse p o k hk,
    fun k p hk => ?_⟩
  · apply V2.ext' <;> simp only [p2_scale_world] <;> field_simp
  · apply V3.ext' <;> simp only [p3_scale_world] <;> field_simp

/-- **Polylines**: a transform followed by the inverse transform restores the vertex list
(`rigid` = move / rotate / rotate_xy / reflect with the kernels of `point_inverses`; `scale k`
then `scale (1/k)`). -/
theorem polyline_inverse (s2 : PolylineCache.PL2 α) (s3 : PolylineCache.PL3 α)
    (g2 g2' : V2 α → V2 α) (g3 g3' : V3 α → V3 α) (h2 : ∀ p, g2' (g2 p) = p)
    (h3 : ∀ p, g3' (g3 p) = p) (k : α) (hk : k ≠ 0) (o2 : V2 α) (o3 : V3 α) :
    (PolylineCache.rigid2 (PolylineCache.rigid2 s2 g2) g2').vertices = s2.vertices ∧
    (PolylineCache.rigid3 (PolylineCache.rigid3 s3 g3) g3').vertices = s3.vertices ∧
    (PolylineCache.scale2 (PolylineCache.scale2 s2 k o2) (1 / k) o2).vertices = s2.vertices ∧
    (PolylineCache.scale3 (PolylineCache.scale3 s3 k o3) (1 / k) o3).vertices = s3.vertices ∧
    (PolylineCache.scaleWorld2 (PolylineCache.scaleWorld2 s2 k) (1 / k)).vertices = s2.vertices ∧
    (PolylineCache.scaleWorld3 (PolylineCache.scaleWorld3 s3 k) (1 / k)).vertices = s3.vertices :=
  ⟨map_inverse g2 g2' h2 _, map_inverse g3 g3' h3 _,
   map_inverse _ _ (fun p => C02.p2_scale_inverse p o2 k hk) _,
   map_inverse _ _ (fun p => C02.p3_scale_inverse p o3 k hk) _,
   map_inverse _ _ (fun p => by
     apply V2.ext' <;> simp only [p2_scale_world] <;> field_simp) _,
   map_inverse _ _ (fun p => by
     apply V3.ext' <;> simp only [p3_scale_world] <;> field_simp) _⟩

/-- **Mesh2D**: move by `−v`, rotate by `(cos, −sin)`, reflect again, scale by `1/k` restore
the vertex list (faces are never changed). -/
theorem mesh2_inverse (s : Mesh2C α) (v o n : V2 α) (c sn k : α) (hcs : c * c + sn * sn = 1)
    (hn : n.x * n.x + n.y * n.y = 1) (hk : k ≠ 0) :
    (MeshCache.move (MeshCache.move s v) ⟨-v.x, -v.y⟩).vertices = s.vertices ∧
    (MeshCache.rotate (MeshCache.rotate s c sn o) c (-sn) o).vertices = s.vertices ∧
    (MeshCache.reflect (MeshCache.reflect s n o) n o).vertices = s.vertices ∧
    (MeshCache.scale (MeshCache.scale s k o) (1 / k) o).vertices = s.vertices ∧
    (MeshCache.scaleWorld (MeshCache.scaleWorld s k) (1 / k)).vertices = s.vertices := by
  refine ⟨map_inverse _ _ (fun p => ?_) _, map_inverse _ _ (fun p => ?_) _,
    map_inverse _ _ (fun p => ?_) _, map_inverse _ _ (fun p => ?_) _,
    map_inverse _ _ (fun p => ?_) _⟩
  · apply V2.ext' <;> simp only [ptMove] <;> ring
  · apply V2.ext' <;> simp only [ptRotate]
    · linear_combination (p.x - o.x) * hcs
    · linear_combination (p.y - o.y) * hcs
  · apply V2.ext' <;> simp only [ptReflect]
    · linear_combination (4 * ((p.x - o.x) * n.x + (p.y - o.y) * n.y) * n.x) * hn
    · linear_combination (4 * ((p.x - o.x) * n.x + (p.y - o.y) * n.y) * n.y) * hn
  · apply V2.ext' <;> simp only [ptScale] <;> field_simp <;> ring
  · apply V2.ext' <;> simp only [ptScaleWorld] <;> field_simp

/-- **Mesh3D**: a point map through `_mesh_transform` followed by its inverse, move by `−v`,
scale by `1/k`, restore the vertex list. -/
theorem mesh3_inverse (s : Mesh3C α) (g g' : V3 α → V3 α) (h : ∀ p, g' (g p) = p) (v o : V3 α)
    (k : α) (hk : k ≠ 0) :
    (MeshCache3.transform3 (MeshCache3.transform3 s g) g').vertices = s.vertices ∧
    (MeshCache3.move3 (MeshCache3.move3 s v) ⟨-v.x, -v.y, -v.z⟩).vertices = s.vertices ∧
    (MeshCache3.scale3 (MeshCache3.scale3 s k o) (1 / k) o).vertices = s.vertices ∧
    (MeshCache3.scaleWorld3 (MeshCache3.scaleWorld3 s k) (1 / k)).vertices = s.vertices := by
  refine ⟨map_inverse g g' h _, map_inverse _ _ (fun p => ?_) _, map_inverse _ _ (fun p => ?_) _,
    map_inverse _ _ (fun p => ?_) _⟩
  · apply V3.ext' <;> simp only [ptMove3] <;> ring
  · apply V3.ext' <;> simp only [ptScale3] <;> field_simp <;> ring
  · apply V3.ext' <;> simp only [ptScaleWorld3] <;> field_simp

/-- **Face3D**: `move / rotate / rotate_xy` followed by the inverse map restore `vertices`,
`boundary` and the holes; `reflect` twice restores them too (each loop is reversed twice);
`scale k` then `scale (1/k)` restores them. -/
theorem face_inverse (M : MathOps α) (s : FaceCache.FaceC α)
    (hwf : s.holes = none → s.boundary = s.vertices) (g g' : V3 α → V3 α)
    (h : ∀ p, g' (g p) = p) (pg pg' : PlaneS α → PlaneS α) (k k' : α) :
    ((FaceCache.rigid (FaceCache.rigid s g pg) g' pg').vertices = s.vertices ∧
      (FaceCache.rigid (FaceCache.rigid s g pg) g' pg').boundary = s.boundary ∧
      (FaceCache.rigid (FaceCache.rigid s g pg) g' pg').holes = s.holes) ∧
    ((FaceCache.reflect (FaceCache.reflect s g pg) g' pg').vertices = s.vertices ∧
      (FaceCache.reflect (FaceCache.reflect s g pg) g' pg').boundary = s.boundary ∧
      (FaceCache.reflect (FaceCache.reflect s g pg) g' pg').holes = s.holes) ∧
    ((FaceCache.scaleWith M (FaceCache.scaleWith M s k g) k' g').vertices = s.vertices ∧
      (FaceCache.scaleWith M (FaceCache.scaleWith M s k g) k' g').boundary = s.boundary ∧
      (FaceCache.scaleWith M (FaceCache.scaleWith M s k g) k' g').holes = s.holes) := by
  have hm : ∀ l : List (V3 α), (l.map g).map g' = l := map_inverse g g' h
  have hr : ∀ l : List (V3 α), ((l.reverse.map g).reverse.map g') = l := by
    intro l; rw [← List.map_reverse, List.reverse_reverse]; exact hm l
  have hh : ∀ (f1 f2 : List (V3 α) → List (V3 α)), (∀ l, f2 (f1 l) = l) →
      (s.holes.map (·.map f1)).map (·.map f2) = s.holes := by
    intro f1 f2 hf
    cases s.holes with
    | none => rfl
    | some hs =>
      simp only [Option.map_some, List.map_map, Option.some.injEq]
      conv_rhs => rw [← List.map_id hs]
      exact List.map_congr_left (fun l _ => hf l)
  have w1 : ∀ t : FaceCache.FaceC α, ∀ fb fv : List (V3 α) → List (V3 α),
      t.boundary = fb s.boundary → t.vertices = fv s.vertices →
      t.holes = s.holes.map (·.map fb) → (∀ l, fb l = fv l) →
      (t.holes = none → t.boundary = t.vertices) := by
    intro t fb fv e1 e2 e3 e4 hn
    rw [e1, e2, e4]
    congr 1
    apply hwf
    rw [e3] at hn
    cases hs : s.holes with
    | none => rfl
    | some x => rw [hs] at hn; simp at hn
  have b1 := C03c.built_rigid s hwf g pg
  have b1' := C03c.built_rigid _ (w1 _ _ _ b1.boundary b1.vertices b1.holes (fun _ => rfl)) g' pg'
  have b2 := C03c.built_reflect s hwf g pg
  have b2' := C03c.built_reflect _ (w1 _ _ _ b2.boundary b2.vertices b2.holes (fun _ => rfl)) g' pg'
  have b3 := C03c.built_scaleWith M s hwf k g
  have b3' := C03c.built_scaleWith M _ (w1 _ _ _ b3.boundary b3.vertices b3.holes (fun _ => rfl))
    k' g'
  refine ⟨⟨?_, ?_, ?_⟩, ⟨?_, ?_, ?_⟩, ⟨?_, ?_, ?_⟩⟩
  · rw [b1'.vertices, b1.vertices]; exact hm _
  · rw [b1'.boundary, b1.boundary]; exact hm _
  · rw [b1'.holes, b1.holes]; exact hh _ _ hm
  · rw [b2'.vertices, b2.vertices]; exact hr _
  · rw [b2'.boundary, b2.boundary]; exact hr _
  · rw [b2'.holes, b2.holes]; exact hh _ _ hr
  · rw [b3'.vertices, b3.vertices]; exact hm _
  · rw [b3'.boundary, b3.boundary]; exact hm _
  · rw [b3'.holes, b3.holes]; exact hh _ _ hm

/-- Reversing every index loop twice is the identity. -/
theorem revLoops_revLoops (fi : List (List (List Nat))) :
    PolyfaceCache.revLoops (PolyfaceCache.revLoops fi) = fi := by
  unfold PolyfaceCache.revLoops
  rw [List.map_map]
  conv_rhs => rw [← List.map_id fi]
  apply List.map_congr_left
  intro face _
  simp only [Function.comp, List.map_map, id]
  conv_rhs => rw [← List.map_id face]
  apply List.map_congr_left
  intro l _
  simp

/-- **Polyface3D**: a transform followed by its inverse restores the vertex list AND the index
loops — `reflect` twice and `scale` by two negative factors reverse every loop twice. -/
theorem polyface_inverse (s : PolyfaceCache.PfC α) (g g' : V3 α → V3 α) (h : ∀ p, g' (g p) = p)
    (pg pg' : PlaneS α → PlaneS α) (k : α) (hk : k ≠ 0) (fsc fsc' : FaceCache.FaceC α → FaceCache.FaceC α) :
    ((PolyfaceCache.rigid (PolyfaceCache.rigid s g pg) g' pg').vertices = s.vertices ∧
      (PolyfaceCache.rigid (PolyfaceCache.rigid s g pg) g' pg').face_indices = s.face_indices) ∧
    ((PolyfaceCache.reflect (PolyfaceCache.reflect s g pg) g' pg').vertices = s.vertices ∧
      (PolyfaceCache.reflect (PolyfaceCache.reflect s g pg) g' pg').face_indices = s.face_indices) ∧
    ((PolyfaceCache.scaleWith (PolyfaceCache.scaleWith s k g fsc) (1 / k) g' fsc').vertices =
        s.vertices ∧
      (PolyfaceCache.scaleWith (PolyfaceCache.scaleWith s k g fsc) (1 / k) g' fsc').face_indices =
        s.face_indices) := by
  refine ⟨⟨map_inverse g g' h _, rfl⟩, ⟨map_inverse g g' h _, revLoops_revLoops _⟩,
    ⟨map_inverse g g' h _, ?_⟩⟩
  show (if 1 / k < 0 then PolyfaceCache.revLoops (if k < 0 then PolyfaceCache.revLoops s.face_indices
    else s.face_indices) else (if k < 0 then PolyfaceCache.revLoops s.face_indices
    else s.face_indices)) = s.face_indices
  have hiff : 1 / k < 0 ↔ k < 0 := one_div_neg
  by_cases hneg : k < 0
  · rw [if_pos (hiff.2 hneg), if_pos hneg, revLoops_revLoops]
  · rw [if_neg (fun h' => hneg (hiff.1 h')), if_neg hneg]

end inverse

/-! ## 7. Non-vacuity (all at ℚ) -/

section examples
open Lbg.Model.FaceCache

/-- Rigid parameters exist beyond the trivial ones: `(3/5, 4/5)` is on the unit circle,
`(2/3, 2/3, 1/3)` is a unit mirror normal. -/
example : (3 / 5 : ℚ) * (3 / 5) + (4 / 5) * (4 / 5) = 1 ∧
    V3.normSq (⟨2 / 3, 2 / 3, 1 / 3⟩ : V3 ℚ) = 1 := by
  constructor <;> decide +kernel

/-- A `MathOps` over ℚ whose `sqrt` is exact on the squares that occur below
(`sqrt 1 = 1`, `sqrt 64 = 8`). -/
def exOps : MathOps ℚ :=
  ⟨fun x => if x = 64 then 8 else x, id, id, id, id, id, fun _ _ => 0, 3, id⟩

/-- The unit square in the world XY plane, counter-clockwise about `+z`. -/
def exSquare : FaceC ℚ :=
  mkFace [⟨0, 0, 0⟩, ⟨1, 0, 0⟩, ⟨1, 1, 0⟩, ⟨0, 1, 0⟩] ⟨⟨0, 0, 1⟩, ⟨0, 0, 0⟩, 0, ⟨1, 0, 0⟩, ⟨0, 1, 0⟩⟩

/-- The hypotheses of `face_scale_laws` / `points_away_*` are satisfiable: `exSquare` has a
valid plane through its vertices, is counter-clockwise about its normal, has no holes, and
points away from `(1/2, 1/2, −1)`. -/
example : PlaneValid exSquare.plane ∧ (∀ p ∈ exSquare.vertices, OnPlane exSquare.plane p) ∧
    CCW exSquare ∧ exSquare.vertices ≠ [] ∧ PointsAway ⟨1 / 2, 1 / 2, -1⟩ exSquare := by
  refine ⟨⟨?_, ?_, ?_, ?_, ?_⟩, ?_, ?_, ?_, ?_⟩
  · decide +kernel
  · decide +kernel
  · decide +kernel
  · decide +kernel
  · decide +kernel
  · intro p hp
    simp only [exSquare, mkFace, List.mem_cons, List.not_mem_nil, or_false] at hp
    rcases hp with rfl | rfl | rfl | rfl <;> (unfold OnPlane; decide +kernel)
  · unfold CCW; decide +kernel
  · simp [exSquare, mkFace]
  · unfold PointsAway; decide +kernel

/-- A concrete run of `Face3D.scale(-2)` on `exSquare` (world origin): the recomputed plane
has the SAME normal `+z`, the vertices are the images, the area is `4 = (−2)² · 1`. -/
example : (FaceCache.scaleWorld exOps exSquare (-2)).plane.n = ⟨0, 0, 1⟩ ∧
    (FaceCache.scaleWorld exOps exSquare (-2)).vertices =
      [⟨0, 0, 0⟩, ⟨-2, 0, 0⟩, ⟨-2, -2, 0⟩, ⟨0, -2, 0⟩] ∧
    areaOf (FaceCache.scaleWorld exOps exSquare (-2)) = 4 ∧ areaOf exSquare = 1 := by
  refine ⟨?_, ?_, ?_, ?_⟩ <;> decide +kernel

end examples

end Lbg.Props.C02b
