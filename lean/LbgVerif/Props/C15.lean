/-
  Property C15 — vertex clean-up (`remove_colinear_vertices`, `remove_duplicate_vertices`)
  keeps original vertices in original cyclic order, drops only vertices within the tolerance
  of the chord that replaces them, removes exactly-collinear decorations.

  The theorems are about the literal models in `LbgVerif/Model/Colinear.lean`
  (`Polygon2D.remove_colinear_vertices` = `Face3D._remove_colinear` on indices,
  `Polyline2D/3D.remove_colinear_vertices`, `remove_duplicate_vertices`), for vertex lists of
  every length.  The driver runs the same models against the real code (`model.remove_*`).
-/
import LbgVerif.Model.Colinear
import LbgVerif.Lemmas.Colinear
import LbgVerif.Lemmas.ColinearRuns
import LbgVerif.Lemmas.ColinearGeom
import Mathlib.Algebra.Order.Field.Rat

set_option linter.unusedSectionVars false

namespace Lbg.Props.C15
open Lbg Lbg.Gen Lbg.Model.Colinear Lbg.Lemmas.Colinear
open scoped List

variable {α : Type} [Field α] [LinearOrder α] [IsStrictOrderedRing α]

/-! ### 0. The executed (squared) test is the test of the source -/

/-- The 2D collinearity test as the source writes it, `abs(_a) >= (b_dist * tol) / 2` with
`b_dist = distance_to_point` clamped below by `tol`, equals the squared form
`4·_a² ≥ max(b_dist², tol²)·tol²` that the models execute at ℚ — for every `sqrt` obeying the
law of the square root and every `tol ≥ 0`. -/
theorem keep2_faithful (M : MathOps α)
    (hsqrt : ∀ x, 0 ≤ x → M.sqrt x * M.sqrt x = x ∧ 0 ≤ M.sqrt x)
    (tol : α) (htol : 0 ≤ tol) (v2 v1 v : V2 α) :
    keep2Code M tol v2 v1 v = keep2 tol v2 v1 v :=
  keep2Code_eq_keep2 M hsqrt tol htol v2 v1 v

/-- The same for the 3D polyline test `|(_v2 - _v) × (_v3 - _v)| >= (b_dist * tol) / 2`. -/
theorem keep3_faithful (M : MathOps α)
    (hsqrt : ∀ x, 0 ≤ x → M.sqrt x * M.sqrt x = x ∧ 0 ≤ M.sqrt x)
    (tol : α) (htol : 0 ≤ tol) (v2 v1 v3 : V3 α) :
    keep3Code M tol v2 v1 v3 = keep3 tol v2 v1 v3 :=
  keep3Code_eq_keep3 M hsqrt tol htol v2 v1 v3

/-- Consequently the whole routines agree: the source-form polygon scan returns the same
positions as the squared-form scan (likewise for the polylines: same proof). -/
theorem polygon_code_eq_squared (M : MathOps α)
    (hsqrt : ∀ x, 0 ≤ x → M.sqrt x * M.sqrt x = x ∧ 0 ≤ M.sqrt x)
    (tol : α) (htol : 0 ≤ tol) (l : List (V2 α)) :
    removeColinearPolygonIdxCode M tol l = removeColinearPolygonIdx tol l := by
  unfold removeColinearPolygonIdxCode removeColinearPolygonIdx
  congr 1
  funext i2 i1 i0
  exact keep2Code_eq_keep2 M hsqrt tol htol _ _ _

/-- Source-form = squared-form for `Polyline2D.remove_colinear_vertices`. -/
theorem polyline2_code_eq_squared (M : MathOps α)
    (hsqrt : ∀ x, 0 ≤ x → M.sqrt x * M.sqrt x = x ∧ 0 ≤ M.sqrt x)
    (tol : α) (htol : 0 ≤ tol) (l : List (V2 α)) :
    removeColinearPolyline2IdxCode M tol l = removeColinearPolyline2Idx tol l := by
  unfold removeColinearPolyline2IdxCode removeColinearPolyline2Idx
  congr 1
  funext i2 i1 i0
  exact keep2Code_eq_keep2 M hsqrt tol htol _ _ _

/-- Source-form = squared-form for `Polyline3D.remove_colinear_vertices`. -/
theorem polyline3_code_eq_squared (M : MathOps α)
    (hsqrt : ∀ x, 0 ≤ x → M.sqrt x * M.sqrt x = x ∧ 0 ≤ M.sqrt x)
    (tol : α) (htol : 0 ≤ tol) (l : List (V3 α)) :
    removeColinearPolyline3IdxCode M tol l = removeColinearPolyline3Idx tol l := by
  unfold removeColinearPolyline3IdxCode removeColinearPolyline3Idx
  congr 1
  funext i2 i1 i0
  exact keep3Code_eq_keep3 M hsqrt tol htol _ _ _

/-! ### 1. Original vertices in original cyclic order -/

/-- **C15 "vertices are original vertices in their original cyclic order" (polygon / face
loop).**  Whenever `Polygon2D.remove_colinear_vertices` returns (no `AssertionError`), its
vertex list is a sublist of a cyclic rotation of the input list — for every input list of
every length and every tolerance.  (The rotation is by `n - 1`, because the scan starts by
testing `self[-1]`, or `0` when the seam patch appends `self[-1]` at the end.) -/
theorem polygon_out_sublist_cyclic (tol : α) (l out : List (V2 α))
    (h : removeColinearPolygon tol l = some out) : ∃ k, out <+ l.rotate k := by
  unfold removeColinearPolygon at h
  cases hidx : removeColinearPolygonIdx tol l with
  | none => rw [hidx] at h; cases h
  | some idx =>
    rw [hidx] at h
    cases h
    exact verts_polygonIdx_sublist_rotate _ l _ idx hidx

/-- The same at the level of positions, for ANY test in place of the triangle test — in
particular for `Face3D._remove_colinear`, which runs the identical loop on the projected 2D
points and collects the 3D points at the same positions: the returned positions are a sublist
of `[n-1, 0, 1, …, n-2]` or of `[0, …, n-1]`. -/
theorem polygon_positions_sublist_cyclic (n : Nat) (keep : Nat → Nat → Nat → Bool)
    (idx : List Nat) (h : polygonIdx n keep = some idx) :
    idx <+ (List.range n).rotate (n - 1) ∨ idx <+ List.range n :=
  polygonIdx_sublist_rotate n keep idx h

/-! ### 2. Open chains keep both ends -/

/-- **C15 for `Polyline2D.remove_colinear_vertices`:** the result is a sublist of the input
that starts with the first and ends with the last vertex (any list of ≥ 2 vertices; the
constructor guarantees ≥ 3). -/
theorem polyline_out_sublist (tol : α) (l : List (V2 α)) (hn : 2 ≤ l.length) :
    removeColinearPolyline2 tol l <+ l ∧
      (removeColinearPolyline2 tol l).head? = l.head? ∧
      (removeColinearPolyline2 tol l).getLast? = l.getLast? :=
  verts_polylineIdx_spec _ l _ hn

/-- **C15 for `Polyline3D.remove_colinear_vertices`:** sublist with both end vertices kept. -/
theorem polyline3_out_sublist (tol : α) (l : List (V3 α)) (hn : 2 ≤ l.length) :
    removeColinearPolyline3 tol l <+ l ∧
      (removeColinearPolyline3 tol l).head? = l.head? ∧
      (removeColinearPolyline3 tol l).getLast? = l.getLast? :=
  verts_polylineIdx_spec _ l _ hn

/-! ### 4. Every dropped vertex is within the tolerance of the chord that replaces it -/

/-- Geometric reading of `Drop2`: when the chord is at least `tol` long, the squared
distance `a²/b²` of the dropped vertex from the chord line is below `(tol/2)²`; for a shorter
chord the triangle's doubled area is below `tol²/2`. -/
theorem drop2_distance (tol : α) (v2 v1 v : V2 α) (h : Drop2 tol v2 v1 v) :
    (tol * tol ≤ chordSq2 v2 v →
      twiceArea2 v2 v1 v * twiceArea2 v2 v1 v < chordSq2 v2 v * ((tol / 2) * (tol / 2))) ∧
    (chordSq2 v2 v ≤ tol * tol →
      4 * (twiceArea2 v2 v1 v * twiceArea2 v2 v1 v) < (tol * tol) * (tol * tol)) := by
  unfold Drop2 at h
  constructor
  · intro hb
    rw [max_eq_left hb] at h
    have e : chordSq2 v2 v * ((tol / 2) * (tol / 2)) = chordSq2 v2 v * (tol * tol) / 4 := by ring
    rw [e]; linarith
  · intro hb
    rw [max_eq_right hb] at h
    exact h

/-- **C15 "outline stays within the tolerance" (closed loops), step form.**  Let iteration
`i` of the polygon scan drop its vertex `l[i-1]` (its position is not in `new_vertices`).  Then
for the number `s` of immediately preceding iterations that also dropped their vertex:
the chord start `l[i-2-s]` is the vertex kept last (when anything has been kept), all vertices
between it and `l[i-1]` were dropped, and `l[i-1]` satisfies the drop condition with respect to
the chord from `l[i-2-s]` to the next vertex `l[i]` — so by `drop2_distance` it lies within
`tol/2` of that chord line whenever the chord is at least `tol` long. -/
theorem removed_within_tol (tol : α) (l : List (V2 α)) (i : Nat) (hi : i < l.length)
    (hdrop : tested l.length i ∉ (polygonScan l.length (keepAt (keep2 tol) ⟨0, 0⟩ l)).out) :
    ∃ s, s ≤ i ∧
      (∀ j, i - s ≤ j → j < i →
        tested l.length j ∉ (polygonScan l.length (keepAt (keep2 tol) ⟨0, 0⟩ l)).out) ∧
      (s < i →
        tested l.length (i - s - 1) ∈ (polygonScan l.length (keepAt (keep2 tol) ⟨0, 0⟩ l)).out ∧
        pyIdx l.length ((i : Int) - 2 - s) = tested l.length (i - s - 1)) ∧
      Drop2 tol (l.getD (pyIdx l.length ((i : Int) - 2 - s)) ⟨0, 0⟩)
        (l.getD (tested l.length i) ⟨0, 0⟩) (l.getD i ⟨0, 0⟩) := by
  obtain ⟨s, h1, h2, h3, h4⟩ := polygon_dropped_spec _ _ i hi hdrop
  exact ⟨s, h1, h2, h3, (keep2_false_iff _ _ _ _).1 h4⟩

/-- Seam patch: when the patch runs (`skip != 0 and first_skip != -1`) and `self[-1]` is not
in the result, `self[-1]` satisfies the drop condition with respect to the chord from
`self[-2-skip]` to `self[first_skip]`. -/
theorem seam_removed_within_tol (tol : α) (l : List (V2 α)) (idx : List Nat)
    (h : removeColinearPolygonIdx tol l = some idx)
    (hskip : (polygonScan l.length (keepAt (keep2 tol) ⟨0, 0⟩ l)).skip ≠ 0)
    (hfirst : (polygonScan l.length (keepAt (keep2 tol) ⟨0, 0⟩ l)).firstSkip ≠ -1)
    (hlast : idx.getLast? ≠ some (l.length - 1)) :
    Drop2 tol
      (l.getD (pyIdx l.length
        (-2 - ((polygonScan l.length (keepAt (keep2 tol) ⟨0, 0⟩ l)).skip : Int))) ⟨0, 0⟩)
      (l.getD (pyIdx l.length (-1)) ⟨0, 0⟩)
      (l.getD (pyIdx l.length (polygonScan l.length (keepAt (keep2 tol) ⟨0, 0⟩ l)).firstSkip)
        ⟨0, 0⟩) := by
  unfold removeColinearPolygonIdx polygonIdx at h
  simp only [] at h
  rw [if_pos ⟨hskip, hfirst⟩] at h
  split_ifs at h with hle hk
  · cases h
    exfalso; apply hlast
    rw [List.getLast?_concat, pyIdx_neg_one]
  · rw [← keep2_false_iff]
    simpa [keepAt] using hk

/-- **Open 2D chain, step form:** a dropped interior vertex `l[i+1]` satisfies the drop
condition with respect to the chord from `l[i-s]` — a vertex that IS in the result, with all
vertices strictly between dropped — to the next vertex `l[i+2]`. -/
theorem polyline_removed_within_tol (tol : α) (l : List (V2 α)) (i : Nat)
    (hi : i < l.length - 2)
    (hdrop : i + 1 ∉
      (polylineScanTo l.length (keepAt (keep2 tol) ⟨0, 0⟩ l) (l.length - 2)).1) :
    ∃ s, s ≤ i ∧
      (∀ j, i - s ≤ j → j < i →
        j + 1 ∉ (polylineScanTo l.length (keepAt (keep2 tol) ⟨0, 0⟩ l) (l.length - 2)).1) ∧
      (i - s) ∈ (polylineScanTo l.length (keepAt (keep2 tol) ⟨0, 0⟩ l) (l.length - 2)).1 ∧
      Drop2 tol (l.getD (i - s) ⟨0, 0⟩) (l.getD (i + 1) ⟨0, 0⟩) (l.getD (i + 2) ⟨0, 0⟩) := by
  obtain ⟨s, h1, h2, h3, h4⟩ := polyline_dropped_spec _ _ i hi hdrop
  exact ⟨s, h1, h2, h3, (keep2_false_iff _ _ _ _).1 h4⟩

/-- **Open 3D chain, step form** (cross-product magnitude in place of the determinant). -/
theorem polyline3_removed_within_tol (tol : α) (l : List (V3 α)) (i : Nat)
    (hi : i < l.length - 2)
    (hdrop : i + 1 ∉
      (polylineScanTo l.length (keepAt (keep3 tol) ⟨0, 0, 0⟩ l) (l.length - 2)).1) :
    ∃ s, s ≤ i ∧
      (∀ j, i - s ≤ j → j < i →
        j + 1 ∉ (polylineScanTo l.length (keepAt (keep3 tol) ⟨0, 0, 0⟩ l) (l.length - 2)).1) ∧
      (i - s) ∈ (polylineScanTo l.length (keepAt (keep3 tol) ⟨0, 0, 0⟩ l) (l.length - 2)).1 ∧
      Drop3 tol (l.getD (i - s) ⟨0, 0, 0⟩) (l.getD (i + 1) ⟨0, 0, 0⟩)
        (l.getD (i + 2) ⟨0, 0, 0⟩) := by
  obtain ⟨s, h1, h2, h3, h4⟩ := polyline_dropped_spec _ _ i hi hdrop
  exact ⟨s, h1, h2, h3, (keep3_false_iff _ _ _ _).1 h4⟩

/-! ### 3. `remove_duplicate_vertices` -/

omit [IsStrictOrderedRing α] in
/-- **Specification of the duplicate filter.**  Position `i` survives iff `l[i]` is NOT
`is_equivalent` (within `tol` in each coordinate) to its cyclic predecessor `l[i-1]`
(`l[-1]` for `i = 0`); surviving positions are increasing, so the result is a sublist of the
input (original vertices, original order). -/
theorem dup_model_spec (tol : α) (l : List (V2 α)) :
    (∀ i, i ∈ removeDuplicateIdx tol l ↔
      (i < l.length ∧ v2_is_equivalent (l.getD i ⟨0, 0⟩)
        (l.getD (pyIdx l.length ((i : Int) - 1)) ⟨0, 0⟩) tol = false)) ∧
    removeDuplicateIdx tol l <+ List.range l.length ∧
    removeDuplicate tol l <+ l := by
  refine ⟨?_, List.filter_sublist, ?_⟩
  · intro i
    unfold removeDuplicateIdx dupIdx eqvAt
    simp [List.mem_filter]
  · unfold removeDuplicate
    conv_rhs => rw [← verts_range (⟨0, 0⟩ : V2 α) l]
    exact (List.filter_sublist).map _

/-- **Idempotence of `remove_duplicate_vertices`, general condition.**  For `tol ≥ 0`
(`is_equivalent` is then reflexive and symmetric) the filter applied twice equals the filter
applied once provided `is_equivalent(·, ·, tol)` is transitive on the vertices of the input —
i.e. the vertices fall into clusters of mutually equivalent points.  (Without transitivity it is
false: on a line, `0, 0.6, 1.2` with `tol = 1` gives `[0]` and then `[]`.) -/
theorem dup_idempotent (tol : α) (htol : 0 ≤ tol) (l : List (V2 α))
    (htrans : ∀ a b c, a ∈ l → b ∈ l → c ∈ l → v2_is_equivalent a b tol = true →
      v2_is_equivalent b c tol = true → v2_is_equivalent a c tol = true) :
    removeDuplicate tol (removeDuplicate tol l) = removeDuplicate tol l := by
  have e : ∀ l' : List (V2 α), removeDuplicate tol l' =
      dedupCyc (fun a b => v2_is_equivalent a b tol) l' := fun l' => verts_dupIdx_eq _ _ l'
  rw [e, e]
  apply dedupCyc_idem (fun a b => v2_is_equivalent a b tol) (fun a => a ∈ l)
  · intro a
    unfold v2_is_equivalent
    simp [htol]
  · intro a b
    unfold v2_is_equivalent
    rw [abs_sub_comm a.x b.x, abs_sub_comm a.y b.y]
  · exact htrans
  · intro y hy; exact hy

/-- **Idempotence when `is_equivalent` is exact equality** (`tol = 0`): applying
`remove_duplicate_vertices` twice is the same as applying it once, for every vertex list. -/
theorem dup_idempotent_exact (l : List (V2 α)) :
    removeDuplicate (0 : α) (removeDuplicate 0 l) = removeDuplicate 0 l := by
  apply dup_idempotent 0 (le_refl _) l
  have heq : ∀ a b : V2 α, v2_is_equivalent a b 0 = true → a = b := by
    intro a b h
    unfold v2_is_equivalent at h
    simp only [not_lt, abs_nonpos_iff, sub_eq_zero, decide_eq_true_eq] at h
    exact V2.ext' h.1 h.2
  intro a b c _ _ _ h1 h2
  rw [heq a b h1]; exact h2

/-! ### 5. Exactly collinear decorations are removed, genuine corners kept

Predicates (defined in `Lemmas/ColinearGeom.lean`, unfolded here as checked equations):
`OnLine c c' d` — `d = c + t (c' - c)` for some `t` (a point strictly between has `0 < t < 1`);
`DecoratedChain tol w c D rest e` — the vertices that follow an already kept vertex `c`.

Full statement of the clause (C15): *for every cyclic rotation of a decorated loop the result
is the list of base corners.*  What is proved: the open chain (no seam) completely; the closed
loop for EVERY start position, split by what the last vertex of the list is — a corner
(`…_last_is_corner`) or a decoration of the closing edge (`…_last_is_decoration`) — under
corner hypotheses phrased for the chords the scan really uses (previous kept vertex → next
LIST vertex; at the seam the chord starts at the list's last-but-one vertex).  What is NOT
proved here is that these chord hypotheses follow from the property's generator parameters
(turn ≥ 5°, gaps ≥ 1e-3, jitter < tol/10): that, and float rounding, is decided by the harness
over every rotation.  Hence the suffix `_partial` on the loop theorems. -/

omit [IsStrictOrderedRing α] in
/-- Meaning of `OnLine`. -/
theorem onLine_iff (c c' d : V2 α) :
    OnLine c c' d ↔ ∃ t : α, d.x = c.x + t * (c'.x - c.x) ∧ d.y = c.y + t * (c'.y - c.y) :=
  Iff.rfl

omit [IsStrictOrderedRing α] in
/-- Meaning of `DecoratedChain`, last run: after the kept vertex `c` only the run `D` and the
final vertex `e` remain; all of them lie on the line from `c` to `w`. -/
theorem decoratedChain_nil (tol : α) (w c : V2 α) (D : List (V2 α)) (e : V2 α) :
    DecoratedChain tol w c D [] e ↔ ((∀ d ∈ D, OnLine c w d) ∧ OnLine c w e) := Iff.rfl

omit [IsStrictOrderedRing α] in
/-- Meaning of `DecoratedChain`, a run followed by a corner: the run `D` after `c` lies on the
line from `c` to the next corner `c'`; `c'` passes the library's test against the chord from `c`
to the vertex that follows `c'` in the list (a decoration of the next edge or the next corner:
the chord the scan really looks at); and the rest of the list is a decorated chain after `c'`. -/
theorem decoratedChain_cons (tol : α) (w c : V2 α) (D : List (V2 α)) (c' : V2 α)
    (D' : List (V2 α)) (rest : List (V2 α × List (V2 α))) (e : V2 α) :
    DecoratedChain tol w c D ((c', D') :: rest) e ↔
      ((∀ d ∈ D, OnLine c c' d) ∧ keep2 tol c c' (firstAfter D' rest e) = true ∧
        DecoratedChain tol w c' D' rest e) := Iff.rfl

/-- Geometric sufficient condition for a corner `c` to pass the test against the chord
`p → q`: the chord is at least `tol` long and `c` is at least `tol/2` away from the chord line
(squared distance `a²/b² ≥ (tol/2)²`) — in particular every corner "farther than the tolerance
from the chord". -/
theorem corner_kept_if_far (tol : α) (p c q : V2 α) (hb : tol * tol ≤ chordSq2 p q)
    (hfar : chordSq2 p q * ((tol / 2) * (tol / 2)) ≤ twiceArea2 p c q * twiceArea2 p c q) :
    keep2 tol p c q = true := keep2_of_far tol p c q hb hfar

/-- An exactly collinear vertex fails the test for every positive tolerance (so the drop of
decorations never depends on how small `tol` is). -/
theorem collinear_dropped (tol : α) (htol : 0 < tol) (p d q : V2 α)
    (h : twiceArea2 p d q = 0) : keep2 tol p d q = false :=
  keep2_false_of_area_zero tol htol p d q h

/-- **C15 "vertices inserted exactly on an edge are all removed, genuine corners are all kept"
— open chains (no seam).**  Let the input of `Polyline2D.remove_colinear_vertices` be a chain
of corners `c₀, c₁, …, e`, each edge decorated with arbitrarily many points exactly on it
(`DecoratedChain` with `w = e`), every interior corner passing the test against the chord from
the previous corner to the vertex following it, `tol > 0`, and not exactly 3 vertices (a
3-vertex polyline is returned unchanged).  Then the result is exactly the corners, in order. -/
theorem exact_collinear_removed_polyline (tol : α) (htol : 0 < tol) (c0 : V2 α)
    (D0 : List (V2 α)) (rest : List (V2 α × List (V2 α))) (e : V2 α)
    (h : DecoratedChain tol e c0 D0 rest e)
    (h3 : (c0 :: (D0 ++ flat rest ++ [e])).length ≠ 3) :
    removeColinearPolyline2 tol (c0 :: (D0 ++ flat rest ++ [e])) =
      c0 :: rest.map Prod.fst ++ [e] := by
  unfold removeColinearPolyline2 removeColinearPolyline2Idx
  rw [verts_polylineIdx_eq_lscan _ _ c0 _ h3 (by simp)]
  rw [lscan_good (keep2 tol) c0 D0 rest e (good_of_decoratedChain tol htol e c0 D0 rest e h)]
  simp

/-- **Closed loops, any start position, last list vertex is a corner.**  The input is
`E ++ c₀ :: D₀ ++ … ++ [c_L]`: it may start inside the run `E` of decorations of the edge
`c_L → c₀` (`E = []`: it starts at the corner `c₀`); `groups` lists the corners `c₀ … c_{L-1}`
with their decorations; the last vertex `c_L` is a corner.  If, read after `c_L`, the list
`E ++ c₀ :: D₀ ++ … ++ [c_L]` is a decorated chain, and `c_L` passes the test against the chord
from the vertex `a` before it to the first list vertex (the one place where the chord starts
at the list's last-but-one vertex — possibly a decoration — instead of the previous corner),
then `Polygon2D.remove_colinear_vertices` returns exactly the corners, starting with `c_L`. -/
theorem exact_collinear_removed_polygon_last_is_corner_partial (tol : α) (htol : 0 < tol)
    (E : List (V2 α)) (groups : List (V2 α × List (V2 α))) (cL a : V2 α) (pre : List (V2 α))
    (hpre : E ++ flat groups = pre ++ [a])
    (hseam : keep2 tol a cL ((E ++ flat groups).head?.getD cL) = true)
    (h : DecoratedChain tol cL cL E groups cL) :
    removeColinearPolygon tol (E ++ flat groups ++ [cL]) = some (cL :: groups.map Prod.fst) := by
  set body := E ++ flat groups with hbody
  have hl : body ++ [cL] = pre ++ [a, cL] := by rw [hpre]; simp
  have hgood := good_of_decoratedChain tol htol cL cL E groups cL h
  have hO : lscan (keep2 tol) a (cL :: (body ++ [cL])) = cL :: groups.map Prod.fst := by
    obtain ⟨q, T, hT⟩ : ∃ q T, body ++ [cL] = q :: T := by
      cases hh : body ++ [cL] with
      | nil => simp at hh
      | cons q T => exact ⟨q, T, rfl⟩
    have hq : body.head?.getD cL = q := by
      cases hg : body with
      | nil => rw [hg] at hT; simp at hT; rw [← hT.1]; rfl
      | cons x t => rw [hg] at hT; simp at hT; rw [← hT.1]; rfl
    rw [hq] at hseam
    rw [hT, lscan_cons_cons, hseam]
    simp only [if_true]
    rw [← hT]
    rw [lscan_good (keep2 tol) cL E groups cL hgood]
  have hscan := verts_polygonScan_eq_lscan (⟨0, 0⟩ : V2 α) (keep2 tol) pre a cL
  rw [← hl] at hscan
  unfold removeColinearPolygon removeColinearPolygonIdx
  rw [polygonIdx_eq_out]
  · simp only [Option.map_some]
    rw [hscan, hO]
  · left
    -- the first iteration tests `cL` against the chord `a → first vertex` and keeps it
    have hlen : (body ++ [cL]).length = pre.length + 2 := by rw [hl]; simp
    have hq : body.head?.getD cL = (body ++ [cL]).getD 0 ⟨0, 0⟩ := by
      cases hg : body with
      | nil => rfl
      | cons x t => rfl
    have e1 : ∀ K : Nat → Nat → Nat → Bool, pyIdx (body ++ [cL]).length (((0 : Nat) : Int) - 2 -
        ((skipAt (body ++ [cL]).length K 0 : Nat) : Int)) = pre.length := by
      intro K
      rw [skipAt_zero, hlen]; unfold pyIdx; split_ifs <;> omega
    have e2 : tested (body ++ [cL]).length 0 = pre.length + 1 := by
      rw [hlen]; unfold tested pyIdx; split_ifs <;> omega
    have g1 : (body ++ [cL]).getD pre.length ⟨0, 0⟩ = a := by
      rw [hl]; simp [List.getD_eq_getElem?_getD]
    have g2 : (body ++ [cL]).getD (pre.length + 1) ⟨0, 0⟩ = cL := by
      rw [hl]; simp [List.getD_eq_getElem?_getD]
    show keepAt (keep2 tol) ⟨0, 0⟩ (body ++ [cL])
      (pyIdx (body ++ [cL]).length (((0 : Nat) : Int) - 2 - ((skipAt _ _ 0 : Nat) : Int)))
      (tested (body ++ [cL]).length 0) 0 = true
    rw [e1, e2]
    unfold keepAt
    rw [g1, g2, ← hq]; exact hseam

/-- **Closed loops, any start position, last list vertex is a decoration.**  The input is
`E ++ c₀ :: D₀ ++ … ++ c_L :: D_L' ++ [z]`: the closing edge `c_L → c₀` carries the decorations
`D_L' ++ [z]` at the end of the list and `E` at its beginning (`E = []`: the list starts at the
corner `c₀`), all exactly on that edge's line; `a` is the list's last-but-one vertex (`c_L`
itself or a decoration).  If, read after `a`, the list is a decorated chain whose last run lies
on the line `c_L → c₀` — in particular `c₀` passes the test against the chord from `a` (not from
`c_L`: this is what the scan's wrap-around index `self[i-2-skip]` looks at) to the vertex after
`c₀` — then `Polygon2D.remove_colinear_vertices` returns exactly the corners `c₀ … c_L` in
order: the scan drops `z` and `E` at the start and the trailing run at the end, and the seam
patch (when it runs) confirms the removal of `z`. -/
theorem exact_collinear_removed_polygon_last_is_decoration_partial (tol : α) (htol : 0 < tol)
    (E : List (V2 α)) (c0 : V2 α) (D0 : List (V2 α)) (mid : List (V2 α × List (V2 α)))
    (cL : V2 α) (DL' : List (V2 α)) (z a : V2 α) (pre : List (V2 α))
    (hpre : cL :: DL' = pre ++ [a])
    (h : DecoratedChain tol c0 a E ((c0, D0) :: mid ++ [(cL, DL')]) z) :
    removeColinearPolygon tol (E ++ flat ((c0, D0) :: mid ++ [(cL, DL')]) ++ [z]) =
      some (((c0, D0) :: mid ++ [(cL, DL')]).map Prod.fst) := by
  set groups := (c0, D0) :: mid ++ [(cL, DL')] with hgroups
  have hgood := good_of_decoratedChain tol htol c0 a E groups z h
  -- facts about the closing run, extracted from the chain
  have hclose : (∀ d ∈ DL', OnLine cL c0 d) ∧ OnLine cL c0 z :=
    decoratedChain_last tol c0 a E ((c0, D0) :: mid) cL DL' z h
  have hE : ∀ d ∈ E, OnLine a c0 d := h.1
  have ha : OnLine cL c0 a := by
    have : a ∈ cL :: DL' := by rw [hpre]; simp
    rcases List.mem_cons.1 this with e | hm
    · rw [e]; exact onLine_start cL c0
    · exact hclose.1 a hm
  have hflat : E ++ flat groups ++ [z] = (E ++ flat ((c0, D0) :: mid) ++ pre) ++ [a, z] := by
    have hg : groups = ((c0, D0) :: mid) ++ [(cL, DL')] := rfl
    rw [hg, flat_append]
    have : flat [(cL, DL')] = cL :: DL' := by simp [flat]
    rw [this, hpre]; simp
  obtain ⟨q, T, hT, hq⟩ : ∃ q T, E ++ flat groups ++ [z] = q :: T ∧ OnLine a c0 q := by
    have hg : groups = (c0, D0) :: (mid ++ [(cL, DL')]) := rfl
    cases hE' : E with
    | nil => rw [hg, flat_cons]; exact ⟨c0, _, rfl, onLine_end a c0⟩
    | cons e1 E1 => exact ⟨e1, _, rfl, hE e1 (by rw [hE']; exact List.mem_cons_self)⟩
  -- the scan as a list recursion: `z` is dropped first, then the chain gives the corners
  have hO : lscan (keep2 tol) a (z :: (E ++ flat groups ++ [z])) = groups.map Prod.fst := by
    have hz : keep2 tol a z q = false :=
      keep2_false_of_area_zero tol htol _ _ _
        (area_zero_of_onLine_rel cL c0 a z q ha hclose.2 hq)
    rw [hT, lscan_cons_cons, hz]
    simp only [Bool.false_eq_true, if_false]
    rw [← hT]
    exact lscan_good (keep2 tol) a E groups z hgood
  have hscan := verts_polygonScan_eq_lscan (⟨0, 0⟩ : V2 α) (keep2 tol)
    (E ++ flat ((c0, D0) :: mid) ++ pre) a z
  rw [← hflat] at hscan
  unfold removeColinearPolygon removeColinearPolygonIdx
  rw [polygonIdx_eq_out]
  · simp only [Option.map_some]
    rw [hscan, hO]
  · right
    have hverts : verts ⟨0, 0⟩ (E ++ flat groups ++ [z])
        (polygonScan (E ++ flat groups ++ [z]).length
          (keepAt (keep2 tol) ⟨0, 0⟩ (E ++ flat groups ++ [z]))).out = groups.map Prod.fst := by
      rw [hscan, hO]
    refine ⟨?_, ?_⟩
    · intro hnil
      rw [hnil] at hverts
      have hg : groups = (c0, D0) :: (mid ++ [(cL, DL')]) := rfl
      rw [hg] at hverts
      simp [verts] at hverts
    · intro i j hi hj
      -- the vertices at the last / first kept positions are `cL` / `c₀`
      have hlastv := congrArg List.getLast? hverts
      have hheadv := congrArg List.head? hverts
      unfold verts at hlastv hheadv
      rw [List.getLast?_map, hi] at hlastv
      rw [List.head?_map, hj] at hheadv
      have hgl : (groups.map Prod.fst).getLast? = some cL := by
        have hg : groups = ((c0, D0) :: mid) ++ [(cL, DL')] := rfl
        rw [hg, List.map_append]
        exact List.getLast?_concat
      have hgh : (groups.map Prod.fst).head? = some c0 := rfl
      rw [hgl] at hlastv
      rw [hgh] at hheadv
      simp only [Option.map_some, Option.some.injEq] at hlastv hheadv
      unfold keepAt
      rw [hlastv, hheadv]
      have hz : (E ++ flat groups ++ [z]).getD (pyIdx (E ++ flat groups ++ [z]).length (-1))
          ⟨0, 0⟩ = z := by
        rw [pyIdx_neg_one]
        simp [List.getD_eq_getElem?_getD]
      rw [hz]
      exact keep2_false_of_area_zero tol htol _ _ _
        (area_zero_of_onLine cL c0 z c0 hclose.2 (onLine_end cL c0))

/-! ### 6. Non-vacuity: a decorated square at ℚ, in several rotations -/

section Examples

/-- The unit-4 square with 2 decorations on the bottom edge, 1 on the right edge, none on the
top edge, 2 on the left edge (10 vertices). -/
def dsq : List (V2 ℚ) :=
  [⟨0, 0⟩, ⟨1, 0⟩, ⟨3, 0⟩, ⟨4, 0⟩, ⟨4, 2⟩, ⟨4, 4⟩, ⟨0, 4⟩, ⟨0, 3⟩, ⟨0, 1/2⟩]

/-- Start at the corner (0,0) (closing edge decorated: the seam patch runs and rejects). -/
example : removeColinearPolygon (1/100 : ℚ) dsq = some [⟨0, 0⟩, ⟨4, 0⟩, ⟨4, 4⟩, ⟨0, 4⟩] := by
  decide +kernel

/-- Start inside the run on the bottom edge (redundancy straddles the seam). -/
example : removeColinearPolygon (1/100 : ℚ) (dsq.rotate 1) =
    some [⟨0, 0⟩, ⟨4, 0⟩, ⟨4, 4⟩, ⟨0, 4⟩] := by decide +kernel

example : removeColinearPolygon (1/100 : ℚ) (dsq.rotate 2) =
    some [⟨4, 0⟩, ⟨4, 4⟩, ⟨0, 4⟩, ⟨0, 0⟩] := by decide +kernel

/-- Start at the corner (4,0). -/
example : removeColinearPolygon (1/100 : ℚ) (dsq.rotate 3) =
    some [⟨4, 0⟩, ⟨4, 4⟩, ⟨0, 4⟩, ⟨0, 0⟩] := by decide +kernel

/-- Start at the corner (0,4): the closing edge (4,4)→(0,4) is undecorated, the last vertex is
a corner and comes first in the result. -/
example : removeColinearPolygon (1/100 : ℚ) (dsq.rotate 6) =
    some [⟨4, 4⟩, ⟨0, 4⟩, ⟨0, 0⟩, ⟨4, 0⟩] := by decide +kernel

/-- Start on the last decoration of the left edge. -/
example : removeColinearPolygon (1/100 : ℚ) (dsq.rotate 8) =
    some [⟨0, 0⟩, ⟨4, 0⟩, ⟨4, 4⟩, ⟨0, 4⟩] := by decide +kernel

/-- The open chain cut at (0,0): both ends kept, decorations dropped. -/
example : removeColinearPolyline2 (1/100 : ℚ) dsq =
    [⟨0, 0⟩, ⟨4, 0⟩, ⟨4, 4⟩, ⟨0, 4⟩, ⟨0, 1/2⟩] := by decide +kernel

/-- Exact duplicates are dropped by the duplicate filter (first of each cyclic run kept
unless equal to its predecessor). -/
example : removeDuplicate (0 : ℚ) [⟨0, 0⟩, ⟨0, 0⟩, ⟨1, 0⟩, ⟨1, 1⟩, ⟨1, 1⟩, ⟨0, 0⟩] =
    [⟨1, 0⟩, ⟨1, 1⟩, ⟨0, 0⟩] := by decide +kernel

/-- The hypotheses of `exact_collinear_removed_polygon_last_is_decoration_partial` are
satisfiable: the square above is such a decorated chain (read after `a = (0,3)`, with
`z = (0,1/2)`, starting at the corner `(0,0)`: `E = []`). -/
theorem dsq_chain : DecoratedChain (1/100 : ℚ) ⟨0, 0⟩ ⟨0, 3⟩ []
    [(⟨0, 0⟩, [⟨1, 0⟩, ⟨3, 0⟩]), (⟨4, 0⟩, [⟨4, 2⟩]), (⟨4, 4⟩, []), (⟨0, 4⟩, [⟨0, 3⟩])]
    ⟨0, 1/2⟩ := by
  refine ⟨by simp, by decide +kernel, ?_, by decide +kernel, ?_, by decide +kernel, ?_,
    by decide +kernel, ?_, ?_⟩
  · intro d hd
    simp only [List.mem_cons, List.not_mem_nil, or_false] at hd
    rcases hd with rfl | rfl
    · exact ⟨1/4, by norm_num, by norm_num⟩
    · exact ⟨3/4, by norm_num, by norm_num⟩
  · intro d hd
    simp only [List.mem_cons, List.not_mem_nil, or_false] at hd
    rcases hd with rfl
    exact ⟨1/2, by norm_num, by norm_num⟩
  · intro d hd; simp at hd
  · intro d hd
    simp only [List.mem_cons, List.not_mem_nil, or_false] at hd
    rcases hd with rfl
    exact ⟨1/4, by norm_num, by norm_num⟩
  · exact ⟨7/8, by norm_num, by norm_num⟩

/-- … and the theorem then gives the result of the routine on `dsq` without running the scan. -/
example : removeColinearPolygon (1/100 : ℚ) dsq = some [⟨0, 0⟩, ⟨4, 0⟩, ⟨4, 4⟩, ⟨0, 4⟩] :=
  exact_collinear_removed_polygon_last_is_decoration_partial (1/100 : ℚ) (by norm_num) []
    ⟨0, 0⟩ [⟨1, 0⟩, ⟨3, 0⟩] [(⟨4, 0⟩, [⟨4, 2⟩]), (⟨4, 4⟩, [])] ⟨0, 4⟩ [⟨0, 3⟩] ⟨0, 1/2⟩ ⟨0, 3⟩
    [⟨0, 4⟩] rfl dsq_chain

/-- A seam rotation: `dsq.rotate 1` starts INSIDE the run of the bottom edge (`E = [(1,0),
(3,0)]`) and ends with the corner `(0,0)`; the hypotheses of
`exact_collinear_removed_polygon_last_is_corner_partial` hold (read after `c_L = (0,0)`). -/
theorem dsq_rot1_chain : DecoratedChain (1/100 : ℚ) ⟨0, 0⟩ ⟨0, 0⟩ [⟨1, 0⟩, ⟨3, 0⟩]
    [(⟨4, 0⟩, [⟨4, 2⟩]), (⟨4, 4⟩, []), (⟨0, 4⟩, [⟨0, 3⟩, ⟨0, 1/2⟩])] ⟨0, 0⟩ := by
  refine ⟨?_, by decide +kernel, ?_, by decide +kernel, ?_, by decide +kernel, ?_, ?_⟩
  · intro d hd
    simp only [List.mem_cons, List.not_mem_nil, or_false] at hd
    rcases hd with rfl | rfl
    · exact ⟨1/4, by norm_num, by norm_num⟩
    · exact ⟨3/4, by norm_num, by norm_num⟩
  · intro d hd
    simp only [List.mem_cons, List.not_mem_nil, or_false] at hd
    rcases hd with rfl
    exact ⟨1/2, by norm_num, by norm_num⟩
  · intro d hd; simp at hd
  · intro d hd
    simp only [List.mem_cons, List.not_mem_nil, or_false] at hd
    rcases hd with rfl | rfl
    · exact ⟨1/4, by norm_num, by norm_num⟩
    · exact ⟨7/8, by norm_num, by norm_num⟩
  · exact ⟨1, by norm_num, by norm_num⟩

/-- … so the theorem covers this seam rotation (the harness covers all of them on floats). -/
example : removeColinearPolygon (1/100 : ℚ) (dsq.rotate 1) =
    some [⟨0, 0⟩, ⟨4, 0⟩, ⟨4, 4⟩, ⟨0, 4⟩] :=
  exact_collinear_removed_polygon_last_is_corner_partial (1/100 : ℚ) (by norm_num)
    [⟨1, 0⟩, ⟨3, 0⟩] [(⟨4, 0⟩, [⟨4, 2⟩]), (⟨4, 4⟩, []), (⟨0, 4⟩, [⟨0, 3⟩, ⟨0, 1/2⟩])] ⟨0, 0⟩
    ⟨0, 1/2⟩ [⟨1, 0⟩, ⟨3, 0⟩, ⟨4, 0⟩, ⟨4, 2⟩, ⟨4, 4⟩, ⟨0, 4⟩, ⟨0, 3⟩] rfl (by decide +kernel)
    dsq_rot1_chain

/-- A corner can be LOST when a decoration sits close to it: the chord the scan looks at runs
from the previous corner to the NEXT LIST VERTEX, here the decoration (4, 1/1000), and the
corner (4,0) is only ≈ 1/1000 · sin 45° away from that chord although it is 2.8 away from
the chord of its corner neighbours.  This is why the corner hypothesis of the theorems above
is stated for the chord to the following vertex. -/
example : removeColinearPolyline2 (1/100 : ℚ)
    [⟨0, 0⟩, ⟨4, 0⟩, ⟨4, 1/1000⟩, ⟨4, 4⟩, ⟨0, 4⟩] = [⟨0, 0⟩, ⟨4, 1/1000⟩, ⟨4, 4⟩, ⟨0, 4⟩] := by
  decide +kernel

end Examples

end Lbg.Props.C15
