/-
  C02 — move / rotate / rotate_xy / reflect / scale map every geometry type to exactly the
  image of the original point set: defining points are the mapped originals, lengths /
  areas / volumes scale by |k|, k², |k|³ (k = 1 for rigid maps), unit normals and orientation
  conventions still hold afterwards, and the inverse map returns the original.

  Property theorems only (helper lemmas live in `Lemmas/Isometry.lean`).  All statements
  are about the definitions regenerated from the repository by py2lean (`Lbg.Gen.*`).

  The rotation angle enters only through `M.cos θ`, `M.sin θ`; everything is proved for an
  ARBITRARY pair with `cos² + sin² = 1` (so negative angles and angles > 2π are covered).
  The 3D rotation divides by `r = M.sqrt (axis·axis)` and by `axis·axis`; we assume exactly
  `r·r = axis·axis` and `axis·axis ≠ 0` (a non-zero axis).

  Sections: A vectors and points, B segments and rays, C planes, D solids, E arcs.
-/
import LbgVerif.Gen.Vec
import LbgVerif.Gen.Line
import LbgVerif.Gen.Plane
import LbgVerif.Gen.Solid
import LbgVerif.Gen.Arc
import LbgVerif.Lemmas.Isometry
import Mathlib.Tactic.Ring
import Mathlib.Tactic.FieldSimp
import Mathlib.Tactic.Linarith
import Mathlib.Tactic.LinearCombination
import Mathlib.Tactic.SplitIfs
import Mathlib.Tactic.NormNum
import Mathlib.Algebra.Order.Field.Rat
import Mathlib.Data.Rat.Floor

set_option linter.unusedSectionVars false
set_option linter.unusedVariables false
set_option linter.unusedTactic false
set_option linter.unusedSimpArgs false
set_option linter.unreachableTactic false
set_option linter.unnecessarySeqFocus false

namespace Lbg.Props.C02
open Lbg Lbg.Gen Lbg.Lemmas
variable {α : Type} [Field α] [LinearOrder α] [IsStrictOrderedRing α]

/-- Squared distance between two 2D points. -/
def distSq2 (a b : V2 α) : α := V2.normSq (V2.sub a b)
/-- Squared distance between two 3D points. -/
def distSq3 (a b : V3 α) : α := V3.normSq (V3.sub a b)

/-! ## A. Vectors and points -/

/-! ### A.1  2D vector rotation -/

/-- `Vector2D.rotate` preserves dot products (hence lengths and angles). -/
theorem v2_rotate_dot (M : MathOps α) (a b : V2 α) (θ : α)
    (hcs : M.cos θ * M.cos θ + M.sin θ * M.sin θ = 1) :
    V2.dot (v2_rotate M a θ) (v2_rotate M b θ) = V2.dot a b := by
  simp only [v2_rotate, V2.dot]
  linear_combination (a.x * b.x + a.y * b.y) * hcs

/-- `Vector2D.rotate` preserves squared length. -/
theorem v2_rotate_normSq (M : MathOps α) (a : V2 α) (θ : α)
    (hcs : M.cos θ * M.cos θ + M.sin θ * M.sin θ = 1) :
    V2.normSq (v2_rotate M a θ) = V2.normSq a :=
  v2_rotate_dot M a a θ hcs

/-- `Vector2D.rotate` preserves the determinant, i.e. orientation (it is a proper rotation,
not a reflection). -/
theorem v2_rotate_det (M : MathOps α) (a b : V2 α) (θ : α)
    (hcs : M.cos θ * M.cos θ + M.sin θ * M.sin θ = 1) :
    V2.det (v2_rotate M a θ) (v2_rotate M b θ) = V2.det a b := by
  simp only [v2_rotate, V2.det]
  linear_combination (a.x * b.y - a.y * b.x) * hcs

/-- Rotating by an angle `φ` with `cos φ = cos θ`, `sin φ = -sin θ` (e.g. `φ = -θ`) undoes
`Vector2D.rotate` by `θ`. -/
theorem v2_rotate_inverse (M : MathOps α) (a : V2 α) (θ φ : α)
    (hcs : M.cos θ * M.cos θ + M.sin θ * M.sin θ = 1)
    (hc : M.cos φ = M.cos θ) (hs : M.sin φ = -M.sin θ) :
    v2_rotate M (v2_rotate M a θ) φ = a := by
  simp only [v2_rotate, hc, hs]
  ext <;> simp only []
  · linear_combination a.x * hcs
  · linear_combination a.y * hcs

/-- `Vector2D.rotate` is linear: it commutes with subtraction. -/
theorem v2_rotate_sub (M : MathOps α) (a b : V2 α) (θ : α) :
    V2.sub (v2_rotate M a θ) (v2_rotate M b θ) = v2_rotate M (V2.sub a b) θ := by
  simp only [v2_rotate, V2.sub]
  ext <;> simp only [] <;> ring

/-! ### A.2  3D vector rotation about an axis (Rodrigues) -/

/-- `Vector3D.rotate` preserves dot products (hence lengths and angles), for any non-zero
axis (not necessarily unit) and any `(cos, sin)` pair on the unit circle. -/
theorem v3_rotate_dot (M : MathOps α) (a b axis : V3 α) (θ : α)
    (hcs : M.cos θ * M.cos θ + M.sin θ * M.sin θ = 1)
    (hr : M.sqrt (V3.normSq axis) * M.sqrt (V3.normSq axis) = V3.normSq axis)
    (h0 : V3.normSq axis ≠ 0) :
    V3.dot (v3_rotate M a axis θ) (v3_rotate M b axis θ) = V3.dot a b := by
  obtain ⟨hq, he⟩ := rod_params M axis θ hcs hr h0
  rw [v3_rotate_eq_rod, v3_rotate_eq_rod]
  exact rod_dot _ _ _ _ _ _ hq he

/-- `Vector3D.rotate` preserves squared length. -/
theorem v3_rotate_normSq (M : MathOps α) (a axis : V3 α) (θ : α)
    (hcs : M.cos θ * M.cos θ + M.sin θ * M.sin θ = 1)
    (hr : M.sqrt (V3.normSq axis) * M.sqrt (V3.normSq axis) = V3.normSq axis)
    (h0 : V3.normSq axis ≠ 0) :
    V3.normSq (v3_rotate M a axis θ) = V3.normSq a :=
  v3_rotate_dot M a a axis θ hcs hr h0

/-- `Vector3D.rotate` leaves the rotation axis fixed. -/
theorem v3_rotate_fixes_axis (M : MathOps α) (axis : V3 α) (θ : α)
    (h0 : V3.normSq axis ≠ 0) :
    v3_rotate M axis axis θ = axis := by
  rw [v3_rotate_eq_rod]
  exact rod_axis _ _ _ _ (inv_mul_cancel₀ h0)

/-- `Vector3D.rotate` keeps the component along the axis: `axis · rot a = axis · a`. -/
theorem v3_rotate_dot_axis (M : MathOps α) (a axis : V3 α) (θ : α)
    (h0 : V3.normSq axis ≠ 0) :
    V3.dot axis (v3_rotate M a axis θ) = V3.dot axis a := by
  rw [v3_rotate_eq_rod]
  exact rod_dot_axis _ _ _ _ _ (inv_mul_cancel₀ h0)

/-- `Vector3D.rotate` commutes with the cross product, `rot a × rot b = rot (a × b)`: it is a
proper rotation (orientation / right-handedness is preserved; with `v3_rotate_dot` this also
gives preservation of the triple product). -/
theorem v3_rotate_cross (M : MathOps α) (a b axis : V3 α) (θ : α)
    (hcs : M.cos θ * M.cos θ + M.sin θ * M.sin θ = 1)
    (hr : M.sqrt (V3.normSq axis) * M.sqrt (V3.normSq axis) = V3.normSq axis)
    (h0 : V3.normSq axis ≠ 0) :
    V3.cross (v3_rotate M a axis θ) (v3_rotate M b axis θ)
      = v3_rotate M (V3.cross a b) axis θ := by
  obtain ⟨hq, he⟩ := rod_params M axis θ hcs hr h0
  rw [v3_rotate_eq_rod, v3_rotate_eq_rod, v3_rotate_eq_rod]
  exact rod_cross _ _ _ _ _ _ hq he

/-- The scalar triple product is preserved by `Vector3D.rotate` (determinant +1). -/
theorem v3_rotate_triple (M : MathOps α) (a b c axis : V3 α) (θ : α)
    (hcs : M.cos θ * M.cos θ + M.sin θ * M.sin θ = 1)
    (hr : M.sqrt (V3.normSq axis) * M.sqrt (V3.normSq axis) = V3.normSq axis)
    (h0 : V3.normSq axis ≠ 0) :
    V3.dot (v3_rotate M a axis θ) (V3.cross (v3_rotate M b axis θ) (v3_rotate M c axis θ))
      = V3.dot a (V3.cross b c) := by
  rw [v3_rotate_cross M b c axis θ hcs hr h0, v3_rotate_dot M _ _ axis θ hcs hr h0]

/-- Rotating about the same axis by an angle `φ` with `cos φ = cos θ`, `sin φ = -sin θ`
undoes `Vector3D.rotate` by `θ`. -/
theorem v3_rotate_inverse (M : MathOps α) (a axis : V3 α) (θ φ : α)
    (hcs : M.cos θ * M.cos θ + M.sin θ * M.sin θ = 1)
    (hr : M.sqrt (V3.normSq axis) * M.sqrt (V3.normSq axis) = V3.normSq axis)
    (h0 : V3.normSq axis ≠ 0)
    (hc : M.cos φ = M.cos θ) (hs : M.sin φ = -M.sin θ) :
    v3_rotate M (v3_rotate M a axis θ) axis φ = a := by
  obtain ⟨hq, he⟩ := rod_params M axis θ hcs hr h0
  rw [v3_rotate_eq_rod, v3_rotate_eq_rod, hc, hs, neg_div]
  exact rod_inverse _ _ _ _ _ hq he

/-- `Vector3D.rotate` is linear: it commutes with subtraction. -/
theorem v3_rotate_sub (M : MathOps α) (a b axis : V3 α) (θ : α) :
    V3.sub (v3_rotate M a axis θ) (v3_rotate M b axis θ) = v3_rotate M (V3.sub a b) axis θ := by
  rw [v3_rotate_eq_rod, v3_rotate_eq_rod, v3_rotate_eq_rod]
  exact rod_sub _ _ _ _ _ _

/-! ### A.3  3D vector rotation in the XY plane -/

/-- `Vector3D.rotate_xy` preserves dot products. -/
theorem v3_rotate_xy_dot (M : MathOps α) (a b : V3 α) (θ : α)
    (hcs : M.cos θ * M.cos θ + M.sin θ * M.sin θ = 1) :
    V3.dot (v3_rotate_xy M a θ) (v3_rotate_xy M b θ) = V3.dot a b := by
  simp only [v3_rotate_xy, V3.dot]
  linear_combination (a.x * b.x + a.y * b.y) * hcs

/-- `Vector3D.rotate_xy` preserves squared length. -/
theorem v3_rotate_xy_normSq (M : MathOps α) (a : V3 α) (θ : α)
    (hcs : M.cos θ * M.cos θ + M.sin θ * M.sin θ = 1) :
    V3.normSq (v3_rotate_xy M a θ) = V3.normSq a :=
  v3_rotate_xy_dot M a a θ hcs

/-- `Vector3D.rotate_xy` commutes with the cross product (proper rotation: orientation is
preserved). -/
theorem v3_rotate_xy_cross (M : MathOps α) (a b : V3 α) (θ : α)
    (hcs : M.cos θ * M.cos θ + M.sin θ * M.sin θ = 1) :
    V3.cross (v3_rotate_xy M a θ) (v3_rotate_xy M b θ) = v3_rotate_xy M (V3.cross a b) θ := by
  simp only [v3_rotate_xy, V3.cross]
  ext <;> simp only []
  · ring
  · ring
  · linear_combination (a.x * b.y - a.y * b.x) * hcs

/-- `Vector3D.rotate_xy` fixes the Z axis and keeps every z-coordinate. -/
theorem v3_rotate_xy_z (M : MathOps α) (a : V3 α) (θ : α) :
    (v3_rotate_xy M a θ).z = a.z ∧ v3_rotate_xy M ⟨0, 0, a.z⟩ θ = ⟨0, 0, a.z⟩ := by
  simp only [v3_rotate_xy, mul_zero, sub_zero, add_zero, and_self]

/-- Rotating by `φ` with `cos φ = cos θ`, `sin φ = -sin θ` undoes `Vector3D.rotate_xy`. -/
theorem v3_rotate_xy_inverse (M : MathOps α) (a : V3 α) (θ φ : α)
    (hcs : M.cos θ * M.cos θ + M.sin θ * M.sin θ = 1)
    (hc : M.cos φ = M.cos θ) (hs : M.sin φ = -M.sin θ) :
    v3_rotate_xy M (v3_rotate_xy M a θ) φ = a := by
  simp only [v3_rotate_xy, hc, hs]
  ext <;> simp only []
  · linear_combination a.x * hcs
  · linear_combination a.y * hcs

/-- `Vector3D.rotate_xy` is linear: it commutes with subtraction. -/
theorem v3_rotate_xy_sub (M : MathOps α) (a b : V3 α) (θ : α) :
    V3.sub (v3_rotate_xy M a θ) (v3_rotate_xy M b θ) = v3_rotate_xy M (V3.sub a b) θ := by
  simp only [v3_rotate_xy, V3.sub]
  ext <;> simp only [] <;> ring

/-- `rotate_xy` is `rotate` about the world Z axis (given `sqrt 1 = 1`): the two rotation
kernels agree. -/
theorem v3_rotate_xy_eq_rotate_z (M : MathOps α) (a : V3 α) (θ : α) (h1 : M.sqrt 1 = 1) :
    v3_rotate M a ⟨0, 0, 1⟩ θ = v3_rotate_xy M a θ := by
  simp only [v3_rotate, v3_rotate_xy, mul_zero, zero_mul, add_zero, zero_add, mul_one, one_mul,
    h1, div_one]
  ext <;> simp only [] <;> ring

/-! ### A.4  reflections of vectors -/

/-- `Vector2D.reflect` across a unit normal preserves dot products. -/
theorem v2_reflect_dot (a b n : V2 α) (hn : V2.normSq n = 1) :
    V2.dot (v2_reflect a n) (v2_reflect b n) = V2.dot a b := by
  simp only [V2.normSq] at hn
  simp only [v2_reflect, V2.dot]
  linear_combination (4 * (a.x * n.x + a.y * n.y) * (b.x * n.x + b.y * n.y)) * hn

/-- `Vector2D.reflect` across a unit normal negates the determinant (orientation flips). -/
theorem v2_reflect_det (a b n : V2 α) (hn : V2.normSq n = 1) :
    V2.det (v2_reflect a n) (v2_reflect b n) = -V2.det a b := by
  simp only [V2.normSq] at hn
  simp only [v2_reflect, V2.det]
  linear_combination (-2 * (a.x * b.y - a.y * b.x)) * hn

/-- `Vector2D.reflect` across a unit normal is an involution (it is its own inverse). -/
theorem v2_reflect_involutive (a n : V2 α) (hn : V2.normSq n = 1) :
    v2_reflect (v2_reflect a n) n = a := by
  simp only [V2.normSq] at hn
  simp only [v2_reflect]
  ext <;> simp only []
  · linear_combination (4 * (a.x * n.x + a.y * n.y) * n.x) * hn
  · linear_combination (4 * (a.x * n.x + a.y * n.y) * n.y) * hn

/-- `Vector2D.reflect` sends the unit normal to its negative. -/
theorem v2_reflect_normal (n : V2 α) (hn : V2.normSq n = 1) :
    v2_reflect n n = V2.neg n := by
  simp only [V2.normSq] at hn
  simp only [v2_reflect, V2.neg]
  ext <;> simp only []
  · linear_combination (-2 * n.x) * hn
  · linear_combination (-2 * n.y) * hn

/-- `Vector2D.reflect` fixes every vector perpendicular to the normal. -/
theorem v2_reflect_perp (a n : V2 α) (hp : V2.dot a n = 0) : v2_reflect a n = a := by
  simp only [V2.dot] at hp
  simp only [v2_reflect]
  ext <;> simp only []
  · linear_combination (-2 * n.x) * hp
  · linear_combination (-2 * n.y) * hp

/-- `Vector2D.reflect` is linear: it commutes with subtraction. -/
theorem v2_reflect_sub (a b n : V2 α) :
    V2.sub (v2_reflect a n) (v2_reflect b n) = v2_reflect (V2.sub a b) n := by
  simp only [v2_reflect, V2.sub]
  ext <;> simp only [] <;> ring

/-- `Vector3D.reflect` across a unit normal preserves dot products. -/
theorem v3_reflect_dot (a b n : V3 α) (hn : V3.normSq n = 1) :
    V3.dot (v3_reflect a n) (v3_reflect b n) = V3.dot a b := by
  simp only [V3.normSq] at hn
  simp only [v3_reflect, V3.dot]
  linear_combination
    (4 * (a.x * n.x + a.y * n.y + a.z * n.z) * (b.x * n.x + b.y * n.y + b.z * n.z)) * hn

/-- `Vector3D.reflect` across a unit normal reverses the cross product,
`refl a × refl b = -refl (a × b)`: orientation flips (determinant −1). -/
theorem v3_reflect_cross (a b n : V3 α) (hn : V3.normSq n = 1) :
    V3.cross (v3_reflect a n) (v3_reflect b n) = V3.neg (v3_reflect (V3.cross a b) n) := by
  simp only [V3.normSq] at hn
  simp only [v3_reflect, V3.cross, V3.neg]
  ext <;> simp only []
  · linear_combination (-2 * (a.y * b.z - a.z * b.y)) * hn
  · linear_combination (-2 * (a.z * b.x - a.x * b.z)) * hn
  · linear_combination (-2 * (a.x * b.y - a.y * b.x)) * hn

/-- `Vector3D.reflect` across a unit normal is an involution (it is its own inverse). -/
theorem v3_reflect_involutive (a n : V3 α) (hn : V3.normSq n = 1) :
    v3_reflect (v3_reflect a n) n = a := by
  simp only [V3.normSq] at hn
  simp only [v3_reflect]
  ext <;> simp only []
  · linear_combination (4 * (a.x * n.x + a.y * n.y + a.z * n.z) * n.x) * hn
  · linear_combination (4 * (a.x * n.x + a.y * n.y + a.z * n.z) * n.y) * hn
  · linear_combination (4 * (a.x * n.x + a.y * n.y + a.z * n.z) * n.z) * hn

/-- `Vector3D.reflect` sends the unit normal to its negative. -/
theorem v3_reflect_normal (n : V3 α) (hn : V3.normSq n = 1) :
    v3_reflect n n = V3.neg n := by
  simp only [V3.normSq] at hn
  simp only [v3_reflect, V3.neg]
  ext <;> simp only []
  · linear_combination (-2 * n.x) * hn
  · linear_combination (-2 * n.y) * hn
  · linear_combination (-2 * n.z) * hn

/-- `Vector3D.reflect` fixes every vector perpendicular to the normal. -/
theorem v3_reflect_perp (a n : V3 α) (hp : V3.dot a n = 0) : v3_reflect a n = a := by
  simp only [V3.dot] at hp
  simp only [v3_reflect]
  ext <;> simp only []
  · linear_combination (-2 * n.x) * hp
  · linear_combination (-2 * n.y) * hp
  · linear_combination (-2 * n.z) * hp

/-- `Vector3D.reflect` is linear: it commutes with subtraction. -/
theorem v3_reflect_sub (a b n : V3 α) :
    V3.sub (v3_reflect a n) (v3_reflect b n) = v3_reflect (V3.sub a b) n := by
  simp only [v3_reflect, V3.sub]
  ext <;> simp only [] <;> ring

/-- `Vector2D.reflect` across a unit normal preserves squared length. -/
theorem v2_reflect_normSq (a n : V2 α) (hn : V2.normSq n = 1) :
    V2.normSq (v2_reflect a n) = V2.normSq a :=
  v2_reflect_dot a a n hn

/-- `Vector3D.reflect` across a unit normal preserves squared length. -/
theorem v3_reflect_normSq (a n : V3 α) (hn : V3.normSq n = 1) :
    V3.normSq (v3_reflect a n) = V3.normSq a :=
  v3_reflect_dot a a n hn

/-! ### A.5  points: move -/

/-- `Point2D.move` adds the vector. -/
theorem p2_move_eq (a mv : V2 α) : p2_move a mv = V2.add a mv := rfl

/-- Moving by the reversed vector returns the original 2D point. -/
theorem p2_move_inverse (a mv : V2 α) : p2_move (p2_move a mv) (v2_reverse mv) = a := by
  simp only [p2_move, v2_reverse]
  ext <;> simp only [] <;> ring

/-- `Point2D.move` preserves distances. -/
theorem p2_move_distSq (a b mv : V2 α) : distSq2 (p2_move a mv) (p2_move b mv) = distSq2 a b := by
  simp only [distSq2, p2_move, V2.sub, V2.normSq]
  ring

/-- `Point3D.move` adds the vector. -/
theorem p3_move_eq (a mv : V3 α) : p3_move a mv = V3.add a mv := rfl

/-- Moving by the reversed vector returns the original 3D point. -/
theorem p3_move_inverse (a mv : V3 α) : p3_move (p3_move a mv) (v3_reverse mv) = a := by
  simp only [p3_move, v3_reverse]
  ext <;> simp only [] <;> ring

/-- `Point3D.move` preserves distances. -/
theorem p3_move_distSq (a b mv : V3 α) : distSq3 (p3_move a mv) (p3_move b mv) = distSq3 a b := by
  simp only [distSq3, p3_move, V3.sub, V3.normSq]
  ring

/-! ### A.6  points: rotate -/

/-- `Point2D.rotate` is `origin + rot (p - origin)`. -/
theorem p2_rotate_eq (M : MathOps α) (a o : V2 α) (θ : α) :
    p2_rotate M a θ o = V2.add o (v2_rotate M (V2.sub a o) θ) := by
  simp only [p2_rotate, v2_rotate, V2.add, V2.sub]
  ext <;> simp only [] <;> ring

/-- `Point2D.rotate` fixes the rotation origin. -/
theorem p2_rotate_origin (M : MathOps α) (o : V2 α) (θ : α) : p2_rotate M o θ o = o := by
  simp only [p2_rotate]
  ext <;> simp only [] <;> ring

/-- `Point2D.rotate` preserves distances between points (in particular to the origin). -/
theorem p2_rotate_distSq (M : MathOps α) (a b o : V2 α) (θ : α)
    (hcs : M.cos θ * M.cos θ + M.sin θ * M.sin θ = 1) :
    distSq2 (p2_rotate M a θ o) (p2_rotate M b θ o) = distSq2 a b := by
  unfold distSq2
  rw [p2_rotate_eq, p2_rotate_eq, v2_add_sub_add_left, v2_rotate_sub, v2_rotate_normSq M _ θ hcs]
  congr 1
  simp only [V2.sub]; ext <;> simp only [] <;> ring

/-- Rotating about the same origin by `φ` with `cos φ = cos θ`, `sin φ = -sin θ` undoes
`Point2D.rotate` by `θ`. -/
theorem p2_rotate_inverse (M : MathOps α) (a o : V2 α) (θ φ : α)
    (hcs : M.cos θ * M.cos θ + M.sin θ * M.sin θ = 1)
    (hc : M.cos φ = M.cos θ) (hs : M.sin φ = -M.sin θ) :
    p2_rotate M (p2_rotate M a θ o) φ o = a := by
  rw [p2_rotate_eq M _ o φ, p2_rotate_eq M a o θ, v2_add_sub_cancel_left,
    v2_rotate_inverse M _ θ φ hcs hc hs, v2_add_sub_cancel]

/-- `Point3D.rotate` is `origin + rot (p - origin)`. -/
theorem p3_rotate_eq (M : MathOps α) (a axis o : V3 α) (θ : α) :
    p3_rotate M a axis θ o = V3.add o (v3_rotate M (V3.sub a o) axis θ) := by
  simp only [p3_rotate, v3_rotate, V3.add, V3.sub]
  ext <;> simp only [] <;> ring

/-- `Point3D.rotate` fixes the rotation origin. -/
theorem p3_rotate_origin (M : MathOps α) (axis o : V3 α) (θ : α) :
    p3_rotate M o axis θ o = o := by
  simp only [p3_rotate]
  ext <;> simp only [] <;> ring

/-- `Point3D.rotate` fixes every point of the rotation axis `o + t·axis`. -/
theorem p3_rotate_axis_point (M : MathOps α) (axis o : V3 α) (θ t : α)
    (h0 : V3.normSq axis ≠ 0) :
    p3_rotate M (V3.add o (V3.smul t axis)) axis θ o = V3.add o (V3.smul t axis) := by
  rw [p3_rotate_eq, v3_add_sub_cancel_left, v3_rotate_eq_rod, rod_smul,
    rod_axis _ _ _ _ (inv_mul_cancel₀ h0)]

/-- `Point3D.rotate` preserves distances between points (in particular to the origin). -/
theorem p3_rotate_distSq (M : MathOps α) (a b axis o : V3 α) (θ : α)
    (hcs : M.cos θ * M.cos θ + M.sin θ * M.sin θ = 1)
    (hr : M.sqrt (V3.normSq axis) * M.sqrt (V3.normSq axis) = V3.normSq axis)
    (h0 : V3.normSq axis ≠ 0) :
    distSq3 (p3_rotate M a axis θ o) (p3_rotate M b axis θ o) = distSq3 a b := by
  unfold distSq3
  rw [p3_rotate_eq, p3_rotate_eq, v3_add_sub_add_left, v3_rotate_sub,
    v3_rotate_normSq M _ axis θ hcs hr h0]
  congr 1
  simp only [V3.sub]; ext <;> simp only [] <;> ring

/-- Rotating about the same axis and origin by `φ` with `cos φ = cos θ`, `sin φ = -sin θ`
undoes `Point3D.rotate` by `θ`. -/
theorem p3_rotate_inverse (M : MathOps α) (a axis o : V3 α) (θ φ : α)
    (hcs : M.cos θ * M.cos θ + M.sin θ * M.sin θ = 1)
    (hr : M.sqrt (V3.normSq axis) * M.sqrt (V3.normSq axis) = V3.normSq axis)
    (h0 : V3.normSq axis ≠ 0)
    (hc : M.cos φ = M.cos θ) (hs : M.sin φ = -M.sin θ) :
    p3_rotate M (p3_rotate M a axis θ o) axis φ o = a := by
  rw [p3_rotate_eq M _ axis o φ, p3_rotate_eq M a axis o θ, v3_add_sub_cancel_left,
    v3_rotate_inverse M _ axis θ φ hcs hr h0 hc hs, v3_add_sub_cancel]

/-- `Point3D.rotate_xy` is `origin + rot_xy (p - origin)`. -/
theorem p3_rotate_xy_eq (M : MathOps α) (a o : V3 α) (θ : α) :
    p3_rotate_xy M a θ o = V3.add o (v3_rotate_xy M (V3.sub a o) θ) := by
  simp only [p3_rotate_xy, v3_rotate_xy, V3.add, V3.sub]
  ext <;> simp only [] <;> ring

/-- `Point3D.rotate_xy` fixes the rotation origin. -/
theorem p3_rotate_xy_origin (M : MathOps α) (o : V3 α) (θ : α) : p3_rotate_xy M o θ o = o := by
  simp only [p3_rotate_xy]
  ext <;> simp only [] <;> ring

/-- `Point3D.rotate_xy` preserves distances between points. -/
theorem p3_rotate_xy_distSq (M : MathOps α) (a b o : V3 α) (θ : α)
    (hcs : M.cos θ * M.cos θ + M.sin θ * M.sin θ = 1) :
    distSq3 (p3_rotate_xy M a θ o) (p3_rotate_xy M b θ o) = distSq3 a b := by
  unfold distSq3
  rw [p3_rotate_xy_eq, p3_rotate_xy_eq, v3_add_sub_add_left, v3_rotate_xy_sub,
    v3_rotate_xy_normSq M _ θ hcs]
  congr 1
  simp only [V3.sub]; ext <;> simp only [] <;> ring

/-- Rotating by `φ` with `cos φ = cos θ`, `sin φ = -sin θ` undoes `Point3D.rotate_xy`. -/
theorem p3_rotate_xy_inverse (M : MathOps α) (a o : V3 α) (θ φ : α)
    (hcs : M.cos θ * M.cos θ + M.sin θ * M.sin θ = 1)
    (hc : M.cos φ = M.cos θ) (hs : M.sin φ = -M.sin θ) :
    p3_rotate_xy M (p3_rotate_xy M a θ o) φ o = a := by
  rw [p3_rotate_xy_eq M _ o φ, p3_rotate_xy_eq M a o θ, v3_add_sub_cancel_left,
    v3_rotate_xy_inverse M _ θ φ hcs hc hs, v3_add_sub_cancel]

/-! ### A.7  points: reflect -/

/-- `Point2D.reflect` is `origin + refl (p - origin)`. -/
theorem p2_reflect_eq (a n o : V2 α) :
    p2_reflect a n o = V2.add o (v2_reflect (V2.sub a o) n) := by
  simp only [p2_reflect, v2_reflect, V2.add, V2.sub]
  ext <;> simp only [] <;> ring

/-- `Point2D.reflect` fixes every point of the mirror line `n · (p - o) = 0`. -/
theorem p2_reflect_fixes_mirror (a n o : V2 α) (hp : V2.dot (V2.sub a o) n = 0) :
    p2_reflect a n o = a := by
  rw [p2_reflect_eq, v2_reflect_perp _ _ hp, v2_add_sub_cancel]

/-- `Point2D.reflect` across a unit normal preserves distances. -/
theorem p2_reflect_distSq (a b n o : V2 α) (hn : V2.normSq n = 1) :
    distSq2 (p2_reflect a n o) (p2_reflect b n o) = distSq2 a b := by
  unfold distSq2
  rw [p2_reflect_eq, p2_reflect_eq, v2_add_sub_add_left, v2_reflect_sub]
  have h := v2_reflect_dot (V2.sub (V2.sub a o) (V2.sub b o)) (V2.sub (V2.sub a o) (V2.sub b o)) n hn
  simp only [V2.dot] at h
  simp only [V2.normSq]
  rw [h]
  simp only [V2.sub]; ring

/-- `Point2D.reflect` across a unit normal is an involution (its own inverse). -/
theorem p2_reflect_involutive (a n o : V2 α) (hn : V2.normSq n = 1) :
    p2_reflect (p2_reflect a n o) n o = a := by
  rw [p2_reflect_eq _ n o, p2_reflect_eq a n o, v2_add_sub_cancel_left,
    v2_reflect_involutive _ _ hn, v2_add_sub_cancel]

/-- `Point3D.reflect` is `origin + refl (p - origin)`. -/
theorem p3_reflect_eq (a n o : V3 α) :
    p3_reflect a n o = V3.add o (v3_reflect (V3.sub a o) n) := by
  simp only [p3_reflect, v3_reflect, V3.add, V3.sub]
  ext <;> simp only [] <;> ring

/-- `Point3D.reflect` fixes every point of the mirror plane `n · (p - o) = 0`. -/
theorem p3_reflect_fixes_mirror (a n o : V3 α) (hp : V3.dot (V3.sub a o) n = 0) :
    p3_reflect a n o = a := by
  rw [p3_reflect_eq, v3_reflect_perp _ _ hp, v3_add_sub_cancel]

/-- `Point3D.reflect` across a unit normal preserves distances. -/
theorem p3_reflect_distSq (a b n o : V3 α) (hn : V3.normSq n = 1) :
    distSq3 (p3_reflect a n o) (p3_reflect b n o) = distSq3 a b := by
  unfold distSq3
  rw [p3_reflect_eq, p3_reflect_eq, v3_add_sub_add_left, v3_reflect_sub]
  have h := v3_reflect_dot (V3.sub (V3.sub a o) (V3.sub b o)) (V3.sub (V3.sub a o) (V3.sub b o)) n hn
  simp only [V3.dot] at h
  simp only [V3.normSq]
  rw [h]
  simp only [V3.sub]; ring

/-- `Point3D.reflect` across a unit normal is an involution (its own inverse). -/
theorem p3_reflect_involutive (a n o : V3 α) (hn : V3.normSq n = 1) :
    p3_reflect (p3_reflect a n o) n o = a := by
  rw [p3_reflect_eq _ n o, p3_reflect_eq a n o, v3_add_sub_cancel_left,
    v3_reflect_involutive _ _ hn, v3_add_sub_cancel]

/-! ### A.8  points: scale -/

/-- `Point2D.scale` is `origin + k·(p - origin)`. -/
theorem p2_scale_eq (a o : V2 α) (k : α) :
    p2_scale a k o = V2.add o (V2.smul k (V2.sub a o)) := by
  simp only [p2_scale, V2.add, V2.smul, V2.sub]
  ext <;> simp only [] <;> ring

/-- `Point2D.scale` multiplies squared distances by `k²` (distances by `|k|`). -/
theorem p2_scale_distSq (a b o : V2 α) (k : α) :
    distSq2 (p2_scale a k o) (p2_scale b k o) = k * k * distSq2 a b := by
  simp only [distSq2, p2_scale, V2.sub, V2.normSq]
  ring

/-- Scaling by `1/k` about the same origin undoes `Point2D.scale` by `k ≠ 0`. -/
theorem p2_scale_inverse (a o : V2 α) (k : α) (hk : k ≠ 0) :
    p2_scale (p2_scale a k o) (1 / k) o = a := by
  simp only [p2_scale]
  ext <;> simp only [] <;> field_simp <;> ring

/-- `Point2D.scale` without origin scales from the world origin: `k·p`. -/
theorem p2_scale_world_eq (a : V2 α) (k : α) : p2_scale_world a k = V2.smul k a := by
  simp only [p2_scale_world, V2.smul]
  ext <;> simp only [] <;> ring

/-- `Point3D.scale` is `origin + k·(p - origin)`. -/
theorem p3_scale_eq (a o : V3 α) (k : α) :
    p3_scale a k o = V3.add o (V3.smul k (V3.sub a o)) := by
  simp only [p3_scale, V3.add, V3.smul, V3.sub]
  ext <;> simp only [] <;> ring

/-- `Point3D.scale` multiplies squared distances by `k²` (distances by `|k|`). -/
theorem p3_scale_distSq (a b o : V3 α) (k : α) :
    distSq3 (p3_scale a k o) (p3_scale b k o) = k * k * distSq3 a b := by
  simp only [distSq3, p3_scale, V3.sub, V3.normSq]
  ring

/-- Scaling by `1/k` about the same origin undoes `Point3D.scale` by `k ≠ 0`. -/
theorem p3_scale_inverse (a o : V3 α) (k : α) (hk : k ≠ 0) :
    p3_scale (p3_scale a k o) (1 / k) o = a := by
  simp only [p3_scale]
  ext <;> simp only [] <;> field_simp <;> ring

/-- `Point3D.scale` without origin scales from the world origin: `k·p`. -/
theorem p3_scale_world_eq (a : V3 α) (k : α) : p3_scale_world a k = V3.smul k a := by
  simp only [p3_scale_world, V3.smul]
  ext <;> simp only [] <;> ring

/-! ### A.9  difference vectors: `T p - T q` is the linear part applied to `p - q`
(so every point transform is an affine map with the corresponding vector transform as its
linear part) -/

/-- `Point2D.move` keeps difference vectors. -/
theorem p2_move_sub (a b mv : V2 α) : V2.sub (p2_move a mv) (p2_move b mv) = V2.sub a b := by
  simp only [p2_move, V2.sub]
  ext <;> simp only [] <;> ring

/-- `Point2D.rotate` rotates difference vectors. -/
theorem p2_rotate_sub (M : MathOps α) (a b o : V2 α) (θ : α) :
    V2.sub (p2_rotate M a θ o) (p2_rotate M b θ o) = v2_rotate M (V2.sub a b) θ := by
  simp only [p2_rotate, v2_rotate, V2.sub]
  ext <;> simp only [] <;> ring

/-- `Point2D.reflect` reflects difference vectors. -/
theorem p2_reflect_sub (a b n o : V2 α) :
    V2.sub (p2_reflect a n o) (p2_reflect b n o) = v2_reflect (V2.sub a b) n := by
  simp only [p2_reflect, v2_reflect, V2.sub]
  ext <;> simp only [] <;> ring

/-- `Point2D.scale` multiplies difference vectors by `k`. -/
theorem p2_scale_sub (a b o : V2 α) (k : α) :
    V2.sub (p2_scale a k o) (p2_scale b k o) = V2.smul k (V2.sub a b) := by
  simp only [p2_scale, V2.smul, V2.sub]
  ext <;> simp only [] <;> ring

/-- `Point3D.move` keeps difference vectors. -/
theorem p3_move_sub (a b mv : V3 α) : V3.sub (p3_move a mv) (p3_move b mv) = V3.sub a b := by
  simp only [p3_move, V3.sub]
  ext <;> simp only [] <;> ring

/-- `Point3D.rotate` rotates difference vectors. -/
theorem p3_rotate_sub (M : MathOps α) (a b axis o : V3 α) (θ : α) :
    V3.sub (p3_rotate M a axis θ o) (p3_rotate M b axis θ o)
      = v3_rotate M (V3.sub a b) axis θ := by
  simp only [p3_rotate, v3_rotate, V3.sub]
  ext <;> simp only [] <;> ring

/-- `Point3D.rotate_xy` rotates difference vectors. -/
theorem p3_rotate_xy_sub (M : MathOps α) (a b o : V3 α) (θ : α) :
    V3.sub (p3_rotate_xy M a θ o) (p3_rotate_xy M b θ o) = v3_rotate_xy M (V3.sub a b) θ := by
  simp only [p3_rotate_xy, v3_rotate_xy, V3.sub]
  ext <;> simp only [] <;> ring

/-- `Point3D.reflect` reflects difference vectors. -/
theorem p3_reflect_sub (a b n o : V3 α) :
    V3.sub (p3_reflect a n o) (p3_reflect b n o) = v3_reflect (V3.sub a b) n := by
  simp only [p3_reflect, v3_reflect, V3.sub]
  ext <;> simp only [] <;> ring

/-- `Point3D.scale` multiplies difference vectors by `k`. -/
theorem p3_scale_sub (a b o : V3 α) (k : α) :
    V3.sub (p3_scale a k o) (p3_scale b k o) = V3.smul k (V3.sub a b) := by
  simp only [p3_scale, V3.smul, V3.sub]
  ext <;> simp only [] <;> ring

/-! ### A.10  rotations keep the distance to the rotation origin -/

/-- `Point2D.rotate` keeps the distance to the rotation origin. -/
theorem p2_rotate_dist_origin (M : MathOps α) (a o : V2 α) (θ : α)
    (hcs : M.cos θ * M.cos θ + M.sin θ * M.sin θ = 1) :
    distSq2 (p2_rotate M a θ o) o = distSq2 a o := by
  have h := p2_rotate_distSq M a o o θ hcs
  rwa [p2_rotate_origin] at h

/-- `Point3D.rotate` keeps the distance to the rotation origin. -/
theorem p3_rotate_dist_origin (M : MathOps α) (a axis o : V3 α) (θ : α)
    (hcs : M.cos θ * M.cos θ + M.sin θ * M.sin θ = 1)
    (hr : M.sqrt (V3.normSq axis) * M.sqrt (V3.normSq axis) = V3.normSq axis)
    (h0 : V3.normSq axis ≠ 0) :
    distSq3 (p3_rotate M a axis θ o) o = distSq3 a o := by
  have h := p3_rotate_distSq M a o axis o θ hcs hr h0
  rwa [p3_rotate_origin] at h

/-- `Point3D.rotate_xy` keeps the distance to the rotation origin. -/
theorem p3_rotate_xy_dist_origin (M : MathOps α) (a o : V3 α) (θ : α)
    (hcs : M.cos θ * M.cos θ + M.sin θ * M.sin θ = 1) :
    distSq3 (p3_rotate_xy M a θ o) o = distSq3 a o := by
  have h := p3_rotate_xy_distSq M a o o θ hcs
  rwa [p3_rotate_xy_origin] at h

/-! ## B. Line segments and rays

A segment / ray is stored as base point `p` and direction `v`; its points are `p + t·v`
(`seg*_point_at`; `0 ≤ t ≤ 1` for a segment, `0 ≤ t` for a ray).  For every transform we show:
the new base point is the mapped base point, the new direction is the mapped direction, the new
end point `p + v` is the mapped end point and, more generally, EVERY point `p + t·v` goes to the
point with the same parameter `t` of the result (so the result is exactly the image point set).
Lengths: `v·v` is preserved by rigid maps and multiplied by `k²` by scaling. -/

/-- End point `p + v` is the point at parameter 1 (2D). -/
theorem seg2_p2_eq_point_at (l : LR2 α) : seg2_p2 l = seg2_point_at l 1 := by
  simp only [seg2_p2, seg2_point_at, mul_one]

/-- Base point `p` is the point at parameter 0 (2D). -/
theorem seg2_p_eq_point_at (l : LR2 α) : l.p = seg2_point_at l 0 := by
  simp only [seg2_point_at, mul_zero, add_zero]

/-- `LineSegment2D.move`: base point, direction and end point of the result are the mapped base point,
direction and end point; every point `p + t·v` is mapped to the point with the same parameter. -/
theorem seg2_move_maps (l : LR2 α) (mv : V2 α) :
    (seg2_move l mv).p = p2_move l.p mv ∧ (seg2_move l mv).v = l.v ∧
    seg2_p2 (seg2_move l mv) = p2_move (seg2_p2 l) mv ∧
    ∀ t, seg2_point_at (seg2_move l mv) t = p2_move (seg2_point_at l t) mv := by
  refine ⟨?_, ?_, ?_, fun t => ?_⟩ <;> simp only [seg2_move, p2_move, seg2_p2, seg2_point_at] <;>
    ext <;> simp only [] <;> ring

/-- `LineSegment2D.move` keeps the direction vector, hence the length. -/
theorem seg2_move_length (M : MathOps α) (l : LR2 α) (mv : V2 α) :
    V2.normSq (seg2_move l mv).v = V2.normSq l.v ∧ seg2_length M (seg2_move l mv) = seg2_length M l :=
  ⟨rfl, rfl⟩

/-- `LineSegment2D.rotate`: base point, direction and end point of the result are the mapped base point,
direction and end point; every point `p + t·v` is mapped to the point with the same parameter. -/
theorem seg2_rotate_maps (M : MathOps α) (l : LR2 α) (θ : α) (o : V2 α) :
    (seg2_rotate M l θ o).p = p2_rotate M l.p θ o ∧ (seg2_rotate M l θ o).v = v2_rotate M l.v θ ∧
    seg2_p2 (seg2_rotate M l θ o) = p2_rotate M (seg2_p2 l) θ o ∧
    ∀ t, seg2_point_at (seg2_rotate M l θ o) t = p2_rotate M (seg2_point_at l t) θ o := by
  refine ⟨?_, ?_, ?_, fun t => ?_⟩ <;> simp only [seg2_rotate, p2_rotate, v2_rotate, seg2_p2, seg2_point_at] <;>
    ext <;> simp only [] <;> ring

/-- `LineSegment2D.rotate` is rigid: the squared length `v·v` and hence `length` are preserved. -/
theorem seg2_rotate_length (M : MathOps α) (l : LR2 α) (θ : α) (o : V2 α)
    (hcs : M.cos θ * M.cos θ + M.sin θ * M.sin θ = 1) :
    V2.normSq (seg2_rotate M l θ o).v = V2.normSq l.v ∧ seg2_length M (seg2_rotate M l θ o) = seg2_length M l := by
  have h : V2.normSq (seg2_rotate M l θ o).v = V2.normSq l.v := by
    rw [(seg2_rotate_maps M l θ o).2.1]; exact v2_rotate_normSq M l.v θ hcs
  refine ⟨h, ?_⟩
  simp only [V2.normSq] at h
  simp only [seg2_length, h]

/-- `LineSegment2D.reflect`: base point, direction and end point of the result are the mapped base point,
direction and end point; every point `p + t·v` is mapped to the point with the same parameter. -/
theorem seg2_reflect_maps (l : LR2 α) (n o : V2 α) :
    (seg2_reflect l n o).p = p2_reflect l.p n o ∧ (seg2_reflect l n o).v = v2_reflect l.v n ∧
    seg2_p2 (seg2_reflect l n o) = p2_reflect (seg2_p2 l) n o ∧
    ∀ t, seg2_point_at (seg2_reflect l n o) t = p2_reflect (seg2_point_at l t) n o := by
  refine ⟨?_, ?_, ?_, fun t => ?_⟩ <;> simp only [seg2_reflect, p2_reflect, v2_reflect, seg2_p2, seg2_point_at] <;>
    ext <;> simp only [] <;> ring

/-- `LineSegment2D.reflect` is rigid: the squared length `v·v` and hence `length` are preserved. -/
theorem seg2_reflect_length (M : MathOps α) (l : LR2 α) (n o : V2 α)
    (hn : V2.normSq n = 1) :
    V2.normSq (seg2_reflect l n o).v = V2.normSq l.v ∧ seg2_length M (seg2_reflect l n o) = seg2_length M l := by
  have h : V2.normSq (seg2_reflect l n o).v = V2.normSq l.v := by
    rw [(seg2_reflect_maps l n o).2.1]; exact v2_reflect_dot l.v l.v n hn
  refine ⟨h, ?_⟩
  simp only [V2.normSq] at h
  simp only [seg2_length, h]

/-- `LineSegment2D.scale`: base point, direction and end point of the result are the mapped base point,
direction and end point; every point `p + t·v` is mapped to the point with the same parameter. -/
theorem seg2_scale_maps (l : LR2 α) (k : α) (o : V2 α) :
    (seg2_scale l k o).p = p2_scale l.p k o ∧ (seg2_scale l k o).v = V2.smul k l.v ∧
    seg2_p2 (seg2_scale l k o) = p2_scale (seg2_p2 l) k o ∧
    ∀ t, seg2_point_at (seg2_scale l k o) t = p2_scale (seg2_point_at l t) k o := by
  refine ⟨?_, ?_, ?_, fun t => ?_⟩ <;> simp only [seg2_scale, p2_scale, V2.smul, seg2_p2, seg2_point_at] <;>
    ext <;> simp only [] <;> ring

/-- `LineSegment2D.scale` multiplies the squared length `v·v` by `k²`, and (under the `sqrt` law) the
`length` by `|k|`. -/
theorem seg2_scale_length (M : MathOps α) (l : LR2 α) (k : α) (o : V2 α)
    (hsqrt : ∀ x, 0 ≤ x → M.sqrt x * M.sqrt x = x ∧ 0 ≤ M.sqrt x) :
    V2.normSq (seg2_scale l k o).v = k * k * V2.normSq l.v ∧
    seg2_length M (seg2_scale l k o) = |k| * seg2_length M l := by
  have h : V2.normSq (seg2_scale l k o).v = k * k * V2.normSq l.v := by
    simp only [seg2_scale, V2.normSq]; ring
  refine ⟨h, ?_⟩
  simp only [V2.normSq] at h
  simp only [seg2_length]
  exact sqrt_scale M hsqrt (abs_nonneg k) (add_nonneg (mul_self_nonneg _) (mul_self_nonneg _))
    (by rw [abs_mul_abs_self]; exact h)

/-- `LineSegment2D.scale_world`: base point, direction and end point of the result are the mapped base point,
direction and end point; every point `p + t·v` is mapped to the point with the same parameter. -/
theorem seg2_scale_world_maps (l : LR2 α) (k : α) :
    (seg2_scale_world l k).p = p2_scale_world l.p k ∧ (seg2_scale_world l k).v = V2.smul k l.v ∧
    seg2_p2 (seg2_scale_world l k) = p2_scale_world (seg2_p2 l) k ∧
    ∀ t, seg2_point_at (seg2_scale_world l k) t = p2_scale_world (seg2_point_at l t) k := by
  refine ⟨?_, ?_, ?_, fun t => ?_⟩ <;> simp only [seg2_scale_world, p2_scale_world, V2.smul, seg2_p2, seg2_point_at] <;>
    ext <;> simp only [] <;> ring

/-- `LineSegment2D.scale_world` multiplies the squared length `v·v` by `k²`, and (under the `sqrt` law) the
`length` by `|k|`. -/
theorem seg2_scale_world_length (M : MathOps α) (l : LR2 α) (k : α)
    (hsqrt : ∀ x, 0 ≤ x → M.sqrt x * M.sqrt x = x ∧ 0 ≤ M.sqrt x) :
    V2.normSq (seg2_scale_world l k).v = k * k * V2.normSq l.v ∧
    seg2_length M (seg2_scale_world l k) = |k| * seg2_length M l := by
  have h : V2.normSq (seg2_scale_world l k).v = k * k * V2.normSq l.v := by
    simp only [seg2_scale_world, V2.normSq]; ring
  refine ⟨h, ?_⟩
  simp only [V2.normSq] at h
  simp only [seg2_length]
  exact sqrt_scale M hsqrt (abs_nonneg k) (add_nonneg (mul_self_nonneg _) (mul_self_nonneg _))
    (by rw [abs_mul_abs_self]; exact h)

/-- `LineSegment2D.flip`: the base point becomes the old end point, the direction is negated, the new
end point is the old base point, and the point at parameter `t` is the old point at `1 - t`
(same point set, reversed). -/
theorem seg2_flip_maps (l : LR2 α) :
    (seg2_flip l).p = seg2_p2 l ∧ (seg2_flip l).v = V2.neg l.v ∧ seg2_p2 (seg2_flip l) = l.p ∧
    ∀ t, seg2_point_at (seg2_flip l) t = seg2_point_at l (1 - t) := by
  refine ⟨rfl, rfl, ?_, fun t => ?_⟩
  · simp only [seg2_flip, seg2_p2]; ext <;> simp only [] <;> ring
  · simp only [seg2_flip, seg2_point_at]; ext <;> simp only [] <;> ring

/-- `LineSegment2D.flip` preserves the squared length `v·v` and hence `length`. -/
theorem seg2_flip_length (M : MathOps α) (l : LR2 α) :
    V2.normSq (seg2_flip l).v = V2.normSq l.v ∧ seg2_length M (seg2_flip l) = seg2_length M l := by
  have h : V2.normSq (seg2_flip l).v = V2.normSq l.v := by
    simp only [seg2_flip, V2.normSq]; ring
  refine ⟨h, ?_⟩
  simp only [V2.normSq] at h
  simp only [seg2_length, h]

/-- `Ray2D.move`: base point, direction and end point of the result are the mapped base point,
direction and end point; every point `p + t·v` is mapped to the point with the same parameter. -/
theorem ray2_move_maps (l : LR2 α) (mv : V2 α) :
    (ray2_move l mv).p = p2_move l.p mv ∧ (ray2_move l mv).v = l.v ∧
    seg2_p2 (ray2_move l mv) = p2_move (seg2_p2 l) mv ∧
    ∀ t, seg2_point_at (ray2_move l mv) t = p2_move (seg2_point_at l t) mv := by
  refine ⟨?_, ?_, ?_, fun t => ?_⟩ <;> simp only [ray2_move, p2_move, seg2_p2, seg2_point_at] <;>
    ext <;> simp only [] <;> ring

/-- `Ray2D.move` keeps the direction vector, hence the length. -/
theorem ray2_move_length (M : MathOps α) (l : LR2 α) (mv : V2 α) :
    V2.normSq (ray2_move l mv).v = V2.normSq l.v ∧ seg2_length M (ray2_move l mv) = seg2_length M l :=
  ⟨rfl, rfl⟩

/-- `Ray2D.rotate`: base point, direction and end point of the result are the mapped base point,
direction and end point; every point `p + t·v` is mapped to the point with the same parameter. -/
theorem ray2_rotate_maps (M : MathOps α) (l : LR2 α) (θ : α) (o : V2 α) :
    (ray2_rotate M l θ o).p = p2_rotate M l.p θ o ∧ (ray2_rotate M l θ o).v = v2_rotate M l.v θ ∧
    seg2_p2 (ray2_rotate M l θ o) = p2_rotate M (seg2_p2 l) θ o ∧
    ∀ t, seg2_point_at (ray2_rotate M l θ o) t = p2_rotate M (seg2_point_at l t) θ o := by
  refine ⟨?_, ?_, ?_, fun t => ?_⟩ <;> simp only [ray2_rotate, p2_rotate, v2_rotate, seg2_p2, seg2_point_at] <;>
    ext <;> simp only [] <;> ring

/-- `Ray2D.rotate` is rigid: the squared length `v·v` and hence `length` are preserved. -/
theorem ray2_rotate_length (M : MathOps α) (l : LR2 α) (θ : α) (o : V2 α)
    (hcs : M.cos θ * M.cos θ + M.sin θ * M.sin θ = 1) :
    V2.normSq (ray2_rotate M l θ o).v = V2.normSq l.v ∧ seg2_length M (ray2_rotate M l θ o) = seg2_length M l := by
  have h : V2.normSq (ray2_rotate M l θ o).v = V2.normSq l.v := by
    rw [(ray2_rotate_maps M l θ o).2.1]; exact v2_rotate_normSq M l.v θ hcs
  refine ⟨h, ?_⟩
  simp only [V2.normSq] at h
  simp only [seg2_length, h]

/-- `Ray2D.reflect`: base point, direction and end point of the result are the mapped base point,
direction and end point; every point `p + t·v` is mapped to the point with the same parameter. -/
theorem ray2_reflect_maps (l : LR2 α) (n o : V2 α) :
    (ray2_reflect l n o).p = p2_reflect l.p n o ∧ (ray2_reflect l n o).v = v2_reflect l.v n ∧
    seg2_p2 (ray2_reflect l n o) = p2_reflect (seg2_p2 l) n o ∧
    ∀ t, seg2_point_at (ray2_reflect l n o) t = p2_reflect (seg2_point_at l t) n o := by
  refine ⟨?_, ?_, ?_, fun t => ?_⟩ <;> simp only [ray2_reflect, p2_reflect, v2_reflect, seg2_p2, seg2_point_at] <;>
    ext <;> simp only [] <;> ring

/-- `Ray2D.reflect` is rigid: the squared length `v·v` and hence `length` are preserved. -/
theorem ray2_reflect_length (M : MathOps α) (l : LR2 α) (n o : V2 α)
    (hn : V2.normSq n = 1) :
    V2.normSq (ray2_reflect l n o).v = V2.normSq l.v ∧ seg2_length M (ray2_reflect l n o) = seg2_length M l := by
  have h : V2.normSq (ray2_reflect l n o).v = V2.normSq l.v := by
    rw [(ray2_reflect_maps l n o).2.1]; exact v2_reflect_dot l.v l.v n hn
  refine ⟨h, ?_⟩
  simp only [V2.normSq] at h
  simp only [seg2_length, h]

/-- `Ray2D.scale`: base point, direction and end point of the result are the mapped base point,
direction and end point; every point `p + t·v` is mapped to the point with the same parameter. -/
theorem ray2_scale_maps (l : LR2 α) (k : α) (o : V2 α) :
    (ray2_scale l k o).p = p2_scale l.p k o ∧ (ray2_scale l k o).v = V2.smul k l.v ∧
    seg2_p2 (ray2_scale l k o) = p2_scale (seg2_p2 l) k o ∧
    ∀ t, seg2_point_at (ray2_scale l k o) t = p2_scale (seg2_point_at l t) k o := by
  refine ⟨?_, ?_, ?_, fun t => ?_⟩ <;> simp only [ray2_scale, p2_scale, V2.smul, seg2_p2, seg2_point_at] <;>
    ext <;> simp only [] <;> ring

/-- `Ray2D.scale` multiplies the squared length `v·v` by `k²`, and (under the `sqrt` law) the
`length` by `|k|`. -/
theorem ray2_scale_length (M : MathOps α) (l : LR2 α) (k : α) (o : V2 α)
    (hsqrt : ∀ x, 0 ≤ x → M.sqrt x * M.sqrt x = x ∧ 0 ≤ M.sqrt x) :
    V2.normSq (ray2_scale l k o).v = k * k * V2.normSq l.v ∧
    seg2_length M (ray2_scale l k o) = |k| * seg2_length M l := by
  have h : V2.normSq (ray2_scale l k o).v = k * k * V2.normSq l.v := by
    simp only [ray2_scale, V2.normSq]; ring
  refine ⟨h, ?_⟩
  simp only [V2.normSq] at h
  simp only [seg2_length]
  exact sqrt_scale M hsqrt (abs_nonneg k) (add_nonneg (mul_self_nonneg _) (mul_self_nonneg _))
    (by rw [abs_mul_abs_self]; exact h)

/-- End point `p + v` is the point at parameter 1 (3D). -/
theorem seg3_p2_eq_point_at (l : LR3 α) : seg3_p2 l = seg3_point_at l 1 := by
  simp only [seg3_p2, seg3_point_at, mul_one]

/-- Base point `p` is the point at parameter 0 (3D). -/
theorem seg3_p_eq_point_at (l : LR3 α) : l.p = seg3_point_at l 0 := by
  simp only [seg3_point_at, mul_zero, add_zero]

/-- `LineSegment3D.move`: base point, direction and end point of the result are the mapped base point,
direction and end point; every point `p + t·v` is mapped to the point with the same parameter. -/
theorem seg3_move_maps (l : LR3 α) (mv : V3 α) :
    (seg3_move l mv).p = p3_move l.p mv ∧ (seg3_move l mv).v = l.v ∧
    seg3_p2 (seg3_move l mv) = p3_move (seg3_p2 l) mv ∧
    ∀ t, seg3_point_at (seg3_move l mv) t = p3_move (seg3_point_at l t) mv := by
  refine ⟨?_, ?_, ?_, fun t => ?_⟩ <;> simp only [seg3_move, p3_move, seg3_p2, seg3_point_at] <;>
    ext <;> simp only [] <;> ring

/-- `LineSegment3D.move` keeps the direction vector, hence the length. -/
theorem seg3_move_length (M : MathOps α) (l : LR3 α) (mv : V3 α) :
    V3.normSq (seg3_move l mv).v = V3.normSq l.v ∧ seg3_length M (seg3_move l mv) = seg3_length M l :=
  ⟨rfl, rfl⟩

/-- `LineSegment3D.rotate`: base point, direction and end point of the result are the mapped base point,
direction and end point; every point `p + t·v` is mapped to the point with the same parameter. -/
theorem seg3_rotate_maps (M : MathOps α) (l : LR3 α) (axis : V3 α) (θ : α) (o : V3 α) :
    (seg3_rotate M l axis θ o).p = p3_rotate M l.p axis θ o ∧ (seg3_rotate M l axis θ o).v = v3_rotate M l.v axis θ ∧
    seg3_p2 (seg3_rotate M l axis θ o) = p3_rotate M (seg3_p2 l) axis θ o ∧
    ∀ t, seg3_point_at (seg3_rotate M l axis θ o) t = p3_rotate M (seg3_point_at l t) axis θ o := by
  refine ⟨?_, ?_, ?_, fun t => ?_⟩ <;> simp only [seg3_rotate, p3_rotate, v3_rotate, seg3_p2, seg3_point_at] <;>
    ext <;> simp only [] <;> ring

/-- `LineSegment3D.rotate` is rigid: the squared length `v·v` and hence `length` are preserved. -/
theorem seg3_rotate_length (M : MathOps α) (l : LR3 α) (axis : V3 α) (θ : α) (o : V3 α)
    (hcs : M.cos θ * M.cos θ + M.sin θ * M.sin θ = 1)
    (hr : M.sqrt (V3.normSq axis) * M.sqrt (V3.normSq axis) = V3.normSq axis)
    (h0 : V3.normSq axis ≠ 0) :
    V3.normSq (seg3_rotate M l axis θ o).v = V3.normSq l.v ∧ seg3_length M (seg3_rotate M l axis θ o) = seg3_length M l := by
  have h : V3.normSq (seg3_rotate M l axis θ o).v = V3.normSq l.v := by
    rw [(seg3_rotate_maps M l axis θ o).2.1]; exact v3_rotate_normSq M l.v axis θ hcs hr h0
  refine ⟨h, ?_⟩
  simp only [V3.normSq] at h
  simp only [seg3_length, h]

/-- `LineSegment3D.rotate_xy`: base point, direction and end point of the result are the mapped base point,
direction and end point; every point `p + t·v` is mapped to the point with the same parameter. -/
theorem seg3_rotate_xy_maps (M : MathOps α) (l : LR3 α) (θ : α) (o : V3 α) :
    (seg3_rotate_xy M l θ o).p = p3_rotate_xy M l.p θ o ∧ (seg3_rotate_xy M l θ o).v = v3_rotate_xy M l.v θ ∧
    seg3_p2 (seg3_rotate_xy M l θ o) = p3_rotate_xy M (seg3_p2 l) θ o ∧
    ∀ t, seg3_point_at (seg3_rotate_xy M l θ o) t = p3_rotate_xy M (seg3_point_at l t) θ o := by
  refine ⟨?_, ?_, ?_, fun t => ?_⟩ <;> simp only [seg3_rotate_xy, p3_rotate_xy, v3_rotate_xy, seg3_p2, seg3_point_at] <;>
    ext <;> simp only [] <;> ring

/-- `LineSegment3D.rotate_xy` is rigid: the squared length `v·v` and hence `length` are preserved. -/
theorem seg3_rotate_xy_length (M : MathOps α) (l : LR3 α) (θ : α) (o : V3 α)
    (hcs : M.cos θ * M.cos θ + M.sin θ * M.sin θ = 1) :
    V3.normSq (seg3_rotate_xy M l θ o).v = V3.normSq l.v ∧ seg3_length M (seg3_rotate_xy M l θ o) = seg3_length M l := by
  have h : V3.normSq (seg3_rotate_xy M l θ o).v = V3.normSq l.v := by
    rw [(seg3_rotate_xy_maps M l θ o).2.1]; exact v3_rotate_xy_normSq M l.v θ hcs
  refine ⟨h, ?_⟩
  simp only [V3.normSq] at h
  simp only [seg3_length, h]

/-- `LineSegment3D.reflect`: base point, direction and end point of the result are the mapped base point,
direction and end point; every point `p + t·v` is mapped to the point with the same parameter. -/
theorem seg3_reflect_maps (l : LR3 α) (n o : V3 α) :
    (seg3_reflect l n o).p = p3_reflect l.p n o ∧ (seg3_reflect l n o).v = v3_reflect l.v n ∧
    seg3_p2 (seg3_reflect l n o) = p3_reflect (seg3_p2 l) n o ∧
    ∀ t, seg3_point_at (seg3_reflect l n o) t = p3_reflect (seg3_point_at l t) n o := by
  refine ⟨?_, ?_, ?_, fun t => ?_⟩ <;> simp only [seg3_reflect, p3_reflect, v3_reflect, seg3_p2, seg3_point_at] <;>
    ext <;> simp only [] <;> ring

/-- `LineSegment3D.reflect` is rigid: the squared length `v·v` and hence `length` are preserved. -/
theorem seg3_reflect_length (M : MathOps α) (l : LR3 α) (n o : V3 α)
    (hn : V3.normSq n = 1) :
    V3.normSq (seg3_reflect l n o).v = V3.normSq l.v ∧ seg3_length M (seg3_reflect l n o) = seg3_length M l := by
  have h : V3.normSq (seg3_reflect l n o).v = V3.normSq l.v := by
    rw [(seg3_reflect_maps l n o).2.1]; exact v3_reflect_dot l.v l.v n hn
  refine ⟨h, ?_⟩
  simp only [V3.normSq] at h
  simp only [seg3_length, h]

/-- `LineSegment3D.scale`: base point, direction and end point of the result are the mapped base point,
direction and end point; every point `p + t·v` is mapped to the point with the same parameter. -/
theorem seg3_scale_maps (l : LR3 α) (k : α) (o : V3 α) :
    (seg3_scale l k o).p = p3_scale l.p k o ∧ (seg3_scale l k o).v = V3.smul k l.v ∧
    seg3_p2 (seg3_scale l k o) = p3_scale (seg3_p2 l) k o ∧
    ∀ t, seg3_point_at (seg3_scale l k o) t = p3_scale (seg3_point_at l t) k o := by
  refine ⟨?_, ?_, ?_, fun t => ?_⟩ <;> simp only [seg3_scale, p3_scale, V3.smul, seg3_p2, seg3_point_at] <;>
    ext <;> simp only [] <;> ring

/-- `LineSegment3D.scale` multiplies the squared length `v·v` by `k²`, and (under the `sqrt` law) the
`length` by `|k|`. -/
theorem seg3_scale_length (M : MathOps α) (l : LR3 α) (k : α) (o : V3 α)
    (hsqrt : ∀ x, 0 ≤ x → M.sqrt x * M.sqrt x = x ∧ 0 ≤ M.sqrt x) :
    V3.normSq (seg3_scale l k o).v = k * k * V3.normSq l.v ∧
    seg3_length M (seg3_scale l k o) = |k| * seg3_length M l := by
  have h : V3.normSq (seg3_scale l k o).v = k * k * V3.normSq l.v := by
    simp only [seg3_scale, V3.normSq]; ring
  refine ⟨h, ?_⟩
  simp only [V3.normSq] at h
  simp only [seg3_length]
  exact sqrt_scale M hsqrt (abs_nonneg k) (add_nonneg (add_nonneg (mul_self_nonneg _) (mul_self_nonneg _)) (mul_self_nonneg _))
    (by rw [abs_mul_abs_self]; exact h)

/-- `LineSegment3D.scale_world`: base point, direction and end point of the result are the mapped base point,
direction and end point; every point `p + t·v` is mapped to the point with the same parameter. -/
theorem seg3_scale_world_maps (l : LR3 α) (k : α) :
    (seg3_scale_world l k).p = p3_scale_world l.p k ∧ (seg3_scale_world l k).v = V3.smul k l.v ∧
    seg3_p2 (seg3_scale_world l k) = p3_scale_world (seg3_p2 l) k ∧
    ∀ t, seg3_point_at (seg3_scale_world l k) t = p3_scale_world (seg3_point_at l t) k := by
  refine ⟨?_, ?_, ?_, fun t => ?_⟩ <;> simp only [seg3_scale_world, p3_scale_world, V3.smul, seg3_p2, seg3_point_at] <;>
    ext <;> simp only [] <;> ring

/-- `LineSegment3D.scale_world` multiplies the squared length `v·v` by `k²`, and (under the `sqrt` law) the
`length` by `|k|`. -/
theorem seg3_scale_world_length (M : MathOps α) (l : LR3 α) (k : α)
    (hsqrt : ∀ x, 0 ≤ x → M.sqrt x * M.sqrt x = x ∧ 0 ≤ M.sqrt x) :
    V3.normSq (seg3_scale_world l k).v = k * k * V3.normSq l.v ∧
    seg3_length M (seg3_scale_world l k) = |k| * seg3_length M l := by
  have h : V3.normSq (seg3_scale_world l k).v = k * k * V3.normSq l.v := by
    simp only [seg3_scale_world, V3.normSq]; ring
  refine ⟨h, ?_⟩
  simp only [V3.normSq] at h
  simp only [seg3_length]
  exact sqrt_scale M hsqrt (abs_nonneg k) (add_nonneg (add_nonneg (mul_self_nonneg _) (mul_self_nonneg _)) (mul_self_nonneg _))
    (by rw [abs_mul_abs_self]; exact h)

/-- `LineSegment3D.flip`: the base point becomes the old end point, the direction is negated, the new
end point is the old base point, and the point at parameter `t` is the old point at `1 - t`
(same point set, reversed). -/
theorem seg3_flip_maps (l : LR3 α) :
    (seg3_flip l).p = seg3_p2 l ∧ (seg3_flip l).v = V3.neg l.v ∧ seg3_p2 (seg3_flip l) = l.p ∧
    ∀ t, seg3_point_at (seg3_flip l) t = seg3_point_at l (1 - t) := by
  refine ⟨rfl, rfl, ?_, fun t => ?_⟩
  · simp only [seg3_flip, seg3_p2]; ext <;> simp only [] <;> ring
  · simp only [seg3_flip, seg3_point_at]; ext <;> simp only [] <;> ring

/-- `LineSegment3D.flip` preserves the squared length `v·v` and hence `length`. -/
theorem seg3_flip_length (M : MathOps α) (l : LR3 α) :
    V3.normSq (seg3_flip l).v = V3.normSq l.v ∧ seg3_length M (seg3_flip l) = seg3_length M l := by
  have h : V3.normSq (seg3_flip l).v = V3.normSq l.v := by
    simp only [seg3_flip, V3.normSq]; ring
  refine ⟨h, ?_⟩
  simp only [V3.normSq] at h
  simp only [seg3_length, h]

/-- `Ray3D.move`: base point, direction and end point of the result are the mapped base point,
direction and end point; every point `p + t·v` is mapped to the point with the same parameter. -/
theorem ray3_move_maps (l : LR3 α) (mv : V3 α) :
    (ray3_move l mv).p = p3_move l.p mv ∧ (ray3_move l mv).v = l.v ∧
    seg3_p2 (ray3_move l mv) = p3_move (seg3_p2 l) mv ∧
    ∀ t, seg3_point_at (ray3_move l mv) t = p3_move (seg3_point_at l t) mv := by
  refine ⟨?_, ?_, ?_, fun t => ?_⟩ <;> simp only [ray3_move, p3_move, seg3_p2, seg3_point_at] <;>
    ext <;> simp only [] <;> ring

/-- `Ray3D.move` keeps the direction vector, hence the length. -/
theorem ray3_move_length (M : MathOps α) (l : LR3 α) (mv : V3 α) :
    V3.normSq (ray3_move l mv).v = V3.normSq l.v ∧ seg3_length M (ray3_move l mv) = seg3_length M l :=
  ⟨rfl, rfl⟩

/-- `Ray3D.rotate`: base point, direction and end point of the result are the mapped base point,
direction and end point; every point `p + t·v` is mapped to the point with the same parameter. -/
theorem ray3_rotate_maps (M : MathOps α) (l : LR3 α) (axis : V3 α) (θ : α) (o : V3 α) :
    (ray3_rotate M l axis θ o).p = p3_rotate M l.p axis θ o ∧ (ray3_rotate M l axis θ o).v = v3_rotate M l.v axis θ ∧
    seg3_p2 (ray3_rotate M l axis θ o) = p3_rotate M (seg3_p2 l) axis θ o ∧
    ∀ t, seg3_point_at (ray3_rotate M l axis θ o) t = p3_rotate M (seg3_point_at l t) axis θ o := by
  refine ⟨?_, ?_, ?_, fun t => ?_⟩ <;> simp only [ray3_rotate, p3_rotate, v3_rotate, seg3_p2, seg3_point_at] <;>
    ext <;> simp only [] <;> ring

/-- `Ray3D.rotate` is rigid: the squared length `v·v` and hence `length` are preserved. -/
theorem ray3_rotate_length (M : MathOps α) (l : LR3 α) (axis : V3 α) (θ : α) (o : V3 α)
    (hcs : M.cos θ * M.cos θ + M.sin θ * M.sin θ = 1)
    (hr : M.sqrt (V3.normSq axis) * M.sqrt (V3.normSq axis) = V3.normSq axis)
    (h0 : V3.normSq axis ≠ 0) :
    V3.normSq (ray3_rotate M l axis θ o).v = V3.normSq l.v ∧ seg3_length M (ray3_rotate M l axis θ o) = seg3_length M l := by
  have h : V3.normSq (ray3_rotate M l axis θ o).v = V3.normSq l.v := by
    rw [(ray3_rotate_maps M l axis θ o).2.1]; exact v3_rotate_normSq M l.v axis θ hcs hr h0
  refine ⟨h, ?_⟩
  simp only [V3.normSq] at h
  simp only [seg3_length, h]

/-- `Ray3D.reflect`: base point, direction and end point of the result are the mapped base point,
direction and end point; every point `p + t·v` is mapped to the point with the same parameter. -/
theorem ray3_reflect_maps (l : LR3 α) (n o : V3 α) :
    (ray3_reflect l n o).p = p3_reflect l.p n o ∧ (ray3_reflect l n o).v = v3_reflect l.v n ∧
    seg3_p2 (ray3_reflect l n o) = p3_reflect (seg3_p2 l) n o ∧
    ∀ t, seg3_point_at (ray3_reflect l n o) t = p3_reflect (seg3_point_at l t) n o := by
  refine ⟨?_, ?_, ?_, fun t => ?_⟩ <;> simp only [ray3_reflect, p3_reflect, v3_reflect, seg3_p2, seg3_point_at] <;>
    ext <;> simp only [] <;> ring

/-- `Ray3D.reflect` is rigid: the squared length `v·v` and hence `length` are preserved. -/
theorem ray3_reflect_length (M : MathOps α) (l : LR3 α) (n o : V3 α)
    (hn : V3.normSq n = 1) :
    V3.normSq (ray3_reflect l n o).v = V3.normSq l.v ∧ seg3_length M (ray3_reflect l n o) = seg3_length M l := by
  have h : V3.normSq (ray3_reflect l n o).v = V3.normSq l.v := by
    rw [(ray3_reflect_maps l n o).2.1]; exact v3_reflect_dot l.v l.v n hn
  refine ⟨h, ?_⟩
  simp only [V3.normSq] at h
  simp only [seg3_length, h]

/-- `Ray3D.scale`: base point, direction and end point of the result are the mapped base point,
direction and end point; every point `p + t·v` is mapped to the point with the same parameter. -/
theorem ray3_scale_maps (l : LR3 α) (k : α) (o : V3 α) :
    (ray3_scale l k o).p = p3_scale l.p k o ∧ (ray3_scale l k o).v = V3.smul k l.v ∧
    seg3_p2 (ray3_scale l k o) = p3_scale (seg3_p2 l) k o ∧
    ∀ t, seg3_point_at (ray3_scale l k o) t = p3_scale (seg3_point_at l t) k o := by
  refine ⟨?_, ?_, ?_, fun t => ?_⟩ <;> simp only [ray3_scale, p3_scale, V3.smul, seg3_p2, seg3_point_at] <;>
    ext <;> simp only [] <;> ring

/-- `Ray3D.scale` multiplies the squared length `v·v` by `k²`, and (under the `sqrt` law) the
`length` by `|k|`. -/
theorem ray3_scale_length (M : MathOps α) (l : LR3 α) (k : α) (o : V3 α)
    (hsqrt : ∀ x, 0 ≤ x → M.sqrt x * M.sqrt x = x ∧ 0 ≤ M.sqrt x) :
    V3.normSq (ray3_scale l k o).v = k * k * V3.normSq l.v ∧
    seg3_length M (ray3_scale l k o) = |k| * seg3_length M l := by
  have h : V3.normSq (ray3_scale l k o).v = k * k * V3.normSq l.v := by
    simp only [ray3_scale, V3.normSq]; ring
  refine ⟨h, ?_⟩
  simp only [V3.normSq] at h
  simp only [seg3_length]
  exact sqrt_scale M hsqrt (abs_nonneg k) (add_nonneg (add_nonneg (mul_self_nonneg _) (mul_self_nonneg _)) (mul_self_nonneg _))
    (by rw [abs_mul_abs_self]; exact h)

/-! ### B.inv  applying the inverse map to a segment / ray returns the original -/

/-- Moving a `LineSegment2D` back by the reversed vector returns the original. -/
theorem seg2_move_inverse (l : LR2 α) (mv : V2 α) : seg2_move (seg2_move l mv) (v2_reverse mv) = l := by
  apply lr2_ext
  · rw [(seg2_move_maps (seg2_move l mv) (v2_reverse mv)).1, (seg2_move_maps l mv).1]; exact p2_move_inverse l.p mv
  · rw [(seg2_move_maps (seg2_move l mv) (v2_reverse mv)).2.1, (seg2_move_maps l mv).2.1]

/-- Rotating a `LineSegment2D` back (`cos φ = cos θ`, `sin φ = -sin θ`, same origin) returns the original. -/
theorem seg2_rotate_inverse (M : MathOps α) (l : LR2 α) (θ φ : α) (o : V2 α)
    (hcs : M.cos θ * M.cos θ + M.sin θ * M.sin θ = 1)
    (hc : M.cos φ = M.cos θ) (hs : M.sin φ = -M.sin θ) :
    seg2_rotate M (seg2_rotate M l θ o) φ o = l := by
  apply lr2_ext
  · rw [(seg2_rotate_maps M (seg2_rotate M l θ o) φ o).1, (seg2_rotate_maps M l θ o).1]
    exact p2_rotate_inverse M l.p o θ φ hcs hc hs
  · rw [(seg2_rotate_maps M (seg2_rotate M l θ o) φ o).2.1, (seg2_rotate_maps M l θ o).2.1]
    exact v2_rotate_inverse M l.v θ φ hcs hc hs

/-- Reflecting a `LineSegment2D` twice across the same mirror (unit normal) returns the original. -/
theorem seg2_reflect_involutive (l : LR2 α) (n o : V2 α) (hn : V2.normSq n = 1) :
    seg2_reflect (seg2_reflect l n o) n o = l := by
  apply lr2_ext
  · rw [(seg2_reflect_maps (seg2_reflect l n o) n o).1, (seg2_reflect_maps l n o).1]
    exact p2_reflect_involutive l.p n o hn
  · rw [(seg2_reflect_maps (seg2_reflect l n o) n o).2.1, (seg2_reflect_maps l n o).2.1]
    exact v2_reflect_involutive l.v n hn

/-- Scaling a `LineSegment2D` by `1/k` about the same origin undoes scaling by `k ≠ 0`. -/
theorem seg2_scale_inverse (l : LR2 α) (k : α) (o : V2 α) (hk : k ≠ 0) :
    seg2_scale (seg2_scale l k o) (1 / k) o = l := by
  apply lr2_ext
  · rw [(seg2_scale_maps (seg2_scale l k o) (1 / k) o).1, (seg2_scale_maps l k o).1]
    exact p2_scale_inverse l.p o k hk
  · rw [(seg2_scale_maps (seg2_scale l k o) (1 / k) o).2.1, (seg2_scale_maps l k o).2.1]
    exact v2_smul_inv_smul k hk l.v

/-- World-origin scaling of a `LineSegment2D` by `1/k` undoes scaling by `k ≠ 0`. -/
theorem seg2_scale_world_inverse (l : LR2 α) (k : α) (hk : k ≠ 0) :
    seg2_scale_world (seg2_scale_world l k) (1 / k) = l := by
  apply lr2_ext
  · rw [(seg2_scale_world_maps (seg2_scale_world l k) (1 / k)).1, (seg2_scale_world_maps l k).1, p2_scale_world_eq, p2_scale_world_eq]
    exact v2_smul_inv_smul k hk l.p
  · rw [(seg2_scale_world_maps (seg2_scale_world l k) (1 / k)).2.1, (seg2_scale_world_maps l k).2.1]
    exact v2_smul_inv_smul k hk l.v

/-- Flipping a `LineSegment2D` twice returns the original. -/
theorem seg2_flip_involutive (l : LR2 α) : seg2_flip (seg2_flip l) = l := by
  apply lr2_ext <;> simp only [seg2_flip] <;> ext <;> simp only [] <;> ring

/-- Moving a `Ray2D` back by the reversed vector returns the original. -/
theorem ray2_move_inverse (l : LR2 α) (mv : V2 α) : ray2_move (ray2_move l mv) (v2_reverse mv) = l := by
  apply lr2_ext
  · rw [(ray2_move_maps (ray2_move l mv) (v2_reverse mv)).1, (ray2_move_maps l mv).1]; exact p2_move_inverse l.p mv
  · rw [(ray2_move_maps (ray2_move l mv) (v2_reverse mv)).2.1, (ray2_move_maps l mv).2.1]

/-- Rotating a `Ray2D` back (`cos φ = cos θ`, `sin φ = -sin θ`, same origin) returns the original. -/
theorem ray2_rotate_inverse (M : MathOps α) (l : LR2 α) (θ φ : α) (o : V2 α)
    (hcs : M.cos θ * M.cos θ + M.sin θ * M.sin θ = 1)
    (hc : M.cos φ = M.cos θ) (hs : M.sin φ = -M.sin θ) :
    ray2_rotate M (ray2_rotate M l θ o) φ o = l := by
  apply lr2_ext
  · rw [(ray2_rotate_maps M (ray2_rotate M l θ o) φ o).1, (ray2_rotate_maps M l θ o).1]
    exact p2_rotate_inverse M l.p o θ φ hcs hc hs
  · rw [(ray2_rotate_maps M (ray2_rotate M l θ o) φ o).2.1, (ray2_rotate_maps M l θ o).2.1]
    exact v2_rotate_inverse M l.v θ φ hcs hc hs

/-- Reflecting a `Ray2D` twice across the same mirror (unit normal) returns the original. -/
theorem ray2_reflect_involutive (l : LR2 α) (n o : V2 α) (hn : V2.normSq n = 1) :
    ray2_reflect (ray2_reflect l n o) n o = l := by
  apply lr2_ext
  · rw [(ray2_reflect_maps (ray2_reflect l n o) n o).1, (ray2_reflect_maps l n o).1]
    exact p2_reflect_involutive l.p n o hn
  · rw [(ray2_reflect_maps (ray2_reflect l n o) n o).2.1, (ray2_reflect_maps l n o).2.1]
    exact v2_reflect_involutive l.v n hn

/-- Scaling a `Ray2D` by `1/k` about the same origin undoes scaling by `k ≠ 0`. -/
theorem ray2_scale_inverse (l : LR2 α) (k : α) (o : V2 α) (hk : k ≠ 0) :
    ray2_scale (ray2_scale l k o) (1 / k) o = l := by
  apply lr2_ext
  · rw [(ray2_scale_maps (ray2_scale l k o) (1 / k) o).1, (ray2_scale_maps l k o).1]
    exact p2_scale_inverse l.p o k hk
  · rw [(ray2_scale_maps (ray2_scale l k o) (1 / k) o).2.1, (ray2_scale_maps l k o).2.1]
    exact v2_smul_inv_smul k hk l.v

/-- Moving a `LineSegment3D` back by the reversed vector returns the original. -/
theorem seg3_move_inverse (l : LR3 α) (mv : V3 α) : seg3_move (seg3_move l mv) (v3_reverse mv) = l := by
  apply lr3_ext
  · rw [(seg3_move_maps (seg3_move l mv) (v3_reverse mv)).1, (seg3_move_maps l mv).1]; exact p3_move_inverse l.p mv
  · rw [(seg3_move_maps (seg3_move l mv) (v3_reverse mv)).2.1, (seg3_move_maps l mv).2.1]

/-- Rotating a `LineSegment3D` back (`cos φ = cos θ`, `sin φ = -sin θ`, same axis and origin) returns the
original. -/
theorem seg3_rotate_inverse (M : MathOps α) (l : LR3 α) (axis : V3 α) (θ φ : α) (o : V3 α)
    (hcs : M.cos θ * M.cos θ + M.sin θ * M.sin θ = 1)
    (hr : M.sqrt (V3.normSq axis) * M.sqrt (V3.normSq axis) = V3.normSq axis)
    (h0 : V3.normSq axis ≠ 0)
    (hc : M.cos φ = M.cos θ) (hs : M.sin φ = -M.sin θ) :
    seg3_rotate M (seg3_rotate M l axis θ o) axis φ o = l := by
  apply lr3_ext
  · rw [(seg3_rotate_maps M (seg3_rotate M l axis θ o) axis φ o).1, (seg3_rotate_maps M l axis θ o).1]
    exact p3_rotate_inverse M l.p axis o θ φ hcs hr h0 hc hs
  · rw [(seg3_rotate_maps M (seg3_rotate M l axis θ o) axis φ o).2.1, (seg3_rotate_maps M l axis θ o).2.1]
    exact v3_rotate_inverse M l.v axis θ φ hcs hr h0 hc hs

/-- Rotating a `LineSegment3D` back in the XY plane returns the original. -/
theorem seg3_rotate_xy_inverse (M : MathOps α) (l : LR3 α) (θ φ : α) (o : V3 α)
    (hcs : M.cos θ * M.cos θ + M.sin θ * M.sin θ = 1)
    (hc : M.cos φ = M.cos θ) (hs : M.sin φ = -M.sin θ) :
    seg3_rotate_xy M (seg3_rotate_xy M l θ o) φ o = l := by
  apply lr3_ext
  · rw [(seg3_rotate_xy_maps M (seg3_rotate_xy M l θ o) φ o).1, (seg3_rotate_xy_maps M l θ o).1]
    exact p3_rotate_xy_inverse M l.p o θ φ hcs hc hs
  · rw [(seg3_rotate_xy_maps M (seg3_rotate_xy M l θ o) φ o).2.1, (seg3_rotate_xy_maps M l θ o).2.1]
    exact v3_rotate_xy_inverse M l.v θ φ hcs hc hs

/-- Reflecting a `LineSegment3D` twice across the same mirror (unit normal) returns the original. -/
theorem seg3_reflect_involutive (l : LR3 α) (n o : V3 α) (hn : V3.normSq n = 1) :
    seg3_reflect (seg3_reflect l n o) n o = l := by
  apply lr3_ext
  · rw [(seg3_reflect_maps (seg3_reflect l n o) n o).1, (seg3_reflect_maps l n o).1]
    exact p3_reflect_involutive l.p n o hn
  · rw [(seg3_reflect_maps (seg3_reflect l n o) n o).2.1, (seg3_reflect_maps l n o).2.1]
    exact v3_reflect_involutive l.v n hn

/-- Scaling a `LineSegment3D` by `1/k` about the same origin undoes scaling by `k ≠ 0`. -/
theorem seg3_scale_inverse (l : LR3 α) (k : α) (o : V3 α) (hk : k ≠ 0) :
    seg3_scale (seg3_scale l k o) (1 / k) o = l := by
  apply lr3_ext
  · rw [(seg3_scale_maps (seg3_scale l k o) (1 / k) o).1, (seg3_scale_maps l k o).1]
    exact p3_scale_inverse l.p o k hk
  · rw [(seg3_scale_maps (seg3_scale l k o) (1 / k) o).2.1, (seg3_scale_maps l k o).2.1]
    exact v3_smul_inv_smul k hk l.v

/-- World-origin scaling of a `LineSegment3D` by `1/k` undoes scaling by `k ≠ 0`. -/
theorem seg3_scale_world_inverse (l : LR3 α) (k : α) (hk : k ≠ 0) :
    seg3_scale_world (seg3_scale_world l k) (1 / k) = l := by
  apply lr3_ext
  · rw [(seg3_scale_world_maps (seg3_scale_world l k) (1 / k)).1, (seg3_scale_world_maps l k).1, p3_scale_world_eq, p3_scale_world_eq]
    exact v3_smul_inv_smul k hk l.p
  · rw [(seg3_scale_world_maps (seg3_scale_world l k) (1 / k)).2.1, (seg3_scale_world_maps l k).2.1]
    exact v3_smul_inv_smul k hk l.v

/-- Flipping a `LineSegment3D` twice returns the original. -/
theorem seg3_flip_involutive (l : LR3 α) : seg3_flip (seg3_flip l) = l := by
  apply lr3_ext <;> simp only [seg3_flip] <;> ext <;> simp only [] <;> ring

/-- Moving a `Ray3D` back by the reversed vector returns the original. -/
theorem ray3_move_inverse (l : LR3 α) (mv : V3 α) : ray3_move (ray3_move l mv) (v3_reverse mv) = l := by
  apply lr3_ext
  · rw [(ray3_move_maps (ray3_move l mv) (v3_reverse mv)).1, (ray3_move_maps l mv).1]; exact p3_move_inverse l.p mv
  · rw [(ray3_move_maps (ray3_move l mv) (v3_reverse mv)).2.1, (ray3_move_maps l mv).2.1]

/-- Rotating a `Ray3D` back (`cos φ = cos θ`, `sin φ = -sin θ`, same axis and origin) returns the
original. -/
theorem ray3_rotate_inverse (M : MathOps α) (l : LR3 α) (axis : V3 α) (θ φ : α) (o : V3 α)
    (hcs : M.cos θ * M.cos θ + M.sin θ * M.sin θ = 1)
    (hr : M.sqrt (V3.normSq axis) * M.sqrt (V3.normSq axis) = V3.normSq axis)
    (h0 : V3.normSq axis ≠ 0)
    (hc : M.cos φ = M.cos θ) (hs : M.sin φ = -M.sin θ) :
    ray3_rotate M (ray3_rotate M l axis θ o) axis φ o = l := by
  apply lr3_ext
  · rw [(ray3_rotate_maps M (ray3_rotate M l axis θ o) axis φ o).1, (ray3_rotate_maps M l axis θ o).1]
    exact p3_rotate_inverse M l.p axis o θ φ hcs hr h0 hc hs
  · rw [(ray3_rotate_maps M (ray3_rotate M l axis θ o) axis φ o).2.1, (ray3_rotate_maps M l axis θ o).2.1]
    exact v3_rotate_inverse M l.v axis θ φ hcs hr h0 hc hs

/-- Reflecting a `Ray3D` twice across the same mirror (unit normal) returns the original. -/
theorem ray3_reflect_involutive (l : LR3 α) (n o : V3 α) (hn : V3.normSq n = 1) :
    ray3_reflect (ray3_reflect l n o) n o = l := by
  apply lr3_ext
  · rw [(ray3_reflect_maps (ray3_reflect l n o) n o).1, (ray3_reflect_maps l n o).1]
    exact p3_reflect_involutive l.p n o hn
  · rw [(ray3_reflect_maps (ray3_reflect l n o) n o).2.1, (ray3_reflect_maps l n o).2.1]
    exact v3_reflect_involutive l.v n hn

/-- Scaling a `Ray3D` by `1/k` about the same origin undoes scaling by `k ≠ 0`. -/
theorem ray3_scale_inverse (l : LR3 α) (k : α) (o : V3 α) (hk : k ≠ 0) :
    ray3_scale (ray3_scale l k o) (1 / k) o = l := by
  apply lr3_ext
  · rw [(ray3_scale_maps (ray3_scale l k o) (1 / k) o).1, (ray3_scale_maps l k o).1]
    exact p3_scale_inverse l.p o k hk
  · rw [(ray3_scale_maps (ray3_scale l k o) (1 / k) o).2.1, (ray3_scale_maps l k o).2.1]
    exact v3_smul_inv_smul k hk l.v

/-! ## D. Solids (Sphere, Cone, Cylinder)

For every transform: the centre / vertex is the mapped point, the axis is the mapped vector,
the radius is unchanged by rigid maps and multiplied by the factor by `scale`, the cone angle is
unchanged.  Measures (area, volume, height, …) are unchanged by rigid maps and scale with
`k`, `k²`, `k³`.

NOTE (defect, documented): `Sphere.scale` / `Cylinder.scale` multiply the radius by `factor`,
not `|factor|`; for a negative factor the stored radius becomes negative.  Measures that are even
in the radius (sphere area, cylinder volume, all cone measures) still scale with `|k|ⁿ`, and are
stated for every `k`; those that are odd in the radius (`sphere_volume`, `cyl_area`, …) are
stated for `0 ≤ k`. -/

/-- `Sphere.move`: the center is the mapped center, the radius is unchanged. -/
theorem sphere_move_maps (s : SphereS α) (mv : V3 α) :
    (sphere_move s mv).center = p3_move s.center mv ∧
    (sphere_move s mv).radius = s.radius := by
  refine ⟨?_, ?_⟩ <;> simp only [sphere_move, p3_move] <;>
    (try ext) <;> simp only [] <;> ring

/-- `Sphere.move` is rigid: area, volume, diameter and circumference are unchanged. -/
theorem sphere_move_measures (M : MathOps α) (s : SphereS α) (mv : V3 α) :
    sphere_area M (sphere_move s mv) = sphere_area M s ∧ sphere_volume M (sphere_move s mv) = sphere_volume M s ∧
    sphere_diameter (sphere_move s mv) = sphere_diameter s ∧
    sphere_circumference M (sphere_move s mv) = sphere_circumference M s :=
  ⟨rfl, rfl, rfl, rfl⟩

/-- `Sphere.rotate`: the center is the mapped center, the radius is unchanged. -/
theorem sphere_rotate_maps (M : MathOps α) (s : SphereS α) (axis : V3 α) (θ : α) (o : V3 α) :
    (sphere_rotate M s axis θ o).center = p3_rotate M s.center axis θ o ∧
    (sphere_rotate M s axis θ o).radius = s.radius := by
  refine ⟨?_, ?_⟩ <;> simp only [sphere_rotate, p3_rotate, v3_rotate] <;>
    (try ext) <;> simp only [] <;> ring

/-- `Sphere.rotate` is rigid: area, volume, diameter and circumference are unchanged. -/
theorem sphere_rotate_measures (M : MathOps α) (s : SphereS α) (axis : V3 α) (θ : α) (o : V3 α) :
    sphere_area M (sphere_rotate M s axis θ o) = sphere_area M s ∧ sphere_volume M (sphere_rotate M s axis θ o) = sphere_volume M s ∧
    sphere_diameter (sphere_rotate M s axis θ o) = sphere_diameter s ∧
    sphere_circumference M (sphere_rotate M s axis θ o) = sphere_circumference M s :=
  ⟨rfl, rfl, rfl, rfl⟩

/-- `Sphere.rotate_xy`: the center is the mapped center, the radius is unchanged. -/
theorem sphere_rotate_xy_maps (M : MathOps α) (s : SphereS α) (θ : α) (o : V3 α) :
    (sphere_rotate_xy M s θ o).center = p3_rotate_xy M s.center θ o ∧
    (sphere_rotate_xy M s θ o).radius = s.radius := by
  refine ⟨?_, ?_⟩ <;> simp only [sphere_rotate_xy, p3_rotate_xy, v3_rotate_xy] <;>
    (try ext) <;> simp only [] <;> ring

/-- `Sphere.rotate_xy` is rigid: area, volume, diameter and circumference are unchanged. -/
theorem sphere_rotate_xy_measures (M : MathOps α) (s : SphereS α) (θ : α) (o : V3 α) :
    sphere_area M (sphere_rotate_xy M s θ o) = sphere_area M s ∧ sphere_volume M (sphere_rotate_xy M s θ o) = sphere_volume M s ∧
    sphere_diameter (sphere_rotate_xy M s θ o) = sphere_diameter s ∧
    sphere_circumference M (sphere_rotate_xy M s θ o) = sphere_circumference M s :=
  ⟨rfl, rfl, rfl, rfl⟩

/-- `Sphere.reflect`: the center is the mapped center, the radius is unchanged. -/
theorem sphere_reflect_maps (s : SphereS α) (n o : V3 α) :
    (sphere_reflect s n o).center = p3_reflect s.center n o ∧
    (sphere_reflect s n o).radius = s.radius := by
  refine ⟨?_, ?_⟩ <;> simp only [sphere_reflect, p3_reflect, v3_reflect] <;>
    (try ext) <;> simp only [] <;> ring

/-- `Sphere.reflect` is rigid: area, volume, diameter and circumference are unchanged. -/
theorem sphere_reflect_measures (M : MathOps α) (s : SphereS α) (n o : V3 α) :
    sphere_area M (sphere_reflect s n o) = sphere_area M s ∧ sphere_volume M (sphere_reflect s n o) = sphere_volume M s ∧
    sphere_diameter (sphere_reflect s n o) = sphere_diameter s ∧
    sphere_circumference M (sphere_reflect s n o) = sphere_circumference M s :=
  ⟨rfl, rfl, rfl, rfl⟩

/-- `Sphere.scale`: the center is the mapped center, the radius is multiplied by the factor. -/
theorem sphere_scale_maps (s : SphereS α) (k : α) (o : V3 α) :
    (sphere_scale s k o).center = p3_scale s.center k o ∧
    (sphere_scale s k o).radius = s.radius * k := by
  refine ⟨?_, ?_⟩ <;> simp only [sphere_scale, p3_scale, V3.smul] <;>
    (try ext) <;> simp only [] <;> ring

/-- `Sphere.scale`: diameter and circumference are multiplied by `k`, the area by `k²`, the
volume by `k³` (for `0 ≤ k` these are `|k|`, `k²`, `|k|³`; see the note on negative factors). -/
theorem sphere_scale_measures (M : MathOps α) (s : SphereS α) (k : α) (o : V3 α) :
    sphere_area M (sphere_scale s k o) = k * k * sphere_area M s ∧
    sphere_volume M (sphere_scale s k o) = k * k * k * sphere_volume M s ∧
    sphere_diameter (sphere_scale s k o) = k * sphere_diameter s ∧
    sphere_circumference M (sphere_scale s k o) = k * sphere_circumference M s := by
  refine ⟨?_, ?_, ?_, ?_⟩ <;>
    simp only [sphere_scale, sphere_area, sphere_volume, sphere_diameter, sphere_circumference] <;> ring

/-- `Cone.move`: the vertex is the mapped vertex, the axis is the mapped axis vector, the angle is unchanged. -/
theorem cone_move_maps (s : ConeS α) (mv : V3 α) :
    (cone_move s mv).vertex = p3_move s.vertex mv ∧
    (cone_move s mv).axis = s.axis ∧
    (cone_move s mv).angle = s.angle := by
  refine ⟨?_, ?_, ?_⟩ <;> simp only [cone_move, p3_move] <;>
    (try ext) <;> simp only [] <;> ring

/-- `Cone.move` keeps the axis vector, hence all measures. -/
theorem cone_move_measures (M : MathOps α) (s : ConeS α) (mv : V3 α) :
    cone_height M (cone_move s mv) = cone_height M s ∧
    cone_radius M (cone_move s mv) = cone_radius M s ∧
    cone_slant_height M (cone_move s mv) = cone_slant_height M s ∧
    cone_area M (cone_move s mv) = cone_area M s ∧
    cone_volume M (cone_move s mv) = cone_volume M s :=
  ⟨rfl, rfl, rfl, rfl, rfl⟩

/-- `Cone.rotate`: the vertex is the mapped vertex, the axis is the mapped axis vector, the angle is unchanged. -/
theorem cone_rotate_maps (M : MathOps α) (s : ConeS α) (axis : V3 α) (θ : α) (o : V3 α) :
    (cone_rotate M s axis θ o).vertex = p3_rotate M s.vertex axis θ o ∧
    (cone_rotate M s axis θ o).axis = v3_rotate M s.axis axis θ ∧
    (cone_rotate M s axis θ o).angle = s.angle := by
  refine ⟨?_, ?_, ?_⟩ <;> simp only [cone_rotate, p3_rotate, v3_rotate] <;>
    (try ext) <;> simp only [] <;> ring

/-- `Cone.rotate` is rigid: the squared axis length is preserved, hence so are height, radius, slant_height, area, volume. -/
theorem cone_rotate_measures (M : MathOps α) (s : ConeS α) (axis : V3 α) (θ : α) (o : V3 α)
    (hcs : M.cos θ * M.cos θ + M.sin θ * M.sin θ = 1)
    (hr : M.sqrt (V3.normSq axis) * M.sqrt (V3.normSq axis) = V3.normSq axis)
    (h0 : V3.normSq axis ≠ 0) :
    V3.normSq (cone_rotate M s axis θ o).axis = V3.normSq s.axis ∧
    cone_height M (cone_rotate M s axis θ o) = cone_height M s ∧
    cone_radius M (cone_rotate M s axis θ o) = cone_radius M s ∧
    cone_slant_height M (cone_rotate M s axis θ o) = cone_slant_height M s ∧
    cone_area M (cone_rotate M s axis θ o) = cone_area M s ∧
    cone_volume M (cone_rotate M s axis θ o) = cone_volume M s := by
  have h : V3.normSq (cone_rotate M s axis θ o).axis = V3.normSq s.axis := by
    rw [(cone_rotate_maps M s axis θ o).2.1]; exact v3_rotate_normSq M s.axis axis θ hcs hr h0
  refine ⟨h, ?_⟩
  have ha : (cone_rotate M s axis θ o).angle = s.angle := (cone_rotate_maps M s axis θ o).2.2
  simp only [V3.normSq] at h
  simp only [cone_height, cone_radius, cone_slant_height, cone_area, cone_volume, h, ha, and_self]

/-- `Cone.rotate_xy`: the vertex is the mapped vertex, the axis is the mapped axis vector, the angle is unchanged. -/
theorem cone_rotate_xy_maps (M : MathOps α) (s : ConeS α) (θ : α) (o : V3 α) :
    (cone_rotate_xy M s θ o).vertex = p3_rotate_xy M s.vertex θ o ∧
    (cone_rotate_xy M s θ o).axis = v3_rotate_xy M s.axis θ ∧
    (cone_rotate_xy M s θ o).angle = s.angle := by
  refine ⟨?_, ?_, ?_⟩ <;> simp only [cone_rotate_xy, p3_rotate_xy, v3_rotate_xy] <;>
    (try ext) <;> simp only [] <;> ring

/-- `Cone.rotate_xy` is rigid: the squared axis length is preserved, hence so are height, radius, slant_height, area, volume. -/
theorem cone_rotate_xy_measures (M : MathOps α) (s : ConeS α) (θ : α) (o : V3 α)
    (hcs : M.cos θ * M.cos θ + M.sin θ * M.sin θ = 1) :
    V3.normSq (cone_rotate_xy M s θ o).axis = V3.normSq s.axis ∧
    cone_height M (cone_rotate_xy M s θ o) = cone_height M s ∧
    cone_radius M (cone_rotate_xy M s θ o) = cone_radius M s ∧
    cone_slant_height M (cone_rotate_xy M s θ o) = cone_slant_height M s ∧
    cone_area M (cone_rotate_xy M s θ o) = cone_area M s ∧
    cone_volume M (cone_rotate_xy M s θ o) = cone_volume M s := by
  have h : V3.normSq (cone_rotate_xy M s θ o).axis = V3.normSq s.axis := by
    rw [(cone_rotate_xy_maps M s θ o).2.1]; exact v3_rotate_xy_normSq M s.axis θ hcs
  refine ⟨h, ?_⟩
  have ha : (cone_rotate_xy M s θ o).angle = s.angle := (cone_rotate_xy_maps M s θ o).2.2
  simp only [V3.normSq] at h
  simp only [cone_height, cone_radius, cone_slant_height, cone_area, cone_volume, h, ha, and_self]

/-- `Cone.reflect`: the vertex is the mapped vertex, the axis is the mapped axis vector, the angle is unchanged. -/
theorem cone_reflect_maps (s : ConeS α) (n o : V3 α) :
    (cone_reflect s n o).vertex = p3_reflect s.vertex n o ∧
    (cone_reflect s n o).axis = v3_reflect s.axis n ∧
    (cone_reflect s n o).angle = s.angle := by
  refine ⟨?_, ?_, ?_⟩ <;> simp only [cone_reflect, p3_reflect, v3_reflect] <;>
    (try ext) <;> simp only [] <;> ring

/-- `Cone.reflect` is rigid: the squared axis length is preserved, hence so are height, radius, slant_height, area, volume. -/
theorem cone_reflect_measures (M : MathOps α) (s : ConeS α) (n o : V3 α)
    (hn : V3.normSq n = 1) :
    V3.normSq (cone_reflect s n o).axis = V3.normSq s.axis ∧
    cone_height M (cone_reflect s n o) = cone_height M s ∧
    cone_radius M (cone_reflect s n o) = cone_radius M s ∧
    cone_slant_height M (cone_reflect s n o) = cone_slant_height M s ∧
    cone_area M (cone_reflect s n o) = cone_area M s ∧
    cone_volume M (cone_reflect s n o) = cone_volume M s := by
  have h : V3.normSq (cone_reflect s n o).axis = V3.normSq s.axis := by
    rw [(cone_reflect_maps s n o).2.1]; exact v3_reflect_dot s.axis s.axis n hn
  refine ⟨h, ?_⟩
  have ha : (cone_reflect s n o).angle = s.angle := (cone_reflect_maps s n o).2.2
  simp only [V3.normSq] at h
  simp only [cone_height, cone_radius, cone_slant_height, cone_area, cone_volume, h, ha, and_self]

/-- `Cone.scale`: the vertex is the mapped vertex, the axis is the mapped axis vector, the angle is unchanged. -/
theorem cone_scale_maps (s : ConeS α) (k : α) (o : V3 α) :
    (cone_scale s k o).vertex = p3_scale s.vertex k o ∧
    (cone_scale s k o).axis = V3.smul k s.axis ∧
    (cone_scale s k o).angle = s.angle := by
  refine ⟨?_, ?_, ?_⟩ <;> simp only [cone_scale, p3_scale, V3.smul] <;>
    (try ext) <;> simp only [] <;> ring

/-- `Cone.scale`: height, base radius and slant height are multiplied by `|k|`, the area by
`k²`, the volume by `|k|³` (`= k³` for `0 ≤ k`); the half-angle is unchanged. -/
theorem cone_scale_measures (M : MathOps α) (s : ConeS α) (k : α) (o : V3 α)
    (hsqrt : ∀ x, 0 ≤ x → M.sqrt x * M.sqrt x = x ∧ 0 ≤ M.sqrt x) :
    cone_height M (cone_scale s k o) = |k| * cone_height M s ∧
    cone_radius M (cone_scale s k o) = |k| * cone_radius M s ∧
    cone_slant_height M (cone_scale s k o) = |k| * cone_slant_height M s ∧
    cone_area M (cone_scale s k o) = k * k * cone_area M s ∧
    cone_volume M (cone_scale s k o) = |k| * |k| * |k| * cone_volume M s ∧
    (0 ≤ k → cone_volume M (cone_scale s k o) = k * k * k * cone_volume M s) := by
  have hh : cone_height M (cone_scale s k o) = |k| * cone_height M s := by
    simp only [cone_height]
    refine sqrt_scale M hsqrt (abs_nonneg k) (add_nonneg (add_nonneg (mul_self_nonneg _) (mul_self_nonneg _)) (mul_self_nonneg _)) ?_
    rw [abs_mul_abs_self]; simp only [cone_scale]; ring
  have ha : (cone_scale s k o).angle = s.angle := (cone_scale_maps s k o).2.2
  have hkk : |k| * |k| = k * k := abs_mul_abs_self k
  simp only [cone_height] at hh
  have hsl : cone_slant_height M (cone_scale s k o) = |k| * cone_slant_height M s := by
    simp only [cone_slant_height, hh, ha]
    refine sqrt_scale M hsqrt (abs_nonneg k)
      (add_nonneg (mul_self_nonneg _) (mul_self_nonneg _)) ?_
    ring
  have hvol : cone_volume M (cone_scale s k o) = |k| * |k| * |k| * cone_volume M s := by
    simp only [cone_volume, hh, ha]; ring
  refine ⟨by simp only [cone_height, hh], by simp only [cone_radius, hh, ha]; ring, hsl, ?_, hvol,
    fun hk => by rw [hvol, abs_of_nonneg hk]⟩
  simp only [cone_slant_height] at hsl
  simp only [cone_area, hsl]
  simp only [hh, ha]
  rw [← hkk]; ring

/-- `Cylinder.move`: the center is the mapped center, the axis is the mapped axis vector, the radius is unchanged. -/
theorem cyl_move_maps (s : CylS α) (mv : V3 α) :
    (cyl_move s mv).center = p3_move s.center mv ∧
    (cyl_move s mv).axis = s.axis ∧
    (cyl_move s mv).radius = s.radius := by
  refine ⟨?_, ?_, ?_⟩ <;> simp only [cyl_move, p3_move] <;>
    (try ext) <;> simp only [] <;> ring

/-- `Cylinder.move` keeps the axis vector, hence all measures. -/
theorem cyl_move_measures (M : MathOps α) (s : CylS α) (mv : V3 α) :
    cyl_height M (cyl_move s mv) = cyl_height M s ∧
    cyl_area M (cyl_move s mv) = cyl_area M s ∧
    cyl_volume M (cyl_move s mv) = cyl_volume M s :=
  ⟨rfl, rfl, rfl⟩

/-- `Cylinder.rotate`: the center is the mapped center, the axis is the mapped axis vector, the radius is unchanged. -/
theorem cyl_rotate_maps (M : MathOps α) (s : CylS α) (axis : V3 α) (θ : α) (o : V3 α) :
    (cyl_rotate M s axis θ o).center = p3_rotate M s.center axis θ o ∧
    (cyl_rotate M s axis θ o).axis = v3_rotate M s.axis axis θ ∧
    (cyl_rotate M s axis θ o).radius = s.radius := by
  refine ⟨?_, ?_, ?_⟩ <;> simp only [cyl_rotate, p3_rotate, v3_rotate] <;>
    (try ext) <;> simp only [] <;> ring

/-- `Cylinder.rotate` is rigid: the squared axis length is preserved, hence so are height, area, volume. -/
theorem cyl_rotate_measures (M : MathOps α) (s : CylS α) (axis : V3 α) (θ : α) (o : V3 α)
    (hcs : M.cos θ * M.cos θ + M.sin θ * M.sin θ = 1)
    (hr : M.sqrt (V3.normSq axis) * M.sqrt (V3.normSq axis) = V3.normSq axis)
    (h0 : V3.normSq axis ≠ 0) :
    V3.normSq (cyl_rotate M s axis θ o).axis = V3.normSq s.axis ∧
    cyl_height M (cyl_rotate M s axis θ o) = cyl_height M s ∧
    cyl_area M (cyl_rotate M s axis θ o) = cyl_area M s ∧
    cyl_volume M (cyl_rotate M s axis θ o) = cyl_volume M s := by
  have h : V3.normSq (cyl_rotate M s axis θ o).axis = V3.normSq s.axis := by
    rw [(cyl_rotate_maps M s axis θ o).2.1]; exact v3_rotate_normSq M s.axis axis θ hcs hr h0
  refine ⟨h, ?_⟩
  have ha : (cyl_rotate M s axis θ o).radius = s.radius := (cyl_rotate_maps M s axis θ o).2.2
  simp only [V3.normSq] at h
  simp only [cyl_height, cyl_area, cyl_volume, h, ha, and_self]

/-- `Cylinder.rotate_xy`: the center is the mapped center, the axis is the mapped axis vector, the radius is unchanged. -/
theorem cyl_rotate_xy_maps (M : MathOps α) (s : CylS α) (θ : α) (o : V3 α) :
    (cyl_rotate_xy M s θ o).center = p3_rotate_xy M s.center θ o ∧
    (cyl_rotate_xy M s θ o).axis = v3_rotate_xy M s.axis θ ∧
    (cyl_rotate_xy M s θ o).radius = s.radius := by
  refine ⟨?_, ?_, ?_⟩ <;> simp only [cyl_rotate_xy, p3_rotate_xy, v3_rotate_xy] <;>
    (try ext) <;> simp only [] <;> ring

/-- `Cylinder.rotate_xy` is rigid: the squared axis length is preserved, hence so are height, area, volume. -/
theorem cyl_rotate_xy_measures (M : MathOps α) (s : CylS α) (θ : α) (o : V3 α)
    (hcs : M.cos θ * M.cos θ + M.sin θ * M.sin θ = 1) :
    V3.normSq (cyl_rotate_xy M s θ o).axis = V3.normSq s.axis ∧
    cyl_height M (cyl_rotate_xy M s θ o) = cyl_height M s ∧
    cyl_area M (cyl_rotate_xy M s θ o) = cyl_area M s ∧
    cyl_volume M (cyl_rotate_xy M s θ o) = cyl_volume M s := by
  have h : V3.normSq (cyl_rotate_xy M s θ o).axis = V3.normSq s.axis := by
    rw [(cyl_rotate_xy_maps M s θ o).2.1]; exact v3_rotate_xy_normSq M s.axis θ hcs
  refine ⟨h, ?_⟩
  have ha : (cyl_rotate_xy M s θ o).radius = s.radius := (cyl_rotate_xy_maps M s θ o).2.2
  simp only [V3.normSq] at h
  simp only [cyl_height, cyl_area, cyl_volume, h, ha, and_self]

/-- `Cylinder.reflect`: the center is the mapped center, the axis is the mapped axis vector, the radius is unchanged. -/
theorem cyl_reflect_maps (s : CylS α) (n o : V3 α) :
    (cyl_reflect s n o).center = p3_reflect s.center n o ∧
    (cyl_reflect s n o).axis = v3_reflect s.axis n ∧
    (cyl_reflect s n o).radius = s.radius := by
  refine ⟨?_, ?_, ?_⟩ <;> simp only [cyl_reflect, p3_reflect, v3_reflect] <;>
    (try ext) <;> simp only [] <;> ring

/-- `Cylinder.reflect` is rigid: the squared axis length is preserved, hence so are height, area, volume. -/
theorem cyl_reflect_measures (M : MathOps α) (s : CylS α) (n o : V3 α)
    (hn : V3.normSq n = 1) :
    V3.normSq (cyl_reflect s n o).axis = V3.normSq s.axis ∧
    cyl_height M (cyl_reflect s n o) = cyl_height M s ∧
    cyl_area M (cyl_reflect s n o) = cyl_area M s ∧
    cyl_volume M (cyl_reflect s n o) = cyl_volume M s := by
  have h : V3.normSq (cyl_reflect s n o).axis = V3.normSq s.axis := by
    rw [(cyl_reflect_maps s n o).2.1]; exact v3_reflect_dot s.axis s.axis n hn
  refine ⟨h, ?_⟩
  have ha : (cyl_reflect s n o).radius = s.radius := (cyl_reflect_maps s n o).2.2
  simp only [V3.normSq] at h
  simp only [cyl_height, cyl_area, cyl_volume, h, ha, and_self]

/-- `Cylinder.scale`: the center is the mapped center, the axis is the mapped axis vector, the radius is multiplied by the factor. -/
theorem cyl_scale_maps (s : CylS α) (k : α) (o : V3 α) :
    (cyl_scale s k o).center = p3_scale s.center k o ∧
    (cyl_scale s k o).axis = V3.smul k s.axis ∧
    (cyl_scale s k o).radius = s.radius * k := by
  refine ⟨?_, ?_, ?_⟩ <;> simp only [cyl_scale, p3_scale, V3.smul] <;>
    (try ext) <;> simp only [] <;> ring

/-- `Cylinder.scale`: the height is multiplied by `|k|`, the volume by `|k|³` (for every `k`); for
`0 ≤ k` the area is multiplied by `k²` and the volume by `k³`. -/
theorem cyl_scale_measures (M : MathOps α) (s : CylS α) (k : α) (o : V3 α)
    (hsqrt : ∀ x, 0 ≤ x → M.sqrt x * M.sqrt x = x ∧ 0 ≤ M.sqrt x) :
    cyl_height M (cyl_scale s k o) = |k| * cyl_height M s ∧
    cyl_volume M (cyl_scale s k o) = |k| * |k| * |k| * cyl_volume M s ∧
    (0 ≤ k → cyl_area M (cyl_scale s k o) = k * k * cyl_area M s) ∧
    (0 ≤ k → cyl_volume M (cyl_scale s k o) = k * k * k * cyl_volume M s) := by
  have hh : cyl_height M (cyl_scale s k o) = |k| * cyl_height M s := by
    simp only [cyl_height]
    refine sqrt_scale M hsqrt (abs_nonneg k) (add_nonneg (add_nonneg (mul_self_nonneg _) (mul_self_nonneg _)) (mul_self_nonneg _)) ?_
    rw [abs_mul_abs_self]; simp only [cyl_scale]; ring
  have hr : (cyl_scale s k o).radius = s.radius * k := (cyl_scale_maps s k o).2.2
  have hvol : cyl_volume M (cyl_scale s k o) = |k| * |k| * |k| * cyl_volume M s := by
    simp only [cyl_height] at hh
    simp only [cyl_volume, hh, hr]
    have : |k| * |k| = k * k := abs_mul_abs_self k
    linear_combination (-(M.pi * (s.radius * s.radius) * |k| *
      M.sqrt (s.axis.x * s.axis.x + s.axis.y * s.axis.y + s.axis.z * s.axis.z))) * this
  refine ⟨hh, hvol, fun hk => ?_, fun hk => ?_⟩
  · simp only [cyl_height] at hh
    simp only [cyl_area, hh, hr, abs_of_nonneg hk]; ring
  · rw [hvol, abs_of_nonneg hk]

/-! ### D.inv  applying the inverse map to a solid returns the original -/

/-- Moving a `Sphere` back by the reversed vector returns the original. -/
theorem sphere_move_inverse (s : SphereS α) (mv : V3 α) :
    sphere_move (sphere_move s mv) (v3_reverse mv) = s := by
  have h2 := sphere_move_maps (sphere_move s mv) (v3_reverse mv)
  have h1 := sphere_move_maps s mv
  apply sphere_ext
  · rw [h2.1, h1.1]; exact p3_move_inverse _ mv
  · rw [h2.2, h1.2]

/-- Rotating a `Sphere` back (`cos φ = cos θ`, `sin φ = -sin θ`, same axis and origin) returns the original. -/
theorem sphere_rotate_inverse (M : MathOps α) (s : SphereS α) (axis : V3 α) (θ φ : α) (o : V3 α)
    (hcs : M.cos θ * M.cos θ + M.sin θ * M.sin θ = 1)
    (hr : M.sqrt (V3.normSq axis) * M.sqrt (V3.normSq axis) = V3.normSq axis)
    (h0 : V3.normSq axis ≠ 0)
    (hc : M.cos φ = M.cos θ) (hs : M.sin φ = -M.sin θ) :
    sphere_rotate M (sphere_rotate M s axis θ o) axis φ o = s := by
  have h2 := sphere_rotate_maps M (sphere_rotate M s axis θ o) axis φ o
  have h1 := sphere_rotate_maps M s axis θ o
  apply sphere_ext
  · rw [h2.1, h1.1]; exact p3_rotate_inverse M _ axis o θ φ hcs hr h0 hc hs
  · rw [h2.2, h1.2]

/-- Rotating a `Sphere` back in the XY plane returns the original. -/
theorem sphere_rotate_xy_inverse (M : MathOps α) (s : SphereS α) (θ φ : α) (o : V3 α)
    (hcs : M.cos θ * M.cos θ + M.sin θ * M.sin θ = 1)
    (hc : M.cos φ = M.cos θ) (hs : M.sin φ = -M.sin θ) :
    sphere_rotate_xy M (sphere_rotate_xy M s θ o) φ o = s := by
  have h2 := sphere_rotate_xy_maps M (sphere_rotate_xy M s θ o) φ o
  have h1 := sphere_rotate_xy_maps M s θ o
  apply sphere_ext
  · rw [h2.1, h1.1]; exact p3_rotate_xy_inverse M _ o θ φ hcs hc hs
  · rw [h2.2, h1.2]

/-- Reflecting a `Sphere` twice across the same mirror (unit normal) returns the original. -/
theorem sphere_reflect_involutive (s : SphereS α) (n o : V3 α) (hn : V3.normSq n = 1) :
    sphere_reflect (sphere_reflect s n o) n o = s := by
  have h2 := sphere_reflect_maps (sphere_reflect s n o) n o
  have h1 := sphere_reflect_maps s n o
  apply sphere_ext
  · rw [h2.1, h1.1]; exact p3_reflect_involutive _ n o hn
  · rw [h2.2, h1.2]

/-- Scaling a `Sphere` by `1/k` about the same origin undoes scaling by `k ≠ 0`. -/
theorem sphere_scale_inverse (s : SphereS α) (k : α) (o : V3 α) (hk : k ≠ 0) :
    sphere_scale (sphere_scale s k o) (1 / k) o = s := by
  have h2 := sphere_scale_maps (sphere_scale s k o) (1 / k) o
  have h1 := sphere_scale_maps s k o
  apply sphere_ext
  · rw [h2.1, h1.1]; exact p3_scale_inverse _ o k hk
  · rw [h2.2, h1.2]; field_simp

/-- Moving a `Cone` back by the reversed vector returns the original. -/
theorem cone_move_inverse (s : ConeS α) (mv : V3 α) :
    cone_move (cone_move s mv) (v3_reverse mv) = s := by
  have h2 := cone_move_maps (cone_move s mv) (v3_reverse mv)
  have h1 := cone_move_maps s mv
  apply cone_ext
  · rw [h2.1, h1.1]; exact p3_move_inverse _ mv
  · rw [h2.2.1, h1.2.1]
  · rw [h2.2.2, h1.2.2]

/-- Rotating a `Cone` back (`cos φ = cos θ`, `sin φ = -sin θ`, same axis and origin) returns the original. -/
theorem cone_rotate_inverse (M : MathOps α) (s : ConeS α) (axis : V3 α) (θ φ : α) (o : V3 α)
    (hcs : M.cos θ * M.cos θ + M.sin θ * M.sin θ = 1)
    (hr : M.sqrt (V3.normSq axis) * M.sqrt (V3.normSq axis) = V3.normSq axis)
    (h0 : V3.normSq axis ≠ 0)
    (hc : M.cos φ = M.cos θ) (hs : M.sin φ = -M.sin θ) :
    cone_rotate M (cone_rotate M s axis θ o) axis φ o = s := by
  have h2 := cone_rotate_maps M (cone_rotate M s axis θ o) axis φ o
  have h1 := cone_rotate_maps M s axis θ o
  apply cone_ext
  · rw [h2.1, h1.1]; exact p3_rotate_inverse M _ axis o θ φ hcs hr h0 hc hs
  · rw [h2.2.1, h1.2.1]; exact v3_rotate_inverse M _ axis θ φ hcs hr h0 hc hs
  · rw [h2.2.2, h1.2.2]

/-- Rotating a `Cone` back in the XY plane returns the original. -/
theorem cone_rotate_xy_inverse (M : MathOps α) (s : ConeS α) (θ φ : α) (o : V3 α)
    (hcs : M.cos θ * M.cos θ + M.sin θ * M.sin θ = 1)
    (hc : M.cos φ = M.cos θ) (hs : M.sin φ = -M.sin θ) :
    cone_rotate_xy M (cone_rotate_xy M s θ o) φ o = s := by
  have h2 := cone_rotate_xy_maps M (cone_rotate_xy M s θ o) φ o
  have h1 := cone_rotate_xy_maps M s θ o
  apply cone_ext
  · rw [h2.1, h1.1]; exact p3_rotate_xy_inverse M _ o θ φ hcs hc hs
  · rw [h2.2.1, h1.2.1]; exact v3_rotate_xy_inverse M _ θ φ hcs hc hs
  · rw [h2.2.2, h1.2.2]

/-- Reflecting a `Cone` twice across the same mirror (unit normal) returns the original. -/
theorem cone_reflect_involutive (s : ConeS α) (n o : V3 α) (hn : V3.normSq n = 1) :
    cone_reflect (cone_reflect s n o) n o = s := by
  have h2 := cone_reflect_maps (cone_reflect s n o) n o
  have h1 := cone_reflect_maps s n o
  apply cone_ext
  · rw [h2.1, h1.1]; exact p3_reflect_involutive _ n o hn
  · rw [h2.2.1, h1.2.1]; exact v3_reflect_involutive _ n hn
  · rw [h2.2.2, h1.2.2]

/-- Scaling a `Cone` by `1/k` about the same origin undoes scaling by `k ≠ 0`. -/
theorem cone_scale_inverse (s : ConeS α) (k : α) (o : V3 α) (hk : k ≠ 0) :
    cone_scale (cone_scale s k o) (1 / k) o = s := by
  have h2 := cone_scale_maps (cone_scale s k o) (1 / k) o
  have h1 := cone_scale_maps s k o
  apply cone_ext
  · rw [h2.1, h1.1]; exact p3_scale_inverse _ o k hk
  · rw [h2.2.1, h1.2.1]; exact v3_smul_inv_smul k hk _
  · rw [h2.2.2, h1.2.2]

/-- Moving a `Cylinder` back by the reversed vector returns the original. -/
theorem cyl_move_inverse (s : CylS α) (mv : V3 α) :
    cyl_move (cyl_move s mv) (v3_reverse mv) = s := by
  have h2 := cyl_move_maps (cyl_move s mv) (v3_reverse mv)
  have h1 := cyl_move_maps s mv
  apply cyl_ext
  · rw [h2.1, h1.1]; exact p3_move_inverse _ mv
  · rw [h2.2.1, h1.2.1]
  · rw [h2.2.2, h1.2.2]

/-- Rotating a `Cylinder` back (`cos φ = cos θ`, `sin φ = -sin θ`, same axis and origin) returns the original. -/
theorem cyl_rotate_inverse (M : MathOps α) (s : CylS α) (axis : V3 α) (θ φ : α) (o : V3 α)
    (hcs : M.cos θ * M.cos θ + M.sin θ * M.sin θ = 1)
    (hr : M.sqrt (V3.normSq axis) * M.sqrt (V3.normSq axis) = V3.normSq axis)
    (h0 : V3.normSq axis ≠ 0)
    (hc : M.cos φ = M.cos θ) (hs : M.sin φ = -M.sin θ) :
    cyl_rotate M (cyl_rotate M s axis θ o) axis φ o = s := by
  have h2 := cyl_rotate_maps M (cyl_rotate M s axis θ o) axis φ o
  have h1 := cyl_rotate_maps M s axis θ o
  apply cyl_ext
  · rw [h2.1, h1.1]; exact p3_rotate_inverse M _ axis o θ φ hcs hr h0 hc hs
  · rw [h2.2.1, h1.2.1]; exact v3_rotate_inverse M _ axis θ φ hcs hr h0 hc hs
  · rw [h2.2.2, h1.2.2]

/-- Rotating a `Cylinder` back in the XY plane returns the original. -/
theorem cyl_rotate_xy_inverse (M : MathOps α) (s : CylS α) (θ φ : α) (o : V3 α)
    (hcs : M.cos θ * M.cos θ + M.sin θ * M.sin θ = 1)
    (hc : M.cos φ = M.cos θ) (hs : M.sin φ = -M.sin θ) :
    cyl_rotate_xy M (cyl_rotate_xy M s θ o) φ o = s := by
  have h2 := cyl_rotate_xy_maps M (cyl_rotate_xy M s θ o) φ o
  have h1 := cyl_rotate_xy_maps M s θ o
  apply cyl_ext
  · rw [h2.1, h1.1]; exact p3_rotate_xy_inverse M _ o θ φ hcs hc hs
  · rw [h2.2.1, h1.2.1]; exact v3_rotate_xy_inverse M _ θ φ hcs hc hs
  · rw [h2.2.2, h1.2.2]

/-- Reflecting a `Cylinder` twice across the same mirror (unit normal) returns the original. -/
theorem cyl_reflect_involutive (s : CylS α) (n o : V3 α) (hn : V3.normSq n = 1) :
    cyl_reflect (cyl_reflect s n o) n o = s := by
  have h2 := cyl_reflect_maps (cyl_reflect s n o) n o
  have h1 := cyl_reflect_maps s n o
  apply cyl_ext
  · rw [h2.1, h1.1]; exact p3_reflect_involutive _ n o hn
  · rw [h2.2.1, h1.2.1]; exact v3_reflect_involutive _ n hn
  · rw [h2.2.2, h1.2.2]

/-- Scaling a `Cylinder` by `1/k` about the same origin undoes scaling by `k ≠ 0`. -/
theorem cyl_scale_inverse (s : CylS α) (k : α) (o : V3 α) (hk : k ≠ 0) :
    cyl_scale (cyl_scale s k o) (1 / k) o = s := by
  have h2 := cyl_scale_maps (cyl_scale s k o) (1 / k) o
  have h1 := cyl_scale_maps s k o
  apply cyl_ext
  · rw [h2.1, h1.1]; exact p3_scale_inverse _ o k hk
  · rw [h2.2.1, h1.2.1]; exact v3_smul_inv_smul k hk _
  · rw [h2.2.2, h1.2.2]; field_simp

/-! ### D.mem  the transformed solid is exactly the image point set

`OnSphere` / `InSphere`: surface / solid ball.  `InCyl`: the solid cylinder with base centre
`center`, axis vector `axis` (base to top) and `radius`, written without division: with
`w = p - center`, `h = w·axis`: `0 ≤ h ≤ |axis|²` and `|w|²|axis|² - h² ≤ radius²·|axis|²`.
`InCone`: the solid cone with apex `vertex`, axis vector `axis` (apex to base centre) and half-angle
`angle`: `0 ≤ h ≤ |axis|²` and `|w|²|axis|² - h² ≤ tan²(angle)·h²`.
A point belongs to the original solid iff its image belongs to the transformed solid (rigid maps,
and scaling with `k ≠ 0`; for `k = 0` only the forward direction holds). -/

/-- `p` lies on the sphere surface. -/
def OnSphere (s : SphereS α) (p : V3 α) : Prop := distSq3 p s.center = s.radius * s.radius

/-- `p` lies in the solid ball. -/
def InSphere (s : SphereS α) (p : V3 α) : Prop := distSq3 p s.center ≤ s.radius * s.radius

/-- `p` lies in the solid cylinder (division-free form, see above). -/
def InCyl (s : CylS α) (p : V3 α) : Prop :=
  0 ≤ V3.dot (V3.sub p s.center) s.axis ∧
  V3.dot (V3.sub p s.center) s.axis ≤ V3.normSq s.axis ∧
  V3.normSq (V3.sub p s.center) * V3.normSq s.axis
      - V3.dot (V3.sub p s.center) s.axis * V3.dot (V3.sub p s.center) s.axis
    ≤ s.radius * s.radius * V3.normSq s.axis

/-- `p` lies in the solid cone (division-free form, see above). -/
def InCone (M : MathOps α) (s : ConeS α) (p : V3 α) : Prop :=
  0 ≤ V3.dot (V3.sub p s.vertex) s.axis ∧
  V3.dot (V3.sub p s.vertex) s.axis ≤ V3.normSq s.axis ∧
  V3.normSq (V3.sub p s.vertex) * V3.normSq s.axis
      - V3.dot (V3.sub p s.vertex) s.axis * V3.dot (V3.sub p s.vertex) s.axis
    ≤ M.tan s.angle * M.tan s.angle
        * (V3.dot (V3.sub p s.vertex) s.axis * V3.dot (V3.sub p s.vertex) s.axis)

/-- `Sphere.move`: a point is on (in) the sphere iff its image is on (in) the transformed sphere. -/
theorem sphere_move_mem (s : SphereS α) (mv : V3 α) (p : V3 α) :
    (OnSphere (sphere_move s mv) (p3_move p mv) ↔ OnSphere s p) ∧
    (InSphere (sphere_move s mv) (p3_move p mv) ↔ InSphere s p) := by
  obtain ⟨hc, hr'⟩ := sphere_move_maps s mv
  unfold OnSphere InSphere
  rw [hc, hr', p3_move_distSq]
  exact ⟨Iff.rfl, Iff.rfl⟩

/-- `Cylinder.move`: a point is in the solid cylinder iff its image is in the transformed cylinder. -/
theorem cyl_move_mem (s : CylS α) (mv : V3 α) (p : V3 α) :
    InCyl (cyl_move s mv) (p3_move p mv) ↔ InCyl s p := by
  obtain ⟨hc, ha, hr'⟩ := cyl_move_maps s mv
  unfold InCyl
  rw [hc, ha, hr', p3_move_sub]

/-- `Cone.move`: a point is in the solid cone iff its image is in the transformed cone. -/
theorem cone_move_mem (M : MathOps α) (s : ConeS α) (mv : V3 α) (p : V3 α) :
    InCone M (cone_move s mv) (p3_move p mv) ↔ InCone M s p := by
  obtain ⟨hc, ha, hg⟩ := cone_move_maps s mv
  unfold InCone
  rw [hc, ha, hg, p3_move_sub]

/-- `Sphere.rotate`: a point is on (in) the sphere iff its image is on (in) the transformed sphere. -/
theorem sphere_rotate_mem (M : MathOps α) (s : SphereS α) (axis : V3 α) (θ : α) (o : V3 α) (p : V3 α)
    (hcs : M.cos θ * M.cos θ + M.sin θ * M.sin θ = 1)
    (hr : M.sqrt (V3.normSq axis) * M.sqrt (V3.normSq axis) = V3.normSq axis)
    (h0 : V3.normSq axis ≠ 0) :
    (OnSphere (sphere_rotate M s axis θ o) (p3_rotate M p axis θ o) ↔ OnSphere s p) ∧
    (InSphere (sphere_rotate M s axis θ o) (p3_rotate M p axis θ o) ↔ InSphere s p) := by
  obtain ⟨hc, hr'⟩ := sphere_rotate_maps M s axis θ o
  unfold OnSphere InSphere
  rw [hc, hr', p3_rotate_distSq M _ _ axis o θ hcs hr h0]
  exact ⟨Iff.rfl, Iff.rfl⟩

/-- `Cylinder.rotate`: a point is in the solid cylinder iff its image is in the transformed cylinder. -/
theorem cyl_rotate_mem (M : MathOps α) (s : CylS α) (axis : V3 α) (θ : α) (o : V3 α) (p : V3 α)
    (hcs : M.cos θ * M.cos θ + M.sin θ * M.sin θ = 1)
    (hr : M.sqrt (V3.normSq axis) * M.sqrt (V3.normSq axis) = V3.normSq axis)
    (h0 : V3.normSq axis ≠ 0) :
    InCyl (cyl_rotate M s axis θ o) (p3_rotate M p axis θ o) ↔ InCyl s p := by
  obtain ⟨hc, ha, hr'⟩ := cyl_rotate_maps M s axis θ o
  unfold InCyl
  rw [hc, ha, hr', p3_rotate_sub, v3_rotate_dot M _ _ axis θ hcs hr h0, v3_rotate_normSq M _ axis θ hcs hr h0, v3_rotate_normSq M _ axis θ hcs hr h0]

/-- `Cone.rotate`: a point is in the solid cone iff its image is in the transformed cone. -/
theorem cone_rotate_mem (M : MathOps α) (s : ConeS α) (axis : V3 α) (θ : α) (o : V3 α) (p : V3 α)
    (hcs : M.cos θ * M.cos θ + M.sin θ * M.sin θ = 1)
    (hr : M.sqrt (V3.normSq axis) * M.sqrt (V3.normSq axis) = V3.normSq axis)
    (h0 : V3.normSq axis ≠ 0) :
    InCone M (cone_rotate M s axis θ o) (p3_rotate M p axis θ o) ↔ InCone M s p := by
  obtain ⟨hc, ha, hg⟩ := cone_rotate_maps M s axis θ o
  unfold InCone
  rw [hc, ha, hg, p3_rotate_sub, v3_rotate_dot M _ _ axis θ hcs hr h0, v3_rotate_normSq M _ axis θ hcs hr h0, v3_rotate_normSq M _ axis θ hcs hr h0]

/-- `Sphere.rotate_xy`: a point is on (in) the sphere iff its image is on (in) the transformed sphere. -/
theorem sphere_rotate_xy_mem (M : MathOps α) (s : SphereS α) (θ : α) (o : V3 α) (p : V3 α)
    (hcs : M.cos θ * M.cos θ + M.sin θ * M.sin θ = 1) :
    (OnSphere (sphere_rotate_xy M s θ o) (p3_rotate_xy M p θ o) ↔ OnSphere s p) ∧
    (InSphere (sphere_rotate_xy M s θ o) (p3_rotate_xy M p θ o) ↔ InSphere s p) := by
  obtain ⟨hc, hr'⟩ := sphere_rotate_xy_maps M s θ o
  unfold OnSphere InSphere
  rw [hc, hr', p3_rotate_xy_distSq M _ _ o θ hcs]
  exact ⟨Iff.rfl, Iff.rfl⟩

/-- `Cylinder.rotate_xy`: a point is in the solid cylinder iff its image is in the transformed cylinder. -/
theorem cyl_rotate_xy_mem (M : MathOps α) (s : CylS α) (θ : α) (o : V3 α) (p : V3 α)
    (hcs : M.cos θ * M.cos θ + M.sin θ * M.sin θ = 1) :
    InCyl (cyl_rotate_xy M s θ o) (p3_rotate_xy M p θ o) ↔ InCyl s p := by
  obtain ⟨hc, ha, hr'⟩ := cyl_rotate_xy_maps M s θ o
  unfold InCyl
  rw [hc, ha, hr', p3_rotate_xy_sub, v3_rotate_xy_dot M _ _ θ hcs, v3_rotate_xy_normSq M _ θ hcs, v3_rotate_xy_normSq M _ θ hcs]

/-- `Cone.rotate_xy`: a point is in the solid cone iff its image is in the transformed cone. -/
theorem cone_rotate_xy_mem (M : MathOps α) (s : ConeS α) (θ : α) (o : V3 α) (p : V3 α)
    (hcs : M.cos θ * M.cos θ + M.sin θ * M.sin θ = 1) :
    InCone M (cone_rotate_xy M s θ o) (p3_rotate_xy M p θ o) ↔ InCone M s p := by
  obtain ⟨hc, ha, hg⟩ := cone_rotate_xy_maps M s θ o
  unfold InCone
  rw [hc, ha, hg, p3_rotate_xy_sub, v3_rotate_xy_dot M _ _ θ hcs, v3_rotate_xy_normSq M _ θ hcs, v3_rotate_xy_normSq M _ θ hcs]

/-- `Sphere.reflect`: a point is on (in) the sphere iff its image is on (in) the transformed sphere. -/
theorem sphere_reflect_mem (s : SphereS α) (n o : V3 α) (p : V3 α) (hn : V3.normSq n = 1) :
    (OnSphere (sphere_reflect s n o) (p3_reflect p n o) ↔ OnSphere s p) ∧
    (InSphere (sphere_reflect s n o) (p3_reflect p n o) ↔ InSphere s p) := by
  obtain ⟨hc, hr'⟩ := sphere_reflect_maps s n o
  unfold OnSphere InSphere
  rw [hc, hr', p3_reflect_distSq _ _ n o hn]
  exact ⟨Iff.rfl, Iff.rfl⟩

/-- `Cylinder.reflect`: a point is in the solid cylinder iff its image is in the transformed cylinder. -/
theorem cyl_reflect_mem (s : CylS α) (n o : V3 α) (p : V3 α) (hn : V3.normSq n = 1) :
    InCyl (cyl_reflect s n o) (p3_reflect p n o) ↔ InCyl s p := by
  obtain ⟨hc, ha, hr'⟩ := cyl_reflect_maps s n o
  unfold InCyl
  rw [hc, ha, hr', p3_reflect_sub, v3_reflect_dot _ _ n hn, v3_reflect_normSq _ n hn, v3_reflect_normSq _ n hn]

/-- `Cone.reflect`: a point is in the solid cone iff its image is in the transformed cone. -/
theorem cone_reflect_mem (M : MathOps α) (s : ConeS α) (n o : V3 α) (p : V3 α) (hn : V3.normSq n = 1) :
    InCone M (cone_reflect s n o) (p3_reflect p n o) ↔ InCone M s p := by
  obtain ⟨hc, ha, hg⟩ := cone_reflect_maps s n o
  unfold InCone
  rw [hc, ha, hg, p3_reflect_sub, v3_reflect_dot _ _ n hn, v3_reflect_normSq _ n hn, v3_reflect_normSq _ n hn]

/-- `Sphere.scale`: the image of a point on (in) the sphere is on (in) the scaled sphere. -/
theorem sphere_scale_mem (s : SphereS α) (k : α) (o : V3 α) (p : V3 α) :
    (OnSphere s p → OnSphere (sphere_scale s k o) (p3_scale p k o)) ∧
    (InSphere s p → InSphere (sphere_scale s k o) (p3_scale p k o)) := by
  obtain ⟨hc, hr'⟩ := sphere_scale_maps s k o
  unfold OnSphere InSphere
  rw [hc, hr', p3_scale_distSq]
  constructor
  · intro h; rw [h]; ring
  · intro h
    have := mul_le_mul_of_nonneg_left h (mul_self_nonneg k)
    linarith

/-- `Sphere.scale` with `k ≠ 0`: a point is on (in) the sphere iff its image is on (in) the scaled
sphere (exact image). -/
theorem sphere_scale_mem_iff (s : SphereS α) (k : α) (o : V3 α) (p : V3 α) (hk : k ≠ 0) :
    (OnSphere (sphere_scale s k o) (p3_scale p k o) ↔ OnSphere s p) ∧
    (InSphere (sphere_scale s k o) (p3_scale p k o) ↔ InSphere s p) := by
  have hb := sphere_scale_mem (sphere_scale s k o) (1 / k) o (p3_scale p k o)
  rw [sphere_scale_inverse s k o hk, p3_scale_inverse p o k hk] at hb
  exact ⟨⟨hb.1, (sphere_scale_mem s k o p).1⟩, ⟨hb.2, (sphere_scale_mem s k o p).2⟩⟩

/-- `Cylinder.scale`: the image of a point of the solid cylinder is in the scaled cylinder. -/
theorem cyl_scale_mem (s : CylS α) (k : α) (o : V3 α) (p : V3 α) :
    InCyl s p → InCyl (cyl_scale s k o) (p3_scale p k o) := by
  obtain ⟨hc, ha, hr'⟩ := cyl_scale_maps s k o
  unfold InCyl
  rw [hc, ha, hr', p3_scale_sub, v3_smul_dot, v3_smul_normSq, v3_smul_normSq]
  rintro ⟨h1, h2, h3⟩
  refine ⟨mul_nonneg (mul_self_nonneg k) h1, mul_le_mul_of_nonneg_left h2 (mul_self_nonneg k), ?_⟩
  have := mul_le_mul_of_nonneg_left h3 (mul_self_nonneg (k * k))
  convert this using 1 <;> ring

/-- `Cylinder.scale` with `k ≠ 0`: exact image. -/
theorem cyl_scale_mem_iff (s : CylS α) (k : α) (o : V3 α) (p : V3 α) (hk : k ≠ 0) :
    InCyl (cyl_scale s k o) (p3_scale p k o) ↔ InCyl s p := by
  have hb := cyl_scale_mem (cyl_scale s k o) (1 / k) o (p3_scale p k o)
  rw [cyl_scale_inverse s k o hk, p3_scale_inverse p o k hk] at hb
  exact ⟨hb, cyl_scale_mem s k o p⟩

/-- `Cone.scale`: the image of a point of the solid cone is in the scaled cone. -/
theorem cone_scale_mem (M : MathOps α) (s : ConeS α) (k : α) (o : V3 α) (p : V3 α) :
    InCone M s p → InCone M (cone_scale s k o) (p3_scale p k o) := by
  obtain ⟨hc, ha, hg⟩ := cone_scale_maps s k o
  unfold InCone
  rw [hc, ha, hg, p3_scale_sub, v3_smul_dot, v3_smul_normSq, v3_smul_normSq]
  rintro ⟨h1, h2, h3⟩
  refine ⟨mul_nonneg (mul_self_nonneg k) h1, mul_le_mul_of_nonneg_left h2 (mul_self_nonneg k), ?_⟩
  have := mul_le_mul_of_nonneg_left h3 (mul_self_nonneg (k * k))
  convert this using 1 <;> ring

/-- `Cone.scale` with `k ≠ 0`: exact image. -/
theorem cone_scale_mem_iff (M : MathOps α) (s : ConeS α) (k : α) (o : V3 α) (p : V3 α)
    (hk : k ≠ 0) :
    InCone M (cone_scale s k o) (p3_scale p k o) ↔ InCone M s p := by
  have hb := cone_scale_mem M (cone_scale s k o) (1 / k) o (p3_scale p k o)
  rw [cone_scale_inverse s k o hk, p3_scale_inverse p o k hk] at hb
  exact ⟨hb, cone_scale_mem M s k o p⟩

/-! ## C. Planes

A `Plane` stores a unit normal `n`, an origin `o`, the offset `k = n·o`, and an in-plane
orthonormal frame `x`, `y = n × x`.  `PlaneValid` states these invariants.  Every plane transform
rebuilds the plane through `Plane.__init__` (which re-normalises `n` and `x` with `sqrt`).  The
only fact about `sqrt` that is needed is `M.sqrt 1 = 1` (a consequence of the `sqrt` law
`∀ x ≥ 0, sqrt x · sqrt x = x ∧ 0 ≤ sqrt x`, see `Lemmas.sqrt_one`); under it we show that the result has the mapped origin, the mapped normal / x-axis (the
normalisation is the identity because the maps preserve length), that it is again `PlaneValid`
(unit normal, orthonormal RIGHT-HANDED frame, `k = n·o`), and that every point of the original
plane (`n·p = k`) is mapped into the new plane. -/

/-- Invariants of a constructed `Plane`: unit normal, unit x-axis perpendicular to it,
`y = n × x` (right-handed frame) and `k = n·o`. -/
structure PlaneValid (pl : PlaneS α) : Prop where
  n_unit : V3.normSq pl.n = 1
  x_unit : V3.normSq pl.x = 1
  n_perp_x : V3.dot pl.n pl.x = 0
  y_eq : pl.y = V3.cross pl.n pl.x
  k_eq : pl.k = V3.dot pl.n pl.o

/-- The point `p` lies on the plane: `n·p = k`. -/
def OnPlane (pl : PlaneS α) (p : V3 α) : Prop := V3.dot pl.n p = pl.k

/-- In a valid plane the y-axis is a unit vector perpendicular to `n` and `x` (so `x, y, n` is an
orthonormal frame); consequence of the invariants, recorded for completeness. -/
theorem PlaneValid.y_frame {pl : PlaneS α} (hv : PlaneValid pl) :
    V3.normSq pl.y = 1 ∧ V3.dot pl.n pl.y = 0 ∧ V3.dot pl.x pl.y = 0 := by
  obtain ⟨hn, hx, hnx, hy, _⟩ := hv
  rw [hy]
  simp only [V3.normSq, V3.dot, V3.cross] at *
  refine ⟨?_, by ring, by ring⟩
  linear_combination (pl.x.x * pl.x.x + pl.x.y * pl.x.y + pl.x.z * pl.x.z) * hn + hx
    - (pl.n.x * pl.x.x + pl.n.y * pl.x.y + pl.n.z * pl.x.z) * hnx

/-- Building block: a plane assembled from a unit normal `n`, origin `o` and unit x-axis `x ⟂ n`
in the canonical way is valid. -/
theorem planeValid_mk (n o x : V3 α) (hn : V3.normSq n = 1) (hx : V3.normSq x = 1)
    (hnx : V3.dot n x = 0) : PlaneValid (⟨n, o, V3.dot n o, x, V3.cross n x⟩ : PlaneS α) :=
  ⟨hn, hx, hnx, rfl, rfl⟩

/-- `Plane.move`: origin moved, normal and x-axis unchanged, result valid, and points of the plane
are mapped into the moved plane. -/
theorem plane_move_valid (M : MathOps α)
    (h1 : M.sqrt 1 = 1)
    (pl : PlaneS α) (mv : V3 α) (hv : PlaneValid pl) :
    (plane_move M pl mv).o = p3_move pl.o mv ∧ (plane_move M pl mv).n = pl.n ∧
    (plane_move M pl mv).x = pl.x ∧ (plane_move M pl mv).y = pl.y ∧
    PlaneValid (plane_move M pl mv) ∧
    ∀ p, OnPlane pl p → OnPlane (plane_move M pl mv) (p3_move p mv) := by
  have e : plane_move M pl mv = plane_init_x M pl.n (p3_move pl.o mv) pl.x := rfl
  rw [e, plane_init_x_unit M h1 _ _ _ hv.n_unit hv.x_unit]
  refine ⟨rfl, rfl, rfl, hv.y_eq.symm, planeValid_mk _ _ _ hv.n_unit hv.x_unit hv.n_perp_x, ?_⟩
  intro p hp
  have hk := hv.k_eq
  simp only [OnPlane, V3.dot, p3_move] at *
  linear_combination hp + hk

/-- `Plane.flip`: same origin and x-axis, normal and y-axis reversed (so the frame stays
right-handed with respect to the new normal), result valid, same point set. -/
theorem plane_flip_valid (M : MathOps α)
    (h1 : M.sqrt 1 = 1)
    (pl : PlaneS α) (hv : PlaneValid pl) :
    (plane_flip M pl).o = pl.o ∧ (plane_flip M pl).n = V3.neg pl.n ∧
    (plane_flip M pl).x = pl.x ∧ (plane_flip M pl).y = V3.neg pl.y ∧
    PlaneValid (plane_flip M pl) ∧
    ∀ p, OnPlane pl p → OnPlane (plane_flip M pl) p := by
  have e : plane_flip M pl = plane_init_x M (v3_reverse pl.n) pl.o pl.x := rfl
  have hn' : V3.normSq (v3_reverse pl.n) = 1 := by
    have := hv.n_unit
    simp only [V3.normSq, v3_reverse] at *
    linear_combination this
  have hnx' : V3.dot (v3_reverse pl.n) pl.x = 0 := by
    have := hv.n_perp_x
    simp only [V3.dot, v3_reverse] at *
    linear_combination -this
  rw [e, plane_init_x_unit M h1 _ _ _ hn' hv.x_unit]
  refine ⟨rfl, rfl, rfl, ?_, planeValid_mk _ _ _ hn' hv.x_unit hnx', ?_⟩
  · rw [hv.y_eq]
    simp only [V3.cross, V3.neg, v3_reverse]
    ext <;> simp only [] <;> ring
  · intro p hp
    have hk := hv.k_eq
    simp only [OnPlane, V3.dot, v3_reverse] at *
    linear_combination -hp - hk

/-- `Plane.rotate_xy`: origin, normal, x- and y-axis are the rotated originals, the result is
valid (unit normal, right-handed orthonormal frame, `k = n·o`), and points of the plane are mapped
into the rotated plane. -/
theorem plane_rotate_xy_valid (M : MathOps α)
    (h1 : M.sqrt 1 = 1)
    (pl : PlaneS α) (θ : α) (o : V3 α)
    (hcs : M.cos θ * M.cos θ + M.sin θ * M.sin θ = 1) (hv : PlaneValid pl) :
    (plane_rotate_xy M pl θ o).o = p3_rotate_xy M pl.o θ o ∧
    (plane_rotate_xy M pl θ o).n = v3_rotate_xy M pl.n θ ∧
    (plane_rotate_xy M pl θ o).x = v3_rotate_xy M pl.x θ ∧
    (plane_rotate_xy M pl θ o).y = v3_rotate_xy M pl.y θ ∧
    PlaneValid (plane_rotate_xy M pl θ o) ∧
    ∀ p, OnPlane pl p → OnPlane (plane_rotate_xy M pl θ o) (p3_rotate_xy M p θ o) := by
  have e : plane_rotate_xy M pl θ o
      = plane_init_x M (v3_rotate_xy M pl.n θ) (p3_rotate_xy M pl.o θ o) (v3_rotate_xy M pl.x θ) := rfl
  have hn' : V3.normSq (v3_rotate_xy M pl.n θ) = 1 := by
    rw [v3_rotate_xy_normSq M _ θ hcs]; exact hv.n_unit
  have hx' : V3.normSq (v3_rotate_xy M pl.x θ) = 1 := by
    rw [v3_rotate_xy_normSq M _ θ hcs]; exact hv.x_unit
  have hnx' : V3.dot (v3_rotate_xy M pl.n θ) (v3_rotate_xy M pl.x θ) = 0 := by
    rw [v3_rotate_xy_dot M _ _ θ hcs]; exact hv.n_perp_x
  rw [e, plane_init_x_unit M h1 _ _ _ hn' hx']
  refine ⟨rfl, rfl, rfl, ?_, planeValid_mk _ _ _ hn' hx' hnx', ?_⟩
  · rw [hv.y_eq]; exact v3_rotate_xy_cross M _ _ θ hcs
  · intro p hp
    simp only [OnPlane] at *
    rw [p3_rotate_xy_eq M p, p3_rotate_xy_eq M pl.o]
    have h1 := v3_rotate_xy_dot M pl.n (V3.sub p o) θ hcs
    have h2 := v3_rotate_xy_dot M pl.n (V3.sub pl.o o) θ hcs
    have hk := hv.k_eq
    simp only [V3.dot, V3.add, V3.sub] at *
    linear_combination h1 - h2 + hp + hk

/-- `Plane.rotate` (about an arbitrary non-zero axis): origin, normal, x- and y-axis are the
rotated originals, the result is valid (unit normal, right-handed orthonormal frame, `k = n·o`),
and points of the plane are mapped into the rotated plane. -/
theorem plane_rotate_valid (M : MathOps α)
    (h1 : M.sqrt 1 = 1)
    (pl : PlaneS α) (axis : V3 α) (θ : α) (o : V3 α)
    (hcs : M.cos θ * M.cos θ + M.sin θ * M.sin θ = 1)
    (hr : M.sqrt (V3.normSq axis) * M.sqrt (V3.normSq axis) = V3.normSq axis)
    (h0 : V3.normSq axis ≠ 0) (hv : PlaneValid pl) :
    (plane_rotate M pl axis θ o).o = p3_rotate M pl.o axis θ o ∧
    (plane_rotate M pl axis θ o).n = v3_rotate M pl.n axis θ ∧
    (plane_rotate M pl axis θ o).x = v3_rotate M pl.x axis θ ∧
    (plane_rotate M pl axis θ o).y = v3_rotate M pl.y axis θ ∧
    PlaneValid (plane_rotate M pl axis θ o) ∧
    ∀ p, OnPlane pl p → OnPlane (plane_rotate M pl axis θ o) (p3_rotate M p axis θ o) := by
  have e : plane_rotate M pl axis θ o
      = plane_init_x M (v3_rotate M pl.n axis θ) (p3_rotate M pl.o axis θ o)
          (v3_rotate M pl.x axis θ) := rfl
  have hn' : V3.normSq (v3_rotate M pl.n axis θ) = 1 := by
    rw [v3_rotate_normSq M _ axis θ hcs hr h0]; exact hv.n_unit
  have hx' : V3.normSq (v3_rotate M pl.x axis θ) = 1 := by
    rw [v3_rotate_normSq M _ axis θ hcs hr h0]; exact hv.x_unit
  have hnx' : V3.dot (v3_rotate M pl.n axis θ) (v3_rotate M pl.x axis θ) = 0 := by
    rw [v3_rotate_dot M _ _ axis θ hcs hr h0]; exact hv.n_perp_x
  rw [e, plane_init_x_unit M h1 _ _ _ hn' hx']
  refine ⟨rfl, rfl, rfl, ?_, planeValid_mk _ _ _ hn' hx' hnx', ?_⟩
  · rw [hv.y_eq]; exact v3_rotate_cross M _ _ axis θ hcs hr h0
  · intro p hp
    simp only [OnPlane] at *
    rw [p3_rotate_eq M p, p3_rotate_eq M pl.o]
    have h1 := v3_rotate_dot M pl.n (V3.sub p o) axis θ hcs hr h0
    have h2 := v3_rotate_dot M pl.n (V3.sub pl.o o) axis θ hcs hr h0
    have hk := hv.k_eq
    generalize v3_rotate M pl.n axis θ = n' at *
    generalize v3_rotate M (V3.sub p o) axis θ = p' at *
    generalize v3_rotate M (V3.sub pl.o o) axis θ = o' at *
    simp only [V3.dot, V3.add, V3.sub] at *
    linear_combination h1 - h2 + hp + hk

/-- `Plane.reflect` across a mirror plane with UNIT normal `n`: origin, normal and x-axis are the
reflected originals; the y-axis is MINUS the reflected y-axis (a reflection reverses handedness,
and the constructor rebuilds `y = n' × x'` so that the stored frame is right-handed again); the
result is valid and points of the plane are mapped into the reflected plane. -/
theorem plane_reflect_valid (M : MathOps α)
    (h1 : M.sqrt 1 = 1)
    (pl : PlaneS α) (n o : V3 α) (hn : V3.normSq n = 1) (hv : PlaneValid pl) :
    (plane_reflect M pl n o).o = p3_reflect pl.o n o ∧
    (plane_reflect M pl n o).n = v3_reflect pl.n n ∧
    (plane_reflect M pl n o).x = v3_reflect pl.x n ∧
    (plane_reflect M pl n o).y = V3.neg (v3_reflect pl.y n) ∧
    PlaneValid (plane_reflect M pl n o) ∧
    ∀ p, OnPlane pl p → OnPlane (plane_reflect M pl n o) (p3_reflect p n o) := by
  have e : plane_reflect M pl n o
      = plane_init_x M (v3_reflect pl.n n) (p3_reflect pl.o n o) (v3_reflect pl.x n) := rfl
  have hn' : V3.normSq (v3_reflect pl.n n) = 1 :=
    (v3_reflect_dot pl.n pl.n n hn).trans hv.n_unit
  have hx' : V3.normSq (v3_reflect pl.x n) = 1 :=
    (v3_reflect_dot pl.x pl.x n hn).trans hv.x_unit
  have hnx' : V3.dot (v3_reflect pl.n n) (v3_reflect pl.x n) = 0 := by
    rw [v3_reflect_dot _ _ n hn]; exact hv.n_perp_x
  rw [e, plane_init_x_unit M h1 _ _ _ hn' hx']
  refine ⟨rfl, rfl, rfl, ?_, planeValid_mk _ _ _ hn' hx' hnx', ?_⟩
  · rw [hv.y_eq]; exact v3_reflect_cross _ _ n hn
  · intro p hp
    simp only [OnPlane] at *
    rw [p3_reflect_eq p, p3_reflect_eq pl.o]
    have h1 := v3_reflect_dot pl.n (V3.sub p o) n hn
    have h2 := v3_reflect_dot pl.n (V3.sub pl.o o) n hn
    have hk := hv.k_eq
    generalize v3_reflect pl.n n = n' at *
    generalize v3_reflect (V3.sub p o) n = p' at *
    generalize v3_reflect (V3.sub pl.o o) n = o' at *
    simp only [V3.dot, V3.add, V3.sub] at *
    linear_combination h1 - h2 + hp + hk

/-- `Plane.scale`: the origin is scaled, the normal and the frame are unchanged (a uniform scaling
maps a plane to a parallel plane), the result is valid, and points of the plane are mapped into
the scaled plane. -/
theorem plane_scale_valid (M : MathOps α)
    (h1 : M.sqrt 1 = 1)
    (pl : PlaneS α) (k : α) (o : V3 α) (hv : PlaneValid pl) :
    (plane_scale M pl k o).o = p3_scale pl.o k o ∧ (plane_scale M pl k o).n = pl.n ∧
    (plane_scale M pl k o).x = pl.x ∧ (plane_scale M pl k o).y = pl.y ∧
    PlaneValid (plane_scale M pl k o) ∧
    ∀ p, OnPlane pl p → OnPlane (plane_scale M pl k o) (p3_scale p k o) := by
  have e : plane_scale M pl k o = plane_init_x M pl.n (p3_scale pl.o k o) pl.x := rfl
  rw [e, plane_init_x_unit M h1 _ _ _ hv.n_unit hv.x_unit]
  refine ⟨rfl, rfl, rfl, hv.y_eq.symm, planeValid_mk _ _ _ hv.n_unit hv.x_unit hv.n_perp_x, ?_⟩
  intro p hp
  have hk := hv.k_eq
  simp only [OnPlane, V3.dot, p3_scale] at *
  linear_combination k * hp + k * hk

/-! ### C.inv  applying the inverse map to a plane returns the original -/

/-- A valid plane is determined by its normal, origin and x-axis (`k` and `y` are derived). -/
theorem planeValid_ext {a b : PlaneS α} (ha : PlaneValid a) (hb : PlaneValid b)
    (hn : a.n = b.n) (ho : a.o = b.o) (hx : a.x = b.x) : a = b := by
  apply plane_ext hn ho _ hx
  · rw [ha.y_eq, hb.y_eq, hn, hx]
  · rw [ha.k_eq, hb.k_eq, hn, ho]

/-- Moving a valid plane back by the reversed vector returns the original plane. -/
theorem plane_move_inverse (M : MathOps α) (h1 : M.sqrt 1 = 1) (pl : PlaneS α) (mv : V3 α)
    (hv : PlaneValid pl) :
    plane_move M (plane_move M pl mv) (v3_reverse mv) = pl := by
  obtain ⟨ho, hn, hx, _, hv', _⟩ := plane_move_valid M h1 pl mv hv
  obtain ⟨ho2, hn2, hx2, _, hv2, _⟩ := plane_move_valid M h1 _ (v3_reverse mv) hv'
  apply planeValid_ext hv2 hv
  · rw [hn2, hn]
  · rw [ho2, ho]; exact p3_move_inverse pl.o mv
  · rw [hx2, hx]

/-- Flipping a valid plane twice returns the original plane. -/
theorem plane_flip_involutive (M : MathOps α) (h1 : M.sqrt 1 = 1) (pl : PlaneS α)
    (hv : PlaneValid pl) :
    plane_flip M (plane_flip M pl) = pl := by
  obtain ⟨ho, hn, hx, _, hv', _⟩ := plane_flip_valid M h1 pl hv
  obtain ⟨ho2, hn2, hx2, _, hv2, _⟩ := plane_flip_valid M h1 _ hv'
  apply planeValid_ext hv2 hv
  · rw [hn2, hn]; simp only [V3.neg, neg_neg]
  · rw [ho2, ho]
  · rw [hx2, hx]

/-- Rotating a valid plane back in the XY plane (`cos φ = cos θ`, `sin φ = -sin θ`, same origin)
returns the original plane. -/
theorem plane_rotate_xy_inverse (M : MathOps α) (h1 : M.sqrt 1 = 1) (pl : PlaneS α) (θ φ : α)
    (o : V3 α) (hcs : M.cos θ * M.cos θ + M.sin θ * M.sin θ = 1)
    (hc : M.cos φ = M.cos θ) (hs : M.sin φ = -M.sin θ) (hv : PlaneValid pl) :
    plane_rotate_xy M (plane_rotate_xy M pl θ o) φ o = pl := by
  have hcs' : M.cos φ * M.cos φ + M.sin φ * M.sin φ = 1 := by rw [hc, hs]; linear_combination hcs
  obtain ⟨ho, hn, hx, _, hv', _⟩ := plane_rotate_xy_valid M h1 pl θ o hcs hv
  obtain ⟨ho2, hn2, hx2, _, hv2, _⟩ := plane_rotate_xy_valid M h1 _ φ o hcs' hv'
  apply planeValid_ext hv2 hv
  · rw [hn2, hn]; exact v3_rotate_xy_inverse M _ θ φ hcs hc hs
  · rw [ho2, ho]; exact p3_rotate_xy_inverse M _ o θ φ hcs hc hs
  · rw [hx2, hx]; exact v3_rotate_xy_inverse M _ θ φ hcs hc hs

/-- Rotating a valid plane back about the same axis and origin (`cos φ = cos θ`,
`sin φ = -sin θ`) returns the original plane. -/
theorem plane_rotate_inverse (M : MathOps α) (h1 : M.sqrt 1 = 1) (pl : PlaneS α) (axis : V3 α)
    (θ φ : α) (o : V3 α) (hcs : M.cos θ * M.cos θ + M.sin θ * M.sin θ = 1)
    (hr : M.sqrt (V3.normSq axis) * M.sqrt (V3.normSq axis) = V3.normSq axis)
    (h0 : V3.normSq axis ≠ 0)
    (hc : M.cos φ = M.cos θ) (hs : M.sin φ = -M.sin θ) (hv : PlaneValid pl) :
    plane_rotate M (plane_rotate M pl axis θ o) axis φ o = pl := by
  have hcs' : M.cos φ * M.cos φ + M.sin φ * M.sin φ = 1 := by rw [hc, hs]; linear_combination hcs
  obtain ⟨ho, hn, hx, _, hv', _⟩ := plane_rotate_valid M h1 pl axis θ o hcs hr h0 hv
  obtain ⟨ho2, hn2, hx2, _, hv2, _⟩ := plane_rotate_valid M h1 _ axis φ o hcs' hr h0 hv'
  apply planeValid_ext hv2 hv
  · rw [hn2, hn]; exact v3_rotate_inverse M _ axis θ φ hcs hr h0 hc hs
  · rw [ho2, ho]; exact p3_rotate_inverse M _ axis o θ φ hcs hr h0 hc hs
  · rw [hx2, hx]; exact v3_rotate_inverse M _ axis θ φ hcs hr h0 hc hs

/-- Reflecting a valid plane twice across the same mirror (unit normal) returns the original
plane. -/
theorem plane_reflect_involutive (M : MathOps α) (h1 : M.sqrt 1 = 1) (pl : PlaneS α) (n o : V3 α)
    (hn : V3.normSq n = 1) (hv : PlaneValid pl) :
    plane_reflect M (plane_reflect M pl n o) n o = pl := by
  obtain ⟨ho, hn', hx, _, hv', _⟩ := plane_reflect_valid M h1 pl n o hn hv
  obtain ⟨ho2, hn2, hx2, _, hv2, _⟩ := plane_reflect_valid M h1 _ n o hn hv'
  apply planeValid_ext hv2 hv
  · rw [hn2, hn']; exact v3_reflect_involutive _ n hn
  · rw [ho2, ho]; exact p3_reflect_involutive _ n o hn
  · rw [hx2, hx]; exact v3_reflect_involutive _ n hn

/-- Scaling a valid plane by `1/k` about the same origin undoes scaling by `k ≠ 0`. -/
theorem plane_scale_inverse (M : MathOps α) (h1 : M.sqrt 1 = 1) (pl : PlaneS α) (k : α) (o : V3 α)
    (hk : k ≠ 0) (hv : PlaneValid pl) :
    plane_scale M (plane_scale M pl k o) (1 / k) o = pl := by
  obtain ⟨ho, hn, hx, _, hv', _⟩ := plane_scale_valid M h1 pl k o hv
  obtain ⟨ho2, hn2, hx2, _, hv2, _⟩ := plane_scale_valid M h1 _ (1 / k) o hv'
  apply planeValid_ext hv2 hv
  · rw [hn2, hn]
  · rw [ho2, ho]; exact p3_scale_inverse pl.o o k hk
  · rw [hx2, hx]

/-! ## E. Arcs

`Arc2D` stores centre `c`, radius `r`, start / end angles `a1`, `a2` (in `[0, 2π]`; the pair
`(0, 2π)` denotes a full circle) and cached `cos` / `sin` of both angles.  Its points are
`c + r·(cos φ, sin φ)`; `arc2_point_at` evaluates the point at parameter `t`.

`rotate` (after the library fix): a full circle stays a full circle about the rotated centre; for
any other arc both angles become `(a + θ) % 2π`, which the translator renders as
`x - M.floor (x / (2π)) * (2π)`.  The facts about `M.floor` that are needed are explicit hypotheses:
the floor law `hfl : ∀ x, M.floor x ≤ x ∧ x < M.floor x + 1` (range of the new angles) and, for the
preservation of the swept angle / the inverse, integrality `hint : ∀ x, ∃ n : ℤ, M.floor x = n`
(without it "`floor x := x - 1/2`" satisfies `hfl` and sends every angle to `π`). -/

/-- The cached trigonometric values of an `Arc2D` agree with its angles. -/
def Arc2Coherent (M : MathOps α) (a : Arc2S α) : Prop :=
  a.cos_a1 = M.cos a.a1 ∧ a.sin_a1 = M.sin a.a1 ∧ a.cos_a2 = M.cos a.a2 ∧ a.sin_a2 = M.sin a.a2

/-- `Arc2D.move`: centre moved, radius and angles unchanged, cache coherent, every point of the
arc (parameter `t`) is moved by the vector, and the length is unchanged. -/
theorem arc2_move_maps (M : MathOps α) (a : Arc2S α) (mv : V2 α) :
    (arc2_move M a mv).c = p2_move a.c mv ∧ (arc2_move M a mv).r = a.r ∧
    (arc2_move M a mv).a1 = a.a1 ∧ (arc2_move M a mv).a2 = a.a2 ∧
    Arc2Coherent M (arc2_move M a mv) ∧
    (∀ t, arc2_point_at M (arc2_move M a mv) t = p2_move (arc2_point_at M a t) mv) ∧
    arc2_length M (arc2_move M a mv) = arc2_length M a ∧
    arc2_area M (arc2_move M a mv) = arc2_area M a := by
  refine ⟨rfl, rfl, rfl, rfl, ⟨rfl, rfl, rfl, rfl⟩, fun t => ?_, rfl, rfl⟩
  have ec : (arc2_move M a mv).c = p2_move a.c mv := rfl
  have er : (arc2_move M a mv).r = a.r := rfl
  have e1 : (arc2_move M a mv).a1 = a.a1 := rfl
  have e2 : (arc2_move M a mv).a2 = a.a2 := rfl
  simp only [arc2_point_at, ec, er, e1, e2, p2_move]
  ext <;> simp only [] <;> ring

/-- `Arc2D.move` maps the two end points (for an arc whose cache is coherent). -/
theorem arc2_move_endpoints (M : MathOps α) (a : Arc2S α) (mv : V2 α) (hc : Arc2Coherent M a) :
    arc2_p1 (arc2_move M a mv) = p2_move (arc2_p1 a) mv ∧
    arc2_p2 (arc2_move M a mv) = p2_move (arc2_p2 a) mv := by
  obtain ⟨h1, h2, h3, h4⟩ := hc
  constructor <;> simp only [arc2_p1, arc2_p2, arc2_move, p2_move, h1, h2, h3, h4] <;>
    ext <;> simp only [] <;> ring

/-- `Arc2D.scale`: centre scaled about the origin, radius multiplied by the factor, angles
unchanged, cache coherent, every point of the arc (parameter `t`) is mapped by the scaling, the
length is multiplied by `k` and the (full-circle) area by `k²`. -/
theorem arc2_scale_maps (M : MathOps α) (a : Arc2S α) (k : α) (o : V2 α) :
    (arc2_scale M a k o).c = p2_scale a.c k o ∧ (arc2_scale M a k o).r = a.r * k ∧
    (arc2_scale M a k o).a1 = a.a1 ∧ (arc2_scale M a k o).a2 = a.a2 ∧
    Arc2Coherent M (arc2_scale M a k o) ∧
    (∀ t, arc2_point_at M (arc2_scale M a k o) t = p2_scale (arc2_point_at M a t) k o) ∧
    arc2_length M (arc2_scale M a k o) = k * arc2_length M a ∧
    arc2_area M (arc2_scale M a k o) = (arc2_area M a).map (fun A => k * k * A) := by
  have ec : (arc2_scale M a k o).c = p2_scale a.c k o := rfl
  have e1 : (arc2_scale M a k o).a1 = a.a1 := rfl
  have e2 : (arc2_scale M a k o).a2 = a.a2 := rfl
  have e3 : (arc2_scale M a k o).r = a.r * k := rfl
  refine ⟨rfl, rfl, rfl, rfl, ⟨rfl, rfl, rfl, rfl⟩, fun t => ?_, ?_, ?_⟩
  · simp only [arc2_point_at, ec, e1, e2, e3, p2_scale]
    ext <;> simp only [] <;> ring
  · simp only [arc2_length, e1, e2, e3]; ring
  · simp only [arc2_area, e1, e2, e3]
    split_ifs
    · simp only [Option.map_some, Option.some.injEq]; ring
    · rfl
    · rfl

/-- `Arc2D.scale` maps the two end points (for an arc whose cache is coherent). -/
theorem arc2_scale_endpoints (M : MathOps α) (a : Arc2S α) (k : α) (o : V2 α)
    (hc : Arc2Coherent M a) :
    arc2_p1 (arc2_scale M a k o) = p2_scale (arc2_p1 a) k o ∧
    arc2_p2 (arc2_scale M a k o) = p2_scale (arc2_p2 a) k o := by
  obtain ⟨h1, h2, h3, h4⟩ := hc
  constructor <;> simp only [arc2_p1, arc2_p2, arc2_scale, p2_scale, h1, h2, h3, h4] <;>
    ext <;> simp only [] <;> ring

/-- The arc is a full circle (`Arc2D.is_circle`): `a1 = 0` and `a2 = 2π`. -/
def Arc2IsCircle (M : MathOps α) (a : Arc2S α) : Prop := a.a1 = 0 ∧ a.a2 = 2 * M.pi

/-- Python's float remainder `x % y` as rendered by the translator. -/
def fmod (M : MathOps α) (x y : α) : α := x - M.floor (x / y) * y

/-- `Arc2IsCircle` is exactly what the kernel `arc2_is_circle` tests. -/
theorem arc2_is_circle_iff (M : MathOps α) (a : Arc2S α) :
    arc2_is_circle M a = true ↔ Arc2IsCircle M a := by
  simp only [arc2_is_circle, Arc2IsCircle, decide_eq_true_eq]

/-- `Arc2D.rotate` (every input, every `θ`): the centre is the centre rotated about the origin, the
radius is kept, and the cached `cos` / `sin` values agree with the stored new angles. -/
theorem arc2_rotate_maps (M : MathOps α) (a : Arc2S α) (θ : α) (o : V2 α) :
    (arc2_rotate M a θ o).c = p2_rotate M a.c θ o ∧ (arc2_rotate M a θ o).r = a.r ∧
    Arc2Coherent M (arc2_rotate M a θ o) := by
  refine ⟨?_, rfl, ?_, ?_, ?_, ?_⟩
  · simp only [arc2_rotate, p2_rotate]
    ext <;> simp only [] <;> split_ifs <;> rfl
  all_goals (simp only [arc2_rotate]; split_ifs <;> rfl)

/-- `Arc2D.rotate` of a NON-circle, any `θ` (negative, `> 2π`, …): each new angle is
`(a + θ) % 2π = a + θ - floor((a + θ)/(2π))·2π`; under the floor law and `0 < π` it lies in
`[0, 2π)`, it is `a + θ` minus an explicit multiple `m·2π`, and the result is again not a full
circle. -/
theorem arc2_rotate_angles (M : MathOps α) (a : Arc2S α) (θ : α) (o : V2 α)
    (hfl : ∀ x, M.floor x ≤ x ∧ x < M.floor x + 1) (hpi : 0 < M.pi)
    (hnc : ¬ Arc2IsCircle M a) :
    (arc2_rotate M a θ o).a1 = fmod M (a.a1 + θ) (2 * M.pi) ∧
    (arc2_rotate M a θ o).a2 = fmod M (a.a2 + θ) (2 * M.pi) ∧
    (0 ≤ (arc2_rotate M a θ o).a1 ∧ (arc2_rotate M a θ o).a1 < 2 * M.pi) ∧
    (0 ≤ (arc2_rotate M a θ o).a2 ∧ (arc2_rotate M a θ o).a2 < 2 * M.pi) ∧
    (∃ m, (arc2_rotate M a θ o).a1 = a.a1 + θ - m * (2 * M.pi)) ∧
    (∃ m, (arc2_rotate M a θ o).a2 = a.a2 + θ - m * (2 * M.pi)) ∧
    ¬ Arc2IsCircle M (arc2_rotate M a θ o) := by
  have hP : 0 < 2 * M.pi := by linarith
  unfold Arc2IsCircle at hnc
  have e1 : (arc2_rotate M a θ o).a1 = fmod M (a.a1 + θ) (2 * M.pi) := by
    simp only [arc2_rotate, fmod, if_neg hnc]
  have e2 : (arc2_rotate M a θ o).a2 = fmod M (a.a2 + θ) (2 * M.pi) := by
    simp only [arc2_rotate, fmod, if_neg hnc]
  have r1 := fmod_range M hfl hP (a.a1 + θ)
  have r2 := fmod_range M hfl hP (a.a2 + θ)
  refine ⟨e1, e2, by rw [e1]; exact r1, by rw [e2]; exact r2, ⟨_, e1⟩, ⟨_, e2⟩, ?_⟩
  rintro ⟨_, h⟩
  rw [e2] at h
  exact absurd h (ne_of_lt r2.2)

/-- `Arc2D.rotate` of a FULL CIRCLE, any `θ`: the result is again a full circle (`a1 = 0`,
`a2 = 2π`, `is_circle` holds) about the rotated centre with the same radius; length and area are
unchanged. -/
theorem arc2_rotate_circle (M : MathOps α) (a : Arc2S α) (θ : α) (o : V2 α)
    (hc : Arc2IsCircle M a) :
    (arc2_rotate M a θ o).a1 = 0 ∧ (arc2_rotate M a θ o).a2 = 2 * M.pi ∧
    Arc2IsCircle M (arc2_rotate M a θ o) ∧
    (arc2_rotate M a θ o).c = p2_rotate M a.c θ o ∧ (arc2_rotate M a θ o).r = a.r ∧
    arc2_length M (arc2_rotate M a θ o) = arc2_length M a ∧
    arc2_area M (arc2_rotate M a θ o) = arc2_area M a := by
  have hc' := hc
  unfold Arc2IsCircle at hc'
  have e1 : (arc2_rotate M a θ o).a1 = 0 := by
    simp only [arc2_rotate, if_pos hc']
  have e2 : (arc2_rotate M a θ o).a2 = 2 * M.pi := by
    simp only [arc2_rotate, if_pos hc']
  have er : (arc2_rotate M a θ o).r = a.r := rfl
  refine ⟨e1, e2, ⟨e1, e2⟩, (arc2_rotate_maps M a θ o).1, er, ?_, ?_⟩
  · simp only [arc2_length, e1, e2, er, hc.1, hc.2]
  · simp only [arc2_area, e1, e2, er, hc.1, hc.2]

/-- `Arc2D.rotate` preserves the swept angle (`Arc2D.angle`) and hence the length of every valid
non-circle arc (`a1, a2 ∈ [0, 2π]`), for ANY `θ`, under the floor law plus integrality of
`M.floor`.  No boundary case is excluded: an end angle equal to `2π` is renormalised to `0`
(possibly flipping `is_inverted`), and the swept angle is still the same. -/
theorem arc2_rotate_angle (M : MathOps α) (a : Arc2S α) (θ : α) (o : V2 α)
    (hfl : ∀ x, M.floor x ≤ x ∧ x < M.floor x + 1) (hint : ∀ x, ∃ n : ℤ, M.floor x = n)
    (hpi : 0 < M.pi) (hnc : ¬ Arc2IsCircle M a)
    (h1 : 0 ≤ a.a1 ∧ a.a1 ≤ 2 * M.pi) (h2 : 0 ≤ a.a2 ∧ a.a2 ≤ 2 * M.pi) :
    arc2_angle M (arc2_rotate M a θ o) = arc2_angle M a ∧
    arc2_length M (arc2_rotate M a θ o) = arc2_length M a := by
  have hP : 0 < 2 * M.pi := by linarith
  obtain ⟨e1, e2, r1, r2, _, _, _⟩ := arc2_rotate_angles M a θ o hfl hpi hnc
  obtain ⟨n1, hn1⟩ := hint ((a.a1 + θ) / (2 * M.pi))
  obtain ⟨n2, hn2⟩ := hint ((a.a2 + θ) / (2 * M.pi))
  unfold fmod at e1 e2
  rw [hn1] at e1
  rw [hn2] at e2
  have key := swept_shift hP h1 h2 hnc r1 r2 e1 e2
  have ha : ∀ b : Arc2S α, arc2_angle M b = swept (2 * M.pi) b.a1 b.a2 := fun b => by
    simp only [arc2_angle, swept]
  have hl : ∀ b : Arc2S α, arc2_length M b = swept (2 * M.pi) b.a1 b.a2 * b.r := fun b => by
    simp only [arc2_length, swept]
  have er : (arc2_rotate M a θ o).r = a.r := rfl
  exact ⟨by rw [ha, ha, key], by rw [hl, hl, key, er]⟩

/-- `Arc2D.rotate` maps the START point: `p1 (rotate a) = rotate (p1 a)`, for a cache-coherent arc,
given that `M.cos`, `M.sin` take the same values at the stored (reduced) angle as at `a1 + θ`
(`2π`-periodicity) and satisfy the angle-addition law at `a1 + θ`.  (For a full circle the stored
start angle stays `0`, so the periodicity hypothesis only holds when `cos θ = 1`: the start point
of a full circle is not tracked, its point set is — see `arc2_rotate_circle`.) -/
theorem arc2_rotate_p1 (M : MathOps α) (a : Arc2S α) (θ : α) (o : V2 α) (hc : Arc2Coherent M a)
    (hpc : M.cos (arc2_rotate M a θ o).a1 = M.cos (a.a1 + θ))
    (hps : M.sin (arc2_rotate M a θ o).a1 = M.sin (a.a1 + θ))
    (hcos : M.cos (a.a1 + θ) = M.cos a.a1 * M.cos θ - M.sin a.a1 * M.sin θ)
    (hsin : M.sin (a.a1 + θ) = M.sin a.a1 * M.cos θ + M.cos a.a1 * M.sin θ) :
    arc2_p1 (arc2_rotate M a θ o) = p2_rotate M (arc2_p1 a) θ o := by
  obtain ⟨h1, h2, _, _⟩ := hc
  obtain ⟨e3, e4, e1, e2, _, _⟩ := arc2_rotate_maps M a θ o
  simp only [arc2_p1, e1, e2, e3, e4, hpc, hps, hcos, hsin, h1, h2]
  simp only [p2_rotate]
  ext <;> simp only [] <;> ring

/-- `Arc2D.rotate` maps the END point: `p2 (rotate a) = rotate (p2 a)`, under the same
periodicity / angle-addition hypotheses at the end angle. -/
theorem arc2_rotate_p2 (M : MathOps α) (a : Arc2S α) (θ : α) (o : V2 α) (hc : Arc2Coherent M a)
    (hpc : M.cos (arc2_rotate M a θ o).a2 = M.cos (a.a2 + θ))
    (hps : M.sin (arc2_rotate M a θ o).a2 = M.sin (a.a2 + θ))
    (hcos : M.cos (a.a2 + θ) = M.cos a.a2 * M.cos θ - M.sin a.a2 * M.sin θ)
    (hsin : M.sin (a.a2 + θ) = M.sin a.a2 * M.cos θ + M.cos a.a2 * M.sin θ) :
    arc2_p2 (arc2_rotate M a θ o) = p2_rotate M (arc2_p2 a) θ o := by
  obtain ⟨_, _, h3, h4⟩ := hc
  obtain ⟨e3, e4, _, _, e1, e2⟩ := arc2_rotate_maps M a θ o
  simp only [arc2_p2, e1, e2, e3, e4, hpc, hps, hcos, hsin, h3, h4]
  simp only [p2_rotate]
  ext <;> simp only [] <;> ring

/-! ### `Arc2D.reflect`

A full circle is mapped to the full circle about the mirrored centre.  For any other arc the
library mirrors the two end points, SWAPS them (a reflection reverses orientation, so the mirrored
END point is the new START point) and measures their polar angles about the new centre with the
`acos`-based `Vector2D(1,0).angle_counterclockwise` — the same expression as the kernel
`arc2_a_from_pt`. -/

/-- `Arc2D.reflect` (every input): the centre is the mirrored centre, the radius is kept, and the
cached `cos` / `sin` values agree with the stored new angles. -/
theorem arc2_reflect_maps (M : MathOps α) (a : Arc2S α) (n o : V2 α) :
    (arc2_reflect M a n o).c = p2_reflect a.c n o ∧ (arc2_reflect M a n o).r = a.r ∧
    Arc2Coherent M (arc2_reflect M a n o) := by
  refine ⟨?_, rfl, ?_, ?_, ?_, ?_⟩
  · simp only [arc2_reflect, p2_reflect]
    ext <;> simp only [] <;> split_ifs <;> rfl
  all_goals (simp only [arc2_reflect]; split_ifs <;> rfl)

/-- `Arc2D.reflect` of a FULL CIRCLE: the result is again a full circle (`a1 = 0`, `a2 = 2π`) about
the mirrored centre with the same radius; length and area are unchanged. -/
theorem arc2_reflect_circle (M : MathOps α) (a : Arc2S α) (n o : V2 α) (hc : Arc2IsCircle M a) :
    (arc2_reflect M a n o).a1 = 0 ∧ (arc2_reflect M a n o).a2 = 2 * M.pi ∧
    Arc2IsCircle M (arc2_reflect M a n o) ∧
    (arc2_reflect M a n o).c = p2_reflect a.c n o ∧ (arc2_reflect M a n o).r = a.r ∧
    arc2_length M (arc2_reflect M a n o) = arc2_length M a ∧
    arc2_area M (arc2_reflect M a n o) = arc2_area M a := by
  have hc' := hc
  unfold Arc2IsCircle at hc'
  have e1 : (arc2_reflect M a n o).a1 = 0 := by
    simp only [arc2_reflect, if_pos hc']
  have e2 : (arc2_reflect M a n o).a2 = 2 * M.pi := by
    simp only [arc2_reflect, if_pos hc']
  have er : (arc2_reflect M a n o).r = a.r := rfl
  refine ⟨e1, e2, ⟨e1, e2⟩, (arc2_reflect_maps M a n o).1, er, ?_, ?_⟩
  · simp only [arc2_length, e1, e2, er, hc.1, hc.2]
  · simp only [arc2_area, e1, e2, er, hc.1, hc.2]

/-- `Arc2D.reflect` of a NON-circle: the stored start angle is the polar angle (`arc2_a_from_pt`,
i.e. `Vector2D(1,0).angle_counterclockwise`) of the mirrored old END point about the new centre,
and the stored end angle is the polar angle of the mirrored old START point. -/
theorem arc2_reflect_angles (M : MathOps α) (a : Arc2S α) (n o : V2 α)
    (hnc : ¬ Arc2IsCircle M a) :
    (arc2_reflect M a n o).a1
      = arc2_a_from_pt M (arc2_reflect M a n o) (p2_reflect (arc2_p2 a) n o) ∧
    (arc2_reflect M a n o).a2
      = arc2_a_from_pt M (arc2_reflect M a n o) (p2_reflect (arc2_p1 a) n o) := by
  have hc := (arc2_reflect_maps M a n o).1
  unfold Arc2IsCircle at hnc
  constructor <;>
    (simp only [arc2_a_from_pt, hc]; simp only [arc2_reflect, if_neg hnc]; rfl)

/-- `Arc2D.reflect`: the end points of the result are exactly the mirrored end points, swapped
(`p1' = refl p2`, `p2' = refl p1`), PROVIDED `M.cos` / `M.sin` of the stored angles recover the
direction of the mirrored end points: `r·cos a1' = (refl p2 - c').x`, `r·sin a1' = (refl p2 - c').y`
and likewise for `a2'` (for the real functions this is the defining property of the polar angle of
a point at distance `r` from the centre; see `arc2_reflect_endpoints_of_polar`). -/
theorem arc2_reflect_endpoints (M : MathOps α) (a : Arc2S α) (n o : V2 α)
    (h1c : a.r * M.cos (arc2_reflect M a n o).a1
      = (p2_reflect (arc2_p2 a) n o).x - (arc2_reflect M a n o).c.x)
    (h1s : a.r * M.sin (arc2_reflect M a n o).a1
      = (p2_reflect (arc2_p2 a) n o).y - (arc2_reflect M a n o).c.y)
    (h2c : a.r * M.cos (arc2_reflect M a n o).a2
      = (p2_reflect (arc2_p1 a) n o).x - (arc2_reflect M a n o).c.x)
    (h2s : a.r * M.sin (arc2_reflect M a n o).a2
      = (p2_reflect (arc2_p1 a) n o).y - (arc2_reflect M a n o).c.y) :
    arc2_p1 (arc2_reflect M a n o) = p2_reflect (arc2_p2 a) n o ∧
    arc2_p2 (arc2_reflect M a n o) = p2_reflect (arc2_p1 a) n o := by
  obtain ⟨_, er, d1, d2, d3, d4⟩ := arc2_reflect_maps M a n o
  constructor
  · ext
    · simp only [arc2_p1, d1, er]; linear_combination h1c
    · simp only [arc2_p1, d2, er]; linear_combination h1s
  · ext
    · simp only [arc2_p2, d3, er]; linear_combination h2c
    · simp only [arc2_p2, d4, er]; linear_combination h2s

/-- The polar-angle law relating `acos` (inside `arc2_a_from_pt`) to `cos` / `sin`: for a point
`q` at distance `ρ > 0` from the centre of `b`, the measured angle `φ = arc2_a_from_pt M b q`
satisfies `ρ·cos φ = (q - c).x`, `ρ·sin φ = (q - c).y`.  True for the real functions. -/
def PolarLaw (M : MathOps α) : Prop :=
  ∀ (b : Arc2S α) (q : V2 α) (ρ : α), 0 < ρ → distSq2 q b.c = ρ * ρ →
    ρ * M.cos (arc2_a_from_pt M b q) = q.x - b.c.x ∧
    ρ * M.sin (arc2_a_from_pt M b q) = q.y - b.c.y

/-- `Arc2D.reflect` of a non-circle with positive radius across a mirror with UNIT normal, under
the polar-angle law: the end points of the result are the mirrored end points, swapped.  (The
cached `cos`/`sin` pairs of the input must lie on the unit circle so that its end points are at
distance `r` from the centre.) -/
theorem arc2_reflect_endpoints_of_polar (M : MathOps α) (a : Arc2S α) (n o : V2 α)
    (hpol : PolarLaw M) (hnc : ¬ Arc2IsCircle M a) (hr : 0 < a.r) (hn : V2.normSq n = 1)
    (hu1 : a.cos_a1 * a.cos_a1 + a.sin_a1 * a.sin_a1 = 1)
    (hu2 : a.cos_a2 * a.cos_a2 + a.sin_a2 * a.sin_a2 = 1) :
    arc2_p1 (arc2_reflect M a n o) = p2_reflect (arc2_p2 a) n o ∧
    arc2_p2 (arc2_reflect M a n o) = p2_reflect (arc2_p1 a) n o := by
  obtain ⟨e1, e2⟩ := arc2_reflect_angles M a n o hnc
  have hc := (arc2_reflect_maps M a n o).1
  have hd2 : distSq2 (p2_reflect (arc2_p2 a) n o) (arc2_reflect M a n o).c = a.r * a.r := by
    rw [hc, p2_reflect_distSq _ _ n o hn]
    simp only [distSq2, arc2_p2, V2.sub, V2.normSq]
    linear_combination (a.r * a.r) * hu2
  have hd1 : distSq2 (p2_reflect (arc2_p1 a) n o) (arc2_reflect M a n o).c = a.r * a.r := by
    rw [hc, p2_reflect_distSq _ _ n o hn]
    simp only [distSq2, arc2_p1, V2.sub, V2.normSq]
    linear_combination (a.r * a.r) * hu1
  obtain ⟨p1, p2⟩ := hpol _ _ a.r hr hd2
  obtain ⟨q1, q2⟩ := hpol _ _ a.r hr hd1
  rw [← e1] at p1 p2
  rw [← e2] at q1 q2
  exact arc2_reflect_endpoints M a n o p1 p2 q1 q2

/-- PARTIAL (length preservation of `Arc2D.reflect`).  Full statement wanted: "for every non-circle
arc the swept angle / length of the reflected arc equals the original".  What is proved: this
holds as soon as the two measured angles lie in `[0, 2π)` and are congruent to `ψ - a2`, `ψ - a1`
modulo `2π` for one common `ψ` (for the real functions `ψ = 2ν + π`, `ν` the polar angle of the
mirror normal: reflecting a direction of polar angle `φ` gives polar angle `ψ - φ`).  OBSTACLE:
deriving that congruence needs the analytic relation between `acos`, `cos`, `sin` and `sqrt`
(inverse trigonometry), which is not available for the abstract `MathOps`. -/
theorem arc2_reflect_angle_partial (M : MathOps α) (a : Arc2S α) (n o : V2 α)
    (hpi : 0 < M.pi) (hnc : ¬ Arc2IsCircle M a)
    (h1 : 0 ≤ a.a1 ∧ a.a1 ≤ 2 * M.pi) (h2 : 0 ≤ a.a2 ∧ a.a2 ≤ 2 * M.pi)
    (r1 : 0 ≤ (arc2_reflect M a n o).a1 ∧ (arc2_reflect M a n o).a1 < 2 * M.pi)
    (r2 : 0 ≤ (arc2_reflect M a n o).a2 ∧ (arc2_reflect M a n o).a2 < 2 * M.pi)
    (ψ : α) (n1 n2 : ℤ)
    (e1 : (arc2_reflect M a n o).a1 = ψ - a.a2 - (n1 : α) * (2 * M.pi))
    (e2 : (arc2_reflect M a n o).a2 = ψ - a.a1 - (n2 : α) * (2 * M.pi)) :
    arc2_angle M (arc2_reflect M a n o) = arc2_angle M a ∧
    arc2_length M (arc2_reflect M a n o) = arc2_length M a := by
  have hP : 0 < 2 * M.pi := by linarith
  have key : swept (2 * M.pi) (arc2_reflect M a n o).a1 (arc2_reflect M a n o).a2
      = swept (2 * M.pi) a.a1 a.a2 := by
    refine swept_congr (z := n1 - n2) hP h1 h2 hnc r1 r2 ?_
    rw [e1, e2]; push_cast; ring
  have ha : ∀ b : Arc2S α, arc2_angle M b = swept (2 * M.pi) b.a1 b.a2 := fun b => by
    simp only [arc2_angle, swept]
  have hl : ∀ b : Arc2S α, arc2_length M b = swept (2 * M.pi) b.a1 b.a2 * b.r := fun b => by
    simp only [arc2_length, swept]
  have er : (arc2_reflect M a n o).r = a.r := rfl
  exact ⟨by rw [ha, ha, key], by rw [hl, hl, key, er]⟩

/-- `Arc3D.move`: the supporting plane is `Plane.move` of the old plane, radius and angles are
kept (the in-plane centre is `(0,0)`), and — for a valid plane and in-plane centre `(0,0)` — every
point of the arc (parameter `t`) is moved by the vector. -/
theorem arc3_move_maps (M : MathOps α)
    (h1 : M.sqrt 1 = 1)
    (a : Arc3S α) (mv : V3 α) (hv : PlaneValid a.plane) (hc : a.arc2d.c = ⟨0, 0⟩) :
    (arc3_move M a mv).plane = plane_move M a.plane mv ∧
    (arc3_move M a mv).arc2d = arc2_init M ⟨0, 0⟩ a.arc2d.r a.arc2d.a1 a.arc2d.a2 ∧
    arc3_c (arc3_move M a mv) = p3_move (arc3_c a) mv ∧
    (∀ t, arc3_point_at M (arc3_move M a mv) t = p3_move (arc3_point_at M a t) mv) ∧
    arc3_length M (arc3_move M a mv) = arc3_length M a := by
  have e : arc3_move M a mv
      = ⟨plane_move M a.plane mv, arc2_init M ⟨0, 0⟩ a.arc2d.r a.arc2d.a1 a.arc2d.a2⟩ := rfl
  obtain ⟨ho, _, hx, hy, _, _⟩ := plane_move_valid M h1 a.plane mv hv
  refine ⟨rfl, rfl, ?_, fun t => ?_, rfl⟩
  · simp only [arc3_c, e, ho, p3_move]
  · simp only [arc3_point_at, e, ho, hx, hy, hc, arc2_init, p3_move]
    ext <;> simp only [] <;> ring

/-- `Arc3D.scale`: the supporting plane is `Plane.scale` of the old plane, the radius is multiplied
by the factor, angles are kept, and — for a valid plane and in-plane centre `(0,0)` — every point
of the arc (parameter `t`) is mapped by the scaling; the length is multiplied by `k`. -/
theorem arc3_scale_maps (M : MathOps α)
    (h1 : M.sqrt 1 = 1)
    (a : Arc3S α) (k : α) (o : V3 α) (hv : PlaneValid a.plane) (hc : a.arc2d.c = ⟨0, 0⟩) :
    (arc3_scale M a k o).plane = plane_scale M a.plane k o ∧
    (arc3_scale M a k o).arc2d = arc2_init M ⟨0, 0⟩ (a.arc2d.r * k) a.arc2d.a1 a.arc2d.a2 ∧
    arc3_c (arc3_scale M a k o) = p3_scale (arc3_c a) k o ∧
    (∀ t, arc3_point_at M (arc3_scale M a k o) t = p3_scale (arc3_point_at M a t) k o) ∧
    arc3_length M (arc3_scale M a k o) = k * arc3_length M a := by
  have e : arc3_scale M a k o
      = ⟨plane_scale M a.plane k o, arc2_init M ⟨0, 0⟩ (a.arc2d.r * k) a.arc2d.a1 a.arc2d.a2⟩ := rfl
  obtain ⟨ho, _, hx, hy, _, _⟩ := plane_scale_valid M h1 a.plane k o hv
  refine ⟨rfl, rfl, ?_, fun t => ?_, ?_⟩
  · simp only [arc3_c, e, ho, p3_scale]
  · simp only [arc3_point_at, e, ho, hx, hy, hc, arc2_init, p3_scale]
    ext <;> simp only [] <;> ring
  · simp only [arc3_length, e, arc2_init]; ring

/-- `Arc3D.rotate`: the supporting plane is `Plane.rotate` of the old plane, the 2D arc (radius,
angles, caches; in-plane centre `(0,0)`) is kept, and — for a valid plane and in-plane centre
`(0,0)` — the centre and EVERY point of the arc (parameter `t`) are the rotated originals; the length
is unchanged. -/
theorem arc3_rotate_maps (M : MathOps α) (h1 : M.sqrt 1 = 1)
    (a : Arc3S α) (axis : V3 α) (θ : α) (o : V3 α)
    (hcs : M.cos θ * M.cos θ + M.sin θ * M.sin θ = 1)
    (hr : M.sqrt (V3.normSq axis) * M.sqrt (V3.normSq axis) = V3.normSq axis)
    (h0 : V3.normSq axis ≠ 0) (hv : PlaneValid a.plane) (hc : a.arc2d.c = ⟨0, 0⟩) :
    (arc3_rotate M a axis θ o).plane = plane_rotate M a.plane axis θ o ∧
    (arc3_rotate M a axis θ o).arc2d = arc2_init M ⟨0, 0⟩ a.arc2d.r a.arc2d.a1 a.arc2d.a2 ∧
    arc3_c (arc3_rotate M a axis θ o) = p3_rotate M (arc3_c a) axis θ o ∧
    (∀ t, arc3_point_at M (arc3_rotate M a axis θ o) t
        = p3_rotate M (arc3_point_at M a t) axis θ o) ∧
    arc3_length M (arc3_rotate M a axis θ o) = arc3_length M a := by
  have e : arc3_rotate M a axis θ o
      = ⟨plane_rotate M a.plane axis θ o,
          arc2_init M ⟨0, 0⟩ a.arc2d.r a.arc2d.a1 a.arc2d.a2⟩ := rfl
  obtain ⟨ho, _, hx, hy, _, _⟩ := plane_rotate_valid M h1 a.plane axis θ o hcs hr h0 hv
  refine ⟨rfl, rfl, ?_, fun t => ?_, rfl⟩
  · simp only [arc3_c, e, ho]
  · simp only [arc3_point_at, e, ho, hx, hy, hc, arc2_init]
    simp only [p3_rotate, v3_rotate]
    ext <;> simp only [] <;> ring

/-- `Arc3D.rotate` maps the two end points (valid plane, in-plane centre `(0,0)`, coherent cache):
`p1`, `p2` of the result are the rotated `p1`, `p2`. -/
theorem arc3_rotate_endpoints (M : MathOps α) (h1 : M.sqrt 1 = 1)
    (a : Arc3S α) (axis : V3 α) (θ : α) (o : V3 α)
    (hcs : M.cos θ * M.cos θ + M.sin θ * M.sin θ = 1)
    (hr : M.sqrt (V3.normSq axis) * M.sqrt (V3.normSq axis) = V3.normSq axis)
    (h0 : V3.normSq axis ≠ 0) (hv : PlaneValid a.plane) (hc : a.arc2d.c = ⟨0, 0⟩)
    (hcoh : Arc2Coherent M a.arc2d) :
    arc3_p1 (arc3_rotate M a axis θ o) = p3_rotate M (arc3_p1 a) axis θ o ∧
    arc3_p2 (arc3_rotate M a axis θ o) = p3_rotate M (arc3_p2 a) axis θ o := by
  have e : arc3_rotate M a axis θ o
      = ⟨plane_rotate M a.plane axis θ o,
          arc2_init M ⟨0, 0⟩ a.arc2d.r a.arc2d.a1 a.arc2d.a2⟩ := rfl
  obtain ⟨ho, _, hx, hy, _, _⟩ := plane_rotate_valid M h1 a.plane axis θ o hcs hr h0 hv
  obtain ⟨c1, c2, c3, c4⟩ := hcoh
  constructor <;>
    simp only [arc3_p1, arc3_p2, e, ho, hx, hy, hc, arc2_init, c1, c2, c3, c4] <;>
    simp only [p3_rotate, v3_rotate] <;> ext <;> simp only [] <;> ring

/-- `Arc3D.rotate_xy`: the supporting plane is `Plane.rotate_xy` of the old plane, the 2D arc is
kept, and — for a valid plane and in-plane centre `(0,0)` — the centre and EVERY point of the arc
(parameter `t`) are the rotated originals; the length is unchanged. -/
theorem arc3_rotate_xy_maps (M : MathOps α) (h1 : M.sqrt 1 = 1)
    (a : Arc3S α) (θ : α) (o : V3 α)
    (hcs : M.cos θ * M.cos θ + M.sin θ * M.sin θ = 1)
    (hv : PlaneValid a.plane) (hc : a.arc2d.c = ⟨0, 0⟩) :
    (arc3_rotate_xy M a θ o).plane = plane_rotate_xy M a.plane θ o ∧
    (arc3_rotate_xy M a θ o).arc2d = arc2_init M ⟨0, 0⟩ a.arc2d.r a.arc2d.a1 a.arc2d.a2 ∧
    arc3_c (arc3_rotate_xy M a θ o) = p3_rotate_xy M (arc3_c a) θ o ∧
    (∀ t, arc3_point_at M (arc3_rotate_xy M a θ o) t
        = p3_rotate_xy M (arc3_point_at M a t) θ o) ∧
    arc3_length M (arc3_rotate_xy M a θ o) = arc3_length M a := by
  have e : arc3_rotate_xy M a θ o
      = ⟨plane_rotate_xy M a.plane θ o,
          arc2_init M ⟨0, 0⟩ a.arc2d.r a.arc2d.a1 a.arc2d.a2⟩ := rfl
  obtain ⟨ho, _, hx, hy, _, _⟩ := plane_rotate_xy_valid M h1 a.plane θ o hcs hv
  refine ⟨rfl, rfl, ?_, fun t => ?_, rfl⟩
  · simp only [arc3_c, e, ho]
  · simp only [arc3_point_at, e, ho, hx, hy, hc, arc2_init]
    simp only [p3_rotate_xy, v3_rotate_xy]
    ext <;> simp only [] <;> ring

/-- `Arc3D.rotate_xy` maps the two end points (valid plane, in-plane centre `(0,0)`, coherent
cache). -/
theorem arc3_rotate_xy_endpoints (M : MathOps α) (h1 : M.sqrt 1 = 1)
    (a : Arc3S α) (θ : α) (o : V3 α)
    (hcs : M.cos θ * M.cos θ + M.sin θ * M.sin θ = 1)
    (hv : PlaneValid a.plane) (hc : a.arc2d.c = ⟨0, 0⟩) (hcoh : Arc2Coherent M a.arc2d) :
    arc3_p1 (arc3_rotate_xy M a θ o) = p3_rotate_xy M (arc3_p1 a) θ o ∧
    arc3_p2 (arc3_rotate_xy M a θ o) = p3_rotate_xy M (arc3_p2 a) θ o := by
  have e : arc3_rotate_xy M a θ o
      = ⟨plane_rotate_xy M a.plane θ o,
          arc2_init M ⟨0, 0⟩ a.arc2d.r a.arc2d.a1 a.arc2d.a2⟩ := rfl
  obtain ⟨ho, _, hx, hy, _, _⟩ := plane_rotate_xy_valid M h1 a.plane θ o hcs hv
  obtain ⟨c1, c2, c3, c4⟩ := hcoh
  constructor <;>
    simp only [arc3_p1, arc3_p2, e, ho, hx, hy, hc, arc2_init, c1, c2, c3, c4] <;>
    simp only [p3_rotate_xy, v3_rotate_xy] <;> ext <;> simp only [] <;> ring

/-- `Arc3D.reflect`: the supporting plane is `Plane.reflect` of the old plane (so `y' = -refl y`),
the 2D arc is the old 2D arc mirrored in the in-plane x-axis (`Arc2D.reflect` with normal `(0,1)`
through `(0,0)`: same radius, angles and caches) with in-plane centre `(0,0)`; the 3D centre is the
mirrored centre (valid plane). -/
theorem arc3_reflect_maps (M : MathOps α) (h1 : M.sqrt 1 = 1)
    (a : Arc3S α) (n o : V3 α) (hn : V3.normSq n = 1) (hv : PlaneValid a.plane) :
    (arc3_reflect M a n o).plane = plane_reflect M a.plane n o ∧
    (arc3_reflect M a n o).arc2d.c = ⟨0, 0⟩ ∧
    (arc3_reflect M a n o).arc2d.r = a.arc2d.r ∧
    (arc3_reflect M a n o).arc2d.a1 = (arc2_reflect M a.arc2d ⟨0, 1⟩ ⟨0, 0⟩).a1 ∧
    (arc3_reflect M a n o).arc2d.a2 = (arc2_reflect M a.arc2d ⟨0, 1⟩ ⟨0, 0⟩).a2 ∧
    Arc2Coherent M (arc3_reflect M a n o).arc2d ∧
    arc3_c (arc3_reflect M a n o) = p3_reflect (arc3_c a) n o := by
  have ep : (arc3_reflect M a n o).plane = plane_reflect M a.plane n o := rfl
  obtain ⟨ho, _, _, _, _, _⟩ := plane_reflect_valid M h1 a.plane n o hn hv
  refine ⟨rfl, rfl, rfl, rfl, rfl, ⟨rfl, rfl, rfl, rfl⟩, ?_⟩
  simp only [arc3_c, ep, ho]

/-- `Arc3D.reflect`: the end points of the result are the mirrored end points, swapped
(`p1' = refl p2`, `p2' = refl p1`), for a valid plane, unit mirror normal and in-plane centre
`(0,0)`, PROVIDED `M.cos` / `M.sin` of the stored (acos-measured) angles recover the in-plane
direction of the mirrored 2D end points: `r·cos a1' = cos_a2·r`, `r·sin a1' = -(sin_a2·r)` and
likewise for `a2'` (polar-angle law, cf. `arc2_reflect_endpoints`). -/
theorem arc3_reflect_endpoints (M : MathOps α) (h1 : M.sqrt 1 = 1)
    (a : Arc3S α) (n o : V3 α) (hn : V3.normSq n = 1) (hv : PlaneValid a.plane)
    (hc : a.arc2d.c = ⟨0, 0⟩)
    (p1c : a.arc2d.r * M.cos (arc3_reflect M a n o).arc2d.a1 = a.arc2d.cos_a2 * a.arc2d.r)
    (p1s : a.arc2d.r * M.sin (arc3_reflect M a n o).arc2d.a1 = -(a.arc2d.sin_a2 * a.arc2d.r))
    (p2c : a.arc2d.r * M.cos (arc3_reflect M a n o).arc2d.a2 = a.arc2d.cos_a1 * a.arc2d.r)
    (p2s : a.arc2d.r * M.sin (arc3_reflect M a n o).arc2d.a2 = -(a.arc2d.sin_a1 * a.arc2d.r)) :
    arc3_p1 (arc3_reflect M a n o) = p3_reflect (arc3_p2 a) n o ∧
    arc3_p2 (arc3_reflect M a n o) = p3_reflect (arc3_p1 a) n o := by
  obtain ⟨ep, ec, er, _, _, ⟨d1, d2, d3, d4⟩, _⟩ := arc3_reflect_maps M h1 a n o hn hv
  obtain ⟨ho, _, hx, hy, _, _⟩ := plane_reflect_valid M h1 a.plane n o hn hv
  have hcx : a.arc2d.c.x = 0 := by rw [hc]
  have hcy : a.arc2d.c.y = 0 := by rw [hc]
  have q1c : (arc3_reflect M a n o).arc2d.cos_a1 * a.arc2d.r = a.arc2d.cos_a2 * a.arc2d.r := by
    rw [d1]; linear_combination p1c
  have q1s : (arc3_reflect M a n o).arc2d.sin_a1 * a.arc2d.r = -(a.arc2d.sin_a2 * a.arc2d.r) := by
    rw [d2]; linear_combination p1s
  have q2c : (arc3_reflect M a n o).arc2d.cos_a2 * a.arc2d.r = a.arc2d.cos_a1 * a.arc2d.r := by
    rw [d3]; linear_combination p2c
  have q2s : (arc3_reflect M a n o).arc2d.sin_a2 * a.arc2d.r = -(a.arc2d.sin_a1 * a.arc2d.r) := by
    rw [d4]; linear_combination p2s
  constructor
  · simp only [arc3_p1, arc3_p2, ep, ho, hx, hy, ec, er, hcx, hcy, q1c, q1s]
    simp only [p3_reflect, v3_reflect, V3.neg]
    ext <;> simp only [] <;> ring
  · simp only [arc3_p1, arc3_p2, ep, ho, hx, hy, ec, er, hcx, hcy, q2c, q2s]
    simp only [p3_reflect, v3_reflect, V3.neg]
    ext <;> simp only [] <;> ring

/-! ### E.inv  inverse maps on arcs -/

/-- Moving a (cache-coherent) `Arc2D` back by the reversed vector returns the original. -/
theorem arc2_move_inverse (M : MathOps α) (a : Arc2S α) (mv : V2 α) (hc : Arc2Coherent M a) :
    arc2_move M (arc2_move M a mv) (v2_reverse mv) = a := by
  obtain ⟨h1, h2, h3, h4⟩ := hc
  apply arc2_ext
  · exact p2_move_inverse a.c mv
  · rfl
  · rfl
  · rfl
  · exact h1.symm
  · exact h2.symm
  · exact h3.symm
  · exact h4.symm

/-- Scaling a (cache-coherent) `Arc2D` by `1/k` about the same origin undoes scaling by `k ≠ 0`. -/
theorem arc2_scale_inverse (M : MathOps α) (a : Arc2S α) (k : α) (o : V2 α) (hk : k ≠ 0)
    (hc : Arc2Coherent M a) :
    arc2_scale M (arc2_scale M a k o) (1 / k) o = a := by
  obtain ⟨h1, h2, h3, h4⟩ := hc
  apply arc2_ext
  · exact p2_scale_inverse a.c o k hk
  · show a.r * k * (1 / k) = a.r
    field_simp
  · rfl
  · rfl
  · exact h1.symm
  · exact h2.symm
  · exact h3.symm
  · exact h4.symm

/-- Inverse for `Arc2D.rotate`: rotating back by `-θ` about the same origin returns the original
arc, for ANY `θ`, for a cache-coherent arc that is a full circle or has both angles in `[0, 2π)`
(an end angle stored as exactly `2π` on a non-circle is renormalised to `0` by `rotate`, so it
cannot come back literally), given `cos (-θ) = cos θ`, `sin (-θ) = -sin θ`, the floor law and
integrality of `M.floor`. -/
theorem arc2_rotate_inverse (M : MathOps α) (a : Arc2S α) (θ : α) (o : V2 α)
    (hcs : M.cos θ * M.cos θ + M.sin θ * M.sin θ = 1)
    (hc : M.cos (-θ) = M.cos θ) (hs : M.sin (-θ) = -M.sin θ) (hcoh : Arc2Coherent M a)
    (hfl : ∀ x, M.floor x ≤ x ∧ x < M.floor x + 1) (hint : ∀ x, ∃ n : ℤ, M.floor x = n)
    (hpi : 0 < M.pi)
    (hrange : Arc2IsCircle M a ∨
      ((0 ≤ a.a1 ∧ a.a1 < 2 * M.pi) ∧ (0 ≤ a.a2 ∧ a.a2 < 2 * M.pi))) :
    arc2_rotate M (arc2_rotate M a θ o) (-θ) o = a := by
  have hP : 0 < 2 * M.pi := by linarith
  obtain ⟨c1, c2, c3, c4⟩ := hcoh
  obtain ⟨ec, er, d1, d2, d3, d4⟩ := arc2_rotate_maps M (arc2_rotate M a θ o) (-θ) o
  have hcen : (arc2_rotate M (arc2_rotate M a θ o) (-θ) o).c = a.c := by
    rw [ec, (arc2_rotate_maps M a θ o).1]
    exact p2_rotate_inverse M a.c o θ (-θ) hcs hc hs
  have key : (arc2_rotate M (arc2_rotate M a θ o) (-θ) o).a1 = a.a1 ∧
      (arc2_rotate M (arc2_rotate M a θ o) (-θ) o).a2 = a.a2 := by
    rcases hrange with hcirc | ⟨h1, h2⟩
    · obtain ⟨_, _, hc', _⟩ := arc2_rotate_circle M a θ o hcirc
      obtain ⟨g1, g2, _⟩ := arc2_rotate_circle M (arc2_rotate M a θ o) (-θ) o hc'
      exact ⟨g1.trans hcirc.1.symm, g2.trans hcirc.2.symm⟩
    · have hnc : ¬ Arc2IsCircle M a := fun h => absurd h.2 (ne_of_lt h2.2)
      obtain ⟨e1, e2, _, _, _, _, hnc'⟩ := arc2_rotate_angles M a θ o hfl hpi hnc
      obtain ⟨g1, g2, s1, s2, _, _, _⟩ :=
        arc2_rotate_angles M (arc2_rotate M a θ o) (-θ) o hfl hpi hnc'
      obtain ⟨n1, hn1⟩ := hint ((a.a1 + θ) / (2 * M.pi))
      obtain ⟨n2, hn2⟩ := hint ((a.a2 + θ) / (2 * M.pi))
      obtain ⟨m1, hm1⟩ := hint (((arc2_rotate M a θ o).a1 + -θ) / (2 * M.pi))
      obtain ⟨m2, hm2⟩ := hint (((arc2_rotate M a θ o).a2 + -θ) / (2 * M.pi))
      unfold fmod at e1 e2 g1 g2
      rw [hn1] at e1
      rw [hn2] at e2
      rw [hm1] at g1
      rw [hm2] at g2
      constructor
      · refine eq_of_sub_eq_int_mul (z := -(n1 + m1)) hP s1.1 s1.2 h1.1 h1.2 ?_
        rw [g1, e1]; push_cast; ring
      · refine eq_of_sub_eq_int_mul (z := -(n2 + m2)) hP s2.1 s2.2 h2.1 h2.2 ?_
        rw [g2, e2]; push_cast; ring
  apply arc2_ext
  · exact hcen
  · rfl
  · exact key.1
  · exact key.2
  · rw [d1, key.1, c1]
  · rw [d2, key.1, c2]
  · rw [d3, key.2, c3]
  · rw [d4, key.2, c4]

/-! ## F. Non-vacuity of the hypotheses (concrete instances over ℚ)

`Mq` is a toy `MathOps ℚ`: `cos ≡ 3/5`, `sin 0 = -4/5` (a NEGATIVE angle) and `sin t = 4/5`
otherwise, `sqrt 9 = 3`, `sqrt 1 = 1`, `π := 3`, `floor` the integer floor.  With the axis `(1,2,2)` (length 3, NOT a unit
vector) all hypotheses of the rotation theorems hold simultaneously, so none of the theorems above
is vacuous.  (The full `sqrt` law `∀ x ≥ 0, …` used for the `|k|`-scaling of lengths cannot hold
over ℚ; it holds over ℝ with `Real.sqrt`, see `Props/C02Real.lean`.) -/

/-- Toy math operations over ℚ for the examples below. -/
def Mq : MathOps ℚ where
  sqrt := fun x => if x = 9 then 3 else if x = 1 then 1 else 0
  sin := fun t => if t = 0 then -4 / 5 else 4 / 5
  cos := fun _ => 3 / 5
  tan := fun _ => 0
  acos := fun _ => 0
  asin := fun _ => 0
  atan2 := fun _ _ => 0
  pi := 3
  floor := fun x => ((⌊x⌋ : ℤ) : ℚ)

/-- `hcs`, `hr`, `h0`, `h1` and the inverse-angle hypotheses `hc`, `hs` hold together for `Mq`,
the axis `(1,2,2)`, `θ = 0`, `φ = 1`. -/
example :
    (Mq.cos 0 * Mq.cos 0 + Mq.sin 0 * Mq.sin 0 = 1) ∧
    (Mq.sqrt (V3.normSq (⟨1, 2, 2⟩ : V3 ℚ)) * Mq.sqrt (V3.normSq (⟨1, 2, 2⟩ : V3 ℚ))
        = V3.normSq (⟨1, 2, 2⟩ : V3 ℚ)) ∧
    (V3.normSq (⟨1, 2, 2⟩ : V3 ℚ) ≠ 0) ∧ (Mq.sqrt 1 = 1) ∧
    (Mq.cos 1 = Mq.cos 0) ∧ (Mq.sin 1 = -Mq.sin 0) := by
  decide +kernel

/-- Unit mirror normals exist over ℚ (2D and 3D). -/
example : V2.normSq (⟨3 / 5, 4 / 5⟩ : V2 ℚ) = 1 ∧ V3.normSq (⟨1 / 3, 2 / 3, 2 / 3⟩ : V3 ℚ) = 1 := by
  decide +kernel

/-- Sanity check by evaluation: rotating `(1,0,0)` about the non-unit axis `(1,2,2)` with
`cos = 3/5`, `sin = -4/5` gives a rational vector of squared length 1 that has the same component
along the axis, and rotating back returns `(1,0,0)`. -/
example :
    v3_rotate Mq ⟨1, 0, 0⟩ ⟨1, 2, 2⟩ 0 = ⟨29 / 45, -4 / 9, 28 / 45⟩ ∧
    V3.normSq (v3_rotate Mq ⟨1, 0, 0⟩ ⟨1, 2, 2⟩ 0) = 1 ∧
    V3.dot ⟨1, 2, 2⟩ (v3_rotate Mq ⟨1, 0, 0⟩ ⟨1, 2, 2⟩ 0) = 1 ∧
    v3_rotate Mq (v3_rotate Mq ⟨1, 0, 0⟩ ⟨1, 2, 2⟩ 0) ⟨1, 2, 2⟩ 1 = ⟨1, 0, 0⟩ := by
  decide +kernel

/-- A valid plane over ℚ (world XY plane through `(1,2,3)`), and the rotated plane computed by the
kernel is the expected one. -/
example : PlaneValid (⟨⟨0, 0, 1⟩, ⟨1, 2, 3⟩, 3, ⟨1, 0, 0⟩, ⟨0, 1, 0⟩⟩ : PlaneS ℚ) := by
  refine ⟨?_, ?_, ?_, ?_, ?_⟩ <;> decide +kernel

/-- The floor law, integrality of `floor` and `0 < π` hold for `Mq`. -/
example :
    (∀ x : ℚ, Mq.floor x ≤ x ∧ x < Mq.floor x + 1) ∧ (∀ x : ℚ, ∃ n : ℤ, Mq.floor x = n) ∧
    0 < Mq.pi :=
  ⟨fun x => ⟨Int.floor_le x, Int.lt_floor_add_one x⟩, fun x => ⟨⌊x⌋, rfl⟩, by decide +kernel⟩

/-- A cache-coherent, valid, non-circle arc exists (`a1 = 1`, `a2 = 4`, `π := 3`); rotating it by
the NEGATIVE angle `-2` (and by `+11 > 2π`) gives angles reduced into `[0, 6)`; a full circle stays
a full circle. -/
example :
    Arc2Coherent Mq (arc2_init Mq ⟨0, 0⟩ 1 1 4) ∧ ¬ Arc2IsCircle Mq (arc2_init Mq ⟨0, 0⟩ 1 1 4) ∧
    (arc2_rotate Mq (arc2_init Mq ⟨0, 0⟩ 1 1 4) (-2) ⟨0, 0⟩).a1 = 5 ∧
    (arc2_rotate Mq (arc2_init Mq ⟨0, 0⟩ 1 1 4) (-2) ⟨0, 0⟩).a2 = 2 ∧
    (arc2_rotate Mq (arc2_init Mq ⟨0, 0⟩ 1 1 4) 11 ⟨0, 0⟩).a1 = 0 ∧
    (arc2_rotate Mq (arc2_init Mq ⟨0, 0⟩ 1 1 4) 11 ⟨0, 0⟩).a2 = 3 ∧
    arc2_angle Mq (arc2_rotate Mq (arc2_init Mq ⟨0, 0⟩ 1 1 4) (-2) ⟨0, 0⟩) = 3 ∧
    Arc2IsCircle Mq (arc2_rotate Mq (arc2_init Mq ⟨0, 0⟩ 1 0 6) (-2) ⟨0, 0⟩) := by
  unfold Arc2Coherent Arc2IsCircle
  decide +kernel

/-- Points satisfying the membership predicates exist (unit sphere / cylinder / cone at the
origin over ℚ). -/
example :
    OnSphere (⟨⟨0, 0, 0⟩, 1⟩ : SphereS ℚ) ⟨3 / 5, 4 / 5, 0⟩ ∧
    InCyl (⟨⟨0, 0, 0⟩, ⟨0, 0, 2⟩, 1⟩ : CylS ℚ) ⟨1 / 2, 0, 1⟩ ∧
    InCone Mq (⟨⟨0, 0, 0⟩, ⟨0, 0, 2⟩, 0⟩ : ConeS ℚ) ⟨0, 0, 1⟩ := by
  unfold OnSphere InCyl InCone distSq3
  decide +kernel

/-- `Arc2D.reflect` evaluated over ℚ: a full circle about `(1,2)` mirrored in the x-axis is the full
circle about `(1,-2)` with the same radius. -/
example :
    Arc2IsCircle Mq (arc2_reflect Mq (arc2_init Mq ⟨1, 2⟩ 1 0 6) ⟨0, 1⟩ ⟨0, 0⟩) ∧
    (arc2_reflect Mq (arc2_init Mq ⟨1, 2⟩ 1 0 6) ⟨0, 1⟩ ⟨0, 0⟩).c = ⟨1, -2⟩ ∧
    (arc2_reflect Mq (arc2_init Mq ⟨1, 2⟩ 1 0 6) ⟨0, 1⟩ ⟨0, 0⟩).r = 1 := by
  unfold Arc2IsCircle
  decide +kernel

end Lbg.Props.C02
