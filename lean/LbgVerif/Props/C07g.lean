/-
  C07g — solids / polyfaces: ties between GENERATED definitions and the literal hand models used
  by `Props/C07`, `Props/C07b` (`Model/Outward.lean`: `Face3D` helpers of
  `Polyface3D.get_outward_faces / is_point_inside / volume`; `Model/PolyfaceCache.lean`: the
  `Base2DIn3D` box of a polyface; `Model/MeshCache3.lean`).

  The only generated kernel registered for C07 is `plane_is_point_above`
  (`geometry3d.plane:Plane.is_point_above`); the edge-incidence loop `Model/EdgeInfo.lean`
  (`Polyface3D.__init__`, `MeshBase._compute_edge_info`) has NO generated counterpart (the
  translator does not cover it), so nothing can be tied there.  What is tied here are the
  `Face3D` / `Base2DIn3D` kernels the hand models of C07b re-implement or call:

    * `plane_is_point_above`                      — the predicate `C07.PointsAwayFrom` (a face points
      away from `c` iff `c` is above the flipped plane), with `C07.volume_pos_of_outward` transported;
    * `face3d_polygon2d`, `face3d_boundary_polygon2d` = `Outward.poly2d`;
    * `face3d_area`                               = `Outward.area`;
    * `face3d_center`, `base2d3_center`           = `Outward.center`;
    * `base2d3_calculate_min_max / min / max / center` = `PolylineCache.calcMinMax3` and the
      getters `PolyfaceCache.readMin / readMax / readCenter` of a polyface with empty slots;
    * `polygon2d_is_point_inside_bound_rect` inside `Outward.intersectRay` (through `Props/C08g`):
      `Face3D.intersect_line_ray` written with generated kernels only;
    * `face3d_inward_pointing_vec`                = `Outward.inwardPointingVec` — PARTIAL: the
      generated kernel has no `ZeroDivisionError` exit and no `except ValueError` clamp of
      `Vector3D.angle`; the tie needs the two edge vectors non-zero and the cosine in `[-1, 1]`;
    * `mesh3d_normal_area_tri / quad`             = `MeshCache3.faceNA` (`rfl`: called literally).
-/
import LbgVerif.Gen.Plane
import LbgVerif.Gen.FaceMore
import LbgVerif.Gen.Base2D
import LbgVerif.Gen.Mesh
import LbgVerif.Gen.PolyMore
import LbgVerif.Model.Outward
import LbgVerif.Model.PolyfaceCache
import LbgVerif.Model.MeshCache3
import LbgVerif.Lemmas.GenTiesC07
import LbgVerif.Props.C07
import LbgVerif.Props.C07b
import LbgVerif.Props.C08g
import LbgVerif.Props.C10g
import Mathlib.Tactic.Linarith
import Mathlib.Tactic.Ring
import Mathlib.Tactic.SplitIfs
import Mathlib.Algebra.Order.Field.Rat

set_option linter.unusedSectionVars false

namespace Lbg.Props.C07g
open Lbg Lbg.Gen Lbg.Lemmas Lbg.Lemmas.GenTiesC07 Lbg.Model Lbg.Model.Outward
open Lbg.Props.C01 (vol areaVec volTerm)
open Lbg.Props.C07 (PointsAwayFrom)
open Lbg.Props.C10 (minMax3)
variable {α : Type} [Field α] [LinearOrder α] [IsStrictOrderedRing α]

/-! ### `Plane.is_point_above` -/

/-- Generated `Plane.is_point_above(point)`: the signed distance `n · (point − o)` is positive. -/
theorem plane_is_point_above_eq (pl : PlaneS α) (q : V3 α) :
    plane_is_point_above pl q = decide (0 < V3.dot pl.n (V3.sub q pl.o)) := rfl

/-- The plane with the normal reversed (`Plane.flip` keeps `o`; only `n`, `o` matter here). -/
def flipN (pl : PlaneS α) : PlaneS α := { pl with n := V3.neg pl.n }

/-- Generated `Plane.is_point_above(point)` holds iff `n · (point − o) > 0`. -/
theorem plane_is_point_above_iff (pl : PlaneS α) (q : V3 α) :
    plane_is_point_above pl q = true ↔ 0 < V3.dot pl.n (V3.sub q pl.o) := by
  rw [plane_is_point_above_eq]; exact decide_eq_true_iff

/-- A point is never above both a plane and its flip; it is above neither exactly when it lies
in the plane. -/
theorem plane_is_point_above_flip (pl : PlaneS α) (q : V3 α) :
    (plane_is_point_above pl q = true → plane_is_point_above (flipN pl) q = false) ∧
    ((plane_is_point_above pl q = false ∧ plane_is_point_above (flipN pl) q = false) ↔
      V3.dot pl.n (V3.sub q pl.o) = 0) := by
  simp only [← Bool.not_eq_true, plane_is_point_above_iff]
  simp only [flipN, V3.dot, V3.sub, V3.neg, not_lt]
  constructor
  · intro h; linarith
  · constructor
    · rintro ⟨h1, h2⟩; linarith
    · intro h; constructor <;> linarith

/-- TIE: the predicate `C07.PointsAwayFrom c (p, n, A)` of the volume theorems (a face of
positive area `A` lying in the plane `pl`, start vertex `p` on the plane) is the generated
`Plane.is_point_above` of the FLIPPED plane at `c`: the face points away from `c` iff `c` is
strictly below the face's plane. -/
theorem pointsAwayFrom_iff_above_flip (pl : PlaneS α) (p c : V3 α) (A : α) (hA : 0 < A)
    (hp : V3.dot pl.n (V3.sub p pl.o) = 0) :
    PointsAwayFrom c (p, pl.n, A) ↔ plane_is_point_above (flipN pl) c = true := by
  rw [plane_is_point_above_iff]
  simp only [PointsAwayFrom, flipN, V3.dot, V3.sub, V3.neg] at hp ⊢
  rw [mul_pos_iff_of_pos_right hA]
  constructor <;> intro h <;> linarith

/-- COROLLARY (`C07.volume_pos_of_outward` with the generated predicate): a closed surface
(`Σ Aᵢ nᵢ = 0`) given by faces `(plane, start vertex on the plane, positive area)` such that one
point `c` is below every face's plane — generated `is_point_above` of the flipped plane — has
a strictly positive divergence volume. -/
theorem volume_pos_of_is_point_above (faces : List (PlaneS α × V3 α × α)) (c : V3 α)
    (hne : faces ≠ [])
    (hclosed : areaVec (faces.map (fun f => (f.2.1, f.1.n, f.2.2))) = ⟨0, 0, 0⟩)
    (hA : ∀ f ∈ faces, 0 < f.2.2)
    (hon : ∀ f ∈ faces, V3.dot f.1.n (V3.sub f.2.1 f.1.o) = 0)
    (hbelow : ∀ f ∈ faces, plane_is_point_above (flipN f.1) c = true) :
    0 < vol (faces.map (fun f => (f.2.1, f.1.n, f.2.2))) := by
  apply C07.volume_pos_of_outward _ c hclosed (by simpa using hne)
  intro g hg
  obtain ⟨f, hf, rfl⟩ := List.mem_map.1 hg
  exact (pointsAwayFrom_iff_above_flip f.1 f.2.1 c f.2.2 (hA f hf) (hon f hf)).2 (hbelow f hf)

/-! ### `Face3D` helpers of `Model/Outward.lean` -/

/-- TIE: generated `Face3D.polygon2d` / `Face3D.boundary_polygon2d` (face without holes) = hand
model `Outward.poly2d` (`map` of the generated `Plane.xyz_to_xy`). -/
theorem face3d_polygon2d_eq_model (f : Face α) :
    face3d_polygon2d f.verts f.plane = poly2d f ∧
    face3d_boundary_polygon2d f.verts f.plane = poly2d f := ⟨rfl, rfl⟩

/-- TIE: generated `Face3D.area` = hand model `Outward.area` (`polygon2d.area` of the projected
vertices). -/
theorem face3d_area_eq_model (f : Face α) : face3d_area f.verts f.plane = area f := rfl

/-- The generated `Face3D.center` is the generated `Base2DIn3D.center` (two Python functions,
same scan). -/
theorem face3d_center_eq_base2d (vs : List (V3 α)) (pl : PlaneS α) :
    face3d_center vs pl = base2d3_center vs := rfl

/-- TIE: generated `Base2DIn3D.center` / `Face3D.center` = hand model `Outward.center` (the
fallback point of `_point_on_face`), for a non-empty vertex list. -/
theorem base2d3_center_eq_model (v0 : V3 α) (rest : List (V3 α)) (pl : PlaneS α) :
    base2d3_center (v0 :: rest) = center (v0 :: rest) ∧
    face3d_center (v0 :: rest) pl = center (v0 :: rest) := by
  have e : base2d3_center (v0 :: rest) = center (v0 :: rest) := by
    rw [outward_center_cons, C10g.base2d3_center_eq, (C10g.base2d3_min_max_eq _).1,
      (C10g.base2d3_min_max_eq _).2, C10g.base2d3_calculate_min_max_eq]
  exact ⟨e, e⟩

/-- TIE: `Face3D.intersect_line_ray(ray)` of the hand model (`Outward.intersectRay`) written with
generated kernels only: the generated line/plane intersection, the generated `xyz_to_xy`, and the
generated `Polygon2D.is_point_inside_bound_rect` on the generated `Face3D.polygon2d`. -/
theorem intersectRay_eq_generated (f : Face α) (hne : f.verts ≠ []) (ray : LR3 α) :
    intersectRay f ray =
      match intersect_line3d_plane_r ray f.plane with
      | none => none
      | some q =>
        if polygon2d_is_point_inside_bound_rect (face3d_polygon2d f.verts f.plane)
            (plane_xyz_to_xy f.plane q) testVector2 = true then some q else none := by
  obtain ⟨vs, pl⟩ := f
  obtain ⟨v0, rest, rfl⟩ := List.exists_cons_of_ne_nil hne
  unfold intersectRay
  have e : face3d_polygon2d (v0 :: rest) pl =
      plane_xyz_to_xy pl v0 :: rest.map (plane_xyz_to_xy pl) := rfl
  have e' : poly2d (⟨v0 :: rest, pl⟩ : Face α) =
      plane_xyz_to_xy pl v0 :: rest.map (plane_xyz_to_xy pl) := rfl
  simp only [e, e', C08g.polygon2d_is_point_inside_bound_rect_eq_model]
  rfl

/-- COROLLARY (`C07b.ray_hits_iff` read on generated kernels): the hit test of
`get_outward_faces` / `is_point_inside` for one face is "the generated line/plane intersection
exists and the generated bounding-rectangle point test accepts its plane coordinates". -/
theorem rayHits_iff_generated (f : Face α) (hne : f.verts ≠ []) (ray : LR3 α) :
    rayHits ray f = true ↔
      ∃ q, intersect_line3d_plane_r ray f.plane = some q ∧
        polygon2d_is_point_inside_bound_rect (face3d_polygon2d f.verts f.plane)
          (plane_xyz_to_xy f.plane q) testVector2 = true := by
  unfold rayHits
  rw [intersectRay_eq_generated f hne]
  cases h : intersect_line3d_plane_r ray f.plane with
  | none => simp
  | some q =>
    simp only [Option.some.injEq, exists_eq_left']
    split_ifs with hb <;> simp [hb]

/-- TIE: the volume loop of the hand model (`Outward.volume`, `Polyface3D.volume`) accumulates
the generated `Vector3D.dot` times the generated `Face3D.area`. -/
theorem volume_eq_generated (faces : List (Face α)) :
    volume faces =
      (faces.foldl (fun v f =>
        v + v3_dot (f.verts.head?.getD ⟨0, 0, 0⟩) f.plane.n * face3d_area f.verts f.plane) 0) / 3 :=
  rfl

/-- COROLLARY (`C07b.volume_perm` on generated kernels): the generated-kernel volume sum does not
depend on the order of the faces. -/
theorem volume_generated_perm (fs gs : List (Face α)) (h : fs.Perm gs) :
    (fs.foldl (fun v f =>
        v + v3_dot (f.verts.head?.getD ⟨0, 0, 0⟩) f.plane.n * face3d_area f.verts f.plane) 0) / 3 =
    (gs.foldl (fun v f =>
        v + v3_dot (f.verts.head?.getD ⟨0, 0, 0⟩) f.plane.n * face3d_area f.verts f.plane) 0) / 3 := by
  rw [← volume_eq_generated, ← volume_eq_generated]
  exact C07b.volume_perm fs gs h

/-- TIE (PARTIAL): generated `Face3D._inward_pointing_vec(face)` = hand model
`Outward.inwardPointingVec` when `Vector3D.angle` neither divides by zero nor leaves the domain
of `acos`.  Full statement (false): `inwardPointingVec M vs pl.n = some (face3d_inward_pointing_vec
M vs pl)` under `3 ≤ vs.length` only — the hand model returns `none` (`ZeroDivisionError`, caught
by `_point_on_face`) when one of the two edge vectors at `boundary[0]` is zero, and clamps the
cosine (`except ValueError`), where the generated kernel evaluates `acos (x / 0)` / `acos` outside
`[-1, 1]`. -/
theorem face3d_inward_pointing_vec_eq_model_partial (M : MathOps α) (vs : List (V3 α))
    (pl : PlaneS α)
    (hm : v3_magnitude M (V3.sub (vs.getLast?.getD ⟨0, 0, 0⟩) (vs.head?.getD ⟨0, 0, 0⟩)) *
          v3_magnitude M (V3.sub (vs.getD 1 ⟨0, 0, 0⟩) (vs.head?.getD ⟨0, 0, 0⟩)) ≠ 0)
    (hc : ¬ (v3_dot (V3.sub (vs.getLast?.getD ⟨0, 0, 0⟩) (vs.head?.getD ⟨0, 0, 0⟩))
              (V3.sub (vs.getD 1 ⟨0, 0, 0⟩) (vs.head?.getD ⟨0, 0, 0⟩)) /
            (v3_magnitude M (V3.sub (vs.getLast?.getD ⟨0, 0, 0⟩) (vs.head?.getD ⟨0, 0, 0⟩)) *
             v3_magnitude M (V3.sub (vs.getD 1 ⟨0, 0, 0⟩) (vs.head?.getD ⟨0, 0, 0⟩))) < -1 ∨
          1 < v3_dot (V3.sub (vs.getLast?.getD ⟨0, 0, 0⟩) (vs.head?.getD ⟨0, 0, 0⟩))
              (V3.sub (vs.getD 1 ⟨0, 0, 0⟩) (vs.head?.getD ⟨0, 0, 0⟩)) /
            (v3_magnitude M (V3.sub (vs.getLast?.getD ⟨0, 0, 0⟩) (vs.head?.getD ⟨0, 0, 0⟩)) *
             v3_magnitude M (V3.sub (vs.getD 1 ⟨0, 0, 0⟩) (vs.head?.getD ⟨0, 0, 0⟩))))) :
    inwardPointingVec M vs pl.n = some (face3d_inward_pointing_vec M vs pl) := by
  have key : ∀ (C : Prop) [Decidable C] (A B : V3 α), (if C then some A else some B) =
      some (⟨if C then A.x else B.x, if C then A.y else B.y, if C then A.z else B.z⟩ : V3 α) := by
    intro C _ A B; split_ifs <;> rfl
  unfold inwardPointingVec angle
  simp only [hm, hc, if_false]
  rw [key]
  unfold face3d_inward_pointing_vec
  simp only [List.getLastD_eq_getLast?, List.headD_eq_head?_getD]
  rfl

/-! ### The box of a polyface (`Model/PolyfaceCache.lean`, `Base2DIn3D`) -/

/-- TIE: generated `Base2DIn3D._calculate_min_max` (inherited by `Polyface3D`, `Polyline3D`) =
hand model `PolylineCache.calcMinMax3` used by `PolyfaceCache.readMin / readMax`. -/
theorem base2d3_calculate_min_max_eq_model (v0 : V3 α) (rest : List (V3 α)) :
    base2d3_calculate_min_max (v0 :: rest) = PolylineCache.calcMinMax3 (v0 :: rest) := by
  rw [C10g.base2d3_calculate_min_max_eq, calcMinMax3_cons]

/-- TIE: generated `Base2DIn3D.min`, `.max`, `.center` = what the hand model's memoising getters
`PolyfaceCache.readMin / readMax / readCenter` return on a polyface whose slots are empty. -/
theorem polyface_min_max_center_eq_model (v0 : V3 α) (rest : List (V3 α))
    (fi : List (List (List Nat))) :
    base2d3_min (v0 :: rest) = (PolyfaceCache.readMin (PolyfaceCache.freshPf (v0 :: rest) fi)).1 ∧
    base2d3_max (v0 :: rest) = (PolyfaceCache.readMax (PolyfaceCache.freshPf (v0 :: rest) fi)).1 ∧
    base2d3_center (v0 :: rest) =
      (PolyfaceCache.readCenter (PolyfaceCache.freshPf (v0 :: rest) fi)).1 := by
  have e := base2d3_calculate_min_max_eq_model v0 rest
  refine ⟨?_, ?_, ?_⟩
  · rw [(C10g.base2d3_min_max_eq _).1, e]; rfl
  · rw [(C10g.base2d3_min_max_eq _).2, e]; rfl
  · rw [C10g.base2d3_center_eq, (C10g.base2d3_min_max_eq _).1, (C10g.base2d3_min_max_eq _).2, e]
    rfl

/-- TIE (`rfl`): the hand model `PolyfaceCache.edgesOf` builds every edge with the generated
`LineSegment3D.from_end_points`; `MeshCache3.faceNA` is the generated
`_calculate_normal_and_area_for_triangle / _for_quad`. -/
theorem polyface_edges_and_faceNA_generated (M : MathOps α) (s : PolyfaceCache.PfC α)
    (a b c d : V3 α) :
    PolyfaceCache.edgesOf s = s.edge_indices.map (fun e =>
      seg3_from_end_points (s.vertices.getD e.1 ⟨0, 0, 0⟩) (s.vertices.getD e.2 ⟨0, 0, 0⟩)) ∧
    MeshCache3.faceNA M [a, b, c] = mesh3d_normal_area_tri M (a, b, c) ∧
    MeshCache3.faceNA M [a, b, c, d] = mesh3d_normal_area_quad M (a, b, c, d) := ⟨rfl, rfl, rfl⟩

/-! ### Non-vacuity (ℚ) -/

/-- The plane `z = 1` with normal `+z`: `(0, 0, 2)` is above, `(0, 0, 0)` is not; the centre of
the unit cube is below the top face's plane, i.e. above the flipped one. -/
example : plane_is_point_above (⟨⟨0, 0, 1⟩, ⟨0, 0, 1⟩, 1, ⟨1, 0, 0⟩, ⟨0, 1, 0⟩⟩ : PlaneS ℚ)
    ⟨0, 0, 2⟩ = true := by decide +kernel

example : plane_is_point_above (flipN (⟨⟨0, 0, 1⟩, ⟨0, 0, 1⟩, 1, ⟨1, 0, 0⟩, ⟨0, 1, 0⟩⟩ : PlaneS ℚ))
    ⟨1 / 2, 1 / 2, 1 / 2⟩ = true := by decide +kernel

/-- The unit square in the plane `z = 1`: generated area `1`, generated centre `(1/2, 1/2, 1)`. -/
example : face3d_area ([⟨0, 0, 1⟩, ⟨1, 0, 1⟩, ⟨1, 1, 1⟩, ⟨0, 1, 1⟩] : List (V3 ℚ))
    ⟨⟨0, 0, 1⟩, ⟨0, 0, 1⟩, 1, ⟨1, 0, 0⟩, ⟨0, 1, 0⟩⟩ = 1 := by decide +kernel

example : face3d_center ([⟨0, 0, 1⟩, ⟨1, 0, 1⟩, ⟨1, 1, 1⟩, ⟨0, 1, 1⟩] : List (V3 ℚ))
    ⟨⟨0, 0, 1⟩, ⟨0, 0, 1⟩, 1, ⟨1, 0, 0⟩, ⟨0, 1, 0⟩⟩ = ⟨1 / 2, 1 / 2, 1⟩ := by decide +kernel

/-- A vertical ray through the square hits it (hand model's `rayHits`, hence — by
`rayHits_iff_generated` — the generated kernels accept it). -/
example : rayHits (⟨⟨1 / 2, 1 / 3, 0⟩, ⟨0, 0, 1⟩⟩ : LR3 ℚ)
    ⟨[⟨0, 0, 1⟩, ⟨1, 0, 1⟩, ⟨1, 1, 1⟩, ⟨0, 1, 1⟩], ⟨⟨0, 0, 1⟩, ⟨0, 0, 1⟩, 1, ⟨1, 0, 0⟩, ⟨0, 1, 0⟩⟩⟩
    = true := by decide +kernel

/-- WITNESS of the gap closed by the hypotheses of `face3d_inward_pointing_vec_eq_model_partial`:
on the degenerate loop `(0,0,0), (1,0,0), (0,0,0)` (last vertex = first, so `v1 = 0`) the hand
model reports `ZeroDivisionError` (`none`) — as the real `Face3D._inward_pointing_vec` does
(`ZeroDivisionError: float division by zero`, caught by `_point_on_face`) — while the generated
kernel, which has no error exit and no registered `≠ 0` assumption, evaluates `acos (0 / 0)` with
`x / 0 = 0` and returns `(1, 0, 0)`. -/
example : inwardPointingVec ratOps ([⟨0, 0, 0⟩, ⟨1, 0, 0⟩, ⟨0, 0, 0⟩] : List (V3 ℚ)) ⟨0, 0, 1⟩ = none ∧
    face3d_inward_pointing_vec ratOps ([⟨0, 0, 0⟩, ⟨1, 0, 0⟩, ⟨0, 0, 0⟩] : List (V3 ℚ))
      ⟨⟨0, 0, 1⟩, ⟨0, 0, 0⟩, 0, ⟨1, 0, 0⟩, ⟨0, 1, 0⟩⟩ = ⟨1, 0, 0⟩ := by decide +kernel

/-- The hypotheses of the partial tie are satisfiable: a right angle at `boundary[0]`. -/
example : inwardPointingVec ratOps ([⟨0, 0, 0⟩, ⟨3, 0, 0⟩, ⟨0, 4, 0⟩] : List (V3 ℚ)) ⟨0, 0, 1⟩ =
    some (face3d_inward_pointing_vec ratOps ([⟨0, 0, 0⟩, ⟨3, 0, 0⟩, ⟨0, 4, 0⟩] : List (V3 ℚ))
      ⟨⟨0, 0, 1⟩, ⟨0, 0, 0⟩, 0, ⟨1, 0, 0⟩, ⟨0, 1, 0⟩⟩) := by decide +kernel

end Lbg.Props.C07g
