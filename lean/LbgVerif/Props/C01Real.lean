/-
  C01 / C16 — joint non-vacuity of the hypotheses over ℝ.

  The planar-quad theorems assume the `sqrt` law (impossible over ℚ), an orthonormal frame and
  the interior-diagonal condition.  Here all of them are discharged together for a concrete
  tilted plane and the witness quad of the historical `Mesh3D` defect, with `Real.sqrt`
  (`C02.Mr`).  Only `example`s, no new theorems; separate file because of the heavier import.
-/
import LbgVerif.Props.C01
import LbgVerif.Props.C16
import LbgVerif.Props.C02Real

namespace Lbg.Props.C01
open Lbg Lbg.Gen Lbg.Lemmas

/-- The `sqrt` law for `Real.sqrt`. -/
theorem real_sqrt_law :
    ∀ x : ℝ, 0 ≤ x → C02.Mr.sqrt x * C02.Mr.sqrt x = x ∧ 0 ≤ C02.Mr.sqrt x :=
  fun x hx => ⟨Real.mul_self_sqrt hx, Real.sqrt_nonneg x⟩

/-- The convex, non-parallelogram quad `(0,0),(4,0),(3,2),(0,1)` placed in the tilted plane with
origin `(1,2,3)`, `x = (3/5, 4/5, 0)`, `y = (0, 0, 1)`: the generated `Mesh3D` quad kernel (with the
real square root) reports the exact area `11/2` (the defective pairing of triangles gave `15/2`)
and the unit normal `x × y = (4/5, -3/5, 0)`. -/
example :
    (mesh3d_normal_area_quad C02.Mr
      (lift (⟨1, 2, 3⟩ : V3 ℝ) ⟨3 / 5, 4 / 5, 0⟩ ⟨0, 0, 1⟩ ⟨0, 0⟩,
       lift (⟨1, 2, 3⟩ : V3 ℝ) ⟨3 / 5, 4 / 5, 0⟩ ⟨0, 0, 1⟩ ⟨4, 0⟩,
       lift (⟨1, 2, 3⟩ : V3 ℝ) ⟨3 / 5, 4 / 5, 0⟩ ⟨0, 0, 1⟩ ⟨3, 2⟩,
       lift (⟨1, 2, 3⟩ : V3 ℝ) ⟨3 / 5, 4 / 5, 0⟩ ⟨0, 0, 1⟩ ⟨0, 1⟩)) =
      (⟨4 / 5, -3 / 5, 0⟩, 11 / 2) := by
  have hS : shoelace ([⟨0, 0⟩, ⟨4, 0⟩, ⟨3, 2⟩, ⟨0, 1⟩] : List (V2 ℝ)) = 11 := by
    rw [shoelace_quad]; norm_num [V2.det, V2.sub]
  obtain ⟨hA, _, _, hN, _, _⟩ := mesh3d_normal_area_quad_planar C02.Mr real_sqrt_law
    (⟨1, 2, 3⟩ : V3 ℝ) ⟨3 / 5, 4 / 5, 0⟩ ⟨0, 0, 1⟩
    (by norm_num [V3.normSq]) (by norm_num [V3.normSq]) (by norm_num [V3.dot])
    ⟨0, 0⟩ ⟨4, 0⟩ ⟨3, 2⟩ ⟨0, 1⟩
    (Or.inl ⟨by norm_num [triSigned, V2.det, V2.sub], by norm_num [triSigned, V2.det, V2.sub]⟩)
  refine Prod.ext ?_ ?_
  · rw [hN (by rw [hS]; norm_num)]
    apply V3.ext' <;> norm_num [V3.cross]
  · rw [hA, hS]; norm_num

end Lbg.Props.C01
