/-
  C09g — theorems about further GENERATED definitions (second translator generation):
  `Face3D` members without holes (`Gen/FaceMore.lean`), `projection.project_geometry` on
  homogeneous lists (`Gen/Project.lean`), `BooleanPoint.__calc_along_using_value`
  (`Gen/BoolMore.lean`), earcut's `_locally_inside` (`Gen/TriMore.lean`).

  * `face3d_calculate_min_max_eq`: `Face3D._calculate_min_max` (its own copy of the loop, over
    `boundary`) is the generated `Base2DIn3D` scan, hence `C10.minMax3`;
  * `face3d_normal_eq`, `face3d_is_horizontal_eq`: `normal` is the plane normal,
    `is_horizontal` compares the generated box's z-extent with the tolerance;
  * `face3d_is_coplanar_iff`: `is_coplanar(face, tol)` holds iff every vertex of the other face
    is within `tol` of this face's plane (generated `Plane.distance_to_point`);
  * `project_geometry_pts3_eq_map`: `project_geometry(plane, points)` is `map` of the generated
    `Plane.project_point`;
  * `bool_calc_along_range`, `bool_calc_along_mid`: the classification `-2 … 2` of a parameter
    along a segment;
  * `earcut_locally_inside_eq`: `_locally_inside` in terms of the generated `_area`.
-/
import LbgVerif.Gen.FaceMore
import LbgVerif.Gen.Project
import LbgVerif.Gen.BoolMore
import LbgVerif.Gen.TriMore
import LbgVerif.Gen.Tri
import LbgVerif.Gen.Plane
import LbgVerif.Props.C10g
import LbgVerif.Lemmas.GenLoops
import Mathlib.Algebra.Order.Field.Rat

namespace Lbg.Props.C09g
open Lbg Lbg.Gen Lbg.Lemmas
variable {α : Type} [Field α] [LinearOrder α] [IsStrictOrderedRing α]

omit [IsStrictOrderedRing α] in
/-- `Face3D._calculate_min_max` (over `self.boundary`) is the same scan as
`Base2DIn3D._calculate_min_max` (over `self.vertices`): the two generated kernels coincide. -/
theorem face3d_calculate_min_max_eq (vs : List (V3 α)) (pl : PlaneS α) :
    face3d_calculate_min_max vs pl = base2d3_calculate_min_max vs := rfl

omit [IsStrictOrderedRing α] in
/-- Hence the generated Face3D box is the hand model `C10.minMax3`. -/
theorem face3d_calculate_min_max_eq_model (v0 : V3 α) (rest : List (V3 α)) (pl : PlaneS α) :
    face3d_calculate_min_max (v0 :: rest) pl = Lbg.Props.C10.minMax3 v0 rest := by
  rw [face3d_calculate_min_max_eq, C10g.base2d3_calculate_min_max_eq]

omit [Field α] [LinearOrder α] [IsStrictOrderedRing α] in
/-- Generated `Face3D.normal` is the normal of the face's plane. -/
theorem face3d_normal_eq (vs : List (V3 α)) (pl : PlaneS α) :
    face3d_normal vs pl = ⟨pl.n.x, pl.n.y, pl.n.z⟩ := rfl

omit [IsStrictOrderedRing α] in
/-- Generated `Face3D.is_horizontal(tol)`: the z-extent of the generated box is at most `tol`. -/
theorem face3d_is_horizontal_eq (vs : List (V3 α)) (pl : PlaneS α) (tol : α) :
    face3d_is_horizontal vs pl tol =
      decide ((face3d_max vs pl).z - (face3d_min vs pl).z ≤ tol) := by
  unfold face3d_is_horizontal face3d_max face3d_min
  simp only [not_lt]

omit [IsStrictOrderedRing α] in
/-- Generated `Face3D.is_coplanar(face, tol)` is true iff every vertex of `face` lies within
`tol` of this face's plane, the distance being the generated `Plane.distance_to_point`. -/
theorem face3d_is_coplanar_iff (M : MathOps α) (vs ws : List (V3 α)) (pl pl2 : PlaneS α)
    (tol : α) :
    face3d_is_coplanar M vs pl ws pl2 tol = true ↔
      ∀ q ∈ ws, plane_distance_to_point M pl q ≤ tol := by
  have key := foldl_return_const false
    (fun q : V3 α => tol < plane_distance_to_point M pl q) ws
  unfold plane_distance_to_point at key
  unfold face3d_is_coplanar plane_distance_to_point
  simp only [] at key ⊢
  rw [key]
  simp [List.any_eq_true, not_lt]

omit [IsStrictOrderedRing α] in
/-- Generated `project_geometry(plane, [Point3D …])` is `map` of the generated
`Plane.project_point` (an element is `None` when the plane normal is the zero vector). -/
theorem project_geometry_pts3_eq_map (pl : PlaneS α) (geos : List (V3 α)) :
    project_geometry_pts3 pl geos = geos.map (fun q => plane_project_point pl q) := by
  unfold project_geometry_pts3
  simp only []
  rw [foldl_snoc_fun_eq_map (fun q => plane_project_point pl q) geos []]
  · simp
  · intro st x
    unfold plane_project_point
    simp only []
    split_ifs <;> rfl

omit [IsStrictOrderedRing α] in
/-- `__calc_along_using_value` classifies a parameter into `-2, -1, 0, 1, 2`. -/
theorem bool_calc_along_range (v tol : α) :
    bool_calc_along_using_value v tol ∈ ([-2, -1, 0, 1, 2] : List Int) := by
  unfold bool_calc_along_using_value
  split_ifs <;> simp

/-- For a positive tolerance: class `0` (strictly between the end points) iff
`tol ≤ value ≤ 1 - tol`; class `-1` (at the start) iff `|value| < tol`. -/
theorem bool_calc_along_mid (v tol : α) (ht : 0 < tol) :
    (bool_calc_along_using_value v tol = 0 ↔ tol ≤ v ∧ v - 1 ≤ -tol) ∧
    (bool_calc_along_using_value v tol = -1 ↔ -tol < v ∧ v < tol) := by
  unfold bool_calc_along_using_value
  constructor <;> split_ifs with h1 h2 h3 h4 <;> constructor <;> intro h <;>
    first
    | (exact absurd h (by decide))
    | rfl
    | (exfalso; obtain ⟨a, b⟩ := h; linarith [not_lt.mp ‹¬ _›])
    | (exfalso; obtain ⟨a, b⟩ := h; linarith)
    | (constructor <;> linarith [not_lt.mp ‹¬ v < tol›, not_lt.mp ‹¬ -tol < v - 1›])
    | (constructor <;> linarith)

omit [IsStrictOrderedRing α] in
/-- earcut `_locally_inside(a, b)` in terms of the generated `_area`: for a reflex corner at
`a` (`area(prev, a, next) < 0` is the convex case in earcut's orientation) both turns must be
non-negative, otherwise one of the two must be negative. -/
theorem earcut_locally_inside_eq (ap a an b : V2 α) :
    earcut_locally_inside ap a an b =
      if earcut_area ap a an < 0 then
        decide (0 ≤ earcut_area a b an ∧ 0 ≤ earcut_area a ap b)
      else decide (earcut_area a b ap < 0 ∨ earcut_area a an b < 0) := by
  unfold earcut_locally_inside earcut_area
  split_ifs with h <;> simp [h, not_lt]

/-! ### Non-vacuity -/

example : bool_calc_along_using_value (1 / 2 : ℚ) (1 / 100) = 0 := by decide +kernel
example : earcut_locally_inside (⟨0, 0⟩ : V2 ℚ) ⟨1, 0⟩ ⟨1, 1⟩ ⟨0, 1⟩ = true := by decide +kernel

end Lbg.Props.C09g
