/-
  C06h — Face3D construction: theorems about the GENERATED definitions of
  `Face3D.__init__`, `Face3D.plane/boundary/vertices`, `Face3D.flip`, `Face3D.from_rectangle`,
  `Face3D._plane_from_vertices` (`Gen/FaceInit.lean`, third translator generation).

  * `face3d_init_plane_noenforce_eq`: with a given plane and `enforce_right_hand=False` the
    constructor keeps boundary and plane unchanged and raises (AssertionError → `none`) exactly
    for fewer than 3 vertices;
  * `face3d_plane_eq`, `face3d_boundary_eq`, `face3d_vertices_eq`: the accessors of a
    hole-free face return the stored plane / vertex list;
  * `face3d_flip_spec`: a successful `flip` returns the reversed vertex list and the generated
    `Plane.flip` of the face's plane;
  * `face3d_from_rectangle_spec`: the four vertices of `from_rectangle` are `o`, `o + b·x`,
    `o + h·y + b·x`, `o + h·y`, and the memo values written are `_area = b·h`,
    `_perimeter = 2b + 2h`, `_centroid = o + (b/2)·x + (h/2)·y`;
  * `face3d_from_rectangle_diagonals`: the diagonals of that quadrilateral bisect each other
    at the preset centroid (so the preset centroid is the centre of the parallelogram);
  * `face3d_plane_from_vertices_nil`: `_plane_from_vertices([])` raises.
-/
import LbgVerif.Gen.FaceInit
import LbgVerif.Gen.Plane
import Mathlib.Tactic.Ring
import Mathlib.Tactic.Linarith
import Mathlib.Tactic.SplitIfs
import Mathlib.Tactic.FieldSimp
import Mathlib.Algebra.Order.Field.Rat

namespace Lbg.Props.C06h
open Lbg Lbg.Gen
variable {α : Type} [Field α] [LinearOrder α] [IsStrictOrderedRing α]

omit [Field α] [LinearOrder α] [IsStrictOrderedRing α] in
/-- `Face3D(boundary, plane, enforce_right_hand=False)` stores its arguments; it raises exactly
when there are fewer than 3 vertices. -/
theorem face3d_init_plane_noenforce_eq (vs : List (V3 α)) (pl : PlaneS α) :
    face3d_init_plane_noenforce vs pl =
      if (vs.length : Int) < 3 then none else some (vs, pl) := by
  unfold face3d_init_plane_noenforce
  split_ifs <;> rfl

omit [Field α] [LinearOrder α] [IsStrictOrderedRing α] in
/-- `Face3D.plane` of a hole-free face is the stored plane. -/
theorem face3d_plane_eq (vs : List (V3 α)) (pl : PlaneS α) : face3d_plane vs pl = pl := rfl

omit [Field α] [LinearOrder α] [IsStrictOrderedRing α] in
/-- `Face3D.boundary` is the stored boundary. -/
theorem face3d_boundary_eq (vs : List (V3 α)) (pl : PlaneS α) : face3d_boundary vs pl = vs := rfl

omit [Field α] [LinearOrder α] [IsStrictOrderedRing α] in
/-- `Face3D.vertices` of a hole-free face is the boundary. -/
theorem face3d_vertices_eq (vs : List (V3 α)) (pl : PlaneS α) : face3d_vertices vs pl = vs := rfl

omit [Field α] [LinearOrder α] [IsStrictOrderedRing α] in
/-- Shape `if c1: (if c2: raise; return X) else: raise`: a successful result is `X`. -/
theorem ite_some_inv {β : Type} (c1 c2 : Prop) [Decidable c1] [Decidable c2] (X : β) {r : β}
    (h : (if c1 then (if c2 then none else some X) else none) = some r) : r = X := by
  by_cases h1 : c1 <;> by_cases h2 : c2 <;> simp [h1, h2] at h
  exact h.symm

omit [IsStrictOrderedRing α] in
/-- When `Face3D.flip` succeeds, the new face has the reversed vertex list and the generated
`Plane.flip` of the plane. -/
theorem face3d_flip_spec (M : MathOps α) (vs : List (V3 α)) (pl : PlaneS α)
    (r : List (V3 α) × PlaneS α) (h : face3d_flip M vs pl = some r) :
    r.1 = vs.reverse ∧ r.2 = plane_flip M pl := by
  unfold face3d_flip at h
  simp only [] at h
  have e := ite_some_inv _ _ _ h
  subst e
  exact ⟨rfl, rfl⟩

omit [LinearOrder α] [IsStrictOrderedRing α] in
/-- `Face3D.from_rectangle(base, height, base_plane)`: the vertices and the preset memo values. -/
theorem face3d_from_rectangle_spec (b h : α) (pl : PlaneS α) :
    ∃ pl' cen, face3d_from_rectangle b h pl =
      some ([pl.o,
             ⟨pl.o.x + pl.x.x * b, pl.o.y + pl.x.y * b, pl.o.z + pl.x.z * b⟩,
             ⟨pl.o.x + pl.y.x * h + pl.x.x * b, pl.o.y + pl.y.y * h + pl.x.y * b,
              pl.o.z + pl.y.z * h + pl.x.z * b⟩,
             ⟨pl.o.x + pl.y.x * h, pl.o.y + pl.y.y * h, pl.o.z + pl.y.z * h⟩],
            pl', some (b * 2 + h * 2), some (b * h), some cen) ∧ pl' = pl ∧
      cen = ⟨pl.o.x + pl.x.x * b * (1 / 2) + pl.y.x * h * (1 / 2),
             pl.o.y + pl.x.y * b * (1 / 2) + pl.y.y * h * (1 / 2),
             pl.o.z + pl.x.z * b * (1 / 2) + pl.y.z * h * (1 / 2)⟩ :=
  ⟨_, _, rfl, rfl, rfl⟩

omit [LinearOrder α] [IsStrictOrderedRing α] in
/-- The preset centroid of `from_rectangle` is the midpoint of both diagonals of the generated
quadrilateral (vertex 0 – vertex 2 and vertex 1 – vertex 3). -/
theorem face3d_from_rectangle_diagonals (b h : α) (pl : PlaneS α) (h2 : (2 : α) ≠ 0) :
    let cx := pl.o.x + pl.x.x * b * (1 / 2) + pl.y.x * h * (1 / 2)
    (pl.o.x + (pl.o.x + pl.y.x * h + pl.x.x * b)) / 2 = cx ∧
    ((pl.o.x + pl.x.x * b) + (pl.o.x + pl.y.x * h)) / 2 = cx := by
  constructor <;> field_simp <;> ring

omit [IsStrictOrderedRing α] in
/-- `Face3D._plane_from_vertices([])` raises (IndexError inside the `try`, re-raised as
ValueError): the generated kernel returns `none`. -/
theorem face3d_plane_from_vertices_nil (M : MathOps α) :
    face3d_plane_from_vertices M ([] : List (V3 α)) = none := rfl

/-! ### Non-vacuity -/

example : face3d_init_plane_noenforce ([⟨0, 0, 0⟩, ⟨1, 0, 0⟩, ⟨0, 1, 0⟩] : List (V3 ℚ))
    ⟨⟨0, 0, 1⟩, ⟨0, 0, 0⟩, 0, ⟨1, 0, 0⟩, ⟨0, 1, 0⟩⟩ =
    some ([⟨0, 0, 0⟩, ⟨1, 0, 0⟩, ⟨0, 1, 0⟩], ⟨⟨0, 0, 1⟩, ⟨0, 0, 0⟩, 0, ⟨1, 0, 0⟩, ⟨0, 1, 0⟩⟩) := by
  decide +kernel

end Lbg.Props.C06h
