/-
  C01g — measures: theorems about the GENERATED definitions of `Polygon2D.perimeter`,
  `Polygon2D.from_rectangle` (`Gen/PolyMore.lean`) and their relation to the generated
  `polygon2d_area` / `polygon2d_is_clockwise` (`Gen/Poly.lean`) and `seg2_length`.

  * `polygon2d_perimeter_eq`: generated `perimeter` = sum of the generated `seg2_length` over
    the generated `segments`;
  * `polygon2d_perimeter_cyclic`: … = sum over the cyclic vertex pairs of the edge length;
  * `polygon2d_perimeter_move`: the generated perimeter is invariant under the generated
    vertex-wise `move` (translation);
  * `from_rectangle_area_coherent` / `from_rectangle_is_clockwise_coherent`: the values that
    `from_rectangle` writes into the memo slots `_area`, `_is_clockwise` agree with what the
    generated `area` / `is_clockwise` compute from the generated vertices exactly when
    `base * height ≥ 0` (for a negative base or height the preset `_is_clockwise = False` is
    wrong — reported as a finding; the `sqrt` laws are hypotheses).
-/
import LbgVerif.Gen.PolyMore
import LbgVerif.Gen.Poly
import LbgVerif.Gen.Vec
import LbgVerif.Props.C08g
import LbgVerif.Props.C02g
import LbgVerif.Lemmas.CyclicCount
import Mathlib.Tactic.Ring
import Mathlib.Tactic.FieldSimp
import Mathlib.Tactic.LinearCombination
import Mathlib.Algebra.Order.Field.Rat

namespace Lbg.Props.C01g
open Lbg Lbg.Gen Lbg.Lemmas Lbg.Model.PointInside
variable {α : Type} [Field α] [LinearOrder α] [IsStrictOrderedRing α]

omit [LinearOrder α] [IsStrictOrderedRing α] in
/-- Generated `Polygon2D.perimeter` is the sum of the generated `LineSegment2D.length` over the
generated `Polygon2D.segments`. -/
theorem polygon2d_perimeter_eq (M : MathOps α) (vs : List (V2 α)) :
    polygon2d_perimeter M vs = ((polygon2d_segments vs).map (seg2_length M)).sum := by
  unfold polygon2d_perimeter
  simp only []
  rw [foldl_add_eq_sum (fun x => x), zero_add, List.map_id']
  rfl

omit [Field α] [LinearOrder α] [IsStrictOrderedRing α] in
/-- Moving the first element to the end does not change a sum. -/
theorem sum_popFirstToEnd {R : Type} [AddCommMonoid R] (l : List R) :
    (popFirstToEnd l).sum = l.sum := by
  cases l with
  | nil => rfl
  | cons a t => simp [popFirstToEnd, add_comm]

omit [Field α] [LinearOrder α] [IsStrictOrderedRing α] in
/-- `map` commutes with moving the first element to the end. -/
theorem map_popFirstToEnd {β γ : Type} (f : β → γ) (l : List β) :
    (popFirstToEnd l).map f = popFirstToEnd (l.map f) := by
  cases l with
  | nil => rfl
  | cons a t => simp [popFirstToEnd]

omit [LinearOrder α] [IsStrictOrderedRing α] in
/-- Generated perimeter as a sum over the cyclic vertex pairs of the Euclidean edge length. -/
theorem polygon2d_perimeter_cyclic (M : MathOps α) (vs : List (V2 α)) (h : vs ≠ []) :
    polygon2d_perimeter M vs = ((cyclicPairs vs).map (fun q =>
      M.sqrt ((q.2.x - q.1.x) * (q.2.x - q.1.x) + (q.2.y - q.1.y) * (q.2.y - q.1.y)))).sum := by
  rw [polygon2d_perimeter_eq, C08g.polygon2d_segments_eq_model vs h]
  unfold segments
  rw [map_popFirstToEnd, sum_popFirstToEnd, List.map_map]
  rfl

omit [LinearOrder α] [IsStrictOrderedRing α] in
/-- The generated perimeter is invariant under the generated translation of the vertices
(`Polygon2D.move` maps `Point2D.move` over the vertices). -/
theorem polygon2d_perimeter_move (M : MathOps α) (vs : List (V2 α)) (h : vs ≠ []) (mv : V2 α) :
    polygon2d_perimeter M (vs.map (fun p => p2_move p mv)) = polygon2d_perimeter M vs := by
  have h' : vs.map (fun p => p2_move p mv) ≠ [] := by simpa using h
  rw [polygon2d_perimeter_cyclic M _ h', polygon2d_perimeter_cyclic M _ h, cyclicPairs_map,
    List.map_map]
  congr 1
  apply List.map_congr_left
  intro q _
  simp only [Function.comp, p2_move]
  congr 2 <;> ring

/-- `from_rectangle` presets `_area = base * height`; the generated shoelace `area` of the
generated vertices is `|base * height|` (height vector non-zero, `sqrt` laws). -/
theorem from_rectangle_area_coherent (M : MathOps α)
    (hsqrt : ∀ x : α, 0 ≤ x → M.sqrt x * M.sqrt x = x ∧ 0 ≤ M.sqrt x)
    (bp hv : V2 α) (b h : α) (hne : hv.x * hv.x + hv.y * hv.y ≠ 0) :
    (polygon2d_from_rectangle M bp hv b h).area = some (b * h) ∧
    polygon2d_area (polygon2d_from_rectangle M bp hv b h).vertices = |b * h| := by
  constructor
  · rfl
  · obtain ⟨hs, hs0⟩ := hsqrt _ (add_nonneg (mul_self_nonneg hv.x) (mul_self_nonneg hv.y))
    have hd : M.sqrt (hv.x * hv.x + hv.y * hv.y) ≠ 0 := by
      intro h0; rw [h0] at hs; exact hne (by linarith)
    unfold polygon2d_from_rectangle polygon2d_area
    simp only [hd, if_false]
    have cp : ∀ a b c d : V2 α, cyclicPairs [a, b, c, d] = [(d, a), (a, b), (b, c), (c, d)] :=
      fun _ _ _ _ => rfl
    simp only [cp, List.foldl_cons, List.foldl_nil]
    generalize hD : M.sqrt (hv.x * hv.x + hv.y * hv.y) = d at *
    congr 1
    field_simp
    linear_combination (-2 * h * b) * hs

/-- `from_rectangle` presets `_is_clockwise = False`; the generated `is_clockwise` of the
generated vertices is `base * height < 0`: the preset is right exactly when
`base * height ≥ 0`. -/
theorem from_rectangle_is_clockwise_coherent (M : MathOps α)
    (hsqrt : ∀ x : α, 0 ≤ x → M.sqrt x * M.sqrt x = x ∧ 0 ≤ M.sqrt x)
    (bp hv : V2 α) (b h : α) (hne : hv.x * hv.x + hv.y * hv.y ≠ 0) :
    (polygon2d_from_rectangle M bp hv b h).is_clockwise = some false ∧
    polygon2d_is_clockwise (polygon2d_from_rectangle M bp hv b h).vertices
      = decide (b * h < 0) := by
  constructor
  · rfl
  · obtain ⟨hs, hs0⟩ := hsqrt _ (add_nonneg (mul_self_nonneg hv.x) (mul_self_nonneg hv.y))
    have hd : M.sqrt (hv.x * hv.x + hv.y * hv.y) ≠ 0 := by
      intro h0; rw [h0] at hs; exact hne (by linarith)
    unfold polygon2d_from_rectangle polygon2d_is_clockwise
    simp only [hd, if_false]
    have cp : ∀ a b c d : V2 α, cyclicPairs [a, b, c, d] = [(d, a), (a, b), (b, c), (c, d)] :=
      fun _ _ _ _ => rfl
    simp only [cp, List.foldl_cons, List.foldl_nil]
    generalize hD : M.sqrt (hv.x * hv.x + hv.y * hv.y) = d at *
    congr 1
    apply propext
    have e : (0 + (({ x := bp.x + hv.x / d * h, y := bp.y + hv.y / d * h } : V2 α).x * bp.y -
        ({ x := bp.x + hv.x / d * h, y := bp.y + hv.y / d * h } : V2 α).y * bp.x) +
        (bp.x * (bp.y + -(hv.x / d) * b) - bp.y * (bp.x + hv.y / d * b)) +
        ((bp.x + hv.y / d * b) * (bp.y + hv.y / d * h + -(hv.x / d) * b) -
          (bp.y + -(hv.x / d) * b) * (bp.x + hv.x / d * h + hv.y / d * b)) +
        ((bp.x + hv.x / d * h + hv.y / d * b) * (bp.y + hv.y / d * h) -
          (bp.y + hv.y / d * h + -(hv.x / d) * b) * (bp.x + hv.x / d * h))) / 2 = b * h := by
      field_simp
      linear_combination (-2 * h * b) * hs
    rw [e]

/-! ### Non-vacuity -/

example : polygon2d_perimeter (⟨fun x => x, fun x => x, fun x => x, fun x => x, fun x => x,
      fun x => x, fun _ x => x, 0, fun x => x⟩ : MathOps ℚ)
    ([⟨0, 0⟩, ⟨2, 0⟩, ⟨2, 2⟩, ⟨0, 2⟩] : List (V2 ℚ)) = 16 := by decide +kernel

end Lbg.Props.C01g
