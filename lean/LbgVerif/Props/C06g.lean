/-
  C06g — `Face3D` construction: the GENERATED definitions of `Face3D._plane_from_vertices`,
  `Face3D.__init__(boundary)` and `Face3D.flip` (`Gen/FaceInit.lean`, regenerated from
  `geometry3d/face.py`; `ZeroDivisionError` and the constructors' `AssertionError` are `none`)
  are EQUAL to the hand models `planeFromVertices`, `mkFace`, `flip` of `Model/Outward.lean`
  (on which `Props/C07b` and, through `C07b.plane_from_vertices_eq`, `Props/C06` reason).
-/
import LbgVerif.Gen.FaceInit
import LbgVerif.Gen.Plane
import LbgVerif.Gen.Poly
import LbgVerif.Model.Outward
import LbgVerif.Lemmas.GenLoops
import LbgVerif.Lemmas.GenLoops2
import LbgVerif.Props.C07b
import Mathlib.Tactic.Ring
import Mathlib.Tactic.Linarith
import Mathlib.Algebra.Order.Field.Rat

set_option linter.unusedSectionVars false

namespace Lbg.Props.C06g
open Lbg Lbg.Gen Lbg.Model Lbg.Model.Outward Lbg.Lemmas Lbg.Lemmas.GenLoops2
variable {α : Type} [Field α] [LinearOrder α] [IsStrictOrderedRing α]

/-- The triple of coordinates of a vector (`cprods` and `normal` are lists in the source). -/
def trip (v : V3 α) : α × α × α := (v.x, v.y, v.z)

/-- `normal[j] += cprod[j]` over `cprods = [_normal_from_3pts(verts[0], verts[i+1], verts[i+2])
for i in range(len(verts) - 2)]` is the cross-product fan `Outward.fanNormal`. -/
theorem fan_fold (p0 : V3 α) (rest : List (V3 α)) (g : V3 α → V3 α → α × α × α)
    (hg : ∀ a b, g a b = trip (face3d_normal_from_3pts p0 a b)) :
    List.foldl (fun (st : α × α × α) (pp : α × α × α) =>
        (st.1 + pp.1, st.2.1 + pp.2.1, st.2.2 + pp.2.2)) ((0 : α), (0 : α), (0 : α))
      ((List.range (rest.length - 1)).map (fun i =>
        g ((p0 :: rest).getD (i + 1) ⟨0, 0, 0⟩) ((p0 :: rest).getD (i + 2) ⟨0, 0, 0⟩)))
      = trip (fanNormal (p0 :: rest)) := by
  have hz : (List.range (rest.length - 1)).map (fun i =>
        g ((p0 :: rest).getD (i + 1) ⟨0, 0, 0⟩) ((p0 :: rest).getD (i + 2) ⟨0, 0, 0⟩))
      = (rest.zip rest.tail).map (fun p => trip (face3d_normal_from_3pts p0 p.1 p.2)) := by
    apply List.ext_getElem
    · simp
    · intro i h1 h2
      simp only [List.length_map, List.length_range] at h1
      simp only [List.getElem_map, List.getElem_range, List.getElem_zip, hg]
      have e1 : (p0 :: rest).getD (i + 1) ⟨0, 0, 0⟩ = rest[i]'(by omega) := by
        simp [List.getD_eq_getElem?_getD, show i < rest.length by omega]
      have e2 : (p0 :: rest).getD (i + 2) ⟨0, 0, 0⟩ = rest.tail[i]'(by simp; omega) := by
        simp [List.getD_eq_getElem?_getD, show i + 1 < rest.length by omega]
      rw [e1, e2]
  rw [hz]
  unfold fanNormal
  simp only []
  generalize rest.zip rest.tail = l
  suffices h : ∀ (acc : V3 α), List.foldl (fun (st : α × α × α) (pp : α × α × α) =>
        (st.1 + pp.1, st.2.1 + pp.2.1, st.2.2 + pp.2.2)) (trip acc)
        (l.map (fun p => trip (face3d_normal_from_3pts p0 p.1 p.2)))
      = trip (l.foldl (fun acc p => V3.add acc (face3d_normal_from_3pts p0 p.1 p.2)) acc) from
    h ⟨0, 0, 0⟩
  induction l with
  | nil => intro acc; rfl
  | cons a t ih =>
    intro acc
    simp only [List.map_cons, List.foldl_cons]
    exact ih (V3.add acc (face3d_normal_from_3pts p0 a.1 a.2))

/-- The `ZeroDivisionError` of `normal[0] / ds` in `_plane_from_vertices`: the summed normal is
not the zero list but `math.sqrt` of its squared length is `0` (impossible for a true square
root, see `no_zero_division`). -/
def ZeroDiv (M : MathOps α) (vs : List (V3 α)) : Prop :=
  ¬ ((fanNormal vs).x = 0 ∧ (fanNormal vs).y = 0 ∧ (fanNormal vs).z = 0) ∧
    M.sqrt ((fanNormal vs).x * (fanNormal vs).x + (fanNormal vs).y * (fanNormal vs).y +
      (fanNormal vs).z * (fanNormal vs).z) = 0

/-- `ZeroDiv` is a decidable test (so that the tie can branch on it). -/
instance (M : MathOps α) (vs : List (V3 α)) : Decidable (ZeroDiv M vs) := by
  unfold ZeroDiv; infer_instance

/-- TIE: generated `Face3D._plane_from_vertices(verts)` = hand model
`Outward.planeFromVertices` — `none` exactly for the empty list (`IndexError`) and for the
`ZeroDivisionError` of the normalisation. -/
theorem face3d_plane_from_vertices_eq_model (M : MathOps α) (vs : List (V3 α)) :
    face3d_plane_from_vertices M vs =
      if vs = [] then none else if ZeroDiv M vs then none
      else some (planeFromVertices M vs) := by
  unfold face3d_plane_from_vertices
  by_cases hv : vs = []
  · rw [if_pos hv, if_pos hv]
  · rw [if_neg hv, if_neg hv]
    obtain ⟨p0, rest, rfl⟩ : ∃ p0 rest, vs = p0 :: rest := by
      cases vs with
      | nil => exact absurd rfl hv
      | cons a t => exact ⟨a, t, rfl⟩
    extract_lets +onlyGivenNames item n acc3 acc
    have hacc' : acc = trip (fanNormal (p0 :: rest)) := by
      rw [← fan_fold p0 rest (fun a b => trip (face3d_normal_from_3pts p0 a b))
        (fun a b => rfl)]
      show List.foldl _ _ acc3 = _
      congr 1
      refine (Lbg.Lemmas.foldl_snoc_fun_eq_map (fun (k : Int) =>
        trip (face3d_normal_from_3pts p0 ((p0 :: rest).getD (Int.toNat (k + 1)) ⟨0, 0, 0⟩)
          ((p0 :: rest).getD (Int.toNat (k + 2)) ⟨0, 0, 0⟩))) _ [] _ (fun st x => rfl)).trans ?_
      simp only [List.nil_append, List.map_map]
      have hr : List.range' 0 (Int.toNat ((((p0 :: rest).length : Int) - 2) - 0))
          = List.range (rest.length - 1) := by
        rw [List.range_eq_range']
        congr 1
        simp only [List.length_cons]
        omega
      show List.map _ (List.range' 0 (Int.toNat ((((p0 :: rest).length : Int) - 2) - 0))) = _
      rw [hr]
      apply List.map_congr_left
      intro i _
      simp only [Function.comp]
      have e1 : Int.toNat ((i : Int) + 1) = i + 1 := by omega
      have e2 : Int.toNat ((i : Int) + 2) = i + 2 := by omega
      rw [e1, e2]
    rw [hacc']
    clear hacc' acc acc3 n
    obtain ⟨N, hN⟩ : ∃ N, fanNormal (p0 :: rest) = N := ⟨_, rfl⟩
    rw [hN]
    have hZ : ZeroDiv M (p0 :: rest) ↔ (¬ (N.x = 0 ∧ N.y = 0 ∧ N.z = 0) ∧
        M.sqrt (N.x * N.x + N.y * N.y + N.z * N.z) = 0) := by
      unfold ZeroDiv; rw [hN]
    have hhd : item = p0 := rfl
    have hnv : normalVec M (p0 :: rest) =
        if N.x = 0 ∧ N.y = 0 ∧ N.z = 0 then ⟨0, 0, 1⟩
        else ⟨N.x / M.sqrt (N.x * N.x + N.y * N.y + N.z * N.z),
              N.y / M.sqrt (N.x * N.x + N.y * N.y + N.z * N.z),
              N.z / M.sqrt (N.x * N.x + N.y * N.y + N.z * N.z)⟩ := by
      unfold normalVec; rw [hN]
    unfold planeFromVertices
    rw [hnv, hhd]
    simp only [List.head?_cons, Option.getD_some]
    by_cases hz : N.x = 0 ∧ N.y = 0 ∧ N.z = 0
    · have h1 : (trip N).1 = 0 := hz.1
      have h2 : (trip N).2.1 = 0 := hz.2.1
      have h3 : (trip N).2.2 = 0 := hz.2.2
      have hc : ¬ ZeroDiv M (p0 :: rest) := fun h => (hZ.1 h).1 hz
      rw [if_pos h1, if_pos h2, if_pos h3, if_neg hc, if_pos hz]
      unfold plane_init
      have e1 : ((0 : α) * 0 + 0 * 0 + 1 * 1) = 1 := by ring
      simp only [e1]
      split_ifs <;> rfl
    · have hc : ZeroDiv M (p0 :: rest) ↔
          M.sqrt (N.x * N.x + N.y * N.y + N.z * N.z) = 0 :=
        ⟨fun h => (hZ.1 h).2, fun h => hZ.2 ⟨hz, h⟩⟩
      have hshape : ∀ (A B : Option (PlaneS α)),
          (if (trip N).1 = 0 then if (trip N).2.1 = 0 then if (trip N).2.2 = 0 then A
            else B else B else B) = B := by
        intro A B
        split_ifs with a b c
        · exact absurd ⟨a, b, c⟩ hz
        all_goals rfl
      rw [hshape, if_neg hz]
      by_cases hs : M.sqrt (N.x * N.x + N.y * N.y + N.z * N.z) = 0
      · have hs' : M.sqrt ((trip N).1 * (trip N).1 + (trip N).2.1 * (trip N).2.1 +
            (trip N).2.2 * (trip N).2.2) = 0 := hs
        rw [if_pos hs', if_pos (hc.2 hs)]
      · have hs' : ¬ M.sqrt ((trip N).1 * (trip N).1 + (trip N).2.1 * (trip N).2.1 +
            (trip N).2.2 * (trip N).2.2) = 0 := hs
        rw [if_neg hs', if_neg (fun h => hs (hc.1 h))]
        unfold plane_init trip
        simp only []
        split_ifs <;> rfl

/-- Generated `Face3D.__init__(boundary)` (plane from the vertices, `enforce_right_hand=True`)
in terms of the generated `_plane_from_vertices`, `Plane.xyz_to_xy` and
`Polygon2D.is_clockwise`: the vertices are reversed exactly when the projected loop is
clockwise; `none` for fewer than 3 vertices or when `_plane_from_vertices` raises. -/
theorem face3d_init_eq_kernels (M : MathOps α) (vs : List (V3 α)) :
    face3d_init M vs =
      if (vs.length : Int) < 3 then none
      else (face3d_plane_from_vertices M vs).bind (fun pl =>
        if polygon2d_is_clockwise (vs.map (plane_xyz_to_xy pl)) = true then some (vs.reverse, pl)
        else some (vs, pl)) := by
  unfold face3d_init face3d_plane_from_vertices
  by_cases h3 : (vs.length : Int) < 3
  · rw [if_pos h3, if_pos h3]
  · rw [if_neg h3, if_neg h3]
    by_cases hv : vs = []
    · rw [if_pos hv, if_pos hv]; rfl
    · rw [if_neg hv, if_neg hv]
      extract_lets +onlyGivenNames item n acc3 acc
      refine tree3 _ _ _ _ _ _ _ _ ?_ ?_
      · simp only []
        refine tree2 _ _ _ _ _ _ _ _ _ ?_ ?_ ?_ <;>
          exact ctor_leaf _ _ _ _ _ (by simpa using h3) (by simpa using h3)
      · simp only []
        refine treeD _ _ _ _ ?_
        refine tree2 _ _ _ _ _ _ _ _ _ ?_ ?_ ?_ <;>
          exact ctor_leaf _ _ _ _ _ (by simpa using h3) (by simpa using h3)

/-- TIE: generated `Face3D(boundary)` = hand model `Outward.mkFace` (vertices and plane), for
at least 3 vertices and no `ZeroDivisionError`. -/
theorem face3d_init_eq_model (M : MathOps α) (vs : List (V3 α)) (h3 : 3 ≤ vs.length)
    (hz : ¬ ZeroDiv M vs) :
    face3d_init M vs = some ((mkFace M vs).verts, (mkFace M vs).plane) := by
  have hv : vs ≠ [] := by intro h; rw [h] at h3; simp at h3
  have h3' : ¬ ((vs.length : Int) < 3) := by omega
  rw [face3d_init_eq_kernels, if_neg h3', face3d_plane_from_vertices_eq_model, if_neg hv,
    if_neg hz]
  unfold mkFace
  simp only [Option.bind_some]
  split_ifs <;> rfl

/-- The generated constructor fails exactly below 3 vertices or on the `ZeroDivisionError`. -/
theorem face3d_init_none_iff (M : MathOps α) (vs : List (V3 α)) :
    face3d_init M vs = none ↔ (vs.length < 3 ∨ ZeroDiv M vs) := by
  rw [face3d_init_eq_kernels, face3d_plane_from_vertices_eq_model]
  by_cases h3 : (vs.length : Int) < 3
  · rw [if_pos h3]; exact ⟨fun _ => Or.inl (by omega), fun _ => rfl⟩
  · have hv : vs ≠ [] := by intro h; rw [h] at h3; simp at h3
    rw [if_neg h3, if_neg hv]
    by_cases hz : ZeroDiv M vs
    · rw [if_pos hz]; exact ⟨fun _ => Or.inr hz, fun _ => rfl⟩
    · rw [if_neg hz]
      simp only [Option.bind_some]
      constructor
      · intro h; split_ifs at h
      · rintro (h | h)
        · omega
        · exact absurd h hz

/-- Under the law of the square root the `ZeroDivisionError` branch is unreachable. -/
theorem no_zero_division (M : MathOps α)
    (hsqrt : ∀ x, 0 ≤ x → M.sqrt x * M.sqrt x = x ∧ 0 ≤ M.sqrt x) (vs : List (V3 α)) :
    ¬ ZeroDiv M vs := by
  rintro ⟨hne, hs⟩
  apply hne
  generalize fanNormal vs = N at hs
  have hnn : 0 ≤ N.x * N.x + N.y * N.y + N.z * N.z := by
    nlinarith [mul_self_nonneg N.x, mul_self_nonneg N.y, mul_self_nonneg N.z]
  have h0 : N.x * N.x + N.y * N.y + N.z * N.z = 0 := by
    have := (hsqrt _ hnn).1
    rw [hs] at this
    linarith
  have hx : N.x * N.x = 0 := by
    nlinarith [mul_self_nonneg N.x, mul_self_nonneg N.y, mul_self_nonneg N.z]
  have hy : N.y * N.y = 0 := by
    nlinarith [mul_self_nonneg N.x, mul_self_nonneg N.y, mul_self_nonneg N.z]
  have hz : N.z * N.z = 0 := by
    nlinarith [mul_self_nonneg N.x, mul_self_nonneg N.y, mul_self_nonneg N.z]
  exact ⟨mul_self_eq_zero.mp hx, mul_self_eq_zero.mp hy, mul_self_eq_zero.mp hz⟩

/-- TIE: generated `Face3D.flip()` (face without holes) = hand model `Outward.flip` (reversed
vertices, generated `Plane.flip` of the plane), guarded by the two assertions the constructors
make: the `Plane` constructor's `abs(n.dot(x)) < 0.01` and the `Face3D` constructor's
`len >= 3`. -/
theorem face3d_flip_eq_model (M : MathOps α) (f : Face α) :
    face3d_flip M f.verts f.plane =
      if |v3_dot (plane_flip M f.plane).n (plane_flip M f.plane).x|
          < (5764607523034235 : α) / 576460752303423488 then
        if (f.verts.length : Int) < 3 then none
        else some ((Outward.flip M f).verts, (Outward.flip M f).plane)
      else none := by
  unfold face3d_flip Outward.flip plane_flip v3_dot
  simp only [List.length_reverse]

/-- **`Face3D(boundary)` of a planar loop with non-zero area, GENERATED constructor**
(`C07b.mk_face_valid` transported): under the `sqrt` law, for the image `vs` of a 2D loop of at
least 3 vertices with non-zero shoelace sum under a valid frame, the generated constructor
returns `some (vs, pl)` — the input vertices unchanged — with `pl` a valid plane containing
every vertex. -/
theorem face3d_init_planar (M : MathOps α)
    (hsqrt : ∀ x, 0 ≤ x → M.sqrt x * M.sqrt x = x ∧ 0 ≤ M.sqrt x)
    {pl0 : PlaneS α} (hv0 : Lbg.Props.C02.PlaneValid pl0) (cs0 : List (V2 α))
    (h0 : Lbg.Lemmas.shoelace cs0 ≠ 0) (h3 : 3 ≤ cs0.length) :
    ∃ pl, face3d_init M (cs0.map (plane_xy_to_xyz pl0)) = some (cs0.map (plane_xy_to_xyz pl0), pl)
      ∧ Lbg.Props.C02.PlaneValid pl ∧
      ∀ p ∈ cs0.map (plane_xy_to_xyz pl0), Lbg.Props.C02.OnPlane pl p := by
  obtain ⟨hverts, hval, hon⟩ := Lbg.Props.C07b.mk_face_valid M hsqrt hv0 cs0 h0
  refine ⟨(mkFace M (cs0.map (plane_xy_to_xyz pl0))).plane, ?_, hval, ?_⟩
  · rw [face3d_init_eq_model M _ (by rw [List.length_map]; exact h3)
      (no_zero_division M hsqrt _), hverts]
  · intro p hp
    apply hon
    rw [hverts]; exact hp

/-! ### Non-vacuity (ℚ, exact `sqrt` of `Model.Outward.ratOps` on the squares that occur) -/

example : face3d_plane_from_vertices ratOps
    ([⟨0, 0, 0⟩, ⟨2, 0, 0⟩, ⟨2, 2, 0⟩, ⟨0, 2, 0⟩] : List (V3 ℚ))
    = some ⟨⟨0, 0, 1⟩, ⟨0, 0, 0⟩, 0, ⟨1, 0, 0⟩, ⟨0, 1, 0⟩⟩ := by decide +kernel

example : (face3d_init ratOps ([⟨0, 0, 0⟩, ⟨2, 0, 0⟩, ⟨2, 2, 0⟩, ⟨0, 2, 0⟩] : List (V3 ℚ))).map
      Prod.fst = some [⟨0, 0, 0⟩, ⟨2, 0, 0⟩, ⟨2, 2, 0⟩, ⟨0, 2, 0⟩] ∧
    (face3d_init ratOps ([⟨0, 0, 0⟩, ⟨2, 0, 0⟩] : List (V3 ℚ))).isSome = false := by
  decide +kernel

end Lbg.Props.C06g
