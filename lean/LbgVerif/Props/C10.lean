/-
  C10 — bounding boxes contain the geometry and are tight.

  Property theorems about the kernels regenerated from the repository by py2lean:
  `seg2/seg3/ray2/ray3_min/max/center`, `sphere_min/max`, `arc2_min/arc2_max`
  (`Arc2D._calculate_min_max` with its four 4×4 extremum matrices and the inverted-diagonal
  special case), `arc2_angle_quadrant`, `arc2_point_at`, `arc3_min/arc3_max` (full-circle
  branch), plus the hand-modelled vertex scan of `_calculate_min_max`
  (`Lemmas/MinMax.lean`, literal transcription of the Python loop with its `elif`).

  A. segments / rays: every `p + t·v`, `t ∈ [0,1]`, is inside; `min ≤ max`; bounds attained
     at an end point; `center = (min + max)/2`.
  B. sphere: box `c ± r`, contains the ball, touched at the six axis points.
  C. vertex scan: `mn ≤ v ≤ mx` for every vertex, both attained, per coordinate (2D / 3D).
  D. **`arc2d_box`**: under abstract quadrant-monotonicity facts about cos / sin
     (`TrigQuadrants`), every point of the arc is inside `[arc2_min, arc2_max]` and each of the
     four sides is touched by a point of the arc; `point_at(u)`, `u ∈ [0,1]`, is inside.
  E. `circle3d_box`: coordinate `i` of a circle point in a valid frame is within
     `oᵢ ± r·sqrt(1 - nᵢ²)`, attained; `arc3_min/max` (circle branch) is that box.
-/
import LbgVerif.Gen.Vec
import LbgVerif.Gen.Line
import LbgVerif.Gen.Solid
import LbgVerif.Gen.Arc
import LbgVerif.Gen.Plane
import LbgVerif.Props.C02
import LbgVerif.Lemmas.Box
import LbgVerif.Lemmas.MinMax
import LbgVerif.Lemmas.ArcBox
import LbgVerif.Lemmas.Frame
import Mathlib.Tactic.Ring
import Mathlib.Tactic.FieldSimp
import Mathlib.Tactic.Linarith
import Mathlib.Tactic.Positivity
import Mathlib.Tactic.LinearCombination
import Mathlib.Tactic.SplitIfs
import Mathlib.Tactic.NormNum
import Mathlib.Algebra.Order.Field.Rat

set_option linter.unusedSectionVars false
set_option linter.unusedVariables false
set_option linter.unusedTactic false
set_option linter.unusedSimpArgs false
set_option linter.unreachableTactic false
set_option linter.unnecessarySeqFocus false

namespace Lbg.Props.C10
open Lbg Lbg.Gen Lbg.Lemmas
open Lbg.Props.C02 (PlaneValid distSq3)
variable {α : Type} [Field α] [LinearOrder α] [IsStrictOrderedRing α]

/-! ## A. Segments and rays -/

/-- `LineSegment2D`: every point `p + t·v`, `t ∈ [0, 1]` (`point_at t`), lies in `[min, max]`
componentwise. -/
theorem seg2_box_contains (l : LR2 α) (t : α) (h0 : 0 ≤ t) (h1 : t ≤ 1) :
    (seg2_min l).x ≤ (seg2_point_at l t).x ∧ (seg2_point_at l t).x ≤ (seg2_max l).x ∧
    (seg2_min l).y ≤ (seg2_point_at l t).y ∧ (seg2_point_at l t).y ≤ (seg2_max l).y := by
  simp only [seg2_min, seg2_max, seg2_point_at]
  exact ⟨(lerp_between _ _ t h0 h1).1, (lerp_between _ _ t h0 h1).2,
    (lerp_between _ _ t h0 h1).1, (lerp_between _ _ t h0 h1).2⟩

/-- `LineSegment2D`: `min ≤ max` componentwise. -/
theorem seg2_min_le_max (l : LR2 α) :
    (seg2_min l).x ≤ (seg2_max l).x ∧ (seg2_min l).y ≤ (seg2_max l).y := by
  simp only [seg2_min, seg2_max]
  exact ⟨min_le_max, min_le_max⟩

/-- `LineSegment2D`: each of the four sides of the box is touched by an end point
(`point_at 0 = p` or `point_at 1 = p2`). -/
theorem seg2_box_tight (l : LR2 α) :
    ((seg2_min l).x = (seg2_point_at l 0).x ∨ (seg2_min l).x = (seg2_point_at l 1).x) ∧
    ((seg2_min l).y = (seg2_point_at l 0).y ∨ (seg2_min l).y = (seg2_point_at l 1).y) ∧
    ((seg2_max l).x = (seg2_point_at l 0).x ∨ (seg2_max l).x = (seg2_point_at l 1).x) ∧
    ((seg2_max l).y = (seg2_point_at l 0).y ∨ (seg2_max l).y = (seg2_point_at l 1).y) := by
  simp only [seg2_min, seg2_max, seg2_point_at]
  exact ⟨min_end _ _, min_end _ _, max_end _ _, max_end _ _⟩

/-- `LineSegment2D.center` (`p + v/2`) is the midpoint of `min` and `max`, and equals
`midpoint`. -/
theorem seg2_center_eq (l : LR2 α) :
    (seg2_center l).x = ((seg2_min l).x + (seg2_max l).x) / 2 ∧
    (seg2_center l).y = ((seg2_min l).y + (seg2_max l).y) / 2 ∧
    seg2_center l = seg2_midpoint l := by
  simp only [seg2_min, seg2_max, seg2_center, seg2_midpoint]
  refine ⟨min_max_mid _ _, min_max_mid _ _, ?_⟩
  ext <;> simp only [] <;> ring

/-- `Ray2D` extents are those of the segment `p … p + v` (how the library defines them): the
same box as `LineSegment2D`. -/
theorem ray2_box_eq (l : LR2 α) : ray2_min l = seg2_min l ∧ ray2_max l = seg2_max l :=
  ⟨rfl, rfl⟩

/-- `Ray2D`: containment of `p + t·v`, `t ∈ [0,1]`, `min ≤ max`, and tightness. -/
theorem ray2_box (l : LR2 α) :
    (∀ t, 0 ≤ t → t ≤ 1 →
      (ray2_min l).x ≤ (seg2_point_at l t).x ∧ (seg2_point_at l t).x ≤ (ray2_max l).x ∧
      (ray2_min l).y ≤ (seg2_point_at l t).y ∧ (seg2_point_at l t).y ≤ (ray2_max l).y) ∧
    (ray2_min l).x ≤ (ray2_max l).x ∧ (ray2_min l).y ≤ (ray2_max l).y ∧
    ((ray2_min l).x = (seg2_point_at l 0).x ∨ (ray2_min l).x = (seg2_point_at l 1).x) ∧
    ((ray2_min l).y = (seg2_point_at l 0).y ∨ (ray2_min l).y = (seg2_point_at l 1).y) ∧
    ((ray2_max l).x = (seg2_point_at l 0).x ∨ (ray2_max l).x = (seg2_point_at l 1).x) ∧
    ((ray2_max l).y = (seg2_point_at l 0).y ∨ (ray2_max l).y = (seg2_point_at l 1).y) := by
  rw [(ray2_box_eq l).1, (ray2_box_eq l).2]
  exact ⟨fun t h0 h1 => seg2_box_contains l t h0 h1, (seg2_min_le_max l).1, (seg2_min_le_max l).2,
    seg2_box_tight l⟩

/-- `LineSegment3D`: every point `p + t·v`, `t ∈ [0, 1]`, lies in `[min, max]` componentwise. -/
theorem seg3_box_contains (l : LR3 α) (t : α) (h0 : 0 ≤ t) (h1 : t ≤ 1) :
    (seg3_min l).x ≤ (seg3_point_at l t).x ∧ (seg3_point_at l t).x ≤ (seg3_max l).x ∧
    (seg3_min l).y ≤ (seg3_point_at l t).y ∧ (seg3_point_at l t).y ≤ (seg3_max l).y ∧
    (seg3_min l).z ≤ (seg3_point_at l t).z ∧ (seg3_point_at l t).z ≤ (seg3_max l).z := by
  simp only [seg3_min, seg3_max, seg3_point_at]
  exact ⟨(lerp_between _ _ t h0 h1).1, (lerp_between _ _ t h0 h1).2,
    (lerp_between _ _ t h0 h1).1, (lerp_between _ _ t h0 h1).2,
    (lerp_between _ _ t h0 h1).1, (lerp_between _ _ t h0 h1).2⟩

/-- `LineSegment3D`: `min ≤ max` componentwise. -/
theorem seg3_min_le_max (l : LR3 α) :
    (seg3_min l).x ≤ (seg3_max l).x ∧ (seg3_min l).y ≤ (seg3_max l).y ∧
    (seg3_min l).z ≤ (seg3_max l).z := by
  simp only [seg3_min, seg3_max]
  exact ⟨min_le_max, min_le_max, min_le_max⟩

/-- `LineSegment3D`: each of the six sides of the box is touched by an end point. -/
theorem seg3_box_tight (l : LR3 α) :
    ((seg3_min l).x = (seg3_point_at l 0).x ∨ (seg3_min l).x = (seg3_point_at l 1).x) ∧
    ((seg3_min l).y = (seg3_point_at l 0).y ∨ (seg3_min l).y = (seg3_point_at l 1).y) ∧
    ((seg3_min l).z = (seg3_point_at l 0).z ∨ (seg3_min l).z = (seg3_point_at l 1).z) ∧
    ((seg3_max l).x = (seg3_point_at l 0).x ∨ (seg3_max l).x = (seg3_point_at l 1).x) ∧
    ((seg3_max l).y = (seg3_point_at l 0).y ∨ (seg3_max l).y = (seg3_point_at l 1).y) ∧
    ((seg3_max l).z = (seg3_point_at l 0).z ∨ (seg3_max l).z = (seg3_point_at l 1).z) := by
  simp only [seg3_min, seg3_max, seg3_point_at]
  exact ⟨min_end _ _, min_end _ _, min_end _ _, max_end _ _, max_end _ _, max_end _ _⟩

/-- `LineSegment3D.center` (`p + v/2`) is the midpoint of `min` and `max`, and equals
`midpoint`. -/
theorem seg3_center_eq (l : LR3 α) :
    (seg3_center l).x = ((seg3_min l).x + (seg3_max l).x) / 2 ∧
    (seg3_center l).y = ((seg3_min l).y + (seg3_max l).y) / 2 ∧
    (seg3_center l).z = ((seg3_min l).z + (seg3_max l).z) / 2 ∧
    seg3_center l = seg3_midpoint l := by
  simp only [seg3_min, seg3_max, seg3_center, seg3_midpoint]
  refine ⟨min_max_mid _ _, min_max_mid _ _, min_max_mid _ _, ?_⟩
  ext <;> simp only [] <;> ring

/-- `Ray3D` extents are those of the segment `p … p + v`: the same box as `LineSegment3D`
(so containment, `min ≤ max` and tightness carry over verbatim). -/
theorem ray3_box_eq (l : LR3 α) : ray3_min l = seg3_min l ∧ ray3_max l = seg3_max l :=
  ⟨rfl, rfl⟩

/-! ## B. Sphere -/

/-- `Sphere.min = center - r`, `Sphere.max = center + r` componentwise; `min ≤ max` for `r ≥ 0`
and the centre is the midpoint. -/
theorem sphere_box_eq (s : SphereS α) :
    sphere_min s = ⟨s.center.x - s.radius, s.center.y - s.radius, s.center.z - s.radius⟩ ∧
    sphere_max s = ⟨s.center.x + s.radius, s.center.y + s.radius, s.center.z + s.radius⟩ :=
  ⟨rfl, rfl⟩

/-- Every point of the ball (`|p - c|² ≤ r²`, `r ≥ 0`) lies in the sphere's box. -/
theorem sphere_box_contains (s : SphereS α) (hr : 0 ≤ s.radius) (p : V3 α)
    (hp : distSq3 p s.center ≤ s.radius * s.radius) :
    (sphere_min s).x ≤ p.x ∧ p.x ≤ (sphere_max s).x ∧
    (sphere_min s).y ≤ p.y ∧ p.y ≤ (sphere_max s).y ∧
    (sphere_min s).z ≤ p.z ∧ p.z ≤ (sphere_max s).z := by
  simp only [distSq3, V3.normSq, V3.sub] at hp
  have hx := mul_self_nonneg (p.x - s.center.x)
  have hy := mul_self_nonneg (p.y - s.center.y)
  have hz := mul_self_nonneg (p.z - s.center.z)
  obtain ⟨x1, x2⟩ := abs_le_of_sq_le (p.x - s.center.x) s.radius hr (by linarith)
  obtain ⟨y1, y2⟩ := abs_le_of_sq_le (p.y - s.center.y) s.radius hr (by linarith)
  obtain ⟨z1, z2⟩ := abs_le_of_sq_le (p.z - s.center.z) s.radius hr (by linarith)
  simp only [sphere_min, sphere_max]
  refine ⟨by linarith, by linarith, by linarith, by linarith, by linarith, by linarith⟩

/-- The six axis points `c ± r·eᵢ` lie on the sphere and touch the six sides of the box; and
`min ≤ max` when `r ≥ 0`. -/
theorem sphere_box_tight (s : SphereS α) :
    distSq3 (⟨(sphere_min s).x, s.center.y, s.center.z⟩ : V3 α) s.center = s.radius * s.radius ∧
    distSq3 (⟨s.center.x, (sphere_min s).y, s.center.z⟩ : V3 α) s.center = s.radius * s.radius ∧
    distSq3 (⟨s.center.x, s.center.y, (sphere_min s).z⟩ : V3 α) s.center = s.radius * s.radius ∧
    distSq3 (⟨(sphere_max s).x, s.center.y, s.center.z⟩ : V3 α) s.center = s.radius * s.radius ∧
    distSq3 (⟨s.center.x, (sphere_max s).y, s.center.z⟩ : V3 α) s.center = s.radius * s.radius ∧
    distSq3 (⟨s.center.x, s.center.y, (sphere_max s).z⟩ : V3 α) s.center = s.radius * s.radius ∧
    (0 ≤ s.radius → (sphere_min s).x ≤ (sphere_max s).x ∧ (sphere_min s).y ≤ (sphere_max s).y ∧
      (sphere_min s).z ≤ (sphere_max s).z) := by
  simp only [distSq3, V3.normSq, V3.sub, sphere_min, sphere_max]
  refine ⟨by ring, by ring, by ring, by ring, by ring, by ring, fun h => ?_⟩
  exact ⟨by linarith, by linarith, by linarith⟩

/-! ## C. The vertex scan of `_calculate_min_max` -/

/-- `scan_min_max` (one coordinate): the literal Python scan (`if v < mn … elif v > mx …`)
over a non-empty list returns `(mn, mx)` with `mn ≤ mx`, every value within `[mn, mx]`, both
bounds attained by list elements, and hence the tightest such pair. -/
theorem scan_min_max {β : Type} [LinearOrder β] (v0 : β) (rest : List β) :
    (scan v0 rest).1 ≤ (scan v0 rest).2 ∧
    (∀ v ∈ v0 :: rest, (scan v0 rest).1 ≤ v ∧ v ≤ (scan v0 rest).2) ∧
    (scan v0 rest).1 ∈ v0 :: rest ∧ (scan v0 rest).2 ∈ v0 :: rest :=
  scan_spec v0 rest

/-- `Base2DIn2D._calculate_min_max` (Polygon2D, Mesh2D, Polyline2D): one pass over
`vertices[1:]` updating the x and the y bounds with the `if / elif` body, starting from
`vertices[0]`.  Returns `(min_pt, max_pt)`. -/
def minMax2 (v0 : V2 α) (rest : List (V2 α)) : V2 α × V2 α :=
  let st := rest.foldl
    (fun (st : (α × α) × (α × α)) v => (scanStep st.1 v.x, scanStep st.2 v.y))
    ((v0.x, v0.x), (v0.y, v0.y))
  (⟨st.1.1, st.2.1⟩, ⟨st.1.2, st.2.2⟩)

/-- `Base2DIn3D._calculate_min_max` / `Face3D._calculate_min_max` (Mesh3D, Polyline3D,
Face3D boundary): the same loop with three coordinates. -/
def minMax3 (v0 : V3 α) (rest : List (V3 α)) : V3 α × V3 α :=
  let st := rest.foldl
    (fun (st : (α × α) × (α × α) × (α × α)) v =>
      (scanStep st.1 v.x, scanStep st.2.1 v.y, scanStep st.2.2 v.z))
    ((v0.x, v0.x), (v0.y, v0.y), (v0.z, v0.z))
  (⟨st.1.1, st.2.1.1, st.2.2.1⟩, ⟨st.1.2, st.2.1.2, st.2.2.2⟩)

/-- The 2D loop is one scalar scan per coordinate. -/
theorem minMax2_eq (v0 : V2 α) (rest : List (V2 α)) :
    minMax2 v0 rest =
      (⟨(scan v0.x (rest.map (·.x))).1, (scan v0.y (rest.map (·.y))).1⟩,
       ⟨(scan v0.x (rest.map (·.x))).2, (scan v0.y (rest.map (·.y))).2⟩) := by
  unfold minMax2 scan
  simp only [List.foldl_map]
  rw [foldl_prod (fun st (v : V2 α) => scanStep st v.x) (fun st (v : V2 α) => scanStep st v.y)]

/-- The 3D loop is one scalar scan per coordinate. -/
theorem minMax3_eq (v0 : V3 α) (rest : List (V3 α)) :
    minMax3 v0 rest =
      (⟨(scan v0.x (rest.map (·.x))).1, (scan v0.y (rest.map (·.y))).1,
        (scan v0.z (rest.map (·.z))).1⟩,
       ⟨(scan v0.x (rest.map (·.x))).2, (scan v0.y (rest.map (·.y))).2,
        (scan v0.z (rest.map (·.z))).2⟩) := by
  unfold minMax3 scan
  simp only [List.foldl_map]
  rw [foldl_prod (fun st (v : V3 α) => scanStep st v.x)
      (fun (st : (α × α) × (α × α)) (v : V3 α) => (scanStep st.1 v.y, scanStep st.2 v.z)),
    foldl_prod (fun st (v : V3 α) => scanStep st v.y) (fun st (v : V3 α) => scanStep st v.z)]

/-- Polygon2D / Mesh2D / Polyline2D box: `min ≤ max`, every vertex inside, and each of the four
sides touched by some vertex. -/
theorem minMax2_spec (v0 : V2 α) (rest : List (V2 α)) :
    (minMax2 v0 rest).1.x ≤ (minMax2 v0 rest).2.x ∧ (minMax2 v0 rest).1.y ≤ (minMax2 v0 rest).2.y ∧
    (∀ v ∈ v0 :: rest, (minMax2 v0 rest).1.x ≤ v.x ∧ v.x ≤ (minMax2 v0 rest).2.x ∧
      (minMax2 v0 rest).1.y ≤ v.y ∧ v.y ≤ (minMax2 v0 rest).2.y) ∧
    (∃ v ∈ v0 :: rest, v.x = (minMax2 v0 rest).1.x) ∧
    (∃ v ∈ v0 :: rest, v.y = (minMax2 v0 rest).1.y) ∧
    (∃ v ∈ v0 :: rest, v.x = (minMax2 v0 rest).2.x) ∧
    (∃ v ∈ v0 :: rest, v.y = (minMax2 v0 rest).2.y) := by
  rw [minMax2_eq]
  obtain ⟨x1, x2, x3, x4⟩ := scan_spec v0.x (rest.map (·.x))
  obtain ⟨y1, y2, y3, y4⟩ := scan_spec v0.y (rest.map (·.y))
  have mx : ∀ c : α, c ∈ v0.x :: rest.map (·.x) → ∃ v ∈ v0 :: rest, v.x = c := by
    intro c hc
    rw [← List.map_cons (f := fun v : V2 α => v.x)] at hc
    obtain ⟨v, hv, rfl⟩ := List.mem_map.mp hc
    exact ⟨v, hv, rfl⟩
  have my : ∀ c : α, c ∈ v0.y :: rest.map (·.y) → ∃ v ∈ v0 :: rest, v.y = c := by
    intro c hc
    rw [← List.map_cons (f := fun v : V2 α => v.y)] at hc
    obtain ⟨v, hv, rfl⟩ := List.mem_map.mp hc
    exact ⟨v, hv, rfl⟩
  refine ⟨x1, y1, ?_, mx _ x3, my _ y3, mx _ x4, my _ y4⟩
  intro v hv
  have hx : v.x ∈ v0.x :: rest.map (·.x) := by
    rw [← List.map_cons (f := fun v : V2 α => v.x)]; exact List.mem_map_of_mem hv
  have hy : v.y ∈ v0.y :: rest.map (·.y) := by
    rw [← List.map_cons (f := fun v : V2 α => v.y)]; exact List.mem_map_of_mem hv
  exact ⟨(x2 _ hx).1, (x2 _ hx).2, (y2 _ hy).1, (y2 _ hy).2⟩

/-- Face3D / Mesh3D / Polyline3D box: `min ≤ max`, every vertex inside, and each of the six
sides touched by some vertex. -/
theorem minMax3_spec (v0 : V3 α) (rest : List (V3 α)) :
    (minMax3 v0 rest).1.x ≤ (minMax3 v0 rest).2.x ∧ (minMax3 v0 rest).1.y ≤ (minMax3 v0 rest).2.y ∧
    (minMax3 v0 rest).1.z ≤ (minMax3 v0 rest).2.z ∧
    (∀ v ∈ v0 :: rest, (minMax3 v0 rest).1.x ≤ v.x ∧ v.x ≤ (minMax3 v0 rest).2.x ∧
      (minMax3 v0 rest).1.y ≤ v.y ∧ v.y ≤ (minMax3 v0 rest).2.y ∧
      (minMax3 v0 rest).1.z ≤ v.z ∧ v.z ≤ (minMax3 v0 rest).2.z) ∧
    (∃ v ∈ v0 :: rest, v.x = (minMax3 v0 rest).1.x) ∧
    (∃ v ∈ v0 :: rest, v.y = (minMax3 v0 rest).1.y) ∧
    (∃ v ∈ v0 :: rest, v.z = (minMax3 v0 rest).1.z) ∧
    (∃ v ∈ v0 :: rest, v.x = (minMax3 v0 rest).2.x) ∧
    (∃ v ∈ v0 :: rest, v.y = (minMax3 v0 rest).2.y) ∧
    (∃ v ∈ v0 :: rest, v.z = (minMax3 v0 rest).2.z) := by
  rw [minMax3_eq]
  obtain ⟨x1, x2, x3, x4⟩ := scan_spec v0.x (rest.map (·.x))
  obtain ⟨y1, y2, y3, y4⟩ := scan_spec v0.y (rest.map (·.y))
  obtain ⟨z1, z2, z3, z4⟩ := scan_spec v0.z (rest.map (·.z))
  have mx : ∀ c : α, c ∈ v0.x :: rest.map (·.x) → ∃ v ∈ v0 :: rest, v.x = c := by
    intro c hc
    rw [← List.map_cons (f := fun v : V3 α => v.x)] at hc
    obtain ⟨v, hv, rfl⟩ := List.mem_map.mp hc
    exact ⟨v, hv, rfl⟩
  have my : ∀ c : α, c ∈ v0.y :: rest.map (·.y) → ∃ v ∈ v0 :: rest, v.y = c := by
    intro c hc
    rw [← List.map_cons (f := fun v : V3 α => v.y)] at hc
    obtain ⟨v, hv, rfl⟩ := List.mem_map.mp hc
    exact ⟨v, hv, rfl⟩
  have mz : ∀ c : α, c ∈ v0.z :: rest.map (·.z) → ∃ v ∈ v0 :: rest, v.z = c := by
    intro c hc
    rw [← List.map_cons (f := fun v : V3 α => v.z)] at hc
    obtain ⟨v, hv, rfl⟩ := List.mem_map.mp hc
    exact ⟨v, hv, rfl⟩
  refine ⟨x1, y1, z1, ?_, mx _ x3, my _ y3, mz _ z3, mx _ x4, my _ y4, mz _ z4⟩
  intro v hv
  have hx : v.x ∈ v0.x :: rest.map (·.x) := by
    rw [← List.map_cons (f := fun v : V3 α => v.x)]; exact List.mem_map_of_mem hv
  have hy : v.y ∈ v0.y :: rest.map (·.y) := by
    rw [← List.map_cons (f := fun v : V3 α => v.y)]; exact List.mem_map_of_mem hv
  have hz : v.z ∈ v0.z :: rest.map (·.z) := by
    rw [← List.map_cons (f := fun v : V3 α => v.z)]; exact List.mem_map_of_mem hv
  exact ⟨(x2 _ hx).1, (x2 _ hx).2, (y2 _ hy).1, (y2 _ hy).2, (z2 _ hz).1, (z2 _ hz).2⟩

/-! ## D. `arc2d_box` — the 2D arc bounding box

`TrigQuadrants M` (cardinal values and quadrant monotonicity of `M.cos`, `M.sin`), `AnglesOk`
(`0 ≤ a1, a2 ≤ 2π`), `CachesOk` (`_cos_a1 = cos a1` …), `InSpan` (the counter-clockwise span:
`a1 ≤ t ≤ a2`, or `t ≥ a1 ∨ t ≤ a2` within `[0, 2π]` for an inverted arc) and `arcPoint`
(`c + r (cos t, sin t)`) are defined in `Lemmas/ArcBox.lean`. -/

/-- `Arc2D._angle_quadrant`: quadrant `0` below `π/2`, `1` below `π`, `2` below `3π/2`, else
`3` (thresholds as used by the matrix lookup). -/
theorem angle_quadrant_spec (M : MathOps α) (hp : 0 < M.pi) (t : α) :
    (arc2_angle_quadrant M t = 0 ↔ t < M.pi / 2) ∧
    (arc2_angle_quadrant M t = 1 ↔ M.pi / 2 ≤ t ∧ t < M.pi) ∧
    (arc2_angle_quadrant M t = 2 ↔ M.pi ≤ t ∧ t < M.pi * (3 / 2)) ∧
    (arc2_angle_quadrant M t = 3 ↔ M.pi * (3 / 2) ≤ t) := by
  unfold arc2_angle_quadrant
  split_ifs with h1 h2 h3 <;> simp only [] <;>
    refine ⟨?_, ?_, ?_, ?_⟩ <;> constructor <;> intro h <;>
    first
      | contradiction
      | omega
      | rfl
      | linarith
      | (constructor <;> linarith)
      | (exfalso; obtain ⟨ha, hb⟩ := h; linarith)
      | (exfalso; linarith)

/-- **`arc2d_box`, containment**: for an arc with `0 ≤ a1, a2 ≤ 2π`, `r > 0` and coherent
caches, every point `c + r (cos t, sin t)` with `t` in the counter-clockwise span from `a1` to
`a2` lies in `[arc2_min, arc2_max]` — for all 4 × 4 quadrant pairs, inverted or not (including
inverted arcs whose ends lie in the same quadrant, and full circles). -/
theorem arc2d_box_contains (M : MathOps α) (T : TrigQuadrants M) (a : Arc2S α)
    (hA : AnglesOk M a) (hr : 0 < a.r) (hC : CachesOk M a) (t : α) (ht : InSpan M a t) :
    (arc2_min M a).x ≤ (arcPoint M a t).x ∧ (arcPoint M a t).x ≤ (arc2_max M a).x ∧
    (arc2_min M a).y ≤ (arcPoint M a t).y ∧ (arcPoint M a t).y ≤ (arc2_max M a).y := by
  obtain ⟨hc1, hs1, hc2, hs2⟩ := hC
  have t0 := ht.1; have t1 := ht.2.1
  simp only [arcPoint]
  refine ⟨?_, ?_, ?_, ?_⟩
  · rcases arc2_min_x_cases M a T.pi_pos hA with ⟨e, _⟩ | ⟨e, hn⟩
    · rw [e]
      have := mul_le_mul_of_nonneg_right (T.neg_one_le_cos t0 t1) hr.le
      linarith
    · rw [e, hc1, hc2]
      rcases min_le_iff.mp (min_ends_le_cos T a hA hn ht) with h | h
      · have := mul_le_mul_of_nonneg_right h hr.le
        have h' : min (M.cos a.a1 * a.r) (M.cos a.a2 * a.r) ≤ M.cos t * a.r := min_le_of_left_le this
        linarith
      · have := mul_le_mul_of_nonneg_right h hr.le
        have h' : min (M.cos a.a1 * a.r) (M.cos a.a2 * a.r) ≤ M.cos t * a.r := min_le_of_right_le this
        linarith
  · rcases arc2_max_x_cases M a T.pi_pos hA with ⟨e, _⟩ | ⟨e, hn⟩
    · rw [e]
      have := mul_le_mul_of_nonneg_right (T.cos_le_one t0 t1) hr.le
      linarith
    · rw [e, hc1, hc2]
      rcases le_max_iff.mp (cos_le_max_ends T a hA hn ht) with h | h
      · have := mul_le_mul_of_nonneg_right h hr.le
        have h' := le_max_of_le_left (c := M.cos a.a2 * a.r) this
        linarith
      · have := mul_le_mul_of_nonneg_right h hr.le
        have h' := le_max_of_le_right (b := M.cos a.a1 * a.r) this
        linarith
  · rcases arc2_min_y_cases M a T.pi_pos hA with ⟨e, _⟩ | ⟨e, hn⟩
    · rw [e]
      have := mul_le_mul_of_nonneg_right (T.neg_one_le_sin t0 t1) hr.le
      linarith
    · rw [e, hs1, hs2]
      rcases min_le_iff.mp (min_ends_le_sin T a hA hn ht) with h | h
      · have := mul_le_mul_of_nonneg_right h hr.le
        have h' : min (M.sin a.a1 * a.r) (M.sin a.a2 * a.r) ≤ M.sin t * a.r := min_le_of_left_le this
        linarith
      · have := mul_le_mul_of_nonneg_right h hr.le
        have h' : min (M.sin a.a1 * a.r) (M.sin a.a2 * a.r) ≤ M.sin t * a.r := min_le_of_right_le this
        linarith
  · rcases arc2_max_y_cases M a T.pi_pos hA with ⟨e, _⟩ | ⟨e, hn⟩
    · rw [e]
      have := mul_le_mul_of_nonneg_right (T.sin_le_one t0 t1) hr.le
      linarith
    · rw [e, hs1, hs2]
      rcases le_max_iff.mp (sin_le_max_ends T a hA hn ht) with h | h
      · have := mul_le_mul_of_nonneg_right h hr.le
        have h' := le_max_of_le_left (c := M.sin a.a2 * a.r) this
        linarith
      · have := mul_le_mul_of_nonneg_right h hr.le
        have h' := le_max_of_le_right (b := M.sin a.a1 * a.r) this
        linarith

/-- **`arc2d_box`, tightness**: each of the four sides of the box is touched by a point of the
arc — the bound equals the coordinate of `arcPoint t` for some `t` in the span, and this `t` is
an end angle (`a1`, `a2`) or the cardinal angle of that side (`0` for x-max, `π` for x-min,
`π/2` for y-max, `3π/2` for y-min). -/
theorem arc2d_box_tight (M : MathOps α) (T : TrigQuadrants M) (a : Arc2S α)
    (hA : AnglesOk M a) (hr : 0 < a.r) (hC : CachesOk M a) :
    (∃ t, InSpan M a t ∧ (t = a.a1 ∨ t = a.a2 ∨ t = M.pi) ∧
      (arc2_min M a).x = (arcPoint M a t).x) ∧
    (∃ t, InSpan M a t ∧ (t = a.a1 ∨ t = a.a2 ∨ t = 0) ∧
      (arc2_max M a).x = (arcPoint M a t).x) ∧
    (∃ t, InSpan M a t ∧ (t = a.a1 ∨ t = a.a2 ∨ t = M.pi * (3 / 2)) ∧
      (arc2_min M a).y = (arcPoint M a t).y) ∧
    (∃ t, InSpan M a t ∧ (t = a.a1 ∨ t = a.a2 ∨ t = M.pi / 2) ∧
      (arc2_max M a).y = (arcPoint M a t).y) := by
  obtain ⟨hc1, hs1, hc2, hs2⟩ := hC
  have i1 := inSpan_a1 M a hA
  have i2 := inSpan_a2 M a hA
  have hp := T.pi_pos
  simp only [arcPoint]
  refine ⟨?_, ?_, ?_, ?_⟩
  · rcases arc2_min_x_cases M a T.pi_pos hA with ⟨e, hin⟩ | ⟨e, _⟩
    · exact ⟨M.pi, hin, Or.inr (Or.inr rfl), by rw [e, T.cos_pi]; ring⟩
    · rcases min_choice (a.cos_a1 * a.r) (a.cos_a2 * a.r) with h | h
      · exact ⟨a.a1, i1, Or.inl rfl, by rw [e, h, hc1]⟩
      · exact ⟨a.a2, i2, Or.inr (Or.inl rfl), by rw [e, h, hc2]⟩
  · rcases arc2_max_x_cases M a T.pi_pos hA with ⟨e, hinv⟩ | ⟨e, _⟩
    · refine ⟨0, ⟨le_refl _, by linarith, fun _ => Or.inr hA.2.2.1, fun h => absurd hinv h⟩,
        Or.inr (Or.inr rfl), by rw [e, T.cos_zero]; ring⟩
    · rcases max_choice (a.cos_a1 * a.r) (a.cos_a2 * a.r) with h | h
      · exact ⟨a.a1, i1, Or.inl rfl, by rw [e, h, hc1]⟩
      · exact ⟨a.a2, i2, Or.inr (Or.inl rfl), by rw [e, h, hc2]⟩
  · rcases arc2_min_y_cases M a T.pi_pos hA with ⟨e, hin⟩ | ⟨e, _⟩
    · exact ⟨_, hin, Or.inr (Or.inr rfl), by rw [e, T.sin_three_half_pi]; ring⟩
    · rcases min_choice (a.sin_a1 * a.r) (a.sin_a2 * a.r) with h | h
      · exact ⟨a.a1, i1, Or.inl rfl, by rw [e, h, hs1]⟩
      · exact ⟨a.a2, i2, Or.inr (Or.inl rfl), by rw [e, h, hs2]⟩
  · rcases arc2_max_y_cases M a T.pi_pos hA with ⟨e, hin⟩ | ⟨e, _⟩
    · exact ⟨_, hin, Or.inr (Or.inr rfl), by rw [e, T.sin_half_pi]; ring⟩
    · rcases max_choice (a.sin_a1 * a.r) (a.sin_a2 * a.r) with h | h
      · exact ⟨a.a1, i1, Or.inl rfl, by rw [e, h, hs1]⟩
      · exact ⟨a.a2, i2, Or.inr (Or.inl rfl), by rw [e, h, hs2]⟩

/-- `Arc2D`: `min ≤ max` componentwise (consequence of containment of the start point). -/
theorem arc2d_min_le_max (M : MathOps α) (T : TrigQuadrants M) (a : Arc2S α)
    (hA : AnglesOk M a) (hr : 0 < a.r) (hC : CachesOk M a) :
    (arc2_min M a).x ≤ (arc2_max M a).x ∧ (arc2_min M a).y ≤ (arc2_max M a).y := by
  obtain ⟨h1, h2, h3, h4⟩ := arc2d_box_contains M T a hA hr hC a.a1 (inSpan_a1 M a hA)
  exact ⟨le_trans h1 h2, le_trans h3 h4⟩

/-- `Arc2D.point_at(u)` for `u ∈ [0, 1]` (what dense sampling of the curve evaluates) lies in
`[min, max]`; so do `p1`, `p2` and `midpoint` (`u = 0, 1, 1/2`). -/
theorem arc2_point_at_in_box (M : MathOps α) (T : TrigQuadrants M) (a : Arc2S α)
    (hA : AnglesOk M a) (hr : 0 < a.r) (hC : CachesOk M a) (u : α) (h0 : 0 ≤ u) (h1 : u ≤ 1) :
    (arc2_min M a).x ≤ (arc2_point_at M a u).x ∧ (arc2_point_at M a u).x ≤ (arc2_max M a).x ∧
    (arc2_min M a).y ≤ (arc2_point_at M a u).y ∧ (arc2_point_at M a u).y ≤ (arc2_max M a).y := by
  rw [arc2_point_at_eq]
  exact arc2d_box_contains M T a hA hr hC _ (paramAngle_inSpan M a T.pi_pos hA h0 h1)

/-! ## E. `circle3d_box` — circles in a 3D plane (Arc3D full circle, cone / cylinder bases) -/

/-- **`circle3d_box`**: for a valid frame (unit normal `n`, orthonormal `x`, `y = n × x`), a
radius `r ≥ 0` and any point `(c, s)` of the unit circle, coordinate `i` of the circle point
`o + r (c·x + s·y)` lies within `oᵢ ± r·wᵢ`, where `wᵢ ≥ 0`, `wᵢ² = 1 - nᵢ²`
(`wᵢ = sqrt(1 - nᵢ²)`): Cauchy–Schwarz with `xᵢ² + yᵢ² = 1 - nᵢ²`. -/
theorem circle3d_box {pl : PlaneS α} (hv : PlaneValid pl) (r c s : α) (hr : 0 ≤ r)
    (hcs : c * c + s * s = 1) (w : V3 α)
    (hw0 : 0 ≤ w.x ∧ 0 ≤ w.y ∧ 0 ≤ w.z)
    (hw : w.x * w.x = 1 - pl.n.x * pl.n.x ∧ w.y * w.y = 1 - pl.n.y * pl.n.y ∧
      w.z * w.z = 1 - pl.n.z * pl.n.z) :
    pl.o.x - w.x * r ≤ (plane_xy_to_xyz pl ⟨c * r, s * r⟩).x ∧
    (plane_xy_to_xyz pl ⟨c * r, s * r⟩).x ≤ pl.o.x + w.x * r ∧
    pl.o.y - w.y * r ≤ (plane_xy_to_xyz pl ⟨c * r, s * r⟩).y ∧
    (plane_xy_to_xyz pl ⟨c * r, s * r⟩).y ≤ pl.o.y + w.y * r ∧
    pl.o.z - w.z * r ≤ (plane_xy_to_xyz pl ⟨c * r, s * r⟩).z ∧
    (plane_xy_to_xyz pl ⟨c * r, s * r⟩).z ≤ pl.o.z + w.z * r := by
  have rx := frame_row_x pl.n pl.x hv.n_unit hv.x_unit hv.n_perp_x
  have ry := frame_row_y pl.n pl.x hv.n_unit hv.x_unit hv.n_perp_x
  have rz := frame_row_z pl.n pl.x hv.n_unit hv.x_unit hv.n_perp_x
  rw [← hv.y_eq] at rx ry rz
  obtain ⟨x1, x2⟩ := circle_coord_bound c s _ _ _ w.x r hcs rx hw0.1 hw.1 hr
  obtain ⟨y1, y2⟩ := circle_coord_bound c s _ _ _ w.y r hcs ry hw0.2.1 hw.2.1 hr
  obtain ⟨z1, z2⟩ := circle_coord_bound c s _ _ _ w.z r hcs rz hw0.2.2 hw.2.2 hr
  simp only [plane_xy_to_xyz]
  refine ⟨by linarith, by linarith, by linarith, by linarith, by linarith, by linarith⟩

/-- `circle3d_box` is tight: each of the six bounds `oᵢ ± r·wᵢ` is the coordinate of some point
of the circle. -/
theorem circle3d_box_tight {pl : PlaneS α} (hv : PlaneValid pl) (r : α) (w : V3 α)
    (hw0 : 0 ≤ w.x ∧ 0 ≤ w.y ∧ 0 ≤ w.z)
    (hw : w.x * w.x = 1 - pl.n.x * pl.n.x ∧ w.y * w.y = 1 - pl.n.y * pl.n.y ∧
      w.z * w.z = 1 - pl.n.z * pl.n.z) :
    (∃ c s, c * c + s * s = 1 ∧ (plane_xy_to_xyz pl ⟨c * r, s * r⟩).x = pl.o.x + w.x * r) ∧
    (∃ c s, c * c + s * s = 1 ∧ (plane_xy_to_xyz pl ⟨c * r, s * r⟩).x = pl.o.x - w.x * r) ∧
    (∃ c s, c * c + s * s = 1 ∧ (plane_xy_to_xyz pl ⟨c * r, s * r⟩).y = pl.o.y + w.y * r) ∧
    (∃ c s, c * c + s * s = 1 ∧ (plane_xy_to_xyz pl ⟨c * r, s * r⟩).y = pl.o.y - w.y * r) ∧
    (∃ c s, c * c + s * s = 1 ∧ (plane_xy_to_xyz pl ⟨c * r, s * r⟩).z = pl.o.z + w.z * r) ∧
    (∃ c s, c * c + s * s = 1 ∧ (plane_xy_to_xyz pl ⟨c * r, s * r⟩).z = pl.o.z - w.z * r) := by
  have rx := frame_row_x pl.n pl.x hv.n_unit hv.x_unit hv.n_perp_x
  have ry := frame_row_y pl.n pl.x hv.n_unit hv.x_unit hv.n_perp_x
  have rz := frame_row_z pl.n pl.x hv.n_unit hv.x_unit hv.n_perp_x
  rw [← hv.y_eq] at rx ry rz
  obtain ⟨cx, sx, hx, px, mx⟩ := circle_coord_attained _ _ _ w.x r rx hw0.1 hw.1
  obtain ⟨cy, sy, hy, py, my⟩ := circle_coord_attained _ _ _ w.y r ry hw0.2.1 hw.2.1
  obtain ⟨cz, sz, hz, pz, mz⟩ := circle_coord_attained _ _ _ w.z r rz hw0.2.2 hw.2.2
  simp only [plane_xy_to_xyz]
  refine ⟨⟨cx, sx, hx, by linarith⟩, ⟨-cx, -sx, by linarith, by linarith⟩,
    ⟨cy, sy, hy, by linarith⟩, ⟨-cy, -sy, by linarith, by linarith⟩,
    ⟨cz, sz, hz, by linarith⟩, ⟨-cz, -sz, by linarith, by linarith⟩⟩

/-- `Arc3D._calculate_min_max`, full-circle branch (`a1 = 0`, `a2 = 2π`): with a valid plane
and `sqrt 1 = 1`, the generated box is `oᵢ ∓ sin(acos nᵢ)·r` (the code computes the angle
between `n` and each world axis with `acos`, then its sine). -/
theorem arc3_circle_box_eq (M : MathOps α) (hs1 : M.sqrt 1 = 1) (a : Arc3S α)
    (hv : PlaneValid a.plane) (h1 : a.arc2d.a1 = 0) (h2 : a.arc2d.a2 = 2 * M.pi) :
    arc3_min M a = ⟨a.plane.o.x - M.sin (M.acos a.plane.n.x) * a.arc2d.r,
      a.plane.o.y - M.sin (M.acos a.plane.n.y) * a.arc2d.r,
      a.plane.o.z - M.sin (M.acos a.plane.n.z) * a.arc2d.r⟩ ∧
    arc3_max M a = ⟨a.plane.o.x + M.sin (M.acos a.plane.n.x) * a.arc2d.r,
      a.plane.o.y + M.sin (M.acos a.plane.n.y) * a.arc2d.r,
      a.plane.o.z + M.sin (M.acos a.plane.n.z) * a.arc2d.r⟩ := by
  have hn := hv.n_unit
  unfold V3.normSq at hn
  constructor
  · unfold arc3_min
    rw [if_pos h1, if_pos h2]
    simp only [hn, hs1, mul_one, mul_zero, add_zero, zero_add, div_one]
  · unfold arc3_max
    rw [if_pos h1, if_pos h2]
    simp only [hn, hs1, mul_one, mul_zero, add_zero, zero_add, div_one]

/-- In a valid plane every component of the unit normal lies in `[-1, 1]`. -/
theorem normal_component_range {pl : PlaneS α} (hv : PlaneValid pl) :
    (-1 ≤ pl.n.x ∧ pl.n.x ≤ 1) ∧ (-1 ≤ pl.n.y ∧ pl.n.y ≤ 1) ∧ (-1 ≤ pl.n.z ∧ pl.n.z ≤ 1) := by
  have hn := hv.n_unit
  unfold V3.normSq at hn
  have hx := mul_self_nonneg pl.n.x; have hy := mul_self_nonneg pl.n.y
  have hz := mul_self_nonneg pl.n.z
  exact ⟨abs_le_of_sq_le _ 1 zero_le_one (by linarith),
    abs_le_of_sq_le _ 1 zero_le_one (by linarith), abs_le_of_sq_le _ 1 zero_le_one (by linarith)⟩

/-- **`circle3d_box` for `Arc3D` circles**: under the `sqrt` law and the trig law
`sin (acos t) = sqrt (1 - t²)` on `[-1, 1]`, every point `o + r (c·x + s·y)`, `c² + s² = 1`, of
a full-circle `Arc3D` (valid plane, `r ≥ 0`) lies in `[arc3_min, arc3_max]`, and `min ≤ max`. -/
theorem arc3_circle_box_contains (M : MathOps α)
    (hsqrt : ∀ x, 0 ≤ x → M.sqrt x * M.sqrt x = x ∧ 0 ≤ M.sqrt x)
    (hsa : ∀ t, -1 ≤ t → t ≤ 1 → M.sin (M.acos t) = M.sqrt (1 - t * t))
    (a : Arc3S α) (hv : PlaneValid a.plane) (h1 : a.arc2d.a1 = 0) (h2 : a.arc2d.a2 = 2 * M.pi)
    (hr : 0 ≤ a.arc2d.r) (c s : α) (hcs : c * c + s * s = 1) :
    (arc3_min M a).x ≤ (plane_xy_to_xyz a.plane ⟨c * a.arc2d.r, s * a.arc2d.r⟩).x ∧
    (plane_xy_to_xyz a.plane ⟨c * a.arc2d.r, s * a.arc2d.r⟩).x ≤ (arc3_max M a).x ∧
    (arc3_min M a).y ≤ (plane_xy_to_xyz a.plane ⟨c * a.arc2d.r, s * a.arc2d.r⟩).y ∧
    (plane_xy_to_xyz a.plane ⟨c * a.arc2d.r, s * a.arc2d.r⟩).y ≤ (arc3_max M a).y ∧
    (arc3_min M a).z ≤ (plane_xy_to_xyz a.plane ⟨c * a.arc2d.r, s * a.arc2d.r⟩).z ∧
    (plane_xy_to_xyz a.plane ⟨c * a.arc2d.r, s * a.arc2d.r⟩).z ≤ (arc3_max M a).z := by
  obtain ⟨⟨x1, x2⟩, ⟨y1, y2⟩, ⟨z1, z2⟩⟩ := normal_component_range hv
  have nx : 0 ≤ 1 - a.plane.n.x * a.plane.n.x := by nlinarith
  have ny : 0 ≤ 1 - a.plane.n.y * a.plane.n.y := by nlinarith
  have nz : 0 ≤ 1 - a.plane.n.z * a.plane.n.z := by nlinarith
  obtain ⟨e1, e2⟩ := arc3_circle_box_eq M (sqrt_one M hsqrt) a hv h1 h2
  rw [e1, e2, hsa _ x1 x2, hsa _ y1 y2, hsa _ z1 z2]
  exact circle3d_box hv a.arc2d.r c s hr hcs
    ⟨M.sqrt (1 - a.plane.n.x * a.plane.n.x), M.sqrt (1 - a.plane.n.y * a.plane.n.y),
      M.sqrt (1 - a.plane.n.z * a.plane.n.z)⟩
    ⟨(hsqrt _ nx).2, (hsqrt _ ny).2, (hsqrt _ nz).2⟩ ⟨(hsqrt _ nx).1, (hsqrt _ ny).1, (hsqrt _ nz).1⟩

/-- The full-circle `Arc3D` box is tight: each of its six sides is touched by a point of the
circle. -/
theorem arc3_circle_box_tight (M : MathOps α)
    (hsqrt : ∀ x, 0 ≤ x → M.sqrt x * M.sqrt x = x ∧ 0 ≤ M.sqrt x)
    (hsa : ∀ t, -1 ≤ t → t ≤ 1 → M.sin (M.acos t) = M.sqrt (1 - t * t))
    (a : Arc3S α) (hv : PlaneValid a.plane) (h1 : a.arc2d.a1 = 0) (h2 : a.arc2d.a2 = 2 * M.pi) :
    (∃ c s, c * c + s * s = 1 ∧
      (plane_xy_to_xyz a.plane ⟨c * a.arc2d.r, s * a.arc2d.r⟩).x = (arc3_max M a).x) ∧
    (∃ c s, c * c + s * s = 1 ∧
      (plane_xy_to_xyz a.plane ⟨c * a.arc2d.r, s * a.arc2d.r⟩).x = (arc3_min M a).x) ∧
    (∃ c s, c * c + s * s = 1 ∧
      (plane_xy_to_xyz a.plane ⟨c * a.arc2d.r, s * a.arc2d.r⟩).y = (arc3_max M a).y) ∧
    (∃ c s, c * c + s * s = 1 ∧
      (plane_xy_to_xyz a.plane ⟨c * a.arc2d.r, s * a.arc2d.r⟩).y = (arc3_min M a).y) ∧
    (∃ c s, c * c + s * s = 1 ∧
      (plane_xy_to_xyz a.plane ⟨c * a.arc2d.r, s * a.arc2d.r⟩).z = (arc3_max M a).z) ∧
    (∃ c s, c * c + s * s = 1 ∧
      (plane_xy_to_xyz a.plane ⟨c * a.arc2d.r, s * a.arc2d.r⟩).z = (arc3_min M a).z) := by
  obtain ⟨⟨x1, x2⟩, ⟨y1, y2⟩, ⟨z1, z2⟩⟩ := normal_component_range hv
  have nx : 0 ≤ 1 - a.plane.n.x * a.plane.n.x := by nlinarith
  have ny : 0 ≤ 1 - a.plane.n.y * a.plane.n.y := by nlinarith
  have nz : 0 ≤ 1 - a.plane.n.z * a.plane.n.z := by nlinarith
  obtain ⟨e1, e2⟩ := arc3_circle_box_eq M (sqrt_one M hsqrt) a hv h1 h2
  rw [e1, e2, hsa _ x1 x2, hsa _ y1 y2, hsa _ z1 z2]
  exact circle3d_box_tight hv a.arc2d.r
    ⟨M.sqrt (1 - a.plane.n.x * a.plane.n.x), M.sqrt (1 - a.plane.n.y * a.plane.n.y),
      M.sqrt (1 - a.plane.n.z * a.plane.n.z)⟩
    ⟨(hsqrt _ nx).2, (hsqrt _ ny).2, (hsqrt _ nz).2⟩ ⟨(hsqrt _ nx).1, (hsqrt _ ny).1, (hsqrt _ nz).1⟩

/-! ## F. Cone and cylinder: hull of the base circle(s) and the vertex -/

/-- The half-widths `wᵢ = sin (acos nᵢ)` the code uses for a circle with unit normal `n`. -/
def halfWidths (M : MathOps α) (n : V3 α) : V3 α :=
  ⟨M.sin (M.acos n.x), M.sin (M.acos n.y), M.sin (M.acos n.z)⟩

/-- `Cone._calculate_min_max`: for a non-zero axis, under the `sqrt` law, the generated box is
the componentwise min / max of the vertex and the base-circle box
`(vertex + axis)ᵢ ∓ sin(acos nᵢ)·R`, with `n = normalize(-axis)` and `R = |axis|·tan(angle)` —
whichever x-axis branch `Plane.__init__` takes for the base plane. -/
theorem cone_box_eq (M : MathOps α)
    (hsqrt : ∀ x, 0 ≤ x → M.sqrt x * M.sqrt x = x ∧ 0 ≤ M.sqrt x)
    (s : ConeS α) (hA : V3.normSq s.axis ≠ 0) :
    let w := halfWidths M (v3_normalize M (v3_reverse s.axis))
    let R := M.sqrt (V3.normSq s.axis) * M.tan s.angle
    cone_min M s =
      ⟨min (s.vertex.x + s.axis.x - w.x * R) s.vertex.x,
       min (s.vertex.y + s.axis.y - w.y * R) s.vertex.y,
       min (s.vertex.z + s.axis.z - w.z * R) s.vertex.z⟩ ∧
    cone_max M s =
      ⟨max (s.vertex.x + s.axis.x + w.x * R) s.vertex.x,
       max (s.vertex.y + s.axis.y + w.y * R) s.vertex.y,
       max (s.vertex.z + s.axis.z + w.z * R) s.vertex.z⟩ := by
  have hA' : V3.normSq (v3_reverse s.axis) ≠ 0 := by
    simp only [V3.normSq, v3_reverse] at *
    intro h; apply hA; linear_combination h
  have hU := v3_normalize_normSq M hsqrt _ hA'
  have h1 := sqrt_one M hsqrt
  simp only [halfWidths]
  generalize hN : v3_normalize M (v3_reverse s.axis) = N at *
  unfold v3_normalize v3_reverse at hN
  obtain ⟨X, Y, Z⟩ := N
  simp only [V3.mk.injEq] at hN
  obtain ⟨hX, hY, hZ⟩ := hN
  unfold V3.normSq at hU
  simp only [] at hU
  constructor
  · unfold cone_min
    simp only [hX, hY, hZ, hU, h1, mul_one, mul_zero, add_zero, zero_add, div_one, V3.normSq]
    split_ifs <;> rfl
  · unfold cone_max
    simp only [hX, hY, hZ, hU, h1, mul_one, mul_zero, add_zero, zero_add, div_one, V3.normSq]
    split_ifs <;> rfl

/-- `Cylinder._calculate_min_max`: for a non-zero axis, under the `sqrt` law, the generated box
is the componentwise min / max of the two base-circle boxes `centerᵢ ∓ wᵢ r` and
`(center + axis)ᵢ ∓ wᵢ r`, `w = sin(acos nᵢ)`, `n = normalize(axis)`. -/
theorem cyl_box_eq (M : MathOps α)
    (hsqrt : ∀ x, 0 ≤ x → M.sqrt x * M.sqrt x = x ∧ 0 ≤ M.sqrt x)
    (s : CylS α) (hA : V3.normSq s.axis ≠ 0) :
    let w := halfWidths M (v3_normalize M s.axis)
    cyl_min M s =
      ⟨min (s.center.x - w.x * s.radius) (s.center.x + s.axis.x - w.x * s.radius),
       min (s.center.y - w.y * s.radius) (s.center.y + s.axis.y - w.y * s.radius),
       min (s.center.z - w.z * s.radius) (s.center.z + s.axis.z - w.z * s.radius)⟩ ∧
    cyl_max M s =
      ⟨max (s.center.x + w.x * s.radius) (s.center.x + s.axis.x + w.x * s.radius),
       max (s.center.y + w.y * s.radius) (s.center.y + s.axis.y + w.y * s.radius),
       max (s.center.z + w.z * s.radius) (s.center.z + s.axis.z + w.z * s.radius)⟩ := by
  have hU := v3_normalize_normSq M hsqrt _ hA
  have h1 := sqrt_one M hsqrt
  simp only [halfWidths]
  generalize hN : v3_normalize M s.axis = N at *
  unfold v3_normalize at hN
  obtain ⟨X, Y, Z⟩ := N
  simp only [V3.mk.injEq] at hN
  obtain ⟨hX, hY, hZ⟩ := hN
  unfold V3.normSq at hU
  simp only [] at hU
  constructor
  · unfold cyl_min
    simp only [hX, hY, hZ, hU, h1, mul_one, mul_zero, add_zero, zero_add, div_one]
    split_ifs <;> rfl
  · unfold cyl_max
    simp only [hX, hY, hZ, hU, h1, mul_one, mul_zero, add_zero, zero_add, div_one]
    split_ifs <;> rfl

/-- Cone containment: under the `sqrt` law and `sin (acos t) = sqrt (1 - t²)`, with
`tan(angle) ≥ 0`, every point `vertex + λ (Q - vertex)`, `λ ∈ [0, 1]`, `Q` on the base circle
(centre `vertex + axis`, radius `|axis|·tan(angle)`, in ANY valid frame whose normal is
`normalize(-axis)`), lies in `[cone_min, cone_max]` — in particular the vertex (`λ = 0`) and the
base circle (`λ = 1`). -/
theorem cone_box_contains (M : MathOps α)
    (hsqrt : ∀ x, 0 ≤ x → M.sqrt x * M.sqrt x = x ∧ 0 ≤ M.sqrt x)
    (hsa : ∀ t, -1 ≤ t → t ≤ 1 → M.sin (M.acos t) = M.sqrt (1 - t * t))
    (s : ConeS α) (hA : V3.normSq s.axis ≠ 0) (ht : 0 ≤ M.tan s.angle)
    (pl : PlaneS α) (hv : PlaneValid pl) (hn : pl.n = v3_normalize M (v3_reverse s.axis))
    (ho : pl.o = V3.add s.vertex s.axis) (c sn : α) (hcs : c * c + sn * sn = 1)
    (lam : α) (h0 : 0 ≤ lam) (h1 : lam ≤ 1) :
    let R := M.sqrt (V3.normSq s.axis) * M.tan s.angle
    let Q := plane_xy_to_xyz pl ⟨c * R, sn * R⟩
    let P := V3.add s.vertex (V3.smul lam (V3.sub Q s.vertex))
    (cone_min M s).x ≤ P.x ∧ P.x ≤ (cone_max M s).x ∧
    (cone_min M s).y ≤ P.y ∧ P.y ≤ (cone_max M s).y ∧
    (cone_min M s).z ≤ P.z ∧ P.z ≤ (cone_max M s).z := by
  intro R Q P
  have hR : 0 ≤ R := mul_nonneg (hsqrt _ (v3_normSq_nonneg _)).2 ht
  obtain ⟨⟨x1, x2⟩, ⟨y1, y2⟩, ⟨z1, z2⟩⟩ := normal_component_range hv
  have nx : 0 ≤ 1 - pl.n.x * pl.n.x := by nlinarith
  have ny : 0 ≤ 1 - pl.n.y * pl.n.y := by nlinarith
  have nz : 0 ≤ 1 - pl.n.z * pl.n.z := by nlinarith
  obtain ⟨e1, e2⟩ := cone_box_eq M hsqrt s hA
  have hw : halfWidths M (v3_normalize M (v3_reverse s.axis)) =
      ⟨M.sqrt (1 - pl.n.x * pl.n.x), M.sqrt (1 - pl.n.y * pl.n.y),
        M.sqrt (1 - pl.n.z * pl.n.z)⟩ := by
    rw [← hn]; simp only [halfWidths, hsa _ x1 x2, hsa _ y1 y2, hsa _ z1 z2]
  rw [hw] at e1 e2
  obtain ⟨c1, c2, c3, c4, c5, c6⟩ := circle3d_box hv R c sn hR hcs
    ⟨M.sqrt (1 - pl.n.x * pl.n.x), M.sqrt (1 - pl.n.y * pl.n.y), M.sqrt (1 - pl.n.z * pl.n.z)⟩
    ⟨(hsqrt _ nx).2, (hsqrt _ ny).2, (hsqrt _ nz).2⟩ ⟨(hsqrt _ nx).1, (hsqrt _ ny).1, (hsqrt _ nz).1⟩
  rw [ho] at c1 c2 c3 c4 c5 c6
  simp only [V3.add] at c1 c2 c3 c4 c5 c6
  rw [e1, e2]
  simp only [P, V3.add, V3.smul, V3.sub]
  exact ⟨(hull_between _ _ _ _ lam c1 c2 h0 h1).1, (hull_between _ _ _ _ lam c1 c2 h0 h1).2,
    (hull_between _ _ _ _ lam c3 c4 h0 h1).1, (hull_between _ _ _ _ lam c3 c4 h0 h1).2,
    (hull_between _ _ _ _ lam c5 c6 h0 h1).1, (hull_between _ _ _ _ lam c5 c6 h0 h1).2⟩

/-- Cylinder containment: under the `sqrt` law and `sin (acos t) = sqrt (1 - t²)`, with `r ≥ 0`,
every point `Q + λ·axis`, `λ ∈ [0, 1]`, `Q` on the bottom circle (centre `center`, radius `r`, in
ANY valid frame whose normal is `normalize(axis)`), lies in `[cyl_min, cyl_max]` — in particular
the bottom (`λ = 0`) and top (`λ = 1`) circles. -/
theorem cyl_box_contains (M : MathOps α)
    (hsqrt : ∀ x, 0 ≤ x → M.sqrt x * M.sqrt x = x ∧ 0 ≤ M.sqrt x)
    (hsa : ∀ t, -1 ≤ t → t ≤ 1 → M.sin (M.acos t) = M.sqrt (1 - t * t))
    (s : CylS α) (hA : V3.normSq s.axis ≠ 0) (hr : 0 ≤ s.radius)
    (pl : PlaneS α) (hv : PlaneValid pl) (hn : pl.n = v3_normalize M s.axis)
    (ho : pl.o = s.center) (c sn : α) (hcs : c * c + sn * sn = 1)
    (lam : α) (h0 : 0 ≤ lam) (h1 : lam ≤ 1) :
    let Q := plane_xy_to_xyz pl ⟨c * s.radius, sn * s.radius⟩
    let P := V3.add Q (V3.smul lam s.axis)
    (cyl_min M s).x ≤ P.x ∧ P.x ≤ (cyl_max M s).x ∧
    (cyl_min M s).y ≤ P.y ∧ P.y ≤ (cyl_max M s).y ∧
    (cyl_min M s).z ≤ P.z ∧ P.z ≤ (cyl_max M s).z := by
  intro Q P
  obtain ⟨⟨x1, x2⟩, ⟨y1, y2⟩, ⟨z1, z2⟩⟩ := normal_component_range hv
  have nx : 0 ≤ 1 - pl.n.x * pl.n.x := by nlinarith
  have ny : 0 ≤ 1 - pl.n.y * pl.n.y := by nlinarith
  have nz : 0 ≤ 1 - pl.n.z * pl.n.z := by nlinarith
  obtain ⟨e1, e2⟩ := cyl_box_eq M hsqrt s hA
  have hw : halfWidths M (v3_normalize M s.axis) =
      ⟨M.sqrt (1 - pl.n.x * pl.n.x), M.sqrt (1 - pl.n.y * pl.n.y),
        M.sqrt (1 - pl.n.z * pl.n.z)⟩ := by
    rw [← hn]; simp only [halfWidths, hsa _ x1 x2, hsa _ y1 y2, hsa _ z1 z2]
  rw [hw] at e1 e2
  obtain ⟨c1, c2, c3, c4, c5, c6⟩ := circle3d_box hv s.radius c sn hr hcs
    ⟨M.sqrt (1 - pl.n.x * pl.n.x), M.sqrt (1 - pl.n.y * pl.n.y), M.sqrt (1 - pl.n.z * pl.n.z)⟩
    ⟨(hsqrt _ nx).2, (hsqrt _ ny).2, (hsqrt _ nz).2⟩ ⟨(hsqrt _ nx).1, (hsqrt _ ny).1, (hsqrt _ nz).1⟩
  rw [ho] at c1 c2 c3 c4 c5 c6
  rw [e1, e2]
  simp only [P, V3.add, V3.smul]
  exact ⟨(prism_between _ _ _ _ lam c1 c2 h0 h1).1, (prism_between _ _ _ _ lam c1 c2 h0 h1).2,
    (prism_between _ _ _ _ lam c3 c4 h0 h1).1, (prism_between _ _ _ _ lam c3 c4 h0 h1).2,
    (prism_between _ _ _ _ lam c5 c6 h0 h1).1, (prism_between _ _ _ _ lam c5 c6 h0 h1).2⟩

/-! ## Non-vacuity (ℚ)

The hypotheses of `arc2d_box` are satisfiable over ℚ by a piecewise-linear "triangle wave"
model of cos / sin with `π = 2` (all `TrigQuadrants` facts are about order only).  The real
functions satisfy them too: `Props/C10Real.lean`. -/

/-- Triangle-wave trigonometry over ℚ: `π = 2`, `cos t = |t - 2| - 1`,
`sin t = t` on `[0,1]`, `2 - t` on `[1,3]`, `t - 4` on `[3,4]`. -/
def Mq : MathOps ℚ where
  sqrt := fun x => x
  sin := fun t => if t ≤ 1 then t else if t ≤ 3 then 2 - t else t - 4
  cos := fun t => |t - 2| - 1
  tan := fun _ => 0
  acos := fun _ => 0
  asin := fun _ => 0
  atan2 := fun _ _ => 0
  pi := 2
  floor := fun x => x

/-- `Mq` satisfies every `TrigQuadrants` hypothesis. -/
example : TrigQuadrants Mq where
  pi_pos := by simp only [Mq]; norm_num
  cos_zero := by simp only [Mq]; norm_num
  cos_pi := by simp only [Mq]; norm_num
  cos_two_pi := by simp only [Mq]; norm_num
  sin_zero := by simp only [Mq]; norm_num
  sin_half_pi := by simp only [Mq]; norm_num
  sin_three_half_pi := by simp only [Mq]; norm_num
  sin_two_pi := by simp only [Mq]; norm_num
  cos_anti := by
    intro s t h0 hst ht
    simp only [Mq] at *
    rw [abs_of_nonpos (by linarith), abs_of_nonpos (by linarith)]; linarith
  cos_mono := by
    intro s t h0 hst ht
    simp only [Mq] at *
    rw [abs_of_nonneg (by linarith), abs_of_nonneg (by linarith)]; linarith
  sin_mono1 := by
    intro s t h0 hst ht
    simp only [Mq] at *
    rw [if_pos (by linarith), if_pos (by linarith)]; exact hst
  sin_anti := by
    intro s t h0 hst ht
    simp only [Mq] at *
    split_ifs <;> linarith
  sin_mono2 := by
    intro s t h0 hst ht
    simp only [Mq] at *
    split_ifs <;> linarith

/-- The arc of the repaired defect (both ends in the first quadrant, inverted: it wraps almost
the whole circle): `a1 = 1/2`, `a2 = 1/4` (with `π = 2`), unit radius, centre `(3, 5)`.  The
hypotheses of `arc2d_box` hold and the generated box is the full box `c ± r`. -/
example :
    let a : Arc2S ℚ := arc2_init Mq ⟨3, 5⟩ 1 (1 / 2) (1 / 4)
    AnglesOk Mq a ∧ CachesOk Mq a ∧ 0 < a.r ∧
      arc2_min Mq a = ⟨2, 4⟩ ∧ arc2_max Mq a = ⟨4, 6⟩ := by
  refine ⟨⟨by decide +kernel, by decide +kernel, by decide +kernel, by decide +kernel⟩,
    ⟨rfl, rfl, rfl, rfl⟩, by decide +kernel, by decide +kernel, by decide +kernel⟩

/-- An ordinary arc from the first into the second quadrant (`a1 = 1/2`, `a2 = 3/2`, `π = 2`):
y-max is the cardinal value `c.y + r`, the other three bounds are end-point values. -/
example :
    let a : Arc2S ℚ := arc2_init Mq ⟨0, 0⟩ 2 (1 / 2) (3 / 2)
    arc2_min Mq a = ⟨-1, 1⟩ ∧ arc2_max Mq a = ⟨1, 2⟩ := by
  refine ⟨by decide +kernel, by decide +kernel⟩

/-- The vertex scan on a concrete list (the `elif` branch is exercised). -/
example : minMax2 (⟨1, 1⟩ : V2 ℚ) [⟨0, 3⟩, ⟨4, -2⟩, ⟨2, 5⟩] = (⟨0, -2⟩, ⟨4, 5⟩) := by
  decide +kernel

end Lbg.Props.C10
