/-
  C13b — serialisation round trips and equality / hash of the COMPOSITE classes
  (Polygon2D, Polyline2D, Polyline3D, Mesh2D, Mesh3D, Face3D, Polyface3D) and the dictionary
  type dispatcher `dictutil.geometry_dict_to_object`.

  Companion of `Props/C13.lean` (simple classes, generated kernels).  The statements here are
  about the LITERAL hand model `Model/SerialComposite.lean` (tied to the code by the
  correspondence module `corr/serialcomposite.py`): `to_dict`, `from_dict`, `to_array`,
  `from_array`, `__copy__`, `__key` of each class, as functions on a JSON-like value type `DV`
  with Python's exceptions as values.

  For each class:  `from_dict (to_dict x) = ok x` (resp. the object with identical defining data)
  for every `x` satisfying exactly the constructor's own guards, and the guard failing makes the
  round trip raise;  array round trips;  `duplicate()` is the same object, compares equal, equal
  key;  `==` is reflexive, symmetric, transitive, is key equality, implies equal hashes for every
  hash function, holds exactly when the defining data coincide;  objects of different classes
  never compare equal;  the dispatcher returns what the class's own `from_dict` returns for each
  of the 21 type strings, `None` / `ValueError` exactly for the other strings.

  Sections: A equality laws, B Polygon2D, C polylines, D meshes, E Polyface3D, F Face3D,
  G dispatcher, H non-vacuity.
-/
import LbgVerif.Model.SerialComposite
import LbgVerif.Lemmas.SerialComposite
import LbgVerif.Props.C02
import Mathlib.Tactic.Ring
import Mathlib.Tactic.Linarith
import Mathlib.Tactic.SplitIfs
import Mathlib.Tactic.Tauto
import Mathlib.Algebra.Order.Field.Rat

set_option linter.unusedSectionVars false
set_option linter.unusedVariables false
set_option linter.unusedTactic false
set_option linter.unusedSimpArgs false
set_option linter.unreachableTactic false
set_option linter.unnecessarySeqFocus false

namespace Lbg.Props.C13b
open Lbg Lbg.Gen Lbg.Lemmas Lbg.Lemmas.SerialComposite Lbg.Model Lbg.Model.SerialComposite
open Lbg.Props.C02 (PlaneValid Mq)

variable {α : Type} [Field α] [LinearOrder α] [IsStrictOrderedRing α]

/-! ## A. `==`, `__key`, `__hash__` — laws valid for all seven classes at once -/

/-- `x == x` for every composite object. -/
theorem compEq_refl (a : Comp α) : compEq a a = true := by
  cases a <;> simp only [compEq, decide_true]

/-- `(a == b) = (b == a)` for every pair of composite objects, of the same class or not. -/
theorem compEq_symm (a b : Comp α) : compEq a b = compEq b a := by
  cases a <;> cases b <;> simp only [compEq] <;> rw [Bool.eq_iff_iff] <;>
    simp only [decide_eq_true_eq] <;> exact eq_comm

/-- `a == b` is exactly "same class and equal `__key()`" (the `isinstance` guard and the key
comparison of every `__eq__`). -/
theorem compEq_iff (a b : Comp α) :
    compEq a b = true ↔ a.className = b.className ∧ a.key = b.key := by
  cases a <;> cases b <;>
    simp only [compEq, Comp.className, Comp.key, decide_eq_true_eq, String.reduceEq, true_and,
      false_and, Bool.false_eq_true]

/-- `a == b` implies `hash(a) == hash(b)`: `__hash__` is `hash(self.__key())`, whatever the hash
function on key tuples is. -/
theorem compEq_hash {H : Type} (h : Key α → H) (a b : Comp α) (he : compEq a b = true) :
    h a.key = h b.key := by
  rw [((compEq_iff a b).1 he).2]

/-- `==` is transitive. -/
theorem compEq_trans (a b c : Comp α) (h1 : compEq a b = true) (h2 : compEq b c = true) :
    compEq a c = true := by
  rw [compEq_iff] at *
  exact ⟨h1.1.trans h2.1, h1.2.trans h2.2⟩

/-- Objects of different classes never compare equal, whatever their coordinates
(the `isinstance(other, <own class>)` guard), in either direction. -/
theorem compEq_false_of_class_ne (a b : Comp α) (hc : a.className ≠ b.className) :
    compEq a b = false ∧ compEq b a = false := by
  have h1 : compEq a b = false := by
    rw [← Bool.not_eq_true, compEq_iff]; exact fun h => hc h.1
  exact ⟨h1, by rw [compEq_symm]; exact h1⟩

/-- The `type` string written by `to_dict` is the class name. -/
theorem toDict_type (a : Comp α) : a.toDict.item "type" = .ok (.str a.className) := by
  cases a <;> rfl

/-! ### Key equality is equality of the defining data, class by class -/

/-- `Polygon2D`: `==` holds exactly when the vertex lists are identical (same coordinates, same
order, same start) — any differing coordinate makes two polygons unequal. -/
theorem polygon_eq_iff (x y : Polygon2DS α) :
    compEq (.polygon2d x) (.polygon2d y) = true ↔ x.vertices = y.vertices := by
  simp only [compEq, decide_eq_true_eq]
  simp only [polygonKey]
  exact (List.map_injective_iff.2 p2_inj).eq_iff

/-- `Polyline2D`: `==` holds exactly when vertices and the `interpolated` flag are identical. -/
theorem polyline2_eq_iff (x y : Polyline2DS α) :
    compEq (.polyline2d x) (.polyline2d y) = true ↔
      x.vertices = y.vertices ∧ x.interpolated = y.interpolated := by
  simp only [compEq, decide_eq_true_eq]
  simp only [polyline2Key]
  constructor
  · intro h
    have := map_append_map_inj KItem.p2 KItem.flag p2_inj flag_inj (fun a b => by simp)
      x.vertices y.vertices [x.interpolated] [y.interpolated] (by simpa using h)
    exact ⟨this.1, by simpa using this.2⟩
  · rintro ⟨h1, h2⟩; rw [h1, h2]

/-- `Polyline3D`: likewise. -/
theorem polyline3_eq_iff (x y : Polyline3DS α) :
    compEq (.polyline3d x) (.polyline3d y) = true ↔
      x.vertices = y.vertices ∧ x.interpolated = y.interpolated := by
  simp only [compEq, decide_eq_true_eq]
  simp only [polyline3Key]
  constructor
  · intro h
    have := map_append_map_inj KItem.p3 KItem.flag p3_inj flag_inj (fun a b => by simp)
      x.vertices y.vertices [x.interpolated] [y.interpolated] (by simpa using h)
    exact ⟨this.1, by simpa using this.2⟩
  · rintro ⟨h1, h2⟩; rw [h1, h2]

/-- `Mesh2D`: `==` holds exactly when vertices and faces (connectivity) are identical; colours do
not take part (by design: `__key` is `vertices + faces`). -/
theorem mesh2_eq_iff (x y : Mesh2DS α) :
    compEq (.mesh2d x) (.mesh2d y) = true ↔ x.vertices = y.vertices ∧ x.faces = y.faces := by
  simp only [compEq, decide_eq_true_eq]
  simp only [mesh2Key]
  constructor
  · exact map_append_map_inj KItem.p2 KItem.idx p2_inj idx_inj (fun a b => by simp) _ _ _ _
  · rintro ⟨h1, h2⟩; rw [h1, h2]

/-- `Mesh3D`: likewise. -/
theorem mesh3_eq_iff (x y : Mesh3DS α) :
    compEq (.mesh3d x) (.mesh3d y) = true ↔ x.vertices = y.vertices ∧ x.faces = y.faces := by
  simp only [compEq, decide_eq_true_eq]
  simp only [mesh3Key]
  constructor
  · exact map_append_map_inj KItem.p3 KItem.idx p3_inj idx_inj (fun a b => by simp) _ _ _ _
  · rintro ⟨h1, h2⟩; rw [h1, h2]

/-- `Polyface3D`: `==` holds exactly when vertices and face index loops are identical (edge
information does not take part). -/
theorem polyface_eq_iff (x y : Polyface3DS α) :
    compEq (.polyface3d x) (.polyface3d y) = true ↔
      x.vertices = y.vertices ∧ x.face_indices = y.face_indices := by
  simp only [compEq, decide_eq_true_eq]
  simp only [polyfaceKey]
  constructor
  · exact map_append_map_inj KItem.p3 KItem.loops p3_inj loops_inj (fun a b => by simp) _ _ _ _
  · rintro ⟨h1, h2⟩; rw [h1, h2]

/-- `Face3D`: `==` holds exactly when the (merged) vertex loops are identical and the planes have
the same normal, origin and x-axis. -/
theorem face_eq_iff (x y : Face3DS α) :
    compEq (.face3d x) (.face3d y) = true ↔
      x.vertices = y.vertices ∧ x.plane.n = y.plane.n ∧ x.plane.o = y.plane.o ∧
        x.plane.x = y.plane.x := by
  simp only [compEq, decide_eq_true_eq]
  simp only [faceKey, planeKeyItem]
  constructor
  · intro h
    have := map_append_map_inj KItem.p3
      (fun (t : V3 α × V3 α × V3 α) => KItem.plane t.1 t.2.1 t.2.2) p3_inj
      (fun a b h => by
        obtain ⟨a1, a2, a3⟩ := a; obtain ⟨b1, b2, b3⟩ := b
        simp only [KItem.plane.injEq] at h
        simp only [Prod.mk.injEq]; exact h)
      (fun a b => by simp)
      x.vertices y.vertices [(x.plane.n, x.plane.o, x.plane.x)] [(y.plane.n, y.plane.o, y.plane.x)]
      (by simpa using h)
    refine ⟨this.1, ?_⟩
    simpa using this.2
  · rintro ⟨h1, h2, h3, h4⟩; rw [h1, h2, h3, h4]

/-! ## B. Polygon2D -/

/-- The constructor accepts exactly the vertex lists of length ≥ 3, and stores them as they are. -/
theorem polygonInit_ok_iff (vs : List (V2 α)) (x : Polygon2DS α) :
    polygonInit vs = .ok x ↔ 3 ≤ vs.length ∧ x = ⟨vs⟩ := by
  unfold polygonInit
  split_ifs with h
  · simp only [reduceCtorEq, false_iff, not_and]; intro h'; omega
  · simp only [Except.ok.injEq]; constructor
    · intro e; exact ⟨by omega, e.symm⟩
    · intro e; exact e.2.symm

/-- `Polygon2D.from_dict(x.to_dict()) = x` for every polygon the constructor accepts
(≥ 3 vertices): identical vertices in identical order. -/
theorem polygon_dict_roundtrip (x : Polygon2DS α) (h : 3 ≤ x.vertices.length) :
    polygonFromDict (polygonToDict x) = .ok x := by
  have hl : ¬ x.vertices.length < 3 := by omega
  have hv : (polygonToDict x).item "vertices" = .ok (.list (x.vertices.map pt2ToArray)) := rfl
  simp only [polygonFromDict, hv, DV.asList, pts2_roundtrip, polygonInit, hl, if_false, bind,
    Except.bind]

/-- With fewer than 3 vertices the round trip raises the constructor's `AssertionError`
(the guard is exactly the constructor's). -/
theorem polygon_dict_roundtrip_guard (x : Polygon2DS α) (h : x.vertices.length < 3) :
    polygonFromDict (polygonToDict x) = .error .AssertionError := by
  have hv : (polygonToDict x).item "vertices" = .ok (.list (x.vertices.map pt2ToArray)) := rfl
  simp only [polygonFromDict, hv, DV.asList, pts2_roundtrip, polygonInit, h, if_true, bind,
    Except.bind]

/-- `Polygon2D.from_array(x.to_array()) = x`. -/
theorem polygon_array_roundtrip (x : Polygon2DS α) (h : 3 ≤ x.vertices.length) :
    polygonFromArray (polygonToArray x) = .ok x := by
  have hl : ¬ x.vertices.length < 3 := by omega
  simp only [polygonFromArray, polygonToArray, DV.asList, pts2_star_roundtrip, polygonInit, hl,
    if_false, bind, Except.bind]

/-- `x.duplicate()` is the same polygon; it compares equal and has the same key (hence hash). -/
theorem polygon_copy (x : Polygon2DS α) (h : 3 ≤ x.vertices.length) :
    polygonCopy x = .ok x ∧ compEq (.polygon2d x) (.polygon2d x) = true := by
  have hl : ¬ x.vertices.length < 3 := by omega
  exact ⟨by simp only [polygonCopy, polygonInit, hl, if_false], compEq_refl _⟩

/-- The dictionary of a polygon through the dispatcher: the same object as
`Polygon2D.from_dict`, whatever `raise_exception` is. -/
theorem polygon_dispatch (F : FaceOps α) (M : MathOps α) (x : Polygon2DS α)
    (h : 3 ≤ x.vertices.length) (r : Bool) :
    dictToObject F M (polygonToDict x) r = .ok (some (.comp (.polygon2d x))) := by
  have ht : (polygonToDict x).item "type" = .ok (.str "Polygon2D") := rfl
  have hl : lbtTypes "Polygon2D" = some .polygon2d := by decide
  simp only [dictToObject, ht, hl, classFromDict, polygon_dict_roundtrip x h, Except.map]

/-! ## C. Polyline2D / Polyline3D -/

/-- `Polyline2D.from_dict(x.to_dict()) = x` for ≥ 3 vertices and a Boolean `interpolated` flag:
identical vertices, identical flag (written only when true, defaulting to false when absent). -/
theorem polyline2_dict_roundtrip (x : Polyline2DS α) (h : 3 ≤ x.vertices.length)
    (hb : x.interpolated ≠ none) : polyline2FromDict (polyline2ToDict x) = .ok x := by
  have hl : ¬ x.vertices.length < 3 := by omega
  obtain ⟨vs, ip⟩ := x
  have hv : ∀ ip, (polyline2ToDict (⟨vs, ip⟩ : Polyline2DS α)).item "vertices"
      = .ok (.list (vs.map pt2ToArray)) := fun _ => rfl
  rcases ip with _ | _ | _
  · exact absurd rfl hb
  · have hi : interpOf (polyline2ToDict (⟨vs, some false⟩ : Polyline2DS α)) = .ok (some false) := rfl
    simp only [polyline2FromDict, hi, hv, DV.asList, pts2_roundtrip, polyline2Init, hl, if_false,
      bind, Except.bind]
  · have hi : interpOf (polyline2ToDict (⟨vs, some true⟩ : Polyline2DS α)) = .ok (some true) := rfl
    simp only [polyline2FromDict, hi, hv, DV.asList, pts2_roundtrip, polyline2Init, hl, if_false,
      bind, Except.bind]

/-- The one value of the flag that does not survive: a polyline built with `interpolated=None`
comes back with `False` (and `None == False` is false in Python, so it compares unequal). -/
theorem polyline2_dict_roundtrip_none (vs : List (V2 α)) (h : 3 ≤ vs.length) :
    polyline2FromDict (polyline2ToDict ⟨vs, none⟩) = .ok ⟨vs, some false⟩ ∧
    compEq (.polyline2d ⟨vs, some false⟩) (.polyline2d ⟨vs, none⟩) = false := by
  have hl : ¬ vs.length < 3 := by omega
  have hv : (polyline2ToDict (⟨vs, none⟩ : Polyline2DS α)).item "vertices"
      = .ok (.list (vs.map pt2ToArray)) := rfl
  have hi : interpOf (polyline2ToDict (⟨vs, none⟩ : Polyline2DS α)) = .ok (some false) := rfl
  refine ⟨by simp only [polyline2FromDict, hi, hv, DV.asList, pts2_roundtrip, polyline2Init, hl,
    if_false, bind, Except.bind], ?_⟩
  rw [← Bool.not_eq_true, polyline2_eq_iff]
  simp

/-- `from_dict` of a dictionary whose `interpolated` key is `null` stores `None`, not `False`
(unlike every other optional key of the library, `null` is not treated as absent). -/
theorem polyline2_from_dict_null (vs : List (V2 α)) (h : 3 ≤ vs.length) :
    polyline2FromDict (.dict [("type", .str "Polyline2D"),
      ("vertices", .list (vs.map pt2ToArray)), ("interpolated", .null)]) = .ok ⟨vs, none⟩ := by
  have hl : ¬ vs.length < 3 := by omega
  have hi : interpOf (DV.dict [("type", .str "Polyline2D"),
      ("vertices", .list (vs.map pt2ToArray)), ("interpolated", (.null : DV α))]) = .ok none := rfl
  have hv : (DV.dict [("type", .str "Polyline2D"),
      ("vertices", .list (vs.map pt2ToArray)), ("interpolated", (.null : DV α))]).item "vertices"
      = .ok (.list (vs.map pt2ToArray)) := rfl
  simp only [polyline2FromDict, hi, hv, DV.asList, pts2_roundtrip, polyline2Init, hl, if_false,
    bind, Except.bind]

/-- With fewer than 3 vertices the round trip raises the constructor's `AssertionError`. -/
theorem polyline2_dict_roundtrip_guard (x : Polyline2DS α) (h : x.vertices.length < 3)
    (hb : x.interpolated ≠ none) :
    polyline2FromDict (polyline2ToDict x) = .error .AssertionError := by
  obtain ⟨vs, ip⟩ := x
  have hv : ∀ ip, (polyline2ToDict (⟨vs, ip⟩ : Polyline2DS α)).item "vertices"
      = .ok (.list (vs.map pt2ToArray)) := fun _ => rfl
  rcases ip with _ | _ | _
  · exact absurd rfl hb
  · have hi : interpOf (polyline2ToDict (⟨vs, some false⟩ : Polyline2DS α)) = .ok (some false) := rfl
    simp only [polyline2FromDict, hi, hv, DV.asList, pts2_roundtrip, polyline2Init, h, if_true,
      bind, Except.bind]
  · have hi : interpOf (polyline2ToDict (⟨vs, some true⟩ : Polyline2DS α)) = .ok (some true) := rfl
    simp only [polyline2FromDict, hi, hv, DV.asList, pts2_roundtrip, polyline2Init, h, if_true,
      bind, Except.bind]

/-- `Polyline2D.from_array(x.to_array())`: identical vertices; the array carries no flag, the
result is not interpolated. -/
theorem polyline2_array_roundtrip (x : Polyline2DS α) (h : 3 ≤ x.vertices.length) :
    polyline2FromArray (polyline2ToArray x) = .ok ⟨x.vertices, some false⟩ := by
  have hl : ¬ x.vertices.length < 3 := by omega
  simp only [polyline2FromArray, polyline2ToArray, DV.asList, pts2_star_roundtrip, polyline2Init,
    hl, if_false, bind, Except.bind]

/-- `x.duplicate()` is the same polyline (vertices and flag), compares equal. -/
theorem polyline2_copy (x : Polyline2DS α) (h : 3 ≤ x.vertices.length) :
    polyline2Copy x = .ok x ∧ compEq (.polyline2d x) (.polyline2d x) = true := by
  have hl : ¬ x.vertices.length < 3 := by omega
  exact ⟨by simp only [polyline2Copy, polyline2Init, hl, if_false], compEq_refl _⟩

/-- Through the dispatcher: the same object as `Polyline2D.from_dict`. -/
theorem polyline2_dispatch (F : FaceOps α) (M : MathOps α) (x : Polyline2DS α)
    (h : 3 ≤ x.vertices.length) (hb : x.interpolated ≠ none) (r : Bool) :
    dictToObject F M (polyline2ToDict x) r = .ok (some (.comp (.polyline2d x))) := by
  have ht : (polyline2ToDict x).item "type" = .ok (.str "Polyline2D") := rfl
  have hl : lbtTypes "Polyline2D" = some .polyline2d := by decide
  simp only [dictToObject, ht, hl, classFromDict, polyline2_dict_roundtrip x h hb, Except.map]

/-- `Polyline3D.from_dict(x.to_dict()) = x` (≥ 3 vertices, Boolean flag). -/
theorem polyline3_dict_roundtrip (x : Polyline3DS α) (h : 3 ≤ x.vertices.length)
    (hb : x.interpolated ≠ none) : polyline3FromDict (polyline3ToDict x) = .ok x := by
  have hl : ¬ x.vertices.length < 3 := by omega
  obtain ⟨vs, ip⟩ := x
  have hv : ∀ ip, (polyline3ToDict (⟨vs, ip⟩ : Polyline3DS α)).item "vertices"
      = .ok (.list (vs.map pt3ToArray)) := fun _ => rfl
  rcases ip with _ | _ | _
  · exact absurd rfl hb
  · have hi : interpOf (polyline3ToDict (⟨vs, some false⟩ : Polyline3DS α)) = .ok (some false) := rfl
    simp only [polyline3FromDict, hi, hv, DV.asList, pts3_roundtrip, polyline3Init, hl, if_false,
      bind, Except.bind]
  · have hi : interpOf (polyline3ToDict (⟨vs, some true⟩ : Polyline3DS α)) = .ok (some true) := rfl
    simp only [polyline3FromDict, hi, hv, DV.asList, pts3_roundtrip, polyline3Init, hl, if_false,
      bind, Except.bind]

/-- With fewer than 3 vertices the round trip raises the constructor's `AssertionError`. -/
theorem polyline3_dict_roundtrip_guard (x : Polyline3DS α) (h : x.vertices.length < 3)
    (hb : x.interpolated ≠ none) :
    polyline3FromDict (polyline3ToDict x) = .error .AssertionError := by
  obtain ⟨vs, ip⟩ := x
  have hv : ∀ ip, (polyline3ToDict (⟨vs, ip⟩ : Polyline3DS α)).item "vertices"
      = .ok (.list (vs.map pt3ToArray)) := fun _ => rfl
  rcases ip with _ | _ | _
  · exact absurd rfl hb
  · have hi : interpOf (polyline3ToDict (⟨vs, some false⟩ : Polyline3DS α)) = .ok (some false) := rfl
    simp only [polyline3FromDict, hi, hv, DV.asList, pts3_roundtrip, polyline3Init, h, if_true,
      bind, Except.bind]
  · have hi : interpOf (polyline3ToDict (⟨vs, some true⟩ : Polyline3DS α)) = .ok (some true) := rfl
    simp only [polyline3FromDict, hi, hv, DV.asList, pts3_roundtrip, polyline3Init, h, if_true,
      bind, Except.bind]

/-- `Polyline3D.from_array(x.to_array())`: identical vertices, flag reset to false. -/
theorem polyline3_array_roundtrip (x : Polyline3DS α) (h : 3 ≤ x.vertices.length) :
    polyline3FromArray (polyline3ToArray x) = .ok ⟨x.vertices, some false⟩ := by
  have hl : ¬ x.vertices.length < 3 := by omega
  simp only [polyline3FromArray, polyline3ToArray, DV.asList, pts3_star_roundtrip, polyline3Init,
    hl, if_false, bind, Except.bind]

/-- `x.duplicate()` is the same polyline, compares equal. -/
theorem polyline3_copy (x : Polyline3DS α) (h : 3 ≤ x.vertices.length) :
    polyline3Copy x = .ok x ∧ compEq (.polyline3d x) (.polyline3d x) = true := by
  have hl : ¬ x.vertices.length < 3 := by omega
  exact ⟨by simp only [polyline3Copy, polyline3Init, hl, if_false], compEq_refl _⟩

/-- Through the dispatcher: the same object as `Polyline3D.from_dict`. -/
theorem polyline3_dispatch (F : FaceOps α) (M : MathOps α) (x : Polyline3DS α)
    (h : 3 ≤ x.vertices.length) (hb : x.interpolated ≠ none) (r : Bool) :
    dictToObject F M (polyline3ToDict x) r = .ok (some (.comp (.polyline3d x))) := by
  have ht : (polyline3ToDict x).item "type" = .ok (.str "Polyline3D") := rfl
  have hl : lbtTypes "Polyline3D" = some .polyline3d := by decide
  simp only [dictToObject, ht, hl, classFromDict, polyline3_dict_roundtrip x h hb, Except.map]


/-! ## D. Mesh2D / Mesh3D -/

/-- A mesh state the constructor can produce (from some `colors` argument): the states the
theorems below quantify over. -/
def MeshOK {P : Type} (x : MeshS P α) : Prop := ∃ col, meshInit x.vertices x.faces col = .ok x

/-- `_check_faces_input`, spelled out: at least one face; every face has 3 or 4 indices; every
index `i` is valid for `vertices[i]` (`-n ≤ i < n`).  These are exactly the constructor's guards on
the connectivity. -/
theorem meshCheckFaces_ok_iff (n : Nat) (fs : List (List Int)) :
    meshCheckFaces n fs = .ok () ↔
      fs ≠ [] ∧ ∀ f ∈ fs, (f.length = 3 ∨ f.length = 4) ∧ ∀ i ∈ f, -(n : Int) ≤ i ∧ i < n := by
  have hface : ∀ f, meshCheckFace n f = .ok () ↔
      (f.length = 3 ∨ f.length = 4) ∧ ∀ i ∈ f, -(n : Int) ≤ i ∧ i < n := by
    intro f
    unfold meshCheckFace
    split_ifs with h1 h2
    · simp only [List.all_eq_true, decide_eq_true_eq] at h2
      exact ⟨fun _ => ⟨h1, h2⟩, fun _ => rfl⟩
    · simp only [List.all_eq_true, decide_eq_true_eq] at h2
      simp only [reduceCtorEq, false_iff, not_and]
      exact fun _ h => h2 h
    · simp only [reduceCtorEq, false_iff, not_and]
      exact fun h => absurd h h1
  have hall : ∀ l : List (List Int), (∃ us, mapR (meshCheckFace n) l = .ok us) ↔
      ∀ f ∈ l, meshCheckFace n f = .ok () := by
    intro l
    induction l with
    | nil => simp [mapR]
    | cons a t ih =>
      constructor
      · rintro ⟨us, hu⟩
        simp only [mapR] at hu
        cases ha : meshCheckFace n a with
        | error e => rw [ha] at hu; simp at hu
        | ok u =>
          rw [ha] at hu
          cases ht : mapR (meshCheckFace n) t with
          | error e => rw [ht] at hu; simp at hu
          | ok vs =>
            intro f hf
            rcases List.mem_cons.1 hf with rfl | hf
            · exact ha
            · exact (ih.1 ⟨vs, ht⟩) f hf
      · intro h
        exact mapR_unit_ok _ _ h
  unfold meshCheckFaces
  split_ifs with h0
  · simp only [reduceCtorEq, false_iff, not_and]
    intro hne; exact absurd (List.length_eq_zero_iff.1 h0) hne
  · have hne : fs ≠ [] := fun e => h0 (by rw [e]; rfl)
    cases hm : mapR (meshCheckFace n) fs with
    | error e =>
      simp only [reduceCtorEq, false_iff, not_and]
      intro _ hall'
      have := (hall fs).2 (fun f hf => (hface f).2 (hall' f hf))
      rw [hm] at this; obtain ⟨us, hu⟩ := this; cases hu
    | ok us =>
      simp only [true_iff]
      exact ⟨hne, fun f hf => (hface f).1 ((hall fs).1 ⟨us, hm⟩ f hf)⟩

/-- No connectivity is valid over an empty vertex list. -/
theorem meshCheckFaces_zero (fs : List (List Int)) : meshCheckFaces 0 fs ≠ .ok () := by
  intro h
  obtain ⟨hne, hall⟩ := (meshCheckFaces_ok_iff 0 fs).1 h
  cases fs with
  | nil => exact hne rfl
  | cons f t =>
    obtain ⟨hlen, hidx⟩ := hall f List.mem_cons_self
    cases f with
    | nil => simp at hlen
    | cons i r =>
      have := hidx i List.mem_cons_self
      simp only [Nat.cast_zero, neg_zero] at this
      omega

/-- What the constructor establishes, and that it is stable: re-running it on the stored slots
(as `from_dict` does) gives the same mesh; the stored colour tuple is never empty. -/
theorem meshInit_reinit {P : Type} (vs : List P) (fs : List (List Int))
    (col : Option (List (DV α))) (x : MeshS P α) (h : meshInit vs fs col = .ok x) :
    x.vertices = vs ∧ x.faces = fs ∧ meshCheckFaces vs.length fs = .ok () ∧
      meshInit vs fs x.colors = .ok x ∧ x.colors ≠ some [] := by
  unfold meshInit at h
  cases hc : meshCheckFaces vs.length fs with
  | error e => rw [hc] at h; simp at h
  | ok u =>
    cases u
    rw [hc] at h
    have hnf : fs.length ≠ 0 := by
      intro h0
      have := ((meshCheckFaces_ok_iff vs.length fs).1 hc).1
      exact this (List.length_eq_zero_iff.1 h0)
    have hnv : vs.length ≠ 0 := by
      intro h0; rw [h0] at hc; exact meshCheckFaces_zero fs hc
    cases hs : meshSetColors fs.length vs.length col with
    | error e => rw [hs] at h; simp at h
    | ok cb =>
      obtain ⟨c, b⟩ := cb
      rw [hs] at h
      simp only [Except.ok.injEq] at h
      subst h
      refine ⟨rfl, rfl, rfl, ?_, ?_⟩
      · simp only [meshInit, hc]
        cases col with
        | none =>
          simp only [meshSetColors, Except.ok.injEq, Prod.mk.injEq] at hs
          obtain ⟨rfl, rfl⟩ := hs
          rfl
        | some cl =>
          unfold meshSetColors at hs
          simp only at hs
          split_ifs at hs with h1 h2 h3
          · simp only [Except.ok.injEq, Prod.mk.injEq] at hs
            obtain ⟨rfl, rfl⟩ := hs
            simp only [meshSetColors, h1, if_true]
          · simp only [Except.ok.injEq, Prod.mk.injEq] at hs
            obtain ⟨rfl, rfl⟩ := hs
            have h1' : ¬ vs.length = fs.length := by rw [← h2]; exact h1
            simp only [meshSetColors, h2, h1', if_true, if_false]
          · simp only [Except.ok.injEq, Prod.mk.injEq] at hs
            obtain ⟨rfl, rfl⟩ := hs
            rfl
      · cases col with
        | none =>
          simp only [meshSetColors, Except.ok.injEq, Prod.mk.injEq] at hs
          obtain ⟨rfl, rfl⟩ := hs
          simp
        | some cl =>
          unfold meshSetColors at hs
          simp only at hs
          split_ifs at hs with h1 h2 h3
          · simp only [Except.ok.injEq, Prod.mk.injEq] at hs
            obtain ⟨rfl, rfl⟩ := hs
            intro he
            simp only [Option.some.injEq] at he
            rw [he] at h1; exact hnf h1.symm
          · simp only [Except.ok.injEq, Prod.mk.injEq] at hs
            obtain ⟨rfl, rfl⟩ := hs
            intro he
            simp only [Option.some.injEq] at he
            rw [he] at h2; exact hnv h2.symm
          · simp only [Except.ok.injEq, Prod.mk.injEq] at hs
            obtain ⟨rfl, rfl⟩ := hs
            simp

/-- `Mesh2D.from_dict(x.to_dict()) = x` for every mesh the constructor can produce: identical
vertices, identical faces (connectivity), identical colours and the same per-face / per-vertex
colour mode; the `colors` key is always present (`None` when there are no colours). -/
theorem mesh2_dict_roundtrip (x : Mesh2DS α) (hx : MeshOK x) :
    mesh2FromDict (mesh2ToDict x) = .ok x := by
  obtain ⟨col, hcol⟩ := hx
  obtain ⟨_, _, _, hre, hne⟩ := meshInit_reinit _ _ _ _ hcol
  obtain ⟨vs, fs, cs, b⟩ := x
  have hf : meshFacesOf (mesh2ToDict (⟨vs, fs, cs, b⟩ : Mesh2DS α)) = .ok fs :=
    meshFacesOf_of_item _ _ rfl
  have hv : (mesh2ToDict (⟨vs, fs, cs, b⟩ : Mesh2DS α)).item "vertices"
      = .ok (.list (vs.map pt2ToArray)) := rfl
  have hc : meshColorsOf (mesh2ToDict (⟨vs, fs, cs, b⟩ : Mesh2DS α)) = .ok cs := by
    rcases cs with _ | (_ | ⟨c0, ct⟩)
    · rfl
    · exact absurd rfl hne
    · rfl
  simp only [mesh2FromDict, hc, hf, hv, DV.asList, pts2_roundtrip, bind, Except.bind]
  exact hre

/-- `Mesh3D.from_dict(x.to_dict()) = x`; here the `colors` key is written only when there are
colours, and its absence is read back as "no colours". -/
theorem mesh3_dict_roundtrip (x : Mesh3DS α) (hx : MeshOK x) :
    mesh3FromDict (mesh3ToDict x) = .ok x := by
  obtain ⟨col, hcol⟩ := hx
  obtain ⟨_, _, _, hre, hne⟩ := meshInit_reinit _ _ _ _ hcol
  obtain ⟨vs, fs, cs, b⟩ := x
  have hf : meshFacesOf (mesh3ToDict (⟨vs, fs, cs, b⟩ : Mesh3DS α)) = .ok fs :=
    meshFacesOf_of_item _ _ rfl
  have hv : (mesh3ToDict (⟨vs, fs, cs, b⟩ : Mesh3DS α)).item "vertices"
      = .ok (.list (vs.map pt3ToArray)) := rfl
  have hc : meshColorsOf (mesh3ToDict (⟨vs, fs, cs, b⟩ : Mesh3DS α)) = .ok cs := by
    rcases cs with _ | (_ | ⟨c0, ct⟩)
    · rfl
    · exact absurd rfl hne
    · rfl
  simp only [mesh3FromDict, hc, hf, hv, DV.asList, pts3_roundtrip, bind, Except.bind]
  exact hre

/-- The round trip of a mesh dictionary fails exactly with the constructor's error when the
connectivity violates the constructor's guards. -/
theorem mesh2_dict_roundtrip_guard (x : Mesh2DS α) (e : PyErr)
    (h : meshCheckFaces x.vertices.length x.faces = .error e) (hc : x.colors = none) :
    mesh2FromDict (mesh2ToDict x) = .error e := by
  obtain ⟨vs, fs, cs, b⟩ := x
  simp only at hc h
  subst hc
  have hf : meshFacesOf (mesh2ToDict (⟨vs, fs, none, b⟩ : Mesh2DS α)) = .ok fs :=
    meshFacesOf_of_item _ _ rfl
  have hv : (mesh2ToDict (⟨vs, fs, none, b⟩ : Mesh2DS α)).item "vertices"
      = .ok (.list (vs.map pt2ToArray)) := rfl
  have hc : meshColorsOf (mesh2ToDict (⟨vs, fs, none, b⟩ : Mesh2DS α)) = .ok none := rfl
  simp only [mesh2FromDict, hc, hf, hv, DV.asList, pts2_roundtrip, bind, Except.bind, meshInit, h]

/-- `x.duplicate()` is the same mesh — vertices, faces, colours and colour mode — for both mesh
classes; it compares equal (and therefore hashes equal). -/
theorem mesh_copy {P : Type} (x : MeshS P α) (hx : MeshOK x) : meshCopy x = .ok x := by
  obtain ⟨col, hcol⟩ := hx
  obtain ⟨_, _, hck, _, _⟩ := meshInit_reinit _ _ _ _ hcol
  obtain ⟨vs, fs, cs, b⟩ := x
  simp only [meshCopy, meshInit, hck, meshSetColors]

/-- Through the dispatcher: the same object as `Mesh2D.from_dict`. -/
theorem mesh2_dispatch (F : FaceOps α) (M : MathOps α) (x : Mesh2DS α) (hx : MeshOK x) (r : Bool) :
    dictToObject F M (mesh2ToDict x) r = .ok (some (.comp (.mesh2d x))) := by
  have ht : (mesh2ToDict x).item "type" = .ok (.str "Mesh2D") := rfl
  have hl : lbtTypes "Mesh2D" = some .mesh2d := by decide
  simp only [dictToObject, ht, hl, classFromDict, mesh2_dict_roundtrip x hx, Except.map]

/-- Through the dispatcher: the same object as `Mesh3D.from_dict`. -/
theorem mesh3_dispatch (F : FaceOps α) (M : MathOps α) (x : Mesh3DS α) (hx : MeshOK x) (r : Bool) :
    dictToObject F M (mesh3ToDict x) r = .ok (some (.comp (.mesh3d x))) := by
  have ht : (mesh3ToDict x).item "type" = .ok (.str "Mesh3D") := by
    obtain ⟨vs, fs, cs, b⟩ := x; rfl
  have hl : lbtTypes "Mesh3D" = some .mesh3d := by decide
  simp only [dictToObject, ht, hl, classFromDict, mesh3_dict_roundtrip x hx, Except.map]

/-! ## E. Polyface3D -/

/-- The states `Polyface3D.__init__` produces: ≥ 3 vertices and `_is_solid` computed from the
edge types. -/
def PolyfaceOK (x : Polyface3DS α) : Prop :=
  3 ≤ x.vertices.length ∧ x.is_solid = EdgeInfo.isSolidOf x.edge_types

/-- The constructor accepts exactly ≥ 3 vertices; it stores vertices and index loops as given,
the supplied edge information verbatim or else the autocalculated one. -/
theorem polyfaceInit_ok_iff (vs : List (V3 α)) (fi : List (List (List Nat)))
    (ei : Option (List (Nat × Nat) × List Nat)) (x : Polyface3DS α) :
    polyfaceInit vs fi ei = .ok x ↔ 3 ≤ vs.length ∧ PolyfaceOK x ∧ x.vertices = vs ∧
      x.face_indices = fi ∧
      (x.edge_indices, x.edge_types) = (match ei with
        | some et => et
        | none => ((EdgeInfo.edgeInfo fi).edge_i, (EdgeInfo.edgeInfo fi).edge_t)) := by
  unfold polyfaceInit PolyfaceOK
  split_ifs with h
  · simp only [reduceCtorEq, false_iff, not_and]; intro h'; omega
  · obtain ⟨xv, xf, xe, xt, xs⟩ := x
    rcases ei with _ | ⟨e, t⟩ <;>
      simp only [Except.ok.injEq, Polyface3DS.mk.injEq, Prod.mk.injEq] <;>
      constructor
    · rintro ⟨rfl, rfl, rfl, rfl, rfl⟩; exact ⟨by omega, ⟨by omega, rfl⟩, rfl, rfl, rfl, rfl⟩
    · rintro ⟨_, ⟨_, hs⟩, rfl, rfl, rfl, rfl⟩; exact ⟨rfl, rfl, rfl, rfl, hs.symm⟩
    · rintro ⟨rfl, rfl, rfl, rfl, rfl⟩; exact ⟨by omega, ⟨by omega, rfl⟩, rfl, rfl, rfl, rfl⟩
    · rintro ⟨_, ⟨_, hs⟩, rfl, rfl, rfl, rfl⟩; exact ⟨rfl, rfl, rfl, rfl, hs.symm⟩

/-- `Polyface3D.from_dict(x.to_dict()) = x`: identical vertices, identical face index loops, and
the stored edge information is REUSED (edge indices and edge types identical, not recomputed). -/
theorem polyface_dict_roundtrip (x : Polyface3DS α) (hx : PolyfaceOK x) :
    polyfaceFromDict (polyfaceToDict x true) = .ok x := by
  obtain ⟨hlen, hsolid⟩ := hx
  have hl : ¬ x.vertices.length < 3 := by omega
  obtain ⟨vs, fi, es, ts, sol⟩ := x
  simp only at hsolid hl
  subst hsolid
  have hp : (polyfaceToDict (⟨vs, fi, es, ts, EdgeInfo.isSolidOf ts⟩ : Polyface3DS α) true).present
      "edge_information" = some (.dict [
        ("edge_indices", .list (es.map (fun e => natsToDV [e.1, e.2]))),
        ("edge_types", natsToDV ts)]) := rfl
  have hv : (polyfaceToDict (⟨vs, fi, es, ts, EdgeInfo.isSolidOf ts⟩ : Polyface3DS α) true).item
      "vertices" = .ok (.list (vs.map pt3ToArray)) := rfl
  have hf : (polyfaceToDict (⟨vs, fi, es, ts, EdgeInfo.isSolidOf ts⟩ : Polyface3DS α) true).item
      "face_indices" = .ok (.list (fi.map (fun f => .list (f.map natsToDV)))) := rfl
  have he : (DV.dict [("edge_indices", .list (es.map (fun e => natsToDV [e.1, e.2]))),
      ("edge_types", (natsToDV ts : DV α))]).item "edge_indices"
      = .ok (.list (es.map (fun e => natsToDV [e.1, e.2]))) := rfl
  have ht : (DV.dict [("edge_indices", .list (es.map (fun e => natsToDV [e.1, e.2]))),
      ("edge_types", (natsToDV ts : DV α))]).item "edge_types" = .ok (natsToDV ts) := rfl
  simp only [polyfaceFromDict, hp, hv, hf, he, ht, asList_list, asList_natsToDV, pts3_roundtrip,
    face_indices_roundtrip, edges_roundtrip, nats_roundtrip, hl, if_false, bind, Except.bind,
    pure, Except.pure, polyfaceInit]

/-- Without the edge information (`to_dict(include_edge_information=False)`), `from_dict` is the
plain constructor on the same vertices and index loops: the edges are recomputed by the
incidence loop. -/
theorem polyface_dict_roundtrip_no_edges (x : Polyface3DS α) :
    polyfaceFromDict (polyfaceToDict x false) = polyfaceInit x.vertices x.face_indices none := by
  obtain ⟨vs, fi, es, ts, sol⟩ := x
  have hp : (polyfaceToDict (⟨vs, fi, es, ts, sol⟩ : Polyface3DS α) false).present
      "edge_information" = none := rfl
  have hv : (polyfaceToDict (⟨vs, fi, es, ts, sol⟩ : Polyface3DS α) false).item
      "vertices" = .ok (.list (vs.map pt3ToArray)) := rfl
  have hf : (polyfaceToDict (⟨vs, fi, es, ts, sol⟩ : Polyface3DS α) false).item
      "face_indices" = .ok (.list (fi.map (fun f => .list (f.map natsToDV)))) := rfl
  simp only [polyfaceFromDict, hp, hv, hf, DV.asList, pts3_roundtrip, face_indices_roundtrip,
    bind, Except.bind, pure, Except.pure]
  unfold polyfaceInit
  split_ifs <;> rfl

/-- … so a polyface whose edges were autocalculated comes back identical also without the edge
information in the dictionary. -/
theorem polyface_dict_roundtrip_no_edges_auto (vs : List (V3 α)) (fi : List (List (List Nat)))
    (x : Polyface3DS α) (hx : polyfaceInit vs fi none = .ok x) :
    polyfaceFromDict (polyfaceToDict x false) = .ok x := by
  rw [polyface_dict_roundtrip_no_edges]
  obtain ⟨_, _, hv, hf, _⟩ := (polyfaceInit_ok_iff vs fi none x).1 hx
  rw [hv, hf]; exact hx

/-- With fewer than 3 vertices the round trip raises the constructor's `AssertionError`. -/
theorem polyface_dict_roundtrip_guard (x : Polyface3DS α) (h : x.vertices.length < 3) :
    polyfaceFromDict (polyfaceToDict x false) = .error .AssertionError := by
  rw [polyface_dict_roundtrip_no_edges]
  simp only [polyfaceInit, h, if_true]

/-- `x.duplicate()` is the same polyface, edge information included; it compares equal. -/
theorem polyface_copy (x : Polyface3DS α) (hx : PolyfaceOK x) :
    polyfaceCopy x = .ok x ∧ compEq (.polyface3d x) (.polyface3d x) = true := by
  obtain ⟨hlen, hsolid⟩ := hx
  have hl : ¬ x.vertices.length < 3 := by omega
  obtain ⟨vs, fi, es, ts, sol⟩ := x
  simp only at hsolid hl
  subst hsolid
  exact ⟨by simp only [polyfaceCopy, polyfaceInit, hl, if_false], compEq_refl _⟩

/-- Through the dispatcher: the same object as `Polyface3D.from_dict`. -/
theorem polyface_dispatch (F : FaceOps α) (M : MathOps α) (x : Polyface3DS α) (hx : PolyfaceOK x)
    (r : Bool) :
    dictToObject F M (polyfaceToDict x true) r = .ok (some (.comp (.polyface3d x))) := by
  have ht : (polyfaceToDict x true).item "type" = .ok (.str "Polyface3D") := rfl
  have hl : lbtTypes "Polyface3D" = some .polyface3d := by decide
  simp only [dictToObject, ht, hl, classFromDict, polyface_dict_roundtrip x hx, Except.map]

/-! ## F. Face3D -/

/-- The constructor's guards on the loops, as they hold for every constructed face: ≥ 3 boundary
vertices; `_holes` is `None` or a NON-EMPTY tuple of loops of ≥ 3 vertices. -/
structure FaceGuards (x : Face3DS α) : Prop where
  boundary_len : 3 ≤ x.boundary.length
  holes_ne : x.holes ≠ some []
  holes_len : ∀ hs, x.holes = some hs → ∀ h ∈ hs, 3 ≤ h.length

/-- The boundary is counter-clockwise in the face's own plane — what `enforce_right_hand`
establishes (`Face3D.is_clockwise` is false). -/
def FaceCcw (x : Face3DS α) : Prop :=
  polygon2d_is_clockwise (x.boundary.map (plane_xyz_to_xy x.plane)) = false

/-- The merged boundary-and-holes polygon the constructor computes (uninterpreted `FaceOps`). -/
def mergedOf (F : FaceOps α) (pl : PlaneS α) (b : List (V3 α)) (hs : List (List (V3 α))) :
    List (V2 α) :=
  if (b.map (plane_xyz_to_xy pl)).length
      + ((hs.map (fun hole => hole.map (plane_xyz_to_xy pl))).map List.length).sum > 400
  then F.mergeFast (b.map (plane_xyz_to_xy pl)) (hs.map (fun hole => hole.map (plane_xyz_to_xy pl)))
  else F.merge (b.map (plane_xyz_to_xy pl)) (hs.map (fun hole => hole.map (plane_xyz_to_xy pl)))

/-- The face `from_dict` builds from the defining data of `x` (boundary, plane, holes). -/
def faceRebuilt (F : FaceOps α) (x : Face3DS α) : Face3DS α :=
  match x.holes with
  | some hs => ⟨x.boundary, x.plane, some hs,
      (mergedOf F x.plane x.boundary hs).map (plane_xy_to_xyz x.plane),
      some (mergedOf F x.plane x.boundary hs), some false⟩
  | none => ⟨x.boundary, x.plane, none, x.boundary,
      some (x.boundary.map (plane_xyz_to_xy x.plane)), some false⟩

/-- The rebuilt face has the SAME defining data: boundary (same vertices, order and start),
plane (all five slots) and holes. -/
theorem faceRebuilt_defining (F : FaceOps α) (x : Face3DS α) :
    (faceRebuilt F x).boundary = x.boundary ∧ (faceRebuilt F x).plane = x.plane ∧
      (faceRebuilt F x).holes = x.holes := by
  obtain ⟨b, pl, hs, vs, p2, cw⟩ := x
  cases hs <;> exact ⟨rfl, rfl, rfl⟩

/-- Without holes the rebuilt face also has the same vertex loop, hence the same key: it compares
equal to `x` and hashes equal. -/
theorem faceRebuilt_eq_of_no_holes (F : FaceOps α) (x : Face3DS α) (hh : x.holes = none)
    (hv : x.vertices = x.boundary) :
    compEq (.face3d (faceRebuilt F x)) (.face3d x) = true := by
  obtain ⟨b, pl, hs, vs, p2, cw⟩ := x
  simp only at hh hv
  subst hh hv
  rw [face_eq_iff]
  exact ⟨rfl, rfl, rfl, rfl⟩

/-- Constructor core: on the defining data of a face that satisfies the guards and is
counter-clockwise, `Face3D(boundary, plane, holes)` succeeds, keeps the boundary order (no flip)
and yields `faceRebuilt`. -/
theorem faceInit_of_guards (F : FaceOps α) (M : MathOps α) (x : Face3DS α) (hg : FaceGuards x)
    (hc : FaceCcw x) :
    faceInit F M x.boundary (some x.plane) x.holes true = .ok (faceRebuilt F x) := by
  obtain ⟨hlen, hne, hhl⟩ := hg
  obtain ⟨b, pl, hs, vs, p2, cw⟩ := x
  simp only at hlen hne hhl
  have hl : ¬ b.length < 3 := by omega
  unfold FaceCcw at hc
  simp only at hc
  rcases hs with _ | (_ | ⟨h0, ht⟩)
  · simp only [faceInit, faceBase, faceEnforce, hl, if_false, faceCachePolygon, faceReadClockwise,
      hc, faceRebuilt, Bool.false_eq_true, if_true]
  · exact absurd rfl hne
  · have hany := any_short_false (h0 :: ht) (hhl _ rfl)
    have hcc : polygon2d_are_clockwise (b.map (plane_xyz_to_xy pl)) = false := by
      rw [are_clockwise_eq]; exact hc
    simp only [faceInit, faceBase, faceEnforce, hl, if_false, hany, Bool.false_eq_true,
      faceCachePolygon, faceReadClockwise, hcc, faceRebuilt, mergedOf, if_true]

/-- `Face3D.from_dict(x.to_dict())` for every face that satisfies the constructor's guards, is
counter-clockwise (as every face built with `enforce_right_hand`) and whose plane satisfies the
`Plane` constructor's invariants: the face with identical boundary, identical plane (REUSED from
the dictionary, not recomputed) and identical holes; `_vertices` is the boundary, or the holes
re-merged into this boundary. -/
theorem face_dict_roundtrip (F : FaceOps α) (M : MathOps α) (h1 : M.sqrt 1 = 1) (x : Face3DS α)
    (hv : PlaneValid x.plane) (hg : FaceGuards x) (hc : FaceCcw x) :
    faceFromDict F M (faceToDict x true) = .ok (faceRebuilt F x) := by
  have hinit := faceInit_of_guards F M x hg hc
  obtain ⟨b, pl, hs, vs, p2, cw⟩ := x
  have hpl := planeFromDict_toDict M h1 pl hv.n_unit hv.x_unit hv.n_perp_x hv.y_eq hv.k_eq
  rcases hs with _ | hs
  · have hh : (faceToDict (⟨b, pl, none, vs, p2, cw⟩ : Face3DS α) true).present "holes" = none := rfl
    have hp : (faceToDict (⟨b, pl, none, vs, p2, cw⟩ : Face3DS α) true).present "plane"
        = some (planeToDict pl) := rfl
    have hb : (faceToDict (⟨b, pl, none, vs, p2, cw⟩ : Face3DS α) true).item "boundary"
        = .ok (.list (b.map pt3ToArray)) := rfl
    simp only [faceFromDict, hh, hp, hb, hpl, asList_list, pts3_roundtrip, bind, Except.bind, pure,
      Except.pure]
    exact hinit
  · have hh : (faceToDict (⟨b, pl, some hs, vs, p2, cw⟩ : Face3DS α) true).present "holes"
        = some (.list (hs.map (fun h => .list (h.map pt3ToArray)))) := rfl
    have hp : (faceToDict (⟨b, pl, some hs, vs, p2, cw⟩ : Face3DS α) true).present "plane"
        = some (planeToDict pl) := rfl
    have hb : (faceToDict (⟨b, pl, some hs, vs, p2, cw⟩ : Face3DS α) true).item "boundary"
        = .ok (.list (b.map pt3ToArray)) := rfl
    simp only [faceFromDict, hh, hp, hb, hpl, asList_list, pts3_roundtrip, loops3_roundtrip, bind,
      Except.bind, pure, Except.pure]
    exact hinit

/-- Without the plane in the dictionary (`to_dict(include_plane=False)`) `from_dict` is the
constructor on the same boundary and holes with the plane RECOMPUTED from the boundary. -/
theorem face_dict_roundtrip_no_plane (F : FaceOps α) (M : MathOps α) (x : Face3DS α) :
    faceFromDict F M (faceToDict x false) = faceInit F M x.boundary none x.holes true := by
  obtain ⟨b, pl, hs, vs, p2, cw⟩ := x
  rcases hs with _ | hs
  · have hh : (faceToDict (⟨b, pl, none, vs, p2, cw⟩ : Face3DS α) false).present "holes" = none := rfl
    have hp : (faceToDict (⟨b, pl, none, vs, p2, cw⟩ : Face3DS α) false).present "plane" = none := rfl
    have hb : (faceToDict (⟨b, pl, none, vs, p2, cw⟩ : Face3DS α) false).item "boundary"
        = .ok (.list (b.map pt3ToArray)) := rfl
    simp only [faceFromDict, hh, hp, hb, asList_list, pts3_roundtrip, bind, Except.bind, pure,
      Except.pure]
  · have hh : (faceToDict (⟨b, pl, some hs, vs, p2, cw⟩ : Face3DS α) false).present "holes"
        = some (.list (hs.map (fun h => .list (h.map pt3ToArray)))) := rfl
    have hp : (faceToDict (⟨b, pl, some hs, vs, p2, cw⟩ : Face3DS α) false).present "plane"
        = none := rfl
    have hb : (faceToDict (⟨b, pl, some hs, vs, p2, cw⟩ : Face3DS α) false).item "boundary"
        = .ok (.list (b.map pt3ToArray)) := rfl
    simp only [faceFromDict, hh, hp, hb, asList_list, pts3_roundtrip, loops3_roundtrip, bind,
      Except.bind, pure, Except.pure]

/-- `Face3D.from_array(x.to_array())` is the constructor on the same boundary and holes with the
plane recomputed (the array carries no plane). -/
theorem face_array_roundtrip (F : FaceOps α) (M : MathOps α) (x : Face3DS α)
    (hne : x.holes ≠ some []) :
    faceFromArray F M (faceToArray x) = faceInit F M x.boundary none x.holes true := by
  obtain ⟨b, pl, hs, vs, p2, cw⟩ := x
  rcases hs with _ | (_ | ⟨h0, ht⟩)
  · simp only [faceFromArray, faceToArray, asList_list, pts3_star_roundtrip, bind, Except.bind]
  · exact absurd rfl hne
  · have hr : mapR loop3OfStar ((DV.list (h0.map pt3ToArray) : DV α) ::
        ht.map (fun h => DV.list (h.map pt3ToArray))) = .ok (h0 :: ht) :=
      loops3_star_roundtrip (h0 :: ht)
    simp only [faceFromArray, faceToArray, asList_list, pts3_star_roundtrip, List.map_cons, hr,
      bind, Except.bind]

/-- `if holes:` — `None` and the empty list both mean "no holes". -/
def normHoles (hs : Option (List (List (V3 α)))) : Option (List (List (V3 α))) :=
  match hs with
  | some (h0 :: ht) => some (h0 :: ht)
  | _ => none

/-- Reading `is_clockwise` agrees with the orientation of the boundary in the face's plane
(true of every state the first half of the constructor produces). -/
def ReadCoherent (x : Face3DS α) : Prop :=
  faceReadClockwise x = polygon2d_is_clockwise (x.boundary.map (plane_xyz_to_xy x.plane))

/-- What "process boundary and holes" establishes. -/
theorem faceBase_ok (F : FaceOps α) (b : List (V3 α)) (pl : PlaneS α)
    (hs : Option (List (List (V3 α)))) (x : Face3DS α) (h : faceBase F b pl hs = .ok x) :
    x.boundary = b ∧ x.plane = pl ∧
      x.holes = normHoles hs ∧
      x.holes ≠ some [] ∧ (∀ hs', x.holes = some hs' → ∀ l ∈ hs', 3 ≤ l.length) ∧
      (x.holes = none → x.vertices = x.boundary) ∧ ReadCoherent x := by
  rcases hs with _ | (_ | ⟨h0, ht⟩)
  · simp only [faceBase, Except.ok.injEq] at h; subst h
    exact ⟨rfl, rfl, rfl, by simp, by simp, fun _ => rfl, rfl⟩
  · simp only [faceBase, Except.ok.injEq] at h; subst h
    exact ⟨rfl, rfl, rfl, by simp, by simp, fun _ => rfl, rfl⟩
  · simp only [faceBase] at h
    split_ifs at h with hany hcount
    · have hall : ∀ l ∈ h0 :: ht, 3 ≤ l.length := by
        intro l hl
        by_contra hlt
        apply hany
        rw [List.any_eq_true]
        exact ⟨l, hl, by simp only [decide_eq_true_eq]; omega⟩
      simp only [Except.ok.injEq] at h; subst h
      refine ⟨rfl, rfl, rfl, by simp, ?_, by simp, ?_⟩
      · intro hs' he; simp only [Option.some.injEq] at he; subst he; exact hall
      · simp only [ReadCoherent, faceReadClockwise, are_clockwise_eq]
    · have hall : ∀ l ∈ h0 :: ht, 3 ≤ l.length := by
        intro l hl
        by_contra hlt
        apply hany
        rw [List.any_eq_true]
        exact ⟨l, hl, by simp only [decide_eq_true_eq]; omega⟩
      simp only [Except.ok.injEq] at h; subst h
      refine ⟨rfl, rfl, rfl, by simp, ?_, by simp, ?_⟩
      · intro hs' he; simp only [Option.some.injEq] at he; subst he; exact hall
      · simp only [ReadCoherent, faceReadClockwise, are_clockwise_eq]

/-- What "enforce counter clockwise vertices" establishes: the boundary is counter-clockwise
afterwards; it is the old boundary or its reversal; plane and holes are untouched. -/
theorem faceEnforce_props (x : Face3DS α) (hr : ReadCoherent x) :
    FaceCcw (faceEnforce x) ∧
      ((faceEnforce x).boundary = x.boundary ∨ (faceEnforce x).boundary = x.boundary.reverse) ∧
      (faceEnforce x).plane = x.plane ∧ (faceEnforce x).holes = x.holes ∧
      (x.vertices = x.boundary → (faceEnforce x).vertices = (faceEnforce x).boundary) := by
  obtain ⟨e1, e2, e3, e4⟩ := faceCachePolygon_fields x
  unfold ReadCoherent at hr
  unfold faceEnforce FaceCcw
  simp only
  split_ifs with hcw
  · refine ⟨?_, Or.inr ?_, ?_, ?_, ?_⟩
    · show polygon2d_is_clockwise (((faceCachePolygon x).boundary.reverse).map
        (plane_xyz_to_xy (faceCachePolygon x).plane)) = false
      rw [e1, e2, List.map_reverse]
      exact not_clockwise_reverse _ (by rw [← hr]; exact hcw)
    · show (faceCachePolygon x).boundary.reverse = _
      rw [e1]
    · show (faceCachePolygon x).plane = _
      exact e2
    · show (faceCachePolygon x).holes = _
      exact e3
    · intro hv
      show (faceCachePolygon x).vertices.reverse = (faceCachePolygon x).boundary.reverse
      rw [e4, e1, hv]
  · refine ⟨?_, Or.inl e1, e2, e3, fun hv => by rw [e4, e1, hv]⟩
    rw [e1, e2, ← hr]; simpa using hcw

/-- What the constructor with `enforce_right_hand=True` establishes, for ANY arguments it
accepts: the guards hold, the stored boundary is counter-clockwise in the stored plane, it is the
given boundary or its reversal, the holes are the given ones (`None` for `None` or an empty list),
a given plane is stored as it is, and without holes `_vertices` is the boundary. -/
theorem faceInit_establishes (F : FaceOps α) (M : MathOps α) (b : List (V3 α))
    (pl : Option (PlaneS α)) (hs : Option (List (List (V3 α)))) (x : Face3DS α)
    (h : faceInit F M b pl hs true = .ok x) :
    FaceGuards x ∧ FaceCcw x ∧ (x.boundary = b ∨ x.boundary = b.reverse) ∧
      x.holes = normHoles hs ∧
      (∀ p, pl = some p → x.plane = p) ∧ (x.holes = none → x.vertices = x.boundary) := by
  unfold faceInit at h
  by_cases hlen : b.length < 3
  · rw [if_pos hlen] at h; cases h
  rw [if_neg hlen] at h
  have hlen' : 3 ≤ b.length := by omega
  split at h
  · cases h
  · rename_i pl' hpl
    have hplane : ∀ p, pl = some p → pl' = p := by
      intro p hp; subst hp
      simp only [Except.ok.injEq] at hpl; exact hpl.symm
    split at h
    · cases h
    · rename_i x0 hx0
      simp only [if_true, Except.ok.injEq] at h
      subst h
      obtain ⟨b0, p0, h0, hne0, hlen0, hv0, hr0⟩ := faceBase_ok F b pl' hs x0 hx0
      obtain ⟨c1, c2, c3, c4, c5⟩ := faceEnforce_props x0 hr0
      refine ⟨⟨?_, by rw [c4]; exact hne0, by rw [c4]; exact hlen0⟩, c1, by rw [← b0]; exact c2,
        by rw [c4]; exact h0, fun p hp => by rw [c3, p0]; exact hplane p hp, ?_⟩
      · rcases c2 with c2 | c2 <;> rw [c2, b0]
        · exact hlen'
        · simpa using hlen'
      · intro hh
        rw [c4] at hh
        exact c5 (hv0 hh)

/-- Consequently: a face built by the constructor with a given valid plane survives
`from_dict(to_dict())` with identical boundary, plane and holes. -/
theorem face_dict_roundtrip_constructed (F : FaceOps α) (M : MathOps α) (h1 : M.sqrt 1 = 1)
    (b : List (V3 α)) (p : PlaneS α) (hs : Option (List (List (V3 α)))) (x : Face3DS α)
    (hp : PlaneValid p) (h : faceInit F M b (some p) hs true = .ok x) :
    ∃ y, faceFromDict F M (faceToDict x true) = .ok y ∧ y.boundary = x.boundary ∧
      y.plane = x.plane ∧ y.holes = x.holes ∧
      (x.holes = none → compEq (.face3d y) (.face3d x) = true) := by
  obtain ⟨hg, hc, _, _, hpl, hvb⟩ := faceInit_establishes F M b (some p) hs x h
  have hv : PlaneValid x.plane := by rw [hpl p rfl]; exact hp
  obtain ⟨e1, e2, e3⟩ := faceRebuilt_defining F x
  exact ⟨faceRebuilt F x, face_dict_roundtrip F M h1 x hv hg hc, e1, e2, e3,
    fun hh => faceRebuilt_eq_of_no_holes F x hh (hvb hh)⟩

/-- The array round trip (and the dictionary without plane) of a constructed face: if it
succeeds, the result has the same holes and the same boundary up to the orientation chosen with
respect to the RECOMPUTED plane. -/
theorem face_array_roundtrip_defining (F : FaceOps α) (M : MathOps α) (x y : Face3DS α)
    (hg : FaceGuards x) (h : faceFromArray F M (faceToArray x) = .ok y) :
    (y.boundary = x.boundary ∨ y.boundary = x.boundary.reverse) ∧ y.holes = x.holes ∧
      FaceCcw y := by
  rw [face_array_roundtrip F M x hg.holes_ne] at h
  obtain ⟨_, hc, hb, hh, _, _⟩ := faceInit_establishes F M _ _ _ y h
  refine ⟨hb, ?_, hc⟩
  rw [hh]
  obtain ⟨b, pl, hs, vs, p2, cw⟩ := x
  rcases hs with _ | (_ | ⟨h0, ht⟩)
  · rfl
  · exact absurd rfl hg.holes_ne
  · rfl

/-- `x.duplicate()` is the same face, slot for slot — boundary, plane, holes, and the merged
`_vertices` / `_polygon2d` are taken over (not re-merged, not re-oriented) — for every face that
satisfies the constructor's guards, clockwise or not.  It compares equal with an equal key. -/
theorem face_copy (F : FaceOps α) (M : MathOps α) (x : Face3DS α) (hg : FaceGuards x) :
    faceCopy F M x = .ok x ∧ compEq (.face3d x) (.face3d x) = true := by
  refine ⟨?_, compEq_refl _⟩
  obtain ⟨hlen, hne, hhl⟩ := hg
  obtain ⟨b, pl, hs, vs, p2, cw⟩ := x
  simp only at hlen hne hhl
  have hl : ¬ b.length < 3 := by omega
  rcases hs with _ | (_ | ⟨h0, ht⟩)
  · simp only [faceCopy, faceInit, faceBase, hl, if_false, Bool.false_eq_true]
  · exact absurd rfl hne
  · have hany := any_short_false (h0 :: ht) (hhl _ rfl)
    simp only [faceCopy, faceInit, faceBase, hl, if_false, hany, Bool.false_eq_true]

/-- Through the dispatcher: the same object as `Face3D.from_dict`. -/
theorem face_dispatch (F : FaceOps α) (M : MathOps α) (h1 : M.sqrt 1 = 1) (x : Face3DS α)
    (hv : PlaneValid x.plane) (hg : FaceGuards x) (hc : FaceCcw x) (r : Bool) :
    dictToObject F M (faceToDict x true) r = .ok (some (.comp (.face3d (faceRebuilt F x)))) := by
  have ht : (faceToDict x true).item "type" = .ok (.str "Face3D") := rfl
  have hl : lbtTypes "Face3D" = some .face3d := by decide
  simp only [dictToObject, ht, hl, classFromDict, face_dict_roundtrip F M h1 x hv hg hc, Except.map]

/-! ## G. The dispatcher `geometry_dict_to_object` in general -/

/-- The 21 type strings of the table. -/
def typeStrings : List String :=
  ["Vector2D", "Point2D", "Ray2D", "LineSegment2D", "Arc2D", "Polyline2D", "Polygon2D", "Mesh2D",
   "Vector3D", "Point3D", "Ray3D", "LineSegment3D", "Arc3D", "Polyline3D", "Mesh3D", "Plane",
   "Polyface3D", "Face3D", "Sphere", "Cone", "Cylinder"]

/-- The table knows exactly the 21 registered names (case-sensitive, nothing else). -/
theorem lbtTypes_isSome_iff (s : String) : (lbtTypes s).isSome ↔ s ∈ typeStrings := by
  constructor
  · intro h
    by_contra hs
    simp only [typeStrings, List.mem_cons, List.not_mem_nil, or_false, not_or] at hs
    obtain ⟨h1, h2, h3, h4, h5, h6, h7, h8, h9, h10, h11, h12, h13, h14, h15, h16, h17, h18, h19, h20, h21⟩ := hs
    simp only [lbtTypes, h1, h2, h3, h4, h5, h6, h7, h8, h9, h10, h11, h12, h13, h14, h15, h16, h17, h18, h19, h20, h21, if_false, Option.isSome_none, Bool.false_eq_true] at h
  · intro h
    simp only [typeStrings, List.mem_cons, List.not_mem_nil, or_false] at h
    rcases h with h | h | h | h | h | h | h | h | h | h | h | h | h | h | h | h | h | h | h | h | h <;>
      subst h <;> decide

/-- Each composite class is registered under its own name (the `type` string its `to_dict`
writes), so the dispatcher routes a dictionary to the class that wrote it. -/
theorem lbtTypes_composite :
    lbtTypes "Polygon2D" = some .polygon2d ∧ lbtTypes "Polyline2D" = some .polyline2d ∧
    lbtTypes "Polyline3D" = some .polyline3d ∧ lbtTypes "Mesh2D" = some .mesh2d ∧
    lbtTypes "Mesh3D" = some .mesh3d ∧ lbtTypes "Face3D" = some .face3d ∧
    lbtTypes "Polyface3D" = some .polyface3d ∧ lbtTypes "Plane" = some .plane := by
  decide

/-- For a registered type string the dispatcher returns exactly what that class's own
`from_dict` returns on the same dictionary — same object, same exception — EXCEPT that a
`KeyError` raised inside `from_dict` (a missing mandatory key) is reported like an unknown
type: `ValueError`, or `None` when `raise_exception` is false. -/
theorem dispatch_registered (F : FaceOps α) (M : MathOps α) (d : DV α) (s : String) (c : ClassTag)
    (r : Bool) (ht : d.item "type" = .ok (.str s)) (hc : lbtTypes s = some c) :
    dictToObject F M d r =
      (match classFromDict F M c d with
       | .ok g => .ok (some g)
       | .error .KeyError => if r then .error .ValueError else .ok none
       | .error e => .error e) := by
  simp only [dictToObject, ht, hc]
  cases classFromDict F M c d with
  | ok g => rfl
  | error e => cases e <;> rfl

/-- For any other type string: `ValueError` when `raise_exception` is true, `None` otherwise. -/
theorem dispatch_unknown (F : FaceOps α) (M : MathOps α) (d : DV α) (s : String)
    (ht : d.item "type" = .ok (.str s)) (hc : s ∉ typeStrings) :
    dictToObject F M d true = .error .ValueError ∧ dictToObject F M d false = .ok none := by
  have hn : lbtTypes s = none := by
    cases h : lbtTypes s with
    | none => rfl
    | some c => exact absurd ((lbtTypes_isSome_iff s).1 (by rw [h]; rfl)) hc
  simp only [dictToObject, ht, hn, if_true, Bool.false_eq_true, if_false, and_self]

/-- A dictionary without a `type` key: `ValueError`, whatever `raise_exception` is. -/
theorem dispatch_no_type (F : FaceOps α) (M : MathOps α) (kv : List (String × DV α)) (r : Bool)
    (h : lookup "type" kv = none) : dictToObject F M (.dict kv) r = .error .ValueError := by
  simp only [dictToObject, DV.item, h]

/-- The name under which a table entry is registered. -/
def tagName : ClassTag → String
  | .polygon2d => "Polygon2D" | .polyline2d => "Polyline2D" | .polyline3d => "Polyline3D"
  | .mesh2d => "Mesh2D" | .mesh3d => "Mesh3D" | .face3d => "Face3D" | .polyface3d => "Polyface3D"
  | .plane => "Plane"
  | .simple .Vector2D => "Vector2D" | .simple .Point2D => "Point2D" | .simple .Ray2D => "Ray2D"
  | .simple .LineSegment2D => "LineSegment2D" | .simple .Arc2D => "Arc2D"
  | .simple .Vector3D => "Vector3D" | .simple .Point3D => "Point3D" | .simple .Ray3D => "Ray3D"
  | .simple .LineSegment3D => "LineSegment3D" | .simple .Arc3D => "Arc3D"
  | .simple .Sphere => "Sphere" | .simple .Cone => "Cone" | .simple .Cylinder => "Cylinder"

/-- The table is keyed by the class names: an entry is found only under its own name. -/
theorem lbtTypes_name (s : String) (c : ClassTag) (h : lbtTypes s = some c) : s = tagName c := by
  have hs : s ∈ typeStrings := (lbtTypes_isSome_iff s).1 (by rw [h]; rfl)
  simp only [typeStrings, List.mem_cons, List.not_mem_nil, or_false] at hs
  rcases hs with rfl | rfl | rfl | rfl | rfl | rfl | rfl | rfl | rfl | rfl | rfl | rfl | rfl | rfl | rfl | rfl | rfl | rfl | rfl | rfl | rfl
  · have h2 : lbtTypes "Vector2D" = some (.simple .Vector2D) := by decide
    rw [h2] at h; simp only [Option.some.injEq] at h; subst h; rfl
  · have h2 : lbtTypes "Point2D" = some (.simple .Point2D) := by decide
    rw [h2] at h; simp only [Option.some.injEq] at h; subst h; rfl
  · have h2 : lbtTypes "Ray2D" = some (.simple .Ray2D) := by decide
    rw [h2] at h; simp only [Option.some.injEq] at h; subst h; rfl
  · have h2 : lbtTypes "LineSegment2D" = some (.simple .LineSegment2D) := by decide
    rw [h2] at h; simp only [Option.some.injEq] at h; subst h; rfl
  · have h2 : lbtTypes "Arc2D" = some (.simple .Arc2D) := by decide
    rw [h2] at h; simp only [Option.some.injEq] at h; subst h; rfl
  · have h2 : lbtTypes "Polyline2D" = some .polyline2d := by decide
    rw [h2] at h; simp only [Option.some.injEq] at h; subst h; rfl
  · have h2 : lbtTypes "Polygon2D" = some .polygon2d := by decide
    rw [h2] at h; simp only [Option.some.injEq] at h; subst h; rfl
  · have h2 : lbtTypes "Mesh2D" = some .mesh2d := by decide
    rw [h2] at h; simp only [Option.some.injEq] at h; subst h; rfl
  · have h2 : lbtTypes "Vector3D" = some (.simple .Vector3D) := by decide
    rw [h2] at h; simp only [Option.some.injEq] at h; subst h; rfl
  · have h2 : lbtTypes "Point3D" = some (.simple .Point3D) := by decide
    rw [h2] at h; simp only [Option.some.injEq] at h; subst h; rfl
  · have h2 : lbtTypes "Ray3D" = some (.simple .Ray3D) := by decide
    rw [h2] at h; simp only [Option.some.injEq] at h; subst h; rfl
  · have h2 : lbtTypes "LineSegment3D" = some (.simple .LineSegment3D) := by decide
    rw [h2] at h; simp only [Option.some.injEq] at h; subst h; rfl
  · have h2 : lbtTypes "Arc3D" = some (.simple .Arc3D) := by decide
    rw [h2] at h; simp only [Option.some.injEq] at h; subst h; rfl
  · have h2 : lbtTypes "Polyline3D" = some .polyline3d := by decide
    rw [h2] at h; simp only [Option.some.injEq] at h; subst h; rfl
  · have h2 : lbtTypes "Mesh3D" = some .mesh3d := by decide
    rw [h2] at h; simp only [Option.some.injEq] at h; subst h; rfl
  · have h2 : lbtTypes "Plane" = some .plane := by decide
    rw [h2] at h; simp only [Option.some.injEq] at h; subst h; rfl
  · have h2 : lbtTypes "Polyface3D" = some .polyface3d := by decide
    rw [h2] at h; simp only [Option.some.injEq] at h; subst h; rfl
  · have h2 : lbtTypes "Face3D" = some .face3d := by decide
    rw [h2] at h; simp only [Option.some.injEq] at h; subst h; rfl
  · have h2 : lbtTypes "Sphere" = some (.simple .Sphere) := by decide
    rw [h2] at h; simp only [Option.some.injEq] at h; subst h; rfl
  · have h2 : lbtTypes "Cone" = some (.simple .Cone) := by decide
    rw [h2] at h; simp only [Option.some.injEq] at h; subst h; rfl
  · have h2 : lbtTypes "Cylinder" = some (.simple .Cylinder) := by decide
    rw [h2] at h; simp only [Option.some.injEq] at h; subst h; rfl

/-- A class's `from_dict` returns an object of that class. -/
theorem classFromDict_class (F : FaceOps α) (M : MathOps α) (tag : ClassTag) (d : DV α)
    (c : Comp α) (h : classFromDict F M tag d = .ok (.comp c)) : tagName tag = c.className := by
  cases tag with
  | polygon2d =>
    simp only [classFromDict, Except.map] at h
    split at h <;> simp only [Except.ok.injEq, Geo.comp.injEq, reduceCtorEq] at h; subst h; rfl
  | polyline2d =>
    simp only [classFromDict, Except.map] at h
    split at h <;> simp only [Except.ok.injEq, Geo.comp.injEq, reduceCtorEq] at h; subst h; rfl
  | polyline3d =>
    simp only [classFromDict, Except.map] at h
    split at h <;> simp only [Except.ok.injEq, Geo.comp.injEq, reduceCtorEq] at h; subst h; rfl
  | mesh2d =>
    simp only [classFromDict, Except.map] at h
    split at h <;> simp only [Except.ok.injEq, Geo.comp.injEq, reduceCtorEq] at h; subst h; rfl
  | mesh3d =>
    simp only [classFromDict, Except.map] at h
    split at h <;> simp only [Except.ok.injEq, Geo.comp.injEq, reduceCtorEq] at h; subst h; rfl
  | face3d =>
    simp only [classFromDict, Except.map] at h
    split at h <;> simp only [Except.ok.injEq, Geo.comp.injEq, reduceCtorEq] at h; subst h; rfl
  | polyface3d =>
    simp only [classFromDict, Except.map] at h
    split at h <;> simp only [Except.ok.injEq, Geo.comp.injEq, reduceCtorEq] at h; subst h; rfl
  | plane =>
    simp only [classFromDict, Except.map] at h
    split at h <;> simp only [Except.ok.injEq, reduceCtorEq] at h
  | simple sc =>
    simp only [classFromDict, Except.ok.injEq, reduceCtorEq] at h

/-- A successful dispatch returns an object of the class registered under the dictionary's type
string — never an object of another class. -/
theorem dispatch_class (F : FaceOps α) (M : MathOps α) (d : DV α) (r : Bool) (c : Comp α)
    (h : dictToObject F M d r = .ok (some (.comp c))) : d.item "type" = .ok (.str c.className) := by
  unfold dictToObject at h
  cases ht : d.item "type" with
  | error e => rw [ht] at h; cases e <;> simp only [reduceCtorEq] at h
  | ok t =>
    rw [ht] at h
    cases t with
    | str s =>
      simp only at h
      cases hl : lbtTypes s with
      | none =>
        rw [hl] at h; simp only at h
        split_ifs at h <;> simp only [reduceCtorEq, Except.ok.injEq] at h
      | some tag =>
        rw [hl] at h
        simp only at h
        cases hcd : classFromDict F M tag d with
        | error e =>
          rw [hcd] at h
          cases e <;> simp only [reduceCtorEq] at h <;> split_ifs at h <;>
            simp only [reduceCtorEq, Except.ok.injEq] at h
        | ok g =>
          rw [hcd] at h
          simp only [Except.ok.injEq, Option.some.injEq] at h
          subst h
          rw [lbtTypes_name s tag hl, classFromDict_class F M tag d c hcd]
    | num x => simp only at h; split_ifs at h <;> simp only [reduceCtorEq, Except.ok.injEq] at h
    | int x => simp only at h; split_ifs at h <;> simp only [reduceCtorEq, Except.ok.injEq] at h
    | bool x => simp only at h; split_ifs at h <;> simp only [reduceCtorEq, Except.ok.injEq] at h
    | null => simp only at h; split_ifs at h <;> simp only [reduceCtorEq, Except.ok.injEq] at h
    | list x => simp only [reduceCtorEq] at h
    | dict x => simp only [reduceCtorEq] at h

/-- A plane dictionary through the dispatcher: the same plane as `Plane.from_dict`, for every
plane satisfying the `Plane` constructor's invariants. -/
theorem plane_dispatch (F : FaceOps α) (M : MathOps α) (h1 : M.sqrt 1 = 1) (p : PlaneS α)
    (hv : PlaneValid p) (r : Bool) :
    dictToObject F M (planeToDict p) r = .ok (some (.plane p)) := by
  have ht : (planeToDict p).item "type" = .ok (.str "Plane") := rfl
  have hl : lbtTypes "Plane" = some .plane := by decide
  simp only [dictToObject, ht, hl, classFromDict, Except.map,
    planeFromDict_toDict M h1 p hv.n_unit hv.x_unit hv.n_perp_x hv.y_eq hv.k_eq]

/-- A missing mandatory key is reported by the dispatcher as an unknown type (the `KeyError`
raised inside `from_dict` is caught by the dispatcher's own `except KeyError`): a `Polygon2D`
dictionary without `vertices` gives `None` with `raise_exception=False`, `ValueError` otherwise —
while `Polygon2D.from_dict` itself raises `KeyError`. -/
theorem dispatch_swallows_key_error (F : FaceOps α) (M : MathOps α) :
    polygonFromDict (.dict [("type", (.str "Polygon2D" : DV α))]) = .error .KeyError ∧
    dictToObject F M (.dict [("type", (.str "Polygon2D" : DV α))]) false = .ok none ∧
    dictToObject F M (.dict [("type", (.str "Polygon2D" : DV α))]) true = .error .ValueError := by
  have hl : lbtTypes "Polygon2D" = some .polygon2d := by decide
  have hf : polygonFromDict (.dict [("type", (.str "Polygon2D" : DV α))]) = .error .KeyError := rfl
  have ht : (DV.dict [("type", (.str "Polygon2D" : DV α))]).item "type"
      = .ok (.str "Polygon2D") := rfl
  refine ⟨hf, ?_, ?_⟩ <;>
    simp only [dictToObject, ht, hl, classFromDict, hf, Except.map, Bool.false_eq_true, if_false,
      if_true]

/-! ## H. Non-vacuity: concrete instances over ℚ -/

/-- A triangle satisfies the polygon guard; its dictionary and array round trips and its
dispatch are the identity; moving one coordinate, reversing or rotating the vertices gives an
unequal polygon. -/
example :
    let t : Polygon2DS ℚ := ⟨[⟨0, 0⟩, ⟨4, 0⟩, ⟨1 / 2, 3⟩]⟩
    3 ≤ t.vertices.length ∧ polygonFromDict (polygonToDict t) = .ok t ∧
      polygonFromArray (polygonToArray t) = .ok t ∧
      compEq (.polygon2d t) (.polygon2d ⟨[⟨0, 0⟩, ⟨4, 0⟩, ⟨1 / 2, 3 + 1 / 1024⟩]⟩) = false ∧
      compEq (.polygon2d t) (.polygon2d ⟨t.vertices.reverse⟩) = false ∧
      compEq (.polygon2d t) (.polygon2d ⟨t.vertices.rotate 1⟩) = false ∧
      compEq (.polygon2d t) (.polyline2d ⟨t.vertices, some false⟩) = false := by
  decide +kernel

/-- Two vertices are rejected (by the constructor and hence by the round trip). -/
example : polygonFromDict (polygonToDict (⟨[⟨0, 0⟩, ⟨4, 0⟩]⟩ : Polygon2DS ℚ))
    = .error .AssertionError := by
  decide +kernel

/-- An interpolated polyline: the key is written and read back; the array route loses the flag. -/
example :
    let l : Polyline3DS ℚ := ⟨[⟨0, 0, 1⟩, ⟨4, 0, 2⟩, ⟨1 / 2, 3, 5⟩, ⟨7, 7, 7⟩], some true⟩
    (polyline3ToDict l).get? "interpolated" = some (.bool true) ∧
      polyline3FromDict (polyline3ToDict l) = .ok l ∧
      polyline3FromArray (polyline3ToArray l) = .ok ⟨l.vertices, some false⟩ ∧
      (polyline3ToDict (⟨l.vertices, some false⟩ : Polyline3DS ℚ)).get? "interpolated" = none := by
  refine ⟨rfl, by decide +kernel, by decide +kernel, rfl⟩

/-- A coloured mesh with as many faces as vertices (colours count as per-face) is a constructor
state (`MeshOK`); a negative index is accepted; a mesh with an out-of-range index is not. -/
example :
    let c : DV ℚ := .dict [("type", .str "Color"), ("r", .int 255), ("g", .int 0), ("b", .int 0)]
    MeshOK (⟨[⟨0, 0⟩, ⟨1, 0⟩, ⟨0, 1⟩], [[0, 1, 2], [2, 1, 0], [0, 2, -2]], some [c, c, c], true⟩
      : Mesh2DS ℚ) ∧
    meshCheckFaces 3 [[0, 1, 3]] = .error .IndexError ∧
    meshCheckFaces 3 [[0, 1]] = .error .AssertionError ∧
    meshCheckFaces 3 [] = .error .AssertionError := by
  intro c
  refine ⟨⟨some [c, c, c], rfl⟩, by decide, by decide, by decide⟩

/-- The hypotheses of the Face3D theorems hold together: `Mq.sqrt 1 = 1`, the XY plane through
`(0,0,1)` is a valid plane, a counter-clockwise 4×4 square with a triangular hole satisfies the
guards and is counter-clockwise. -/
example :
    let pl : PlaneS ℚ := ⟨⟨0, 0, 1⟩, ⟨0, 0, 1⟩, 1, ⟨1, 0, 0⟩, ⟨0, 1, 0⟩⟩
    let b : List (V3 ℚ) := [⟨0, 0, 1⟩, ⟨4, 0, 1⟩, ⟨4, 4, 1⟩, ⟨0, 4, 1⟩]
    let hole : List (V3 ℚ) := [⟨1, 1, 1⟩, ⟨2, 1, 1⟩, ⟨1, 2, 1⟩]
    let x : Face3DS ℚ := ⟨b, pl, some [hole], b, none, none⟩
    Mq.sqrt 1 = 1 ∧ PlaneValid pl ∧ FaceGuards x ∧ FaceCcw x := by
  refine ⟨by decide +kernel, ⟨by decide +kernel, by decide +kernel, by decide +kernel,
    by decide +kernel, by decide +kernel⟩, ⟨by decide, by decide, ?_⟩, by
      unfold FaceCcw; decide +kernel⟩
  intro hs he l hl
  simp only [Option.some.injEq] at he
  subst he
  simp only [List.mem_singleton] at hl
  subst hl
  decide

/-- The constructor flips a clockwise boundary: the same square given clockwise is stored
counter-clockwise, and its dictionary round trip returns boundary, plane and holes unchanged. -/
example :
    let pl : PlaneS ℚ := ⟨⟨0, 0, 1⟩, ⟨0, 0, 1⟩, 1, ⟨1, 0, 0⟩, ⟨0, 1, 0⟩⟩
    let b : List (V3 ℚ) := [⟨0, 4, 1⟩, ⟨4, 4, 1⟩, ⟨4, 0, 1⟩, ⟨0, 0, 1⟩]
    let F : FaceOps ℚ := ⟨fun b hs => b ++ hs.flatten, fun b hs => b ++ hs.flatten⟩
    ∃ x, faceInit F Mq b (some pl) none true = .ok x ∧ x.boundary = b.reverse ∧
      faceFromDict F Mq (faceToDict x true) = .ok x := by
  refine ⟨_, rfl, ?_, ?_⟩ <;> decide +kernel

/-- A polyface with autocalculated edges: both dictionary forms (with and without the edge
information) give the same object back. -/
example :
    let vs : List (V3 ℚ) := [⟨0, 0, 0⟩, ⟨1, 0, 0⟩, ⟨1, 1, 0⟩, ⟨0, 1, 0⟩]
    ∃ x, polyfaceInit vs [[[0, 1, 2]], [[0, 2, 3]]] none = .ok x ∧
      x.edge_indices = [(2, 0), (0, 1), (1, 2), (3, 0), (2, 3)] ∧ x.edge_types = [1, 0, 0, 0, 0] ∧
      polyfaceFromDict (polyfaceToDict x true) = .ok x ∧
      polyfaceFromDict (polyfaceToDict x false) = .ok x := by
  refine ⟨_, rfl, ?_, ?_, ?_, ?_⟩ <;> decide +kernel

/-- The dispatcher: a known type string, an unknown one with both settings of `raise_exception`,
and a dictionary without `type`. -/
example :
    let F : FaceOps ℚ := ⟨fun b _ => b, fun b _ => b⟩
    let t : Polygon2DS ℚ := ⟨[⟨0, 0⟩, ⟨4, 0⟩, ⟨1 / 2, 3⟩]⟩
    lbtTypes "Polygon2D" = some .polygon2d ∧ lbtTypes "polygon2d" = none ∧
      lbtTypes "Color" = none ∧ "Color" ∉ typeStrings ∧
      (DV.dict [("type", (.str "Color" : DV ℚ))]).item "type" = .ok (.str "Color") ∧
      lookup "type" [("vertices", (DV.list [] : DV ℚ))] = none := by
  refine ⟨by decide, by decide, by decide, by decide, rfl, rfl⟩

end Lbg.Props.C13b
