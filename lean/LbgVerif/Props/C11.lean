/-
  C11 — "Every point returned by an intersection routine lies on both operands and inside
  their parameter ranges; the result is the same when operands are swapped; a transversal
  crossing inside both ranges is returned; exactly separated operands return nothing."

  Property theorems only (helper lemmas live in `Lemmas/Isect2.lean`, `Lemmas/Isect3.lean`,
  `Lemmas/Sphere.lean`, `Lemmas/Arc.lean`).
  All statements are about the definitions regenerated from the repository by py2lean
  (`Lbg.Gen.*`).  Suffixes: `_ss/_sr/_rs/_rr` = (segment|ray) × (segment|ray); a segment's
  parameter range is `0 ≤ t ≤ 1`, a ray's is `0 ≤ t`.

  Scope note ("transversal"): all 2D line/line kernels return `none` when the direction
  determinant `d = b.v.y*a.v.x - b.v.x*a.v.y` is exactly zero, even if the operands are
  collinear and overlap.  The completeness theorems therefore carry the guard `d ≠ 0`
  (`Transversal2`), which is exactly the guard the Python code checks.
-/
import LbgVerif.Gen.Isect2
import LbgVerif.Gen.Isect3
import LbgVerif.Gen.Arc
import LbgVerif.Lemmas.Isect2
import LbgVerif.Lemmas.Isect3
import LbgVerif.Lemmas.Sphere
import LbgVerif.Lemmas.Arc
import Mathlib.Tactic.Ring
import Mathlib.Tactic.FieldSimp
import Mathlib.Tactic.Linarith
import Mathlib.Tactic.SplitIfs
import Mathlib.Tactic.LinearCombination
import Mathlib.Algebra.Order.Field.Rat

set_option linter.unusedSectionVars false

namespace Lbg.Props.C11
open Lbg Lbg.Gen
variable {α : Type} [Field α] [LinearOrder α] [IsStrictOrderedRing α]

/-! ## Predicates used in the statements -/

/-- `q = l.p + t·l.v` (componentwise). -/
def At2 (l : LR2 α) (t : α) (q : V2 α) : Prop :=
  q.x = l.p.x + t * l.v.x ∧ q.y = l.p.y + t * l.v.y

/-- `q` lies on the segment `l.p … l.p + l.v` (parameter in `[0,1]`). -/
def OnSeg2 (l : LR2 α) (q : V2 α) : Prop := ∃ t, 0 ≤ t ∧ t ≤ 1 ∧ At2 l t q
/-- `q` lies on the ray from `l.p` along `l.v` (parameter in `[0,∞)`). -/
def OnRay2 (l : LR2 α) (q : V2 α) : Prop := ∃ t, 0 ≤ t ∧ At2 l t q
/-- `q` lies on the infinite carrier line of `l` (any parameter). -/
def OnLine2 (l : LR2 α) (q : V2 α) : Prop := ∃ t, At2 l t q

/-- The operands are not parallel: the determinant guarded by the code is non-zero. -/
def Transversal2 (a b : LR2 α) : Prop := b.v.y * a.v.x - b.v.x * a.v.y ≠ 0

/-- `q = l.p + t·l.v` (componentwise, 3D). -/
def At3 (l : LR3 α) (t : α) (q : V3 α) : Prop :=
  q.x = l.p.x + t * l.v.x ∧ q.y = l.p.y + t * l.v.y ∧ q.z = l.p.z + t * l.v.z

/-- `q` lies on the 3D segment (parameter in `[0,1]`). -/
def OnSeg3 (l : LR3 α) (q : V3 α) : Prop := ∃ t, 0 ≤ t ∧ t ≤ 1 ∧ At3 l t q
/-- `q` lies on the 3D ray (parameter in `[0,∞)`). -/
def OnRay3 (l : LR3 α) (q : V3 α) : Prop := ∃ t, 0 ≤ t ∧ At3 l t q
/-- `q` lies on the infinite 3D carrier line. -/
def OnLine3 (l : LR3 α) (q : V3 α) : Prop := ∃ t, At3 l t q

/-- `q` satisfies the plane equation `n·q = k`. -/
def OnPlane (pl : PlaneS α) (q : V3 α) : Prop :=
  pl.n.x * q.x + pl.n.y * q.y + pl.n.z * q.z = pl.k

/-- The line direction is not parallel to the plane: `n·v ≠ 0` (the code's guard). -/
def Crosses3 (l : LR3 α) (pl : PlaneS α) : Prop :=
  pl.n.x * l.v.x + pl.n.y * l.v.y + pl.n.z * l.v.z ≠ 0

/-- Squared Euclidean distance in 3D. -/
def distSq3 (a b : V3 α) : α :=
  (a.x - b.x) * (a.x - b.x) + (a.y - b.y) * (a.y - b.y) + (a.z - b.z) * (a.z - b.z)

/-- `q` satisfies the sphere equation `|q − c|² = r²`. -/
def OnSphere (sp : SphereS α) (q : V3 α) : Prop :=
  distSq3 q sp.center = sp.radius * sp.radius

/-! ## 2D line / line -/

/-! ### segment `a` × segment `b` -/

/-- Full characterisation (segment `a` × segment `b`): the routine returns `q` exactly when the operands are
transversal (`d ≠ 0`, the code's guard) and `q` lies on `a` within its range and on `b` within
its range.  (Soundness, completeness and uniqueness of the returned point in one statement.) -/
theorem intersect_line2d_ss_iff (a b : LR2 α) (q : V2 α) :
    intersect_line2d_ss a b = some q ↔ Transversal2 a b ∧ OnSeg2 a q ∧ OnSeg2 b q := by
  rw [Lemmas.intersect_line2d_ss_eq]
  exact Lemmas.isect2_eq_some_iff .seg .seg a b q

/-- Soundness (segment `a` × segment `b`): a returned point lies on both operands, inside both parameter
ranges. -/
theorem intersect_line2d_ss_sound (a b : LR2 α) (q : V2 α)
    (h : intersect_line2d_ss a b = some q) : OnSeg2 a q ∧ OnSeg2 b q :=
  ((intersect_line2d_ss_iff a b q).mp h).2

/-- Completeness (segment `a` × segment `b`): a transversal crossing (`d ≠ 0`) at parameters `ta`, `tb` inside
both ranges is returned, and the returned point is that crossing point. -/
theorem intersect_line2d_ss_complete (a b : LR2 α) (hd : Transversal2 a b) (ta tb : α)
    (hta : 0 ≤ ta ∧ ta ≤ 1) (htb : 0 ≤ tb ∧ tb ≤ 1)
    (hx : a.p.x + ta * a.v.x = b.p.x + tb * b.v.x)
    (hy : a.p.y + ta * a.v.y = b.p.y + tb * b.v.y) :
    intersect_line2d_ss a b = some ⟨a.p.x + ta * a.v.x, a.p.y + ta * a.v.y⟩ :=
  (intersect_line2d_ss_iff a b _).mpr
    ⟨hd, ⟨ta, hta.1, hta.2, rfl, rfl⟩, ⟨tb, htb.1, htb.2, hx, hy⟩⟩

/-- Parallel operands (segment `a` × segment `b`): if the determinant is exactly zero the routine returns
nothing (this is the code's guard; it also covers collinear overlapping operands). -/
theorem intersect_line2d_ss_none_of_parallel (a b : LR2 α)
    (h : b.v.y * a.v.x - b.v.x * a.v.y = 0) : intersect_line2d_ss a b = none := by
  rw [Option.eq_none_iff_forall_ne_some]
  intro q hq
  exact ((intersect_line2d_ss_iff a b q).mp hq).1 h

/-- Separated operands (segment `a` × segment `b`): if no point lies on both operands (within their ranges)
the routine returns nothing. -/
theorem intersect_line2d_ss_none_of_separated (a b : LR2 α)
    (hsep : ∀ q, ¬ (OnSeg2 a q ∧ OnSeg2 b q)) : intersect_line2d_ss a b = none := by
  rw [Option.eq_none_iff_forall_ne_some]
  intro q hq
  exact hsep q (intersect_line2d_ss_sound a b q hq)

/-- Separated operands, parameter form (segment `a` × segment `b`): if the operands are transversal and the unique
solution `(ta, tb)` of the 2×2 system has a parameter outside its range, nothing is returned. -/
theorem intersect_line2d_ss_none_of_param_outside (a b : LR2 α) (hd : Transversal2 a b) (ta tb : α)
    (hx : a.p.x + ta * a.v.x = b.p.x + tb * b.v.x)
    (hy : a.p.y + ta * a.v.y = b.p.y + tb * b.v.y)
    (hout : ¬ ((0 ≤ ta ∧ ta ≤ 1) ∧ (0 ≤ tb ∧ tb ≤ 1))) : intersect_line2d_ss a b = none := by
  rw [Option.eq_none_iff_forall_ne_some]
  intro q hq
  obtain ⟨_, ⟨ta', ha0, ha1, hax, hay⟩, ⟨tb', hb0, hb1, hbx, hby⟩⟩ :=
    (intersect_line2d_ss_iff a b q).mp hq
  obtain ⟨e1, e2⟩ := Lemmas.cramer_unique a b hd ta tb hx hy
  obtain ⟨e1', e2'⟩ :=
    Lemmas.cramer_unique a b hd ta' tb' (hax.symm.trans hbx) (hay.symm.trans hby)
  have h1 : ta = ta' := e1.trans e1'.symm
  have h2 : tb = tb' := e2.trans e2'.symm
  subst h1; subst h2
  exact hout ⟨⟨ha0, ha1⟩, ⟨hb0, hb1⟩⟩

/-- Symmetry (segment `a` × segment `b`): swapping the operands gives exactly the same result (the same point, as
an identity in the field, or `none` on both sides). -/
theorem intersect_line2d_ss_symm (a b : LR2 α) :
    intersect_line2d_ss a b = intersect_line2d_ss b a := by
  rw [Lemmas.intersect_line2d_ss_eq, Lemmas.intersect_line2d_ss_eq]
  exact Lemmas.isect2_symm .seg .seg a b

/-- The boolean existence test agrees with the point-returning routine (segment `a` × segment `b`). -/
theorem does_intersection_exist_line2d_ss_iff (a b : LR2 α) :
    does_intersection_exist_line2d_ss a b = true ↔ (intersect_line2d_ss a b).isSome = true := by
  rw [Lemmas.does_intersection_exist_line2d_ss_eq, Lemmas.intersect_line2d_ss_eq]

/-- The boolean existence test is `true` exactly when the operands are transversal and share a
point within their ranges (segment `a` × segment `b`). -/
theorem does_intersection_exist_line2d_ss_iff_exists (a b : LR2 α) :
    does_intersection_exist_line2d_ss a b = true ↔ Transversal2 a b ∧ ∃ q, OnSeg2 a q ∧ OnSeg2 b q := by
  rw [does_intersection_exist_line2d_ss_iff, Option.isSome_iff_exists]
  constructor
  · rintro ⟨q, hq⟩
    obtain ⟨hd, h⟩ := (intersect_line2d_ss_iff a b q).mp hq
    exact ⟨hd, q, h⟩
  · rintro ⟨hd, q, h⟩
    exact ⟨q, (intersect_line2d_ss_iff a b q).mpr ⟨hd, h⟩⟩

/-- "Infinite" variant (segment `a` × carrier line of `b`): returns `q` exactly when `d ≠ 0`,
`q` lies on `a` within its range and on the infinite line through `b`. -/
theorem intersect_line2d_infinite_ss_iff (a b : LR2 α) (q : V2 α) :
    intersect_line2d_infinite_ss a b = some q ↔ Transversal2 a b ∧ OnSeg2 a q ∧ OnLine2 b q := by
  rw [Lemmas.intersect_line2d_infinite_ss_eq]
  exact Lemmas.isect2_eq_some_iff .seg .line a b q

/-- Soundness of the "infinite" variant: the point is on `a` within range and on the carrier
line of `b`. -/
theorem intersect_line2d_infinite_ss_sound (a b : LR2 α) (q : V2 α)
    (h : intersect_line2d_infinite_ss a b = some q) : OnSeg2 a q ∧ OnLine2 b q :=
  ((intersect_line2d_infinite_ss_iff a b q).mp h).2

/-- Completeness of the "infinite" variant: a transversal crossing at `ta` inside `a`'s range and
any `tb` is returned. -/
theorem intersect_line2d_infinite_ss_complete (a b : LR2 α) (hd : Transversal2 a b) (ta tb : α)
    (hta : 0 ≤ ta ∧ ta ≤ 1)
    (hx : a.p.x + ta * a.v.x = b.p.x + tb * b.v.x)
    (hy : a.p.y + ta * a.v.y = b.p.y + tb * b.v.y) :
    intersect_line2d_infinite_ss a b = some ⟨a.p.x + ta * a.v.x, a.p.y + ta * a.v.y⟩ :=
  (intersect_line2d_infinite_ss_iff a b _).mpr
    ⟨hd, ⟨ta, hta.1, hta.2, rfl, rfl⟩, ⟨tb, hx, hy⟩⟩

/-! ### segment `a` × ray `b` -/

/-- Full characterisation (segment `a` × ray `b`): the routine returns `q` exactly when the operands are
transversal (`d ≠ 0`, the code's guard) and `q` lies on `a` within its range and on `b` within
its range.  (Soundness, completeness and uniqueness of the returned point in one statement.) -/
theorem intersect_line2d_sr_iff (a b : LR2 α) (q : V2 α) :
    intersect_line2d_sr a b = some q ↔ Transversal2 a b ∧ OnSeg2 a q ∧ OnRay2 b q := by
  rw [Lemmas.intersect_line2d_sr_eq]
  exact Lemmas.isect2_eq_some_iff .seg .ray a b q

/-- Soundness (segment `a` × ray `b`): a returned point lies on both operands, inside both parameter
ranges. -/
theorem intersect_line2d_sr_sound (a b : LR2 α) (q : V2 α)
    (h : intersect_line2d_sr a b = some q) : OnSeg2 a q ∧ OnRay2 b q :=
  ((intersect_line2d_sr_iff a b q).mp h).2

/-- Completeness (segment `a` × ray `b`): a transversal crossing (`d ≠ 0`) at parameters `ta`, `tb` inside
both ranges is returned, and the returned point is that crossing point. -/
theorem intersect_line2d_sr_complete (a b : LR2 α) (hd : Transversal2 a b) (ta tb : α)
    (hta : 0 ≤ ta ∧ ta ≤ 1) (htb : 0 ≤ tb)
    (hx : a.p.x + ta * a.v.x = b.p.x + tb * b.v.x)
    (hy : a.p.y + ta * a.v.y = b.p.y + tb * b.v.y) :
    intersect_line2d_sr a b = some ⟨a.p.x + ta * a.v.x, a.p.y + ta * a.v.y⟩ :=
  (intersect_line2d_sr_iff a b _).mpr
    ⟨hd, ⟨ta, hta.1, hta.2, rfl, rfl⟩, ⟨tb, htb, hx, hy⟩⟩

/-- Parallel operands (segment `a` × ray `b`): if the determinant is exactly zero the routine returns
nothing (this is the code's guard; it also covers collinear overlapping operands). -/
theorem intersect_line2d_sr_none_of_parallel (a b : LR2 α)
    (h : b.v.y * a.v.x - b.v.x * a.v.y = 0) : intersect_line2d_sr a b = none := by
  rw [Option.eq_none_iff_forall_ne_some]
  intro q hq
  exact ((intersect_line2d_sr_iff a b q).mp hq).1 h

/-- Separated operands (segment `a` × ray `b`): if no point lies on both operands (within their ranges)
the routine returns nothing. -/
theorem intersect_line2d_sr_none_of_separated (a b : LR2 α)
    (hsep : ∀ q, ¬ (OnSeg2 a q ∧ OnRay2 b q)) : intersect_line2d_sr a b = none := by
  rw [Option.eq_none_iff_forall_ne_some]
  intro q hq
  exact hsep q (intersect_line2d_sr_sound a b q hq)

/-- Separated operands, parameter form (segment `a` × ray `b`): if the operands are transversal and the unique
solution `(ta, tb)` of the 2×2 system has a parameter outside its range, nothing is returned. -/
theorem intersect_line2d_sr_none_of_param_outside (a b : LR2 α) (hd : Transversal2 a b) (ta tb : α)
    (hx : a.p.x + ta * a.v.x = b.p.x + tb * b.v.x)
    (hy : a.p.y + ta * a.v.y = b.p.y + tb * b.v.y)
    (hout : ¬ ((0 ≤ ta ∧ ta ≤ 1) ∧ (0 ≤ tb))) : intersect_line2d_sr a b = none := by
  rw [Option.eq_none_iff_forall_ne_some]
  intro q hq
  obtain ⟨_, ⟨ta', ha0, ha1, hax, hay⟩, ⟨tb', hb0, hbx, hby⟩⟩ :=
    (intersect_line2d_sr_iff a b q).mp hq
  obtain ⟨e1, e2⟩ := Lemmas.cramer_unique a b hd ta tb hx hy
  obtain ⟨e1', e2'⟩ :=
    Lemmas.cramer_unique a b hd ta' tb' (hax.symm.trans hbx) (hay.symm.trans hby)
  have h1 : ta = ta' := e1.trans e1'.symm
  have h2 : tb = tb' := e2.trans e2'.symm
  subst h1; subst h2
  exact hout ⟨⟨ha0, ha1⟩, hb0⟩

/-- Symmetry (segment `a` × ray `b`): swapping the operands gives exactly the same result (the same point, as
an identity in the field, or `none` on both sides). -/
theorem intersect_line2d_sr_symm (a b : LR2 α) :
    intersect_line2d_sr a b = intersect_line2d_rs b a := by
  rw [Lemmas.intersect_line2d_sr_eq, Lemmas.intersect_line2d_rs_eq]
  exact Lemmas.isect2_symm .seg .ray a b

/-- The boolean existence test agrees with the point-returning routine (segment `a` × ray `b`). -/
theorem does_intersection_exist_line2d_sr_iff (a b : LR2 α) :
    does_intersection_exist_line2d_sr a b = true ↔ (intersect_line2d_sr a b).isSome = true := by
  rw [Lemmas.does_intersection_exist_line2d_sr_eq, Lemmas.intersect_line2d_sr_eq]

/-- The boolean existence test is `true` exactly when the operands are transversal and share a
point within their ranges (segment `a` × ray `b`). -/
theorem does_intersection_exist_line2d_sr_iff_exists (a b : LR2 α) :
    does_intersection_exist_line2d_sr a b = true ↔ Transversal2 a b ∧ ∃ q, OnSeg2 a q ∧ OnRay2 b q := by
  rw [does_intersection_exist_line2d_sr_iff, Option.isSome_iff_exists]
  constructor
  · rintro ⟨q, hq⟩
    obtain ⟨hd, h⟩ := (intersect_line2d_sr_iff a b q).mp hq
    exact ⟨hd, q, h⟩
  · rintro ⟨hd, q, h⟩
    exact ⟨q, (intersect_line2d_sr_iff a b q).mpr ⟨hd, h⟩⟩

/-- "Infinite" variant (segment `a` × carrier line of `b`): returns `q` exactly when `d ≠ 0`,
`q` lies on `a` within its range and on the infinite line through `b`. -/
theorem intersect_line2d_infinite_sr_iff (a b : LR2 α) (q : V2 α) :
    intersect_line2d_infinite_sr a b = some q ↔ Transversal2 a b ∧ OnSeg2 a q ∧ OnLine2 b q := by
  rw [Lemmas.intersect_line2d_infinite_sr_eq]
  exact Lemmas.isect2_eq_some_iff .seg .line a b q

/-- Soundness of the "infinite" variant: the point is on `a` within range and on the carrier
line of `b`. -/
theorem intersect_line2d_infinite_sr_sound (a b : LR2 α) (q : V2 α)
    (h : intersect_line2d_infinite_sr a b = some q) : OnSeg2 a q ∧ OnLine2 b q :=
  ((intersect_line2d_infinite_sr_iff a b q).mp h).2

/-- Completeness of the "infinite" variant: a transversal crossing at `ta` inside `a`'s range and
any `tb` is returned. -/
theorem intersect_line2d_infinite_sr_complete (a b : LR2 α) (hd : Transversal2 a b) (ta tb : α)
    (hta : 0 ≤ ta ∧ ta ≤ 1)
    (hx : a.p.x + ta * a.v.x = b.p.x + tb * b.v.x)
    (hy : a.p.y + ta * a.v.y = b.p.y + tb * b.v.y) :
    intersect_line2d_infinite_sr a b = some ⟨a.p.x + ta * a.v.x, a.p.y + ta * a.v.y⟩ :=
  (intersect_line2d_infinite_sr_iff a b _).mpr
    ⟨hd, ⟨ta, hta.1, hta.2, rfl, rfl⟩, ⟨tb, hx, hy⟩⟩

/-! ### ray `a` × segment `b` -/

/-- Full characterisation (ray `a` × segment `b`): the routine returns `q` exactly when the operands are
transversal (`d ≠ 0`, the code's guard) and `q` lies on `a` within its range and on `b` within
its range.  (Soundness, completeness and uniqueness of the returned point in one statement.) -/
theorem intersect_line2d_rs_iff (a b : LR2 α) (q : V2 α) :
    intersect_line2d_rs a b = some q ↔ Transversal2 a b ∧ OnRay2 a q ∧ OnSeg2 b q := by
  rw [Lemmas.intersect_line2d_rs_eq]
  exact Lemmas.isect2_eq_some_iff .ray .seg a b q

/-- Soundness (ray `a` × segment `b`): a returned point lies on both operands, inside both parameter
ranges. -/
theorem intersect_line2d_rs_sound (a b : LR2 α) (q : V2 α)
    (h : intersect_line2d_rs a b = some q) : OnRay2 a q ∧ OnSeg2 b q :=
  ((intersect_line2d_rs_iff a b q).mp h).2

/-- Completeness (ray `a` × segment `b`): a transversal crossing (`d ≠ 0`) at parameters `ta`, `tb` inside
both ranges is returned, and the returned point is that crossing point. -/
theorem intersect_line2d_rs_complete (a b : LR2 α) (hd : Transversal2 a b) (ta tb : α)
    (hta : 0 ≤ ta) (htb : 0 ≤ tb ∧ tb ≤ 1)
    (hx : a.p.x + ta * a.v.x = b.p.x + tb * b.v.x)
    (hy : a.p.y + ta * a.v.y = b.p.y + tb * b.v.y) :
    intersect_line2d_rs a b = some ⟨a.p.x + ta * a.v.x, a.p.y + ta * a.v.y⟩ :=
  (intersect_line2d_rs_iff a b _).mpr
    ⟨hd, ⟨ta, hta, rfl, rfl⟩, ⟨tb, htb.1, htb.2, hx, hy⟩⟩

/-- Parallel operands (ray `a` × segment `b`): if the determinant is exactly zero the routine returns
nothing (this is the code's guard; it also covers collinear overlapping operands). -/
theorem intersect_line2d_rs_none_of_parallel (a b : LR2 α)
    (h : b.v.y * a.v.x - b.v.x * a.v.y = 0) : intersect_line2d_rs a b = none := by
  rw [Option.eq_none_iff_forall_ne_some]
  intro q hq
  exact ((intersect_line2d_rs_iff a b q).mp hq).1 h

/-- Separated operands (ray `a` × segment `b`): if no point lies on both operands (within their ranges)
the routine returns nothing. -/
theorem intersect_line2d_rs_none_of_separated (a b : LR2 α)
    (hsep : ∀ q, ¬ (OnRay2 a q ∧ OnSeg2 b q)) : intersect_line2d_rs a b = none := by
  rw [Option.eq_none_iff_forall_ne_some]
  intro q hq
  exact hsep q (intersect_line2d_rs_sound a b q hq)

/-- Separated operands, parameter form (ray `a` × segment `b`): if the operands are transversal and the unique
solution `(ta, tb)` of the 2×2 system has a parameter outside its range, nothing is returned. -/
theorem intersect_line2d_rs_none_of_param_outside (a b : LR2 α) (hd : Transversal2 a b) (ta tb : α)
    (hx : a.p.x + ta * a.v.x = b.p.x + tb * b.v.x)
    (hy : a.p.y + ta * a.v.y = b.p.y + tb * b.v.y)
    (hout : ¬ ((0 ≤ ta) ∧ (0 ≤ tb ∧ tb ≤ 1))) : intersect_line2d_rs a b = none := by
  rw [Option.eq_none_iff_forall_ne_some]
  intro q hq
  obtain ⟨_, ⟨ta', ha0, hax, hay⟩, ⟨tb', hb0, hb1, hbx, hby⟩⟩ :=
    (intersect_line2d_rs_iff a b q).mp hq
  obtain ⟨e1, e2⟩ := Lemmas.cramer_unique a b hd ta tb hx hy
  obtain ⟨e1', e2'⟩ :=
    Lemmas.cramer_unique a b hd ta' tb' (hax.symm.trans hbx) (hay.symm.trans hby)
  have h1 : ta = ta' := e1.trans e1'.symm
  have h2 : tb = tb' := e2.trans e2'.symm
  subst h1; subst h2
  exact hout ⟨ha0, ⟨hb0, hb1⟩⟩

/-- Symmetry (ray `a` × segment `b`): swapping the operands gives exactly the same result (the same point, as
an identity in the field, or `none` on both sides). -/
theorem intersect_line2d_rs_symm (a b : LR2 α) :
    intersect_line2d_rs a b = intersect_line2d_sr b a := by
  rw [Lemmas.intersect_line2d_rs_eq, Lemmas.intersect_line2d_sr_eq]
  exact Lemmas.isect2_symm .ray .seg a b

/-- The boolean existence test agrees with the point-returning routine (ray `a` × segment `b`). -/
theorem does_intersection_exist_line2d_rs_iff (a b : LR2 α) :
    does_intersection_exist_line2d_rs a b = true ↔ (intersect_line2d_rs a b).isSome = true := by
  rw [Lemmas.does_intersection_exist_line2d_rs_eq, Lemmas.intersect_line2d_rs_eq]

/-- The boolean existence test is `true` exactly when the operands are transversal and share a
point within their ranges (ray `a` × segment `b`). -/
theorem does_intersection_exist_line2d_rs_iff_exists (a b : LR2 α) :
    does_intersection_exist_line2d_rs a b = true ↔ Transversal2 a b ∧ ∃ q, OnRay2 a q ∧ OnSeg2 b q := by
  rw [does_intersection_exist_line2d_rs_iff, Option.isSome_iff_exists]
  constructor
  · rintro ⟨q, hq⟩
    obtain ⟨hd, h⟩ := (intersect_line2d_rs_iff a b q).mp hq
    exact ⟨hd, q, h⟩
  · rintro ⟨hd, q, h⟩
    exact ⟨q, (intersect_line2d_rs_iff a b q).mpr ⟨hd, h⟩⟩

/-- "Infinite" variant (ray `a` × carrier line of `b`): returns `q` exactly when `d ≠ 0`,
`q` lies on `a` within its range and on the infinite line through `b`. -/
theorem intersect_line2d_infinite_rs_iff (a b : LR2 α) (q : V2 α) :
    intersect_line2d_infinite_rs a b = some q ↔ Transversal2 a b ∧ OnRay2 a q ∧ OnLine2 b q := by
  rw [Lemmas.intersect_line2d_infinite_rs_eq]
  exact Lemmas.isect2_eq_some_iff .ray .line a b q

/-- Soundness of the "infinite" variant: the point is on `a` within range and on the carrier
line of `b`. -/
theorem intersect_line2d_infinite_rs_sound (a b : LR2 α) (q : V2 α)
    (h : intersect_line2d_infinite_rs a b = some q) : OnRay2 a q ∧ OnLine2 b q :=
  ((intersect_line2d_infinite_rs_iff a b q).mp h).2

/-- Completeness of the "infinite" variant: a transversal crossing at `ta` inside `a`'s range and
any `tb` is returned. -/
theorem intersect_line2d_infinite_rs_complete (a b : LR2 α) (hd : Transversal2 a b) (ta tb : α)
    (hta : 0 ≤ ta)
    (hx : a.p.x + ta * a.v.x = b.p.x + tb * b.v.x)
    (hy : a.p.y + ta * a.v.y = b.p.y + tb * b.v.y) :
    intersect_line2d_infinite_rs a b = some ⟨a.p.x + ta * a.v.x, a.p.y + ta * a.v.y⟩ :=
  (intersect_line2d_infinite_rs_iff a b _).mpr
    ⟨hd, ⟨ta, hta, rfl, rfl⟩, ⟨tb, hx, hy⟩⟩

/-! ### ray `a` × ray `b` -/

/-- Full characterisation (ray `a` × ray `b`): the routine returns `q` exactly when the operands are
transversal (`d ≠ 0`, the code's guard) and `q` lies on `a` within its range and on `b` within
its range.  (Soundness, completeness and uniqueness of the returned point in one statement.) -/
theorem intersect_line2d_rr_iff (a b : LR2 α) (q : V2 α) :
    intersect_line2d_rr a b = some q ↔ Transversal2 a b ∧ OnRay2 a q ∧ OnRay2 b q := by
  rw [Lemmas.intersect_line2d_rr_eq]
  exact Lemmas.isect2_eq_some_iff .ray .ray a b q

/-- Soundness (ray `a` × ray `b`): a returned point lies on both operands, inside both parameter
ranges. -/
theorem intersect_line2d_rr_sound (a b : LR2 α) (q : V2 α)
    (h : intersect_line2d_rr a b = some q) : OnRay2 a q ∧ OnRay2 b q :=
  ((intersect_line2d_rr_iff a b q).mp h).2

/-- Completeness (ray `a` × ray `b`): a transversal crossing (`d ≠ 0`) at parameters `ta`, `tb` inside
both ranges is returned, and the returned point is that crossing point. -/
theorem intersect_line2d_rr_complete (a b : LR2 α) (hd : Transversal2 a b) (ta tb : α)
    (hta : 0 ≤ ta) (htb : 0 ≤ tb)
    (hx : a.p.x + ta * a.v.x = b.p.x + tb * b.v.x)
    (hy : a.p.y + ta * a.v.y = b.p.y + tb * b.v.y) :
    intersect_line2d_rr a b = some ⟨a.p.x + ta * a.v.x, a.p.y + ta * a.v.y⟩ :=
  (intersect_line2d_rr_iff a b _).mpr
    ⟨hd, ⟨ta, hta, rfl, rfl⟩, ⟨tb, htb, hx, hy⟩⟩

/-- Parallel operands (ray `a` × ray `b`): if the determinant is exactly zero the routine returns
nothing (this is the code's guard; it also covers collinear overlapping operands). -/
theorem intersect_line2d_rr_none_of_parallel (a b : LR2 α)
    (h : b.v.y * a.v.x - b.v.x * a.v.y = 0) : intersect_line2d_rr a b = none := by
  rw [Option.eq_none_iff_forall_ne_some]
  intro q hq
  exact ((intersect_line2d_rr_iff a b q).mp hq).1 h

/-- Separated operands (ray `a` × ray `b`): if no point lies on both operands (within their ranges)
the routine returns nothing. -/
theorem intersect_line2d_rr_none_of_separated (a b : LR2 α)
    (hsep : ∀ q, ¬ (OnRay2 a q ∧ OnRay2 b q)) : intersect_line2d_rr a b = none := by
  rw [Option.eq_none_iff_forall_ne_some]
  intro q hq
  exact hsep q (intersect_line2d_rr_sound a b q hq)

/-- Separated operands, parameter form (ray `a` × ray `b`): if the operands are transversal and the unique
solution `(ta, tb)` of the 2×2 system has a parameter outside its range, nothing is returned. -/
theorem intersect_line2d_rr_none_of_param_outside (a b : LR2 α) (hd : Transversal2 a b) (ta tb : α)
    (hx : a.p.x + ta * a.v.x = b.p.x + tb * b.v.x)
    (hy : a.p.y + ta * a.v.y = b.p.y + tb * b.v.y)
    (hout : ¬ ((0 ≤ ta) ∧ (0 ≤ tb))) : intersect_line2d_rr a b = none := by
  rw [Option.eq_none_iff_forall_ne_some]
  intro q hq
  obtain ⟨_, ⟨ta', ha0, hax, hay⟩, ⟨tb', hb0, hbx, hby⟩⟩ :=
    (intersect_line2d_rr_iff a b q).mp hq
  obtain ⟨e1, e2⟩ := Lemmas.cramer_unique a b hd ta tb hx hy
  obtain ⟨e1', e2'⟩ :=
    Lemmas.cramer_unique a b hd ta' tb' (hax.symm.trans hbx) (hay.symm.trans hby)
  have h1 : ta = ta' := e1.trans e1'.symm
  have h2 : tb = tb' := e2.trans e2'.symm
  subst h1; subst h2
  exact hout ⟨ha0, hb0⟩

/-- Symmetry (ray `a` × ray `b`): swapping the operands gives exactly the same result (the same point, as
an identity in the field, or `none` on both sides). -/
theorem intersect_line2d_rr_symm (a b : LR2 α) :
    intersect_line2d_rr a b = intersect_line2d_rr b a := by
  rw [Lemmas.intersect_line2d_rr_eq, Lemmas.intersect_line2d_rr_eq]
  exact Lemmas.isect2_symm .ray .ray a b

/-- The boolean existence test agrees with the point-returning routine (ray `a` × ray `b`). -/
theorem does_intersection_exist_line2d_rr_iff (a b : LR2 α) :
    does_intersection_exist_line2d_rr a b = true ↔ (intersect_line2d_rr a b).isSome = true := by
  rw [Lemmas.does_intersection_exist_line2d_rr_eq, Lemmas.intersect_line2d_rr_eq]

/-- The boolean existence test is `true` exactly when the operands are transversal and share a
point within their ranges (ray `a` × ray `b`). -/
theorem does_intersection_exist_line2d_rr_iff_exists (a b : LR2 α) :
    does_intersection_exist_line2d_rr a b = true ↔ Transversal2 a b ∧ ∃ q, OnRay2 a q ∧ OnRay2 b q := by
  rw [does_intersection_exist_line2d_rr_iff, Option.isSome_iff_exists]
  constructor
  · rintro ⟨q, hq⟩
    obtain ⟨hd, h⟩ := (intersect_line2d_rr_iff a b q).mp hq
    exact ⟨hd, q, h⟩
  · rintro ⟨hd, q, h⟩
    exact ⟨q, (intersect_line2d_rr_iff a b q).mpr ⟨hd, h⟩⟩

/-- "Infinite" variant (ray `a` × carrier line of `b`): returns `q` exactly when `d ≠ 0`,
`q` lies on `a` within its range and on the infinite line through `b`. -/
theorem intersect_line2d_infinite_rr_iff (a b : LR2 α) (q : V2 α) :
    intersect_line2d_infinite_rr a b = some q ↔ Transversal2 a b ∧ OnRay2 a q ∧ OnLine2 b q := by
  rw [Lemmas.intersect_line2d_infinite_rr_eq]
  exact Lemmas.isect2_eq_some_iff .ray .line a b q

/-- Soundness of the "infinite" variant: the point is on `a` within range and on the carrier
line of `b`. -/
theorem intersect_line2d_infinite_rr_sound (a b : LR2 α) (q : V2 α)
    (h : intersect_line2d_infinite_rr a b = some q) : OnRay2 a q ∧ OnLine2 b q :=
  ((intersect_line2d_infinite_rr_iff a b q).mp h).2

/-- Completeness of the "infinite" variant: a transversal crossing at `ta` inside `a`'s range and
any `tb` is returned. -/
theorem intersect_line2d_infinite_rr_complete (a b : LR2 α) (hd : Transversal2 a b) (ta tb : α)
    (hta : 0 ≤ ta)
    (hx : a.p.x + ta * a.v.x = b.p.x + tb * b.v.x)
    (hy : a.p.y + ta * a.v.y = b.p.y + tb * b.v.y) :
    intersect_line2d_infinite_rr a b = some ⟨a.p.x + ta * a.v.x, a.p.y + ta * a.v.y⟩ :=
  (intersect_line2d_infinite_rr_iff a b _).mpr
    ⟨hd, ⟨ta, hta, rfl, rfl⟩, ⟨tb, hx, hy⟩⟩

/-! ### `intersect_line_segment2d` (segment × segment with an `_isclose` consistency test) -/

/-- In exact arithmetic the extra `_isclose` test always passes (the two candidate points
`a.p + ua·a.v` and `b.p + ub·b.v` are equal in a field), so the routine coincides with
`intersect_line2d_ss`. -/
theorem intersect_line_segment2d_eq_ss (a b : LR2 α) :
    intersect_line_segment2d a b = intersect_line2d_ss a b := by
  rw [Lemmas.intersect_line_segment2d_eq, Lemmas.intersect_line2d_ss_eq]

/-- Soundness: a point returned by `intersect_line_segment2d` lies on both segments. -/
theorem intersect_line_segment2d_sound (a b : LR2 α) (q : V2 α)
    (h : intersect_line_segment2d a b = some q) : OnSeg2 a q ∧ OnSeg2 b q :=
  intersect_line2d_ss_sound a b q (intersect_line_segment2d_eq_ss a b ▸ h)

/-- Full characterisation of `intersect_line_segment2d`. -/
theorem intersect_line_segment2d_iff (a b : LR2 α) (q : V2 α) :
    intersect_line_segment2d a b = some q ↔ Transversal2 a b ∧ OnSeg2 a q ∧ OnSeg2 b q := by
  rw [intersect_line_segment2d_eq_ss]; exact intersect_line2d_ss_iff a b q

/-- Symmetry of `intersect_line_segment2d`. -/
theorem intersect_line_segment2d_symm (a b : LR2 α) :
    intersect_line_segment2d a b = intersect_line_segment2d b a := by
  rw [intersect_line_segment2d_eq_ss, intersect_line_segment2d_eq_ss]
  exact intersect_line2d_ss_symm a b

/-! ### Non-vacuity (ℚ) -/

/-- A concrete transversal crossing: `(0,0)→(2,0)` and `(1,-1)→(1,1)` meet at `(1,0)`. -/
example : intersect_line2d_ss (⟨⟨0, 0⟩, ⟨2, 0⟩⟩ : LR2 ℚ) ⟨⟨1, -1⟩, ⟨0, 2⟩⟩ = some ⟨1, 0⟩ := by
  decide +kernel
/-- … and the hypotheses of the completeness theorem are satisfiable for it. -/
example : Transversal2 (⟨⟨0, 0⟩, ⟨2, 0⟩⟩ : LR2 ℚ) ⟨⟨1, -1⟩, ⟨0, 2⟩⟩ := by
  unfold Transversal2; norm_num
/-- Separated segments return nothing. -/
example : intersect_line2d_ss (⟨⟨0, 0⟩, ⟨2, 0⟩⟩ : LR2 ℚ) ⟨⟨5, -1⟩, ⟨0, 2⟩⟩ = none := by
  decide +kernel
/-- The same operands read as rays do meet (ray `a` reaches `x = 5`). -/
example : intersect_line2d_rs (⟨⟨0, 0⟩, ⟨2, 0⟩⟩ : LR2 ℚ) ⟨⟨5, -1⟩, ⟨0, 2⟩⟩ = some ⟨5, 0⟩ := by
  decide +kernel
/-- Collinear overlapping segments: `none` (documented limitation, guard `d = 0`). -/
example : intersect_line2d_ss (⟨⟨0, 0⟩, ⟨2, 0⟩⟩ : LR2 ℚ) ⟨⟨1, 0⟩, ⟨2, 0⟩⟩ = none := by
  decide +kernel

/-! ## 3D line / plane -/

/-- Full characterisation (segment × plane): returns `q` exactly when `n·v ≠ 0` (the code's
guard), `q` lies on the segment within `[0,1]` and `q` satisfies the plane equation. -/
theorem intersect_line3d_plane_s_iff (l : LR3 α) (pl : PlaneS α) (q : V3 α) :
    intersect_line3d_plane_s l pl = some q ↔ Crosses3 l pl ∧ OnSeg3 l q ∧ OnPlane pl q := by
  rw [Lemmas.intersect_line3d_plane_s_eq]
  exact Lemmas.isectLP_eq_some_iff .seg l pl q

/-- Soundness (segment × plane): the returned point is `l.p + u·l.v` with `0 ≤ u ≤ 1` and lies
on the plane (`n·q = k`). -/
theorem intersect_line3d_plane_s_sound (l : LR3 α) (pl : PlaneS α) (q : V3 α)
    (h : intersect_line3d_plane_s l pl = some q) : OnSeg3 l q ∧ OnPlane pl q :=
  ((intersect_line3d_plane_s_iff l pl q).mp h).2

/-- Completeness, parameter form (segment × plane): a result is returned exactly when
`n·v ≠ 0` and the crossing parameter `(k − n·p)/(n·v)` lies in `[0,1]`. -/
theorem intersect_line3d_plane_s_isSome_iff (l : LR3 α) (pl : PlaneS α) :
    (intersect_line3d_plane_s l pl).isSome = true ↔
      Crosses3 l pl ∧
        (0 ≤ (pl.k - (pl.n.x * l.p.x + pl.n.y * l.p.y + pl.n.z * l.p.z)) /
            (pl.n.x * l.v.x + pl.n.y * l.v.y + pl.n.z * l.v.z) ∧
         (pl.k - (pl.n.x * l.p.x + pl.n.y * l.p.y + pl.n.z * l.p.z)) /
            (pl.n.x * l.v.x + pl.n.y * l.v.y + pl.n.z * l.v.z) ≤ 1) := by
  rw [Lemmas.intersect_line3d_plane_s_eq]
  exact Lemmas.isectLP_isSome_iff .seg l pl

/-- Completeness, geometric form (segment × plane): with `n·v ≠ 0`, any point on the segment
that satisfies the plane equation is the returned point. -/
theorem intersect_line3d_plane_s_complete (l : LR3 α) (pl : PlaneS α) (q : V3 α)
    (hd : Crosses3 l pl) (hl : OnSeg3 l q) (hp : OnPlane pl q) :
    intersect_line3d_plane_s l pl = some q :=
  (intersect_line3d_plane_s_iff l pl q).mpr ⟨hd, hl, hp⟩

/-- Parallel line and plane (`n·v = 0`): nothing is returned. -/
theorem intersect_line3d_plane_s_none_of_parallel (l : LR3 α) (pl : PlaneS α)
    (h : pl.n.x * l.v.x + pl.n.y * l.v.y + pl.n.z * l.v.z = 0) :
    intersect_line3d_plane_s l pl = none := by
  rw [Option.eq_none_iff_forall_ne_some]
  intro q hq
  exact ((intersect_line3d_plane_s_iff l pl q).mp hq).1 h

/-- Full characterisation (ray × plane): returns `q` exactly when `n·v ≠ 0`, `q` lies on the ray
(`0 ≤ u`) and on the plane. -/
theorem intersect_line3d_plane_r_iff (l : LR3 α) (pl : PlaneS α) (q : V3 α) :
    intersect_line3d_plane_r l pl = some q ↔ Crosses3 l pl ∧ OnRay3 l q ∧ OnPlane pl q := by
  rw [Lemmas.intersect_line3d_plane_r_eq]
  exact Lemmas.isectLP_eq_some_iff .ray l pl q

/-- Soundness (ray × plane): the returned point is `l.p + u·l.v` with `0 ≤ u` and lies on the
plane. -/
theorem intersect_line3d_plane_r_sound (l : LR3 α) (pl : PlaneS α) (q : V3 α)
    (h : intersect_line3d_plane_r l pl = some q) : OnRay3 l q ∧ OnPlane pl q :=
  ((intersect_line3d_plane_r_iff l pl q).mp h).2

/-- Completeness, parameter form (ray × plane): a result is returned exactly when `n·v ≠ 0`
and the crossing parameter `(k − n·p)/(n·v)` is non-negative. -/
theorem intersect_line3d_plane_r_isSome_iff (l : LR3 α) (pl : PlaneS α) :
    (intersect_line3d_plane_r l pl).isSome = true ↔
      Crosses3 l pl ∧
        0 ≤ (pl.k - (pl.n.x * l.p.x + pl.n.y * l.p.y + pl.n.z * l.p.z)) /
            (pl.n.x * l.v.x + pl.n.y * l.v.y + pl.n.z * l.v.z) := by
  rw [Lemmas.intersect_line3d_plane_r_eq]
  exact Lemmas.isectLP_isSome_iff .ray l pl

/-- Completeness, geometric form (ray × plane). -/
theorem intersect_line3d_plane_r_complete (l : LR3 α) (pl : PlaneS α) (q : V3 α)
    (hd : Crosses3 l pl) (hl : OnRay3 l q) (hp : OnPlane pl q) :
    intersect_line3d_plane_r l pl = some q :=
  (intersect_line3d_plane_r_iff l pl q).mpr ⟨hd, hl, hp⟩

/-- Parallel ray and plane (`n·v = 0`): nothing is returned. -/
theorem intersect_line3d_plane_r_none_of_parallel (l : LR3 α) (pl : PlaneS α)
    (h : pl.n.x * l.v.x + pl.n.y * l.v.y + pl.n.z * l.v.z = 0) :
    intersect_line3d_plane_r l pl = none := by
  rw [Option.eq_none_iff_forall_ne_some]
  intro q hq
  exact ((intersect_line3d_plane_r_iff l pl q).mp hq).1 h

/-- "Infinite" variant on a segment operand: no range test at all; returns `q` exactly when
`n·v ≠ 0`, `q` lies on the carrier line and on the plane. -/
theorem intersect_line3d_plane_infinite_s_iff (l : LR3 α) (pl : PlaneS α) (q : V3 α) :
    intersect_line3d_plane_infinite_s l pl = some q ↔
      Crosses3 l pl ∧ OnLine3 l q ∧ OnPlane pl q := by
  rw [Lemmas.intersect_line3d_plane_infinite_s_eq]
  exact Lemmas.isectLP_eq_some_iff .line l pl q

/-- Soundness of the "infinite" variant (segment operand). -/
theorem intersect_line3d_plane_infinite_s_sound (l : LR3 α) (pl : PlaneS α) (q : V3 α)
    (h : intersect_line3d_plane_infinite_s l pl = some q) : OnLine3 l q ∧ OnPlane pl q :=
  ((intersect_line3d_plane_infinite_s_iff l pl q).mp h).2

/-- Completeness of the "infinite" variant (segment operand): a result exists iff `n·v ≠ 0`. -/
theorem intersect_line3d_plane_infinite_s_isSome_iff (l : LR3 α) (pl : PlaneS α) :
    (intersect_line3d_plane_infinite_s l pl).isSome = true ↔ Crosses3 l pl := by
  rw [Lemmas.intersect_line3d_plane_infinite_s_eq, Lemmas.isectLP_isSome_iff]
  exact ⟨fun h => h.1, fun h => ⟨h, trivial⟩⟩

/-- "Infinite" variant on a ray operand: identical behaviour (carrier line × plane). -/
theorem intersect_line3d_plane_infinite_r_iff (l : LR3 α) (pl : PlaneS α) (q : V3 α) :
    intersect_line3d_plane_infinite_r l pl = some q ↔
      Crosses3 l pl ∧ OnLine3 l q ∧ OnPlane pl q := by
  rw [Lemmas.intersect_line3d_plane_infinite_r_eq]
  exact Lemmas.isectLP_eq_some_iff .line l pl q

/-- Soundness of the "infinite" variant (ray operand). -/
theorem intersect_line3d_plane_infinite_r_sound (l : LR3 α) (pl : PlaneS α) (q : V3 α)
    (h : intersect_line3d_plane_infinite_r l pl = some q) : OnLine3 l q ∧ OnPlane pl q :=
  ((intersect_line3d_plane_infinite_r_iff l pl q).mp h).2

/-- Completeness of the "infinite" variant (ray operand): a result exists iff `n·v ≠ 0`. -/
theorem intersect_line3d_plane_infinite_r_isSome_iff (l : LR3 α) (pl : PlaneS α) :
    (intersect_line3d_plane_infinite_r l pl).isSome = true ↔ Crosses3 l pl := by
  rw [Lemmas.intersect_line3d_plane_infinite_r_eq, Lemmas.isectLP_isSome_iff]
  exact ⟨fun h => h.1, fun h => ⟨h, trivial⟩⟩

/-- Non-vacuity: the segment `(0,0,-1)→(0,0,1)` crosses the plane `z = 0` at the origin. -/
example : intersect_line3d_plane_s (⟨⟨0, 0, -1⟩, ⟨0, 0, 2⟩⟩ : LR3 ℚ)
    ⟨⟨0, 0, 1⟩, ⟨0, 0, 0⟩, 0, ⟨1, 0, 0⟩, ⟨0, 1, 0⟩⟩ = some ⟨0, 0, 0⟩ := by decide +kernel

/-! ## Plane / plane -/

/-- Soundness of `intersect_plane_plane`: when a pair `(pt, dir)` is returned (the code's guard is
`0 < |n_a|²|n_b|² − (n_a·n_b)²` and `|n_a × n_b|² ≠ 0`), `pt` satisfies both plane equations, `dir`
is the cross product of the normals, hence perpendicular to both, and `dir` is not the zero
vector. -/
theorem intersect_plane_plane_sound (pa pb : PlaneS α) (pt dir : V3 α)
    (h : intersect_plane_plane pa pb = some (pt, dir)) :
    OnPlane pa pt ∧ OnPlane pb pt ∧ V3.dot pa.n dir = 0 ∧ V3.dot pb.n dir = 0
      ∧ dir = V3.cross pa.n pb.n ∧ ¬ (dir.x = 0 ∧ dir.y = 0 ∧ dir.z = 0) := by
  unfold intersect_plane_plane at h
  simp only [] at h
  split_ifs at h with h1 h2
  simp only [Option.some.injEq, Prod.mk.injEq] at h
  obtain ⟨rfl, rfl⟩ := h
  have hdet : V3.normSq pa.n * V3.normSq pb.n - V3.dot pa.n pb.n * V3.dot pa.n pb.n ≠ 0 := by
    intro h; apply ne_of_gt h1
    simp only [V3.normSq, V3.dot] at h; linear_combination h
  have e1 := Lemmas.plane_plane_pt1 pa.n pb.n pa.k pb.k hdet
  have e2 := Lemmas.plane_plane_pt2 pa.n pb.n pa.k pb.k hdet
  simp only [V3.normSq, V3.dot] at e1 e2
  refine ⟨?_, ?_, ?_, ?_, ?_, ?_⟩
  · simp only [OnPlane]; linear_combination e1
  · simp only [OnPlane]; linear_combination e2
  · simp only [V3.dot]; ring
  · simp only [V3.dot]; ring
  · simp only [V3.cross]; ext <;> ring
  · intro hz
    apply h2
    have := (Lemmas.normSq3_eq_zero_iff _).mpr hz
    simp only [V3.normSq] at this
    linear_combination this

/-- Completeness of `intersect_plane_plane`: nothing is returned exactly when the normals are
parallel (their cross product vanishes).  By Lagrange's identity the guarded quantity
`det = |n_a|²|n_b|² − (n_a·n_b)²` equals `|n_a × n_b|² ≥ 0`, so the code's test
`det ≤ 0 ∨ |n_a × n_b|² = 0` is equivalent to `n_a × n_b = 0`. -/
theorem intersect_plane_plane_none_iff (pa pb : PlaneS α) :
    intersect_plane_plane pa pb = none ↔
      (V3.cross pa.n pb.n).x = 0 ∧ (V3.cross pa.n pb.n).y = 0 ∧ (V3.cross pa.n pb.n).z = 0 := by
  rw [← Lemmas.normSq3_eq_zero_iff]
  have hnn := Lemmas.normSq3_nonneg (V3.cross pa.n pb.n)
  unfold intersect_plane_plane
  simp only []
  split_ifs with h1 h2
  · refine ⟨fun _ => ?_, fun _ => rfl⟩
    simp only [V3.normSq, V3.cross]; linear_combination h2
  · refine ⟨fun h => absurd h (by simp), fun h => absurd ?_ h2⟩
    simp only [V3.normSq, V3.cross] at h; linear_combination h
  · refine ⟨fun _ => ?_, fun _ => rfl⟩
    have hle := not_lt.mp h1
    simp only [V3.normSq, V3.cross] at hnn ⊢
    linarith

/-- Non-vacuity: the planes `z = 0` and `x = 1` meet in a line through `(1,0,0)` along `y`. -/
example : intersect_plane_plane
    (⟨⟨0, 0, 1⟩, ⟨0, 0, 0⟩, 0, ⟨1, 0, 0⟩, ⟨0, 1, 0⟩⟩ : PlaneS ℚ)
    ⟨⟨1, 0, 0⟩, ⟨1, 0, 0⟩, 1, ⟨0, 1, 0⟩, ⟨0, 0, 1⟩⟩ = some (⟨1, 0, 0⟩, ⟨0, 1, 0⟩) := by
  decide +kernel

/-! ## 3D line / sphere

  `intersect_line3d_sphere_*` (after the library fix) solve the quadratic for the carrier line,
  return nothing when both crossings lie beyond the same end of the operand, and otherwise
  CLAMP an out-of-range crossing parameter to the nearest end of the range.  The routine thus
  returns the boundary of (operand ∩ closed ball): soundness is stated in the "solid ball"
  reading.  Proved, for the segment (`_s`) and the ray (`_r`):
  * `_on_segment/_on_ray`: every returned point is on the operand, within range;
  * `_in_ball`: every returned point lies in the closed ball `|q − c|² ≤ r²`;
  * `_sound`: both of the above, and a returned point is ON the sphere unless it is an end point
    of the operand produced by clamping;
  * `_sound_of_crossings_inside`: if all crossings are within range, all points are on the sphere;
  * `_complete`: every in-range crossing is returned;
  * `_nil_iff` / `_nil_of_disjoint`: the result is `[]` exactly when the operand misses the
    closed ball.
  The code does not guard against a zero direction (`v·v = 0` divides by zero in Python); the
  statements that need the quadratic carry `v·v ≠ 0` explicitly.  The square-root law is assumed
  only for non-negative arguments (`√x·√x = x`; the sign of `√` is not needed).
-/

/-- `q` lies in the closed ball `|q − c|² ≤ r²`. -/
def InBall (sp : SphereS α) (q : V3 α) : Prop :=
  distSq3 q sp.center ≤ sp.radius * sp.radius

/-- (a) Every point returned by `intersect_line3d_sphere_s` lies on the segment, within its parameter
range (unconditionally). -/
theorem intersect_line3d_sphere_s_on_segment (M : MathOps α) (l : LR3 α) (sp : SphereS α)
    (q : V3 α) (h : q ∈ intersect_line3d_sphere_s M l sp) : OnSeg3 l q := by
  rw [Lemmas.intersect_line3d_sphere_s_eq] at h
  exact Lemmas.sphPts_on .seg M l sp q h

/-- (b) Every point returned by `intersect_line3d_sphere_s` lies in the closed ball: clamped end points
lie between the two roots of the quadratic, where the quadratic is `≤ 0`. -/
theorem intersect_line3d_sphere_s_in_ball (M : MathOps α) (l : LR3 α) (sp : SphereS α)
    (q : V3 α) (hv : l.v.x * l.v.x + l.v.y * l.v.y + l.v.z * l.v.z ≠ 0)
    (hsqrt : ∀ x, 0 ≤ x → M.sqrt x * M.sqrt x = x)
    (h : q ∈ intersect_line3d_sphere_s M l sp) : InBall sp q := by
  rw [Lemmas.intersect_line3d_sphere_s_eq] at h
  exact Lemmas.sphPts_in_ball .seg M l sp q hv (hsqrt _) h

/-- Soundness at full strength (segment × sphere, solid-ball reading): every returned point
(a) lies on the segment within range, (b) lies in the closed ball, and (c) lies ON the sphere
unless it is an end point of the segment produced by clamping an out-of-range crossing. -/
theorem intersect_line3d_sphere_s_sound (M : MathOps α) (l : LR3 α) (sp : SphereS α)
    (q : V3 α) (hv : l.v.x * l.v.x + l.v.y * l.v.y + l.v.z * l.v.z ≠ 0)
    (hsqrt : ∀ x, 0 ≤ x → M.sqrt x * M.sqrt x = x)
    (h : q ∈ intersect_line3d_sphere_s M l sp) :
    OnSeg3 l q ∧ InBall sp q ∧ (OnSphere sp q ∨ At3 l 0 q ∨ At3 l 1 q) := by
  refine ⟨intersect_line3d_sphere_s_on_segment M l sp q h,
    intersect_line3d_sphere_s_in_ball M l sp q hv hsqrt h, ?_⟩
  rw [Lemmas.intersect_line3d_sphere_s_eq] at h
  rcases Lemmas.sphPts_sphere_or_end .seg M l sp q hv (hsqrt _) h with h' | h' | ⟨_, h'⟩
  · exact Or.inl h'
  · subst h'; exact Or.inr (Or.inl ⟨rfl, rfl, rfl⟩)
  · subst h'; exact Or.inr (Or.inr ⟨rfl, rfl, rfl⟩)

/-- (c') If every crossing of the carrier line with the sphere has its parameter in range, no
clamping happens and every returned point satisfies the sphere equation `|q − c|² = r²`. -/
theorem intersect_line3d_sphere_s_sound_of_crossings_inside (M : MathOps α) (l : LR3 α)
    (sp : SphereS α) (q : V3 α)
    (hv : l.v.x * l.v.x + l.v.y * l.v.y + l.v.z * l.v.z ≠ 0)
    (hsqrt : ∀ x, 0 ≤ x → M.sqrt x * M.sqrt x = x)
    (hin : ∀ t p, At3 l t p → OnSphere sp p → 0 ≤ t ∧ t ≤ 1)
    (h : q ∈ intersect_line3d_sphere_s M l sp) : OnSphere sp q := by
  rw [Lemmas.intersect_line3d_sphere_s_eq] at h
  exact Lemmas.sphPts_sphere_of_inside .seg M l sp q hv (hsqrt _)
    (fun t ht => hin t _ ⟨rfl, rfl, rfl⟩ ht) h

/-- (d) Completeness: every point of the segment (parameter in range) that satisfies the sphere
equation is returned. -/
theorem intersect_line3d_sphere_s_complete (M : MathOps α) (l : LR3 α) (sp : SphereS α)
    (q : V3 α) (hv : l.v.x * l.v.x + l.v.y * l.v.y + l.v.z * l.v.z ≠ 0)
    (hsqrt : ∀ x, 0 ≤ x → M.sqrt x * M.sqrt x = x)
    (hl : OnSeg3 l q) (hs : OnSphere sp q) : q ∈ intersect_line3d_sphere_s M l sp := by
  rw [Lemmas.intersect_line3d_sphere_s_eq]
  obtain ⟨t, h0, h1, hx, hy, hz⟩ := hl
  have hq : q = Lemmas.at3 l t := V3.ext' hx hy hz
  subst hq
  exact Lemmas.sphPts_complete .seg M l sp hv (hsqrt _) t ⟨h0, h1⟩ hs

/-- (e) The result is empty exactly when no point of the segment lies in the closed ball. -/
theorem intersect_line3d_sphere_s_nil_iff (M : MathOps α) (l : LR3 α) (sp : SphereS α)
    (hv : l.v.x * l.v.x + l.v.y * l.v.y + l.v.z * l.v.z ≠ 0)
    (hsqrt : ∀ x, 0 ≤ x → M.sqrt x * M.sqrt x = x) :
    intersect_line3d_sphere_s M l sp = [] ↔ ∀ q, OnSeg3 l q → ¬ InBall sp q := by
  rw [Lemmas.intersect_line3d_sphere_s_eq, Lemmas.sphPts_eq_nil_iff .seg M l sp hv (hsqrt _)]
  constructor
  · rintro h q ⟨t, h0, h1, hx, hy, hz⟩
    have hq : q = Lemmas.at3 l t := V3.ext' hx hy hz
    subst hq
    exact h t ⟨h0, h1⟩
  · intro h t ht
    exact h _ ((Lemmas.Rng.On3_iff .seg l _).mpr ⟨t, ht, rfl⟩)

/-- (e) If the segment does not meet the closed ball at all, nothing is returned. -/
theorem intersect_line3d_sphere_s_nil_of_disjoint (M : MathOps α) (l : LR3 α) (sp : SphereS α)
    (hv : l.v.x * l.v.x + l.v.y * l.v.y + l.v.z * l.v.z ≠ 0)
    (hsqrt : ∀ x, 0 ≤ x → M.sqrt x * M.sqrt x = x)
    (hmiss : ∀ q, OnSeg3 l q → ¬ InBall sp q) : intersect_line3d_sphere_s M l sp = [] :=
  (intersect_line3d_sphere_s_nil_iff M l sp hv hsqrt).mpr hmiss

/-- (a) Every point returned by `intersect_line3d_sphere_r` lies on the ray, within its parameter
range (unconditionally). -/
theorem intersect_line3d_sphere_r_on_ray (M : MathOps α) (l : LR3 α) (sp : SphereS α)
    (q : V3 α) (h : q ∈ intersect_line3d_sphere_r M l sp) : OnRay3 l q := by
  rw [Lemmas.intersect_line3d_sphere_r_eq] at h
  exact Lemmas.sphPts_on .ray M l sp q h

/-- (b) Every point returned by `intersect_line3d_sphere_r` lies in the closed ball: clamped end points
lie between the two roots of the quadratic, where the quadratic is `≤ 0`. -/
theorem intersect_line3d_sphere_r_in_ball (M : MathOps α) (l : LR3 α) (sp : SphereS α)
    (q : V3 α) (hv : l.v.x * l.v.x + l.v.y * l.v.y + l.v.z * l.v.z ≠ 0)
    (hsqrt : ∀ x, 0 ≤ x → M.sqrt x * M.sqrt x = x)
    (h : q ∈ intersect_line3d_sphere_r M l sp) : InBall sp q := by
  rw [Lemmas.intersect_line3d_sphere_r_eq] at h
  exact Lemmas.sphPts_in_ball .ray M l sp q hv (hsqrt _) h

/-- Soundness at full strength (ray × sphere, solid-ball reading): every returned point
(a) lies on the ray within range, (b) lies in the closed ball, and (c) lies ON the sphere
unless it is an end point of the ray produced by clamping an out-of-range crossing. -/
theorem intersect_line3d_sphere_r_sound (M : MathOps α) (l : LR3 α) (sp : SphereS α)
    (q : V3 α) (hv : l.v.x * l.v.x + l.v.y * l.v.y + l.v.z * l.v.z ≠ 0)
    (hsqrt : ∀ x, 0 ≤ x → M.sqrt x * M.sqrt x = x)
    (h : q ∈ intersect_line3d_sphere_r M l sp) :
    OnRay3 l q ∧ InBall sp q ∧ (OnSphere sp q ∨ At3 l 0 q) := by
  refine ⟨intersect_line3d_sphere_r_on_ray M l sp q h,
    intersect_line3d_sphere_r_in_ball M l sp q hv hsqrt h, ?_⟩
  rw [Lemmas.intersect_line3d_sphere_r_eq] at h
  rcases Lemmas.sphPts_sphere_or_end .ray M l sp q hv (hsqrt _) h with h' | h' | ⟨hk, _⟩
  · exact Or.inl h'
  · subst h'; exact Or.inr ⟨rfl, rfl, rfl⟩
  · exact absurd hk (by decide)

/-- (c') If every crossing of the carrier line with the sphere has its parameter in range, no
clamping happens and every returned point satisfies the sphere equation `|q − c|² = r²`. -/
theorem intersect_line3d_sphere_r_sound_of_crossings_inside (M : MathOps α) (l : LR3 α)
    (sp : SphereS α) (q : V3 α)
    (hv : l.v.x * l.v.x + l.v.y * l.v.y + l.v.z * l.v.z ≠ 0)
    (hsqrt : ∀ x, 0 ≤ x → M.sqrt x * M.sqrt x = x)
    (hin : ∀ t p, At3 l t p → OnSphere sp p → 0 ≤ t)
    (h : q ∈ intersect_line3d_sphere_r M l sp) : OnSphere sp q := by
  rw [Lemmas.intersect_line3d_sphere_r_eq] at h
  exact Lemmas.sphPts_sphere_of_inside .ray M l sp q hv (hsqrt _)
    (fun t ht => hin t _ ⟨rfl, rfl, rfl⟩ ht) h

/-- (d) Completeness: every point of the ray (parameter in range) that satisfies the sphere
equation is returned. -/
theorem intersect_line3d_sphere_r_complete (M : MathOps α) (l : LR3 α) (sp : SphereS α)
    (q : V3 α) (hv : l.v.x * l.v.x + l.v.y * l.v.y + l.v.z * l.v.z ≠ 0)
    (hsqrt : ∀ x, 0 ≤ x → M.sqrt x * M.sqrt x = x)
    (hl : OnRay3 l q) (hs : OnSphere sp q) : q ∈ intersect_line3d_sphere_r M l sp := by
  rw [Lemmas.intersect_line3d_sphere_r_eq]
  obtain ⟨t, h0, hx, hy, hz⟩ := hl
  have hq : q = Lemmas.at3 l t := V3.ext' hx hy hz
  subst hq
  exact Lemmas.sphPts_complete .ray M l sp hv (hsqrt _) t h0 hs

/-- (e) The result is empty exactly when no point of the ray lies in the closed ball. -/
theorem intersect_line3d_sphere_r_nil_iff (M : MathOps α) (l : LR3 α) (sp : SphereS α)
    (hv : l.v.x * l.v.x + l.v.y * l.v.y + l.v.z * l.v.z ≠ 0)
    (hsqrt : ∀ x, 0 ≤ x → M.sqrt x * M.sqrt x = x) :
    intersect_line3d_sphere_r M l sp = [] ↔ ∀ q, OnRay3 l q → ¬ InBall sp q := by
  rw [Lemmas.intersect_line3d_sphere_r_eq, Lemmas.sphPts_eq_nil_iff .ray M l sp hv (hsqrt _)]
  constructor
  · rintro h q ⟨t, h0, hx, hy, hz⟩
    have hq : q = Lemmas.at3 l t := V3.ext' hx hy hz
    subst hq
    exact h t h0
  · intro h t ht
    exact h _ ((Lemmas.Rng.On3_iff .ray l _).mpr ⟨t, ht, rfl⟩)

/-- (e) If the ray does not meet the closed ball at all, nothing is returned. -/
theorem intersect_line3d_sphere_r_nil_of_disjoint (M : MathOps α) (l : LR3 α) (sp : SphereS α)
    (hv : l.v.x * l.v.x + l.v.y * l.v.y + l.v.z * l.v.z ≠ 0)
    (hsqrt : ∀ x, 0 ≤ x → M.sqrt x * M.sqrt x = x)
    (hmiss : ∀ q, OnRay3 l q → ¬ InBall sp q) : intersect_line3d_sphere_r M l sp = [] :=
  (intersect_line3d_sphere_r_nil_iff M l sp hv hsqrt).mpr hmiss

/-- The former defect is fixed (ℚ): the segment `(0,0,0)→(1,0,0)` stops short of the unit sphere
centred at `(5,0,0)`; both crossings (`u = 6`, `u = 4`; `√4 = 2` exact) lie beyond the end, and
the routine now returns `[]`. -/
example :
    intersect_line3d_sphere_s
        (⟨fun x => if x = 4 then 2 else 0, id, id, id, id, id, fun _ _ => 0, 0, id⟩ : MathOps ℚ)
        ⟨⟨0, 0, 0⟩, ⟨1, 0, 0⟩⟩ ⟨⟨5, 0, 0⟩, 1⟩ = [] := by
  decide +kernel

/-- Non-vacuity: the segment `(0,0,0)→(10,0,0)` crosses the same sphere at `(6,0,0)` and `(4,0,0)`
(discriminant `400`, `√400 = 20`). -/
example :
    intersect_line3d_sphere_s
        (⟨fun x => if x = 400 then 20 else 0, id, id, id, id, id, fun _ _ => 0, 0, id⟩ : MathOps ℚ)
        ⟨⟨0, 0, 0⟩, ⟨10, 0, 0⟩⟩ ⟨⟨5, 0, 0⟩, 1⟩ = [⟨6, 0, 0⟩, ⟨4, 0, 0⟩] := by
  decide +kernel

/-- Clamping still happens for a segment that ENDS inside the ball: `(0,0,0)→(5,0,0)` enters the
sphere at `(4,0,0)` (`u = 4/5`) and the far crossing (`u = 6/5`) is clamped to the end point
`(5,0,0)`, which is inside the ball but not on the sphere — hence the solid-ball reading. -/
example :
    intersect_line3d_sphere_s
        (⟨fun x => if x = 100 then 10 else 0, id, id, id, id, id, fun _ _ => 0, 0, id⟩ : MathOps ℚ)
        ⟨⟨0, 0, 0⟩, ⟨5, 0, 0⟩⟩ ⟨⟨5, 0, 0⟩, 1⟩ = [⟨5, 0, 0⟩, ⟨4, 0, 0⟩]
      ∧ InBall (⟨⟨5, 0, 0⟩, 1⟩ : SphereS ℚ) ⟨5, 0, 0⟩
      ∧ ¬ OnSphere (⟨⟨5, 0, 0⟩, 1⟩ : SphereS ℚ) ⟨5, 0, 0⟩ := by
  refine ⟨by decide +kernel, ?_, ?_⟩
  · unfold InBall distSq3; norm_num
  · unfold OnSphere distSq3; norm_num

/-! ## Plane / sphere -/

/-- Soundness of `intersect_plane_sphere`, circle case.  Assume the square-root laws and a
non-zero plane normal (the code normalises `pl.n` itself, so `|n| = 1` is not needed).  If the
routine returns the circle `(c, n, r)` then
* `n` is a unit vector and `pl.n = |pl.n|·n` (so `n` is the plane's unit normal);
* `c = sp.center + d·n` with `d = (pl.o − sp.center)·n` the signed centre-to-plane distance;
* `c` lies in the plane: `pl.n·(c − pl.o) = 0`;
* `r² = R² − d²` and `r > 0`. -/
theorem intersect_plane_sphere_sound (M : MathOps α) (pl : PlaneS α) (sp : SphereS α)
    (c n : V3 α) (r : α)
    (hsqrt : ∀ x, 0 ≤ x → M.sqrt x * M.sqrt x = x ∧ 0 ≤ M.sqrt x)
    (hn : V3.normSq pl.n ≠ 0)
    (h : intersect_plane_sphere M pl sp = some (Sum.inl (c, n, r))) :
    V3.normSq n = 1 ∧ pl.n = V3.smul (M.sqrt (V3.normSq pl.n)) n ∧
    c = V3.add sp.center (V3.smul (V3.dot (V3.sub pl.o sp.center) n) n) ∧
    V3.dot pl.n (V3.sub c pl.o) = 0 ∧
    r * r = sp.radius * sp.radius
      - V3.dot (V3.sub pl.o sp.center) n * V3.dot (V3.sub pl.o sp.center) n ∧
    0 < r := by
  obtain ⟨hs, hs'⟩ := hsqrt (V3.normSq pl.n) (Lemmas.normSq3_nonneg _)
  have hs0 : M.sqrt (V3.normSq pl.n) ≠ 0 := by
    intro h0; rw [h0, mul_zero] at hs; exact hn hs.symm
  obtain ⟨a1, a2⟩ := Lemmas.plane_sphere_algebra pl.n pl.o sp.center _ hs hs0
  unfold intersect_plane_sphere at h
  simp only [V3.normSq] at hs0 a1 a2 ⊢
  simp only [hs0, ↓reduceIte] at h
  split_ifs at h with h2 h3
  · exact absurd h (by simp)
  · simp only [Option.some.injEq, Sum.inl.injEq, Prod.mk.injEq] at h
    obtain ⟨rfl, rfl, rfl⟩ := h
    have hle : ∀ x y : α, ¬ (|x| < |y|) → 0 ≤ x * x - y * y := by
      intro x y hxy
      have := mul_self_le_mul_self (abs_nonneg y) (not_lt.mp hxy)
      rw [abs_mul_abs_self, abs_mul_abs_self] at this
      linarith
    obtain ⟨r1, r2⟩ := hsqrt _ (hle _ _ h2)
    refine ⟨?_, ?_, ?_, ?_, ?_, lt_of_le_of_ne r2 (Ne.symm h3)⟩
    · linear_combination a1
    · simp only [V3.smul]
      ext <;> simp only [] <;> rw [← mul_div_assoc, mul_div_cancel_left₀ _ hs0]
    · simp only [V3.add, V3.smul, V3.dot, V3.sub]; ext <;> simp only [] <;> ring
    · simp only [V3.dot, V3.sub]; linear_combination a2
    · simp only [V3.dot, V3.sub]; linear_combination r1

/-- Circle case, plane-equation form: if moreover the plane's cached offset satisfies the
`Plane` invariant `k = n·o`, the returned centre satisfies the plane equation `n·c = k`. -/
theorem intersect_plane_sphere_center_on_plane (M : MathOps α) (pl : PlaneS α) (sp : SphereS α)
    (c n : V3 α) (r : α)
    (hsqrt : ∀ x, 0 ≤ x → M.sqrt x * M.sqrt x = x ∧ 0 ≤ M.sqrt x)
    (hn : V3.normSq pl.n ≠ 0) (hk : pl.k = V3.dot pl.n pl.o)
    (h : intersect_plane_sphere M pl sp = some (Sum.inl (c, n, r))) : OnPlane pl c := by
  obtain ⟨_, _, _, h4, _, _⟩ := intersect_plane_sphere_sound M pl sp c n r hsqrt hn h
  simp only [V3.dot, V3.sub] at h4 hk
  simp only [OnPlane]
  linear_combination h4 - hk

/-- Circle case with a unit plane normal (the `Plane` invariant `n·n = 1`, `k = n·o`): the
returned normal is `pl.n` itself, the centre satisfies the plane equation, and
`radius² = r² − d²` with `d = (o − centre)·n`. -/
theorem intersect_plane_sphere_sound_unit (M : MathOps α) (pl : PlaneS α) (sp : SphereS α)
    (c n : V3 α) (r : α)
    (hsqrt : ∀ x, 0 ≤ x → M.sqrt x * M.sqrt x = x ∧ 0 ≤ M.sqrt x)
    (hunit : V3.normSq pl.n = 1) (hk : pl.k = V3.dot pl.n pl.o)
    (h : intersect_plane_sphere M pl sp = some (Sum.inl (c, n, r))) :
    n = pl.n ∧ OnPlane pl c ∧
      r * r = sp.radius * sp.radius
        - V3.dot (V3.sub pl.o sp.center) pl.n * V3.dot (V3.sub pl.o sp.center) pl.n := by
  have hn : V3.normSq pl.n ≠ 0 := by rw [hunit]; exact one_ne_zero
  obtain ⟨_, h2, _, _, h5, _⟩ := intersect_plane_sphere_sound M pl sp c n r hsqrt hn h
  have hc := intersect_plane_sphere_center_on_plane M pl sp c n r hsqrt hn hk h
  obtain ⟨s1, s2⟩ := hsqrt 1 zero_le_one
  have hs1 : M.sqrt 1 = 1 := by
    have : (M.sqrt 1 - 1) * (M.sqrt 1 + 1) = 0 := by linear_combination s1
    rcases mul_eq_zero.mp this with h' | h'
    · linear_combination h'
    · linarith
  rw [hunit, hs1] at h2
  have hnn : n = pl.n := by
    rw [h2]; simp only [V3.smul, one_mul]
  exact ⟨hnn, hc, hnn ▸ h5⟩

/-- Circle case, geometric soundness: every point `x` of the returned circle (in the plane
through `c` perpendicular to `n`, at squared distance `r²` from `c`) lies on the sphere and in
the plane (through `pl.o` with normal `pl.n`). -/
theorem intersect_plane_sphere_circle_on_both (M : MathOps α) (pl : PlaneS α) (sp : SphereS α)
    (c n : V3 α) (r : α)
    (hsqrt : ∀ x, 0 ≤ x → M.sqrt x * M.sqrt x = x ∧ 0 ≤ M.sqrt x)
    (hn : V3.normSq pl.n ≠ 0)
    (h : intersect_plane_sphere M pl sp = some (Sum.inl (c, n, r)))
    (x : V3 α) (hx1 : V3.dot n (V3.sub x c) = 0) (hx2 : distSq3 x c = r * r) :
    OnSphere sp x ∧ V3.dot pl.n (V3.sub x pl.o) = 0 := by
  obtain ⟨h1, h2, h3, h4, h5, _⟩ := intersect_plane_sphere_sound M pl sp c n r hsqrt hn h
  subst h3
  have nx := congrArg V3.x h2
  have ny := congrArg V3.y h2
  have nz := congrArg V3.z h2
  simp only [V3.add, V3.smul, V3.dot, V3.sub, V3.normSq, distSq3, OnSphere] at *
  constructor
  · linear_combination hx2 + h5
      + (2 * ((pl.o.x - sp.center.x) * n.x + (pl.o.y - sp.center.y) * n.y
          + (pl.o.z - sp.center.z) * n.z)) * hx1
      + (((pl.o.x - sp.center.x) * n.x + (pl.o.y - sp.center.y) * n.y
          + (pl.o.z - sp.center.z) * n.z)
        * ((pl.o.x - sp.center.x) * n.x + (pl.o.y - sp.center.y) * n.y
          + (pl.o.z - sp.center.z) * n.z)) * h1
  · linear_combination h4 + (M.sqrt (pl.n.x * pl.n.x + pl.n.y * pl.n.y + pl.n.z * pl.n.z)) * hx1
      + (x.x - (sp.center.x + ((pl.o.x - sp.center.x) * n.x + (pl.o.y - sp.center.y) * n.y
          + (pl.o.z - sp.center.z) * n.z) * n.x)) * nx
      + (x.y - (sp.center.y + ((pl.o.x - sp.center.x) * n.x + (pl.o.y - sp.center.y) * n.y
          + (pl.o.z - sp.center.z) * n.z) * n.y)) * ny
      + (x.z - (sp.center.z + ((pl.o.x - sp.center.x) * n.x + (pl.o.y - sp.center.y) * n.y
          + (pl.o.z - sp.center.z) * n.z) * n.z)) * nz

/-- Tangent case: if a single point `p` is returned, it lies on the sphere and in the plane. -/
theorem intersect_plane_sphere_tangent_sound (M : MathOps α) (pl : PlaneS α) (sp : SphereS α)
    (p : V3 α)
    (hsqrt : ∀ x, 0 ≤ x → M.sqrt x * M.sqrt x = x ∧ 0 ≤ M.sqrt x)
    (hn : V3.normSq pl.n ≠ 0)
    (h : intersect_plane_sphere M pl sp = some (Sum.inr p)) :
    OnSphere sp p ∧ V3.dot pl.n (V3.sub p pl.o) = 0 := by
  obtain ⟨hs, _⟩ := hsqrt (V3.normSq pl.n) (Lemmas.normSq3_nonneg _)
  have hs0 : M.sqrt (V3.normSq pl.n) ≠ 0 := by
    intro h0; rw [h0, mul_zero] at hs; exact hn hs.symm
  obtain ⟨f1, _, f3⟩ := Lemmas.psN_facts M pl sp hs hs0
  rw [Lemmas.intersect_plane_sphere_eq M pl sp hs0] at h
  split_ifs at h with h2 h3
  · simp only [Option.some.injEq, Sum.inr.injEq] at h
    subst h
    refine ⟨?_, f3⟩
    obtain ⟨r1, _⟩ := hsqrt _ (sub_nonneg.mpr (Lemmas.mul_self_le_of_not_abs_lt _ _ h2))
    rw [h3, mul_zero] at r1
    simp only [V3.normSq] at f1
    simp only [OnSphere, distSq3, Lemmas.psC]
    linear_combination r1 + (Lemmas.psD M pl sp * Lemmas.psD M pl sp) * f1
  · exact absurd h (by simp)

/-- Separated case: if nothing is returned, no point of the plane lies on the sphere (the
centre-to-plane distance exceeds the radius). -/
theorem intersect_plane_sphere_none_separated (M : MathOps α) (pl : PlaneS α) (sp : SphereS α)
    (hsqrt : ∀ x, 0 ≤ x → M.sqrt x * M.sqrt x = x ∧ 0 ≤ M.sqrt x)
    (hn : V3.normSq pl.n ≠ 0)
    (h : intersect_plane_sphere M pl sp = none)
    (x : V3 α) (hx : V3.dot pl.n (V3.sub x pl.o) = 0) : ¬ OnSphere sp x := by
  obtain ⟨hs, _⟩ := hsqrt (V3.normSq pl.n) (Lemmas.normSq3_nonneg _)
  have hs0 : M.sqrt (V3.normSq pl.n) ≠ 0 := by
    intro h0; rw [h0, mul_zero] at hs; exact hn hs.symm
  obtain ⟨f1, f2, _⟩ := Lemmas.psN_facts M pl sp hs hs0
  rw [Lemmas.intersect_plane_sphere_eq M pl sp hs0] at h
  split_ifs at h with h2 h3
  have hlt := Lemmas.mul_self_lt_of_abs_lt _ _ h2
  -- `n̂·(x − c) = d`
  have nx := congrArg V3.x f2
  have ny := congrArg V3.y f2
  have nz := congrArg V3.z f2
  have hd : V3.dot (Lemmas.psN M pl) (V3.sub x sp.center) = Lemmas.psD M pl sp := by
    apply mul_left_cancel₀ hs0
    simp only [V3.dot, V3.sub, V3.smul, Lemmas.psD] at hx nx ny nz ⊢
    linear_combination hx - (x.x - pl.o.x) * nx - (x.y - pl.o.y) * ny - (x.z - pl.o.z) * nz
  have hc := Lemmas.cauchy3 (Lemmas.psN M pl) (V3.sub x sp.center)
  rw [hd, f1, one_mul] at hc
  intro hon
  simp only [OnSphere, distSq3] at hon
  simp only [V3.normSq, V3.sub] at hc
  linarith

/-- Non-vacuity (ℚ): the plane `z = 0` cuts the sphere of radius `5` centred at `(0,0,3)` in the
circle of radius `4` centred at the origin (the stub `sqrt` is exact at the two arguments used,
`√1 = 1` and `√16 = 4`). -/
example :
    intersect_plane_sphere
        (⟨fun x => if x = 1 then 1 else if x = 16 then 4 else 0,
          id, id, id, id, id, fun _ _ => 0, 0, id⟩ : MathOps ℚ)
        ⟨⟨0, 0, 1⟩, ⟨0, 0, 0⟩, 0, ⟨1, 0, 0⟩, ⟨0, 1, 0⟩⟩ ⟨⟨0, 0, 3⟩, 5⟩
      = some (Sum.inl (⟨0, 0, 0⟩, ⟨0, 0, 1⟩, 4)) := by
  decide +kernel

/-! ## 2D line / arc

  `intersect_line2d_arc2d_*` and `intersect_line2d_infinite_arc2d_*` solve the line/circle
  quadratic and keep the crossings that pass `Arc2D._pt_in`, the library's own angular filter.
  Trigonometry stays abstract (`M.acos`, `M.sqrt`, `M.pi` are uninterpreted); the angle of a
  point is `arc2_a_from_pt M a q = Vector2D(1,0).angle_counterclockwise(q − c)`.

  (The former tangent-case defect — a tangent point was returned without testing the parameter
  range — is fixed in the library; soundness now holds at full strength for all variants.)
-/

/-- Squared Euclidean distance in 2D. -/
def distSq2 (a b : V2 α) : α := (a.x - b.x) * (a.x - b.x) + (a.y - b.y) * (a.y - b.y)

/-- `q` lies on the carrier circle of the arc: `|q − c|² = r²`. -/
def OnCircle2 (a : Arc2S α) (q : V2 α) : Prop := distSq2 q a.c = a.r * a.r

/-- Unfolding of the angular filter `Arc2D._pt_in`: a full circle accepts everything; otherwise
the point's angle must lie in the open counter-clockwise span from `a1` to `a2`
(`a1 < ang < a2` for a normal arc, `ang > a1 ∨ ang < a2` for an inverted arc `a2 < a1`). -/
theorem arc2_pt_in_iff (M : MathOps α) (a : Arc2S α) (q : V2 α) :
    arc2_pt_in M a q = true ↔
      arc2_is_circle M a = true ∨
      (arc2_is_inverted a = false ∧ a.a1 < arc2_a_from_pt M a q ∧ arc2_a_from_pt M a q < a.a2) ∨
      (arc2_is_inverted a = true ∧ (a.a1 < arc2_a_from_pt M a q ∨ arc2_a_from_pt M a q < a.a2)) := by
  rw [Lemmas.arc2_pt_in_eq, decide_eq_true_eq, Lemmas.arc2_a_from_pt_eq]
  unfold arc2_is_circle arc2_is_inverted Lemmas.arcSpan Lemmas.isCirc Lemmas.spanNC
  simp only [decide_eq_true_eq, decide_eq_false_iff_not]

/-- A full circle accepts every point. -/
theorem arc2_pt_in_of_circle (M : MathOps α) (a : Arc2S α) (q : V2 α)
    (h : arc2_is_circle M a = true) : arc2_pt_in M a q = true :=
  (arc2_pt_in_iff M a q).mpr (Or.inl h)

/-- Soundness at full strength (segment × arc): every returned point lies on the carrier circle
(`|q − c|² = r²`, from the quadratic and the square-root law), on the segment WITHIN its parameter
range, and passes the arc's angular filter `_pt_in`. -/
theorem intersect_line2d_arc2d_s_sound (M : MathOps α) (l : LR2 α) (a : Arc2S α) (q : V2 α)
    (hv : l.v.x * l.v.x + l.v.y * l.v.y ≠ 0)
    (hsqrt : ∀ x, 0 ≤ x → M.sqrt x * M.sqrt x = x)
    (h : q ∈ intersect_line2d_arc2d_s M l a) :
    OnCircle2 a q ∧ OnSeg2 l q ∧ arc2_pt_in M a q = true := by
  rw [Lemmas.intersect_line2d_arc2d_s_eq] at h
  exact Lemmas.arcPts_sound .seg M l a q hv (hsqrt _) h

/-- Completeness (segment × arc): every point of the segment (parameter in range) that lies on the
circle and passes the angular filter is returned (tangent or not). -/
theorem intersect_line2d_arc2d_s_complete (M : MathOps α) (l : LR2 α) (a : Arc2S α) (q : V2 α)
    (hv : l.v.x * l.v.x + l.v.y * l.v.y ≠ 0)
    (hsqrt : ∀ x, 0 ≤ x → M.sqrt x * M.sqrt x = x)
    (hl : OnSeg2 l q) (hc : OnCircle2 a q) (hf : arc2_pt_in M a q = true) :
    q ∈ intersect_line2d_arc2d_s M l a := by
  rw [Lemmas.intersect_line2d_arc2d_s_eq]
  obtain ⟨t, h0, h1, hx, hy⟩ := hl
  have hq : q = Lemmas.at2 l t := V2.ext' hx hy
  subst hq
  exact Lemmas.arcPts_complete .seg M l a hv (hsqrt _) t ⟨h0, h1⟩ hc hf

/-- Soundness at full strength (ray × arc): every returned point lies on the carrier circle
(`|q − c|² = r²`, from the quadratic and the square-root law), on the ray WITHIN its parameter
range, and passes the arc's angular filter `_pt_in`. -/
theorem intersect_line2d_arc2d_r_sound (M : MathOps α) (l : LR2 α) (a : Arc2S α) (q : V2 α)
    (hv : l.v.x * l.v.x + l.v.y * l.v.y ≠ 0)
    (hsqrt : ∀ x, 0 ≤ x → M.sqrt x * M.sqrt x = x)
    (h : q ∈ intersect_line2d_arc2d_r M l a) :
    OnCircle2 a q ∧ OnRay2 l q ∧ arc2_pt_in M a q = true := by
  rw [Lemmas.intersect_line2d_arc2d_r_eq] at h
  exact Lemmas.arcPts_sound .ray M l a q hv (hsqrt _) h

/-- Completeness (ray × arc): every point of the ray (parameter in range) that lies on the
circle and passes the angular filter is returned (tangent or not). -/
theorem intersect_line2d_arc2d_r_complete (M : MathOps α) (l : LR2 α) (a : Arc2S α) (q : V2 α)
    (hv : l.v.x * l.v.x + l.v.y * l.v.y ≠ 0)
    (hsqrt : ∀ x, 0 ≤ x → M.sqrt x * M.sqrt x = x)
    (hl : OnRay2 l q) (hc : OnCircle2 a q) (hf : arc2_pt_in M a q = true) :
    q ∈ intersect_line2d_arc2d_r M l a := by
  rw [Lemmas.intersect_line2d_arc2d_r_eq]
  obtain ⟨t, h0, hx, hy⟩ := hl
  have hq : q = Lemmas.at2 l t := V2.ext' hx hy
  subst hq
  exact Lemmas.arcPts_complete .ray M l a hv (hsqrt _) t h0 hc hf

/-- Soundness (carrier line of a segment × arc): every returned point lies on the carrier circle
(`|q − c|² = r²`, from the quadratic and the square-root law), on the carrier line of the operand,
and passes the arc's angular filter. -/
theorem intersect_line2d_infinite_arc2d_s_sound (M : MathOps α) (l : LR2 α) (a : Arc2S α) (q : V2 α)
    (hv : l.v.x * l.v.x + l.v.y * l.v.y ≠ 0)
    (hsqrt : ∀ x, 0 ≤ x → M.sqrt x * M.sqrt x = x)
    (h : q ∈ intersect_line2d_infinite_arc2d_s M l a) :
    OnCircle2 a q ∧ OnLine2 l q ∧ arc2_pt_in M a q = true := by
  rw [Lemmas.intersect_line2d_infinite_arc2d_s_eq] at h
  exact Lemmas.arcPts_sound .line M l a q hv (hsqrt _) h

/-- Completeness (carrier line of a segment × arc): every point of the carrier line that lies on
the circle and passes the angular filter is returned. -/
theorem intersect_line2d_infinite_arc2d_s_complete (M : MathOps α) (l : LR2 α) (a : Arc2S α) (q : V2 α)
    (hv : l.v.x * l.v.x + l.v.y * l.v.y ≠ 0)
    (hsqrt : ∀ x, 0 ≤ x → M.sqrt x * M.sqrt x = x)
    (hl : OnLine2 l q) (hc : OnCircle2 a q) (hf : arc2_pt_in M a q = true) :
    q ∈ intersect_line2d_infinite_arc2d_s M l a := by
  rw [Lemmas.intersect_line2d_infinite_arc2d_s_eq]
  obtain ⟨t, hx, hy⟩ := hl
  have hq : q = Lemmas.at2 l t := V2.ext' hx hy
  subst hq
  exact Lemmas.arcPts_complete .line M l a hv (hsqrt _) t trivial hc hf

/-- Soundness (carrier line of a ray × arc): every returned point lies on the carrier circle
(`|q − c|² = r²`, from the quadratic and the square-root law), on the carrier line of the operand,
and passes the arc's angular filter. -/
theorem intersect_line2d_infinite_arc2d_r_sound (M : MathOps α) (l : LR2 α) (a : Arc2S α) (q : V2 α)
    (hv : l.v.x * l.v.x + l.v.y * l.v.y ≠ 0)
    (hsqrt : ∀ x, 0 ≤ x → M.sqrt x * M.sqrt x = x)
    (h : q ∈ intersect_line2d_infinite_arc2d_r M l a) :
    OnCircle2 a q ∧ OnLine2 l q ∧ arc2_pt_in M a q = true := by
  rw [Lemmas.intersect_line2d_infinite_arc2d_r_eq] at h
  exact Lemmas.arcPts_sound .line M l a q hv (hsqrt _) h

/-- Completeness (carrier line of a ray × arc): every point of the carrier line that lies on
the circle and passes the angular filter is returned. -/
theorem intersect_line2d_infinite_arc2d_r_complete (M : MathOps α) (l : LR2 α) (a : Arc2S α) (q : V2 α)
    (hv : l.v.x * l.v.x + l.v.y * l.v.y ≠ 0)
    (hsqrt : ∀ x, 0 ≤ x → M.sqrt x * M.sqrt x = x)
    (hl : OnLine2 l q) (hc : OnCircle2 a q) (hf : arc2_pt_in M a q = true) :
    q ∈ intersect_line2d_infinite_arc2d_r M l a := by
  rw [Lemmas.intersect_line2d_infinite_arc2d_r_eq]
  obtain ⟨t, hx, hy⟩ := hl
  have hq : q = Lemmas.at2 l t := V2.ext' hx hy
  subst hq
  exact Lemmas.arcPts_complete .line M l a hv (hsqrt _) t trivial hc hf

/-- The former tangent-case defect is fixed (ℚ): the segment `(0,1)→(1,1)` lies on the line
`y = 1`, tangent to the unit circle centred at `(5,0)` at `(5,1)` (parameter `u = 5`, outside
`[0,1]`; discriminant `0`, `√0 = 0` exact); the routine now returns `[]`.  The longer segment
`(0,1)→(10,1)` reaches the tangent point (`u = 1/2`) and gets `[(5,1)]`.  (`M.pi := 3`, full
circle `a1 = 0`, `a2 = 2·M.pi`, so no trigonometry is evaluated.) -/
example :
    intersect_line2d_arc2d_s
        (⟨fun _ => 0, id, id, id, id, id, fun _ _ => 0, 3, id⟩ : MathOps ℚ)
        ⟨⟨0, 1⟩, ⟨1, 0⟩⟩ ⟨⟨5, 0⟩, 1, 0, 6, 1, 0, 1, 0⟩ = []
      ∧ intersect_line2d_arc2d_s
        (⟨fun _ => 0, id, id, id, id, id, fun _ _ => 0, 3, id⟩ : MathOps ℚ)
        ⟨⟨0, 1⟩, ⟨10, 0⟩⟩ ⟨⟨5, 0⟩, 1, 0, 6, 1, 0, 1, 0⟩ = [⟨5, 1⟩] := by
  decide +kernel

/-- Non-vacuity: the segment `(0,0)→(10,0)` crosses the full unit circle centred at `(5,0)` at
`(6,0)` and `(4,0)` (discriminant `400`, `√400 = 20`). -/
example :
    intersect_line2d_arc2d_s
        (⟨fun x => if x = 400 then 20 else 0, id, id, id, id, id, fun _ _ => 0, 3, id⟩ : MathOps ℚ)
        ⟨⟨0, 0⟩, ⟨10, 0⟩⟩ ⟨⟨5, 0⟩, 1, 0, 6, 1, 0, 1, 0⟩ = [⟨6, 0⟩, ⟨4, 0⟩] := by
  decide +kernel

/-- Non-vacuity of the angular filter for a proper arc (stub `acos ≡ 3/2`, `√ ≡ 1`): with
`a1 = 1 < 3/2 < a2 = 2` the point `(0,1)` above the centre passes; for the inverted arc
`a1 = 2`, `a2 = 1` it does not. -/
example :
    arc2_pt_in (⟨fun _ => 1, id, id, id, fun _ => 3 / 2, id, fun _ _ => 0, 3, id⟩ : MathOps ℚ)
        ⟨⟨0, 0⟩, 1, 1, 2, 0, 0, 0, 0⟩ ⟨0, 1⟩ = true
      ∧ arc2_pt_in (⟨fun _ => 1, id, id, id, fun _ => 3 / 2, id, fun _ _ => 0, 3, id⟩ : MathOps ℚ)
        ⟨⟨0, 0⟩, 1, 2, 1, 0, 0, 0, 0⟩ ⟨0, 1⟩ = false := by
  decide +kernel

end Lbg.Props.C11
