/-
  C11 — intersection results lie on both operands and none are missed.
  Property theorems only (helper lemmas live in Lemmas/).  All statements are about the
  definitions regenerated from the repository by py2lean (`Lbg.Gen.*`).
-/
import LbgVerif.Gen.Isect2
import Mathlib.Tactic.Ring
import Mathlib.Tactic.FieldSimp
import Mathlib.Tactic.Linarith
import Mathlib.Tactic.SplitIfs

namespace Lbg.Props.C11
open Lbg Lbg.Gen
variable {α : Type} [Field α] [LinearOrder α] [IsStrictOrderedRing α]

/-- `q = l.p + t·l.v`. -/
def At2 (l : LR2 α) (t : α) (q : V2 α) : Prop :=
  q.x = l.p.x + t * l.v.x ∧ q.y = l.p.y + t * l.v.y

/-- `q` lies on the segment `l.p … l.p + l.v`. -/
def OnSeg2 (l : LR2 α) (q : V2 α) : Prop := ∃ t, 0 ≤ t ∧ t ≤ 1 ∧ At2 l t q
/-- `q` lies on the ray from `l.p` along `l.v`. -/
def OnRay2 (l : LR2 α) (q : V2 α) : Prop := ∃ t, 0 ≤ t ∧ At2 l t q

theorem intersect_line2d_ss_sound (a b : LR2 α) (q : V2 α)
    (h : intersect_line2d_ss a b = some q) : OnSeg2 a q ∧ OnSeg2 b q := by
  unfold intersect_line2d_ss at h
  simp only [] at h
  split_ifs at h with h1 h2 h3 h4 h5
  simp only [Option.some.injEq] at h
  subst h
  refine ⟨⟨_, not_lt.mp h2, not_lt.mp h3, rfl, rfl⟩, ⟨_, not_lt.mp h4, not_lt.mp h5, ?_, ?_⟩⟩
  · simp only []
    field_simp
    ring
  · simp only []
    field_simp
    ring

end Lbg.Props.C11
