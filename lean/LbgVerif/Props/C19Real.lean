/-
  C19 — non-vacuity of the analytic hypotheses over ℝ.

  `offset_move_vec_ccw/cw`, `seg2_offset_spec` and `ratio_area_*` assume the `sqrt` law,
  `cos² + sin² = 1`, parity of `cos`/`sin`, `sin ang ≠ 0`, `cos(π/2) = 0`, `sin(π/2) = 1`.
  These cannot all hold over ℚ; here they are shown to hold simultaneously for the real
  functions (`C02.Mr`), with the half angle `π/4` of a right-angle corner as witness for
  `sin ang ≠ 0`.  Only `example`s.
-/
import LbgVerif.Props.C19
import LbgVerif.Props.C02Real

namespace Lbg.Props.C19
open Lbg Lbg.Gen Lbg.Props.C02

/-- All analytic hypotheses of section D hold for the real functions at the half angle `π/4`. -/
example :
    (∀ x : ℝ, 0 ≤ x → Mr.sqrt x * Mr.sqrt x = x ∧ 0 ≤ Mr.sqrt x) ∧
    (∀ θ : ℝ, Mr.cos θ * Mr.cos θ + Mr.sin θ * Mr.sin θ = 1) ∧
    (∀ θ : ℝ, Mr.cos (-θ) = Mr.cos θ ∧ Mr.sin (-θ) = -Mr.sin θ) ∧
    Mr.sin (Real.pi / 4) ≠ 0 ∧
    Mr.cos (Mr.pi / 2) = 0 ∧ Mr.sin (Mr.pi / 2) = 1 :=
  ⟨fun x hx => ⟨Real.mul_self_sqrt hx, Real.sqrt_nonneg x⟩,
   fun θ => by simp only [Mr]; nlinarith [Real.sin_sq_add_cos_sq θ],
   fun θ => ⟨Real.cos_neg θ, Real.sin_neg θ⟩,
   by
     simp only [Mr]
     have : 0 < Real.sin (Real.pi / 4) :=
       Real.sin_pos_of_pos_of_lt_pi (by positivity) (by linarith [Real.pi_pos])
     exact ne_of_gt this,
   Real.cos_pi_div_two, Real.sin_pi_div_two⟩

end Lbg.Props.C19
