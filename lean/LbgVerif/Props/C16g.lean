/-
  C16g — 2D / 3D siblings, second part: the GENERATED kernels of the sibling classes agree
  under the embedding `embed (x, y) = (x, y, 0)` (the generated `Point3D.from_point2d(p, 0)`
  / `Vector3D.from_vector2d(v, 0)`), and `Face3D` members agree with the `Polygon2D` members
  of the face's own 2D polygon for ANY plane.

  (`Props/C16.lean` covers: `dot / cross / magnitude / normalize`, `distance_to_point`, mesh face
  areas and centres, segments — length, points, closest points, intersection —, arcs, face
  normals.  Nothing of that is repeated here.)

  0. `embed` is the generated `p3_from_point2d · 0` / `v3_from_vector2d · 0`; the generated
     `seg3_from_line_segment2d · 0` / `ray3_from_ray2d · 0` are `C16.embedSeg`.
  1. Vector2D / Vector3D, Point2D / Point3D operators and transforms (`Gen/Auto2.lean`,
     `Gen/Vec.lean`): `sub`, `rsub`, `truediv`, `div`, `ne`, `nonzero`, `reverse`, `rotate_xy`,
     `reflect`, `is_equivalent`, `move`, `scale`; indexing.
  2. `Base2DIn3D` against `Base2DIn2D` (`Gen/Base2D.lean`): the min / max scan, `min`, `max`,
     `center`, `__init__`, `__len__`, `__getitem__`, `__eq__`.
  3. `Polyline3D` against `Polyline2D` (`Gen/Polyline.lean`): `segments`, `length`, `p1`, `p2`,
     `is_closed`, `min`, `max`, `center`, `reverse`, `move`, `rotate_xy`, `reflect`, `scale`,
     `__init__`, `from_array`, `to_polyline2d`, `intersect_plane` (against
     `intersect_line_infinite`), `remove_colinear_vertices` (under the `sqrt` laws:
     2D tests `|shoelace|`, 3D tests `sqrt |cross|²`).
  4. `Face3D` against `Polygon2D` (`Gen/FaceMore.lean`, `Gen/Poly.lean`, `Gen/PolyMore.lean`):
     `area`, `is_clockwise` are the polygon kernels on the generated `Face3D.polygon2d`;
     for a face whose vertices are the plane image of a 2D loop `polygon2d` returns that loop,
     so `area`, `is_clockwise`, `perimeter`, `boundary_segments` agree with the 2D kernels
     (any plane with orthonormal axes; the world XY plane as the special case).

  All statements are about `Lbg.Gen.*`; a drift between the siblings breaks a proof here.
-/
import LbgVerif.Gen.Auto
import LbgVerif.Gen.Auto2
import LbgVerif.Gen.Vec
import LbgVerif.Gen.Base2D
import LbgVerif.Gen.Polyline
import LbgVerif.Gen.FaceMore
import LbgVerif.Gen.Poly
import LbgVerif.Gen.PolyMore
import LbgVerif.Lemmas.GenTiesC05
import LbgVerif.Lemmas.CyclicCount
import LbgVerif.Props.C16
import LbgVerif.Props.C10g
import LbgVerif.Props.C02g
import LbgVerif.Props.C01g
import LbgVerif.Props.C01
import LbgVerif.Props.C08g
import LbgVerif.Model.PointInside
import Mathlib.Tactic.Ring
import Mathlib.Tactic.Linarith
import Mathlib.Tactic.SplitIfs
import Mathlib.Algebra.Order.Field.Rat

set_option linter.unusedSectionVars false
set_option linter.unusedVariables false
set_option linter.unusedTactic false
set_option linter.unreachableTactic false
set_option linter.unnecessarySeqFocus false
set_option linter.unusedSimpArgs false

namespace Lbg.Props.C16g
open Lbg Lbg.Gen Lbg.Lemmas Lbg.Lemmas.GenTiesC05 Lbg.Props.C16
variable {α : Type} [Field α] [LinearOrder α] [IsStrictOrderedRing α]

/-! ## 0. The embedding is a generated kernel -/

/-- `embed` is the generated `Point3D.from_point2d(p, z=0)` and `Vector3D.from_vector2d(v, z=0)`. -/
theorem embed_eq_gen (p : V2 α) :
    embed p = p3_from_point2d p 0 ∧ embed p = v3_from_vector2d p 0 := ⟨rfl, rfl⟩

/-- `C16.embedSeg` is the generated `LineSegment3D.from_line_segment2d(l, z=0)` and
`Ray3D.from_ray2d(r, z=0)`. -/
theorem embedSeg_eq_gen (l : LR2 α) :
    embedSeg l = seg3_from_line_segment2d l 0 ∧ embedSeg l = ray3_from_ray2d l 0 := ⟨rfl, rfl⟩

/-! ## 1. Vectors and points -/

/-- Generated `Vector3D.__sub__ / __rsub__`, `Point3D.__sub__` (point − point and
point − vector) on embedded operands are the embedded `Vector2D` / `Point2D` results. -/
theorem sub_embed (a b : V2 α) :
    v3_sub (embed a) (embed b) = embed (v2_sub a b) ∧
    v3_sub_point (embed a) (embed b) = embed (v2_sub_point a b) ∧
    v3_rsub (embed a) (embed b) = embed (v2_rsub a b) ∧
    p3_sub (embed a) (embed b) = embed (p2_sub a b) ∧
    p3_sub_vector (embed a) (embed b) = embed (p2_sub_vector a b) := by
  refine ⟨?_, ?_, ?_, ?_, ?_⟩ <;>
    simp [v3_sub, v2_sub, v3_sub_point, v2_sub_point, v3_rsub, v2_rsub, p3_sub, p2_sub,
      p3_sub_vector, p2_sub_vector, embed]

/-- Generated `Vector3D.__truediv__ / __div__` by a scalar on an embedded vector (`0 / k = 0`
for the z component, also for `k = 0` where Python raises in both classes). -/
theorem truediv_embed (a : V2 α) (k : α) :
    v3_truediv (embed a) k = embed (v2_truediv a k) ∧
    v3_div (embed a) k = embed (v2_div a k) := by
  constructor <;> simp [v3_truediv, v2_truediv, v3_div, v2_div, embed]

/-- Generated `__ne__`, `__nonzero__` agree on embedded vectors. -/
theorem ne_nonzero_embed (a b : V2 α) :
    v3_ne (embed a) (embed b) = v2_ne a b ∧ v3_nonzero (embed a) = v2_nonzero a := by
  constructor <;> simp [v3_ne, v2_ne, v3_nonzero, v2_nonzero, embed]

/-- Generated `__getitem__` / `__iter__`: the first two items of an embedded vector are the
items of the 2D vector, the third is `0`. -/
theorem getitem_embed (a : V2 α) :
    v3_getitem_0 (embed a) = v2_getitem_0 a ∧ v3_getitem_1 (embed a) = v2_getitem_1 a ∧
    v3_getitem_2 (embed a) = 0 ∧ v3_iter (embed a) = v2_iter a ++ [0] := ⟨rfl, rfl, rfl, rfl⟩

/-- Generated `Vector3D.reverse / rotate_xy / reflect` of embedded vectors (normal embedded
too) are the embedded `Vector2D.reverse / rotate / reflect`. -/
theorem vector_transforms_embed (M : MathOps α) (a n : V2 α) (angle : α) :
    v3_reverse (embed a) = embed (v2_reverse a) ∧
    v3_rotate_xy M (embed a) angle = embed (v2_rotate M a angle) ∧
    v3_reflect (embed a) (embed n) = embed (v2_reflect a n) := by
  refine ⟨?_, ?_, ?_⟩ <;>
    simp [v3_reverse, v2_reverse, v3_rotate_xy, v2_rotate, v3_reflect, v2_reflect, embed]

/-- Generated `is_equivalent(other, tol)` agrees on embedded operands: the extra test
`|0 − 0| <= tol` can only fail for a negative tolerance, for which the 2D test fails too. -/
theorem is_equivalent_embed (a b : V2 α) (tol : α) :
    v3_is_equivalent (embed a) (embed b) tol = v2_is_equivalent a b tol := by
  unfold v3_is_equivalent v2_is_equivalent embed
  simp only [sub_self, abs_zero]
  by_cases h : tol < 0
  · have h1 : tol < |a.x - b.x| := lt_of_lt_of_le h (abs_nonneg _)
    simp [h, h1]
  · simp [h]

/-- Generated `Point3D.move / rotate_xy / reflect / scale / scale(origin=None)` of embedded
points (moving vector, origin, normal embedded too) are the embedded `Point2D` results. -/
theorem point_transforms_embed (M : MathOps α) (a mv n o : V2 α) (angle k : α) :
    p3_move (embed a) (embed mv) = embed (p2_move a mv) ∧
    p3_rotate_xy M (embed a) angle (embed o) = embed (p2_rotate M a angle o) ∧
    p3_reflect (embed a) (embed n) (embed o) = embed (p2_reflect a n o) ∧
    p3_scale (embed a) k (embed o) = embed (p2_scale a k o) ∧
    p3_scale_world (embed a) k = embed (p2_scale_world a k) := by
  refine ⟨?_, ?_, ?_, ?_, ?_⟩ <;>
    simp [p3_move, p2_move, p3_rotate_xy, p2_rotate, p3_reflect, p2_reflect, p3_scale, p2_scale,
      p3_scale_world, p2_scale_world, embed]

/-! ## 1b. The siblings among the automatically covered members (`Gen/Auto.lean`) -/

/-- SIBLING TIE: the `Vector3D` members inherited by `Point3D` on an embedded point against the
`Vector2D` members inherited by `Point2D`: `dot`, `magnitude_squared`, `magnitude`, `reverse`,
`normalize`; `cross` of embedded points is `(0, 0, determinant)`. -/
theorem point_members_embed (M : MathOps α) (a b : V2 α) :
    a_p3d_dot (embed a) (embed b) = a_p2d_dot a b ∧
    a_p3d_magnitude_squared (embed a) = a_p2d_magnitude_squared a ∧
    a_p3d_magnitude M (embed a) = a_p2d_magnitude M a ∧
    a_p3d_reverse (embed a) = embed (a_p2d_reverse a) ∧
    a_p3d_normalize M (embed a) = embed (a_p2d_normalize M a) ∧
    a_p3d_cross (embed a) (embed b) = ⟨0, 0, a_p2d_determinant a b⟩ := by
  refine ⟨?_, ?_, ?_, ?_, ?_, ?_⟩
  · simp [a_p3d_dot, a_p2d_dot, embed]
  · simp [a_p3d_magnitude_squared, a_p2d_magnitude_squared, embed]
  · simp [a_p3d_magnitude, a_p2d_magnitude, embed]
  · simp [a_p3d_reverse, a_p2d_reverse, embed]
  · unfold a_p3d_normalize a_p2d_normalize
    simp only [embed, mul_zero, add_zero, zero_div]
    split_ifs <;> rfl
  · simp [a_p3d_cross, a_p2d_determinant, embed]

/-- SIBLING TIE: generated `is_zero(tol)` of `Point3D` / `Vector3D` on an embedded vector is
the `Point2D.is_zero(tol)` (the extra test `|0| <= tol` fails only for a negative tolerance,
for which the 2D test fails as well). -/
theorem is_zero_embed (a : V2 α) (tol : α) :
    a_p3d_is_zero (embed a) tol = a_p2d_is_zero a tol ∧
    a_v3d_is_zero (embed a) tol = a_p2d_is_zero a tol ∧
    a_p3d_is_equivalent (embed a) (embed a) tol = a_p2d_is_equivalent a a tol := by
  unfold a_p3d_is_zero a_v3d_is_zero a_p2d_is_zero a_p3d_is_equivalent a_p2d_is_equivalent embed
  simp only [sub_self, abs_zero]
  by_cases h : tol < 0
  · have h1 : tol < |a.x| := lt_of_lt_of_le h (abs_nonneg _)
    simp [h, h1]
  · simp [h]

/-- SIBLING TIE: `LineSegment3D` / `Ray3D` members on embedded segments (`C16.embedSeg`) against
the `LineSegment2D` / `Ray2D` members: `endpoints`, `vertices`, `is_parallel(other, angle_tol)`,
`is_colinear(other, tol)` (equal `acos` / `sqrt` arguments; no law about them is needed). -/
theorem seg_members_embed (M : MathOps α) (x l : LR2 α) (tol : α) :
    a_seg3d_endpoints (embedSeg x) = (a_seg2d_endpoints x).map embed ∧
    a_seg3d_vertices (embedSeg x) = (a_seg2d_vertices x).map embed ∧
    a_seg3d_is_parallel M (embedSeg x) (embedSeg l) tol = a_seg2d_is_parallel M x l tol ∧
    a_ray3d_is_parallel M (embedSeg x) (embedSeg l) tol = a_ray2d_is_parallel M x l tol ∧
    a_seg3d_is_colinear M (embedSeg x) (embedSeg l) tol = a_seg2d_is_colinear M x l tol ∧
    a_ray3d_is_colinear M (embedSeg x) (embedSeg l) tol = a_ray2d_is_colinear M x l tol := by
  refine ⟨?_, ?_, ?_, ?_, ?_, ?_⟩
  · simp [a_seg3d_endpoints, a_seg2d_endpoints, embedSeg, embed]
  · simp [a_seg3d_vertices, a_seg2d_vertices, embedSeg, embed]
  · simp [a_seg3d_is_parallel, a_seg2d_is_parallel, embedSeg, embed]
  · simp [a_ray3d_is_parallel, a_ray2d_is_parallel, embedSeg, embed]
  · simp [a_seg3d_is_colinear, a_seg2d_is_colinear, embedSeg, embed]
  · simp [a_ray3d_is_colinear, a_ray2d_is_colinear, embedSeg, embed]


/-! ## 2. `Base2DIn3D` against `Base2DIn2D` -/

/-- The generated 2D scan `Base2DIn2D._calculate_min_max` as a fold of `mm2Step` (restated in
our own variable names; definitional). -/
theorem base2d2_calculate_min_max_fold (vs : List (V2 α)) :
    base2d2_calculate_min_max vs =
      (⟨((vs.drop 1).foldl mm2Step ((vs.headD ⟨0, 0⟩).x, (vs.headD ⟨0, 0⟩).y,
          (vs.headD ⟨0, 0⟩).x, (vs.headD ⟨0, 0⟩).y)).1,
        ((vs.drop 1).foldl mm2Step ((vs.headD ⟨0, 0⟩).x, (vs.headD ⟨0, 0⟩).y,
          (vs.headD ⟨0, 0⟩).x, (vs.headD ⟨0, 0⟩).y)).2.1⟩,
       ⟨((vs.drop 1).foldl mm2Step ((vs.headD ⟨0, 0⟩).x, (vs.headD ⟨0, 0⟩).y,
          (vs.headD ⟨0, 0⟩).x, (vs.headD ⟨0, 0⟩).y)).2.2.1,
        ((vs.drop 1).foldl mm2Step ((vs.headD ⟨0, 0⟩).x, (vs.headD ⟨0, 0⟩).y,
          (vs.headD ⟨0, 0⟩).x, (vs.headD ⟨0, 0⟩).y)).2.2.2⟩) := rfl

/-- The generated 3D scan `Base2DIn3D._calculate_min_max` as a fold of `mm3Step`
(definitional). -/
theorem base2d3_calculate_min_max_fold (vs : List (V3 α)) :
    base2d3_calculate_min_max vs =
      (⟨((vs.drop 1).foldl mm3Step ((vs.headD ⟨0, 0, 0⟩).x, (vs.headD ⟨0, 0, 0⟩).y,
          (vs.headD ⟨0, 0, 0⟩).z, (vs.headD ⟨0, 0, 0⟩).x, (vs.headD ⟨0, 0, 0⟩).y,
          (vs.headD ⟨0, 0, 0⟩).z)).1,
        ((vs.drop 1).foldl mm3Step ((vs.headD ⟨0, 0, 0⟩).x, (vs.headD ⟨0, 0, 0⟩).y,
          (vs.headD ⟨0, 0, 0⟩).z, (vs.headD ⟨0, 0, 0⟩).x, (vs.headD ⟨0, 0, 0⟩).y,
          (vs.headD ⟨0, 0, 0⟩).z)).2.1,
        ((vs.drop 1).foldl mm3Step ((vs.headD ⟨0, 0, 0⟩).x, (vs.headD ⟨0, 0, 0⟩).y,
          (vs.headD ⟨0, 0, 0⟩).z, (vs.headD ⟨0, 0, 0⟩).x, (vs.headD ⟨0, 0, 0⟩).y,
          (vs.headD ⟨0, 0, 0⟩).z)).2.2.1⟩,
       ⟨((vs.drop 1).foldl mm3Step ((vs.headD ⟨0, 0, 0⟩).x, (vs.headD ⟨0, 0, 0⟩).y,
          (vs.headD ⟨0, 0, 0⟩).z, (vs.headD ⟨0, 0, 0⟩).x, (vs.headD ⟨0, 0, 0⟩).y,
          (vs.headD ⟨0, 0, 0⟩).z)).2.2.2.1,
        ((vs.drop 1).foldl mm3Step ((vs.headD ⟨0, 0, 0⟩).x, (vs.headD ⟨0, 0, 0⟩).y,
          (vs.headD ⟨0, 0, 0⟩).z, (vs.headD ⟨0, 0, 0⟩).x, (vs.headD ⟨0, 0, 0⟩).y,
          (vs.headD ⟨0, 0, 0⟩).z)).2.2.2.2.1,
        ((vs.drop 1).foldl mm3Step ((vs.headD ⟨0, 0, 0⟩).x, (vs.headD ⟨0, 0, 0⟩).y,
          (vs.headD ⟨0, 0, 0⟩).z, (vs.headD ⟨0, 0, 0⟩).x, (vs.headD ⟨0, 0, 0⟩).y,
          (vs.headD ⟨0, 0, 0⟩).z)).2.2.2.2.2⟩) := rfl

/-- SIBLING TIE: generated `Base2DIn3D._calculate_min_max` on embedded vertices is the embedded
result of the generated `Base2DIn2D._calculate_min_max` (every list, also the empty one). -/
theorem base2d3_calculate_min_max_embed (vs : List (V2 α)) :
    base2d3_calculate_min_max (vs.map embed) =
      (embed (base2d2_calculate_min_max vs).1, embed (base2d2_calculate_min_max vs).2) := by
  rw [base2d3_calculate_min_max_fold, base2d2_calculate_min_max_fold, headD_map_embed,
    ← List.map_drop]
  have key := foldl_mm3_embed (vs.drop 1) ((vs.headD ⟨0, 0⟩).x, (vs.headD ⟨0, 0⟩).y,
    (vs.headD ⟨0, 0⟩).x, (vs.headD ⟨0, 0⟩).y)
  have e : mmUp ((vs.headD ⟨0, 0⟩).x, (vs.headD ⟨0, 0⟩).y, (vs.headD ⟨0, 0⟩).x,
      (vs.headD ⟨0, 0⟩).y) =
      ((embed (vs.headD ⟨0, 0⟩)).x, (embed (vs.headD ⟨0, 0⟩)).y, (embed (vs.headD ⟨0, 0⟩)).z,
       (embed (vs.headD ⟨0, 0⟩)).x, (embed (vs.headD ⟨0, 0⟩)).y, (embed (vs.headD ⟨0, 0⟩)).z) := rfl
  rw [e] at key
  rw [key]
  rfl

/-- SIBLING TIE: generated `Base2DIn3D.min / max / center` on embedded vertices are the
embedded `Base2DIn2D.min / max / center`. -/
theorem base2d3_min_max_center_embed (vs : List (V2 α)) :
    base2d3_min (vs.map embed) = embed (base2d2_min vs) ∧
    base2d3_max (vs.map embed) = embed (base2d2_max vs) ∧
    base2d3_center (vs.map embed) = embed (base2d2_center vs) := by
  have h := base2d3_calculate_min_max_embed vs
  have h1 : base2d3_min (vs.map embed) = embed (base2d2_min vs) := by
    rw [(C10g.base2d3_min_max_eq _).1, h, (C10g.base2d2_min_max_eq _).1]
  have h2 : base2d3_max (vs.map embed) = embed (base2d2_max vs) := by
    rw [(C10g.base2d3_min_max_eq _).2, h, (C10g.base2d2_min_max_eq _).2]
  refine ⟨h1, h2, ?_⟩
  rw [C10g.base2d3_center_eq, C10g.base2d2_center_eq, h1, h2]
  simp [embed]

/-- SIBLING TIE: generated `Base2DIn3D.__init__` (fewer than three vertices raise),
`__len__`, `__getitem__` (items `0`, `2`, `-1`) and `__eq__ / __ne__` on embedded vertices
(the embedding is injective). -/
theorem base2d3_container_embed (vs ws : List (V2 α)) :
    base2d3_init (vs.map embed) = (base2d2_init vs).map (List.map embed) ∧
    base2d3_len (vs.map embed) = base2d2_len vs ∧
    base2d3_getitem_0 (vs.map embed) = embed (base2d2_getitem_0 vs) ∧
    base2d3_getitem_2 (vs.map embed) = embed (base2d2_getitem_2 vs) ∧
    base2d3_getitem_m1 (vs.map embed) = embed (base2d2_getitem_m1 vs) ∧
    base2d3_eq (vs.map embed) (ws.map embed) = base2d2_eq vs ws ∧
    base2d3_ne (vs.map embed) (ws.map embed) = base2d2_ne vs ws := by
  have hinj : Function.Injective (embed : V2 α → V3 α) := by
    intro a b h
    have hx : (embed a).x = (embed b).x := by rw [h]
    have hy : (embed a).y = (embed b).y := by rw [h]
    exact V2.ext' hx hy
  have hiff : (vs.map embed = ws.map embed) ↔ vs = ws :=
    ⟨fun h => List.map_injective_iff.mpr hinj h, fun h => by rw [h]⟩
  refine ⟨?_, ?_, ?_, ?_, ?_, ?_, ?_⟩
  · unfold base2d3_init base2d2_init
    rw [List.length_map]
    split_ifs <;> rfl
  · unfold base2d3_len base2d2_len
    rw [List.length_map]
  · unfold base2d3_getitem_0 base2d2_getitem_0
    rw [headD_map_embed]
  · unfold base2d3_getitem_2 base2d2_getitem_2
    rw [getD_map_embed]
  · unfold base2d3_getitem_m1 base2d2_getitem_m1
    rw [getLastD_map_embed]
  · unfold base2d3_eq base2d2_eq
    simp only [hiff]
  · unfold base2d3_ne base2d2_ne
    simp only [hiff]


/-! ## 3. `Polyline3D` against `Polyline2D` -/

/-- `Polyline?D.min / max / center` are inherited from `Base2DIn?D`: the generated polyline
kernels coincide with the generated base-class kernels (definitional). -/
theorem polyline_min_max_center_eq_base (vs : List (V2 α)) (ws : List (V3 α)) (i : Bool) :
    polyline2_min vs i = base2d2_min vs ∧ polyline2_max vs i = base2d2_max vs ∧
    polyline2_center vs i = base2d2_center vs ∧
    polyline3_min ws i = base2d3_min ws ∧ polyline3_max ws i = base2d3_max ws ∧
    polyline3_center ws i = base2d3_center ws := ⟨rfl, rfl, rfl, rfl, rfl, rfl⟩

/-- SIBLING TIE: generated `Polyline3D.min / max / center` on embedded vertices are the embedded
`Polyline2D.min / max / center`. -/
theorem polyline3_min_max_center_embed (vs : List (V2 α)) (i : Bool) :
    polyline3_min (vs.map embed) i = embed (polyline2_min vs i) ∧
    polyline3_max (vs.map embed) i = embed (polyline2_max vs i) ∧
    polyline3_center (vs.map embed) i = embed (polyline2_center vs i) :=
  base2d3_min_max_center_embed vs

/-- SIBLING TIE: generated `Polyline3D.segments` of embedded vertices are the embedded
(`C16.embedSeg` = generated `LineSegment3D.from_line_segment2d(·, 0)`) `Polyline2D.segments`. -/
theorem polyline3_segments_embed (vs : List (V2 α)) (i : Bool) :
    polyline3_segments (vs.map embed) i = (polyline2_segments vs i).map embedSeg := by
  unfold polyline3_segments polyline2_segments
  simp only []
  rw [← List.map_dropLast, ← List.map_drop, List.zip_map, List.map_map, List.map_map]
  apply List.map_congr_left
  intro q _
  simp [embedSeg, embed, Prod.map]

/-- The generated `Polyline3D.length` is the sum of the generated `LineSegment3D.length` over
the generated segments (as `C02g.polyline2_length_eq` for 2D). -/
theorem polyline3_length_eq (M : MathOps α) (vs : List (V3 α)) (i : Bool) :
    polyline3_length M vs i = ((polyline3_segments vs i).map (seg3_length M)).sum := by
  unfold polyline3_length
  simp only []
  rw [foldl_add_eq_sum (fun x => x), zero_add, List.map_id']
  rfl

/-- SIBLING TIE: generated `Polyline3D.length` of embedded vertices is the generated
`Polyline2D.length` (equal `sqrt` arguments, no law about `sqrt` needed). -/
theorem polyline3_length_embed (M : MathOps α) (vs : List (V2 α)) (i : Bool) :
    polyline3_length M (vs.map embed) i = polyline2_length M vs i := by
  rw [polyline3_length_eq, C02g.polyline2_length_eq, polyline3_segments_embed, List.map_map]
  congr 1
  apply List.map_congr_left
  intro l _
  exact seg_length_embed M l

/-- SIBLING TIE: generated `Polyline3D.p1 / p2` (first / last vertex) and `is_closed(tol)` on
embedded vertices (for `is_closed` the extra test `|0 − 0| <= tol` fails only for a negative
tolerance, for which the 2D test fails as well). -/
theorem polyline3_ends_embed (vs : List (V2 α)) (i : Bool) (tol : α) :
    polyline3_p1 (vs.map embed) i = embed (polyline2_p1 vs i) ∧
    polyline3_p2 (vs.map embed) i = embed (polyline2_p2 vs i) ∧
    polyline3_is_closed (vs.map embed) i tol = polyline2_is_closed vs i tol := by
  refine ⟨?_, ?_, ?_⟩
  · unfold polyline3_p1 polyline2_p1
    rw [headD_map_embed]
  · unfold polyline3_p2 polyline2_p2
    rw [getLastD_map_embed]
  · unfold polyline3_is_closed polyline2_is_closed
    rw [headD_map_embed, getLastD_map_embed]
    simp only [embed, sub_self, abs_zero]
    generalize vs.headD (⟨0, 0⟩ : V2 α) = a
    generalize vs.getLastD (⟨0, 0⟩ : V2 α) = b
    by_cases h : tol < 0
    · have h1 : tol < |a.x - b.x| := lt_of_lt_of_le h (abs_nonneg _)
      simp [h, h1]
    · simp [h]

/-- SIBLING TIE: the generated vertex-wise transforms `Polyline3D.reverse / move / rotate_xy /
reflect / scale` on embedded vertices (moving vector, origin, normal embedded too) are the
embedded `Polyline2D.reverse / move / rotate / reflect / scale`. -/
theorem polyline3_transforms_embed (M : MathOps α) (vs : List (V2 α)) (i : Bool)
    (mv n o : V2 α) (angle k : α) :
    polyline3_reverse (vs.map embed) i = (polyline2_reverse vs i).map embed ∧
    polyline3_move (vs.map embed) i (embed mv) = (polyline2_move vs i mv).map embed ∧
    polyline3_rotate_xy M (vs.map embed) i angle (embed o) =
      (polyline2_rotate M vs i angle o).map embed ∧
    polyline3_reflect (vs.map embed) i (embed n) (embed o) =
      (polyline2_reflect vs i n o).map embed ∧
    polyline3_scale (vs.map embed) i k (embed o) = (polyline2_scale vs i k o).map embed ∧
    polyline3_scale_world (vs.map embed) i k = (polyline2_scale_world vs i k).map embed := by
  have hp := fun a => point_transforms_embed M a mv n o angle k
  refine ⟨?_, ?_, ?_, ?_, ?_, ?_⟩
  · unfold polyline3_reverse polyline2_reverse
    simp only [List.map_id', List.map_reverse]
  · rw [C02g.polyline3_move_eq_map, C02g.polyline2_move_eq_map, List.map_map, List.map_map]
    exact List.map_congr_left (fun a _ => (hp a).1)
  · rw [C02g.polyline3_rotate_xy_eq_map, C02g.polyline2_rotate_eq_map, List.map_map, List.map_map]
    exact List.map_congr_left (fun a _ => (hp a).2.1)
  · rw [C02g.polyline3_reflect_eq_map, C02g.polyline2_reflect_eq_map, List.map_map, List.map_map]
    exact List.map_congr_left (fun a _ => (hp a).2.2.1)
  · rw [C02g.polyline3_scale_eq_map, C02g.polyline2_scale_eq_map, List.map_map, List.map_map]
    exact List.map_congr_left (fun a _ => (hp a).2.2.2.1)
  · have e3 : ∀ ws : List (V3 α), polyline3_scale_world ws i k =
        ws.map (fun p => p3_scale_world p k) := fun _ => rfl
    rw [e3, C02g.polyline2_scale_world_eq_map, List.map_map, List.map_map]
    exact List.map_congr_left (fun a _ => (hp a).2.2.2.2)

/-- SIBLING TIE: generated `Polyline3D.to_polyline2d()` undoes the embedding, and the
constructors `__init__ / from_array` accept the same inputs (at least three vertices). -/
theorem polyline3_to_polyline2d_embed (vs : List (V2 α)) (i : Bool) :
    polyline3_to_polyline2d (vs.map embed) i = vs ∧
    polyline3_init (vs.map embed) i = (polyline2_init vs i).map (List.map embed) ∧
    polyline3_from_array ((polyline2_to_array vs i).map (fun c => (c.1, c.2, 0))) =
      (polyline2_from_array (polyline2_to_array vs i)).map (List.map embed) := by
  refine ⟨?_, ?_, ?_⟩
  · unfold polyline3_to_polyline2d
    simp only [List.map_map]
    exact List.map_id _
  · unfold polyline3_init polyline2_init
    rw [List.length_map]
    split_ifs <;> rfl
  · unfold polyline3_from_array polyline2_from_array polyline2_to_array
    simp only [List.length_map, List.map_map]
    split_ifs <;> simp [Function.comp_def, embed]


/-- Generated `Polyline2D.intersect_line_infinite(line)` collects the generated
`intersect_line2d_infinite` of every generated segment with the line. -/
theorem polyline2_intersect_line_infinite_eq (vs : List (V2 α)) (i : Bool) (l : LR2 α) :
    polyline2_intersect_line_infinite_s vs i l =
      (polyline2_segments vs i).filterMap (fun s => intersect_line2d_infinite_ss s l) := by
  unfold polyline2_intersect_line_infinite_s polyline2_segments
  simp only []
  rw [foldl_snoc_fun_eq_filterMap (fun s => intersect_line2d_infinite_ss s l) _ []]
  · simp
  · intro st x
    unfold intersect_line2d_infinite_ss
    simp only []
    split_ifs <;> rfl

/-- Generated `Polyline3D.intersect_plane(plane)` collects the generated
`intersect_line3d_plane` of every generated segment with the plane. -/
theorem polyline3_intersect_plane_eq (vs : List (V3 α)) (i : Bool) (pl : PlaneS α) :
    polyline3_intersect_plane vs i pl =
      (polyline3_segments vs i).filterMap (fun s => intersect_line3d_plane_s s pl) := by
  unfold polyline3_intersect_plane polyline3_segments
  simp only []
  rw [foldl_snoc_fun_eq_filterMap (fun s => intersect_line3d_plane_s s pl) _ []]
  · simp
  · intro st x
    unfold intersect_line3d_plane_s
    simp only []
    split_ifs <;> rfl

/-- SIBLING TIE: generated `Polyline3D.intersect_plane` of an embedded polyline with the vertical
plane through a 2D line (`C16.vertPlane`) gives the embedded points of the generated
`Polyline2D.intersect_line_infinite` with that line — same points, same order. -/
theorem polyline3_intersect_plane_embed (vs : List (V2 α)) (i : Bool) (b : LR2 α) :
    polyline3_intersect_plane (vs.map embed) i (vertPlane b) =
      (polyline2_intersect_line_infinite_s vs i b).map embed := by
  rw [polyline3_intersect_plane_eq, polyline2_intersect_line_infinite_eq,
    polyline3_segments_embed, List.filterMap_map, List.map_filterMap]
  congr 1
  funext s
  exact (intersect_embed s b).1

/-- SIBLING TIE: generated `Polyline3D.remove_colinear_vertices(tol)` on embedded vertices is
the embedded result of the generated `Polyline2D.remove_colinear_vertices(tol)` — same
vertices kept, same error cases (`none`: index error / fewer than three vertices left) —
under the square-root laws: 2D compares `|det(a, v) + det(v, c) + det(c, a)|`, 3D compares
`sqrt |(a − v) × (c − v)|²`, with the same tolerance `max(|c − a|, tol) · tol / 2`. -/
theorem polyline3_remove_colinear_vertices_embed (M : MathOps α)
    (hsqrt : ∀ x, 0 ≤ x → M.sqrt x * M.sqrt x = x ∧ 0 ≤ M.sqrt x)
    (vs : List (V2 α)) (i : Bool) (tol : α) :
    polyline3_remove_colinear_vertices M (vs.map embed) i tol =
      (polyline2_remove_colinear_vertices M vs i tol).map (List.map embed) := by
  unfold polyline3_remove_colinear_vertices polyline2_remove_colinear_vertices
  simp only []
  rw [List.length_map]
  by_cases h3 : ((vs.length : Int) = 3)
  · rw [if_pos h3, if_pos h3]; rfl
  · rw [if_neg h3, if_neg h3, ← List.map_dropLast, ← List.map_drop, zipIdx_map,
      headD_map_embed, getLastD_map_embed]
    refine foldl_map_rel_post rcRel (fun q : V2 α × Nat => (embed q.1, q.2)) _ _ ?_
      (List.zipIdx (List.drop 1 (List.dropLast vs))) _ _ ?_
      (fun s => if s.1 = true then none else
        if (((s.2.1 ++ [vs.getLastD ⟨0, 0⟩]).length : Int) < 3) then none
        else some (s.2.1 ++ [vs.getLastD ⟨0, 0⟩]))
      (fun t => if t.1 = true then none else
        if (((t.2.1 ++ [embed (vs.getLastD ⟨0, 0⟩)]).length : Int) < 3) then none
        else some (t.2.1 ++ [embed (vs.getLastD ⟨0, 0⟩)]))
      (Option.map (List.map embed)) ?_
    · -- one iteration
      intro s t x hR
      obtain ⟨b, l, k⟩ := s
      obtain ⟨p, j⟩ := x
      unfold rcRel at hR
      subst hR
      simp only [getD_map_embed]
      by_cases hb : b = true
      · simp only [hb, if_true]; rfl
      · simp only [hb, if_false]
        by_cases ha : ((j : Int) - k < -(vs.length : Int) ∨ (vs.length : Int) ≤ (j : Int) - k)
        · simp only [ha, if_true]; rfl
        · simp only [ha, if_false]
          by_cases hc : ((j : Int) + 2 < -(vs.length : Int) ∨ (vs.length : Int) ≤ (j : Int) + 2)
          · simp only [hc, if_true]; rfl
          · simp only [hc, if_false]
            apply rcRel_step
            · rw [← sqrt_sq_eq_abs M hsqrt]
              congr 1
              simp only [embed]
              ring
            · simp only [embed, sub_self, mul_zero, add_zero]
    · rfl
    · intro s t hR
      unfold rcRel at hR
      subst hR
      simp only [List.length_append, List.length_map, List.length_cons, List.length_nil]
      split_ifs <;> simp


/-! ## 4. `Face3D` against `Polygon2D` -/

/-- Generated `Face3D.polygon2d` (no holes) is `map` of the generated `Plane.xyz_to_xy`
(definitional). -/
theorem face3d_polygon2d_eq_map (vs : List (V3 α)) (pl : PlaneS α) :
    face3d_polygon2d vs pl = vs.map (plane_xyz_to_xy pl) := rfl

/-- SIBLING TIE (any face, any plane): generated `Face3D.area` and `Face3D.is_clockwise` ARE the
generated `Polygon2D.area` / `Polygon2D.is_clockwise` of the generated `Face3D.polygon2d`
(definitional: the 3D members delegate to the 2D polygon). -/
theorem face3d_area_eq_polygon2d (vs : List (V3 α)) (pl : PlaneS α) :
    face3d_area vs pl = polygon2d_area (face3d_polygon2d vs pl) ∧
    face3d_is_clockwise vs pl = polygon2d_is_clockwise (face3d_polygon2d vs pl) := ⟨rfl, rfl⟩

/-- For a face whose vertices are the plane image (`Plane.xy_to_xyz`, orthonormal axes) of a
2D loop, the generated `Face3D.polygon2d` returns that loop. -/
theorem face3d_polygon2d_plane (pl : PlaneS α) (hf : OrthoXY pl) (ws : List (V2 α)) :
    face3d_polygon2d (ws.map (plane_xy_to_xyz pl)) pl = ws := by
  rw [face3d_polygon2d_eq_map, List.map_map]
  conv_rhs => rw [← List.map_id ws]
  apply List.map_congr_left
  intro c _
  exact plane_round_trip pl hf c

/-- SIBLING TIE: generated `Face3D.area` / `is_clockwise` of the plane image of a 2D loop are
the generated `Polygon2D.area` / `is_clockwise` of the loop (any plane with orthonormal axes). -/
theorem face3d_area_plane (pl : PlaneS α) (hf : OrthoXY pl) (ws : List (V2 α)) :
    face3d_area (ws.map (plane_xy_to_xyz pl)) pl = polygon2d_area ws ∧
    face3d_is_clockwise (ws.map (plane_xy_to_xyz pl)) pl = polygon2d_is_clockwise ws := by
  rw [(face3d_area_eq_polygon2d _ _).1, (face3d_area_eq_polygon2d _ _).2,
    face3d_polygon2d_plane pl hf]
  exact ⟨rfl, rfl⟩

/-- The same in the world XY plane: a face with embedded vertices `(x, y, 0)`. -/
theorem face3d_area_embed (ws : List (V2 α)) :
    face3d_polygon2d (ws.map embed) worldXY = ws ∧
    face3d_area (ws.map embed) worldXY = polygon2d_area ws ∧
    face3d_is_clockwise (ws.map embed) worldXY = polygon2d_is_clockwise ws := by
  have e : ws.map embed = ws.map (plane_xy_to_xyz (worldXY : PlaneS α)) :=
    List.map_congr_left (fun p _ => embed_eq_plane p)
  rw [e]
  exact ⟨face3d_polygon2d_plane worldXY orthoXY_worldXY.1 ws,
    (face3d_area_plane worldXY orthoXY_worldXY.1 ws).1,
    (face3d_area_plane worldXY orthoXY_worldXY.1 ws).2⟩

/-- Generated `Face3D.boundary_segments` in the shape of the hand model of
`Polygon2D.segments` (`Model.PointInside.segments`): one generated
`LineSegment3D.from_end_points` per cyclic vertex pair, first segment moved to the end. -/
theorem face3d_boundary_segments_eq (vs : List (V3 α)) (pl : PlaneS α) (h : vs ≠ []) :
    face3d_boundary_segments vs pl = Model.PointInside.popFirstToEnd
      ((cyclicPairs vs).map (fun q => seg3_from_end_points q.1 q.2)) := by
  unfold face3d_boundary_segments
  simp only []
  have e : List.foldl (fun (st : List (LR3 α)) (pp : V3 α × V3 α) =>
      st ++ [(⟨⟨pp.1.x, pp.1.y, pp.1.z⟩,
        ⟨pp.2.x - pp.1.x, pp.2.y - pp.1.y, pp.2.z - pp.1.z⟩⟩ : LR3 α)]) [] (cyclicPairs vs)
      = (cyclicPairs vs).map (fun q => seg3_from_end_points q.1 q.2) :=
    (foldl_snoc_eq_map (fun q : V3 α × V3 α => seg3_from_end_points q.1 q.2)
      (cyclicPairs vs) []).trans (List.nil_append _)
  rw [e]
  have hne : (cyclicPairs vs).map (fun q => seg3_from_end_points q.1 q.2) ≠ [] := by
    simpa using C08g.cyclicPairs_ne_nil vs h
  generalize (cyclicPairs vs).map (fun q => seg3_from_end_points q.1 q.2) = l at hne
  cases l with
  | nil => exact absurd rfl hne
  | cons s t => rfl

/-- SIBLING TIE: generated `Face3D.boundary_segments` of the plane image of a non-empty 2D loop
are the plane images (`C16.mapSeg`) of the generated `Polygon2D.segments` of the loop. -/
theorem face3d_boundary_segments_plane (pl : PlaneS α) (ws : List (V2 α)) (h : ws ≠ []) :
    face3d_boundary_segments (ws.map (plane_xy_to_xyz pl)) pl =
      (polygon2d_segments ws).map (mapSeg pl) := by
  have h' : ws.map (plane_xy_to_xyz pl) ≠ [] := by simpa using h
  rw [face3d_boundary_segments_eq _ pl h', C08g.polygon2d_segments_eq_model ws h]
  unfold Model.PointInside.segments
  rw [C01g.map_popFirstToEnd, cyclicPairs_map, List.map_map, List.map_map]
  congr 1
  apply List.map_congr_left
  intro q _
  exact seg_from_end_points_plane pl q.1 q.2

/-- Generated `Face3D.perimeter` is the sum of the generated `LineSegment3D.length` over the
generated `Face3D.boundary_segments` (as `C01g.polygon2d_perimeter_eq` for 2D). -/
theorem face3d_perimeter_eq (M : MathOps α) (vs : List (V3 α)) (pl : PlaneS α) :
    face3d_perimeter M vs pl = ((face3d_boundary_segments vs pl).map (seg3_length M)).sum := by
  unfold face3d_perimeter
  simp only []
  rw [foldl_add_eq_sum (fun x => x), zero_add, List.map_id']
  rfl

/-- SIBLING TIE: generated `Face3D.perimeter` of the plane image of a non-empty 2D loop is the
generated `Polygon2D.perimeter` of the loop (orthonormal axes; equal `sqrt` arguments). -/
theorem face3d_perimeter_plane (M : MathOps α) (pl : PlaneS α) (hf : OrthoXY pl)
    (ws : List (V2 α)) (h : ws ≠ []) :
    face3d_perimeter M (ws.map (plane_xy_to_xyz pl)) pl = polygon2d_perimeter M ws := by
  rw [face3d_perimeter_eq, C01g.polygon2d_perimeter_eq, face3d_boundary_segments_plane pl ws h,
    List.map_map]
  congr 1
  apply List.map_congr_left
  intro l _
  exact seg_length_plane M pl hf l

/-- The same in the world XY plane. -/
theorem face3d_perimeter_embed (M : MathOps α) (ws : List (V2 α)) (h : ws ≠ []) :
    face3d_perimeter M (ws.map embed) worldXY = polygon2d_perimeter M ws := by
  have e : ws.map embed = ws.map (plane_xy_to_xyz (worldXY : PlaneS α)) :=
    List.map_congr_left (fun p _ => embed_eq_plane p)
  rw [e]
  exact face3d_perimeter_plane M worldXY orthoXY_worldXY.1 ws h


/-! ## 5. Theorems about one sibling transported to the other -/

/-- Transport of `C10.minMax2_spec` (hand model of the 2D scan, through `C10g.base2d2_box_spec`)
to the generated `Polyline3D.min / max`: the box of an embedded polyline is flat
(`min.z = max.z = 0`), contains every vertex, and each of its four sides in `x`, `y` is touched
by a vertex. -/
theorem polyline3_box_embed_spec (v0 : V2 α) (rest : List (V2 α)) (i : Bool) :
    (polyline3_min ((v0 :: rest).map embed) i).z = 0 ∧
    (polyline3_max ((v0 :: rest).map embed) i).z = 0 ∧
    (∀ v ∈ v0 :: rest,
      (polyline3_min ((v0 :: rest).map embed) i).x ≤ v.x ∧
      v.x ≤ (polyline3_max ((v0 :: rest).map embed) i).x ∧
      (polyline3_min ((v0 :: rest).map embed) i).y ≤ v.y ∧
      v.y ≤ (polyline3_max ((v0 :: rest).map embed) i).y) ∧
    (∃ v ∈ v0 :: rest, v.x = (polyline3_min ((v0 :: rest).map embed) i).x) ∧
    (∃ v ∈ v0 :: rest, v.y = (polyline3_min ((v0 :: rest).map embed) i).y) ∧
    (∃ v ∈ v0 :: rest, v.x = (polyline3_max ((v0 :: rest).map embed) i).x) ∧
    (∃ v ∈ v0 :: rest, v.y = (polyline3_max ((v0 :: rest).map embed) i).y) := by
  obtain ⟨h1, h2, _⟩ := polyline3_min_max_center_embed (v0 :: rest) i
  obtain ⟨_, _, hb, ha, hb', hc, hd⟩ := C10g.base2d2_box_spec v0 rest
  rw [h1, h2]
  exact ⟨rfl, rfl, hb, ha, hb', hc, hd⟩

/-- Transport of `C02g.polyline2_length_move` to `Polyline3D`: the generated length of an
embedded polyline is invariant under the generated `Polyline3D.move` by an embedded vector. -/
theorem polyline3_length_move_embed (M : MathOps α) (vs : List (V2 α)) (i j : Bool) (mv : V2 α) :
    polyline3_length M (polyline3_move (vs.map embed) i (embed mv)) j =
      polyline3_length M (vs.map embed) j := by
  rw [(polyline3_transforms_embed M vs i mv mv mv 0 0).2.1, polyline3_length_embed,
    polyline3_length_embed, C02g.polyline2_length_move]

/-- Transport of `C01.polygon2d_area_eq'` (shoelace formula) to `Face3D`: the generated
`Face3D.area` of the plane image of a 2D loop is `|shoelace| / 2` of the loop. -/
theorem face3d_area_plane_shoelace (pl : PlaneS α) (hf : OrthoXY pl) (ws : List (V2 α)) :
    face3d_area (ws.map (plane_xy_to_xyz pl)) pl = |shoelace ws| / 2 := by
  rw [(face3d_area_plane pl hf ws).1, C01.polygon2d_area_eq']

/-- Transport of `C01g.polygon2d_perimeter_move` to `Face3D`: translating the 2D loop does not
change the generated `Face3D.perimeter` of its plane image. -/
theorem face3d_perimeter_plane_move (M : MathOps α) (pl : PlaneS α) (hf : OrthoXY pl)
    (ws : List (V2 α)) (h : ws ≠ []) (mv : V2 α) :
    face3d_perimeter M ((ws.map (fun p => p2_move p mv)).map (plane_xy_to_xyz pl)) pl =
      face3d_perimeter M (ws.map (plane_xy_to_xyz pl)) pl := by
  have h' : ws.map (fun p => p2_move p mv) ≠ [] := by simpa using h
  rw [face3d_perimeter_plane M pl hf _ h', face3d_perimeter_plane M pl hf _ h,
    C01g.polygon2d_perimeter_move M ws h]

/-! ## Non-vacuity (ℚ) -/

/-- A stand-in for `math` on ℚ (every function the identity) — enough to evaluate kernels. -/
def idOps : MathOps ℚ := ⟨fun x => x, fun x => x, fun x => x, fun x => x, fun x => x,
  fun x => x, fun _ x => x, 0, fun x => x⟩

/-- The 2D and 3D scans on a concrete polyline. -/
example : polyline3_min (([⟨1, 1⟩, ⟨0, 3⟩, ⟨4, -2⟩] : List (V2 ℚ)).map embed) false = ⟨0, -2, 0⟩ ∧
    polyline2_min ([⟨1, 1⟩, ⟨0, 3⟩, ⟨4, -2⟩] : List (V2 ℚ)) false = ⟨0, -2⟩ ∧
    polyline3_center (([⟨1, 1⟩, ⟨0, 3⟩, ⟨4, -2⟩] : List (V2 ℚ)).map embed) false = ⟨2, 1 / 2, 0⟩ := by
  decide +kernel

/-- `remove_colinear_vertices` drops the colinear vertex `(1, 0)` in both classes (with the
stand-in `sqrt` the comparison values differ between 2D and 3D, the outcome here does not). -/
example : polyline2_remove_colinear_vertices idOps
      ([⟨0, 0⟩, ⟨1, 0⟩, ⟨2, 0⟩, ⟨2, 2⟩] : List (V2 ℚ)) false (1 / 100) =
      some [⟨0, 0⟩, ⟨2, 0⟩, ⟨2, 2⟩] ∧
    polyline3_remove_colinear_vertices idOps
      (([⟨0, 0⟩, ⟨1, 0⟩, ⟨2, 0⟩, ⟨2, 2⟩] : List (V2 ℚ)).map embed) false (1 / 100) =
      some [⟨0, 0, 0⟩, ⟨2, 0, 0⟩, ⟨2, 2, 0⟩] := by
  decide +kernel

/-- `Face3D.area` of the embedded square and of its image in a tilted plane with orthonormal
axes `x = (3/5, 4/5, 0)`, `y = (0, 0, 1)`. -/
example : face3d_area (([⟨0, 0⟩, ⟨2, 0⟩, ⟨2, 2⟩, ⟨0, 2⟩] : List (V2 ℚ)).map embed) worldXY = 4 ∧
    face3d_area (([⟨0, 0⟩, ⟨2, 0⟩, ⟨2, 2⟩, ⟨0, 2⟩] : List (V2 ℚ)).map
      (plane_xy_to_xyz ⟨⟨4 / 5, -3 / 5, 0⟩, ⟨1, 2, 3⟩, -2 / 5, ⟨3 / 5, 4 / 5, 0⟩, ⟨0, 0, 1⟩⟩))
      ⟨⟨4 / 5, -3 / 5, 0⟩, ⟨1, 2, 3⟩, -2 / 5, ⟨3 / 5, 4 / 5, 0⟩, ⟨0, 0, 1⟩⟩ = 4 := by
  decide +kernel

/-- The segment predicates on a concrete pair (parallel segments, not colinear). -/
example : a_seg3d_is_colinear idOps (embedSeg (⟨⟨0, 1⟩, ⟨1, 0⟩⟩ : LR2 ℚ)) (embedSeg ⟨⟨0, 0⟩, ⟨2, 0⟩⟩)
      (1 / 2) = false ∧
    a_seg2d_is_colinear idOps (⟨⟨0, 1⟩, ⟨1, 0⟩⟩ : LR2 ℚ) ⟨⟨0, 0⟩, ⟨2, 0⟩⟩ (1 / 2) = false := by
  decide +kernel


end Lbg.Props.C16g
