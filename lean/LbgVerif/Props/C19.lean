/-
  C19 — "Offsets and generated sub-faces have the stated size and stay inside."   (PARTIAL)

  What is proved here:

  A. `perimeter_core_by_offset` (hand model `Model/Offset.lean` of the segment pairing and the
     quad-building loops, built on the generated `seg2_from_end_points` / `seg2_p2` /
     `polygon2d_is_clockwise` kernels): for ANY two loops of equal length the quads
     `(p_i, p_{i+1}, q_{i+1}, q_i)` have signed areas summing to `shoelace P - shoelace Q`
     (**`perimeter_core_partition`**): perimeter quads + core = original, also with holes of
     either winding with the code's own vertex tuple per winding
     (`perimeter_core_partition_holes`), and in terms of the reported (absolute) areas when
     the quads are positively oriented.
  B. `scale_about_point_inside`: `Point2D/3D.scale(k, c)` with `0 ≤ k ≤ 1` is a convex
     combination of `c` and `p`; any half-plane / half-space / finite intersection of them
     (a convex face, a triangle) containing `c` and the vertices contains the scaled
     vertices; the triangle centroid used by the non-convex branch lies in every half-space
     containing the triangle; scaled points stay on the parent plane.
  C. `ratio_area`: scaling a loop about ANY point by `s` multiplies `shoelace` (2D) and the
     Newell vector (3D) by `s²`; with `s = sqrt ratio` the area is `ratio · A`, the normal
     direction is unchanged; per-triangle version: the scaled triangles total
     `ratio · Σ triangles` (= `ratio · A` for a tiling triangulation); the scaled 3D face is
     the plane image of the scaled 2D polygon (sub-faces lie in the parent plane).
  D. `offset_vertex_distance`: the bisector identity (`m = (u₁+u₂)/(1+u₁·u₂)` has
     `m·u₁ = m·u₂ = 1`), and the half-angle form the code uses (`Model.offsetMoveVec`, both
     winding branches): the moved vertex is at signed distance `d` from BOTH adjacent edge
     lines, given `cos² + sin² = 1`, `sin ang ≠ 0`, the `sqrt` law and that `v2` is a positive
     multiple of `v1` rotated by twice the half angle; `LineSegment2D.offset`: parallel, at
     distance `|d|`, to the left for `d > 0` (given `cos(π/2) = 0`, `sin(π/2) = 1`).

  What is NOT proved: that the half angle obtained through `acos` satisfies the rotation
  hypothesis (libm); that the offset loop is simple / the quads are positively oriented and
  do not overlap (needs `|d|` below the local feature size — checked by the harness);
  `ratio ** .5` is read as `M.sqrt ratio` under the `sqrt` law; non-overlap of sub-faces,
  `extract_rectangle`, `sub_rects_from_rect_*` (harness only); the triangulation certificate
  (`Σ triangles = A`) is a hypothesis here (C05).
-/
import LbgVerif.Gen.Vec
import LbgVerif.Gen.Line
import LbgVerif.Gen.Plane
import LbgVerif.Gen.Mesh
import LbgVerif.Gen.Poly
import LbgVerif.Model.Offset
import LbgVerif.Lemmas.Annulus
import LbgVerif.Lemmas.OffsetVertex
import LbgVerif.Lemmas.Shoelace
import LbgVerif.Lemmas.Newell
import LbgVerif.Props.C01
import LbgVerif.Props.C02
import LbgVerif.Props.C06
import Mathlib.Tactic.Ring
import Mathlib.Tactic.FieldSimp
import Mathlib.Tactic.Linarith
import Mathlib.Tactic.Positivity
import Mathlib.Tactic.LinearCombination
import Mathlib.Tactic.SplitIfs
import Mathlib.Tactic.NormNum
import Mathlib.Algebra.Order.Field.Rat

set_option linter.unusedSectionVars false
set_option linter.unusedVariables false
set_option linter.unusedSimpArgs false

namespace Lbg.Props.C19
open Lbg Lbg.Gen Lbg.Lemmas Lbg.Model
open Lbg.Props.C02 (PlaneValid OnPlane)
variable {α : Type} [Field α] [LinearOrder α] [IsStrictOrderedRing α]

/-! ## Predicates used in the statements -/

/-- The closed half-plane `a·p ≤ b`. -/
def InHalfPlane (a : V2 α) (b : α) (p : V2 α) : Prop := V2.dot a p ≤ b

/-- The closed half-space `a·p ≤ b`. -/
def InHalfSpace (a : V3 α) (b : α) (p : V3 α) : Prop := V3.dot a p ≤ b

/-- Membership in a finite intersection of half-planes (a convex polygon). -/
def InConvex2 (cons : List (V2 α × α)) (p : V2 α) : Prop :=
  ∀ c ∈ cons, InHalfPlane c.1 c.2 p

/-- Membership in a finite intersection of half-spaces. -/
def InConvex3 (cons : List (V3 α × α)) (p : V3 α) : Prop :=
  ∀ c ∈ cons, InHalfSpace c.1 c.2 p

/-- Sum of the doubled signed areas of a list of loops. -/
def shoelaceSum (ls : List (List (V2 α))) : α := (ls.map shoelace).sum

/-! ## A. Perimeter quads and core partition the polygon -/

/-- `Polygon2D.segments`: one segment per vertex. -/
theorem segments_length (vs : List (V2 α)) : (segmentsOf vs).length = vs.length :=
  segmentsOf_length vs

/-- In a field the end point read back from a stored segment is the original vertex
(`p1 + (p2 - p1) = p2`). -/
theorem segment_end_points (a b : V2 α) :
    (seg2_from_end_points a b).p = a ∧ seg2_p2 (seg2_from_end_points a b) = b :=
  ⟨seg2_p1_from_end_points a b, seg2_p2_from_end_points a b⟩

/-- The quads built by `perimeter_core_by_offset` (no holes) are exactly
`(p_i, p_{i+1}, q_{i+1}, q_i)`, `i = 0 … n-1` (indices cyclic), for the loop of vertex pairs
`Z = zip P Q`. -/
theorem perimeter_quads_explicit (Z : List (V2 α × V2 α)) :
    perimeterQuads (Z.map Prod.fst) (Z.map Prod.snd) =
      (popAppend (cyclicPairs Z)).map (fun e => [e.1.1, e.2.1, e.2.2, e.1.2]) := by
  simp only [perimeterQuads, zip_segmentsOf, List.map_map]
  apply List.map_congr_left
  intro p _
  simp only [Function.comp, quadOut_from_end_points]

/-- One perimeter quad per polygon edge. -/
theorem perimeter_quads_length (P Q : List (V2 α)) (h : P.length = Q.length) :
    (perimeterQuads P Q).length = P.length := by
  simp only [perimeterQuads, List.length_map, List.length_zip, segmentsOf_length, h, min_self]

/-- **`perimeter_core_partition`** (no holes): for ANY two loops of equal length — no geometry
needed — the signed areas of the perimeter quads plus the signed area of the inner (core)
loop equal the signed area of the outer loop. -/
theorem perimeter_core_partition (P Q : List (V2 α)) (h : P.length = Q.length) :
    shoelaceSum (perimeterQuads P Q) + shoelace Q = shoelace P := by
  rw [shoelaceSum, perimeterQuads_sum P Q h]; ring

/-- Same statement in terms of the REPORTED areas `Polygon2D.area` (`|shoelace| / 2`): when
the core is counter-clockwise and every perimeter quad is positively oriented (the geometric
side condition: the offset does not fold over — not proved here) the quad areas and the core
area add up to the polygon area. -/
theorem perimeter_core_partition_area (P Q : List (V2 α)) (h : P.length = Q.length)
    (hQ : 0 ≤ shoelace Q) (hq : ∀ q ∈ perimeterQuads P Q, 0 ≤ shoelace q) :
    ((perimeterQuads P Q).map polygon2d_area).sum + polygon2d_area Q = polygon2d_area P := by
  have hsum : ((perimeterQuads P Q).map polygon2d_area).sum =
      shoelaceSum (perimeterQuads P Q) / 2 := by
    unfold shoelaceSum
    generalize perimeterQuads P Q = qs at hq
    induction qs with
    | nil => simp
    | cons q t ih =>
      simp only [List.map_cons, List.sum_cons]
      rw [ih (fun q' hq' => hq q' (List.mem_cons_of_mem _ hq')),
        C01.polygon2d_area_eq', abs_of_nonneg (hq q List.mem_cons_self)]
      ring
  have hnn : 0 ≤ shoelaceSum (perimeterQuads P Q) := by
    unfold shoelaceSum
    apply List.sum_nonneg
    intro x hx
    obtain ⟨q, hq', rfl⟩ := List.mem_map.mp hx
    exact hq q hq'
  have hP := perimeter_core_partition P Q h
  rw [hsum, C01.polygon2d_area_eq', C01.polygon2d_area_eq', abs_of_nonneg hQ,
    abs_of_nonneg (by linarith : 0 ≤ shoelace P), ← hP]
  ring

/-- The quads of one hole with the code's own tuple per winding
(`(out.p1, in.p1, in.p2, out.p2)` for counter-clockwise holes, `(out.p1, out.p2, in.p2, in.p1)`
for clockwise ones — the repaired branch): their signed areas sum to
`|shoelace H'| - |shoelace H|` (the ring between the hole and its offset, counted positively)
whenever the offset loop `H'` has the same winding as the hole `H`. -/
theorem hole_quads_ring (H H' : List (V2 α)) (h : H.length = H'.length)
    (hor : shoelace H < 0 ↔ shoelace H' < 0) :
    shoelaceSum (holeQuads H H') = |shoelace H'| - |shoelace H| := by
  rw [shoelaceSum, holeQuads_sum H H' h]
  split_ifs with hc
  · rw [C06.is_clockwise_iff] at hc
    rw [abs_of_neg hc, abs_of_neg (hor.mp hc)]; ring
  · rw [C06.is_clockwise_iff] at hc
    have h1 : 0 ≤ shoelace H := not_lt.mp hc
    have h2 : 0 ≤ shoelace H' := not_lt.mp (fun h' => hc (hor.mpr h'))
    rw [abs_of_nonneg h1, abs_of_nonneg h2]

/-- **`perimeter_core_partition_holes`**: with holes (each paired with its offset loop of the
same length and winding), all perimeter quads plus the core region (core loop minus the offset
holes) have the signed area of the polygon minus its holes:
`Σ quads + (shoelace core − Σ |shoelace hole'|) = shoelace polygon − Σ |shoelace hole|`. -/
theorem perimeter_core_partition_holes (P C : List (V2 α))
    (holes : List (List (V2 α) × List (V2 α))) (hPC : P.length = C.length)
    (hlen : ∀ h ∈ holes, h.1.length = h.2.length)
    (hor : ∀ h ∈ holes, (shoelace h.1 < 0 ↔ shoelace h.2 < 0)) :
    shoelaceSum (perimeterQuadsHoles P C holes)
        + (shoelace C - (holes.map (fun h => |shoelace h.2|)).sum) =
      shoelace P - (holes.map (fun h => |shoelace h.1|)).sum := by
  have hP := perimeter_core_partition P C hPC
  have hH : shoelaceSum (holes.flatMap (fun h => holeQuads h.1 h.2)) =
      (holes.map (fun h => |shoelace h.2|)).sum - (holes.map (fun h => |shoelace h.1|)).sum := by
    induction holes with
    | nil => simp [shoelaceSum]
    | cons g t ih =>
      have hg := hole_quads_ring g.1 g.2 (hlen g List.mem_cons_self) (hor g List.mem_cons_self)
      have ht := ih (fun h hh => hlen h (List.mem_cons_of_mem _ hh))
        (fun h hh => hor h (List.mem_cons_of_mem _ hh))
      simp only [shoelaceSum, List.flatMap_cons, List.map_append, List.sum_append,
        List.map_cons, List.sum_cons] at hg ht ⊢
      rw [hg, ht]; ring
  simp only [shoelaceSum, perimeterQuadsHoles, List.map_append, List.sum_append] at hP hH ⊢
  rw [hH]
  linarith

/-! ## B. Scaling about an interior point stays inside (convexity) -/

/-- `Point2D.scale(k, c)` is the convex combination `(1-k)·c + k·p`. -/
theorem p2_scale_convex_comb (p c : V2 α) (k : α) :
    p2_scale p k c = ⟨(1 - k) * c.x + k * p.x, (1 - k) * c.y + k * p.y⟩ := by
  simp only [p2_scale]; ext <;> simp only [] <;> ring

/-- `Point3D.scale(k, c)` is the convex combination `(1-k)·c + k·p`. -/
theorem p3_scale_convex_comb (p c : V3 α) (k : α) :
    p3_scale p k c =
      ⟨(1 - k) * c.x + k * p.x, (1 - k) * c.y + k * p.y, (1 - k) * c.z + k * p.z⟩ := by
  simp only [p3_scale]; ext <;> simp only [] <;> ring

/-- **`scale_about_point_inside`** (half-plane): for `0 ≤ k ≤ 1`, if the scale origin `c` and
the point `p` lie in the half-plane `a·x ≤ b`, so does the scaled point. -/
theorem scale_about_point_inside (a : V2 α) (b : α) (p c : V2 α) (k : α)
    (hk0 : 0 ≤ k) (hk1 : k ≤ 1) (hc : InHalfPlane a b c) (hp : InHalfPlane a b p) :
    InHalfPlane a b (p2_scale p k c) := by
  simp only [InHalfPlane, p2_scale_convex_comb, V2.dot] at *
  nlinarith [mul_le_mul_of_nonneg_left hp hk0,
    mul_le_mul_of_nonneg_left hc (sub_nonneg.mpr hk1)]

/-- `scale_about_point_inside` for a convex polygon (finite intersection of half-planes): a
convex face scaled about any of its points by `0 ≤ k ≤ 1` stays inside itself — every scaled
vertex satisfies every edge constraint. -/
theorem scale_about_point_inside_convex (cons : List (V2 α × α)) (vs : List (V2 α))
    (c : V2 α) (k : α) (hk0 : 0 ≤ k) (hk1 : k ≤ 1) (hc : InConvex2 cons c)
    (hvs : ∀ p ∈ vs, InConvex2 cons p) :
    ∀ q ∈ vs.map (fun p => p2_scale p k c), InConvex2 cons q := by
  intro q hq
  obtain ⟨p, hp, rfl⟩ := List.mem_map.mp hq
  intro con hcon
  exact scale_about_point_inside con.1 con.2 p c k hk0 hk1 (hc con hcon) (hvs p hp con hcon)

/-- Half-space version for `Point3D.scale`. -/
theorem scale_about_point_inside3 (a : V3 α) (b : α) (p c : V3 α) (k : α)
    (hk0 : 0 ≤ k) (hk1 : k ≤ 1) (hc : InHalfSpace a b c) (hp : InHalfSpace a b p) :
    InHalfSpace a b (p3_scale p k c) := by
  simp only [InHalfSpace, p3_scale_convex_comb, V3.dot] at *
  nlinarith [mul_le_mul_of_nonneg_left hp hk0,
    mul_le_mul_of_nonneg_left hc (sub_nonneg.mpr hk1)]

/-- Convex 3D version (finite intersection of half-spaces, e.g. the prism over a convex face
or over a triangle). -/
theorem scale_about_point_inside_convex3 (cons : List (V3 α × α)) (vs : List (V3 α))
    (c : V3 α) (k : α) (hk0 : 0 ≤ k) (hk1 : k ≤ 1) (hc : InConvex3 cons c)
    (hvs : ∀ p ∈ vs, InConvex3 cons p) :
    ∀ q ∈ vs.map (fun p => p3_scale p k c), InConvex3 cons q := by
  intro q hq
  obtain ⟨p, hp, rfl⟩ := List.mem_map.mp hq
  intro con hcon
  exact scale_about_point_inside3 con.1 con.2 p c k hk0 hk1 (hc con hcon) (hvs p hp con hcon)

/-- The triangle centroid used by the non-convex branch of `sub_faces_by_ratio`
(`Mesh3D._tri_face_centroid`) lies in every half-space containing the three vertices
(needs `3 ≠ 0`, true in every ordered field). -/
theorem tri_centroid_inside (a : V3 α) (b : α) (p q r : V3 α)
    (hp : InHalfSpace a b p) (hq : InHalfSpace a b q) (hr : InHalfSpace a b r) :
    InHalfSpace a b (mesh3d_tri_centroid (p, q, r)) := by
  simp only [InHalfSpace, mesh3d_tri_centroid, V3.dot] at *
  have h3 : (0 : α) < 3 := by norm_num
  have : a.x * ((0 + p.x + q.x + r.x) / 3) + a.y * ((0 + p.y + q.y + r.y) / 3)
      + a.z * ((0 + p.z + q.z + r.z) / 3) =
      ((a.x * p.x + a.y * p.y + a.z * p.z) + (a.x * q.x + a.y * q.y + a.z * q.z)
        + (a.x * r.x + a.y * r.y + a.z * r.z)) / 3 := by ring
  rw [this, div_le_iff₀ h3]
  linarith

/-- Non-convex branch: each triangle scaled about its own centroid by `0 ≤ k ≤ 1` stays in
every half-space that contains the triangle — hence inside the triangle, hence inside the
parent face when the triangulation tiles it (C05). -/
theorem sub_triangle_inside (cons : List (V3 α × α)) (p q r : V3 α) (k : α)
    (hk0 : 0 ≤ k) (hk1 : k ≤ 1)
    (hp : InConvex3 cons p) (hq : InConvex3 cons q) (hr : InConvex3 cons r) :
    ∀ v ∈ [p, q, r].map (fun v => p3_scale v k (mesh3d_tri_centroid (p, q, r))),
      InConvex3 cons v := by
  apply scale_about_point_inside_convex3 cons [p, q, r] _ k hk0 hk1
  · intro con hcon
    exact tri_centroid_inside con.1 con.2 p q r (hp con hcon) (hq con hcon) (hr con hcon)
  · intro v hv
    simp only [List.mem_cons, List.not_mem_nil, or_false] at hv
    rcases hv with rfl | rfl | rfl <;> assumption

/-- Scaling about a point of a plane keeps points of that plane on it (for every `k`): the
sub-faces lie in the parent plane. -/
theorem scale_stays_on_plane (pl : PlaneS α) (p c : V3 α) (k : α)
    (hc : OnPlane pl c) (hp : OnPlane pl p) : OnPlane pl (p3_scale p k c) := by
  simp only [OnPlane, p3_scale_convex_comb, V3.dot] at *
  linear_combination (1 - k) * hc + k * hp

/-! ## C. `ratio_area` -/

/-- Scaling a loop with `Point2D.scale` about ANY point by `s` multiplies its signed area by
`s²`. -/
theorem scale_area_2d (l : List (V2 α)) (c : V2 α) (s : α) :
    shoelace (l.map (fun p => p2_scale p s c)) = s * s * shoelace l := by
  rw [← shoelace_scale_about s c l]
  congr 1
  apply List.map_congr_left
  intro p _
  exact C02.p2_scale_eq p c s

/-- **`ratio_area`** (2D, signed): with the scale factor `sqrt ratio` the scaled loop has
signed area `ratio · A` — for every scale origin. -/
theorem ratio_area_2d (M : MathOps α)
    (hsqrt : ∀ x, 0 ≤ x → M.sqrt x * M.sqrt x = x ∧ 0 ≤ M.sqrt x)
    (l : List (V2 α)) (c : V2 α) (ratio : α) (hr : 0 ≤ ratio) :
    shoelace (l.map (fun p => p2_scale p (M.sqrt ratio) c)) = ratio * shoelace l := by
  rw [scale_area_2d, (hsqrt ratio hr).1]

/-- `ratio_area` for the reported area `Polygon2D.area`. -/
theorem ratio_area_polygon (M : MathOps α)
    (hsqrt : ∀ x, 0 ≤ x → M.sqrt x * M.sqrt x = x ∧ 0 ≤ M.sqrt x)
    (l : List (V2 α)) (c : V2 α) (ratio : α) (hr : 0 ≤ ratio) :
    polygon2d_area (l.map (fun p => p2_scale p (M.sqrt ratio) c)) =
      ratio * polygon2d_area l := by
  rw [C01.polygon2d_area_eq', C01.polygon2d_area_eq', ratio_area_2d M hsqrt l c ratio hr,
    abs_mul, abs_of_nonneg hr]
  ring

/-- The scaled loop keeps its orientation (`ratio > 0`). -/
theorem ratio_keeps_orientation (M : MathOps α)
    (hsqrt : ∀ x, 0 ≤ x → M.sqrt x * M.sqrt x = x ∧ 0 ≤ M.sqrt x)
    (l : List (V2 α)) (c : V2 α) (ratio : α) (hr : 0 < ratio) :
    (0 < shoelace (l.map (fun p => p2_scale p (M.sqrt ratio) c)) ↔ 0 < shoelace l) := by
  rw [ratio_area_2d M hsqrt l c ratio hr.le]
  exact ⟨fun h => (pos_iff_pos_of_mul_pos h).mp hr, fun h => mul_pos hr h⟩

/-- Per-triangle version (non-convex branch): each piece `t` scaled about its own centre
`ctr t` (any point) — the scaled pieces total `ratio · Σ pieces`. -/
theorem ratio_area_pieces (M : MathOps α)
    (hsqrt : ∀ x, 0 ≤ x → M.sqrt x * M.sqrt x = x ∧ 0 ≤ M.sqrt x)
    (ts : List (List (V2 α))) (ctr : List (V2 α) → V2 α) (ratio : α) (hr : 0 ≤ ratio) :
    shoelaceSum (ts.map (fun t => t.map (fun p => p2_scale p (M.sqrt ratio) (ctr t)))) =
      ratio * shoelaceSum ts := by
  unfold shoelaceSum
  induction ts with
  | nil => simp
  | cons t ts ih =>
    simp only [List.map_cons, List.sum_cons] at ih ⊢
    rw [ih, ratio_area_2d M hsqrt t (ctr t) ratio hr]; ring

/-- Per-triangle `ratio_area`: if the pieces tile the polygon (`Σ pieces = A`, the C05
certificate) the scaled pieces total `ratio · A`. -/
theorem ratio_area_tiling (M : MathOps α)
    (hsqrt : ∀ x, 0 ≤ x → M.sqrt x * M.sqrt x = x ∧ 0 ≤ M.sqrt x)
    (P : List (V2 α)) (ts : List (List (V2 α))) (ctr : List (V2 α) → V2 α) (ratio : α)
    (hr : 0 ≤ ratio) (htile : shoelaceSum ts = shoelace P) :
    shoelaceSum (ts.map (fun t => t.map (fun p => p2_scale p (M.sqrt ratio) (ctr t)))) =
      ratio * shoelace P := by
  rw [ratio_area_pieces M hsqrt ts ctr ratio hr, htile]

/-- 3D: scaling a loop with `Point3D.scale` about ANY point by `s` multiplies its Newell
vector (normal direction × doubled area) by `s²`. -/
theorem scale_area_3d (l : List (V3 α)) (c : V3 α) (s : α) :
    newell (l.map (fun p => p3_scale p s c)) = V3.smul (s * s) (newell l) := by
  rw [newell_affine_of _ ⟨s, 0, 0⟩ ⟨0, s, 0⟩ ⟨0, 0, s⟩
    ⟨c.x - s * c.x, c.y - s * c.y, c.z - s * c.z⟩
    (fun p => by simp only [p3_scale]; ring) (fun p => by simp only [p3_scale]; ring)
    (fun p => by simp only [p3_scale]; ring)]
  apply V3.ext' <;> simp [V3.cross, V3.smul]

/-- **`ratio_area`** (3D): with the factor `sqrt ratio` the Newell vector of the sub-face is
`ratio ·` that of the parent: same normal direction, area `ratio · A`. -/
theorem ratio_area_3d (M : MathOps α)
    (hsqrt : ∀ x, 0 ≤ x → M.sqrt x * M.sqrt x = x ∧ 0 ≤ M.sqrt x)
    (l : List (V3 α)) (c : V3 α) (ratio : α) (hr : 0 ≤ ratio) :
    newell (l.map (fun p => p3_scale p (M.sqrt ratio) c)) = V3.smul ratio (newell l) := by
  rw [scale_area_3d, (hsqrt ratio hr).1]

/-- 3D per-triangle version: the Newell vectors of the scaled pieces total `ratio ·` the total
of the pieces. -/
theorem ratio_area_pieces_3d (M : MathOps α)
    (hsqrt : ∀ x, 0 ≤ x → M.sqrt x * M.sqrt x = x ∧ 0 ≤ M.sqrt x)
    (ts : List (List (V3 α))) (ctr : List (V3 α) → V3 α) (ratio : α) (hr : 0 ≤ ratio) :
    (ts.map (fun t => newell (t.map (fun p => p3_scale p (M.sqrt ratio) (ctr t))))).foldr
        V3.add ⟨0, 0, 0⟩ =
      V3.smul ratio ((ts.map newell).foldr V3.add ⟨0, 0, 0⟩) := by
  induction ts with
  | nil => simp [V3.smul]
  | cons t ts ih =>
    simp only [List.map_cons, List.foldr_cons] at ih ⊢
    rw [ih, ratio_area_3d M hsqrt t (ctr t) ratio hr]
    simp only [V3.add, V3.smul]; ext <;> simp only [] <;> ring

/-- The plane map commutes with scaling: scaling the 3D image of `q` about the 3D image of `c`
is the 3D image of the 2D point scaled about `c` (any plane, no validity needed). -/
theorem scale_commutes_with_plane (pl : PlaneS α) (q c : V2 α) (s : α) :
    p3_scale (plane_xy_to_xyz pl q) s (plane_xy_to_xyz pl c) =
      plane_xy_to_xyz pl (p2_scale q s c) := by
  simp only [p3_scale, p2_scale, plane_xy_to_xyz]
  ext <;> simp only [] <;> ring

/-- `ratio_area` through the plane frame: a face given by plane coordinates `cs` in a valid
frame, scaled in 3D about the image of `c`, is the image of the scaled 2D polygon — so it lies
in the parent plane, its plane polygon has signed area `ratio · A`, and its Newell vector is
`ratio · A • n` (same normal as the parent). -/
theorem ratio_area_in_plane (M : MathOps α)
    (hsqrt : ∀ x, 0 ≤ x → M.sqrt x * M.sqrt x = x ∧ 0 ≤ M.sqrt x)
    {pl : PlaneS α} (hv : PlaneValid pl) (cs : List (V2 α)) (c : V2 α) (ratio : α)
    (hr : 0 ≤ ratio) :
    (cs.map (plane_xy_to_xyz pl)).map
        (fun p => p3_scale p (M.sqrt ratio) (plane_xy_to_xyz pl c)) =
      (cs.map (fun q => p2_scale q (M.sqrt ratio) c)).map (plane_xy_to_xyz pl) ∧
    (∀ p ∈ (cs.map (plane_xy_to_xyz pl)).map
        (fun p => p3_scale p (M.sqrt ratio) (plane_xy_to_xyz pl c)), OnPlane pl p) ∧
    newell ((cs.map (plane_xy_to_xyz pl)).map
        (fun p => p3_scale p (M.sqrt ratio) (plane_xy_to_xyz pl c))) =
      V3.smul (ratio * shoelace cs) pl.n := by
  have e : (cs.map (plane_xy_to_xyz pl)).map
        (fun p => p3_scale p (M.sqrt ratio) (plane_xy_to_xyz pl c)) =
      (cs.map (fun q => p2_scale q (M.sqrt ratio) c)).map (plane_xy_to_xyz pl) := by
    simp only [List.map_map]
    apply List.map_congr_left
    intro q _
    exact scale_commutes_with_plane pl q c _
  refine ⟨e, ?_, ?_⟩
  · rw [e]
    intro p hp
    obtain ⟨q, _, rfl⟩ := List.mem_map.mp hp
    exact C06.plane_xy_to_xyz_on_plane hv q
  · rw [e, ← C06.fan_eq_newell, C06.fan_planar hv, ratio_area_2d M hsqrt cs c ratio hr]

/-! ## D. The offset vertex -/

/-- **`offset_vertex_distance`** (bisector identity): if `u₁, u₂` are the unit inward normals
of the two edges meeting at `p` (`u₁·u₂ ≠ -1`) and `m = (u₁+u₂)/(1+u₁·u₂)`, the point
`p' = p + d·m` satisfies `u₁·(p'−p) = u₂·(p'−p) = d`: it is at signed distance `d` from both
edge lines (which pass through `p`). -/
theorem offset_vertex_distance (p u1 u2 : V2 α) (d : α)
    (h1 : V2.normSq u1 = 1) (h2 : V2.normSq u2 = 1) (hne : 1 + V2.dot u1 u2 ≠ 0) :
    let m := V2.smul (1 / (1 + V2.dot u1 u2)) (V2.add u1 u2)
    let p' := V2.add p (V2.smul d m)
    V2.dot u1 (V2.sub p' p) = d ∧ V2.dot u2 (V2.sub p' p) = d := by
  obtain ⟨e1, e2⟩ := bisector_dot u1 u2 h1 h2 hne
  simp only [V2.dot, V2.smul, V2.add, V2.sub] at *
  constructor
  · linear_combination d * e1
  · linear_combination d * e2

/-- Half-angle form, counter-clockwise branch of `Polygon2D.offset`
(`m = v1.rotate(-ang).normalize() * (d / sin ang)`): with `r = |v1|`,
* the inward unit normal `n₁ = (v1.y, -v1.x)/r` of the incoming edge has `n₁·m = d`;
* if `v2` is `k > 0` times `v1` rotated clockwise by `2·ang` (that is what
  `ang = angle_clockwise(v1, v2) / 2` means), the inward unit normal
  `n₂ = (-v2.y, v2.x)/(k r)` of the outgoing edge has `n₂·m = d`, and `|v2| = k r`.
Stated without division: `(v1.y, -v1.x)·m = d·r`, `(-v2.y, v2.x)·m = d·(k r)`. -/
theorem offset_move_vec_ccw (M : MathOps α)
    (hsqrt : ∀ x, 0 ≤ x → M.sqrt x * M.sqrt x = x ∧ 0 ≤ M.sqrt x)
    (v1 : V2 α) (hv1 : v1.x * v1.x + v1.y * v1.y ≠ 0) (ang d k : α)
    (hcs : M.cos ang * M.cos ang + M.sin ang * M.sin ang = 1)
    (hcn : M.cos (-ang) = M.cos ang) (hsn : M.sin (-ang) = - M.sin ang)
    (hs : M.sin ang ≠ 0) :
    let r := M.sqrt (v1.x * v1.x + v1.y * v1.y)
    let m := offsetMoveVec M false v1 ang d
    let v2 : V2 α := V2.smul k (v2_rotate M (v2_rotate M v1 (-ang)) (-ang))
    V2.dot (v2_cross v1) m = d * r ∧
    V2.dot ⟨-v2.y, v2.x⟩ m = d * (k * r) ∧
    V2.normSq v2 = (k * r) * (k * r) := by
  obtain ⟨hrr, hr⟩ := v2_len_pos M hsqrt v1 hv1
  have hcs' : M.cos (-ang) * M.cos (-ang) + M.sin (-ang) * M.sin (-ang) = 1 := by
    rw [hcn, hsn]; linear_combination hcs
  have hm : offsetMoveVec M false v1 ang d =
      ⟨(M.cos ang * v1.x + M.sin ang * v1.y) / M.sqrt (v1.x * v1.x + v1.y * v1.y)
          * (d / M.sin ang),
       (- M.sin ang * v1.x + M.cos ang * v1.y) / M.sqrt (v1.x * v1.x + v1.y * v1.y)
          * (d / M.sin ang)⟩ := by
    simp only [offsetMoveVec, Bool.false_eq_true, not_false_eq_true, if_true,
      v2_normalize_rotate M hsqrt v1 hv1 (-ang) hcs', hcn, hsn]
    ext <;> simp only [] <;> ring
  simp only [hm, v2_rotate, hcn, hsn, V2.dot, v2_cross, V2.smul, V2.normSq]
  generalize M.sqrt (v1.x * v1.x + v1.y * v1.y) = r at hrr hr
  generalize M.cos ang = c at hcs hs
  generalize M.sin ang = s at hcs hs
  have hr0 : r ≠ 0 := ne_of_gt hr
  refine ⟨?_, ?_, ?_⟩
  · field_simp
    linear_combination (-(d * s)) * hrr
  · field_simp
    linear_combination (-(d * k * s * (c * c + s * s))) * hrr + (d * k * s * r * r) * hcs
  · linear_combination (k * k * (v1.x * v1.x + v1.y * v1.y) * (c * c + s * s + 1)) * hcs
      - (k * k) * hrr

/-- Half-angle form, clockwise branch of `Polygon2D.offset` (the vertices have been reversed to
counter-clockwise order; `m = v1.rotate(ang).normalize() * (-d / sin ang)` with
`ang = angle_counterclockwise(v1, v2) / 2`, i.e. `v2` is `k > 0` times `v1` rotated
counter-clockwise by `2·ang`): the same two inward normals have `n₁·m = n₂·m = d`. -/
theorem offset_move_vec_cw (M : MathOps α)
    (hsqrt : ∀ x, 0 ≤ x → M.sqrt x * M.sqrt x = x ∧ 0 ≤ M.sqrt x)
    (v1 : V2 α) (hv1 : v1.x * v1.x + v1.y * v1.y ≠ 0) (ang d k : α)
    (hcs : M.cos ang * M.cos ang + M.sin ang * M.sin ang = 1)
    (hs : M.sin ang ≠ 0) :
    let r := M.sqrt (v1.x * v1.x + v1.y * v1.y)
    let m := offsetMoveVec M true v1 ang d
    let v2 : V2 α := V2.smul k (v2_rotate M (v2_rotate M v1 ang) ang)
    V2.dot (v2_cross v1) m = d * r ∧
    V2.dot ⟨-v2.y, v2.x⟩ m = d * (k * r) ∧
    V2.normSq v2 = (k * r) * (k * r) := by
  obtain ⟨hrr, hr⟩ := v2_len_pos M hsqrt v1 hv1
  have hm : offsetMoveVec M true v1 ang d =
      ⟨(M.cos ang * v1.x - M.sin ang * v1.y) / M.sqrt (v1.x * v1.x + v1.y * v1.y)
          * (-d / M.sin ang),
       (M.sin ang * v1.x + M.cos ang * v1.y) / M.sqrt (v1.x * v1.x + v1.y * v1.y)
          * (-d / M.sin ang)⟩ := by
    simp only [offsetMoveVec, not_true_eq_false, if_false,
      v2_normalize_rotate M hsqrt v1 hv1 ang hcs]
  simp only [hm, v2_rotate, V2.dot, v2_cross, V2.smul, V2.normSq]
  generalize M.sqrt (v1.x * v1.x + v1.y * v1.y) = r at hrr hr
  generalize M.cos ang = c at hcs hs
  generalize M.sin ang = s at hcs hs
  have hr0 : r ≠ 0 := ne_of_gt hr
  refine ⟨?_, ?_, ?_⟩
  · field_simp
    linear_combination (-(d * s)) * hrr
  · field_simp
    linear_combination (-(d * k * s * (c * c + s * s))) * hrr + (d * k * s * r * r) * hcs
  · linear_combination (k * k * (v1.x * v1.x + v1.y * v1.y) * (c * c + s * s + 1)) * hcs
      - (k * k) * hrr

/-- The moved vertex `pt.move(m)`: with `p' = p + m`, the signed distances of `p'` from the two
edge lines through `p` (unit inward normals `n₁`, `n₂`) are `n₁·(p'−p)` and `n₂·(p'−p)`, i.e.
`n₁·m` and `n₂·m` — the quantities computed by `offset_move_vec_ccw/cw`. -/
theorem moved_vertex_offset (p m n : V2 α) :
    V2.dot n (V2.sub (p2_move p m) p) = V2.dot n m := by
  simp only [p2_move, V2.sub, V2.dot]; ring

/-- `LineSegment2D.offset(d)` (`d ≠ 0`, non-degenerate segment), given `cos(π/2) = 0` and
`sin(π/2) = 1` and the `sqrt` law: the direction is unchanged (parallel), the start point moves
perpendicular to the segment, by exactly `|d|` (`|w|² = d²`), to the LEFT for `d > 0`
(`det v w = d·|v|`). -/
theorem seg2_offset_spec (M : MathOps α)
    (hsqrt : ∀ x, 0 ≤ x → M.sqrt x * M.sqrt x = x ∧ 0 ≤ M.sqrt x)
    (hc : M.cos (M.pi / 2) = 0) (hs : M.sin (M.pi / 2) = 1)
    (l : LR2 α) (hv : l.v.x * l.v.x + l.v.y * l.v.y ≠ 0) (d : α) (hd : d ≠ 0) :
    let w := V2.sub (seg2_offset M l d).p l.p
    (seg2_offset M l d).v = l.v ∧ V2.dot l.v w = 0 ∧ V2.normSq w = d * d ∧
    V2.det l.v w = d * M.sqrt (l.v.x * l.v.x + l.v.y * l.v.y) := by
  obtain ⟨hrr, hr⟩ := v2_len_pos M hsqrt l.v hv
  have hN : (0 * l.v.x - 1 * l.v.y) * (0 * l.v.x - 1 * l.v.y) +
      (1 * l.v.x + 0 * l.v.y) * (1 * l.v.x + 0 * l.v.y) = l.v.x * l.v.x + l.v.y * l.v.y := by
    ring
  simp only [seg2_offset, hc, hs, hN, if_neg (ne_of_gt hr), if_neg hd, V2.sub, V2.dot,
    V2.normSq, V2.det]
  generalize M.sqrt (l.v.x * l.v.x + l.v.y * l.v.y) = r at hrr hr
  have hr0 : r ≠ 0 := ne_of_gt hr
  refine ⟨trivial, ?_, ?_, ?_⟩
  · field_simp; ring
  · field_simp
    linear_combination (-(d * d)) * hrr
  · field_simp
    linear_combination (-d) * hrr

/-! ## Non-vacuity / sanity at ℚ -/

/-- Unit square and the square offset inwards by 1/4: four quads of doubled area 3/8 each and
the core of doubled area 1/2 make up the doubled area 2. -/
example :
    let P : List (V2 ℚ) := [⟨0, 0⟩, ⟨1, 0⟩, ⟨1, 1⟩, ⟨0, 1⟩]
    let Q : List (V2 ℚ) := [⟨1/4, 1/4⟩, ⟨3/4, 1/4⟩, ⟨3/4, 3/4⟩, ⟨1/4, 3/4⟩]
    (perimeterQuads P Q).map shoelace = [3/8, 3/8, 3/8, 3/8] ∧ shoelace Q = 1/2 ∧
      shoelace P = 2 ∧
      perimeterQuads P Q = [[⟨0, 0⟩, ⟨1, 0⟩, ⟨3/4, 1/4⟩, ⟨1/4, 1/4⟩],
        [⟨1, 0⟩, ⟨1, 1⟩, ⟨3/4, 3/4⟩, ⟨3/4, 1/4⟩], [⟨1, 1⟩, ⟨0, 1⟩, ⟨1/4, 3/4⟩, ⟨3/4, 3/4⟩],
        [⟨0, 1⟩, ⟨0, 0⟩, ⟨1/4, 1/4⟩, ⟨1/4, 3/4⟩]] := by
  decide +kernel

/-- A clockwise hole `H` (doubled area −2) and its outward offset `H'` (doubled area −9/2):
the hole quads are positively oriented and their doubled areas sum to 9/2 − 2 (the defect of
the unrepaired code was to emit a stale tuple here). -/
example :
    let H : List (V2 ℚ) := [⟨0, 0⟩, ⟨0, 1⟩, ⟨1, 1⟩, ⟨1, 0⟩]
    let H' : List (V2 ℚ) := [⟨-1/4, -1/4⟩, ⟨-1/4, 5/4⟩, ⟨5/4, 5/4⟩, ⟨5/4, -1/4⟩]
    polygon2d_is_clockwise H = true ∧ (holeQuads H H').map shoelace = [5/8, 5/8, 5/8, 5/8] ∧
      |shoelace H'| - |shoelace H| = 5/2 := by
  decide +kernel

/-- The same hole given counter-clockwise: the other tuple is used, again positively
oriented. -/
example :
    let H : List (V2 ℚ) := [⟨0, 0⟩, ⟨1, 0⟩, ⟨1, 1⟩, ⟨0, 1⟩]
    let H' : List (V2 ℚ) := [⟨-1/4, -1/4⟩, ⟨5/4, -1/4⟩, ⟨5/4, 5/4⟩, ⟨-1/4, 5/4⟩]
    polygon2d_is_clockwise H = false ∧ (holeQuads H H').map shoelace = [5/8, 5/8, 5/8, 5/8] := by
  decide +kernel

/-- Bisector identity at a right-angle corner: `u₁ = (1,0)`, `u₂ = (0,1)` give `m = (1,1)`. -/
example : V2.smul (1 / (1 + V2.dot (⟨1, 0⟩ : V2 ℚ) ⟨0, 1⟩)) (V2.add ⟨1, 0⟩ ⟨0, 1⟩) = ⟨1, 1⟩ := by
  decide +kernel

/-- The half-plane hypotheses are satisfiable: scaling `(4, 0)` about `(1, 1)` by `1/2` inside
`x + y ≤ 4`. -/
example : InHalfPlane (⟨1, 1⟩ : V2 ℚ) 4 ⟨1, 1⟩ ∧ InHalfPlane (⟨1, 1⟩ : V2 ℚ) 4 ⟨4, 0⟩ ∧
    p2_scale (⟨4, 0⟩ : V2 ℚ) (1/2) ⟨1, 1⟩ = ⟨5/2, 1/2⟩ := by
  simp only [InHalfPlane, V2.dot]
  refine ⟨by norm_num, by norm_num, by decide +kernel⟩

end Lbg.Props.C19
