/-
  C04 — "Polygon boolean operations compute the exact set operation."   (PARTIAL)

  What is proved here (about the definitions regenerated from `ladybug_geometry/boolean.py`):

  * §1  `select_index` is the binary number `8·a₁ + 4·b₁ + 2·a₂ + b₂` (so `< 16`), and the
        "no other fill" index is the same with `a₂ = b₂ = false`;
  * §2  every one of the five 16-entry fill-selection tables is *exactly* the truth table of
        its set operation applied separately to the "filled above" and the "filled below"
        flags (value `0` = drop the segment, `1` = keep / result filled above only,
        `2` = keep / result filled below only) — all 16 cells of all five tables;
  * §3  the `is_inverted` flag each `_select_*` gives its result is the operation applied to
        the operands' flags, and this is consistent with De Morgan: the operation on
        complemented regions is (another operation on the un-complemented regions),
        complemented exactly when the flag says so;
  * §4  the tolerance point predicates of `BooleanPoint` are characterised;
  * §5  the finite-set (cell set) identities the property quotes.

  What is NOT proved: the Martinez sweep (`_Intersecter.calculate`, `__checkIntersection`,
  `__statusCompare`) and `_segmentChainer` are not modelled; the operation itself is checked
  by the harness against the cell-set specification of §5.
-/
import LbgVerif.Gen.Tables
import LbgVerif.Gen.Bool
import LbgVerif.Lemmas.BoolTables
import Mathlib.Tactic.Ring
import Mathlib.Tactic.Linarith
import Mathlib.Tactic.SplitIfs
import Mathlib.Tactic.LinearCombination
import Mathlib.Algebra.Order.Field.Rat
import Mathlib.Data.Finset.Card
import Mathlib.Data.Finset.SymmDiff

set_option linter.unusedSectionVars false

namespace Lbg.Props.C04
open Lbg Lbg.Gen Lbg.Lemmas

/-! ## Predicates used in the statements -/

/-- The five set operations on membership flags (`a` = "in region 1", `b` = "in region 2"). -/
def opUnion (a b : Bool) : Bool := a || b
/-- intersection -/
def opIntersect (a b : Bool) : Bool := a && b
/-- difference `1 \ 2` -/
def opDifference (a b : Bool) : Bool := a && !b
/-- reversed difference `2 \ 1` -/
def opDifferenceRev (a b : Bool) : Bool := !a && b
/-- symmetric difference -/
def opXor (a b : Bool) : Bool := a != b

/-- `Bool → Nat` as Python's `(k if flag else 0)` with `k = 1`. -/
def b2n (b : Bool) : Nat := if b then 1 else 0

/-- Entry `i` of a selection table.  An out-of-range lookup yields the sentinel `3`, which
satisfies none of the three clauses of `FillSpec` — so the specs below also prove that every
index `__select` can compute is inside the table. -/
def entry (t : List Nat) (i : Nat) : Nat := t.getD i 3

/-- Meaning of a table value `v` for a segment of the combined sweep: `A` = "the result region
is filled above the segment", `B` = "… below the segment".
`v = 0` (segment dropped) iff the result does not change across the segment;
`v = 1` (kept, `_Fill(above=True, below=False)`) iff filled above only;
`v = 2` (kept, `_Fill(above=False, below=True)`) iff filled below only. -/
def FillSpec (v : Nat) (A B : Bool) : Prop :=
  (v = 0 ↔ A = B) ∧ (v = 1 ↔ (A = true ∧ B = false)) ∧ (v = 2 ↔ (A = false ∧ B = true))

instance (v : Nat) (A B : Bool) : Decidable (FillSpec v A B) := by
  unfold FillSpec; infer_instance

/-- A table `t` implements the operation `op`: for all 16 fill combinations
(`a₁,b₁` = polygon 1 filled above/below the segment, `a₂,b₂` = polygon 2) the entry selected by
`__select` has the meaning `FillSpec` for `A = op a₁ a₂`, `B = op b₁ b₂`. -/
def TableImplements (t : List Nat) (op : Bool → Bool → Bool) : Prop :=
  ∀ a1 b1 a2 b2 : Bool,
    FillSpec (entry t (select_index a1 b1 a2 b2)) (op a1 a2) (op b1 b2)

/-! ## §1  The index computed by `__select` -/

/-- `__select`'s index is the binary number with digits `above1 below1 above2 below2`. -/
theorem select_index_eq (a1 b1 a2 b2 : Bool) :
    select_index a1 b1 a2 b2 = 8 * b2n a1 + 4 * b2n b1 + 2 * b2n a2 + b2n b2 := by
  cases a1 <;> cases b1 <;> cases a2 <;> cases b2 <;> rfl

/-- The index is always inside a 16-entry table. -/
theorem select_index_lt (a1 b1 a2 b2 : Bool) : select_index a1 b1 a2 b2 < 16 := by
  cases a1 <;> cases b1 <;> cases a2 <;> cases b2 <;> decide

/-- The index is injective: different fill combinations read different cells (so the 16
cases of a `TableImplements` statement test all 16 cells, each once). -/
theorem select_index_injective (a1 b1 a2 b2 a1' b1' a2' b2' : Bool)
    (h : select_index a1 b1 a2 b2 = select_index a1' b1' a2' b2') :
    a1 = a1' ∧ b1 = b1' ∧ a2 = a2' ∧ b2 = b2' := by
  revert h
  cases a1 <;> cases b1 <;> cases a2 <;> cases b2 <;>
    cases a1' <;> cases b1' <;> cases a2' <;> cases b2' <;> decide

/-- Every cell `i < 16` is read by some fill combination. -/
theorem select_index_surjective (i : Nat) (hi : i < 16) :
    ∃ a1 b1 a2 b2, select_index a1 b1 a2 b2 = i := by
  have h : ∀ i : Fin 16, ∃ a1 b1 a2 b2, select_index a1 b1 a2 b2 = i.val := by decide
  exact h ⟨i, hi⟩

/-- A segment with no fill from the other polygon (`otherfill is None`) is looked up as if the
other polygon were empty on both sides. -/
theorem select_index_nofill_eq (a1 b1 : Bool) :
    select_index_nofill a1 b1 = select_index a1 b1 false false := by
  cases a1 <;> cases b1 <;> rfl

/-- All five tables have exactly 16 entries. -/
theorem select_tables_length :
    select_union_table.length = 16 ∧ select_intersect_table.length = 16 ∧
    select_difference_table.length = 16 ∧ select_difference_rev_table.length = 16 ∧
    select_xor_table.length = 16 := by
  decide

/-! ## §2  The five tables are the truth tables of the five operations -/

/-- `_select_union`: cell by cell the table is "keep the segment iff `a₁∨a₂ ≠ b₁∨b₂`, and
the kept segment's fill is (above, below) = (`a₁∨a₂`, `b₁∨b₂`)". -/
theorem select_union_spec : TableImplements select_union_table opUnion := by
  unfold TableImplements; decide

/-- `_select_intersect`: the table is the truth table of `∧` on the above- and below-flags. -/
theorem select_intersect_spec : TableImplements select_intersect_table opIntersect := by
  unfold TableImplements; decide

/-- `_select_difference`: the table is the truth table of `a ∧ ¬b`. -/
theorem select_difference_spec : TableImplements select_difference_table opDifference := by
  unfold TableImplements; decide

/-- `_select_difference_rev`: the table is the truth table of `¬a ∧ b`. -/
theorem select_difference_rev_spec :
    TableImplements select_difference_rev_table opDifferenceRev := by
  unfold TableImplements; decide

/-- `_select_xor`: the table is the truth table of `a ≠ b`. -/
theorem select_xor_spec : TableImplements select_xor_table opXor := by
  unfold TableImplements; decide

/-- What `__select` does with a table that implements `op`: the segment is kept
(`selection[index] != 0`) iff the result's fill differs across it, and the kept segment gets
`_Fill(below = (v == 2), above = (v == 1))`, which are exactly the result's fills. -/
theorem select_fill_of_implements {t : List Nat} {op : Bool → Bool → Bool}
    (h : TableImplements t op) (a1 b1 a2 b2 : Bool) :
    let v := entry t (select_index a1 b1 a2 b2)
    (v ≠ 0 ↔ op a1 a2 ≠ op b1 b2) ∧
      (v ≠ 0 → decide (v = 1) = op a1 a2 ∧ decide (v = 2) = op b1 b2) ∧
      (v = 0 ∨ v = 1 ∨ v = 2) :=
  fillSpec_consequences (h a1 b1 a2 b2).1 (h a1 b1 a2 b2).2.1 (h a1 b1 a2 b2).2.2

/-- A table implementing `op` is unique: the specification pins down all 16 cells.  (Hence a
single wrong cell in any of the five literals makes the corresponding `select_*_spec` fail.) -/
theorem table_unique {t t' : List Nat} {op : Bool → Bool → Bool}
    (h : TableImplements t op) (h' : TableImplements t' op) (i : Nat) (hi : i < 16) :
    entry t i = entry t' i := by
  obtain ⟨a1, b1, a2, b2, rfl⟩ := select_index_surjective i hi
  exact fillSpec_unique (h a1 b1 a2 b2).1 (h a1 b1 a2 b2).2.1 (h a1 b1 a2 b2).2.2
    (h' a1 b1 a2 b2).1 (h' a1 b1 a2 b2).2.1 (h' a1 b1 a2 b2).2.2

/-- Non-vacuity / sensitivity: the union table with ONE cell changed (cell 5: `2 → 0`), the
union table with `1` and `2` exchanged (a swapped `above`/`below` in `__select`), and a table
that is one entry short are all rejected by the specification. -/
example :
    ¬ TableImplements [0, 2, 1, 0, 2, 0, 0, 0, 1, 0, 1, 0, 0, 0, 0, 0] opUnion ∧
    ¬ TableImplements [0, 1, 2, 0, 1, 1, 0, 0, 2, 0, 2, 0, 0, 0, 0, 0] opUnion ∧
    ¬ TableImplements (select_union_table.take 15) opUnion := by
  unfold TableImplements; decide

/-- Segments lying in only one polygon (`otherfill is None`, index `select_index_nofill`) are
treated by every table as if the other polygon were absent there: union/xor keep the segment
with its own fill, difference keeps it, intersect and reversed difference drop it. -/
theorem select_nofill_spec (a1 b1 : Bool) :
    FillSpec (entry select_union_table (select_index_nofill a1 b1)) a1 b1 ∧
    FillSpec (entry select_xor_table (select_index_nofill a1 b1)) a1 b1 ∧
    FillSpec (entry select_difference_table (select_index_nofill a1 b1)) a1 b1 ∧
    entry select_intersect_table (select_index_nofill a1 b1) = 0 ∧
    entry select_difference_rev_table (select_index_nofill a1 b1) = 0 := by
  revert a1 b1; decide

/-! ## §3  Inversion flags and De Morgan -/

/-- `_select_union` marks its result inverted iff one of the operands is. -/
theorem select_union_inverted_eq (i1 i2 : Bool) :
    select_union_inverted i1 i2 = opUnion i1 i2 := by
  revert i1 i2; decide

/-- `_select_intersect` marks its result inverted iff both operands are. -/
theorem select_intersect_inverted_eq (i1 i2 : Bool) :
    select_intersect_inverted i1 i2 = opIntersect i1 i2 := by
  revert i1 i2; decide

/-- `_select_difference` marks its result inverted iff the first operand is and the second is
not. -/
theorem select_difference_inverted_eq (i1 i2 : Bool) :
    select_difference_inverted i1 i2 = opDifference i1 i2 := by
  revert i1 i2; decide

/-- `_select_difference_rev` marks its result inverted iff the second operand is and the first
is not. -/
theorem select_difference_rev_inverted_eq (i1 i2 : Bool) :
    select_difference_rev_inverted i1 i2 = opDifferenceRev i1 i2 := by
  revert i1 i2; decide

/-- `_select_xor` marks its result inverted iff exactly one operand is. -/
theorem select_xor_inverted_eq (i1 i2 : Bool) :
    select_xor_inverted i1 i2 = opXor i1 i2 := by
  revert i1 i2; decide

/-- The operation that has to be applied to the *un-complemented* regions `x₁, x₂`
(`xₖ` = "inside the stored loops of operand k") so that, after complementing the result when
the `is_inverted` flag of the result is set, one obtains `op` of the regions complemented
according to `i₁, i₂`.  Row = operation requested, column = `(i₁, i₂)`:

|            | (F,F)      | (T,F)         | (F,T)         | (T,T)         |
|------------|------------|---------------|---------------|---------------|
| union      | union      | difference    | differenceRev | intersect     |
| intersect  | intersect  | differenceRev | difference    | union         |
| difference | difference | union         | intersect     | differenceRev |
| diff. rev  | diff. rev  | intersect     | union         | difference    |
| xor        | xor        | xor           | xor           | xor           |
-/
def dualOp (op : Bool → Bool → Bool) (opT opF opB : Bool → Bool → Bool) (i1 i2 : Bool) :
    Bool → Bool → Bool :=
  match i1, i2 with
  | false, false => op
  | true, false => opT
  | false, true => opF
  | true, true => opB

/-- De Morgan consistency of `_select_union`'s inversion flag: the union of the (possibly
complemented) operands is the complement — exactly when `select_union_inverted` is set — of
union / difference / reversed difference / intersection of the un-complemented regions.  In
particular with both operands inverted: `¬x₁ ∨ ¬x₂ = ¬(x₁ ∧ x₂)`. -/
theorem select_union_deMorgan (i1 i2 x1 x2 : Bool) :
    opUnion (x1 != i1) (x2 != i2) =
      (dualOp opUnion opDifference opDifferenceRev opIntersect i1 i2 x1 x2
        != select_union_inverted i1 i2) := by
  revert i1 i2 x1 x2; decide

/-- De Morgan consistency of `_select_intersect`'s inversion flag (both inverted:
`¬x₁ ∧ ¬x₂ = ¬(x₁ ∨ x₂)`, result flagged inverted). -/
theorem select_intersect_deMorgan (i1 i2 x1 x2 : Bool) :
    opIntersect (x1 != i1) (x2 != i2) =
      (dualOp opIntersect opDifferenceRev opDifference opUnion i1 i2 x1 x2
        != select_intersect_inverted i1 i2) := by
  revert i1 i2 x1 x2; decide

/-- De Morgan consistency of `_select_difference`'s inversion flag (first inverted:
`¬x₁ ∧ ¬x₂ = ¬(x₁ ∨ x₂)`, flagged inverted; both inverted: `¬x₁ ∧ x₂`, not flagged). -/
theorem select_difference_deMorgan (i1 i2 x1 x2 : Bool) :
    opDifference (x1 != i1) (x2 != i2) =
      (dualOp opDifference opUnion opIntersect opDifferenceRev i1 i2 x1 x2
        != select_difference_inverted i1 i2) := by
  revert i1 i2 x1 x2; decide

/-- De Morgan consistency of `_select_difference_rev`'s inversion flag. -/
theorem select_difference_rev_deMorgan (i1 i2 x1 x2 : Bool) :
    opDifferenceRev (x1 != i1) (x2 != i2) =
      (dualOp opDifferenceRev opIntersect opUnion opDifference i1 i2 x1 x2
        != select_difference_rev_inverted i1 i2) := by
  revert i1 i2 x1 x2; decide

/-- De Morgan consistency of `_select_xor`'s inversion flag: complementing an operand of a
symmetric difference complements the result. -/
theorem select_xor_deMorgan (i1 i2 x1 x2 : Bool) :
    opXor (x1 != i1) (x2 != i2) =
      (dualOp opXor opXor opXor opXor i1 i2 x1 x2 != select_xor_inverted i1 i2) := by
  revert i1 i2 x1 x2; decide

/-- The flag is the operation applied to the membership of the "point at infinity": an
inverted operand is the one that contains it, and for every operation the result contains it
iff `op` of the operands' flags holds — the five `*_inverted_eq` facts in one statement, with
`xₖ = false` (far away from all stored loops) in the De Morgan identities. -/
theorem select_inverted_is_membership_at_infinity (i1 i2 : Bool) :
    opUnion (false != i1) (false != i2) = select_union_inverted i1 i2 ∧
    opIntersect (false != i1) (false != i2) = select_intersect_inverted i1 i2 ∧
    opDifference (false != i1) (false != i2) = select_difference_inverted i1 i2 ∧
    opDifferenceRev (false != i1) (false != i2) = select_difference_rev_inverted i1 i2 ∧
    opXor (false != i1) (false != i2) = select_xor_inverted i1 i2 := by
  revert i1 i2; decide

/-- The tables act on the *actual* fills (the sweep already accounts for inverted operands
when it annotates fills), so the combination "table + flag" is correct for inverted operands
too: with `aₖ = xₖ ⊕ iₖ` the value read from the union table describes
`dual(x) ⊕ inverted` on both sides of the segment.  (Shown for union; the other four follow
in the same way from `select_*_spec` and `select_*_deMorgan`.) -/
theorem select_union_spec_inverted (i1 i2 x1 y1 x2 y2 : Bool) :
    FillSpec (entry select_union_table
        (select_index (x1 != i1) (y1 != i1) (x2 != i2) (y2 != i2)))
      (dualOp opUnion opDifference opDifferenceRev opIntersect i1 i2 x1 x2
        != select_union_inverted i1 i2)
      (dualOp opUnion opDifference opDifferenceRev opIntersect i1 i2 y1 y2
        != select_union_inverted i1 i2) := by
  rw [← select_union_deMorgan, ← select_union_deMorgan]
  exact select_union_spec _ _ _ _

/-! ## §4  The tolerance point predicates of `BooleanPoint` -/

section points
variable {α : Type} [Field α] [LinearOrder α] [IsStrictOrderedRing α]

/-- `point_above_or_on_line(pt, l, r, tol)` is `det(r − l, pt − l) ≥ −tol`. -/
theorem bool_point_above_or_on_line_iff (pt l r : V2 α) (tol : α) :
    bool_point_above_or_on_line pt l r tol = true ↔
      -tol ≤ V2.det (V2.sub r l) (V2.sub pt l) := by
  simp only [bool_point_above_or_on_line, decide_eq_true_eq, not_lt, V2.det, V2.sub]

/-- At tolerance zero: `pt` is on or to the left of the directed line `l → r`
(`det(r − l, pt − l) ≥ 0`). -/
theorem bool_point_above_or_on_line_tol0 (pt l r : V2 α) :
    bool_point_above_or_on_line pt l r 0 = true ↔
      0 ≤ V2.det (V2.sub r l) (V2.sub pt l) := by
  rw [bool_point_above_or_on_line_iff, neg_zero]

/-- The predicate is monotone in the tolerance: a larger tolerance accepts more points. -/
theorem bool_point_above_or_on_line_mono (pt l r : V2 α) {tol tol' : α} (h : tol ≤ tol')
    (hp : bool_point_above_or_on_line pt l r tol = true) :
    bool_point_above_or_on_line pt l r tol' = true := by
  rw [bool_point_above_or_on_line_iff] at hp ⊢
  linarith

/-- `collinear(p1, p2, p3, tol)` is `|det(p1 − p2, p2 − p3)| < tol`. -/
theorem bool_collinear_iff (p1 p2 p3 : V2 α) (tol : α) :
    bool_collinear p1 p2 p3 tol = true ↔
      |V2.det (V2.sub p1 p2) (V2.sub p2 p3)| < tol := by
  simp only [bool_collinear, decide_eq_true_eq, V2.det, V2.sub]
  rw [mul_comm (p1.y - p2.y) (p2.x - p3.x)]

/-- Exactly collinear points pass for every positive tolerance. -/
theorem bool_collinear_of_det_zero (p1 p2 p3 : V2 α) (tol : α) (htol : 0 < tol)
    (h : V2.det (V2.sub p1 p2) (V2.sub p2 p3) = 0) : bool_collinear p1 p2 p3 tol = true := by
  rw [bool_collinear_iff, h, abs_zero]; exact htol

/-- The comparison is strict: with tolerance `≤ 0` nothing is collinear. -/
theorem bool_collinear_tol_nonpos (p1 p2 p3 : V2 α) (tol : α) (htol : tol ≤ 0) :
    bool_collinear p1 p2 p3 tol = false := by
  rw [Bool.eq_false_iff, Ne, bool_collinear_iff, not_lt]
  exact htol.trans (abs_nonneg _)

/-- `between(pt, l, r, tol)` exactly: with `dot = (pt − l)·(r − l)`,
`tol ≤ dot` and `dot − |r − l|² ≤ −tol`. -/
theorem bool_between_iff (pt l r : V2 α) (tol : α) :
    bool_between pt l r tol = true ↔
      tol ≤ V2.dot (V2.sub pt l) (V2.sub r l) ∧
      V2.dot (V2.sub pt l) (V2.sub r l) - V2.normSq (V2.sub r l) ≤ -tol := by
  simp only [bool_between, decide_eq_true_eq, not_lt, V2.dot, V2.normSq, V2.sub]

/-- For a point `pt = l + t·(r − l)` on the carrier line, `between` says that the parameter,
scaled by the squared length `L² = |r − l|²`, lies in `[tol, L² − tol]`. -/
theorem bool_between_param (pt l r : V2 α) (tol t : α)
    (hx : pt.x = l.x + t * (r.x - l.x)) (hy : pt.y = l.y + t * (r.y - l.y)) :
    bool_between pt l r tol = true ↔
      tol ≤ t * V2.normSq (V2.sub r l) ∧
      t * V2.normSq (V2.sub r l) ≤ V2.normSq (V2.sub r l) - tol := by
  rw [bool_between_iff]
  have hd : V2.dot (V2.sub pt l) (V2.sub r l) = t * V2.normSq (V2.sub r l) := by
    simp only [V2.dot, V2.normSq, V2.sub, hx, hy]; ring
  rw [hd]
  constructor <;> rintro ⟨h1, h2⟩ <;> exact ⟨h1, by linarith⟩

/-- Tolerance zero, `l ≠ r`, `pt = l + t·(r − l)`: `between` is `0 ≤ t ≤ 1`.  NOTE: the
interval is CLOSED at tolerance zero (the Python tests are `dot < tol → False`,
`dot − sqlen > −tol → False`); it is only the positive tolerance that excludes the end
points, see `bool_between_strict`. -/
theorem bool_between_tol0 (pt l r : V2 α) (t : α) (hlr : l ≠ r)
    (hx : pt.x = l.x + t * (r.x - l.x)) (hy : pt.y = l.y + t * (r.y - l.y)) :
    bool_between pt l r 0 = true ↔ 0 ≤ t ∧ t ≤ 1 := by
  rw [bool_between_param pt l r 0 t hx hy]
  have hL : 0 < V2.normSq (V2.sub r l) := normSq_sub_pos hlr
  constructor
  · rintro ⟨h1, h2⟩
    refine ⟨?_, ?_⟩
    · by_contra hneg
      have := mul_neg_of_neg_of_pos (not_le.mp hneg) hL
      linarith
    · by_contra hgt
      have := mul_lt_mul_of_pos_right (not_le.mp hgt) hL
      linarith
  · rintro ⟨h0, h1⟩
    refine ⟨mul_nonneg h0 hL.le, ?_⟩
    have := mul_le_mul_of_nonneg_right h1 hL.le
    linarith

/-- Positive tolerance, `pt = l + t·(r − l)`: `between` implies the parameter is STRICTLY
inside `(0, 1)` (by the margin `tol / |r − l|²` on both sides), and `l ≠ r`. -/
theorem bool_between_strict (pt l r : V2 α) (tol t : α) (htol : 0 < tol)
    (hx : pt.x = l.x + t * (r.x - l.x)) (hy : pt.y = l.y + t * (r.y - l.y))
    (h : bool_between pt l r tol = true) : 0 < t ∧ t < 1 ∧ l ≠ r := by
  rw [bool_between_param pt l r tol t hx hy] at h
  obtain ⟨h1, h2⟩ := h
  have hL0 : 0 ≤ V2.normSq (V2.sub r l) := normSq_nonneg' _
  have hLpos : 0 < V2.normSq (V2.sub r l) := by
    rcases hL0.lt_or_eq with h | h
    · exact h
    · rw [← h] at h1; simp at h1; linarith
  refine ⟨?_, ?_, ?_⟩
  · by_contra hneg
    have := mul_nonpos_of_nonpos_of_nonneg (not_lt.mp hneg) hL0
    linarith
  · by_contra hge
    have := mul_le_mul_of_nonneg_right (not_lt.mp hge) hL0
    linarith
  · rintro rfl
    simp [V2.normSq, V2.sub] at hLpos

/-- The end points themselves are never "between" for a positive tolerance. -/
theorem bool_between_endpoints (l r : V2 α) (tol : α) (htol : 0 < tol) :
    bool_between l l r tol = false ∧ bool_between r l r tol = false := by
  constructor
  · rw [Bool.eq_false_iff]; intro h
    have := bool_between_strict l l r tol 0 htol (by ring) (by ring) h
    exact lt_irrefl _ this.1
  · rw [Bool.eq_false_iff]; intro h
    have := bool_between_strict r l r tol 1 htol (by ring) (by ring) h
    exact lt_irrefl _ this.2.1

/-- `compare` returns −1, 0 or 1. -/
theorem bool_compare_range (p q : V2 α) (tol : α) :
    bool_compare p q tol = -1 ∨ bool_compare p q tol = 0 ∨ bool_compare p q tol = 1 := by
  unfold bool_compare; split_ifs <;> simp

/-- `compare = 0` iff both coordinates agree within the tolerance. -/
theorem bool_compare_eq_zero_iff (p q : V2 α) (tol : α) :
    bool_compare p q tol = 0 ↔ |p.x - q.x| < tol ∧ |p.y - q.y| < tol := by
  unfold bool_compare; split_ifs <;> simp [*]

/-- For a positive tolerance, `compare = −1` iff `p` is left of `q` by at least `tol`, or in
the same `x`-band and below by at least `tol` (lexicographic order with tolerance). -/
theorem bool_compare_eq_neg_one_iff (p q : V2 α) (tol : α) (htol : 0 < tol) :
    bool_compare p q tol = -1 ↔
      tol ≤ q.x - p.x ∨ (|p.x - q.x| < tol ∧ tol ≤ q.y - p.y) := by
  unfold bool_compare
  split_ifs with h1 h2 h3 h4
  · have := abs_lt.mp h1; have := abs_lt.mp h2
    simp only [false_iff, not_or, not_and, not_le]
    exact ⟨by linarith, fun _ => by linarith⟩
  · simp only [true_iff]
    right; refine ⟨h1, ?_⟩
    rw [not_lt, le_abs] at h2
    rcases h2 with h2 | h2 <;> linarith
  · simp only [false_iff, not_or, not_and, not_le]
    have := abs_lt.mp h1
    exact ⟨by linarith, fun _ => by linarith⟩
  · simp only [true_iff]
    left
    rw [not_lt, le_abs] at h1
    rcases h1 with h1 | h1 <;> linarith
  · simp only [false_iff, not_or, not_and, not_le]
    refine ⟨by linarith, fun h => absurd h h1⟩

/-- For a positive tolerance `compare` is antisymmetric: `compare p q = − compare q p`. -/
theorem bool_compare_antisymm (p q : V2 α) (tol : α) (htol : 0 < tol) :
    bool_compare p q tol = - bool_compare q p tol := by
  have key : ∀ a b : α, ¬ |a - b| < tol → ¬ a < b → ¬ b < a → False := by
    intro a b h1 h2 h3
    have : a = b := le_antisymm (not_lt.mp h3) (not_lt.mp h2)
    rw [this, sub_self, abs_zero] at h1
    exact h1 htol
  unfold bool_compare
  rw [abs_sub_comm q.x p.x, abs_sub_comm q.y p.y]
  split_ifs
  all_goals first
    | rfl
    | (exfalso; linarith)
    | (exfalso; exact key p.x q.x (by assumption) (by assumption) (by assumption))
    | (exfalso; exact key p.y q.y (by assumption) (by assumption) (by assumption))

/-- At tolerance zero antisymmetry FAILS (a point compared with itself gives `1`, not `0`):
the guard `0 < tol` of `bool_compare_antisymm` is needed. -/
example : bool_compare (⟨0, 0⟩ : V2 ℚ) ⟨0, 0⟩ 0 = 1 := by decide +kernel

/-- `is_equivalent` is symmetric. -/
theorem bool_is_equivalent_symm (a b : V2 α) (tol : α) :
    bool_is_equivalent a b tol = bool_is_equivalent b a tol := by
  unfold bool_is_equivalent
  rw [abs_sub_comm a.x b.x, abs_sub_comm a.y b.y]

/-- `is_equivalent` is the `compare = 0` relation: both coordinates within the tolerance. -/
theorem bool_is_equivalent_iff (a b : V2 α) (tol : α) :
    bool_is_equivalent a b tol = true ↔ |a.x - b.x| < tol ∧ |a.y - b.y| < tol := by
  simp only [bool_is_equivalent, decide_eq_true_eq]

/-- `is_equivalent a b ↔ compare a b = 0`. -/
theorem bool_is_equivalent_iff_compare (a b : V2 α) (tol : α) :
    bool_is_equivalent a b tol = true ↔ bool_compare a b tol = 0 := by
  rw [bool_is_equivalent_iff, bool_compare_eq_zero_iff]

/-- `is_equivalent` is reflexive exactly for positive tolerances. -/
theorem bool_is_equivalent_refl_iff (a : V2 α) (tol : α) :
    bool_is_equivalent a a tol = true ↔ 0 < tol := by
  rw [bool_is_equivalent_iff]; simp

/-- Equivalent points are within `tol·√2`: squared distance `< 2·tol²`. -/
theorem bool_is_equivalent_dist (a b : V2 α) (tol : α)
    (h : bool_is_equivalent a b tol = true) :
    V2.normSq (V2.sub a b) < 2 * (tol * tol) := by
  rw [bool_is_equivalent_iff] at h
  obtain ⟨hx, hy⟩ := h
  have h1 := abs_mul_abs_self (a.x - b.x)
  have h2 := abs_mul_abs_self (a.y - b.y)
  have hx2 : |a.x - b.x| * |a.x - b.x| < tol * tol :=
    mul_self_lt_mul_self (abs_nonneg _) hx
  have hy2 : |a.y - b.y| * |a.y - b.y| < tol * tol :=
    mul_self_lt_mul_self (abs_nonneg _) hy
  simp only [V2.normSq, V2.sub]
  linarith

/-! ### Non-vacuity of the point predicates at ℚ -/

/-- (1,1) is above the line (0,0)→(2,0); (1,−1) is not, at tolerance 1/100. -/
example : bool_point_above_or_on_line (⟨1, 1⟩ : V2 ℚ) ⟨0, 0⟩ ⟨2, 0⟩ (1 / 100) = true ∧
    bool_point_above_or_on_line (⟨1, -1⟩ : V2 ℚ) ⟨0, 0⟩ ⟨2, 0⟩ (1 / 100) = false := by
  decide +kernel
/-- The midpoint is between, the end point is not. -/
example : bool_between (⟨1, 0⟩ : V2 ℚ) ⟨0, 0⟩ ⟨2, 0⟩ (1 / 100) = true ∧
    bool_between (⟨2, 0⟩ : V2 ℚ) ⟨0, 0⟩ ⟨2, 0⟩ (1 / 100) = false := by
  decide +kernel
/-- At tolerance 0 the end point IS "between" (closed interval, see `bool_between_tol0`). -/
example : bool_between (⟨2, 0⟩ : V2 ℚ) ⟨0, 0⟩ ⟨2, 0⟩ 0 = true := by decide +kernel

end points

/-! ## §5  Cell-set identities quoted by the property (specification level) -/

section cells
variable {C : Type} [DecidableEq C]

/-- `area(A ∪ B) + area(A ∩ B) = area(A) + area(B)` for cell sets. -/
theorem cells_union_inter_card (A B : Finset C) :
    (A ∪ B).card + (A ∩ B).card = A.card + B.card :=
  Finset.card_union_add_card_inter A B

/-- The three parts returned by `boolean_split` (`A ∩ B`, `A \ B`, `B \ A`) are pairwise
disjoint. -/
theorem cells_split_disjoint (A B : Finset C) :
    Disjoint (A \ B) (A ∩ B) ∧ Disjoint (B \ A) (A ∩ B) ∧ Disjoint (A \ B) (B \ A) := by
  refine ⟨?_, ?_, ?_⟩ <;>
    · rw [Finset.disjoint_left]
      intro x h1 h2
      simp only [Finset.mem_sdiff, Finset.mem_inter] at h1 h2
      tauto

/-- The split parts partition each operand: `A = (A \ B) ∪ (A ∩ B)`, `B = (B \ A) ∪ (A ∩ B)`. -/
theorem cells_split_cover (A B : Finset C) :
    A = (A \ B) ∪ (A ∩ B) ∧ B = (B \ A) ∪ (A ∩ B) := by
  constructor <;>
    · ext x
      simp only [Finset.mem_union, Finset.mem_sdiff, Finset.mem_inter]
      tauto

/-- Areas of the split parts add up: `|A| = |A \ B| + |A ∩ B|`. -/
theorem cells_split_card (A B : Finset C) :
    A.card = (A \ B).card + (A ∩ B).card ∧ B.card = (B \ A).card + (A ∩ B).card := by
  constructor
  · rw [Finset.card_sdiff_add_card_inter]
  · rw [Finset.inter_comm, Finset.card_sdiff_add_card_inter]

/-- The xor region is the union of the two differences, and they are disjoint. -/
theorem cells_xor (A B : Finset C) :
    symmDiff A B = (A \ B) ∪ (B \ A) ∧ Disjoint (A \ B) (B \ A) :=
  ⟨rfl, (cells_split_disjoint A B).2.2⟩

/-- Membership form, as checked point by point by the harness: a cell is in the result of an
operation iff the Boolean operation of the memberships holds. -/
theorem cells_mem_ops (A B : Finset C) (x : C) :
    (decide (x ∈ A ∪ B) = opUnion (decide (x ∈ A)) (decide (x ∈ B))) ∧
    (decide (x ∈ A ∩ B) = opIntersect (decide (x ∈ A)) (decide (x ∈ B))) ∧
    (decide (x ∈ A \ B) = opDifference (decide (x ∈ A)) (decide (x ∈ B))) ∧
    (decide (x ∈ B \ A) = opDifferenceRev (decide (x ∈ A)) (decide (x ∈ B))) ∧
    (decide (x ∈ symmDiff A B) = opXor (decide (x ∈ A)) (decide (x ∈ B))) := by
  by_cases hA : x ∈ A <;> by_cases hB : x ∈ B <;>
    simp [hA, hB, opUnion, opIntersect, opDifference, opDifferenceRev, opXor,
      Finset.mem_symmDiff]

end cells

end Lbg.Props.C04
